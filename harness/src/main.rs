//! shred_verif harness: one binary, one sub-command per correspondence suite.
#[cfg(feature = "parallel")]
mod asynch;
mod exec;
mod hsys;
mod plan;
mod prog;
mod metah;
#[cfg(feature = "parallel")]
mod parseq;
#[cfg(feature = "parallel")]
mod poolh;
#[cfg(feature = "parallel")]
mod cellsh;
mod rng;
mod worldh;

use hsys::MapMode;
use rng::Rng;
use std::io::{BufRead, Write};

/// watchdog for the suites that dispatch on real threads: a case that does not come back (a deadlocked dispatch cannot be
/// interrupted) is reported as `<case>\thang` and ends the process; the callers flush their output before every case
pub struct Watch(std::sync::Arc<std::sync::Mutex<Option<(String, std::time::Instant, u64)>>>);
impl Watch {
    pub fn new() -> Watch {
        let cur: std::sync::Arc<std::sync::Mutex<Option<(String, std::time::Instant, u64)>>> = std::sync::Arc::new(std::sync::Mutex::new(None));
        let c2 = cur.clone();
        std::thread::spawn(move || loop {
            std::thread::sleep(std::time::Duration::from_millis(500));
            let g = c2.lock().unwrap();
            if let Some((case, start, budget_ms)) = &*g {
                if start.elapsed().as_millis() as u64 > *budget_ms {
                    let mut o = std::io::stdout();
                    let _ = writeln!(o, "{}\thang", case);
                    let _ = o.flush();
                    std::process::exit(0);
                }
            }
        });
        Watch(cur)
    }
    pub fn begin(&self, case: String, budget_ms: u64) { *self.0.lock().unwrap() = Some((case, std::time::Instant::now(), budget_ms)); }
    pub fn end(&self) { *self.0.lock().unwrap() = None; }
}
const CASE_BUDGET_MS: u64 = 120_000;

fn arg<'a>(args: &'a [String], key: &str) -> Option<&'a str> {
    args.iter().position(|a| a == key).and_then(|i| args.get(i + 1)).map(|s| s.as_str())
}

fn main() {
    std::panic::set_hook(Box::new(|_| {}));
    let args: Vec<String> = std::env::args().collect();
    let cmd = args.get(1).map(|s| s.as_str()).unwrap_or("");
    match cmd {
        "plan" => plan_cmd(&args[2..]),
        "exec" => exec_cmd(&args[2..]),
        "world" => world_cmd(&args[2..]),
        "meta" => meta_cmd(&args[2..]),
        #[cfg(feature = "parallel")]
        "parseq" => parseq_cmd(&args[2..]),
        #[cfg(feature = "parallel")]
        "async" => async_cmd(&args[2..]),
        #[cfg(feature = "parallel")]
        "pool" => pool_cmd(&args[2..]),
        #[cfg(feature = "parallel")]
        "cells" => cells_cmd(&args[2..]),
        _ => {
            eprintln!("usage: shred_verif <plan|...> [options]");
            std::process::exit(2);
        }
    }
}

/// plan --gen random|malformed|funnel|chain|exh --count N --seed S --shard i/n   (generate, run, print)
/// plan --cases FILE                                                            (run given case lines)
fn plan_cmd(args: &[String]) {
    let env = plan::PlanEnv {
        #[cfg(feature = "parallel")]
        pool: std::sync::Arc::new(rayon::ThreadPoolBuilder::new().num_threads(2).build().unwrap()),
        #[cfg(feature = "parallel")]
        pool_alt: std::sync::Arc::new(rayon::ThreadPoolBuilder::new().num_threads(1).build().unwrap()),
    };
    let stdout = std::io::stdout();
    let mut out = std::io::BufWriter::new(stdout.lock());
    let mut emit_meta = |map: MapMode, meta: &str, regs: &[prog::Reg], out: &mut dyn Write| {
        let case = format!("plan map={} meta={} :: {}", map.name(), meta, prog::to_text(regs));
        // the variant (`...b`) is built with a pool of another size
        let obs = plan::observe_with(regs, map, &env, meta.ends_with('b'));
        writeln!(out, "{}\t{}", case, obs).unwrap();
    };
    let mut emit = |map: MapMode, regs: &[prog::Reg], out: &mut dyn Write| {
        let case = format!("plan map={} :: {}", map.name(), prog::to_text(regs));
        let obs = plan::observe(regs, map, &env);
        writeln!(out, "{}\t{}", case, obs).unwrap();
    };
    let mut emit_rec = |map: MapMode, regs: &[prog::Reg], out: &mut dyn Write| {
        let case = format!("plan map={} rec=1 :: {}", map.name(), prog::to_text(regs));
        let obs = plan::observe_mode(regs, map, &env, false, true);
        writeln!(out, "{}\t{}", case, obs).unwrap();
    };
    if let Some(f) = arg(args, "--cases") {
        let rd: Box<dyn BufRead> = if f == "-" { Box::new(std::io::BufReader::new(std::io::stdin())) }
            else { Box::new(std::io::BufReader::new(std::fs::File::open(f).expect("cases file"))) };
        for line in rd.lines() {
            let line = line.unwrap();
            let case = line.split('\t').next().unwrap().trim();
            if case.is_empty() || case.starts_with('#') { continue; }
            let (head, progt) = case.split_once(" :: ").unwrap_or((case, ""));
            let map = head.split(' ').find_map(|t| t.strip_prefix("map=")).map(MapMode::parse).unwrap_or(MapMode::A);
            let regs = prog::from_text(progt);
            if head.split(' ').any(|t| t == "rec=1") { emit_rec(map, &regs, &mut out); continue; }
            match head.split(' ').find_map(|t| t.strip_prefix("meta=")) {
                Some(m) => emit_meta(map, m, &regs, &mut out),
                None => emit(map, &regs, &mut out),
            }
        }
        return;
    }
    let gen = arg(args, "--gen").unwrap_or("random");
    let count: u64 = arg(args, "--count").map(|s| s.parse().unwrap()).unwrap_or(100);
    let seed: u64 = arg(args, "--seed").map(|s| s.parse().unwrap()).unwrap_or(1);
    let (si, sn) = arg(args, "--shard").map(|s| { let (a, b) = s.split_once('/').unwrap(); (a.parse::<u64>().unwrap(), b.parse::<u64>().unwrap()) }).unwrap_or((0, 1));
    match gen {
        "exh" => {
            // exhaustive small scope, sliced: --count = stride (1 = everything)
            for nsys in 1..=3u32 {
                let size = prog::exhaustive_size(nsys);
                let mut k = si * count.max(1) + (seed % count.max(1));
                let step = sn * count.max(1);
                while k < size {
                    let regs = prog::exhaustive_nth(nsys, k);
                    emit(MapMode::A, &regs, &mut out);
                    k += step;
                }
            }
        }
        "meta" => {
            // C19: pairs (base, variant) of the same registration sequence; the driver compares the two REAL plans
            let mut rng = Rng::new(seed.wrapping_mul(1_000_033).wrapping_add(si).wrapping_add(0xC19));
            for k in 0..count {
                let mut r = rng.fork();
                let mut base = match r.below(4) { 0 => prog::gen_funnel(&mut r), 1 => prog::gen_chain(&mut r), _ => prog::gen_random(&mut r, false) };
                prog::normalise_for_meta(&mut base);
                let a = [1u32, 3, 7][r.below(3) as usize];
                let b = r.below(40) as u32;
                let variant = prog::meta_variant(&mut r, &base, a, b);
                let m1 = [MapMode::A, MapMode::B, MapMode::C][r.below(3) as usize];
                let m2 = [MapMode::A, MapMode::B, MapMode::C][r.below(3) as usize];
                emit_meta(m1, &format!("{}a", k), &base, &mut out);
                emit_meta(m2, &format!("{}b", k), &variant, &mut out);
            }
        }
        "recover" => {
            // ill-formed registrations are caught and the builder is used on: the plan is the plan of the accepted ones
            let mut rng = Rng::new(seed.wrapping_mul(1_000_037).wrapping_add(si).wrapping_add(0x2EC));
            for _ in 0..count {
                let mut r = rng.fork();
                let regs = prog::gen_random(&mut r, true);
                let uses_menu = prog::uses_menu(&regs);
                let map = if uses_menu { MapMode::A } else { [MapMode::A, MapMode::B, MapMode::C][r.below(3) as usize] };
                emit_rec(map, &regs, &mut out);
            }
        }
        _ => {
            let mut rng = Rng::new(seed.wrapping_mul(1_000_003).wrapping_add(si));
            for _ in 0..count {
                let mut r = rng.fork();
                let regs = match gen {
                    "malformed" => prog::gen_random(&mut r, true),
                    "funnel" => prog::gen_funnel(&mut r),
                    "widestage" => prog::gen_widestage(&mut r),
                    "saturated" => prog::gen_saturated(&mut r),
                    "chain" => prog::gen_chain(&mut r),
                    _ => prog::gen_random(&mut r, false),
                };
                // static menus exist only under mapping A
                let uses_menu = prog::uses_menu(&regs);
                let map = if uses_menu { MapMode::A } else { [MapMode::A, MapMode::B, MapMode::C][r.below(3) as usize] };
                emit(map, &regs, &mut out);
            }
        }
    }
}

/// exec --gen random|faults --count N --seed S --shard i/n    |   exec --cases FILE
fn exec_cmd(args: &[String]) {
    let mut env = exec::ExecEnv::new();
    // (stdout is not locked: the watchdog writes to it too)
    let mut out = std::io::BufWriter::new(std::io::stdout());
    let watch = Watch::new();
    if let Some(f) = arg(args, "--cases") {
        let rd: Box<dyn BufRead> = if f == "-" { Box::new(std::io::BufReader::new(std::io::stdin())) }
            else { Box::new(std::io::BufReader::new(std::fs::File::open(f).expect("cases file"))) };
        for line in rd.lines() {
            let line = line.unwrap();
            let case = line.split('\t').next().unwrap().trim();
            if case.is_empty() || case.starts_with('#') { continue; }
            let c = exec::ExecCase::parse(case);
            out.flush().unwrap();
            watch.begin(format!("{} :: {}", c.head(), prog::to_text(&c.regs)), CASE_BUDGET_MS);
            let obs = exec::observe(&c, &mut env);
            watch.end();
            writeln!(out, "{} :: {}\t{}", c.head(), prog::to_text(&c.regs), obs).unwrap();
        }
        return;
    }
    let gen = arg(args, "--gen").unwrap_or("random");
    let count: u64 = arg(args, "--count").map(|s| s.parse().unwrap()).unwrap_or(100);
    let seed: u64 = arg(args, "--seed").map(|s| s.parse().unwrap()).unwrap_or(1);
    let (si, _sn) = arg(args, "--shard").map(|s| { let (a, b) = s.split_once('/').unwrap(); (a.parse::<u64>().unwrap(), b.parse::<u64>().unwrap()) }).unwrap_or((0, 1));
    let mut rng = Rng::new(seed.wrapping_mul(7_000_003).wrapping_add(si).wrapping_add(0xE8EC));
    for _ in 0..count {
        let mut r = rng.fork();
        let regs = if gen == "funnel" { prog::gen_funnel_n(&mut r, 14) } else { prog::gen_exec(&mut r, gen == "kf1") };
        let mut tags = Vec::new();
        prog::all_tags(&regs, &mut tags);
        let uses_menu = prog::uses_menu(&regs);
        let map = if uses_menu { MapMode::A } else { [MapMode::A, MapMode::B, MapMode::C][r.below(3) as usize] };
        let pool = [1usize, 2, 4, 16][r.below(4) as usize];
        let ncalls = 1 + r.below(3);
        let calls: Vec<char> = (0..ncalls).map(|_| ['d', 'd', 'r', 'p', 's', 't'][r.below(6) as usize]).collect();
        let mut faults = Vec::new();
        let mode = if gen == "faults" {
            if !tags.is_empty() {
                faults.push(tags[r.below(tags.len() as u64) as usize]);
                if r.chance(1, 4) { faults.push(tags[r.below(tags.len() as u64) as usize]); }
                faults.sort(); faults.dedup();
            }
            if r.chance(1, 2) { exec::Mode::Overlap } else { exec::Mode::Jitter(r.next()) }
        } else if gen == "funnel" {
            if r.chance(2, 3) { exec::Mode::Overlap } else { exec::Mode::Jitter(r.next()) }
        } else {
            match r.below(6) {
                0 => exec::Mode::Free,
                1 | 2 => if tags.is_empty() { exec::Mode::Free } else { exec::Mode::Hold(tags[r.below(tags.len() as u64) as usize]) },
                3 | 4 => exec::Mode::Overlap,
                _ => exec::Mode::Jitter(r.next()),
            }
        };
        let next = if gen == "faults" { ['d', 'r', 'p', 's'][r.below(4) as usize] } else { 'd' };
        let nest = r.chance(1, 4);
        // one fault case in five: 3..8 compatible systems (one stage), the first two panic in the same dispatch; the later
        // single panic of the harness (the last system) must then surface with its own payload
        let (regs, faults, calls, mode) = if gen == "faults" && r.chance(1, 5) {
            let n = 3 + r.below(6) as u32;
            let regs: Vec<prog::Reg> = (1..=n).map(|t| prog::Reg::Sys { tag: t, name: format!("s{}", t), deps: vec![], reads: vec![], writes: vec![40 + t],
                                                                      time: 3, kind: prog::SysKind::Dynamic }).collect();
            (regs, vec![1, 2], vec!['d'], if r.chance(1, 2) { exec::Mode::Free } else { exec::Mode::Jitter(r.next()) })
        } else { (regs, faults, calls, mode) };
        let c = exec::ExecCase { map, pool, mode, calls, faults, next, nest, regs };
        out.flush().unwrap();
        watch.begin(format!("{} :: {}", c.head(), prog::to_text(&c.regs)), CASE_BUDGET_MS);
        let obs = exec::observe(&c, &mut env);
        watch.end();
        writeln!(out, "{} :: {}\t{}", c.head(), prog::to_text(&c.regs), obs).unwrap();
    }
}

/// world --gen random|malformed|exh --count N --seed S --shard i/n   |   world --cases FILE
fn world_cmd(args: &[String]) {
    let stdout = std::io::stdout();
    let mut out = std::io::BufWriter::new(stdout.lock());
    let mut emit = |ops: &[worldh::Op], out: &mut dyn Write| {
        writeln!(out, "world :: {}\t{}", worldh::ops_text(ops), worldh::observe(ops)).unwrap();
    };
    if let Some(f) = arg(args, "--cases") {
        let rd: Box<dyn BufRead> = Box::new(std::io::BufReader::new(std::fs::File::open(f).expect("cases file")));
        for line in rd.lines() {
            let line = line.unwrap();
            let case = line.split('\t').next().unwrap().trim();
            if case.is_empty() || case.starts_with('#') { continue; }
            let (_h, t) = case.split_once(" :: ").unwrap_or((case, ""));
            emit(&worldh::parse_ops(t), &mut out);
        }
        return;
    }
    let gen = arg(args, "--gen").unwrap_or("random");
    let count: u64 = arg(args, "--count").map(|s| s.parse().unwrap()).unwrap_or(100);
    let seed: u64 = arg(args, "--seed").map(|s| s.parse().unwrap()).unwrap_or(1);
    let (si, sn) = arg(args, "--shard").map(|s| { let (a, b) = s.split_once('/').unwrap(); (a.parse::<u64>().unwrap(), b.parse::<u64>().unwrap()) }).unwrap_or((0, 1));
    if gen == "exh" {
        let size = worldh::exhaustive_size();
        let stride = count.max(1);
        let mut k = si * stride + (seed % stride);
        while k < size { emit(&worldh::exhaustive_nth(k), &mut out); k += sn * stride; }
        return;
    }
    let mut rng = Rng::new(seed.wrapping_mul(5_000_011).wrapping_add(si).wrapping_add(0x3017));
    for _ in 0..count {
        let mut r = rng.fork();
        let max_len = match r.below(4) { 0 => 6, 1 | 2 => 30, _ => 200 };
        let ops = worldh::gen_history(&mut r, max_len, gen == "malformed");
        emit(&ops, &mut out);
    }
}

/// meta --gen random|bad|exh --count N --seed S --shard i/n   |   meta --cases FILE
fn meta_cmd(args: &[String]) {
    let stdout = std::io::stdout();
    let mut out = std::io::BufWriter::new(stdout.lock());
    let mut emit = |ops: &[metah::Op], out: &mut dyn Write| {
        writeln!(out, "meta :: {}\t{}", metah::ops_text(ops), metah::observe(ops)).unwrap();
    };
    if let Some(f) = arg(args, "--cases") {
        let rd: Box<dyn BufRead> = Box::new(std::io::BufReader::new(std::fs::File::open(f).expect("cases file")));
        for line in rd.lines() {
            let line = line.unwrap();
            let case = line.split('\t').next().unwrap().trim();
            if case.is_empty() || case.starts_with('#') { continue; }
            let (_h, t) = case.split_once(" :: ").unwrap_or((case, ""));
            emit(&metah::parse_ops(t), &mut out);
        }
        return;
    }
    let gen = arg(args, "--gen").unwrap_or("random");
    let count: u64 = arg(args, "--count").map(|s| s.parse().unwrap()).unwrap_or(100);
    let seed: u64 = arg(args, "--seed").map(|s| s.parse().unwrap()).unwrap_or(1);
    let (si, sn) = arg(args, "--shard").map(|s| { let (a, b) = s.split_once('/').unwrap(); (a.parse::<u64>().unwrap(), b.parse::<u64>().unwrap()) }).unwrap_or((0, 1));
    if gen == "exh" {
        let size = metah::exhaustive_size();
        let stride = count.max(1);
        let mut k = si * stride + (seed % stride);
        while k < size { emit(&metah::exhaustive_nth(k), &mut out); k += sn * stride; }
        return;
    }
    let mut rng = Rng::new(seed.wrapping_mul(3_000_017).wrapping_add(si).wrapping_add(0x3E7A));
    for _ in 0..count {
        let mut r = rng.fork();
        let max_len = match r.below(4) { 0 => 6, 1 | 2 => 25, _ => 100 };
        let ops = metah::gen_history(&mut r, max_len, gen == "bad");
        emit(&ops, &mut out);
    }
}

/// parseq --gen random|conflicts|exh|wide --count N --seed S --shard i/n   |   parseq --cases FILE
#[cfg(feature = "parallel")]
fn parseq_cmd(args: &[String]) {
    let mut out = std::io::BufWriter::new(std::io::stdout());
    let watch = Watch::new();
    let mut pools = std::collections::HashMap::new();
    let mut emit = |c: &parseq::Case, out: &mut dyn Write| {
        out.flush().unwrap();
        watch.begin(format!("{} :: {}", c.head(), parseq::tree_text(&c.tree)), CASE_BUDGET_MS);
        let obs = parseq::observe(c, &mut pools);
        watch.end();
        writeln!(out, "{} :: {}\t{}", c.head(), parseq::tree_text(&c.tree), obs).unwrap();
    };
    if let Some(f) = arg(args, "--cases") {
        let rd: Box<dyn BufRead> = Box::new(std::io::BufReader::new(std::fs::File::open(f).expect("cases file")));
        for line in rd.lines() {
            let line = line.unwrap();
            let case = line.split('\t').next().unwrap().trim();
            if case.is_empty() || case.starts_with('#') { continue; }
            emit(&parseq::Case::parse(case), &mut out);
        }
        return;
    }
    let gen = arg(args, "--gen").unwrap_or("random");
    let count: u64 = arg(args, "--count").map(|s| s.parse().unwrap()).unwrap_or(100);
    let seed: u64 = arg(args, "--seed").map(|s| s.parse().unwrap()).unwrap_or(1);
    let (si, sn) = arg(args, "--shard").map(|s| { let (a, b) = s.split_once('/').unwrap(); (a.parse::<u64>().unwrap(), b.parse::<u64>().unwrap()) }).unwrap_or((0, 1));
    if gen == "exh" {
        // every shape with <= 4 leaves x a few access patterns (conflict-free and conflicting)
        let shapes = parseq::exhaustive_shapes(4);
        for (i, sh) in shapes.iter().enumerate() {
            if i as u64 % sn != si { continue; }
            for k in 0..count.max(1) {
                let pattern = crate::rng::mix(seed, (i as u64) << 8 | k);
                let mut next = 0;
                let tree = parseq::label(sh, &mut next, if k == 0 { 0 } else { pattern });
                let c = parseq::Case { pool: [1usize, 2, 4][(pattern % 3) as usize], mode: if k % 2 == 0 { "overlap".into() } else { "free".into() }, inside: pattern & 8 != 0, tree };
                emit(&c, &mut out);
            }
        }
        return;
    }
    if gen == "wide" {
        // `count` = stride through the family (1 = all of it)
        let stride = count.max(1);
        let mut k = seed % stride;
        while k < parseq::wide_count() {
            if (k / stride) % sn == si { emit(&parseq::wide_nth(k), &mut out); }
            k += stride;
        }
        return;
    }
    let mut rng = Rng::new(seed.wrapping_mul(9_000_011).wrapping_add(si).wrapping_add(0x9A85));
    for _ in 0..count {
        let mut r = rng.fork();
        let c = parseq::gen_case(&mut r, gen == "conflicts");
        emit(&c, &mut out);
    }
}

/// async --gen random --count N --seed S --shard i/n   |   async --cases FILE
#[cfg(feature = "parallel")]
fn async_cmd(args: &[String]) {
    let mut out = std::io::BufWriter::new(std::io::stdout());
    let watch = Watch::new();
    let mut pools = std::collections::HashMap::new();
    let mut emit = |c: &asynch::Case, out: &mut dyn Write| {
        out.flush().unwrap();
        watch.begin(format!("{} :: {}", c.head(), prog::to_text(&c.regs)), CASE_BUDGET_MS);
        let obs = asynch::observe(c, &mut pools);
        watch.end();
        writeln!(out, "{} :: {}\t{}", c.head(), prog::to_text(&c.regs), obs).unwrap();
    };
    if let Some(f) = arg(args, "--cases") {
        let rd: Box<dyn BufRead> = Box::new(std::io::BufReader::new(std::fs::File::open(f).expect("cases file")));
        for line in rd.lines() {
            let line = line.unwrap();
            let case = line.split('\t').next().unwrap().trim();
            if case.is_empty() || case.starts_with('#') { continue; }
            emit(&asynch::Case::parse(case), &mut out);
        }
        return;
    }
    let count: u64 = arg(args, "--count").map(|s| s.parse().unwrap()).unwrap_or(100);
    let seed: u64 = arg(args, "--seed").map(|s| s.parse().unwrap()).unwrap_or(1);
    let (si, _sn) = arg(args, "--shard").map(|s| { let (a, b) = s.split_once('/').unwrap(); (a.parse::<u64>().unwrap(), b.parse::<u64>().unwrap()) }).unwrap_or((0, 1));
    let mut rng = Rng::new(seed.wrapping_mul(11_000_027).wrapping_add(si).wrapping_add(0xA57C));
    for _ in 0..count {
        let mut r = rng.fork();
        let c = asynch::gen_case(&mut r);
        if std::env::var("VERIF_TRACE_CASES").is_ok() { eprintln!("{} :: {}", c.head(), prog::to_text(&c.regs)); }
        emit(&c, &mut out);
    }
}

/// pool --gen all|small --count REPS --seed S --shard i/n   |   pool --cases FILE
/// one line per configuration: "pool cfg=<user|default|batch|async> width=<w> threads=<p> reps=<k> limit=<ms>"
#[cfg(feature = "parallel")]
fn pool_cmd(args: &[String]) {
    // (not locked: the watchdog thread writes to it too)
    let mut out = std::io::stdout();
    // watchdog: a configuration that does not come back (a deadlocked dispatch cannot be interrupted) is reported as
    // `hang` and ends the process; everything before it has been flushed
    let current: std::sync::Arc<std::sync::Mutex<Option<(String, std::time::Instant, u64)>>> = std::sync::Arc::new(std::sync::Mutex::new(None));
    {
        let current = current.clone();
        std::thread::spawn(move || loop {
            std::thread::sleep(std::time::Duration::from_millis(500));
            let g = current.lock().unwrap();
            if let Some((case, start, budget_ms)) = &*g {
                if start.elapsed().as_millis() as u64 > *budget_ms {
                    println!("{} :: -\thang", case);
                    let _ = std::io::stdout().flush();
                    std::process::exit(0);
                }
            }
        });
    }
    let mut confirmed_misses = 0u32;
    let mut emit = |cfg: &str, width: u32, threads: usize, reps: u32, limit: u64, out: &mut dyn Write| {
        let case = format!("pool cfg={} width={} threads={} reps={} limit={}", cfg, width, threads, reps, limit);
        // the repetitions stop at the first timeout; in that one the heads may time out one after the other
        *current.lock().unwrap() = Some((case.clone(), std::time::Instant::now(), limit * (width as u64 + 2) + 30_000));
        let mut obs = poolh::observe(cfg, width, threads, reps, limit);
        // a rendezvous missed although the pool is large enough can be the machine (heavy load: `width` threads must all get a
        // CPU within the limit), not the crate: the configuration is run once more with four times the limit, and that
        // result counts - a dispatcher that really serialises the stage times out at any limit
        // (only the first two confirmed misses of a run are re-run: after that it is not the machine)
        if threads >= width as usize && obs.contains("timeout=1") && confirmed_misses < 2 {
            *current.lock().unwrap() = Some((case.clone(), std::time::Instant::now(), 4 * limit * (width as u64 + 2) + 30_000));
            obs = poolh::observe(cfg, width, threads, 1, 4 * limit);
            if obs.contains("timeout=1") { confirmed_misses += 1; }
        }
        *current.lock().unwrap() = None;
        writeln!(out, "{} :: -\t{}", case, obs).unwrap();
        out.flush().unwrap();
    };
    if let Some(f) = arg(args, "--cases") {
        let rd: Box<dyn BufRead> = Box::new(std::io::BufReader::new(std::fs::File::open(f).expect("cases file")));
        for line in rd.lines() {
            let line = line.unwrap();
            let case = line.split('\t').next().unwrap().trim();
            if case.is_empty() || case.starts_with('#') { continue; }
            let get = |k: &str| case.split(' ').find_map(|t| t.strip_prefix(k)).map(|v| v.to_string());
            emit(&get("cfg=").unwrap(), get("width=").unwrap().parse().unwrap(), get("threads=").unwrap().parse().unwrap(),
                 get("reps=").unwrap().parse().unwrap(), get("limit=").unwrap().parse().unwrap(), &mut out);
        }
        return;
    }
    let gen = arg(args, "--gen").unwrap_or("all");
    let reps: u32 = arg(args, "--count").map(|s| s.parse().unwrap()).unwrap_or(3);
    let (si, sn) = arg(args, "--shard").map(|s| { let (a, b) = s.split_once('/').unwrap(); (a.parse::<u64>().unwrap(), b.parse::<u64>().unwrap()) }).unwrap_or((0, 1));
    let cpus = std::thread::available_parallelism().map(|n| n.get()).unwrap_or(4);
    let mut k = 0u64;
    let widths: Vec<u32> = if gen == "small" { vec![2, 3, 5] } else { (2..=16).collect() };
    for w in widths {
        for cfg in ["user", "default", "batch", "async", "foreign", "defbatch", "batchfirst", "asyncforeign", "asyncdouble", "defforeign", "asyncdefforeign", "batch2", "batchdeep", "seqbatch", "afterpanic", "sendrunnow"] {
            // pool exactly as wide as the stage, and a larger one; the default pool has one thread per CPU
            let sizes: Vec<usize> = if cfg == "default" || cfg == "defforeign" || cfg == "asyncdefforeign" { if (w as usize) <= cpus { vec![cpus] } else { vec![] } } else if cfg == "defbatch" { if (w as usize) < cpus { vec![cpus] } else { vec![] } } else { vec![w as usize, 16.max(w as usize)] };
            for p in sizes {
                k += 1;
                if k % sn != si { continue; }
                emit(cfg, w, p, reps, 5000, &mut out);
            }
        }
    }
    // two async dispatchers sharing pools of 1 and of 2 threads (stage width 1)
    for p in [1usize, 2] {
        k += 1;
        if k % sn != si { continue; }
        emit("asyncpair", 1, p, reps, 5000, &mut out);
    }
    // the precondition is needed: one thread fewer than groups cannot complete the rendezvous (short limit)
    for w in [2u32, 4] {
        k += 1;
        if k % sn != si { continue; }
        emit("user", w, w as usize - 1, 1, 250, &mut out);
    }
}

/// cells --count N --seed S --shard i/n   |   cells --cases FILE
#[cfg(feature = "parallel")]
fn cells_cmd(args: &[String]) {
    let env = cellsh::Env::new();
    let mut out = std::io::BufWriter::new(std::io::stdout());
    let watch = Watch::new();
    let mut emit = |ops: &[cellsh::BOp], out: &mut dyn Write| {
        let case = format!("cells :: {}", cellsh::text(ops));
        out.flush().unwrap();
        watch.begin(case.clone(), CASE_BUDGET_MS);
        let obs = cellsh::observe(ops, &env);
        watch.end();
        writeln!(out, "{}\t{}", case, obs).unwrap();
    };
    if let Some(f) = arg(args, "--cases") {
        let rd: Box<dyn BufRead> = Box::new(std::io::BufReader::new(std::fs::File::open(f).expect("cases file")));
        for line in rd.lines() {
            let line = line.unwrap();
            let case = line.split('\t').next().unwrap().trim();
            if case.is_empty() || case.starts_with('#') { continue; }
            let (_h, t) = case.split_once(" :: ").unwrap_or((case, ""));
            emit(&cellsh::parse(t), &mut out);
        }
        return;
    }
    let count: u64 = arg(args, "--count").map(|s| s.parse().unwrap()).unwrap_or(100);
    let seed: u64 = arg(args, "--seed").map(|s| s.parse().unwrap()).unwrap_or(1);
    let (si, _sn) = arg(args, "--shard").map(|s| { let (a, b) = s.split_once('/').unwrap(); (a.parse::<u64>().unwrap(), b.parse::<u64>().unwrap()) }).unwrap_or((0, 1));
    let mut rng = Rng::new(seed.wrapping_mul(13_000_027).wrapping_add(si).wrapping_add(0xCE11));
    // the situations of the repaired defect first
    if si == 0 {
        for t in ["P1 B{ B{ } }", "B{ B{ } } P2", "B{ P3 B{ B{ } } } P1", "B{ B{ B{ } } }", "P1 B{ P2 } B{ B{ P3 } }"] { emit(&cellsh::parse(t), &mut out); }
    }
    for _ in 0..count {
        let mut r = rng.fork();
        let ops = cellsh::gen_case(&mut r);
        emit(&ops, &mut out);
    }
}
