//! Suite S8: a stage of `width` groups whose systems wait for each other inside `run` (C11).
#![cfg(feature = "parallel")]
use crate::hsys::*;
use crate::prog::*;
use std::panic::{catch_unwind, AssertUnwindSafe};
use std::sync::{Arc, Condvar, Mutex};
use std::time::{Duration, Instant};

/// every head waits inside run until `width` heads have arrived (or the time limit is over)
struct Rendezvous { width: usize, arrived: Mutex<(usize, usize)>, cv: Condvar, limit: Duration, timed_out: Mutex<bool>, max_seen: Mutex<usize> }
impl Sched for Rendezvous {
    fn at(&self, tag: u32, p: Point) {
        // the batch controller (tag 1000) is not one of the systems that meet
        if p != Point::Run || tag >= 1000 { return; }
        // (once one head has given up, the others of this repetition do not wait their 5 s each)
        if *self.timed_out.lock().unwrap() { return; }
        let mut g = self.arrived.lock().unwrap();
        g.0 += 1;
        // (arrivals beyond `width` belong to a later dispatch of the same repetition: they neither count nor wait)
        { let mut m = self.max_seen.lock().unwrap(); if g.0 > *m && g.0 <= self.width { *m = g.0; } }
        self.cv.notify_all();
        let deadline = Instant::now() + self.limit;
        let generation = g.1;
        while g.0 < self.width && g.1 == generation {
            let now = Instant::now();
            if now >= deadline { *self.timed_out.lock().unwrap() = true; break; }
            let (ng, _) = self.cv.wait_timeout(g, deadline - now).unwrap();
            g = ng;
        }
    }
}
impl Rendezvous {
    fn reset(&self) { let mut g = self.arrived.lock().unwrap(); g.0 = 0; g.1 += 1; *self.timed_out.lock().unwrap() = false; }
}

fn flat(width: u32) -> Vec<Reg> {
    (1..=width).map(|t| Reg::Sys { tag: t, name: format!("s{}", t), deps: vec![], reads: vec![], writes: vec![100 + t], time: 3, kind: SysKind::Dynamic }).collect()
}

/// cfg: user | default | batch | async | batch2 | batchdeep | seqbatch | afterpanic | sendrunnow | asyncpair | foreign | defforeign (default pool) | asyncforeign | asyncdefforeign | asyncdouble | defbatch | batchfirst ; returns "arrived=<max simultaneously inside>;timeout=<0|1>;ok=<0|1>" per repetition
pub fn observe(cfg: &str, width: u32, pool_size: usize, reps: u32, limit_ms: u64) -> String {
    let rec = Recorder::new(MapMode::B);
    rec.set_caller();
    let pool = Arc::new(rayon::ThreadPoolBuilder::new().num_threads(pool_size).build().unwrap());
    let regs: Vec<Reg> = if cfg == "afterpanic" {
        // the wide stage plus one system (tag 999) that panics in a SEQUENTIAL dispatch made before the measured ones
        let mut v = flat(width);
        v.push(Reg::Sys { tag: 999, name: "p".into(), deps: vec![], reads: vec![], writes: vec![399], time: 3, kind: SysKind::Dynamic });
        v
    } else if cfg == "batch" || cfg == "batchfirst" || cfg == "seqbatch" {
        vec![Reg::Batch { tag: 1000, name: "b".into(), deps: vec![], creads: vec![], cwrites: vec![], time: 5, count: 1,
                          ctl: CtlKind { menu: 0, multi: false }, inner: flat(width) }]
    } else if cfg == "batch2" {
        // the wide stage sits in a batch that ALSO contains a (narrow) nested batch, registered first
        let nested = vec![Reg::Sys { tag: 1002, name: "n".into(), deps: vec![], reads: vec![], writes: vec![301], time: 3, kind: SysKind::Dynamic }];
        let mut inner = vec![Reg::Batch { tag: 1001, name: "nb".into(), deps: vec![], creads: vec![], cwrites: vec![], time: 1, count: 1,
                                          ctl: CtlKind { menu: 0, multi: false }, inner: nested }];
        inner.push(Reg::Barrier);
        inner.extend(flat(width));
        vec![Reg::Batch { tag: 1000, name: "b".into(), deps: vec![], creads: vec![], cwrites: vec![], time: 5, count: 1,
                          ctl: CtlKind { menu: 0, multi: false }, inner }]
    } else if cfg == "batchdeep" {
        // the wide stage sits two batches deep
        let mid = vec![Reg::Batch { tag: 1001, name: "nb".into(), deps: vec![], creads: vec![], cwrites: vec![], time: 5, count: 1,
                                    ctl: CtlKind { menu: 0, multi: false }, inner: flat(width) }];
        vec![Reg::Batch { tag: 1000, name: "b".into(), deps: vec![], creads: vec![], cwrites: vec![], time: 5, count: 1,
                          ctl: CtlKind { menu: 0, multi: false }, inner: mid }]
    } else if cfg == "defbatch" {
        // a narrow batch registered FIRST (its builder shares the pool handle and is built first), then the wide stage
        let inner = vec![Reg::Sys { tag: 1001, name: "i".into(), deps: vec![], reads: vec![], writes: vec![300], time: 3, kind: SysKind::Dynamic }];
        let mut v = vec![Reg::Batch { tag: 1000, name: "b".into(), deps: vec![], creads: vec![], cwrites: vec![], time: 1, count: 1,
                                      ctl: CtlKind { menu: 0, multi: false }, inner }];
        v.extend(flat(width));
        v
    } else { flat(width) };
    let out = if cfg == "default" || cfg == "defbatch" || cfg == "defforeign" || cfg == "asyncdefforeign" { build(&regs, &rec, None) }
    else if cfg == "batchfirst" {
        // the batch is registered BEFORE the user pool is attached (add_batch builds the inner dispatcher at once, which
        // creates a default pool in the shared cell - kept tiny here); add_pool afterwards must reach the batch too
        let old = std::env::var("RAYON_NUM_THREADS").ok();
        std::env::set_var("RAYON_NUM_THREADS", "1");
        let o = build(&regs, &rec, None);
        match old { Some(v) => std::env::set_var("RAYON_NUM_THREADS", v), None => std::env::remove_var("RAYON_NUM_THREADS") }
        o
    } else if cfg == "batch" || cfg == "batch2" || cfg == "batchdeep" || cfg == "seqbatch" {
        // the user's pool is attached to the outermost builder only (add_batch hands it on to the batches)
        // (any default pool created on the way - for a batch nested deeper than one level - is kept tiny, so that it shows
        // if such a batch does not end up on the user's pool)
        let old = std::env::var("RAYON_NUM_THREADS").ok();
        std::env::set_var("RAYON_NUM_THREADS", "1");
        POOL_OUTER_ONLY.with(|c| c.set(true));
        let o = build(&regs, &rec, Some(&pool));
        POOL_OUTER_ONLY.with(|c| c.set(false));
        match old { Some(v) => std::env::set_var("RAYON_NUM_THREADS", v), None => std::env::remove_var("RAYON_NUM_THREADS") }
        o
    } else { build(&regs, &rec, Some(&pool)) };
    let mut builder = match out.builder { Some(b) => b, None => return "builderr".into() };
    if cfg == "batchfirst" { builder.add_pool(pool.clone()); }
    let rv = Arc::new(Rendezvous { width: width as usize, arrived: Mutex::new((0, 0)), cv: Condvar::new(), limit: Duration::from_millis(limit_ms),
                                   timed_out: Mutex::new(false), max_seen: Mutex::new(0) });
    let mut res = Vec::new();
    if cfg == "asyncpair" {
        // two async dispatchers on ONE pool: a dispatch that has finished must not keep a pool thread until it is collected
        // (dispatch both, wait for the second first)
        let out2 = build(&regs, &rec, Some(&pool));
        let b2 = match out2.builder { Some(b) => b, None => return "builderr".into() };
        let mut d1 = builder.build_async(make_world(&regs, MapMode::B));
        let mut d2 = b2.build_async(make_world(&regs, MapMode::B));
        let _ = catch_unwind(AssertUnwindSafe(|| { d1.setup(); d2.setup(); }));
        let _ = rec.take();
        rec.set_sched(rv.clone());
        for _ in 0..reps {
            rv.reset(); *rv.max_seen.lock().unwrap() = 0;
            let r = catch_unwind(AssertUnwindSafe(|| { d1.dispatch(); d2.dispatch(); d2.wait(); d1.wait(); }));
            res.push(format!("arrived={}:timeout={}:ok={}", *rv.max_seen.lock().unwrap(), *rv.timed_out.lock().unwrap() as u8, r.is_ok() as u8));
            if *rv.timed_out.lock().unwrap() { break; }
        }
    } else if cfg == "async" || cfg == "asyncforeign" || cfg == "asyncdouble" || cfg == "asyncdefforeign" {
        let world = make_world(&regs, MapMode::B);
        let mut ad = builder.build_async(world);
        let _ = catch_unwind(AssertUnwindSafe(|| ad.setup()));
        rec.set_sched(rv.clone());
        let outer1 = if cfg == "asyncforeign" || cfg == "asyncdefforeign" { Some(rayon::ThreadPoolBuilder::new().num_threads(1).build().unwrap()) } else { None };
        for _ in 0..reps {
            rv.reset(); *rv.max_seen.lock().unwrap() = 0;
            // asyncforeign: dispatch() and wait() are called from the only worker of ANOTHER rayon pool
            let r = if cfg == "asyncforeign" || cfg == "asyncdefforeign" {
                // (the dispatcher type is not Send because it may hold thread-local systems: it holds none here)
                struct SendPtr<T>(*mut T);
                unsafe impl<T> Send for SendPtr<T> {}
                let adr = SendPtr(&mut ad as *mut shred::AsyncDispatcher<'static, shred::World>);
                let o = outer1.as_ref().unwrap();
                catch_unwind(AssertUnwindSafe(|| o.install(move || { let a = adr; let ad = unsafe { &mut *a.0 }; ad.dispatch(); ad.wait(); })))
            } else if cfg == "asyncdouble" {
                // a second dispatch() issued while the first is in flight must not take a pool thread away from it
                catch_unwind(AssertUnwindSafe(|| { ad.dispatch(); ad.dispatch(); ad.wait(); }))
            } else { catch_unwind(AssertUnwindSafe(|| { ad.dispatch(); ad.wait(); })) };
            res.push(format!("arrived={}:timeout={}:ok={}", *rv.max_seen.lock().unwrap(), *rv.timed_out.lock().unwrap() as u8, r.is_ok() as u8));
            if *rv.timed_out.lock().unwrap() { break; }
        }
    } else if cfg == "sendrunnow" {
        // the sendable form driven through the RunNow trait (boxed as a system, the way an outer dispatcher or generic code runs it)
        let mut d: Box<dyn for<'x> shred::RunNow<'x> + Send> = match builder.build().try_into_sendable() { Ok(d) => Box::new(d), Err(_) => return "builderr".into() };
        let mut world = make_world(&regs, MapMode::B);
        let _ = catch_unwind(AssertUnwindSafe(|| d.setup(&mut world)));
        let _ = rec.take();
        rec.set_sched(rv.clone());
        for _ in 0..reps {
            rv.reset(); *rv.max_seen.lock().unwrap() = 0;
            let r = catch_unwind(AssertUnwindSafe(|| d.run_now(&world)));
            res.push(format!("arrived={}:timeout={}:ok={}", *rv.max_seen.lock().unwrap(), *rv.timed_out.lock().unwrap() as u8, r.is_ok() as u8));
            if *rv.timed_out.lock().unwrap() { break; }
        }
    } else if cfg == "foreign" || cfg == "defforeign" {
        // the dispatcher has its own pool, but dispatch is called from the only worker of ANOTHER rayon pool
        // (a system of an outer dispatcher driving a nested dispatcher, or user code inside `install` / `spawn`)
        let mut d = match builder.build().try_into_sendable() { Ok(d) => d, Err(_) => return "builderr".into() };
        let mut world = make_world(&regs, MapMode::B);
        let _ = catch_unwind(AssertUnwindSafe(|| d.setup(&mut world)));
        let _ = rec.take();
        rec.set_sched(rv.clone());
        let outer = rayon::ThreadPoolBuilder::new().num_threads(1).build().unwrap();
        for _ in 0..reps {
            rv.reset(); *rv.max_seen.lock().unwrap() = 0;
            let (dr, wr) = (&mut d, &world);
            let r = catch_unwind(AssertUnwindSafe(|| outer.install(move || dr.dispatch(wr))));
            res.push(format!("arrived={}:timeout={}:ok={}", *rv.max_seen.lock().unwrap(), *rv.timed_out.lock().unwrap() as u8, r.is_ok() as u8));
            if *rv.timed_out.lock().unwrap() { break; }
        }
    } else {
        let mut d = builder.build();
        let mut world = make_world(&regs, MapMode::B);
        let _ = catch_unwind(AssertUnwindSafe(|| d.setup(&mut world)));
        let _ = rec.take();
        if cfg == "afterpanic" {
            // a panic caught in a sequential dispatch must leave nothing behind that serialises later parallel dispatches
            rec.faults.lock().unwrap().insert(999);
            let r = catch_unwind(AssertUnwindSafe(|| d.dispatch_seq(&world)));
            rec.faults.lock().unwrap().clear();
            let _ = rec.take();
            if r.is_ok() { return "builderr".into(); }
        }
        rec.set_sched(rv.clone());
        for _ in 0..reps {
            rv.reset(); *rv.max_seen.lock().unwrap() = 0;
            // seqbatch: the OUTER dispatch is sequential; the batch's inner dispatch still is a parallel one
            let r = catch_unwind(AssertUnwindSafe(|| if cfg == "seqbatch" { d.dispatch_seq(&world) } else { d.dispatch(&world) }));
            res.push(format!("arrived={}:timeout={}:ok={}", *rv.max_seen.lock().unwrap(), *rv.timed_out.lock().unwrap() as u8, r.is_ok() as u8));
            if *rv.timed_out.lock().unwrap() { break; }
        }
    }
    rec.set_sched(Arc::new(FreeRun));
    res.join(",")
}
