//! Suite S3: histories of World operations (C08, C09).  One case = a list of operations; after
//! every operation the outcome and a full probe of the world are printed.
#![allow(clippy::type_complexity)]
use crate::rng::Rng;
use shred::{Fetch, FetchMut, Resource, ResourceId, World};
use std::any::TypeId;
use std::cell::RefCell;
use std::panic::{catch_unwind, AssertUnwindSafe};

thread_local! { static LEDGER: RefCell<Vec<u64>> = RefCell::new(Vec::new()); }

pub struct Tracker(u64);
impl Drop for Tracker {
    fn drop(&mut self) { LEDGER.with(|l| l.borrow_mut().push(self.0)); }
}

pub trait WVal: Resource {
    fn make(serial: u64, payload: u64) -> Self;
    fn serial(&self) -> u64;
    fn payload(&self) -> u64;
    fn set(&mut self, p: u64);
}
pub struct W0 { t: Tracker, p: u64 }
pub struct W1 { t: Tracker, s: String }
pub struct W2 { t: Tracker, v: Vec<u32>, _pad: [u64; 8] }
pub struct W3 { t: Tracker, p: u64, _big: [u8; 300] }
impl WVal for W0 {
    fn make(s: u64, p: u64) -> Self { W0 { t: Tracker(s), p } }
    fn serial(&self) -> u64 { self.t.0 }
    fn payload(&self) -> u64 { self.p }
    fn set(&mut self, p: u64) { self.p = p }
}
impl WVal for W1 {
    fn make(s: u64, p: u64) -> Self { W1 { t: Tracker(s), s: p.to_string() } }
    fn serial(&self) -> u64 { self.t.0 }
    fn payload(&self) -> u64 { self.s.parse().unwrap() }
    fn set(&mut self, p: u64) { self.s = p.to_string() }
}
impl WVal for W2 {
    fn make(s: u64, p: u64) -> Self { W2 { t: Tracker(s), v: vec![p as u32, (p >> 32) as u32], _pad: [7; 8] } }
    fn serial(&self) -> u64 { self.t.0 }
    fn payload(&self) -> u64 { self.v[0] as u64 | (self.v[1] as u64) << 32 }
    fn set(&mut self, p: u64) { self.v = vec![p as u32, (p >> 32) as u32] }
}
impl WVal for W3 {
    fn make(s: u64, p: u64) -> Self { W3 { t: Tracker(s), p, _big: [3; 300] } }
    fn serial(&self) -> u64 { self.t.0 }
    fn payload(&self) -> u64 { self.p }
    fn set(&mut self, p: u64) { self.p = p }
}

pub const NTY: u64 = 4;
pub const NDYN: u64 = 4;

/// dispatch on a type index
macro_rules! with_ty {
    ($ty:expr, $T:ident => $body:expr) => {
        match $ty {
            0 => { type $T = W0; $body }
            1 => { type $T = W1; $body }
            2 => { type $T = W2; $body }
            _ => { type $T = W3; $body }
        }
    };
}

/// the dynamic id behind index `dynid` of type `kty`: 0, 1, 2 as they are; index 3 is an ADVERSARIAL id built from the public
/// hashes of the TypeIds, h(T_k) ^ h(T_{k-1}) ^ 1: any scheme that folds (type, id) into one word by xor makes it collide
/// with (T_{k-1}, 1).  Slots with different (type, id) must stay independent (C09).
fn dynval(kty: u64, dynid: u64) -> u64 {
    if dynid < 3 { return dynid; }
    fn h(t: TypeId) -> u64 {
        use std::hash::{Hash, Hasher};
        struct Id(u64);
        impl Hasher for Id { fn finish(&self) -> u64 { self.0 } fn write(&mut self, b: &[u8]) { for x in b { self.0 = self.0.rotate_left(8) ^ *x as u64; } } fn write_u64(&mut self, v: u64) { self.0 = v; } }
        let mut s = Id(0); t.hash(&mut s); s.finish()
    }
    let tid = |k: u64| with_ty!(k, T => TypeId::of::<T>());
    let v = h(tid(kty)) ^ h(tid((kty + NTY - 1) % NTY)) ^ 1;
    if v < 3 { 0x5EED_0000_0000_0003 } else { v }
}

/// the four constructors of ResourceId name the same slots: odd type indices go through the TypeId-taking ones
fn rid(kty: u64, dynid: u64) -> ResourceId {
    let dynid = dynval(kty, dynid);
    if kty % 2 == 1 {
        with_ty!(kty, T => if dynid == 0 { ResourceId::from_type_id(TypeId::of::<T>()) } else { ResourceId::from_type_id_and_dynamic_id(TypeId::of::<T>(), dynid) })
    } else {
        with_ty!(kty, T => if dynid == 0 { ResourceId::new::<T>() } else { ResourceId::new_with_dynamic_id::<T>(dynid) })
    }
}
fn ty_index(t: TypeId) -> u64 {
    if t == TypeId::of::<W0>() { 0 } else if t == TypeId::of::<W1>() { 1 } else if t == TypeId::of::<W2>() { 2 }
    else if t == TypeId::of::<W3>() { 3 } else { 99 }
}

#[derive(Clone, Debug, PartialEq)]
pub enum Op {
    Insert { ty: u64, kty: u64, dynid: u64, serial: u64, payload: u64 },
    Remove { ty: u64, kty: u64, dynid: u64 },
    Entry { ty: u64, serial: u64, payload: u64 },
    Has { kty: u64, dynid: u64 },
    GetMut { kty: u64, dynid: u64 },
    Fetch { fk: u64, ty: u64, kty: u64, dynid: u64, unw: bool },
    Clone { g: u64 },
    Drop { g: u64 },
    Read { g: u64 },
    Write { g: u64, p: u64 },
}

pub fn op_text(o: &Op) -> String {
    match o {
        Op::Insert { ty, kty, dynid, serial, payload } => format!("I {} {} {} {} {}", ty, kty, dynid, serial, payload),
        Op::Remove { ty, kty, dynid } => format!("X {} {} {}", ty, kty, dynid),
        Op::Entry { ty, serial, payload } => format!("E {} {} {}", ty, serial, payload),
        Op::Has { kty, dynid } => format!("H {} {}", kty, dynid),
        Op::GetMut { kty, dynid } => format!("M {} {}", kty, dynid),
        Op::Fetch { fk, ty, kty, dynid, unw } => format!("{} {} {} {} {}", if *unw { "Fu" } else { "F" }, fk, ty, kty, dynid),
        Op::Clone { g } => format!("C {}", g),
        Op::Drop { g } => format!("D {}", g),
        Op::Read { g } => format!("R {}", g),
        Op::Write { g, p } => format!("W {} {}", g, p),
    }
}
pub fn ops_text(ops: &[Op]) -> String { ops.iter().map(op_text).collect::<Vec<_>>().join(" ; ") }

pub fn parse_ops(s: &str) -> Vec<Op> {
    let mut out = Vec::new();
    for part in s.split(';') {
        let t: Vec<&str> = part.split_whitespace().collect();
        if t.is_empty() { continue; }
        let n = |i: usize| -> u64 { t[i].parse().unwrap() };
        out.push(match t[0] {
            "I" => Op::Insert { ty: n(1), kty: n(2), dynid: n(3), serial: n(4), payload: n(5) },
            "X" => Op::Remove { ty: n(1), kty: n(2), dynid: n(3) },
            "E" => Op::Entry { ty: n(1), serial: n(2), payload: n(3) },
            "H" => Op::Has { kty: n(1), dynid: n(2) },
            "M" => Op::GetMut { kty: n(1), dynid: n(2) },
            "F" => Op::Fetch { fk: n(1), ty: n(2), kty: n(3), dynid: n(4), unw: false },
            "Fu" => Op::Fetch { fk: n(1), ty: n(2), kty: n(3), dynid: n(4), unw: true },
            "C" => Op::Clone { g: n(1) },
            "D" => Op::Drop { g: n(1) },
            "R" => Op::Read { g: n(1) },
            "W" => Op::Write { g: n(1), p: n(2) },
            x => panic!("op token {}", x),
        });
    }
    out
}

// ---------------------------------------------------------------------------------------
// guards with erased lifetimes (the harness keeps the world alive and in place until every
// guard is gone, and issues `&mut self` methods only while the guard table is empty)

trait GuardObj {
    fn read(&self) -> (u64, u64);
    fn write(&mut self, p: u64) -> bool;
    fn clone_shared(&self) -> Option<Box<dyn GuardObj>>;
    fn excl(&self) -> bool;
}
impl<T: WVal> GuardObj for Fetch<'static, T> {
    fn read(&self) -> (u64, u64) { (self.serial(), self.payload()) }
    fn write(&mut self, _p: u64) -> bool { false }
    fn clone_shared(&self) -> Option<Box<dyn GuardObj>> { Some(Box::new(self.clone())) }
    fn excl(&self) -> bool { false }
}
impl<T: WVal> GuardObj for FetchMut<'static, T> {
    fn read(&self) -> (u64, u64) { (self.serial(), self.payload()) }
    fn write(&mut self, p: u64) -> bool { self.set(p); true }
    fn clone_shared(&self) -> Option<Box<dyn GuardObj>> { None }
    fn excl(&self) -> bool { true }
}

struct G { id: u64, key: (u64, u64), obj: Box<dyn GuardObj> }

fn panic_kind(p: &Box<dyn std::any::Any + Send>) -> &'static str {
    let s = if let Some(s) = p.downcast_ref::<String>() { s.clone() } else if let Some(s) = p.downcast_ref::<&str>() { s.to_string() } else { String::new() };
    if s.contains("wrong type ID") { "pw" }
    else if s.contains("already mutably borrowed") || s.contains("already immutably borrowed") || s.contains("already borrowed") { "pb" }
    else if s.contains("Tried to fetch") || s.contains("resource") { "px" }
    else { "p?" }
}

fn probe(world: &World, guards: &[G]) -> String {
    let mut parts = Vec::new();
    for kty in 0..NTY {
        for dynid in 0..NDYN {
            let id = rid(kty, dynid);
            if !world.has_value_raw(id.clone()) { parts.push("-".to_string()); continue; }
            let cell = unsafe { world.try_fetch_internal(id.clone()) }.unwrap();
            // borrow class by probing the AtomicRefCell
            let class = if cell.try_borrow_mut().is_ok() { 0 } else if cell.try_borrow().is_ok() { 1 } else { 2 };
            // value: through one of our own guards if the cell is borrowed, directly otherwise
            let val = if let Some(g) = guards.iter().find(|g| g.key == (kty, dynid)) { g.obj.read() }
                else {
                    with_ty!(kty, T => { let f: Option<Fetch<T>> = world.try_fetch_by_id::<T>(id.clone()); let f = f.unwrap(); (f.serial(), f.payload()) })
                };
            parts.push(format!("{}:{}.{}", class, val.0, val.1));
        }
    }
    parts.join(",")
}

fn ledger() -> String {
    LEDGER.with(|l| { let mut v = l.borrow().clone(); v.sort(); v.iter().map(|x| x.to_string()).collect::<Vec<_>>().join(".") })
}

pub fn observe(ops: &[Op]) -> String {
    LEDGER.with(|l| l.borrow_mut().clear());
    let wp: *mut World = Box::into_raw(Box::new(World::empty()));
    let mut guards: Vec<G> = Vec::new();
    let mut next_g: u64 = 0;
    let mut out = Vec::new();
    for o in ops {
        let shared: &'static World = unsafe { &*wp };
        let enabled = guards.is_empty();
        let res: String = match o {
            Op::Insert { ty, kty, dynid, serial, payload } => {
                if !enabled { "pe".into() } else {
                    let w: &mut World = unsafe { &mut *wp };
                    let r = catch_unwind(AssertUnwindSafe(|| with_ty!(*ty, T => w.insert_by_id::<T>(rid(*kty, *dynid), T::make(*serial, *payload)))));
                    match r { Ok(()) => "u".into(), Err(p) => panic_kind(&p).into() }
                }
            }
            Op::Remove { ty, kty, dynid } => {
                if !enabled { "pe".into() } else {
                    let w: &mut World = unsafe { &mut *wp };
                    let r = catch_unwind(AssertUnwindSafe(|| with_ty!(*ty, T => w.remove_by_id::<T>(rid(*kty, *dynid)).map(|v| (v.serial(), v.payload())))));
                    match r { Ok(Some((s, p))) => format!("v{}.{}", s, p), Ok(None) => "n".into(), Err(p) => panic_kind(&p).into() }
                }
            }
            Op::Entry { ty, serial, payload } => {
                if !enabled { "pe".into() } else {
                    let w: &mut World = unsafe { &mut *wp };
                    let r = catch_unwind(AssertUnwindSafe(|| with_ty!(*ty, T => { let g = w.entry::<T>().or_insert(T::make(*serial, *payload)); (g.serial(), g.payload()) })));
                    match r { Ok((s, p)) => format!("v{}.{}", s, p), Err(p) => panic_kind(&p).into() }
                }
            }
            Op::Has { kty, dynid } => {
                // presence queries borrow nothing: they must answer (and agree) whatever guards are alive
                let r = catch_unwind(AssertUnwindSafe(|| {
                    let a = shared.has_value_raw(rid(*kty, *dynid));
                    // the typed form must agree for dynamic id 0
                    if *dynid == 0 { let b = with_ty!(*kty, T => shared.has_value::<T>()); if a != b { "p?".to_string() } else { format!("b{}", a as u8) } }
                    else { format!("b{}", a as u8) }
                }));
                match r { Ok(s) => s, Err(p) => panic_kind(&p).into() }
            }
            Op::GetMut { kty, dynid } => {
                if !enabled { "pe".into() } else {
                    let w: &mut World = unsafe { &mut *wp };
                    let r = catch_unwind(AssertUnwindSafe(|| {
                        let id = rid(*kty, *dynid);
                        let t = w.get_mut_raw(id.clone()).map(|r| { let any: &dyn Resource = &*r; ty_index(any.type_id()) });
                        t.map(|t| {
                            let p = if *dynid == 0 { with_ty!(*kty, T => w.get_mut::<T>().map(|v| v.payload())) }
                                    else { with_ty!(*kty, T => w.try_fetch_by_id::<T>(id).map(|v| v.payload())) };
                            (t, p.unwrap_or(u64::MAX))
                        })
                    }));
                    match r { Ok(Some((t, p))) => format!("v{}.{}", t, p), Ok(None) => "n".into(), Err(p) => panic_kind(&p).into() }
                }
            }
            Op::Fetch { fk, ty, kty, dynid, unw } => {
                let id = rid(*kty, *dynid);
                let mut do_fetch = || -> Result<Option<Box<dyn GuardObj>>, Box<dyn std::any::Any + Send>> { catch_unwind(AssertUnwindSafe(|| with_ty!(*ty, T => {
                    match fk {
                        0 => Some(Box::new(shared.fetch::<T>()) as Box<dyn GuardObj>),
                        1 => shared.try_fetch::<T>().map(|g| Box::new(g) as Box<dyn GuardObj>),
                        2 => shared.try_fetch_by_id::<T>(id.clone()).map(|g| Box::new(g) as Box<dyn GuardObj>),
                        3 => Some(Box::new(shared.fetch_mut::<T>()) as Box<dyn GuardObj>),
                        4 => shared.try_fetch_mut::<T>().map(|g| Box::new(g) as Box<dyn GuardObj>),
                        _ => shared.try_fetch_mut_by_id::<T>(id.clone()).map(|g| Box::new(g) as Box<dyn GuardObj>),
                    }
                }))) };
                // `unw`: the very same fetch made from a destructor while the thread is UNWINDING from another panic: its
                // outcome (guard / None / which panic) must be the same as at any other time
                let r = if *unw {
                    struct OnDrop<F: FnMut()>(F);
                    impl<F: FnMut()> Drop for OnDrop<F> { fn drop(&mut self) { (self.0)() } }
                    let mut res = None;
                    let _ = catch_unwind(AssertUnwindSafe(|| { let _d = OnDrop(|| { res = Some(do_fetch()); }); panic!("unwinding"); }));
                    res.unwrap_or_else(|| Ok(None))
                } else { do_fetch() };
                match r {
                    Ok(Some(obj)) => { let g = next_g; next_g += 1; guards.push(G { id: g, key: (*kty, *dynid), obj }); format!("g{}", g) }
                    Ok(None) => "n".into(),
                    Err(p) => panic_kind(&p).into(),
                }
            }
            Op::Clone { g } => {
                match guards.iter().position(|x| x.id == *g) {
                    None => "pg".into(),
                    Some(i) => {
                        let key = guards[i].key;
                        let r = catch_unwind(AssertUnwindSafe(|| guards[i].obj.clone_shared()));
                        match r {
                            Ok(Some(obj)) => { let g2 = next_g; next_g += 1; guards.push(G { id: g2, key, obj }); format!("g{}", g2) }
                            Ok(None) => "pg".into(),
                            Err(p) => panic_kind(&p).into(),
                        }
                    }
                }
            }
            Op::Drop { g } => {
                match guards.iter().position(|x| x.id == *g) {
                    None => "pg".into(),
                    Some(i) => { let x = guards.remove(i); drop(x); "u".into() }
                }
            }
            Op::Read { g } => {
                match guards.iter().find(|x| x.id == *g) {
                    None => "pg".into(),
                    Some(x) => { let (s, p) = x.obj.read(); format!("v{}.{}", s, p) }
                }
            }
            Op::Write { g, p } => {
                match guards.iter_mut().find(|x| x.id == *g) {
                    None => "pg".into(),
                    Some(x) => if x.obj.excl() { x.obj.write(*p); "u".into() } else { "pg".into() },
                }
            }
        };
        out.push(format!("{}|{}|{}", res, probe(shared, &guards), ledger()));
    }
    // teardown: guards first, then the world: everything still stored is dropped exactly once
    guards.clear();
    unsafe { drop(Box::from_raw(wp)); }
    out.push(format!("end|{}", ledger()));
    out.join(" ; ")
}

// ---------------------------------------------------------------------------------------
// generators

pub fn gen_history(rng: &mut Rng, max_len: u64, malformed: bool) -> Vec<Op> {
    let len = 1 + rng.below(max_len);
    let nty = 1 + rng.below(NTY);
    let ndyn = 1 + rng.below(NDYN);
    let mut ops = Vec::new();
    let mut serial = 1u64;
    // the generator tracks which guard ids exist (successful fetches are not known in advance:
    // it over-approximates and also emits ids that do not exist)
    let mut live: Vec<u64> = Vec::new();
    let mut next_g = 0u64;
    let mut present: Vec<(u64, u64)> = Vec::new();
    let mut borrowed: std::collections::HashMap<(u64, u64), i64> = std::collections::HashMap::new(); // >0 shared count, -1 excl
    let mut gkey: std::collections::HashMap<u64, ((u64, u64), bool)> = std::collections::HashMap::new();
    for _ in 0..len {
        let kty = rng.below(nty);
        let dynid = rng.below(ndyn);
        let ty = if malformed && rng.chance(1, 6) { rng.below(NTY) } else { kty };
        let choice = rng.below(100);
        let mutating_ok = live.is_empty() || rng.chance(1, 12);
        let op = if choice < 14 && mutating_ok {
            serial += 1;
            Op::Insert { ty, kty, dynid, serial, payload: rng.below(1000) }
        } else if choice < 22 && mutating_ok {
            Op::Remove { ty, kty, dynid }
        } else if choice < 27 && mutating_ok {
            serial += 1;
            Op::Entry { ty: kty, serial, payload: rng.below(1000) }
        } else if choice < 32 {
            Op::Has { kty, dynid }
        } else if choice < 36 && mutating_ok {
            Op::GetMut { kty, dynid }
        } else if choice < 62 {
            let fk = rng.below(6);
            let by_id = fk == 2 || fk == 5;
            let (ty, dynid) = if by_id { (ty, dynid) } else { (kty, 0) };
            Op::Fetch { fk, ty, kty, dynid, unw: rng.chance(1, 8) }
        } else if choice < 70 && !live.is_empty() {
            Op::Clone { g: live[rng.below(live.len() as u64) as usize] }
        } else if choice < 86 && !live.is_empty() {
            Op::Drop { g: live[rng.below(live.len() as u64) as usize] }
        } else if choice < 92 && !live.is_empty() {
            Op::Read { g: live[rng.below(live.len() as u64) as usize] }
        } else if choice < 97 && !live.is_empty() {
            Op::Write { g: live[rng.below(live.len() as u64) as usize], p: rng.below(1000) }
        } else if !live.is_empty() && rng.chance(1, 2) {
            Op::Drop { g: live[0] }
        } else {
            Op::Has { kty, dynid }
        };
        // mirror just enough of the semantics to keep the guard id guesses mostly right
        match &op {
            Op::Insert { ty, kty, dynid, .. } => if live.is_empty() && ty == kty && !present.contains(&(*kty, *dynid)) { present.push((*kty, *dynid)); },
            Op::Remove { ty, kty, dynid } => if live.is_empty() && ty == kty { present.retain(|k| *k != (*kty, *dynid)); },
            Op::Entry { ty, .. } => if live.is_empty() && !present.contains(&(*ty, 0)) { present.push((*ty, 0)); },
            Op::Fetch { fk, ty, kty, dynid, .. } => {
                let k = (*kty, *dynid);
                if ty == kty && present.contains(&k) {
                    let excl = *fk >= 3;
                    let b = *borrowed.get(&k).unwrap_or(&0);
                    if (excl && b == 0) || (!excl && b >= 0) {
                        borrowed.insert(k, if excl { -1 } else { b + 1 });
                        gkey.insert(next_g, (k, excl)); live.push(next_g); next_g += 1;
                    }
                }
            }
            Op::Clone { g } => if let Some((k, excl)) = gkey.get(g).cloned() { if !excl { *borrowed.get_mut(&k).unwrap() += 1; gkey.insert(next_g, (k, false)); live.push(next_g); next_g += 1; } },
            Op::Drop { g } => if let Some((k, excl)) = gkey.remove(g) { live.retain(|x| x != g); let b = borrowed.get_mut(&k).unwrap(); if excl { *b = 0 } else { *b -= 1 } },
            _ => {}
        }
        ops.push(op);
    }
    ops
}

/// exhaustive: all histories of length <= 4 over 2 keys (one type, dynamic ids 0 and 1) from a
/// menu of 12 operations; `k` indexes the space
pub fn exhaustive_menu() -> Vec<Op> {
    vec![
        Op::Insert { ty: 0, kty: 0, dynid: 0, serial: 0, payload: 5 },
        Op::Insert { ty: 0, kty: 0, dynid: 1, serial: 0, payload: 6 },
        Op::Remove { ty: 0, kty: 0, dynid: 0 },
        Op::Fetch { fk: 1, ty: 0, kty: 0, dynid: 0, unw: false },
        Op::Fetch { fk: 4, ty: 0, kty: 0, dynid: 0, unw: false },
        Op::Fetch { fk: 2, ty: 0, kty: 0, dynid: 1, unw: false },
        Op::Fetch { fk: 5, ty: 0, kty: 0, dynid: 1, unw: false },
        Op::Clone { g: 0 },
        Op::Drop { g: 0 },
        Op::Drop { g: 1 },
        Op::Write { g: 0, p: 9 },
        Op::Fetch { fk: 5, ty: 1, kty: 0, dynid: 1, unw: false },
    ]
}
pub fn exhaustive_size() -> u64 { let m = exhaustive_menu().len() as u64; m + m * m + m * m * m + m * m * m * m }
pub fn exhaustive_nth(mut k: u64) -> Vec<Op> {
    let menu = exhaustive_menu();
    let m = menu.len() as u64;
    let mut len = 1;
    let mut block = m;
    while k >= block { k -= block; len += 1; block *= m; }
    let mut ops = Vec::new();
    for i in 0..len {
        let mut o = menu[(k % m) as usize].clone();
        k /= m;
        if let Op::Insert { serial, .. } = &mut o { *serial = i as u64 + 1; }
        ops.push(o);
    }
    ops
}
