//! Registration programs: AST, text format (shared with the OCaml driver), generators.
use crate::rng::Rng;

#[derive(Clone, Debug, PartialEq)]
pub enum Reg {
    Sys {
        tag: u32,
        name: String,
        deps: Vec<String>,
        reads: Vec<u32>,
        writes: Vec<u32>,
        time: u8,
        kind: SysKind,
    },
    Batch {
        tag: u32,
        name: String,
        deps: Vec<String>,
        creads: Vec<u32>,
        cwrites: Vec<u32>,
        time: u8,
        count: u32,
        ctl: CtlKind,
        inner: Vec<Reg>,
    },
    Tl { tag: u32, reads: Vec<u32>, writes: Vec<u32> },
    Barrier,
}

/// how the system is implemented on the real side (irrelevant to the model)
#[derive(Clone, Copy, Debug, PartialEq)]
pub enum SysKind {
    Dynamic,      // harness system with a run-time accessor
    Menu(u8),     // ordinary static `System` from the menu (StaticAccessor path)
}

/// controller: declared-data menu index + plain controller (`f`) or MultiDispatcher (`m`)
#[derive(Clone, Copy, Debug, PartialEq)]
pub struct CtlKind {
    pub menu: u8,
    pub multi: bool,
}

pub fn hex(s: &str) -> String {
    let mut o = String::from("x");
    for b in s.as_bytes() {
        o.push_str(&format!("{:02x}", b));
    }
    o
}
pub fn unhex(t: &str) -> String {
    let t = t.strip_prefix('x').expect("name token");
    let bytes: Vec<u8> = (0..t.len() / 2)
        .map(|i| u8::from_str_radix(&t[2 * i..2 * i + 2], 16).unwrap())
        .collect();
    String::from_utf8(bytes).unwrap()
}
fn list<T: ToString>(v: &[T]) -> String {
    if v.is_empty() {
        "-".into()
    } else {
        v.iter().map(|x| x.to_string()).collect::<Vec<_>>().join(",")
    }
}
fn names(v: &[String]) -> String {
    if v.is_empty() {
        "-".into()
    } else {
        v.iter().map(|x| hex(x)).collect::<Vec<_>>().join(",")
    }
}

pub fn print_regs(rs: &[Reg], out: &mut String) {
    for r in rs {
        if !out.is_empty() && !out.ends_with(' ') {
            out.push(' ');
        }
        match r {
            Reg::Sys { tag, name, deps, reads, writes, time, kind } => {
                let k = match kind {
                    SysKind::Dynamic => "d".to_string(),
                    SysKind::Menu(i) => format!("m{}", i),
                };
                out.push_str(&format!(
                    "S {} {} {} {} {} {} {}",
                    tag, hex(name), names(deps), list(reads), list(writes), time, k
                ));
            }
            Reg::Batch { tag, name, deps, creads, cwrites, time, count, ctl, inner } => {
                out.push_str(&format!(
                    "B {} {} {} {} {} {} {} c{}{} {{",
                    tag, hex(name), names(deps), list(creads), list(cwrites), time, count,
                    ctl.menu, if ctl.multi { "m" } else { "f" }
                ));
                print_regs(inner, out);
                out.push_str(" }");
            }
            Reg::Tl { tag, reads, writes } => out.push_str(&format!("T {} {} {}", tag, list(reads), list(writes))),
            Reg::Barrier => out.push('|'),
        }
    }
}
pub fn to_text(rs: &[Reg]) -> String {
    let mut s = String::new();
    print_regs(rs, &mut s);
    s
}

fn ulist(t: &str) -> Vec<u32> {
    if t == "-" { vec![] } else { t.split(',').map(|x| x.parse().unwrap()).collect() }
}
fn nlist(t: &str) -> Vec<String> {
    if t == "-" { vec![] } else { t.split(',').map(unhex).collect() }
}

pub fn parse_regs<'a, I: Iterator<Item = &'a str>>(toks: &mut I) -> Vec<Reg> {
    let mut out = Vec::new();
    while let Some(t) = toks.next() {
        match t {
            "}" => return out,
            "|" => out.push(Reg::Barrier),
            "T" => {
                let tag = toks.next().unwrap().parse().unwrap();
                let reads = ulist(toks.next().unwrap());
                let writes = ulist(toks.next().unwrap());
                out.push(Reg::Tl { tag, reads, writes });
            }
            "S" => {
                let tag = toks.next().unwrap().parse().unwrap();
                let name = unhex(toks.next().unwrap());
                let deps = nlist(toks.next().unwrap());
                let reads = ulist(toks.next().unwrap());
                let writes = ulist(toks.next().unwrap());
                let time = toks.next().unwrap().parse().unwrap();
                let k = toks.next().unwrap();
                let kind = if k == "d" { SysKind::Dynamic } else { SysKind::Menu(k[1..].parse().unwrap()) };
                out.push(Reg::Sys { tag, name, deps, reads, writes, time, kind });
            }
            "B" => {
                let tag = toks.next().unwrap().parse().unwrap();
                let name = unhex(toks.next().unwrap());
                let deps = nlist(toks.next().unwrap());
                let creads = ulist(toks.next().unwrap());
                let cwrites = ulist(toks.next().unwrap());
                let time = toks.next().unwrap().parse().unwrap();
                let count = toks.next().unwrap().parse().unwrap();
                let ck = toks.next().unwrap();
                let multi = ck.ends_with('m');
                let menu = ck[1..ck.len() - 1].parse().unwrap();
                assert_eq!(toks.next().unwrap(), "{");
                let inner = parse_regs(toks);
                out.push(Reg::Batch { tag, name, deps, creads, cwrites, time, count, ctl: CtlKind { menu, multi }, inner });
            }
            other => panic!("bad token {}", other),
        }
    }
    out
}
pub fn from_text(s: &str) -> Vec<Reg> {
    let mut it = s.split(' ').filter(|t| !t.is_empty());
    parse_regs(&mut it)
}

pub fn all_resources(rs: &[Reg], out: &mut Vec<u32>) {
    for r in rs {
        match r {
            Reg::Sys { reads, writes, .. } => {
                out.extend(reads);
                out.extend(writes);
            }
            Reg::Batch { creads, cwrites, inner, .. } => {
                out.extend(creads);
                out.extend(cwrites);
                all_resources(inner, out);
            }
            Reg::Tl { reads, writes, .. } => {
                out.extend(reads);
                out.extend(writes);
            }
            _ => {}
        }
    }
}

// ---------------------------------------------------------------------------------------
// static menus (abstract resource numbers 0..7 stand for the static types R<0>..R<7>)

/// (reads, writes) of the static `System` menu, item i  — must match hsys::menu_system
pub const SYS_MENU: &[(&[u32], &[u32])] = &[
    (&[], &[]),            // ()
    (&[0], &[]),           // Read<R0>
    (&[], &[1]),           // Write<R1>
    (&[0], &[1]),          // (Read<R0>, Write<R1>)
    (&[1, 2], &[0]),       // (Read<R1>, Write<R0>, Read<R2>)
    (&[3], &[2]),          // (Option<Read<R3>>, Option<Write<R2>>)
    (&[0, 1, 2, 3], &[]),  // 4 reads
    (&[], &[2, 3]),        // derived struct { Write<R2>, Write<R3> }
    (&[4], &[5]),          // (ReadExpect<R4>, WriteExpect<R5>)
];
/// (reads, writes) declared by the controller data menu, item i — must match hsys::make_batch
pub const CTL_MENU: &[(&[u32], &[u32])] = &[
    (&[], &[]),       // ()
    (&[0], &[]),      // Read<R0>
    (&[], &[1]),      // Write<R1>
    (&[2], &[3]),     // (Read<R2>, Write<R3>)
    (&[4], &[]),      // Option<Read<R4>>
    (&[], &[5]),      // (Option<Write<R5>>,)
    (&[6], &[]),      // Read<R6, CountSetup>  (a user-written setup handler that counts its calls)
];

// ---------------------------------------------------------------------------------------
// generators

pub struct GenParams {
    pub max_sys: u64,
    pub n_res: u64,       // abstract resources 0..n_res (numbers >= 8 are dynamic ids in map A)
    pub res_base: u32,    // first resource number
    pub p_dep: u64,       // per cent
    pub p_barrier: u64,
    pub p_tl: u64,
    pub p_batch: u64,
    pub p_menu: u64,
    pub p_unnamed: u64,
    pub p_weird_name: u64,
    pub malformed: bool,
    /// access lists of up to 40 reads / 30 writes in arbitrary order with repeats (the planner's searches over long lists)
    pub long_lists: bool,
    pub tl_in_batch: bool,
    pub max_depth: u32,
}

pub struct Gen<'r> {
    pub rng: &'r mut Rng,
    pub next_tag: u32,
}

const WEIRD: &[&str] = &["a b", "x-y", "p/q", "a b-c/d", " lead", "trail ", "é-ü", "__"];

/// `name` with one of its separators (' ', '-', '/', '_') exchanged for another one; None if it has none
pub fn sep_variant(name: &str, h: u64) -> Option<String> {
    const SEPS: [char; 4] = [' ', '-', '/', '_'];
    let pos: Vec<usize> = name.char_indices().filter(|(_, c)| SEPS.contains(c)).map(|(i, _)| i).collect();
    if pos.is_empty() { return None; }
    let i = pos[(h % pos.len() as u64) as usize];
    let old = name[i..].chars().next().unwrap();
    let mut k = ((h >> 8) % 4) as usize;
    if SEPS[k] == old { k = (k + 1) % 4; }
    let mut out = String::new();
    out.push_str(&name[..i]); out.push(SEPS[k]); out.push_str(&name[i + old.len_utf8()..]);
    Some(out)
}

impl<'r> Gen<'r> {
    fn tag(&mut self) -> u32 {
        self.next_tag += 1;
        self.next_tag
    }
    fn res_set(&mut self, p: &GenParams, max: u64) -> Vec<u32> {
        let k = self.rng.below(max + 1);
        let mut v = Vec::new();
        for _ in 0..k {
            v.push(p.res_base + self.rng.below(p.n_res) as u32);
        }
        // occasionally a duplicate entry or an unsorted list (the builder sorts/dedups reads only)
        v
    }
    pub fn level(&mut self, p: &GenParams, depth: u32, n: u64) -> Vec<Reg> {
        let mut out: Vec<Reg> = Vec::new();
        let mut names: Vec<String> = Vec::new(); // registered non-empty names of this level
        let mut placed = 0;
        while placed < n {
            let roll = self.rng.below(100);
            if roll < p.p_barrier {
                out.push(Reg::Barrier);
                continue;
            }
            if roll < p.p_barrier + p.p_tl && (depth == 0 || p.tl_in_batch) {
                let tag = self.tag();
                let reads = self.res_set(p, 1);
                let writes = self.res_set(p, 1);
                out.push(Reg::Tl { tag, reads, writes });
                continue;
            }
            placed += 1;
            let tag = self.tag();
            // name
            let mut name = if self.rng.below(100) < p.p_unnamed {
                String::new()
            } else if self.rng.below(100) < p.p_weird_name {
                format!("{}{}", WEIRD[self.rng.below(WEIRD.len() as u64) as usize], tag)
            } else {
                format!("s{}", tag)
            };
            // now and then a user-chosen name that looks like the placeholder the printer shows for unnamed systems
            if p.p_unnamed > 0 && self.rng.below(100) < 8 {
                let k = (out.len() as u64 + self.rng.below(3)).saturating_sub(1);
                let v = format!("unnamed_{}", k);
                if !names.contains(&v) { name = v; }
            }
            // now and then a name that differs from an earlier one only in a separator (' ', '-', '/', '_'): different names
            // although they print alike
            if p.p_weird_name > 0 && !names.is_empty() && self.rng.below(100) < 12 {
                let base = names[self.rng.below(names.len() as u64) as usize].clone();
                if let Some(v) = sep_variant(&base, self.rng.next()) { if !names.contains(&v) { name = v; } }
            }
            // dependencies
            let mut deps = Vec::new();
            if !names.is_empty() && self.rng.below(100) < p.p_dep {
                let k = 1 + self.rng.below(3);
                for _ in 0..k {
                    // bias towards recent systems, sometimes anything (also pre-barrier, repeated)
                    let idx = if self.rng.chance(1, 2) {
                        names.len() - 1 - self.rng.below(names.len().min(4) as u64) as usize
                    } else {
                        self.rng.below(names.len() as u64) as usize
                    };
                    deps.push(names[idx].clone());
                }
            }
            if p.malformed && self.rng.below(100) < 6 {
                let pos = self.rng.below(deps.len() as u64 + 1) as usize;
                let bad = match self.rng.below(5) {
                    0 => String::new(), 1 => format!("nope{}", tag), 2 => format!("s{}", tag + 1000),
                    // the placeholder of an (unnamed) system is not a name
                    3 => { let v = format!("unnamed_{}", self.rng.below(out.len() as u64 + 1)); if names.contains(&v) { format!("nope{}", tag) } else { v } }
                    // a registered name with one separator exchanged (not registered itself)
                    _ => names.iter().rev().find_map(|n| sep_variant(n, tag as u64)).filter(|v| !names.contains(v)).unwrap_or_else(|| format!("nope{}", tag)),
                };
                deps.insert(pos, bad);
            }
            if p.malformed && !names.is_empty() && self.rng.below(100) < 6 {
                name = names[self.rng.below(names.len() as u64) as usize].clone();
            }
            let time = 1 + self.rng.below(5) as u8;
            let is_batch = depth < p.max_depth && self.rng.below(100) < p.p_batch;
            if is_batch {
                let menu = if p.res_base == 0 && self.rng.chance(1, 2) { self.rng.below(CTL_MENU.len() as u64) as u8 } else { 0 };
                let multi = self.rng.chance(1, 4);
                let time = if multi { 5 } else { time };
                let ni = self.rng.below(5);
                let inner = self.level(p, depth + 1, ni);
                let count = self.rng.below(4) as u32;
                let (cr, cw) = CTL_MENU[menu as usize];
                out.push(Reg::Batch {
                    tag, name: name.clone(), deps, creads: cr.to_vec(), cwrites: cw.to_vec(), time, count,
                    ctl: CtlKind { menu, multi }, inner,
                });
            } else if p.res_base == 0 && self.rng.below(100) < p.p_menu {
                let m = self.rng.below(SYS_MENU.len() as u64) as u8;
                let (r, w) = SYS_MENU[m as usize];
                out.push(Reg::Sys { tag, name: name.clone(), deps, reads: r.to_vec(), writes: w.to_vec(), time, kind: SysKind::Menu(m) });
            } else {
                let reads = self.res_set(p, if p.long_lists { 40 } else { 3 });
                let writes = self.res_set(p, if p.long_lists { 30 } else { 2 });
                out.push(Reg::Sys { tag, name: name.clone(), deps, reads, writes, time, kind: SysKind::Dynamic });
            }
            if !name.is_empty() && !names.contains(&name) {
                names.push(name);
            }
        }
        // trailing barrier / thread-local now and then
        if self.rng.below(100) < p.p_barrier { out.push(Reg::Barrier); }
        out
    }
}

/// random structured program
pub fn gen_random(rng: &mut Rng, malformed: bool) -> Vec<Reg> {
    let style = rng.below(10);
    let n_res = match rng.below(4) { 0 => 1 + rng.below(2), 1 => 2 + rng.below(3), 2 => 4 + rng.below(6), _ => 8 + rng.below(16) };
    // one program in ten: long access lists over many resources
    let long_lists = style == 9;
    let n_res = if long_lists { 20 + 2 * n_res } else { n_res };
    let p = GenParams {
        max_sys: 0,
        n_res,
        res_base: if rng.chance(1, 3) { 8 } else { 0 },
        p_dep: [0, 10, 30, 60][rng.below(4) as usize],
        p_barrier: [0, 0, 5, 15][rng.below(4) as usize],
        p_tl: [0, 0, 4, 10][rng.below(4) as usize],
        p_batch: if style < 4 { 0 } else { [5, 15, 30][rng.below(3) as usize] },
        p_menu: [0, 20, 50][rng.below(3) as usize],
        p_unnamed: [0, 10, 40][rng.below(3) as usize],
        p_weird_name: [0, 20][rng.below(2) as usize],
        malformed,
        long_lists,
        tl_in_batch: false,
        max_depth: 3,
    };
    let n = match rng.below(10) { 0..=4 => 1 + rng.below(8), 5..=7 => 5 + rng.below(25), 8 => 20 + rng.below(80), _ => 50 + rng.below(250) };
    let mut g = Gen { rng, next_tag: 0 };
    g.level(&p, 0, n)
}

/// "widestage": 60..90 pairwise compatible systems (one stage with that many groups), then a few systems that conflict
/// with, or depend on, one of them (also one far to the right)
pub fn gen_widestage(rng: &mut Rng) -> Vec<Reg> {
    // (one in four: 120..270 groups)
    let n = if rng.chance(1, 4) { 120 + rng.below(151) as u32 } else { 60 + rng.below(31) as u32 };
    let mut out = Vec::new();
    for i in 1..=n {
        let reads = if rng.chance(1, 3) { vec![500] } else { vec![] };
        out.push(Reg::Sys { tag: i, name: format!("s{}", i), deps: vec![], reads, writes: vec![1000 + i], time: 1 + rng.below(5) as u8, kind: SysKind::Dynamic });
    }
    let k = 1 + rng.below(6) as u32;
    for x in 1..=k {
        let j = if rng.chance(1, 2) { n - rng.below(8.min(n as u64)) as u32 } else { 1 + rng.below(n as u64) as u32 };
        let tag = n + x;
        let (deps, reads, writes) = match rng.below(4) {
            0 => (vec![], vec![], vec![1000 + j]),
            1 => (vec![], vec![1000 + j], vec![]),
            2 => (vec![format!("s{}", j)], vec![], vec![]),
            _ => (vec![format!("s{}", j)], vec![500], vec![2000 + x]),
        };
        out.push(Reg::Sys { tag, name: format!("s{}", tag), deps, reads, writes, time: 1 + rng.below(5) as u8, kind: SysKind::Dynamic });
    }
    out
}

/// "saturated": a stage whose groups ALL reach the join limit (the heaviest group can never grow, so this needs three groups
/// and a particular order of running-time hints), then a few systems that conflict with nothing or with one group
pub fn gen_saturated(rng: &mut Rng) -> Vec<Reg> {
    let mut out = Vec::new();
    let mut tag = 0u32;
    let mut sys = |res: u32, time: u8, out: &mut Vec<Reg>| { tag += 1; out.push(Reg::Sys { tag, name: format!("s{}", tag), deps: vec![], reads: vec![], writes: vec![res], time, kind: SysKind::Dynamic }); };
    // groups A (5), B (1), C (1); B joins +1 +1 +3, C joins +1 +1 +5, A joins +1 +1 +1
    for (res, time) in [(1u32, 5u8), (2, 1), (3, 1), (2, 1), (2, 1), (2, 3), (3, 1), (3, 1), (3, 5), (1, 1), (1, 1), (1, 1)] { sys(res, time, &mut out); }
    let k = 1 + rng.below(4);
    for i in 0..k {
        let res = if rng.chance(2, 3) { 10 + i as u32 } else { 1 + rng.below(3) as u32 };
        sys(res, 1 + rng.below(5) as u8, &mut out);
    }
    out
}

/// "funnel": many systems conflicting on few resources with skewed hints, so that groups
/// fill up to the join limit and the balance heuristic flips
pub fn gen_funnel(rng: &mut Rng) -> Vec<Reg> { gen_funnel_n(rng, 60) }
pub fn gen_funnel_n(rng: &mut Rng, max_extra: u64) -> Vec<Reg> {
    let n = 4 + rng.below(max_extra);
    let n_res = 2 + rng.below(3) as u32;
    let mut out = Vec::new();
    let heavy = 3 + rng.below(3) as u8;
    for i in 0..n {
        let tag = i as u32 + 1;
        let (reads, writes, time) = if i == 0 || rng.chance(1, 12) {
            (vec![], vec![8 + rng.below(n_res as u64) as u32], heavy)
        } else {
            let w = 8 + rng.below(n_res as u64) as u32;
            let r = match rng.below(6) {
                0 | 1 => vec![8 + rng.below(n_res as u64) as u32],
                2 => vec![8 + rng.below(n_res as u64 + 2) as u32, 8 + rng.below(n_res as u64 + 2) as u32],
                _ => vec![],
            };
            (r, vec![w], 1 + rng.below(2) as u8)
        };
        let deps = if i > 0 && rng.chance(1, 10) { vec![format!("s{}", 1 + rng.below(i) as u32)] } else { vec![] };
        if rng.chance(1, 30) { out.push(Reg::Barrier); }
        out.push(Reg::Sys { tag, name: format!("s{}", tag), deps, reads, writes, time, kind: SysKind::Dynamic });
    }
    out
}

/// long dependency chains / many stages
pub fn gen_chain(rng: &mut Rng) -> Vec<Reg> {
    let n = 3 + rng.below(80);
    let mut out = Vec::new();
    for i in 0..n {
        let tag = i as u32 + 1;
        let mut deps = Vec::new();
        if i > 0 && rng.chance(3, 4) { deps.push(format!("s{}", i)); }
        if i > 1 && rng.chance(1, 4) { deps.push(format!("s{}", 1 + rng.below(i) as u32)); }
        if i > 0 && rng.chance(1, 8) { let d = deps.get(0).cloned().unwrap_or(format!("s{}", i)); deps.push(d); }
        let reads = if rng.chance(1, 2) { vec![8 + rng.below(3) as u32] } else { vec![] };
        let writes = if rng.chance(1, 4) { vec![8 + rng.below(3) as u32] } else { vec![] };
        if rng.chance(1, 12) { out.push(Reg::Barrier); }
        out.push(Reg::Sys { tag, name: format!("s{}", tag), deps, reads, writes, time: 1 + rng.below(5) as u8, kind: SysKind::Dynamic });
    }
    out
}

/// exhaustive enumeration of small flat programs: k-th program of the space
/// (<= 3 systems) x (2 resources x {none, read, write}) x times {1,3,5} x dependency subsets
/// x barrier flag in front of each system.  Returns None when k is out of range.
pub const EXH_PER_SYS: u64 = 9 * 3; // access x time
pub fn exhaustive_size(nsys: u32) -> u64 {
    // deps subsets: system i has 2^i, barrier flags 2^nsys
    let mut s = 1u64;
    for i in 0..nsys {
        s *= EXH_PER_SYS * (1 << i) * 2;
    }
    s
}
pub fn exhaustive_nth(nsys: u32, mut k: u64) -> Vec<Reg> {
    let mut out = Vec::new();
    for i in 0..nsys {
        let acc = k % 9; k /= 9;
        let t = [1u8, 3, 5][(k % 3) as usize]; k /= 3;
        let depmask = k % (1 << i); k /= 1 << i;
        let bar = k % 2; k /= 2;
        let mut reads = Vec::new();
        let mut writes = Vec::new();
        for r in 0..2u32 {
            match (acc / 3u64.pow(r)) % 3 { 1 => reads.push(8 + r), 2 => writes.push(8 + r), _ => {} }
        }
        let deps = (0..i).filter(|j| depmask >> j & 1 == 1).map(|j| format!("s{}", j + 1)).collect();
        if bar == 1 { out.push(Reg::Barrier); }
        out.push(Reg::Sys { tag: i + 1, name: format!("s{}", i + 1), deps, reads, writes, time: t, kind: SysKind::Dynamic });
    }
    out
}

pub fn uses_menu(rs: &[Reg]) -> bool {
    rs.iter().any(|r| match r {
        Reg::Sys { kind: SysKind::Menu(_), .. } => true,
        Reg::Batch { ctl, inner, .. } => ctl.menu != 0 || uses_menu(inner),
        _ => false,
    })
}

pub fn all_tags(rs: &[Reg], out: &mut Vec<u32>) {
    for r in rs {
        match r {
            Reg::Sys { tag, .. } | Reg::Tl { tag, .. } => out.push(*tag),
            Reg::Batch { tag, inner, .. } => { out.push(*tag); all_tags(inner, out); }
            _ => {}
        }
    }
}

/// programs for the execution suite: well-formed, moderately sized, conflict-rich
pub fn gen_exec(rng: &mut Rng, tl_in_batch: bool) -> Vec<Reg> {
    let n_res = 1 + rng.below(6);
    let p = GenParams {
        max_sys: 0,
        n_res,
        res_base: if rng.chance(1, 3) { 8 } else { 0 },
        p_dep: [0, 15, 40][rng.below(3) as usize],
        p_barrier: [0, 5, 15][rng.below(3) as usize],
        p_tl: [0, 5, 12][rng.below(3) as usize],
        p_batch: [0, 10, 25][rng.below(3) as usize],
        p_menu: [0, 20][rng.below(2) as usize],
        p_unnamed: 10,
        p_weird_name: 0,
        malformed: false,
        long_lists: false,
        tl_in_batch,
        max_depth: 2,
    };
    let n = match rng.below(10) { 0..=5 => 1 + rng.below(8), 6..=8 => 5 + rng.below(15), _ => 15 + rng.below(30) };
    let mut g = Gen { rng, next_tag: 0 };
    g.level(&p, 0, n)
}

// ---------------------------------------------------------------------------------------
// C19: metamorphic variants

/// make a program relabel-able: dynamic systems only, controllers without declared data
pub fn normalise_for_meta(rs: &mut [Reg]) {
    for r in rs.iter_mut() {
        match r {
            Reg::Sys { kind, .. } => *kind = SysKind::Dynamic,
            Reg::Batch { ctl, creads, cwrites, inner, .. } => { ctl.menu = 0; creads.clear(); cwrites.clear(); normalise_for_meta(inner); }
            _ => {}
        }
    }
}

fn scramble(rng: &mut Rng, v: &[u32], a: u32, b: u32) -> Vec<u32> {
    // injective relabelling r -> a*r + b, then a random permutation with some duplicated entries
    let mut out: Vec<u32> = v.iter().map(|r| a * r + b).collect();
    for i in (1..out.len()).rev() { let j = rng.below(i as u64 + 1) as usize; out.swap(i, j); }
    if !out.is_empty() && rng.chance(1, 3) { let x = out[rng.below(out.len() as u64) as usize]; let pos = rng.below(out.len() as u64 + 1) as usize; out.insert(pos, x); }
    out
}
fn rename(n: &str) -> String { if n.is_empty() { String::new() } else { format!("v/{} -", n) } }

/// same registration sequence: systems renamed, resources relabelled injectively, access lists permuted / with duplicates;
/// systems that no dependency list of their level mentions lose their name, anonymous systems get a fresh one
pub fn meta_variant(rng: &mut Rng, rs: &[Reg], a: u32, b: u32) -> Vec<Reg> {
    let mut referenced: Vec<&str> = Vec::new();
    for r in rs {
        match r {
            Reg::Sys { deps, .. } | Reg::Batch { deps, .. } => referenced.extend(deps.iter().map(|d| d.as_str())),
            _ => {}
        }
    }
    let mut new_name = |rng: &mut Rng, tag: u32, name: &str| -> String {
        if name.is_empty() {
            if rng.chance(1, 3) { format!("w/anon{}", tag) } else { String::new() }
        } else if !referenced.contains(&name) && rng.chance(1, 3) {
            String::new()
        } else {
            rename(name)
        }
    };
    rs.iter().map(|r| match r {
        Reg::Sys { tag, name, deps, reads, writes, time, kind } => Reg::Sys {
            tag: *tag, name: new_name(rng, *tag, name), deps: deps.iter().map(|d| rename(d)).collect(),
            reads: scramble(rng, reads, a, b), writes: scramble(rng, writes, a, b), time: *time, kind: *kind },
        Reg::Batch { tag, name, deps, creads, cwrites, time, count, ctl, inner } => Reg::Batch {
            tag: *tag, name: new_name(rng, *tag, name), deps: deps.iter().map(|d| rename(d)).collect(),
            creads: creads.clone(), cwrites: cwrites.clone(), time: *time, count: *count, ctl: *ctl, inner: meta_variant(rng, inner, a, b) },
        Reg::Tl { tag, reads, writes } => Reg::Tl { tag: *tag, reads: scramble(rng, reads, a, b), writes: scramble(rng, writes, a, b) },
        Reg::Barrier => Reg::Barrier,
    }).collect()
}

/// resources accessed by dynamic harness systems and thread-local systems (their setup creates what is missing)
pub fn sys_resources(rs: &[Reg], out: &mut Vec<u32>) {
    for r in rs {
        match r {
            Reg::Sys { reads, writes, kind: SysKind::Dynamic, .. } => { out.extend(reads); out.extend(writes); }
            Reg::Tl { reads, writes, .. } => { out.extend(reads); out.extend(writes); }
            Reg::Batch { inner, .. } => sys_resources(inner, out),
            _ => {}
        }
    }
}
