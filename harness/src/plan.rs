//! Suite S1: run a registration program on the real builder and print the observation.
use crate::hsys::*;
use crate::prog::*;
use std::collections::HashMap;
use std::panic::{catch_unwind, AssertUnwindSafe};
use std::sync::atomic::Ordering;
use std::sync::Arc;

fn list(v: &[u32]) -> String {
    if v.is_empty() { "-".into() } else { v.iter().map(|x| x.to_string()).collect::<Vec<_>>().join(",") }
}
fn shape_str(sh: &[Vec<usize>]) -> String {
    if sh.is_empty() { return "-".into(); }
    sh.iter().map(|st| st.iter().map(|k| k.to_string()).collect::<Vec<_>>().join(".")).collect::<Vec<_>>().join("/")
}

/// tag -> (level, is thread-local); multi levels
fn index_levels(regs: &[Reg], level: u32, lv: &mut HashMap<u32, (u32, bool)>, multi: &mut Vec<u32>, order: &mut Vec<u32>) {
    for r in regs {
        match r {
            Reg::Sys { tag, .. } => { lv.insert(*tag, (level, false)); }
            Reg::Tl { tag, .. } => { lv.insert(*tag, (level, true)); }
            Reg::Batch { tag, ctl, inner, .. } => {
                lv.insert(*tag, (level, false));
                order.push(*tag);
                if ctl.multi { multi.push(*tag); }
                index_levels(inner, *tag, lv, multi, order);
            }
            Reg::Barrier => {}
        }
    }
}

pub struct PlanEnv {
    #[cfg(feature = "parallel")]
    pub pool: Arc<rayon::ThreadPool>,
    /// a pool of another size: the plan must not depend on which pool is attached (C19)
    #[cfg(feature = "parallel")]
    pub pool_alt: Arc<rayon::ThreadPool>,
}

pub fn observe(regs: &[Reg], map: MapMode, env: &PlanEnv) -> String { observe_with(regs, map, env, false) }

pub fn observe_with(regs: &[Reg], map: MapMode, env: &PlanEnv, alt_pool: bool) -> String { observe_mode(regs, map, env, alt_pool, false) }

/// `recover`: panicking registrations are caught and the builder is used on (errs=<call index>:<class>,...)
pub fn observe_mode(regs: &[Reg], map: MapMode, env: &PlanEnv, alt_pool: bool, recover: bool) -> String {
    let rec = Recorder::new(map);
    rec.set_caller();
    #[cfg(not(feature = "parallel"))]
    let _ = alt_pool;
    #[cfg(feature = "parallel")]
    let out = build_mode(regs, &rec, Some(if alt_pool { &env.pool_alt } else { &env.pool }), recover);
    #[cfg(not(feature = "parallel"))]
    let out = { let _ = env; build_mode(regs, &rec, recover) };
    let mut s = String::new();
    match (&out.builder, &out.err) {
        (None, Some(e)) => {
            s.push_str(&format!("calls={};err={};", out.calls, e));
            return s;
        }
        (None, None) => { s.push_str("calls=-1;err=other:internal;"); return s; }
        _ => {}
    }
    s.push_str(&format!("calls={};err=none;", out.calls));
    if recover {
        let e: Vec<String> = out.errs.iter().map(|(i, c)| format!("{}@{}", i, c)).collect();
        s.push_str(&format!("errs={};", if e.is_empty() { "-".to_string() } else { e.join(",") }));
    }
    let builder = out.builder.unwrap();
    let mut dispatcher = builder.build();
    let mut world = make_world(regs, map);
    let setup_ok = catch_unwind(AssertUnwindSafe(|| dispatcher.setup(&mut world)));
    let _ = rec.take();
    rec.identify.store(true, Ordering::SeqCst);
    let (shape, tl) = dispatcher.verif_shape();
    #[cfg(feature = "parallel")]
    let maxthr = dispatcher.max_threads().to_string();
    #[cfg(not(feature = "parallel"))]
    let maxthr = "na".to_string();
    let run_ok = catch_unwind(AssertUnwindSafe(|| {
        dispatcher.dispatch_seq(&world);
        dispatcher.dispatch_thread_local(&world);
    }));
    let log = rec.take();
    // one more dispatch, through the PARALLEL entry point: every top-level system (staged or thread-local) runs exactly once
    // more, however wide the stages are (C04)
    let mut pardelta: Vec<u32> = Vec::new();
    {
        let tops: Vec<u32> = regs.iter().filter_map(|r| match r { Reg::Sys { tag, .. } | Reg::Tl { tag, .. } => Some(*tag), _ => None }).collect();
        let before: Vec<u64> = tops.iter().map(|t| out.handles.runs.get(t).map(|r| r.load(Ordering::SeqCst)).unwrap_or(0)).collect();
        rec.identify.store(false, Ordering::SeqCst);
        let r = catch_unwind(AssertUnwindSafe(|| dispatcher.dispatch(&world)));
        rec.identify.store(true, Ordering::SeqCst);
        let _ = rec.take();
        for (i, t) in tops.iter().enumerate() {
            let now = out.handles.runs.get(t).map(|r| r.load(Ordering::SeqCst)).unwrap_or(0);
            // (a system whose registration was rejected in recovery mode never ran: it is not part of the dispatcher)
            if before[i] >= 1 && (now != before[i] + 1 || r.is_err()) { pardelta.push(*t); }
        }
    }
    s.push_str(&format!("pardelta={};", list(&pardelta)));
    let mut lv = HashMap::new();
    let mut multi = Vec::new();
    let mut level_order = vec![0u32];
    index_levels(regs, 0, &mut lv, &mut multi, &mut level_order);
    let mut orders: HashMap<u32, Vec<u32>> = HashMap::new();
    let mut tlorders: HashMap<u32, Vec<u32>> = HashMap::new();
    let mut shapes: HashMap<u32, (Vec<Vec<usize>>, usize, Option<usize>)> = HashMap::new();
    shapes.insert(0, (shape, tl, None));
    for e in &log {
        match e {
            Ev::F(tag, _, _) | Ev::CtlIn(tag, _, _) => {
                if let Some((level, is_tl)) = lv.get(tag) {
                    if *is_tl { tlorders.entry(*level).or_default().push(*tag); }
                    else { orders.entry(*level).or_default().push(*tag); }
                }
            }
            Ev::Shape(tag, sh, tl, mt) => { shapes.insert(*tag, (sh.clone(), *tl, *mt)); }
            _ => {}
        }
    }
    // conversion to the sendable form (top level only)
    let (sendable, sendshape, sendorder) = match dispatcher.try_into_sendable() {
        Ok(mut sd) => {
            let sh = shape_str(&sd.verif_shape());
            let r = catch_unwind(AssertUnwindSafe(|| sd.dispatch_seq(&world)));
            let log2 = rec.take();
            let mut o = Vec::new();
            for e in &log2 {
                if let Ev::F(tag, _, _) | Ev::CtlIn(tag, _, _) = e {
                    if lv.get(tag) == Some(&(0, false)) { o.push(*tag); }
                }
            }
            ("1", sh, if r.is_ok() { list(&o) } else { "PANIC".into() })
        }
        Err(_d) => ("0", "na".into(), "na".into()),
    };
    let status = if setup_ok.is_err() { "setup-panic" } else if run_ok.is_err() { "run-panic" } else { "ok" };
    for level in level_order {
        let print = out.prints.iter().find(|(t, _)| *t == level).map(|(_, p)| p.clone()).unwrap_or("na".into());
        if multi.contains(&level) {
            s.push_str(&format!("L{}{{print={};shape=na;tl=na;maxthr=na;order=na;tlorder=na;sendable=na}};", level, print));
            continue;
        }
        let (sh, tl, mt) = match shapes.get(&level) { Some(x) => x.clone(), None => (vec![], 0, None) };
        let has_shape = shapes.contains_key(&level);
        let mt_s = if level == 0 { maxthr.clone() } else { mt.map(|m| m.to_string()).unwrap_or("na".into()) };
        s.push_str(&format!(
            "L{}{{print={};shape={};tl={};maxthr={};order={};tlorder={};sendable={}",
            level, print,
            if has_shape { shape_str(&sh) } else { "missing".into() }, tl, mt_s,
            list(orders.get(&level).map(|v| &v[..]).unwrap_or(&[])),
            list(tlorders.get(&level).map(|v| &v[..]).unwrap_or(&[])),
            if level == 0 { sendable } else { "na" }));
        if level == 0 {
            s.push_str(&format!(";sendshape={};sendorder={};status={}", sendshape, sendorder, status));
        }
        s.push_str("};");
    }
    s
}
