//! Suite S6: trees of Par / Seq nodes assembled at run time from the real `Par` and `Seq` types
//! through a boxing adapter (C16).
#![cfg(feature = "parallel")]
use crate::hsys::*;
use crate::rng::Rng;
use shred::{Par, ParSeq, RunWithPool, Seq, World};
use std::collections::HashMap;
use std::panic::{catch_unwind, AssertUnwindSafe};
use std::sync::atomic::{AtomicU64, Ordering};
use std::sync::{Arc, Condvar, Mutex};
use std::time::{Duration, Instant};

#[derive(Clone, Debug, PartialEq)]
pub enum Tree { Leaf(u32, Vec<u32>, Vec<u32>), Par(Vec<Tree>), Seq(Vec<Tree>) }

fn list(v: &[u32]) -> String { if v.is_empty() { "-".into() } else { v.iter().map(|x| x.to_string()).collect::<Vec<_>>().join(",") } }
pub fn tree_text(t: &Tree) -> String {
    match t {
        Tree::Leaf(tag, r, w) => format!("L {} {} {}", tag, list(r), list(w)),
        Tree::Par(l) => format!("P {{ {} }}", l.iter().map(tree_text).collect::<Vec<_>>().join(" ")),
        Tree::Seq(l) => format!("S {{ {} }}", l.iter().map(tree_text).collect::<Vec<_>>().join(" ")),
    }
}
fn ulist(t: &str) -> Vec<u32> { if t == "-" { vec![] } else { t.split(',').map(|x| x.parse().unwrap()).collect() } }
fn parse_tree_or_close<'a, I: Iterator<Item = &'a str>>(toks: &mut I) -> Option<Tree> {
    // returns None at "}"
    let t = toks.next()?;
    if t == "}" { return None; }
    match t {
        "L" => { let tag = toks.next()?.parse().unwrap(); let r = ulist(toks.next()?); let w = ulist(toks.next()?); Some(Tree::Leaf(tag, r, w)) }
        "P" | "S" => {
            assert_eq!(toks.next()?, "{");
            let mut l = Vec::new();
            while let Some(c) = parse_tree_or_close(toks) { l.push(c); }
            Some(if t == "P" { Tree::Par(l) } else { Tree::Seq(l) })
        }
        _ => None,
    }
}
pub fn tree_from_text(s: &str) -> Tree {
    let mut it = s.split_whitespace();
    parse_tree_or_close(&mut it).expect("tree")
}

// ---------------------------------------------------------------------------------------
// boxing adapter

pub trait DynNode: Send {
    fn d_setup(&mut self, world: &mut World);
    fn d_run(&mut self, world: &World, pool: &rayon::ThreadPool);
    fn d_reads(&self, r: &mut Vec<shred::ResourceId>);
    fn d_writes(&self, w: &mut Vec<shred::ResourceId>);
}
impl<T> DynNode for T where T: for<'a> RunWithPool<'a> + Send {
    fn d_setup(&mut self, world: &mut World) { RunWithPool::setup(self, world) }
    fn d_run(&mut self, world: &World, pool: &rayon::ThreadPool) { RunWithPool::run(self, world, pool) }
    fn d_reads(&self, r: &mut Vec<shred::ResourceId>) { RunWithPool::reads(self, r) }
    fn d_writes(&self, w: &mut Vec<shred::ResourceId>) { RunWithPool::writes(self, w) }
}
pub struct BoxNode(pub Box<dyn DynNode>);
impl<'a> RunWithPool<'a> for BoxNode {
    fn setup(&mut self, world: &mut World) { self.0.d_setup(world) }
    fn run(&mut self, world: &'a World, pool: &rayon::ThreadPool) { self.0.d_run(world, pool) }
    fn reads(&self, r: &mut Vec<shred::ResourceId>) { self.0.d_reads(r) }
    fn writes(&self, w: &mut Vec<shred::ResourceId>) { self.0.d_writes(w) }
}

pub struct Built { pub node: Option<BoxNode>, pub panic_at: Option<u32>, pub withs: u32 }

/// bottom-up, children left to right; `withs` counts the `with` calls made; the first one that
/// panics (debug check) ends the construction
fn build_rec(t: &Tree, rec: &Arc<Recorder>, handles: &mut HashMap<u32, (Arc<AtomicU64>, Arc<AtomicU64>)>, withs: &mut u32) -> Result<BoxNode, u32> {
    match t {
        Tree::Leaf(tag, r, w) => {
            let state = Arc::new(AtomicU64::new(*tag as u64));
            let runs = Arc::new(AtomicU64::new(0));
            handles.insert(*tag, (state.clone(), runs.clone()));
            Ok(BoxNode(Box::new(HSys { acc: HAccessor { tag: *tag, reads: r.clone(), writes: w.clone(), rec: rec.clone() }, time: 3, state, runs })))
        }
        Tree::Par(l) => {
            let mut kids = Vec::new();
            for c in l { kids.push(build_rec(c, rec, handles, withs)?); }
            let mut it = kids.into_iter();
            // the first children are chained natively (Par::new(a).with(b).with(c)..., the way par! expands), so that a
            // `with` meets a Par that already went through `with`; the rest is added to the boxed result one by one
            macro_rules! step { ($e:expr) => {{ *withs += 1; let id = *withs; match catch_unwind(AssertUnwindSafe(move || $e)) { Ok(p) => p, Err(_) => return Err(id) } }} }
            let first = it.next().expect("par needs a child");
            let mut acc = match (it.next(), it.next(), it.next()) {
                (None, _, _) => Par::new(first),
                (Some(b), None, _) => { let p = Par::new(first); let p = step!(p.with(b)); Par::new(BoxNode(Box::new(p))) }
                (Some(b), Some(c), None) => { let p = Par::new(first); let p = step!(p.with(b)); let p = step!(p.with(c)); Par::new(BoxNode(Box::new(p))) }
                (Some(b), Some(c), Some(d)) => {
                    let p = Par::new(first); let p = step!(p.with(b)); let p = step!(p.with(c)); let p = step!(p.with(d));
                    Par::new(BoxNode(Box::new(p)))
                }
            };
            for k in it {
                *withs += 1;
                let id = *withs;
                let r = catch_unwind(AssertUnwindSafe(move || acc.with(k)));
                match r { Ok(p) => acc = Par::new(BoxNode(Box::new(p))), Err(_) => return Err(id) }
            }
            Ok(BoxNode(Box::new(acc)))
        }
        Tree::Seq(l) => {
            let mut kids = Vec::new();
            for c in l { kids.push(build_rec(c, rec, handles, withs)?); }
            let mut it = kids.into_iter();
            let mut acc = Seq::new(it.next().expect("seq needs a child"));
            for k in it {
                *withs += 1;
                let p = acc.with(k);
                acc = Seq::new(BoxNode(Box::new(p)));
            }
            Ok(BoxNode(Box::new(acc)))
        }
    }
}

fn all_res(t: &Tree, out: &mut Vec<u32>) {
    match t { Tree::Leaf(_, r, w) => { out.extend(r); out.extend(w); } Tree::Par(l) | Tree::Seq(l) => for c in l { all_res(c, out) } }
}
fn leaves(t: &Tree, out: &mut Vec<u32>) {
    match t { Tree::Leaf(tag, _, _) => out.push(*tag), Tree::Par(l) | Tree::Seq(l) => for c in l { leaves(c, out) } }
}

/// two leaves that may overlap: the first leaves of two children of one Par node
fn overlap_pair(t: &Tree) -> Option<(u32, u32)> {
    match t {
        Tree::Leaf(..) => None,
        Tree::Par(l) => {
            if l.len() >= 2 {
                let mut a = Vec::new(); leaves(&l[0], &mut a);
                let mut b = Vec::new(); leaves(&l[1], &mut b);
                if let (Some(x), Some(y)) = (a.first(), b.first()) { return Some((*x, *y)); }
            }
            l.iter().find_map(overlap_pair)
        }
        Tree::Seq(l) => l.iter().find_map(overlap_pair),
    }
}

struct PairSched { a: u32, b: u32, arrived: Mutex<u32>, cv: Condvar, timeout: Mutex<bool> }
impl Sched for PairSched {
    fn at(&self, tag: u32, p: Point) {
        if p != Point::Run || (tag != self.a && tag != self.b) { return; }
        let mut g = self.arrived.lock().unwrap();
        *g += 1;
        self.cv.notify_all();
        let deadline = Instant::now() + Duration::from_millis(400);
        while *g < 2 {
            let now = Instant::now();
            if now >= deadline { *self.timeout.lock().unwrap() = true; break; }
            let (ng, _) = self.cv.wait_timeout(g, deadline - now).unwrap();
            g = ng;
        }
    }
}
struct JitterSched { seed: u64 }
impl Sched for JitterSched {
    fn at(&self, tag: u32, p: Point) {
        let h = crate::rng::mix(self.seed, (tag as u64) << 2 | p as u64);
        match h % 4 { 0 => std::thread::yield_now(), 1 => std::thread::sleep(Duration::from_micros(30 + h % 150)), _ => {} }
    }
}

pub struct Case { pub pool: usize, pub mode: String, pub inside: bool, pub tree: Tree }
impl Case {
    pub fn head(&self) -> String { format!("parseq pool={} mode={} inside={}", self.pool, self.mode, self.inside as u8) }
    pub fn parse(line: &str) -> Case {
        let (head, t) = line.split_once(" :: ").unwrap_or((line, ""));
        let mut c = Case { pool: 2, mode: "free".into(), inside: false, tree: tree_from_text(t) };
        for tok in head.split(' ') {
            if let Some(v) = tok.strip_prefix("pool=") { c.pool = v.parse().unwrap(); }
            if let Some(v) = tok.strip_prefix("mode=") { c.mode = v.to_string(); }
            if let Some(v) = tok.strip_prefix("inside=") { c.inside = v == "1"; }
        }
        c
    }
}

fn res_list(ids: &[shred::ResourceId], map: MapMode) -> String {
    if ids.is_empty() { return "-".into(); }
    ids.iter().map(|id| (0..1024u32).find(|r| rid_of(map.locate(*r)) == *id).map(|r| r.to_string()).unwrap_or("?".into())).collect::<Vec<_>>().join(",")
}

pub fn observe(c: &Case, pools: &mut HashMap<usize, Arc<rayon::ThreadPool>>) -> String {
    let map = MapMode::A;
    let rec = Recorder::new(map);
    rec.set_caller();
    let mut handles = HashMap::new();
    let mut withs = 0u32;
    let built = build_rec(&c.tree, &rec, &mut handles, &mut withs);
    let mut s = String::new();
    let node = match built {
        Err(k) => { s.push_str(&format!("build=panic@{};", k)); return s; }
        Ok(n) => n,
    };
    s.push_str("build=ok;");
    let mut r = Vec::new(); node.0.d_reads(&mut r);
    let mut w = Vec::new(); node.0.d_writes(&mut w);
    s.push_str(&format!("reads={};writes={};", res_list(&r, map), res_list(&w, map)));
    let pool = pools.entry(c.pool).or_insert_with(|| Arc::new(rayon::ThreadPoolBuilder::new().num_threads(c.pool).build().unwrap())).clone();
    let mut ps = ParSeq::new(node, pool.clone());
    let mut world = World::empty();
    let mut rs = Vec::new(); all_res(&c.tree, &mut rs); rs.sort(); rs.dedup();
    // the tree is also a system (RunNow): cases dispatched from inside the pool set it up through the trait
    let r0 = catch_unwind(AssertUnwindSafe(|| if c.inside { shred::RunNow::setup(&mut ps, &mut world) } else { ps.setup(&mut world) }));
    let setup: Vec<String> = rec.take().iter().filter_map(|e| if let Ev::Setup(t) = e { Some(t.to_string()) } else { None }).collect();
    s.push_str(&format!("setup={};setupok={};", if setup.is_empty() { "-".into() } else { setup.join(",") }, r0.is_ok() as u8));
    for r in &rs { set_value(&mut world, map.locate(*r), *r as u64 + 1); }
    let pair = overlap_pair(&c.tree);
    let mut timeout_flag = None;
    if c.mode == "overlap" && c.pool >= 2 {
        if let Some((a, b)) = pair {
            let sch = Arc::new(PairSched { a, b, arrived: Mutex::new(0), cv: Condvar::new(), timeout: Mutex::new(false) });
            timeout_flag = Some(sch.clone());
            rec.set_sched(sch);
        }
    } else if let Some(seed) = c.mode.strip_prefix("jitter:") {
        rec.set_sched(Arc::new(JitterSched { seed: seed.parse().unwrap() }));
    }
    let r1 = catch_unwind(AssertUnwindSafe(|| {
        if c.inside { pool.install(|| ps.dispatch(&world)) } else { ps.dispatch(&world) }
    }));
    rec.set_sched(Arc::new(FreeRun));
    let log = rec.take();
    let tr: Vec<String> = log.iter().filter_map(|e| match e { Ev::F(t, _, _) => Some(format!("F{}", t)), Ev::R(t) => Some(format!("R{}", t)), Ev::BP(t, _) => Some(format!("B{}", t)), _ => None }).collect();
    s.push_str(&format!("T={};ok={};", if tr.is_empty() { "-".into() } else { tr.join(",") }, r1.is_ok() as u8));
    if let Some(f) = timeout_flag {
        let overlapped = !*f.timeout.lock().unwrap();
        s.push_str(&format!("pair={},{};overlapped={};", pair.unwrap().0, pair.unwrap().1, overlapped as u8));
    }
    // a second dispatch, through RunNow::run_now: every leaf twice in total
    let r2 = catch_unwind(AssertUnwindSafe(|| shred::RunNow::run_now(&mut ps, &world)));
    let _ = rec.take();
    let mut runs: Vec<(u32, u64)> = handles.iter().map(|(t, (_, r))| (*t, r.load(Ordering::SeqCst))).collect();
    runs.sort();
    s.push_str(&format!("ok2={};runs={};", r2.is_ok() as u8, runs.iter().map(|(t, n)| format!("{}:{}", t, n)).collect::<Vec<_>>().join(",")));
    // the same tree set up AGAIN, for another world (one ParSeq used with several worlds): every leaf once more,
    // and the fresh world gets every default resource
    let mut world2 = World::empty();
    let r3 = catch_unwind(AssertUnwindSafe(|| if c.inside { ps.setup(&mut world2) } else { shred::RunNow::setup(&mut ps, &mut world2) }));
    let setup2: Vec<String> = rec.take().iter().filter_map(|e| if let Ev::Setup(t) = e { Some(t.to_string()) } else { None }).collect();
    let missing = rs.iter().filter(|r| !world2.has_value_raw(rid_of(map.locate(**r)))).count();
    s.push_str(&format!("setup2={};setup2ok={};missing2={};", if setup2.is_empty() { "-".into() } else { setup2.join(",") }, r3.is_ok() as u8, missing));
    s
}

// ---------------------------------------------------------------------------------------
// generators

fn gen_tree(rng: &mut Rng, depth: u32, next_tag: &mut u32, n_res: u64, conflict_free: bool, used: &mut Vec<(u32, bool)>, root: bool) -> Tree {
    if depth == 0 || (!root && rng.chance(2, 5)) {
        *next_tag += 1;
        let mut r = Vec::new();
        let mut w = Vec::new();
        for _ in 0..rng.below(3) {
            let x = rng.below(n_res) as u32;
            let write = rng.chance(1, 3);
            if conflict_free {
                // a resource is either read-only everywhere or written by one leaf only
                match used.iter().find(|(y, _)| *y == x) {
                    Some((_, true)) => continue,
                    Some((_, false)) => if write { continue },
                    None => used.push((x, write)),
                }
            }
            if write { w.push(x) } else { r.push(x) }
        }
        return Tree::Leaf(*next_tag, r, w);
    }
    let n = 1 + rng.below(if depth >= 3 { 3 } else { 6 });
    let kids: Vec<Tree> = (0..n).map(|_| gen_tree(rng, depth - 1, next_tag, n_res, conflict_free, used, false)).collect();
    if rng.chance(1, 2) { Tree::Par(kids) } else { Tree::Seq(kids) }
}

pub fn gen_case(rng: &mut Rng, conflicts: bool) -> Case {
    let mut next = 0;
    let depth = 1 + rng.below(5) as u32;
    let n_res = 2 + rng.below(6);
    let mut used = Vec::new();
    let tree = gen_tree(rng, depth, &mut next, n_res, !conflicts, &mut used, true);
    let pool = [1usize, 2, 4, 16][rng.below(4) as usize];
    let mode = match rng.below(4) { 0 => "free".to_string(), 1 | 2 => "overlap".to_string(), _ => format!("jitter:{}", rng.next()) };
    Case { pool, mode, inside: rng.chance(1, 3), tree }
}

/// wide pars: many conflict-free padding children (the accumulated access lists get long), one child that both
/// reads and writes a resource X (a seq of readers and writers), and a last child that does or
/// does not conflict with what was accumulated; `k` indexes the family
pub fn wide_count() -> u64 { 9 * 4 * 3 * 7 }
pub fn wide_nth(k: u64) -> Case {
    let pads = [0u64, 3, 14, 15, 16, 17, 20, 33, 70][(k % 9) as usize];
    let mixed_kind = (k / 9) % 4;
    let pos = (k / 36) % 3;
    let last = (k / 108) % 7;
    const X: u32 = 7;
    let mut next = 0u32;
    let mut leaf = |r: Vec<u32>, w: Vec<u32>| { next += 1; Tree::Leaf(next, r, w) };
    let mixed = match mixed_kind {
        0 => Tree::Seq(vec![leaf(vec![X], vec![]), leaf(vec![], vec![X])]),
        1 => Tree::Seq(vec![leaf(vec![], vec![X]), leaf(vec![X], vec![])]),
        2 => Tree::Seq(vec![leaf(vec![], vec![X]), leaf(vec![X], vec![]), leaf(vec![], vec![X])]),
        _ => Tree::Seq(vec![leaf(vec![X, 100], vec![]), leaf(vec![101], vec![X]), leaf(vec![X], vec![])]),
    };
    let mut kids: Vec<Tree> = (0..pads).map(|i| {
        let r = match i % 3 { 0 => vec![], 1 => vec![100], _ => vec![100, 101] };
        leaf(r, vec![200 + i as u32])
    }).collect();
    let at = match pos { 0 => 0, 1 => kids.len() / 2, _ => kids.len() };
    kids.insert(at, mixed);
    kids.push(match last {
        0 => leaf(vec![X], vec![]),                 // reads what a child writes
        1 => leaf(vec![], vec![X]),                 // writes what a child reads and writes
        2 => leaf(vec![100], vec![]),               // reads a read-only resource: fine
        3 => leaf(vec![], vec![999]),               // writes a new resource: fine
        4 => leaf(vec![200], vec![]),               // reads what the first padding child writes (if there is one)
        5 => leaf(vec![], vec![100]),               // writes what padding children read
        _ => leaf(vec![102], vec![998]),            // fine
    });
    Case { pool: [2usize, 4][(k % 2) as usize], mode: "free".into(), inside: k % 5 == 0, tree: Tree::Par(kids) }
}

/// all tree shapes with <= 4 leaves (par/seq at every inner node, fan-out >= 1), leaves get fixed
/// access patterns from a small menu indexed by k
pub fn exhaustive_shapes(n: u32) -> Vec<Tree> {
    // trees with exactly n leaves (unlabelled yet)
    fn shapes(n: u32) -> Vec<Tree> {
        if n == 1 { return vec![Tree::Leaf(0, vec![], vec![])]; }
        let mut out = Vec::new();
        // compositions of n into k >= 2 parts
        fn comps(n: u32, acc: &mut Vec<u32>, out: &mut Vec<Vec<u32>>) {
            if n == 0 { if acc.len() >= 2 { out.push(acc.clone()); } return; }
            for first in 1..=n { acc.push(first); comps(n - first, acc, out); acc.pop(); }
        }
        let mut cs = Vec::new();
        comps(n, &mut Vec::new(), &mut cs);
        for c in cs {
            let mut partial: Vec<Vec<Tree>> = vec![vec![]];
            for part in c {
                let subs = shapes(part);
                let mut next = Vec::new();
                for p in &partial { for s in &subs { let mut q = p.clone(); q.push(s.clone()); next.push(q); } }
                partial = next;
            }
            for kids in partial { out.push(Tree::Par(kids.clone())); out.push(Tree::Seq(kids)); }
        }
        out
    }
    let mut all = Vec::new();
    for k in 1..=n { all.extend(shapes(k)); }
    all
}
pub fn label(t: &Tree, next: &mut u32, pattern: u64) -> Tree {
    match t {
        Tree::Leaf(..) => {
            *next += 1;
            // access menu: (reads, writes) over 2 resources
            let menu: [(&[u32], &[u32]); 5] = [(&[], &[]), (&[0], &[]), (&[], &[0]), (&[1], &[0]), (&[0], &[1])];
            let (r, w) = menu[((pattern >> (3 * (*next as u64 - 1))) % 5) as usize];
            Tree::Leaf(*next, r.to_vec(), w.to_vec())
        }
        Tree::Par(l) => Tree::Par(l.iter().map(|c| label(c, next, pattern)).collect()),
        Tree::Seq(l) => Tree::Seq(l.iter().map(|c| label(c, next, pattern)).collect()),
    }
}
