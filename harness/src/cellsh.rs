//! Suite S9: which rayon pool does every dispatcher of a tree of nested batches run its systems on? (C11, the logic
//! half: model coq/PoolCells.v).  A case is a tree of builder operations: `P<k>` = add_pool(user pool k),
//! `B{ .. }` = add_batch of a sub-builder on which the operations inside the braces were done before.
//! Every builder gets one probe system that records the name of the thread it runs on.
#![cfg(feature = "parallel")]
use crate::hsys::*;
use crate::prog::*;
use crate::rng::Rng;
use shred::{DispatcherBuilder, System, World};
use std::collections::HashMap;
use std::panic::{catch_unwind, AssertUnwindSafe};
use std::sync::{Arc, Mutex};

#[derive(Clone, Debug)]
pub enum BOp { Pool(usize), Batch(Vec<BOp>) }

pub fn text(ops: &[BOp]) -> String {
    ops.iter().map(|o| match o { BOp::Pool(k) => format!("P{}", k), BOp::Batch(s) => format!("B{{ {} }}", text(s)) }).collect::<Vec<_>>().join(" ")
}
fn parse_list<'a, I: Iterator<Item = &'a str>>(it: &mut I) -> Vec<BOp> {
    let mut v = Vec::new();
    while let Some(t) = it.next() {
        if t == "}" { break; }
        if let Some(k) = t.strip_prefix('P') { v.push(BOp::Pool(k.parse().unwrap())); }
        else if t == "B{" { v.push(BOp::Batch(parse_list(it))); }
    }
    v
}
pub fn parse(s: &str) -> Vec<BOp> { parse_list(&mut s.split_whitespace()) }

struct Probe { node: usize, out: Arc<Mutex<Vec<(usize, String)>>> }
impl<'a> System<'a> for Probe {
    type SystemData = ();
    fn run(&mut self, _: ()) {
        let name = std::thread::current().name().unwrap_or("").to_string();
        self.out.lock().unwrap().push((self.node, name));
    }
}

pub struct Env { pub pools: HashMap<usize, Arc<rayon::ThreadPool>> }
impl Env {
    pub fn new() -> Env {
        let mut pools = HashMap::new();
        for k in 1..=3usize {
            pools.insert(k, Arc::new(rayon::ThreadPoolBuilder::new().num_threads(2).thread_name(move |i| format!("vpu{}-{}", k, i)).build().unwrap()));
        }
        Env { pools }
    }
}

fn build_ops(ops: &[BOp], next_node: &mut usize, env: &Env, out: &Arc<Mutex<Vec<(usize, String)>>>, rec: &Arc<Recorder>) -> DispatcherBuilder<'static, 'static> {
    let node = *next_node;
    *next_node += 1;
    let mut b = DispatcherBuilder::new();
    b.add(Probe { node, out: out.clone() }, "", &[]);
    for o in ops {
        match o {
            BOp::Pool(k) => b.add_pool(env.pools[k].clone()),
            BOp::Batch(sub) => {
                let inner = build_ops(sub, next_node, env, out, rec);
                let tag = 5000 + *next_node as u32;
                b.add_batch(Ctl::<0> { tag, count: 1, time: 3, rec: rec.clone() }, inner, "", &[]);
            }
        }
    }
    b
}

/// "<node>:<u<k>|d>,..." sorted by node: the pool whose worker ran the probe of every builder (d = not a user pool)
pub fn observe(ops: &[BOp], env: &Env) -> String {
    let rec = Recorder::new(MapMode::A);
    rec.set_caller();
    let out = Arc::new(Mutex::new(Vec::new()));
    let mut next = 0usize;
    // every other tree is built with build_async (the same pool bookkeeping on another path)
    let use_async = text(ops).len() % 2 == 1;
    let r = catch_unwind(AssertUnwindSafe(|| {
        let b = build_ops(ops, &mut next, env, &out, &rec);
        if use_async {
            let mut ad = b.build_async(World::empty());
            ad.setup();
            ad.dispatch();
            ad.wait();
        } else {
            let mut d = b.build();
            let mut w = World::empty();
            d.setup(&mut w);
            d.dispatch(&w);
        }
    }));
    if r.is_err() { return "panic".into(); }
    let mut v = out.lock().unwrap().clone();
    v.sort();
    v.iter().map(|(n, name)| {
        let p = match name.strip_prefix("vpu") { Some(rest) => format!("u{}", rest.split('-').next().unwrap_or("?")), None => "d".to_string() };
        format!("{}:{}", n, p)
    }).collect::<Vec<_>>().join(",")
}

fn gen_ops(rng: &mut Rng, depth: u32) -> Vec<BOp> {
    let n = rng.below(if depth == 0 { 5 } else { 4 });
    (0..n).map(|_| if depth < 3 && rng.chance(3, 5) { BOp::Batch(gen_ops(rng, depth + 1)) } else { BOp::Pool(1 + rng.below(3) as usize) }).collect()
}
pub fn gen_case(rng: &mut Rng) -> Vec<BOp> { gen_ops(rng, 0) }
