//! Suite S5: histories of MetaTable / World operations (C17).
#![allow(clippy::type_complexity)]
use crate::rng::Rng;
use shred::{CastFrom, Fetch, FetchMut, MetaTable, Resource, World};
use std::panic::{catch_unwind, AssertUnwindSafe};

pub trait Obj {
    fn tag(&self) -> u64;
    fn serial(&self) -> u64;
    fn val(&self) -> u64;
    fn bump(&mut self);
    fn addr(&self) -> usize;
}

/// all implementors start with (serial, payload) so that a WRONG vtable shows as a wrong tag
/// instead of undefined behaviour; the sizes differ (16 bytes .. 4 KiB)
macro_rules! implementor {
    ($name:ident, $tag:expr, $extra:ty, $init:expr) => {
        #[repr(C)]
        pub struct $name { serial: u64, payload: u64, _extra: $extra }
        impl $name { pub fn new(serial: u64, payload: u64) -> Self { $name { serial, payload, _extra: $init } } }
        impl Obj for $name {
            fn tag(&self) -> u64 { $tag }
            fn serial(&self) -> u64 { self.serial }
            fn val(&self) -> u64 { self.payload }
            fn bump(&mut self) { self.payload += 1 }
            fn addr(&self) -> usize { self as *const Self as *const () as usize }
        }
    };
}
implementor!(M0, 0, (), ());
implementor!(M1, 1, u8, 7);
implementor!(M2, 2, [u64; 8], [2; 8]);
implementor!(M3, 3, String, String::from("three"));
implementor!(M4, 4, [u8; 4000], [4; 4000]);
implementor!(M5, 5, Vec<u32>, vec![5, 5]);
implementor!(M6, 6, u32, 6);      // its CastFrom implementation is wrong (changes the address)
implementor!(M7, 7, u64, 7);      // its CastFrom implementation is right while `register` runs and wrong afterwards

unsafe impl CastFrom<M0> for dyn Obj { fn cast(t: *mut M0) -> *mut Self { t } }
unsafe impl CastFrom<M1> for dyn Obj { fn cast(t: *mut M1) -> *mut Self { t } }
unsafe impl CastFrom<M2> for dyn Obj { fn cast(t: *mut M2) -> *mut Self { t } }
unsafe impl CastFrom<M3> for dyn Obj { fn cast(t: *mut M3) -> *mut Self { t } }
unsafe impl CastFrom<M4> for dyn Obj { fn cast(t: *mut M4) -> *mut Self { t } }
unsafe impl CastFrom<M5> for dyn Obj { fn cast(t: *mut M5) -> *mut Self { t } }
static mut ELSEWHERE: [u64; 8] = [0; 8];
unsafe impl CastFrom<M6> for dyn Obj {
    fn cast(_t: *mut M6) -> *mut Self { unsafe { std::ptr::addr_of_mut!(ELSEWHERE) as *mut M6 } }
}

/// true only while MetaTable::register is being called: a cast that behaves during registration (or for a probe
/// pointer) and moves the address at every later use must still be rejected when it is used
static REGISTERING: std::sync::atomic::AtomicBool = std::sync::atomic::AtomicBool::new(false);
unsafe impl CastFrom<M7> for dyn Obj {
    fn cast(t: *mut M7) -> *mut Self {
        if REGISTERING.load(std::sync::atomic::Ordering::SeqCst) { t } else { unsafe { std::ptr::addr_of_mut!(ELSEWHERE) as *mut M7 } }
    }
}

/// zero-sized implementors: no storage, so (serial, payload) live in statics (one instance per type is stored at a time);
/// different alignments give them different (dangling) addresses
macro_rules! zst_implementor {
    ($name:ident, $tag:expr, $align:expr, $s:ident, $p:ident) => {
        static $s: std::sync::atomic::AtomicU64 = std::sync::atomic::AtomicU64::new(0);
        static $p: std::sync::atomic::AtomicU64 = std::sync::atomic::AtomicU64::new(0);
        #[repr(align($align))]
        pub struct $name;
        impl $name { pub fn new(serial: u64, payload: u64) -> Self {
            $s.store(serial, std::sync::atomic::Ordering::SeqCst); $p.store(payload, std::sync::atomic::Ordering::SeqCst); $name } }
        impl Obj for $name {
            fn tag(&self) -> u64 { $tag }
            fn serial(&self) -> u64 { $s.load(std::sync::atomic::Ordering::SeqCst) }
            fn val(&self) -> u64 { $p.load(std::sync::atomic::Ordering::SeqCst) }
            fn bump(&mut self) { $p.fetch_add(1, std::sync::atomic::Ordering::SeqCst); }
            fn addr(&self) -> usize { self as *const Self as *const () as usize }
        }
    };
}
zst_implementor!(M8, 8, 2, M8S, M8P);    // zero-sized, right cast
zst_implementor!(M9, 9, 4, M9S, M9P);    // zero-sized, its cast moves the address
unsafe impl CastFrom<M8> for dyn Obj { fn cast(t: *mut M8) -> *mut Self { t } }
unsafe impl CastFrom<M9> for dyn Obj { fn cast(t: *mut M9) -> *mut Self { t.cast::<u8>().wrapping_add(64).cast::<M9>() } }

implementor!(M10, 10, [u64; 8], [10; 8]);   // its cast moves the address by 16 bytes: wrong, but still INSIDE the object
unsafe impl CastFrom<M10> for dyn Obj { fn cast(t: *mut M10) -> *mut Self { t.cast::<u8>().wrapping_add(16).cast::<M10>() } }

// ten more ordinary implementors: tables with more than 16 registered types
implementor!(M11, 11, u8, 1); implementor!(M12, 12, u16, 2); implementor!(M13, 13, u32, 3); implementor!(M14, 14, [u8; 3], [4; 3]);
implementor!(M15, 15, (u8, u8), (5, 5)); implementor!(M16, 16, [u16; 5], [6; 5]); implementor!(M17, 17, bool, true);
implementor!(M18, 18, char, 'x'); implementor!(M19, 19, [u64; 2], [9; 2]); implementor!(M20, 20, i64, -1);
unsafe impl CastFrom<M11> for dyn Obj { fn cast(t: *mut M11) -> *mut Self { t } }
unsafe impl CastFrom<M12> for dyn Obj { fn cast(t: *mut M12) -> *mut Self { t } }
unsafe impl CastFrom<M13> for dyn Obj { fn cast(t: *mut M13) -> *mut Self { t } }
unsafe impl CastFrom<M14> for dyn Obj { fn cast(t: *mut M14) -> *mut Self { t } }
unsafe impl CastFrom<M15> for dyn Obj { fn cast(t: *mut M15) -> *mut Self { t } }
unsafe impl CastFrom<M16> for dyn Obj { fn cast(t: *mut M16) -> *mut Self { t } }
unsafe impl CastFrom<M17> for dyn Obj { fn cast(t: *mut M17) -> *mut Self { t } }
unsafe impl CastFrom<M18> for dyn Obj { fn cast(t: *mut M18) -> *mut Self { t } }
unsafe impl CastFrom<M19> for dyn Obj { fn cast(t: *mut M19) -> *mut Self { t } }
unsafe impl CastFrom<M20> for dyn Obj { fn cast(t: *mut M20) -> *mut Self { t } }

pub const NTY: u64 = 21;
pub const BAD: u64 = 6;

macro_rules! with_m {
    ($ty:expr, $T:ident => $body:expr) => {
        match $ty {
            0 => { type $T = M0; $body } 1 => { type $T = M1; $body } 2 => { type $T = M2; $body }
            3 => { type $T = M3; $body } 4 => { type $T = M4; $body } 5 => { type $T = M5; $body }
            6 => { type $T = M6; $body } 7 => { type $T = M7; $body } 8 => { type $T = M8; $body }
            9 => { type $T = M9; $body } 10 => { type $T = M10; $body }
            11 => { type $T = M11; $body } 12 => { type $T = M12; $body } 13 => { type $T = M13; $body } 14 => { type $T = M14; $body }
            15 => { type $T = M15; $body } 16 => { type $T = M16; $body } 17 => { type $T = M17; $body } 18 => { type $T = M18; $body }
            19 => { type $T = M19; $body }
            _ => { type $T = M20; $body }
        }
    };
}

#[derive(Clone, Debug, PartialEq)]
pub enum Op { Reg(u64), Ins(u64, u64, u64), Rem(u64), Get(u64), GetMut(u64), Iter, IterMut, Hold(u64, bool), DropHolds }

pub fn op_text(o: &Op) -> String {
    match o {
        Op::Reg(k) => format!("R {}", k), Op::Ins(k, s, p) => format!("I {} {} {}", k, s, p), Op::Rem(k) => format!("X {}", k),
        Op::Get(k) => format!("G {}", k), Op::GetMut(k) => format!("M {}", k), Op::Iter => "It".into(), Op::IterMut => "Im".into(),
        Op::Hold(k, e) => format!("{} {}", if *e { "Hx" } else { "Hs" }, k), Op::DropHolds => "Dh".into(),
    }
}
pub fn ops_text(ops: &[Op]) -> String { ops.iter().map(op_text).collect::<Vec<_>>().join(" ; ") }
pub fn parse_ops(s: &str) -> Vec<Op> {
    let mut out = Vec::new();
    for part in s.split(';') {
        let t: Vec<&str> = part.split_whitespace().collect();
        if t.is_empty() { continue; }
        let n = |i: usize| -> u64 { t[i].parse().unwrap() };
        out.push(match t[0] {
            "R" => Op::Reg(n(1)), "I" => Op::Ins(n(1), n(2), n(3)), "X" => Op::Rem(n(1)), "G" => Op::Get(n(1)), "M" => Op::GetMut(n(1)),
            "It" => Op::Iter, "Im" => Op::IterMut, "Hs" => Op::Hold(n(1), false), "Hx" => Op::Hold(n(1), true), "Dh" => Op::DropHolds,
            x => panic!("meta op {}", x),
        });
    }
    out
}

fn panic_kind(p: &Box<dyn std::any::Any + Send>) -> &'static str {
    let s = if let Some(s) = p.downcast_ref::<String>() { s.clone() } else if let Some(s) = p.downcast_ref::<&str>() { s.to_string() } else { String::new() };
    if s.contains("did not cast") { "pc" }
    else if s.contains("already") && s.contains("borrowed") { "pb" }
    else if s.contains("Tried to fetch") { "px" }
    else if s.contains("index out of bounds") || s.contains("out of range") { "pi" }
    else { "p?" }
}

trait HoldObj {}
impl<T> HoldObj for Fetch<'static, T> {}
impl<T> HoldObj for FetchMut<'static, T> {}

pub fn observe(ops: &[Op]) -> String {
    let wp: *mut World = Box::into_raw(Box::new(World::empty()));
    let mut table: MetaTable<dyn Obj> = MetaTable::new();
    let mut holds: Vec<Box<dyn HoldObj>> = Vec::new();
    let mut addr: [usize; NTY as usize] = [0; NTY as usize];
    let mut out = Vec::new();
    for o in ops {
        let world: &'static World = unsafe { &*wp };
        let res: String = match o {
            Op::Reg(k) => {
                REGISTERING.store(true, std::sync::atomic::Ordering::SeqCst);
                with_m!(*k, T => table.register::<T>());
                REGISTERING.store(false, std::sync::atomic::Ordering::SeqCst);
                "u".into()
            }
            Op::Ins(k, s, p) => {
                if !holds.is_empty() { "pe".into() } else {
                    let w: &mut World = unsafe { &mut *wp };
                    with_m!(*k, T => { w.insert(T::new(*s, *p)); addr[*k as usize] = &*w.fetch::<T>() as *const T as *const () as usize; });
                    "u".into()
                }
            }
            Op::Rem(k) => {
                if !holds.is_empty() { "pe".into() } else {
                    let w: &mut World = unsafe { &mut *wp };
                    match with_m!(*k, T => w.remove::<T>().map(|v| (v.serial(), v.val()))) {
                        Some((s, p)) => { addr[*k as usize] = 0; format!("v{}.{}", s, p) }
                        None => "n".into(),
                    }
                }
            }
            Op::Get(k) => {
                let r = catch_unwind(AssertUnwindSafe(|| with_m!(*k, T => {
                    let f = world.fetch::<T>();
                    let direct = &*f as *const T as *const () as usize;
                    table.get(&*f).map(|o| (o.tag(), o.serial(), o.val(), o.addr() == direct))
                })));
                match r { Ok(Some((t, s, p, a))) => format!("o{}:{}.{}:{}", t, s, p, a as u8), Ok(None) => "n".into(), Err(p) => panic_kind(&p).into() }
            }
            Op::GetMut(k) => {
                let r = catch_unwind(AssertUnwindSafe(|| with_m!(*k, T => {
                    let mut f = world.fetch_mut::<T>();
                    let direct = &*f as *const T as *const () as usize;
                    table.get_mut(&mut *f).map(|o| { o.bump(); (o.tag(), o.serial(), o.val(), o.addr() == direct) })
                })));
                match r { Ok(Some((t, s, p, a))) => format!("o{}:{}.{}:{}", t, s, p, a as u8), Ok(None) => "n".into(), Err(p) => panic_kind(&p).into() }
            }
            Op::Iter => {
                let r = catch_unwind(AssertUnwindSafe(|| {
                    let items: Vec<_> = table.iter(world).collect();
                    items.iter().map(|o| { let s = o.serial(); (slot_of(&addr, o.addr(), s), o.tag(), o.val()) }).collect::<Vec<_>>()
                }));
                match r {
                    Ok(l) => {
                        // the iterator protocol on the same table and world: nth(k) and skip(k) agree with the collected list
                        let extra = catch_unwind(AssertUnwindSafe(|| {
                            let n1 = table.iter(world).nth(1).map(|o| o.tag());
                            let n2 = table.iter(world).nth(2).map(|o| o.tag());
                            let s1: Vec<u64> = table.iter(world).skip(1).map(|o| o.tag()).collect();
                            let st: Vec<u64> = table.iter(world).step_by(2).map(|o| o.tag()).collect();
                            let f = |x: Option<u64>| x.map(|t| t.to_string()).unwrap_or("-".into());
                            let l = |v: &[u64]| if v.is_empty() { "-".to_string() } else { v.iter().map(|t| t.to_string()).collect::<Vec<_>>().join(".") };
                            format!("#n1={}#n2={}#s1={}#st={}", f(n1), f(n2), l(&s1), l(&st))
                        }));
                        format!("{}{}", list_str(&l), extra.unwrap_or_else(|_| "#panic".into()))
                    }
                    Err(p) => panic_kind(&p).into(),
                }
            }
            Op::IterMut => {
                // only the FIRST item is taken (and dropped): what is borrowed further down the table does not matter (C17/C08)
                let first = catch_unwind(AssertUnwindSafe(|| table.iter_mut(world).next().map(|o| o.tag())));
                let first_s = match first { Ok(Some(t)) => t.to_string(), Ok(None) => "-".into(), Err(p) => panic_kind(&p).into() };
                let r = catch_unwind(AssertUnwindSafe(|| {
                    // streaming use: every yielded object is used at once; the guards stay alive until the end
                    let mut keep = Vec::new();
                    let mut res = Vec::new();
                    for mut o in table.iter_mut(world) {
                        o.bump();
                        let s = o.serial();
                        res.push((slot_of(&addr, o.addr(), s), o.tag(), o.val()));
                        keep.push(o);
                    }
                    res
                }));
                match r {
                    Ok(l) => {
                        let extra = catch_unwind(AssertUnwindSafe(|| {
                            let n1 = table.iter_mut(world).nth(1).map(|o| o.tag());
                            let s1: Vec<u64> = table.iter_mut(world).skip(1).map(|o| o.tag()).collect();
                            let f = |x: Option<u64>| x.map(|t| t.to_string()).unwrap_or("-".into());
                            let l = |v: &[u64]| if v.is_empty() { "-".to_string() } else { v.iter().map(|t| t.to_string()).collect::<Vec<_>>().join(".") };
                            format!("#n1={}#s1={}", f(n1), l(&s1))
                        }));
                        format!("{}{}#f={}", list_str(&l), extra.unwrap_or_else(|_| "#panic".into()), first_s)
                    }
                    Err(p) => format!("{}#f={}", panic_kind(&p), first_s),
                }
            }
            Op::Hold(k, excl) => {
                let r: Result<Option<Box<dyn HoldObj>>, _> = catch_unwind(AssertUnwindSafe(|| with_m!(*k, T => {
                    if *excl { world.try_fetch_mut::<T>().map(|g| Box::new(g) as Box<dyn HoldObj>) }
                    else { world.try_fetch::<T>().map(|g| Box::new(g) as Box<dyn HoldObj>) }
                })));
                match r { Ok(Some(h)) => { holds.push(h); "u".into() } Ok(None) => "n".into(), Err(p) => panic_kind(&p).into() }
            }
            Op::DropHolds => { holds.clear(); "u".into() }
        };
        out.push(res);
    }
    holds.clear();
    unsafe { drop(Box::from_raw(wp)); }
    out.join(" ; ")
}

/// which slot (type index) does the yielded object live in: by ADDRESS (the address recorded when
/// the resource was inserted); 99 if it is no stored resource at all
fn slot_of(addr: &[usize; NTY as usize], a: usize, _serial: u64) -> u64 {
    for (k, x) in addr.iter().enumerate() { if *x == a && a != 0 { return k as u64; } }
    99
}
fn list_str(l: &[(u64, u64, u64)]) -> String {
    if l.is_empty() { "l-".into() } else { format!("l{}", l.iter().map(|(a, b, c)| format!("{}/{}/{}", a, b, c)).collect::<Vec<_>>().join(",")) }
}

pub fn gen_history(rng: &mut Rng, max_len: u64, with_bad: bool) -> Vec<Op> {
    let len = 1 + rng.below(max_len);
    let nty = if with_bad { NTY } else { 2 + rng.below(NTY - 2) };
    let mut serial = 0;
    let mut holding = false;
    let mut ops = Vec::new();
    // one history in five starts with a big table: (nearly) every type registered, in a random order, most of them inserted
    if rng.chance(1, 5) {
        let bad = [6u64, 7, 9, 10];
        let mut ks: Vec<u64> = (0..NTY).filter(|k| with_bad || !bad.contains(k)).collect();
        for i in (1..ks.len()).rev() { let j = rng.below(i as u64 + 1) as usize; ks.swap(i, j); }
        for k in &ks { ops.push(Op::Reg(*k)); }
        for k in &ks { if !bad.contains(k) && rng.chance(3, 4) { serial += 1; ops.push(Op::Ins(*k, serial, rng.below(500))); } }
    }
    for _ in 0..len {
        let k = rng.below(nty);
        let c = rng.below(100);
        let op = if c < 22 { Op::Reg(k) }
            else if c < 40 && !holding { serial += 1; Op::Ins(k, serial, rng.below(500)) }
            else if c < 48 && !holding { Op::Rem(k) }
            else if c < 58 { Op::Get(k) }
            else if c < 66 { Op::GetMut(k) }
            else if c < 80 { Op::Iter }
            else if c < 90 { Op::IterMut }
            else if c < 95 { holding = true; Op::Hold(k, rng.chance(1, 2)) }
            else { holding = false; Op::DropHolds };
        ops.push(op);
    }
    ops
}

/// exhaustive: all histories of length <= 5 over 3 types from an 11-operation menu
pub fn exhaustive_menu() -> Vec<Op> {
    vec![Op::Reg(0), Op::Reg(1), Op::Reg(2), Op::Ins(0, 0, 10), Op::Ins(1, 0, 20), Op::Ins(2, 0, 30), Op::Rem(1),
         Op::Get(1), Op::Iter, Op::IterMut, Op::GetMut(0)]
}
pub fn exhaustive_size() -> u64 { let m = exhaustive_menu().len() as u64; (1..=5).map(|l| m.pow(l)).sum() }
pub fn exhaustive_nth(mut k: u64) -> Vec<Op> {
    let menu = exhaustive_menu();
    let m = menu.len() as u64;
    let mut len = 1;
    let mut block = m;
    while k >= block { k -= block; len += 1; block *= m; }
    let mut ops = Vec::new();
    for i in 0..len {
        let mut o = menu[(k % m) as usize].clone();
        k /= m;
        if let Op::Ins(_, s, _) = &mut o { *s = i as u64 + 1; }
        ops.push(o);
    }
    ops
}
