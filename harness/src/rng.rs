//! splitmix64: the single source of randomness of the harness (seeded by VERIF_SEED).
#[derive(Clone)]
pub struct Rng(pub u64);

impl Rng {
    pub fn new(seed: u64) -> Self {
        Rng(seed ^ 0x9E37_79B9_7F4A_7C15)
    }
    pub fn next(&mut self) -> u64 {
        self.0 = self.0.wrapping_add(0x9E37_79B9_7F4A_7C15);
        let mut z = self.0;
        z = (z ^ (z >> 30)).wrapping_mul(0xBF58_476D_1CE4_E5B9);
        z = (z ^ (z >> 27)).wrapping_mul(0x94D0_49BB_1331_11EB);
        z ^ (z >> 31)
    }
    /// uniform in 0..n (n > 0)
    pub fn below(&mut self, n: u64) -> u64 {
        self.next() % n
    }
    pub fn range(&mut self, lo: u64, hi: u64) -> u64 {
        lo + self.below(hi - lo + 1)
    }
    pub fn chance(&mut self, num: u64, den: u64) -> bool {
        self.below(den) < num
    }
    pub fn fork(&mut self) -> Rng {
        Rng(self.next())
    }
}

pub fn mix(a: u64, b: u64) -> u64 {
    let mut z = a ^ b.wrapping_mul(0x9E37_79B9_7F4A_7C15).rotate_left(23);
    z = (z ^ (z >> 30)).wrapping_mul(0xBF58_476D_1CE4_E5B9);
    z = (z ^ (z >> 27)).wrapping_mul(0x94D0_49BB_1331_11EB);
    z ^ (z >> 31)
}
