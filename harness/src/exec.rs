//! Suite S2: run a built dispatcher under a chosen schedule and print what happened.
use crate::hsys::*;
use crate::prog::*;
use std::collections::HashMap;
use std::panic::{catch_unwind, AssertUnwindSafe};
use std::sync::atomic::Ordering;
use std::sync::{Arc, Condvar, Mutex, Weak};
use std::time::{Duration, Instant};

#[derive(Clone, Debug)]
pub enum Mode {
    Free,
    Hold(u32),
    Overlap,
    Jitter(u64),
}

pub struct ExecCase {
    pub map: MapMode,
    pub pool: usize,
    pub mode: Mode,
    pub calls: Vec<char>,
    pub faults: Vec<u32>,
    /// kind of the dispatch that follows the caught panic(s) (C14)
    pub next: char,
    /// at the end the dispatcher is handed, as a system, to an outer dispatcher which sets it up, runs it and disposes it
    pub nest: bool,
    pub regs: Vec<Reg>,
}

impl ExecCase {
    pub fn head(&self) -> String {
        let mode = match &self.mode {
            Mode::Free => "free".to_string(),
            Mode::Hold(t) => format!("hold:{}", t),
            Mode::Overlap => "overlap".to_string(),
            Mode::Jitter(s) => format!("jitter:{}", s),
        };
        let calls: Vec<String> = self.calls.iter().map(|c| c.to_string()).collect();
        let faults = if self.faults.is_empty() { "-".to_string() } else { self.faults.iter().map(|t| t.to_string()).collect::<Vec<_>>().join(",") };
        format!("exec map={} pool={} mode={} calls={} faults={} next={}{}", self.map.name(), self.pool, mode, calls.join(","), faults, self.next,
                if self.nest { " nest=1" } else { "" })
    }
    pub fn parse(line: &str) -> ExecCase {
        let (head, progt) = line.split_once(" :: ").unwrap_or((line, ""));
        let mut c = ExecCase { map: MapMode::A, pool: 4, mode: Mode::Free, calls: vec!['d'], faults: vec![], next: 'd', nest: false, regs: from_text(progt) };
        for t in head.split(' ') {
            if let Some(v) = t.strip_prefix("map=") { c.map = MapMode::parse(v); }
            if let Some(v) = t.strip_prefix("pool=") { c.pool = v.parse().unwrap(); }
            if let Some(v) = t.strip_prefix("mode=") {
                c.mode = if v == "free" { Mode::Free } else if v == "overlap" { Mode::Overlap }
                    else if let Some(x) = v.strip_prefix("hold:") { Mode::Hold(x.parse().unwrap()) }
                    else if let Some(x) = v.strip_prefix("jitter:") { Mode::Jitter(x.parse().unwrap()) }
                    else { panic!("mode") };
            }
            if let Some(v) = t.strip_prefix("calls=") { c.calls = v.split(',').filter(|s| !s.is_empty()).map(|s| s.chars().next().unwrap()).collect(); }
            if let Some(v) = t.strip_prefix("nest=") { c.nest = v == "1"; }
            if let Some(v) = t.strip_prefix("next=") { c.next = v.chars().next().unwrap_or('d'); }
            if let Some(v) = t.strip_prefix("faults=") { c.faults = if v == "-" { vec![] } else { v.split(',').map(|s| s.parse().unwrap()).collect() }; }
        }
        c
    }
}

// ---------------------------------------------------------------------------------------
// schedulers

/// the held system stays inside `run` until nothing else happens any more
struct HoldSched { tag: u32, rec: Weak<Recorder> }
impl Sched for HoldSched {
    fn at(&self, tag: u32, p: Point) {
        if tag != self.tag || p != Point::Run { return; }
        let rec = match self.rec.upgrade() { Some(r) => r, None => return };
        let start = Instant::now();
        let mut stable = 0;
        let mut last = rec.log.lock().unwrap_or_else(|p| p.into_inner()).len();
        while stable < 4 && start.elapsed() < Duration::from_millis(300) {
            std::thread::sleep(Duration::from_micros(700));
            let n = rec.log.lock().unwrap_or_else(|p| p.into_inner()).len();
            if n == last { stable += 1; } else { stable = 0; last = n; }
        }
    }
}

/// group heads of a stage wait for each other inside `run` (forces real overlap)
struct OverlapSched {
    /// head tag -> (rendezvous key, width)
    heads: HashMap<u32, (u64, usize)>,
    arrived: Mutex<HashMap<u64, usize>>,
    cv: Condvar,
    timeouts: Mutex<Vec<u32>>,
    active: std::sync::atomic::AtomicBool,
}
impl Sched for OverlapSched {
    fn at(&self, tag: u32, p: Point) {
        if p != Point::Run || !self.active.load(Ordering::SeqCst) { return; }
        if let Some(&(key, width)) = self.heads.get(&tag) {
            let mut g = self.arrived.lock().unwrap_or_else(|p| p.into_inner());
            *g.entry(key).or_insert(0) += 1;
            self.cv.notify_all();
            let deadline = Instant::now() + Duration::from_millis(400);
            loop {
                if *g.get(&key).unwrap_or(&0) >= width { break; }
                let now = Instant::now();
                if now >= deadline {
                    self.timeouts.lock().unwrap_or_else(|p| p.into_inner()).push(tag);
                    break;
                }
                let (ng, _) = self.cv.wait_timeout(g, deadline - now).unwrap_or_else(|p| p.into_inner());
                g = ng;
            }
        }
    }
}
impl OverlapSched {
    fn reset(&self) { self.arrived.lock().unwrap_or_else(|p| p.into_inner()).clear(); }
}

struct JitterSched { seed: u64 }
impl Sched for JitterSched {
    fn at(&self, tag: u32, p: Point) {
        let h = crate::rng::mix(self.seed, (tag as u64) << 2 | p as u64);
        match h % 5 {
            0 => std::thread::yield_now(),
            1 => std::thread::sleep(Duration::from_micros(50 + h % 200)),
            2 => { let mut x = h; for _ in 0..(h % 2000) { x = crate::rng::mix(x, 1); } std::hint::black_box(x); }
            _ => {}
        }
    }
}

// ---------------------------------------------------------------------------------------

fn thr(on_caller: bool, w: Option<usize>) -> String {
    if on_caller { "c".into() } else if let Some(k) = w { format!("w{}", k) } else { "o".into() }
}

fn encode(log: &[Ev]) -> String {
    let mut parts = Vec::new();
    for e in log {
        parts.push(match e {
            Ev::F(t, c, w) => format!("F{}{}", t, thr(*c, *w)),
            Ev::R(t) => format!("R{}", t),
            Ev::P(t) => format!("P{}", t),
            Ev::BP(t, _) => format!("B{}", t),
            Ev::CtlIn(t, c, w) => format!("F{}{}", t, thr(*c, *w)),
            Ev::CtlOut(t) => format!("R{}", t),
            Ev::Setup(t) => format!("S{}", t),
            Ev::Dispose(t) => format!("X{}", t),
            Ev::Shape(..) => continue,
            Ev::InnerStart(t) => format!("D{}", t),
            Ev::InnerEnd(t) => format!("E{}", t),
            Ev::Note(s) => format!("N{}", s),
        });
    }
    if parts.is_empty() { "-".into() } else { parts.join(",") }
}

/// MultiDispatcher batches have no observable end: synthesise their release right after the last
/// event of their subtree (the earliest point at which the batch can have ended)
pub fn multi_subtrees(regs: &[Reg], out: &mut Vec<(u32, Vec<u32>)>) {
    for r in regs {
        if let Reg::Batch { tag, ctl, inner, .. } = r {
            if ctl.multi {
                let mut t = Vec::new();
                all_tags(inner, &mut t);
                out.push((*tag, t));
            }
            multi_subtrees(inner, out);
        }
    }
}
fn ev_tag(e: &Ev) -> Option<u32> {
    match e {
        Ev::F(t, _, _) | Ev::R(t) | Ev::P(t) | Ev::BP(t, _) | Ev::CtlIn(t, _, _) | Ev::CtlOut(t) | Ev::InnerStart(t) | Ev::InnerEnd(t) => Some(*t),
        _ => None,
    }
}
pub fn fix_multi(log: Vec<Ev>, multis: &[(u32, Vec<u32>)]) -> Vec<Ev> {
    let mut log = log;
    for (tag, sub) in multis {
        let mut i = 0;
        while i < log.len() {
            if let Ev::CtlIn(t, _, _) = &log[i] {
                if t == tag {
                    // a panic injected into the controller itself: the window ends with the unwinding
                    let mut last = i;
                    let mut j = i + 1;
                    while j < log.len() {
                        if let Ev::CtlIn(t2, _, _) = &log[j] { if t2 == tag { break; } }
                        if let Ev::P(pt) = &log[j] { if pt == tag { last = j; break; } }
                        if let Some(et) = ev_tag(&log[j]) { if sub.contains(&et) { last = j; } }
                        j += 1;
                    }
                    log.insert(last + 1, Ev::CtlOut(*tag));
                    i = last + 2;
                    continue;
                }
            }
            i += 1;
        }
    }
    log
}

fn shape_str(sh: &[Vec<usize>]) -> String {
    if sh.is_empty() { return "-".into(); }
    sh.iter().map(|st| st.iter().map(|k| k.to_string()).collect::<Vec<_>>().join(".")).collect::<Vec<_>>().join("/")
}
fn list(v: &[u32]) -> String {
    if v.is_empty() { "-".into() } else { v.iter().map(|x| x.to_string()).collect::<Vec<_>>().join(",") }
}

fn level_index(regs: &[Reg], level: u32, lv: &mut HashMap<u32, (u32, bool)>) {
    for r in regs {
        match r {
            Reg::Sys { tag, .. } => { lv.insert(*tag, (level, false)); }
            Reg::Tl { tag, .. } => { lv.insert(*tag, (level, true)); }
            Reg::Batch { tag, inner, .. } => { lv.insert(*tag, (level, false)); level_index(inner, *tag, lv); }
            Reg::Barrier => {}
        }
    }
}

fn world_values(regs: &[Reg], map: MapMode, world: &shred::World) -> String {
    let mut rs = Vec::new();
    all_resources(regs, &mut rs);
    rs.sort();
    rs.dedup();
    let v: Vec<String> = rs.iter().map(|r| format!("{}:{:x}", r, read_value(world, map.locate(*r)).unwrap_or(0))).collect();
    if v.is_empty() { "-".into() } else { v.join(",") }
}
fn probe(regs: &[Reg], map: MapMode, world: &shred::World) -> String {
    let mut rs = Vec::new();
    all_resources(regs, &mut rs);
    rs.sort();
    rs.dedup();
    let v: Vec<String> = rs.iter().map(|r| borrow_class(world, map.locate(*r)).to_string()).collect();
    if v.is_empty() { "-".into() } else { v.join("") }
}
fn states(h: &Handles) -> String {
    let mut v: Vec<(u32, u64)> = h.states.iter().map(|(t, s)| (*t, s.load(Ordering::SeqCst))).collect();
    v.sort();
    if v.is_empty() { "-".into() } else { v.iter().map(|(t, s)| format!("{}:{:x}", t, s)).collect::<Vec<_>>().join(",") }
}
fn runs(h: &Handles) -> String {
    let mut v: Vec<(u32, u64)> = h.runs.iter().map(|(t, s)| (*t, s.load(Ordering::SeqCst))).collect();
    v.sort();
    if v.is_empty() { "-".into() } else { v.iter().map(|(t, s)| format!("{}:{}", t, s)).collect::<Vec<_>>().join(",") }
}

pub struct ExecEnv {
    #[cfg(feature = "parallel")]
    pub pools: HashMap<usize, Arc<rayon::ThreadPool>>,
}
impl ExecEnv {
    pub fn new() -> ExecEnv {
        ExecEnv {
            #[cfg(feature = "parallel")]
            pools: HashMap::new(),
        }
    }
    #[cfg(feature = "parallel")]
    fn pool(&mut self, n: usize) -> Arc<rayon::ThreadPool> {
        self.pools.entry(n).or_insert_with(|| Arc::new(rayon::ThreadPoolBuilder::new().num_threads(n).build().unwrap())).clone()
    }
}

pub fn observe(c: &ExecCase, env: &mut ExecEnv) -> String {
    let rec = Recorder::new(c.map);
    rec.set_caller();
    #[cfg(feature = "parallel")]
    let pool = env.pool(c.pool);
    #[cfg(feature = "parallel")]
    let out = build(&c.regs, &rec, Some(&pool));
    #[cfg(not(feature = "parallel"))]
    let out = { let _ = &env; build(&c.regs, &rec) };
    let mut s = String::new();
    if out.builder.is_none() {
        s.push_str(&format!("builderr={};", out.err.clone().unwrap_or("?".into())));
        return s;
    }
    let handles = out.handles;
    let mut dispatcher = out.builder.unwrap().build();
    let mut world = make_world(&c.regs, c.map);
    // --- setup (C13)
    let before = world_values(&c.regs, c.map, &world);
    // a case that drives the dispatcher through RunNow also sets it up and disposes it through RunNow
    let via_trait = c.calls.contains(&'r') || c.next == 'r';
    CTL_SETUP_CALLS.store(0, Ordering::SeqCst);
    let r = catch_unwind(AssertUnwindSafe(|| if via_trait { shred::RunNow::setup(&mut dispatcher, &mut world) } else { dispatcher.setup(&mut world) }));
    let ctl_setup_calls = CTL_SETUP_CALLS.load(Ordering::SeqCst);
    s.push_str(&format!("setup={};setupok={};ctlsetups={};", encode(&rec.take()), if r.is_ok() { 1 } else { 0 }, ctl_setup_calls));
    let after = world_values(&c.regs, c.map, &world);
    s.push_str(&format!("setupkeeps={};", if before == after { 1 } else { 0 }));
    // --- setup again, interleaved with removes (C13): some resources are taken away, setup is repeated: every system is
    // visited once more, what still exists keeps its value, what the harness systems access exists again
    {
        let mut rs = Vec::new();
        all_resources(&c.regs, &mut rs);
        rs.sort(); rs.dedup();
        let removed: Vec<u32> = rs.iter().cloned().filter(|r| crate::rng::mix(0xC13, *r as u64) % 3 == 0).collect();
        for r in &removed { remove_value(&mut world, c.map.locate(*r)); }
        let kept_before: Vec<(u32, Option<u64>)> = rs.iter().filter(|r| !removed.contains(r)).map(|r| (*r, read_value(&world, c.map.locate(*r)))).collect();
        let r2 = catch_unwind(AssertUnwindSafe(|| dispatcher.setup(&mut world)));
        let log2 = rec.take();
        let kept_after: Vec<(u32, Option<u64>)> = rs.iter().filter(|r| !removed.contains(r)).map(|r| (*r, read_value(&world, c.map.locate(*r)))).collect();
        let mut accessed = Vec::new();
        crate::prog::sys_resources(&c.regs, &mut accessed);
        let recreated = removed.iter().filter(|r| accessed.contains(r)).all(|r| read_value(&world, c.map.locate(*r)).is_some());
        s.push_str(&format!("setup2={};setup2ok={};setup2keeps={};setup2recreates={};", encode(&log2), r2.is_ok() as u8,
                            (kept_before == kept_after) as u8, recreated as u8));
        // restore the values the runs below expect
        for r in &removed { set_value(&mut world, c.map.locate(*r), *r as u64 + 1); }
    }
    // --- identification run: the real layout of every level
    rec.identify.store(true, Ordering::SeqCst);
    let (shape0, tl0) = dispatcher.verif_shape();
    let idr = catch_unwind(AssertUnwindSafe(|| {
        dispatcher.dispatch_seq(&world);
        dispatcher.dispatch_thread_local(&world);
    }));
    rec.identify.store(false, Ordering::SeqCst);
    let idlog = rec.take();
    let mut lv = HashMap::new();
    level_index(&c.regs, 0, &mut lv);
    let mut shapes: HashMap<u32, (Vec<Vec<usize>>, usize)> = HashMap::new();
    shapes.insert(0, (shape0, tl0));
    let mut orders: HashMap<u32, Vec<u32>> = HashMap::new();
    let mut tlorders: HashMap<u32, Vec<u32>> = HashMap::new();
    for e in &idlog {
        match e {
            Ev::F(tag, _, _) | Ev::CtlIn(tag, _, _) => {
                if let Some((level, is_tl)) = lv.get(tag) {
                    if *is_tl { tlorders.entry(*level).or_default().push(*tag); } else { orders.entry(*level).or_default().push(*tag); }
                }
            }
            Ev::Shape(tag, sh, tl, _) => { shapes.insert(*tag, (sh.clone(), *tl)); }
            _ => {}
        }
    }
    let mut levels: Vec<u32> = shapes.keys().cloned().collect();
    levels.sort();
    for l in &levels {
        let (sh, tl) = &shapes[l];
        s.push_str(&format!("L{}{{shape={};tl={};order={};tlorder={}}};", l, shape_str(sh), tl,
            list(orders.get(l).map(|v| &v[..]).unwrap_or(&[])), list(tlorders.get(l).map(|v| &v[..]).unwrap_or(&[]))));
    }
    s.push_str(&format!("idok={};", if idr.is_ok() { 1 } else { 0 }));
    // reset world, states and counters
    world = make_world(&c.regs, c.map);
    let _ = catch_unwind(AssertUnwindSafe(|| dispatcher.setup(&mut world)));
    let _ = rec.take();
    for (t, st) in handles.states.iter() { st.store(*t as u64, Ordering::SeqCst); }
    for (_, r) in handles.runs.iter() { r.store(0, Ordering::SeqCst); }
    // --- scheduler
    let overlap = if let Mode::Overlap = c.mode {
        let mut heads = HashMap::new();
        for l in &levels {
            let (sh, _) = &shapes[l];
            let order = orders.get(l).cloned().unwrap_or_default();
            let mut pos = 0usize;
            for (si, st) in sh.iter().enumerate() {
                let width = st.len();
                for g in st {
                    if width >= 2 && width <= c.pool && *l == 0 {
                        if let Some(h) = order.get(pos) { heads.insert(*h, ((*l as u64) << 32 | si as u64, width)); }
                    }
                    pos += g;
                }
            }
        }
        Some(Arc::new(OverlapSched { heads, arrived: Mutex::new(HashMap::new()), cv: Condvar::new(), timeouts: Mutex::new(Vec::new()), active: std::sync::atomic::AtomicBool::new(false) }))
    } else { None };
    match &c.mode {
        Mode::Free => rec.set_sched(Arc::new(FreeRun)),
        Mode::Hold(t) => rec.set_sched(Arc::new(HoldSched { tag: *t, rec: Arc::downgrade(&rec) })),
        Mode::Overlap => rec.set_sched(overlap.clone().unwrap()),
        Mode::Jitter(seed) => rec.set_sched(Arc::new(JitterSched { seed: *seed })),
    }
    *rec.faults.lock().unwrap() = c.faults.iter().cloned().collect();
    // --- the calls
    let mut multis = Vec::new();
    multi_subtrees(&c.regs, &mut multis);
    for (i, call) in c.calls.iter().enumerate() {
        if let Some(o) = &overlap { o.reset(); o.active.store(cfg!(feature = "parallel") && (*call == 'd' || *call == 'r' || *call == 'p'), Ordering::SeqCst); }
        let r = catch_unwind(AssertUnwindSafe(|| match call {
            'd' => dispatcher.dispatch(&world),
            // the dispatcher driven as a system (how an outer dispatcher or generic code runs it)
            'r' => shred::RunNow::run_now(&mut dispatcher, &world),
            #[cfg(feature = "parallel")]
            'p' => dispatcher.dispatch_par(&world),
            #[cfg(not(feature = "parallel"))]
            'p' => dispatcher.dispatch_seq(&world),
            's' => dispatcher.dispatch_seq(&world),
            't' => dispatcher.dispatch_thread_local(&world),
            _ => panic!("call kind"),
        }));
        let log = fix_multi(rec.take(), &multis);
        let payload = match &r { Ok(()) => "-".to_string(), Err(p) => hexs(&payload_string(p)) };
        s.push_str(&format!("T{}={};P{}={};probe{}={};", i, encode(&log), i, payload, i, probe(&c.regs, c.map, &world)));
    }
    rec.set_sched(Arc::new(FreeRun));
    rec.faults.lock().unwrap().clear();
    if !c.faults.is_empty() {
        // C14: the next dispatch after the caught panic(s)
        let r = catch_unwind(AssertUnwindSafe(|| match c.next {
            #[cfg(feature = "parallel")]
            'p' => dispatcher.dispatch_par(&world),
            #[cfg(not(feature = "parallel"))]
            'p' => dispatcher.dispatch_seq(&world),
            's' => dispatcher.dispatch_seq(&world),
            'r' => shred::RunNow::run_now(&mut dispatcher, &world),
            _ => dispatcher.dispatch(&world),
        }));
        let log = fix_multi(rec.take(), &multis);
        let payload = match &r { Ok(()) => "-".to_string(), Err(p) => hexs(&payload_string(p)) };
        s.push_str(&format!("TN={};PN={};probeN={};", encode(&log), payload, probe(&c.regs, c.map, &world)));
        // ... and a LATER dispatch in which another system panics alone: the caller gets THAT system's payload
        // (nothing of the earlier panics may linger)
        let tops: Vec<u32> = c.regs.iter().filter_map(|r| match r { Reg::Sys { tag, .. } => Some(*tag), _ => None }).collect();
        if let Some(nf) = tops.iter().max() {
            rec.faults.lock().unwrap().insert(*nf);
            let r = catch_unwind(AssertUnwindSafe(|| dispatcher.dispatch(&world)));
            rec.faults.lock().unwrap().clear();
            let _ = rec.take();
            let payload = match &r { Ok(()) => "-".to_string(), Err(p) => hexs(&payload_string(p)) };
            s.push_str(&format!("nf={};PN2={};", nf, payload));
            // one clean dispatch so that the phases below start from an ordinary state
            let _ = catch_unwind(AssertUnwindSafe(|| dispatcher.dispatch(&world)));
            let _ = rec.take();
        }
    }
    if let Some(o) = &overlap {
        let t = o.timeouts.lock().unwrap().clone();
        s.push_str(&format!("rvtimeouts={};", list(&t)));
    }
    s.push_str(&format!("world={};states={};runs={};", world_values(&c.regs, c.map, &world), states(&handles), runs(&handles)));
    // --- another world (C04/C01/C13): the same dispatcher set up for and dispatched on a SECOND world, then again on the first
    if c.faults.is_empty() {
        let mut wb = make_world(&c.regs, c.map);
        let rs = catch_unwind(AssertUnwindSafe(|| dispatcher.setup(&mut wb)));
        let _ = rec.take();
        let r = catch_unwind(AssertUnwindSafe(|| dispatcher.dispatch(&wb)));
        let log = fix_multi(rec.take(), &multis);
        let payload = match &r { Ok(()) => "-".to_string(), Err(p) => hexs(&payload_string(p)) };
        s.push_str(&format!("TW={};PW={};probeW={};setupWok={};", encode(&log), payload, probe(&c.regs, c.map, &wb), rs.is_ok() as u8));
        let r = catch_unwind(AssertUnwindSafe(|| dispatcher.dispatch(&world)));
        let log = fix_multi(rec.take(), &multis);
        let payload = match &r { Ok(()) => "-".to_string(), Err(p) => hexs(&payload_string(p)) };
        s.push_str(&format!("TB={};PB={};", encode(&log), payload));
    }
    // --- twin: the same program, the same calls, sequentially
    if c.faults.is_empty() {
        let rec2 = Recorder::new(c.map);
        rec2.set_caller();
        #[cfg(feature = "parallel")]
        let out2 = build(&c.regs, &rec2, Some(&pool));
        #[cfg(not(feature = "parallel"))]
        let out2 = build(&c.regs, &rec2);
        if let Some(b2) = out2.builder {
            let mut d2 = b2.build();
            let mut w2 = make_world(&c.regs, c.map);
            let r = catch_unwind(AssertUnwindSafe(|| {
                d2.setup(&mut w2);
                rec2.seq_inner.store(true, Ordering::SeqCst);
                for call in &c.calls {
                    match call {
                        'd' | 'r' => { d2.dispatch_seq(&w2); d2.dispatch_thread_local(&w2); }
                        'p' | 's' => d2.dispatch_seq(&w2),
                        't' => d2.dispatch_thread_local(&w2),
                        _ => {}
                    }
                }
            }));
            s.push_str(&format!("twin={};twinstates={};twinok={};", world_values(&c.regs, c.map, &w2), states(&out2.handles), if r.is_ok() { 1 } else { 0 }));
        }
    }
    // --- nested (C12/C13/C04): the dispatcher driven as a system of an outer dispatcher — through RunNow for
    // SendDispatcher when it has no thread-local systems, through RunNow for Dispatcher otherwise
    if c.nest {
        let mut ob = shred::DispatcherBuilder::new();
        #[cfg(feature = "parallel")]
        ob.add_pool(pool.clone());
        match dispatcher.try_into_sendable() {
            Ok(sd) => ob.add_thread_local(sd),
            Err(d) => ob.add_thread_local(d),
        }
        let mut outer = ob.build();
        let r = catch_unwind(AssertUnwindSafe(|| outer.setup(&mut world)));
        s.push_str(&format!("setupN={};setupNok={};", encode(&rec.take()), if r.is_ok() { 1 } else { 0 }));
        let r = catch_unwind(AssertUnwindSafe(|| outer.dispatch(&world)));
        let log = fix_multi(rec.take(), &multis);
        let payload = match &r { Ok(()) => "-".to_string(), Err(p) => hexs(&payload_string(p)) };
        s.push_str(&format!("TNest={};PNest={};", encode(&log), payload));
        let r = catch_unwind(AssertUnwindSafe(|| outer.dispose(&mut world)));
        s.push_str(&format!("dispose={};disposeok={};", encode(&rec.take()), if r.is_ok() { 1 } else { 0 }));
        return s;
    }
    // --- dispose (C13): every system is handed to its dispose hook whatever the world holds by then - a third of the
    // resources is taken away first (odd cases only, so that both situations are covered)
    if c.calls.len() % 2 == 1 {
        let mut rs = Vec::new();
        all_resources(&c.regs, &mut rs);
        rs.sort(); rs.dedup();
        for r in rs.iter().filter(|r| crate::rng::mix(0xD15, **r as u64) % 3 == 0) { remove_value(&mut world, c.map.locate(*r)); }
        for k in 0..8u32 { if crate::rng::mix(0xD15, 1000 + k as u64) % 3 == 0 { remove_value(&mut world, c.map.locate(k)); } }
    }
    let r = catch_unwind(AssertUnwindSafe(|| if via_trait { shred::RunNow::dispose(Box::new(dispatcher), &mut world) } else { dispatcher.dispose(&mut world) }));
    s.push_str(&format!("dispose={};disposeok={};", encode(&rec.take()), if r.is_ok() { 1 } else { 0 }));
    s
}
