//! Harness systems, resources, controllers, recorder; building a real DispatcherBuilder from
//! a registration program.  Everything goes through shred's public API (+ verif_shape hook).
#![allow(clippy::type_complexity)]
use crate::prog::{CtlKind, Reg, SysKind};
use crate::rng::mix;
use shred::{
    Accessor, AccessorCow, BatchController, Dispatcher, DispatcherBuilder, DynamicSystemData, Fetch,
    FetchMut, MultiDispatchController, MultiDispatcher, Read, ReadExpect, Resource, ResourceId, RunNow,
    RunningTime, System, SystemData, World, Write, WriteExpect,
};
use std::any::Any;
use std::collections::{HashMap, HashSet};
use std::marker::PhantomData;
use std::panic::{catch_unwind, resume_unwind, AssertUnwindSafe};
use std::sync::atomic::{AtomicBool, AtomicU64, Ordering};
use std::sync::{Arc, Condvar, Mutex};
use std::thread::ThreadId;

// ---------------------------------------------------------------------------------------
// resources

#[derive(Default, Debug)]
pub struct R<const K: usize>(pub u64);
#[derive(Default, Debug)]
pub struct Dyn(pub u64);

pub trait Val: Resource + Default {
    fn get(&self) -> u64;
    fn set(&mut self, v: u64);
}
impl<const K: usize> Val for R<K> {
    fn get(&self) -> u64 { self.0 }
    fn set(&mut self, v: u64) { self.0 = v }
}
impl Val for Dyn {
    fn get(&self) -> u64 { self.0 }
    fn set(&mut self, v: u64) { self.0 = v }
}

/// how abstract resource numbers are realised as (type, dynamic id)
#[derive(Clone, Copy, Debug, PartialEq, Eq)]
pub enum MapMode { A, B, C }

impl MapMode {
    pub fn parse(s: &str) -> MapMode {
        match s { "A" => MapMode::A, "B" => MapMode::B, "C" => MapMode::C, _ => panic!("map mode") }
    }
    pub fn name(self) -> &'static str {
        match self { MapMode::A => "A", MapMode::B => "B", MapMode::C => "C" }
    }
    /// (type index 0..=8 (8 = Dyn), dynamic id) — injective in r for each mode
    pub fn locate(self, r: u32) -> (usize, u64) {
        match self {
            MapMode::A => if r < 8 { (r as usize, 0) } else { (8, r as u64) },
            MapMode::B => (8, r as u64 + 100),
            MapMode::C => ((r % 8) as usize, (r / 8) as u64 + 1),
        }
    }
}

macro_rules! by_type {
    ($ti:expr, $T:ident => $body:expr) => {
        match $ti {
            0 => { type $T = R<0>; $body }
            1 => { type $T = R<1>; $body }
            2 => { type $T = R<2>; $body }
            3 => { type $T = R<3>; $body }
            4 => { type $T = R<4>; $body }
            5 => { type $T = R<5>; $body }
            6 => { type $T = R<6>; $body }
            7 => { type $T = R<7>; $body }
            _ => { type $T = Dyn; $body }
        }
    };
}

pub fn rid_of(loc: (usize, u64)) -> ResourceId {
    by_type!(loc.0, T => ResourceId::new_with_dynamic_id::<T>(loc.1))
}

pub trait SharedVal { fn get(&self) -> u64; }
pub trait ExclVal { fn get(&self) -> u64; fn set(&mut self, v: u64); }
impl<T: Val> SharedVal for Fetch<'_, T> { fn get(&self) -> u64 { (**self).get() } }
impl<T: Val> ExclVal for FetchMut<'_, T> {
    fn get(&self) -> u64 { (**self).get() }
    fn set(&mut self, v: u64) { (**self).set(v) }
}

pub fn fetch_shared<'a>(world: &'a World, loc: (usize, u64)) -> Option<Box<dyn SharedVal + 'a>> {
    by_type!(loc.0, T => world
        .try_fetch_by_id::<T>(ResourceId::new_with_dynamic_id::<T>(loc.1))
        .map(|f| Box::new(f) as Box<dyn SharedVal + 'a>))
}
pub fn fetch_excl<'a>(world: &'a World, loc: (usize, u64)) -> Option<Box<dyn ExclVal + 'a>> {
    by_type!(loc.0, T => world
        .try_fetch_mut_by_id::<T>(ResourceId::new_with_dynamic_id::<T>(loc.1))
        .map(|f| Box::new(f) as Box<dyn ExclVal + 'a>))
}
pub fn ensure(world: &mut World, loc: (usize, u64)) {
    by_type!(loc.0, T => {
        let id = ResourceId::new_with_dynamic_id::<T>(loc.1);
        if !world.has_value_raw(id.clone()) {
            world.insert_by_id(id, T::default());
        }
    })
}
pub fn set_value(world: &mut World, loc: (usize, u64), v: u64) {
    by_type!(loc.0, T => {
        let id = ResourceId::new_with_dynamic_id::<T>(loc.1);
        world.insert_by_id(id, { let mut t = T::default(); t.set(v); t });
    })
}
pub fn remove_value(world: &mut World, loc: (usize, u64)) {
    by_type!(loc.0, T => {
        let id = ResourceId::new_with_dynamic_id::<T>(loc.1);
        let _ = world.remove_by_id::<T>(id);
    })
}
/// 0 = free, 1 = shared, 2 = exclusive, 3 = absent
pub fn borrow_class(world: &World, loc: (usize, u64)) -> u8 {
    let id = rid_of(loc);
    match unsafe { world.try_fetch_internal(id) } {
        None => 3,
        Some(cell) => {
            if cell.try_borrow_mut().is_ok() { 0 } else if cell.try_borrow().is_ok() { 1 } else { 2 }
        }
    }
}
pub fn read_value(world: &World, loc: (usize, u64)) -> Option<u64> {
    fetch_shared(world, loc).map(|g| g.get())
}

// ---------------------------------------------------------------------------------------
// recorder

#[derive(Clone, Debug, PartialEq)]
pub enum Ev {
    /// fetch entry (or run entry for static menu systems); on caller thread?; rayon worker index
    F(u32, bool, Option<usize>),
    /// data dropped (or run exit)
    R(u32),
    /// injected panic raised by system
    P(u32),
    /// a borrow failed inside fetch
    BP(u32, String),
    Setup(u32),
    Dispose(u32),
    Shape(u32, Vec<Vec<usize>>, usize, Option<usize>),
    CtlIn(u32, bool, Option<usize>),
    CtlOut(u32),
    /// markers written by harness controllers around every inner dispatch
    InnerStart(u32),
    InnerEnd(u32),
    Note(String),
}

/// points at which a system reports to the scheduler
#[derive(Clone, Copy, Debug, PartialEq, Eq, Hash)]
pub enum Point { Fetch, Run, Release }

pub trait Sched: Send + Sync {
    /// called by a system before it passes `point`; may block
    fn at(&self, tag: u32, point: Point);
}
pub struct FreeRun;
impl Sched for FreeRun { fn at(&self, _: u32, _: Point) {} }

pub struct Recorder {
    pub log: Mutex<Vec<Ev>>,
    pub identify: AtomicBool,
    pub caller: Mutex<Option<ThreadId>>,
    pub faults: Mutex<HashSet<u32>>,
    pub sched: Mutex<Arc<dyn Sched>>,
    pub map: MapMode,
    pub clock: AtomicU64,
    /// twin runs: harness controllers dispatch their inner dispatcher sequentially
    pub seq_inner: AtomicBool,
}

impl Recorder {
    pub fn new(map: MapMode) -> Arc<Recorder> {
        Arc::new(Recorder {
            log: Mutex::new(Vec::new()),
            identify: AtomicBool::new(false),
            caller: Mutex::new(None),
            faults: Mutex::new(HashSet::new()),
            sched: Mutex::new(Arc::new(FreeRun)),
            map,
            clock: AtomicU64::new(0),
            seq_inner: AtomicBool::new(false),
        })
    }
    pub fn push(&self, e: Ev) {
        self.log.lock().unwrap_or_else(|p| p.into_inner()).push(e);
    }
    pub fn take(&self) -> Vec<Ev> {
        std::mem::take(&mut *self.log.lock().unwrap_or_else(|p| p.into_inner()))
    }
    pub fn set_caller(&self) {
        *self.caller.lock().unwrap() = Some(std::thread::current().id());
    }
    pub fn on_caller(&self) -> bool {
        *self.caller.lock().unwrap() == Some(std::thread::current().id())
    }
    pub fn at(&self, tag: u32, p: Point) {
        let s = self.sched.lock().unwrap_or_else(|p| p.into_inner()).clone();
        s.at(tag, p);
    }
    pub fn set_sched(&self, s: Arc<dyn Sched>) {
        *self.sched.lock().unwrap_or_else(|p| p.into_inner()) = s;
    }
    pub fn faulty(&self, tag: u32) -> bool {
        self.faults.lock().unwrap_or_else(|p| p.into_inner()).contains(&tag)
    }
}

pub fn worker_index() -> Option<usize> {
    #[cfg(feature = "parallel")]
    { rayon::current_thread_index() }
    #[cfg(not(feature = "parallel"))]
    { None }
}

// ---------------------------------------------------------------------------------------
// dynamic harness system

/// logs the end of a window when dropped (also during unwinding)
pub struct EndGuard { pub tag: u32, pub rec: Arc<Recorder>, pub ctl: bool }
impl Drop for EndGuard {
    fn drop(&mut self) {
        if self.ctl { self.rec.push(Ev::CtlOut(self.tag)); } else { self.rec.push(Ev::R(self.tag)); }
    }
}

pub struct HAccessor {
    pub tag: u32,
    pub reads: Vec<u32>,
    pub writes: Vec<u32>,
    pub rec: Arc<Recorder>,
}
impl Accessor for HAccessor {
    /// an accessor type WITH a default (no access), as a scripting layer would have it: one Rust system type, many
    /// instances whose `System::accessor()` returns per-instance lists; shred itself never needs the default
    fn try_new() -> Option<Self> { Some(HAccessor { tag: u32::MAX, reads: Vec::new(), writes: Vec::new(), rec: Recorder::new(MapMode::A) }) }
    fn reads(&self) -> Vec<ResourceId> {
        self.reads.iter().map(|&r| rid_of(self.rec.map.locate(r))).collect()
    }
    fn writes(&self) -> Vec<ResourceId> {
        self.writes.iter().map(|&r| rid_of(self.rec.map.locate(r))).collect()
    }
}

pub struct Guards<'a> {
    pub shared: Vec<(u32, Box<dyn SharedVal + 'a>)>,
    pub excl: Vec<(u32, Box<dyn ExclVal + 'a>)>,
}

/// really borrow: writes exclusively, reads (not also written) shared; a failing borrow is
/// logged as BP and re-raised
pub fn acquire<'a>(world: &'a World, rec: &Recorder, tag: u32, reads: &[u32], writes: &[u32]) -> Guards<'a> {
    let mut g = Guards { shared: Vec::new(), excl: Vec::new() };
    let mut seen_w: Vec<u32> = Vec::new();
    for &w in writes {
        if seen_w.contains(&w) { continue; }
        seen_w.push(w);
        let loc = rec.map.locate(w);
        match catch_unwind(AssertUnwindSafe(|| fetch_excl(world, loc))) {
            Ok(Some(x)) => g.excl.push((w, x)),
            Ok(None) => {}
            Err(p) => {
                rec.push(Ev::BP(tag, payload_string(&p)));
                drop(g);
                resume_unwind(p);
            }
        }
    }
    let mut seen_r: Vec<u32> = Vec::new();
    for &r in reads {
        if seen_w.contains(&r) || seen_r.contains(&r) { continue; }
        seen_r.push(r);
        let loc = rec.map.locate(r);
        match catch_unwind(AssertUnwindSafe(|| fetch_shared(world, loc))) {
            Ok(Some(x)) => g.shared.push((r, x)),
            Ok(None) => {}
            Err(p) => {
                rec.push(Ev::BP(tag, payload_string(&p)));
                drop(g);
                resume_unwind(p);
            }
        }
    }
    g
}

pub struct HData<'a> {
    tag: u32,
    rec: Arc<Recorder>,
    guards: Option<Guards<'a>>,
}
impl<'a> DynamicSystemData<'a> for HData<'a> {
    type Accessor = HAccessor;
    fn setup(acc: &HAccessor, world: &mut World) {
        for &r in acc.reads.iter().chain(acc.writes.iter()) {
            ensure(world, acc.rec.map.locate(r));
        }
    }
    fn fetch(acc: &HAccessor, world: &'a World) -> Self {
        acc.rec.at(acc.tag, Point::Fetch);
        acc.rec.push(Ev::F(acc.tag, acc.rec.on_caller(), worker_index()));
        let guards = acquire(world, &acc.rec, acc.tag, &acc.reads, &acc.writes);
        HData { tag: acc.tag, rec: acc.rec.clone(), guards: Some(guards) }
    }
}
impl Drop for HData<'_> {
    fn drop(&mut self) {
        self.guards = None;
        self.rec.push(Ev::R(self.tag));
    }
}

/// the order-sensitive update every harness system performs on what it holds
pub fn compute(tag: u32, state: &mut u64, g: &mut Guards) {
    let mut h = mix(tag as u64, *state);
    for (r, x) in g.shared.iter() {
        h = mix(h, mix(*r as u64, x.get()));
    }
    for (r, x) in g.excl.iter() {
        h = mix(h, mix(*r as u64 + 1000, x.get()));
    }
    for (i, (_, x)) in g.excl.iter_mut().enumerate() {
        x.set(mix(h, i as u64 + 1));
    }
    *state = mix(h, 0xabcdef);
}

pub struct HSys {
    pub acc: HAccessor,
    pub time: u8,
    pub state: Arc<AtomicU64>,
    pub runs: Arc<AtomicU64>,
}
pub fn running_time(t: u8) -> RunningTime {
    match t {
        1 => RunningTime::VeryShort,
        2 => RunningTime::Short,
        3 => RunningTime::Average,
        4 => RunningTime::Long,
        _ => RunningTime::VeryLong,
    }
}
impl<'a> System<'a> for HSys {
    type SystemData = HData<'a>;
    fn run(&mut self, mut data: HData<'a>) {
        let tag = self.acc.tag;
        let rec = self.acc.rec.clone();
        rec.at(tag, Point::Run);
        self.runs.fetch_add(1, Ordering::SeqCst);
        if rec.faulty(tag) {
            rec.push(Ev::P(tag));
            panic!("injected panic {}", tag);
        }
        let mut st = self.state.load(Ordering::SeqCst);
        if let Some(g) = data.guards.as_mut() {
            compute(tag, &mut st, g);
        }
        self.state.store(st, Ordering::SeqCst);
        rec.at(tag, Point::Release);
    }
    fn running_time(&self) -> RunningTime { running_time(self.time) }
    fn accessor<'b>(&'b self) -> AccessorCow<'a, 'b, Self> { AccessorCow::Ref(&self.acc) }
    fn setup(&mut self, world: &mut World) {
        self.acc.rec.push(Ev::Setup(self.acc.tag));
        <HData as DynamicSystemData>::setup(&self.acc, world);
    }
    fn dispose(self, _world: &mut World) {
        self.acc.rec.push(Ev::Dispose(self.acc.tag));
    }
}

// ---------------------------------------------------------------------------------------
// static menu systems (the StaticAccessor path)

pub struct MSys<const M: usize> {
    pub tag: u32,
    pub time: u8,
    pub rec: Arc<Recorder>,
    pub runs: Arc<AtomicU64>,
}
#[derive(shred::SystemData)]
pub struct Derived23<'a> {
    pub a: Write<'a, R<2>>,
    pub b: Write<'a, R<3>>,
}
macro_rules! menu_sys {
    ($m:expr, $lt:lifetime, $data:ty) => {
        impl<$lt> System<$lt> for MSys<$m> {
            type SystemData = $data;
            fn run(&mut self, _d: Self::SystemData) {
                self.rec.push(Ev::F(self.tag, self.rec.on_caller(), worker_index()));
                let _end = EndGuard { tag: self.tag, rec: self.rec.clone(), ctl: false };
                self.rec.at(self.tag, Point::Run);
                self.runs.fetch_add(1, Ordering::SeqCst);
                if self.rec.faulty(self.tag) {
                    self.rec.push(Ev::P(self.tag));
                    panic!("injected panic {}", self.tag);
                }
                self.rec.at(self.tag, Point::Release);
            }
            fn running_time(&self) -> RunningTime { running_time(self.time) }
            fn setup(&mut self, world: &mut World) {
                self.rec.push(Ev::Setup(self.tag));
                <Self::SystemData as SystemData>::setup(world);
            }
            fn dispose(self, _world: &mut World) {
                self.rec.push(Ev::Dispose(self.tag));
            }
        }
    };
}
menu_sys!(0, 'a, ());
menu_sys!(1, 'a, Read<'a, R<0>>);
menu_sys!(2, 'a, Write<'a, R<1>>);
menu_sys!(3, 'a, (Read<'a, R<0>>, Write<'a, R<1>>));
menu_sys!(4, 'a, (Read<'a, R<1>>, Write<'a, R<0>>, Read<'a, R<2>>));
menu_sys!(5, 'a, (Option<Read<'a, R<3>>>, Option<Write<'a, R<2>>>));
menu_sys!(6, 'a, (Read<'a, R<0>>, (Read<'a, R<1>>, Read<'a, R<2>>), Read<'a, R<3>>));
menu_sys!(7, 'a, Derived23<'a>);
menu_sys!(8, 'a, (ReadExpect<'a, R<4>>, WriteExpect<'a, R<5>>));

// ---------------------------------------------------------------------------------------
// thread-local systems (not Send)

pub struct HTl {
    pub tag: u32,
    pub reads: Vec<u32>,
    pub writes: Vec<u32>,
    pub rec: Arc<Recorder>,
    pub state: Arc<AtomicU64>,
    pub runs: Arc<AtomicU64>,
    pub _not_send: PhantomData<*const ()>,
}
impl<'a> RunNow<'a> for HTl {
    fn run_now(&mut self, world: &'a World) {
        self.rec.at(self.tag, Point::Fetch);
        self.rec.push(Ev::F(self.tag, self.rec.on_caller(), worker_index()));
        let _end = EndGuard { tag: self.tag, rec: self.rec.clone(), ctl: false };
        let mut g = acquire(world, &self.rec, self.tag, &self.reads, &self.writes);
        self.rec.at(self.tag, Point::Run);
        self.runs.fetch_add(1, Ordering::SeqCst);
        if self.rec.faulty(self.tag) {
            self.rec.push(Ev::P(self.tag));
            drop(g);
            panic!("injected panic {}", self.tag);
        }
        let mut st = self.state.load(Ordering::SeqCst);
        compute(self.tag, &mut st, &mut g);
        self.state.store(st, Ordering::SeqCst);
        self.rec.at(self.tag, Point::Release);
        drop(g);
    }
    fn setup(&mut self, world: &mut World) {
        self.rec.push(Ev::Setup(self.tag));
        for &r in self.reads.iter().chain(self.writes.iter()) {
            ensure(world, self.rec.map.locate(r));
        }
    }
    fn dispose(self: Box<Self>, _world: &mut World) {
        self.rec.push(Ev::Dispose(self.tag));
    }
}

// ---------------------------------------------------------------------------------------
// batch controllers

pub struct Ctl<const M: usize> {
    pub tag: u32,
    pub count: u32,
    pub time: u8,
    pub rec: Arc<Recorder>,
}

fn ctl_run(tag: u32, count: u32, rec: &Arc<Recorder>, world: &World, dispatcher: &mut Dispatcher) {
    rec.at(tag, Point::Fetch);
    rec.push(Ev::CtlIn(tag, rec.on_caller(), worker_index()));
    let _end = EndGuard { tag, rec: rec.clone(), ctl: true };
    rec.at(tag, Point::Run);
    if rec.faulty(tag) {
        rec.push(Ev::P(tag));
        panic!("injected panic {}", tag);
    }
    if rec.identify.load(Ordering::SeqCst) {
        let (shape, tl) = dispatcher.verif_shape();
        #[cfg(feature = "parallel")]
        let mt = Some(dispatcher.max_threads());
        #[cfg(not(feature = "parallel"))]
        let mt = None;
        rec.push(Ev::Shape(tag, shape, tl, mt));
        dispatcher.dispatch_seq(world);
        dispatcher.dispatch_thread_local(world);
    } else {
        for _ in 0..count {
            rec.push(Ev::InnerStart(tag));
            if rec.seq_inner.load(Ordering::SeqCst) {
                dispatcher.dispatch_seq(world);
                dispatcher.dispatch_thread_local(world);
            } else {
                dispatcher.dispatch(world);
            }
            rec.push(Ev::InnerEnd(tag));
        }
    }
    rec.at(tag, Point::Release);
}

macro_rules! ctl_impl {
    ($m:expr, $lt:lifetime, $data:ty) => {
        impl<'a, 'b, $lt> BatchController<'a, 'b, $lt> for Ctl<$m> {
            type BatchSystemData = $data;
            fn run(&mut self, world: &$lt World, dispatcher: &mut Dispatcher<'a, 'b>) {
                ctl_run(self.tag, self.count, &self.rec, world, dispatcher);
            }
            fn running_time(&self) -> RunningTime { running_time(self.time) }
        }
        impl<$lt> MultiDispatchController<$lt> for Multi<$m> {
            type SystemData = $data;
            fn plan(&mut self, _d: Self::SystemData) -> usize {
                self.rec.at(self.tag, Point::Fetch);
                self.rec.push(Ev::CtlIn(self.tag, self.rec.on_caller(), worker_index()));
                self.rec.at(self.tag, Point::Run);
                if self.rec.faulty(self.tag) {
                    self.rec.push(Ev::P(self.tag));
                    panic!("injected panic {}", self.tag);
                }
                if self.rec.identify.load(Ordering::SeqCst) { 1 } else { self.count as usize }
            }
        }
    };
}
pub struct Multi<const M: usize> {
    pub tag: u32,
    pub count: u32,
    pub rec: Arc<Recorder>,
}
ctl_impl!(0, 'c, ());
ctl_impl!(1, 'c, Read<'c, R<0>>);
ctl_impl!(2, 'c, Write<'c, R<1>>);
ctl_impl!(3, 'c, (Read<'c, R<2>>, Write<'c, R<3>>));
ctl_impl!(4, 'c, Option<Read<'c, R<4>>>);
ctl_impl!(5, 'c, (Option<Write<'c, R<5>>>,));
// controller data with a user-written setup handler that counts its calls: the data a controller declares is set up exactly
// once per setup of the dispatcher (C13), also for MultiDispatchController
pub static CTL_SETUP_CALLS: AtomicU64 = AtomicU64::new(0);
pub struct CountSetup;
impl shred::SetupHandler<R<6>> for CountSetup {
    fn setup(world: &mut World) {
        CTL_SETUP_CALLS.fetch_add(1, Ordering::SeqCst);
        if !world.has_value::<R<6>>() { world.insert(R::<6>::default()); }
    }
}
ctl_impl!(6, 'c, Read<'c, R<6>, CountSetup>);

// ---------------------------------------------------------------------------------------
// building

pub fn payload_string(p: &Box<dyn Any + Send>) -> String {
    if let Some(s) = p.downcast_ref::<String>() {
        s.clone()
    } else if let Some(s) = p.downcast_ref::<&str>() {
        s.to_string()
    } else {
        "<non-string payload>".into()
    }
}

pub fn hexs(s: &str) -> String {
    s.as_bytes().iter().map(|b| format!("{:02x}", b)).collect()
}

/// canonical classification of a builder panic
pub fn classify(msg: &str) -> String {
    fn quoted(msg: &str) -> Option<&str> {
        let a = msg.find("(\"")?;
        let b = msg.rfind("\")")?;
        if b >= a + 2 { Some(&msg[a + 2..b]) } else { None }
    }
    if msg.starts_with("No such system registered") {
        if let Some(q) = quoted(msg) { return format!("nosuch:{}", crate::prog::hex(q)); }
    }
    if msg.starts_with("Cannot insert multiple systems with the same name") {
        if let Some(q) = quoted(msg) { return format!("dup:{}", crate::prog::hex(q)); }
    }
    format!("other:{}", hexs(msg))
}

pub struct Handles {
    pub runs: HashMap<u32, Arc<AtomicU64>>,
    pub states: HashMap<u32, Arc<AtomicU64>>,
}

pub struct BuildOut {
    pub builder: Option<DispatcherBuilder<'static, 'static>>,
    pub calls: usize,
    pub err: Option<String>,
    /// Debug text (or PANIC:<hexmsg>) of every level, keyed by batch tag (0 = top)
    pub prints: Vec<(u32, String)>,
    pub handles: Handles,
    /// recovery mode (C18/C02/C20): a registration that panics is caught, recorded in `errs` as (call index, class), and
    /// the SAME builder is used for the calls that follow
    pub recover: bool,
    pub errs: Vec<(usize, String)>,
    /// the pool is attached to the OUTERMOST builder only (the natural use of add_pool); otherwise to the builder of every level
    pub pool_outer_only: bool,
}

fn debug_text(b: &DispatcherBuilder<'static, 'static>) -> String {
    match catch_unwind(AssertUnwindSafe(|| format!("{:?}", b))) {
        Ok(s) => hexs(&s),
        Err(p) => format!("PANIC:{}", hexs(&payload_string(&p))),
    }
}

/// the consuming builder methods (with, with_batch, with_barrier, with_thread_local, with_pool) are the same
/// registrations in another style: every other level (by the parity of its length) is built with them
fn via(b: &mut DispatcherBuilder<'static, 'static>, f: impl FnOnce(DispatcherBuilder<'static, 'static>) -> DispatcherBuilder<'static, 'static>) {
    let old = std::mem::replace(b, DispatcherBuilder::new());
    *b = f(old);
}

fn add_sys(b: &mut DispatcherBuilder<'static, 'static>, r: &Reg, rec: &Arc<Recorder>, h: &mut Handles, ws: bool) {
    if let Reg::Sys { tag, name, deps, reads, writes, time, kind } = r {
        let deps: Vec<&str> = deps.iter().map(|s| s.as_str()).collect();
        let runs = Arc::new(AtomicU64::new(0));
        h.runs.insert(*tag, runs.clone());
        match kind {
            SysKind::Dynamic => {
                let state = Arc::new(AtomicU64::new(*tag as u64));
                h.states.insert(*tag, state.clone());
                let s = HSys {
                    acc: HAccessor { tag: *tag, reads: reads.clone(), writes: writes.clone(), rec: rec.clone() },
                    time: *time, state, runs,
                };
                if ws { via(b, |x| x.with(s, name, &deps)) } else { b.add(s, name, &deps) }
            }
            SysKind::Menu(m) => {
                macro_rules! m { ($($k:expr),*) => { match *m as usize {
                    $( $k => { let s = MSys::<$k> { tag: *tag, time: *time, rec: rec.clone(), runs }; if ws { via(b, |x| x.with(s, name, &deps)) } else { b.add(s, name, &deps) } }, )*
                    _ => panic!("menu index") } } }
                m!(0, 1, 2, 3, 4, 5, 6, 7, 8)
            }
        }
    }
}

fn add_batch(
    b: &mut DispatcherBuilder<'static, 'static>,
    inner: DispatcherBuilder<'static, 'static>,
    tag: u32, name: &str, deps: &[String], time: u8, count: u32, ctl: CtlKind, rec: &Arc<Recorder>, ws: bool,
) {
    let deps: Vec<&str> = deps.iter().map(|s| s.as_str()).collect();
    macro_rules! m { ($($k:expr),*) => { match ctl.menu as usize {
        $( $k => if ctl.multi {
                    let c = MultiDispatcher::new(Multi::<$k> { tag, count, rec: rec.clone() });
                    if ws { via(b, |x| x.with_batch(c, inner, name, &deps)) } else { b.add_batch(c, inner, name, &deps) }
                } else {
                    let c = Ctl::<$k> { tag, count, time, rec: rec.clone() };
                    if ws { via(b, |x| x.with_batch(c, inner, name, &deps)) } else { b.add_batch(c, inner, name, &deps) }
                }, )*
        _ => panic!("ctl menu index") } } }
    m!(0, 1, 2, 3, 4, 5, 6)
}

/// runs the calls of one level; returns None after the first panicking call
fn build_level(
    regs: &[Reg], level_tag: u32, rec: &Arc<Recorder>, out: &mut BuildOut,
    #[cfg(feature = "parallel")] pool: Option<&Arc<rayon::ThreadPool>>,
) -> Option<DispatcherBuilder<'static, 'static>> {
    let mut b = DispatcherBuilder::new();
    // (the consuming methods lose the builder when they panic: recovery uses the &mut methods only)
    let ws = regs.len() % 2 == 1 && !out.recover;
    #[cfg(feature = "parallel")]
    if let Some(p) = pool { if ws { via(&mut b, |x| x.with_pool(p.clone())) } else { b.add_pool(p.clone()) } }
    for r in regs {
        match r {
            Reg::Barrier => { if ws { via(&mut b, |x| x.with_barrier()) } else { b.add_barrier() } out.calls += 1; }
            Reg::Tl { tag, reads, writes } => {
                let runs = Arc::new(AtomicU64::new(0));
                out.handles.runs.insert(*tag, runs.clone());
                let state = Arc::new(AtomicU64::new(*tag as u64));
                out.handles.states.insert(*tag, state.clone());
                let t = HTl {
                    tag: *tag, reads: reads.clone(), writes: writes.clone(), rec: rec.clone(),
                    state, runs, _not_send: PhantomData,
                };
                if ws { via(&mut b, |x| x.with_thread_local(t)) } else { b.add_thread_local(t) }
                out.calls += 1;
            }
            Reg::Sys { .. } => {
                let res = catch_unwind(AssertUnwindSafe(|| add_sys(&mut b, r, rec, &mut out.handles, ws)));
                if let Err(p) = res {
                    if out.recover { out.errs.push((out.calls, classify(&payload_string(&p)))); out.calls += 1; continue; }
                    out.err = Some(classify(&payload_string(&p)));
                    return None;
                }
                out.calls += 1;
            }
            Reg::Batch { tag, name, deps, time, count, ctl, inner, .. } => {
                #[cfg(feature = "parallel")]
                let ib = build_level(inner, *tag, rec, out, if out.pool_outer_only { None } else { pool })?;
                #[cfg(not(feature = "parallel"))]
                let ib = build_level(inner, *tag, rec, out)?;
                let res = catch_unwind(AssertUnwindSafe(|| {
                    add_batch(&mut b, ib, *tag, name, deps, *time, *count, *ctl, rec, ws)
                }));
                if let Err(p) = res {
                    if out.recover { out.errs.push((out.calls, classify(&payload_string(&p)))); out.calls += 1; continue; }
                    out.err = Some(classify(&payload_string(&p)));
                    return None;
                }
                out.calls += 1;
            }
        }
    }
    out.prints.push((level_tag, debug_text(&b)));
    Some(b)
}

pub fn build(
    regs: &[Reg], rec: &Arc<Recorder>,
    #[cfg(feature = "parallel")] pool: Option<&Arc<rayon::ThreadPool>>,
) -> BuildOut {
    build_mode(regs, rec, #[cfg(feature = "parallel")] pool, false)
}

thread_local! { pub static POOL_OUTER_ONLY: std::cell::Cell<bool> = std::cell::Cell::new(false); }

pub fn build_mode(
    regs: &[Reg], rec: &Arc<Recorder>,
    #[cfg(feature = "parallel")] pool: Option<&Arc<rayon::ThreadPool>>,
    recover: bool,
) -> BuildOut {
    let mut out = BuildOut {
        builder: None, calls: 0, err: None, prints: Vec::new(),
        handles: Handles { runs: HashMap::new(), states: HashMap::new() },
        recover, errs: Vec::new(), pool_outer_only: POOL_OUTER_ONLY.with(|c| c.get()),
    };
    #[cfg(feature = "parallel")]
    let b = build_level(regs, 0, rec, &mut out, pool);
    #[cfg(not(feature = "parallel"))]
    let b = build_level(regs, 0, rec, &mut out);
    out.builder = b;
    out
}

/// a world holding every resource the program mentions (value = resource number), so that
/// fetches of harness systems really borrow
pub fn make_world(regs: &[Reg], map: MapMode) -> World {
    let mut w = World::empty();
    let mut rs = Vec::new();
    crate::prog::all_resources(regs, &mut rs);
    rs.sort();
    rs.dedup();
    for r in rs {
        set_value(&mut w, map.locate(r), r as u64 + 1);
    }
    w
}

/// simple gate used by several suites: block at (tag, point) until opened
pub struct Gate {
    pub m: Mutex<bool>,
    pub c: Condvar,
}
impl Gate {
    pub fn new(open: bool) -> Gate { Gate { m: Mutex::new(open), c: Condvar::new() } }
    pub fn open(&self) { *self.m.lock().unwrap() = true; self.c.notify_all(); }
    pub fn wait(&self, timeout_ms: u64) -> bool {
        let g = self.m.lock().unwrap();
        let (g, _t) = self.c.wait_timeout_while(g, std::time::Duration::from_millis(timeout_ms), |o| !*o).unwrap();
        *g
    }
}
