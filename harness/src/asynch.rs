//! Suite S7: the asynchronous dispatcher under sequences of caller operations, with a
//! background system optionally held inside `run` (C15, and the async half of C12).
#![cfg(feature = "parallel")]
use crate::hsys::*;
use crate::prog::*;
use crate::rng::Rng;
use std::collections::HashMap;
use std::panic::{catch_unwind, AssertUnwindSafe};
use std::sync::{Arc, Condvar, Mutex};
use std::time::{Duration, Instant};

pub struct Case { pub pool: usize, pub hold: Option<u32>, pub ops: Vec<char>, pub jitter: Option<u64>, pub tlf: Option<u32>, pub regs: Vec<Reg> }
impl Case {
    pub fn head(&self) -> String {
        format!("async pool={} hold={} jitter={} tlf={} ops={}", self.pool, self.hold.map(|t| t.to_string()).unwrap_or("-".into()),
                self.jitter.map(|t| t.to_string()).unwrap_or("-".into()), self.tlf.map(|t| t.to_string()).unwrap_or("-".into()),
                self.ops.iter().map(|c| c.to_string()).collect::<Vec<_>>().join(","))
    }
    pub fn parse(line: &str) -> Case {
        let (head, p) = line.split_once(" :: ").unwrap_or((line, ""));
        let mut c = Case { pool: 2, hold: None, ops: vec![], jitter: None, tlf: None, regs: from_text(p) };
        for t in head.split(' ') {
            if let Some(v) = t.strip_prefix("pool=") { c.pool = v.parse().unwrap(); }
            if let Some(v) = t.strip_prefix("hold=") { c.hold = v.parse().ok(); }
            if let Some(v) = t.strip_prefix("jitter=") { c.jitter = v.parse().ok(); }
            if let Some(v) = t.strip_prefix("tlf=") { c.tlf = v.parse().ok(); }
            if let Some(v) = t.strip_prefix("ops=") { c.ops = v.split(',').filter(|s| !s.is_empty()).map(|s| s.chars().next().unwrap()).collect(); }
        }
        c
    }
}

/// blocks the held system inside `run` while the gate is closed
struct GateSched { tag: Option<u32>, closed: Mutex<bool>, cv: Condvar, jitter: Option<u64> }
impl Sched for GateSched {
    fn at(&self, tag: u32, p: Point) {
        if let Some(seed) = self.jitter {
            let h = crate::rng::mix(seed, (tag as u64) << 2 | p as u64);
            match h % 4 { 0 => std::thread::yield_now(), 1 => std::thread::sleep(Duration::from_micros(30 + h % 200)), _ => {} }
        }
        if p != Point::Run || Some(tag) != self.tag { return; }
        let g = self.closed.lock().unwrap();
        // a generous limit: the driver always opens the gate; the limit only bounds a broken run
        let _ = self.cv.wait_timeout_while(g, Duration::from_secs(20), |c| *c).unwrap();
    }
}
impl GateSched {
    fn set(&self, closed: bool) { *self.closed.lock().unwrap() = closed; self.cv.notify_all(); }
}

fn encode(log: &[Ev]) -> String {
    let mut parts = Vec::new();
    for e in log {
        parts.push(match e {
            Ev::F(t, c, _) | Ev::CtlIn(t, c, _) => format!("F{}{}", t, if *c { "c" } else { "w" }),
            Ev::R(t) | Ev::CtlOut(t) => format!("R{}", t),
            Ev::Note(s) => format!("N{}", s),
            Ev::BP(t, _) => format!("B{}", t),
            _ => continue,
        });
    }
    if parts.is_empty() { "-".into() } else { parts.join(",") }
}

pub fn observe(c: &Case, pools: &mut HashMap<usize, Arc<rayon::ThreadPool>>) -> String {
    let rec = Recorder::new(MapMode::A);
    rec.set_caller();
    let pool = pools.entry(c.pool).or_insert_with(|| Arc::new(rayon::ThreadPoolBuilder::new().num_threads(c.pool).build().unwrap())).clone();
    let out = build(&c.regs, &rec, Some(&pool));
    let mut s = String::new();
    let builder = match out.builder { Some(b) => b, None => { s.push_str(&format!("builderr={};", out.err.unwrap_or("?".into()))); return s; } };
    let world = make_world(&c.regs, MapMode::A);
    let tls: Vec<u32> = c.regs.iter().filter_map(|r| match r { Reg::Tl { tag, .. } => Some(*tag), _ => None }).collect();
    let mut ad = builder.build_async(world);
    let r0 = catch_unwind(AssertUnwindSafe(|| ad.setup()));
    let _ = rec.take();
    let sched = Arc::new(GateSched { tag: c.hold, closed: Mutex::new(false), cv: Condvar::new(), jitter: c.jitter });
    rec.set_sched(sched.clone());
    let mut holding = false;
    let mut ok = r0.is_ok();
    for (i, op) in c.ops.iter().enumerate() {
        // every operation but `running()` blocks until the job has ended.  Before a dispatch the gate is opened first (it is
        // closed again for the new job); for the others it is opened LATE, by a helper thread, while the caller is already
        // inside the operation: an operation that does not really wait is then seen to return while a system is running
        let late = *op != 'r' && *op != 'd' && holding;
        if late {
            let sc = sched.clone();
            std::thread::spawn(move || { std::thread::sleep(Duration::from_millis(25)); sc.set(false); });
        }
        if *op == 'd' && holding {
            sched.set(false);
            holding = false;
            // let the held system leave before the gate can be closed again (no lost wake-up)
            if let Some(t) = c.hold {
                let start = Instant::now();
                while start.elapsed() < Duration::from_secs(10) {
                    let left = {
                        let log = rec.log.lock().unwrap_or_else(|p| p.into_inner());
                        let last_f = log.iter().rposition(|e| matches!(e, Ev::F(x, _, _) | Ev::CtlIn(x, _, _) if *x == t));
                        match last_f { None => true, Some(i) => log[i..].iter().any(|e| matches!(e, Ev::R(x) | Ev::CtlOut(x) if *x == t)) }
                    };
                    if left { break; }
                    std::thread::sleep(Duration::from_micros(200));
                }
            }
        }
        if *op == 'd' && c.hold.is_some() { sched.set(true); }
        rec.push(Ev::Note(format!("b{}{}", i, op)));
        let r = catch_unwind(AssertUnwindSafe(|| match op {
            'd' => { ad.dispatch(); "".to_string() }
            'r' => { if ad.running() { "1".into() } else { "0".into() } }
            'w' => { ad.wait(); "".into() }
            'n' => { ad.wait_without_tl(); "".into() }
            // every other time through the deprecated aliases res() / mut_res(): the same accessors
            #[allow(deprecated)]
            'o' => { if i % 2 == 0 { let _ = ad.world(); } else { let _ = ad.res(); } "".into() }
            #[allow(deprecated)]
            'm' => { if i % 2 == 0 { let _ = ad.world_mut(); } else { let _ = ad.mut_res(); } "".into() }
            's' => { ad.setup(); "".into() }
            _ => panic!("async op"),
        }));
        match r {
            Ok(res) => rec.push(Ev::Note(format!("e{}{}{}", i, op, res))),
            Err(_) => { rec.push(Ev::Note(format!("p{}{}", i, op))); ok = false; }
        }
        if late {
            // (the helper has opened the gate by now, or does so within its 25 ms: wait for it so that a later dispatch can close it)
            let start = Instant::now();
            while *sched.closed.lock().unwrap() && start.elapsed() < Duration::from_secs(2) { std::thread::sleep(Duration::from_micros(200)); }
            holding = false;
        }
        if *op == 'd' {
            if let Some(t) = c.hold {
                // wait until the held system is inside run (it has logged its fetch), if it runs at all in the pool part
                let start = Instant::now();
                let mut entered = false;
                while start.elapsed() < Duration::from_millis(1500) {
                    let n = rec.log.lock().unwrap_or_else(|p| p.into_inner()).iter().rev()
                        .take_while(|e| !matches!(e, Ev::Note(s) if s.starts_with(&format!("b{}d", i))))
                        .any(|e| matches!(e, Ev::F(x, _, _) | Ev::CtlIn(x, _, _) if *x == t));
                    if n { entered = true; break; }
                    std::thread::sleep(Duration::from_micros(200));
                }
                holding = true;
                rec.push(Ev::Note(format!("h{}{}", i, entered as u8)));
            }
        }
    }
    if holding { sched.set(false); }
    rec.push(Ev::Note("bzw".into()));
    let rz = catch_unwind(AssertUnwindSafe(|| ad.wait()));
    rec.push(Ev::Note("ezw".into()));
    rec.set_sched(Arc::new(FreeRun));
    let mut multis = Vec::new();
    crate::exec::multi_subtrees(&c.regs, &mut multis);
    let raw = rec.take();
    // the systems visited by every setup() of the operation list, in order (C13)
    let mut setups: Vec<String> = Vec::new();
    {
        let mut cur: Option<(String, Vec<String>)> = None;
        for e in &raw {
            match e {
                Ev::Note(n) if n.starts_with('b') && n.ends_with('s') && n != "bzw" => cur = Some((n[1..n.len() - 1].to_string(), Vec::new())),
                Ev::Note(n) if (n.starts_with('e') || n.starts_with('p')) && cur.is_some() => {
                    let (i, v) = cur.take().unwrap();
                    setups.push(format!("{}{}:{}", if n.starts_with('p') { "!" } else { "" }, i, if v.is_empty() { "-".to_string() } else { v.join(".") }));
                }
                Ev::Setup(t) => if let Some((_, v)) = cur.as_mut() { v.push(t.to_string()); },
                _ => {}
            }
        }
    }
    let log = crate::exec::fix_multi(raw, &multis);
    let mut runs: Vec<(u32, u64)> = out.handles.runs.iter().map(|(t, r)| (*t, r.load(std::sync::atomic::Ordering::SeqCst))).collect();
    runs.sort();
    s.push_str(&format!("T={};ok={};runs={};setups={};", encode(&log), (ok && rz.is_ok()) as u8,
                        runs.iter().map(|(t, n)| format!("{}:{}", t, n)).collect::<Vec<_>>().join(","),
                        if setups.is_empty() { "-".to_string() } else { setups.join(",") }));
    // epilogue (C14/C12 for the async dispatcher): a thread-local system panics inside wait(); the panic reaches the caller of
    // wait, the thread-local systems behind it do not run in that wait, and the NEXT dispatch + wait runs everything again
    if let Some(f) = c.tlf {
        let tl_f = |log: &[Ev]| -> String {
            let v: Vec<String> = log.iter().filter_map(|e| match e { Ev::F(t, _, _) if tls.contains(t) => Some(t.to_string()), _ => None }).collect();
            if v.is_empty() { "-".into() } else { v.join(".") }
        };
        rec.faults.lock().unwrap().insert(f);
        let r1 = catch_unwind(AssertUnwindSafe(|| { ad.dispatch(); ad.wait(); }));
        let l1 = rec.take();
        rec.faults.lock().unwrap().clear();
        let r2 = catch_unwind(AssertUnwindSafe(|| { ad.dispatch(); ad.wait(); }));
        let l2 = rec.take();
        let r3 = catch_unwind(AssertUnwindSafe(|| ad.setup()));
        let s3: Vec<String> = rec.take().iter().filter_map(|e| if let Ev::Setup(t) = e { Some(t.to_string()) } else { None }).collect();
        let mut runs2: Vec<(u32, u64)> = out.handles.runs.iter().map(|(t, r)| (*t, r.load(std::sync::atomic::Ordering::SeqCst))).collect();
        runs2.sort();
        s.push_str(&format!("fe1={};fe1p={};fe2={};fe2p={};fe3={};fe3p={};feruns={};", tl_f(&l1), r1.is_err() as u8, tl_f(&l2), r2.is_err() as u8,
                            if s3.is_empty() { "-".to_string() } else { s3.join(".") }, r3.is_err() as u8,
                            runs2.iter().map(|(t, n)| format!("{}:{}", t, n)).collect::<Vec<_>>().join(",")));
    }
    s
}

pub fn gen_case(rng: &mut Rng) -> Case {
    let regs = gen_exec(rng, false);
    let mut tags = Vec::new();
    all_tags(&regs, &mut tags);
    let pool = [1usize, 2, 4, 16][rng.below(4) as usize];
    let n = 1 + rng.below(12);
    let mut ops = Vec::new();
    for _ in 0..n {
        ops.push(['d', 'd', 'd', 'r', 'r', 'w', 'w', 'n', 'o', 'm', 's'][rng.below(11) as usize]);
    }
    // top-level ordinary systems only can be held (an inner or thread-local system may never run in the pool part)
    let top: Vec<u32> = regs.iter().filter_map(|r| match r { Reg::Sys { tag, .. } => Some(*tag), _ => None }).collect();
    let hold = if !top.is_empty() && rng.chance(1, 2) { Some(top[rng.below(top.len() as u64) as usize]) } else { None };
    let jitter = if hold.is_none() && rng.chance(1, 2) { Some(rng.next() % 1_000_000) } else { None };
    // a thread-local system that panics inside wait (epilogue), in half of the programs that have thread-local systems
    let tls: Vec<u32> = regs.iter().filter_map(|r| match r { Reg::Tl { tag, .. } => Some(*tag), _ => None }).collect();
    let tlf = if !tls.is_empty() && rng.chance(1, 2) { Some(tls[rng.below(tls.len() as u64) as usize]) } else { None };
    Case { pool, hold, ops, jitter, tlf, regs }
}
