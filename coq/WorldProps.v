(* WorldProps.v — C08: the borrow discipline of the world is an invariant of every history. *)
From Shred Require Import Base World.
From Coq Require Import Permutation.
Open Scope N_scope.

Lemma key_eqb_eq a b : key_eqb a b = true <-> a = b.
Proof.
  destruct a as [a1 a2], b as [b1 b2]. unfold key_eqb. cbn. rewrite andb_true_iff, !N.eqb_eq.
  split; [intros [-> ->]; reflexivity|intros H; inversion H; auto].
Qed.
Lemma key_eqb_refl a : key_eqb a a = true.
Proof. now apply key_eqb_eq. Qed.
Lemma key_eqb_neq a b : key_eqb a b = false <-> a <> b.
Proof. rewrite <- key_eqb_eq. destruct (key_eqb a b); split; congruence. Qed.
Lemma key_eqb_sym a b : key_eqb a b = key_eqb b a.
Proof. destruct (key_eqb a b) eqn:E; symmetry; [apply key_eqb_eq in E; subst; apply key_eqb_refl|apply key_eqb_neq; apply key_eqb_neq in E; congruence]. Qed.

Definition keys (cs : list (key * cell)) : list key := map fst cs.

Lemma lookup_update k k' c cs : lookup k (update k' c cs) = if key_eqb k k' then Some c else lookup k cs.
Proof.
  induction cs as [|[k0 c0] cs IH]; cbn [update lookup].
  - destruct (key_eqb k k'); reflexivity.
  - destruct (key_eqb k' k0) eqn:E; cbn [lookup].
    + apply key_eqb_eq in E. subst k0. destruct (key_eqb k k'); reflexivity.
    + rewrite IH. destruct (key_eqb k k0) eqn:E2; auto.
      apply key_eqb_eq in E2. subst k0. rewrite key_eqb_sym in E. now rewrite E.
Qed.

Lemma lookup_in k cs c : lookup k cs = Some c -> In k (keys cs).
Proof.
  induction cs as [|[k0 c0] cs IH]; cbn; [discriminate|]. destruct (key_eqb k k0) eqn:E.
  - apply key_eqb_eq in E. auto.
  - intros H. right. auto.
Qed.
Lemma lookup_none k cs : lookup k cs = None <-> ~ In k (keys cs).
Proof.
  induction cs as [|[k0 c0] cs IH]; cbn; [tauto|]. destruct (key_eqb k k0) eqn:E.
  - apply key_eqb_eq in E. split; [discriminate|intros H; exfalso; apply H; auto].
  - apply key_eqb_neq in E. rewrite IH. split; intros H; [intros [X|X]; [congruence|auto]|auto].
Qed.

Lemma keys_update k c cs x : In x (keys (update k c cs)) <-> x = k \/ In x (keys cs).
Proof.
  induction cs as [|[k0 c0] cs IH]; cbn [update keys map fst In].
  - intuition.
  - destruct (key_eqb k k0) eqn:E; cbn [keys map fst In].
    + apply key_eqb_eq in E. subst. intuition.
    + fold (keys (update k c cs)). fold (keys cs). rewrite IH. intuition.
Qed.
Lemma nodup_update k c cs : NoDup (keys cs) -> NoDup (keys (update k c cs)).
Proof.
  induction cs as [|[k0 c0] cs IH]; cbn [update keys map fst]; intros ND.
  - constructor; [intros []|constructor].
  - inversion ND as [|? ? Hn ND']; subst. destruct (key_eqb k k0) eqn:E; cbn [keys map fst].
    + apply key_eqb_eq in E. subst. constructor; auto.
    + constructor; [|apply IH; auto]. fold (keys (update k c cs)). rewrite keys_update. intros [X|X]; [|auto].
      apply key_eqb_neq in E. congruence.
Qed.
Lemma lookup_delete k k' cs : NoDup (keys cs) ->
  lookup k (delete k' cs) = if key_eqb k k' then None else lookup k cs.
Proof.
  induction cs as [|[k0 c0] cs IH]; cbn [delete lookup keys map fst]; intros ND.
  - destruct (key_eqb k k'); reflexivity.
  - inversion ND as [|? ? Hn ND']; subst. destruct (key_eqb k' k0) eqn:E.
    + apply key_eqb_eq in E. subst k0. destruct (key_eqb k k') eqn:E2; auto.
      apply key_eqb_eq in E2. subst. now apply lookup_none.
    + cbn [lookup]. rewrite IH by auto. destruct (key_eqb k k0) eqn:E2; auto.
      apply key_eqb_eq in E2. subst k0. rewrite key_eqb_sym in E. now rewrite E.
Qed.
Lemma keys_delete k cs x : In x (keys (delete k cs)) -> In x (keys cs).
Proof.
  induction cs as [|[k0 c0] cs IH]; cbn [delete keys map fst]; auto.
  destruct (key_eqb k k0); cbn [keys map fst In]; intuition.
Qed.
Lemma nodup_delete k cs : NoDup (keys cs) -> NoDup (keys (delete k cs)).
Proof.
  induction cs as [|[k0 c0] cs IH]; cbn [delete keys map fst]; intros ND; auto.
  inversion ND as [|? ? Hn ND']; subst. destruct (key_eqb k k0); auto.
  cbn [keys map fst]. constructor; auto. intros X. apply Hn. eapply keys_delete; eauto.
Qed.

Lemma NoDup_app_intro' {A} (a b : list A) : NoDup a -> NoDup b -> (forall x, In x a -> In x b -> False) -> NoDup (a ++ b).
Proof.
  induction a as [|x a IH]; cbn; intros Na Nb D; auto. inversion Na; subst. constructor.
  - intros H. apply in_app_or in H. destruct H; [auto|]. eapply D; eauto.
  - apply IH; auto. intros y Hy. apply D. now right.
Qed.

(* ---------------- counting guards ---------------- *)

Definition on_key (k : key) (excl : bool) (g : guard) : bool := key_eqb (g_key g) k && Bool.eqb (g_excl g) excl.
Definition gcount (k : key) (excl : bool) (gs : list guard) : nat := length (filter (on_key k excl) gs).

Lemma gcount_app k e a b : gcount k e (a ++ b) = (gcount k e a + gcount k e b)%nat.
Proof. unfold gcount. now rewrite filter_app, app_length. Qed.

Definition gids (gs : list guard) : list N := map g_id gs.

Lemma find_guard_in g gs x : find_guard g gs = Some x -> In x gs /\ g_id x = g.
Proof.
  induction gs as [|y gs IH]; cbn; [discriminate|]. destruct (N.eqb_spec (g_id y) g).
  - intros H. inversion H; subst. auto.
  - intros H. destruct (IH H). auto.
Qed.

Lemma gcount_remove k e g gs x : NoDup (gids gs) -> find_guard g gs = Some x ->
  gcount k e gs = (gcount k e (remove_guard g gs) + (if on_key k e x then 1 else 0))%nat.
Proof.
  unfold gcount, remove_guard. induction gs as [|y gs IH]; cbn [find_guard gids map]; intros ND H; [discriminate|].
  inversion ND as [|? ? Hn ND']; subst. cbn [filter]. destruct (N.eqb_spec (g_id y) g) as [E|E].
  - inversion H; subst x. cbn [negb].
    (* no other guard has this id: the filter keeps the rest unchanged *)
    assert (F : filter (fun x => negb (g_id x =? g_id y)) gs = gs).
    { clear - Hn. induction gs as [|z gs IH]; cbn; auto. destruct (N.eqb_spec (g_id z) (g_id y)) as [E|E].
      - exfalso. apply Hn. cbn. left. auto.
      - cbn. f_equal. apply IH. intros X. apply Hn. now right. }
    rewrite <- E, F. destruct (on_key k e y); cbn [length]; lia.
  - cbn [negb filter]. specialize (IH ND' H). destruct (on_key k e y); cbn [length]; lia.
Qed.

Lemma remove_guard_ids g gs : NoDup (gids gs) -> NoDup (gids (remove_guard g gs)).
Proof.
  unfold remove_guard, gids. induction gs as [|y gs IH]; cbn; intros ND; auto.
  inversion ND as [|? ? Hn ND']; subst. destruct (g_id y =? g); cbn; auto.
  constructor; auto. intros X. apply Hn. apply in_map_iff in X. destruct X as (z & Ez & Hz).
  apply filter_In in Hz. apply in_map_iff. exists z. tauto.
Qed.
Lemma remove_guard_in g gs x : In x (remove_guard g gs) -> In x gs.
Proof. unfold remove_guard. intros H. apply filter_In in H. tauto. Qed.

(* ---------------- the invariant ---------------- *)

(* shared xor exclusive: the borrow state of a cell is exactly what the live guards say *)
Definition cell_consistent (gs : list guard) (k : key) (c : cell) : Prop :=
  match c_b c with
  | BFree => gcount k false gs = O /\ gcount k true gs = O
  | BShared n => gcount k false gs = S n /\ gcount k true gs = O
  | BExcl => gcount k false gs = O /\ gcount k true gs = 1%nat
  end.

Record inv (w : world) : Prop := {
  i_keys : NoDup (keys (cells w));
  i_ty : forall k c, lookup k (cells w) = Some c -> c_ty c = fst k;
  i_borrow : forall k c, lookup k (cells w) = Some c -> cell_consistent (guards w) k c;
  i_gkeys : forall x, In x (guards w) -> lookup (g_key x) (cells w) <> None;
  i_gids : NoDup (gids (guards w));
  i_gnext : forall x, In x (guards w) -> g_id x < next_guard w
}.

Lemma inv_empty : inv empty_world.
Proof. constructor; cbn; try constructor; intros; try discriminate; contradiction. Qed.

Lemma no_guards_nil w : no_guards w = true -> guards w = [].
Proof. unfold no_guards. destruct (guards w); [auto|discriminate]. Qed.

Lemma on_key_other k k' e e' id : k <> k' -> on_key k e (mkGuard id k' e') = false.
Proof. intros H. unfold on_key. cbn. assert (key_eqb k' k = false) as -> by (apply key_eqb_neq; congruence). reflexivity. Qed.

Lemma gcount_snoc_other gs k e g : g_key g <> k -> gcount k e (gs ++ [g]) = gcount k e gs.
Proof.
  intros H. rewrite gcount_app. unfold gcount at 2. cbn [filter]. unfold on_key.
  assert (key_eqb (g_key g) k = false) as -> by now apply key_eqb_neq. cbn. lia.
Qed.
Lemma gcount_snoc_same gs k e id e' :
  gcount k e (gs ++ [mkGuard id k e']) = (gcount k e gs + (if Bool.eqb e' e then 1 else 0))%nat.
Proof.
  rewrite gcount_app. unfold gcount at 2. cbn [filter]. unfold on_key. cbn [g_key g_excl]. rewrite key_eqb_refl. cbn [andb].
  destruct (Bool.eqb e' e); reflexivity.
Qed.

Lemma consistent_other gs k c g : g_key g <> k -> cell_consistent gs k c -> cell_consistent (gs ++ [g]) k c.
Proof.
  intros H C. unfold cell_consistent in *. destruct (c_b c); rewrite !gcount_snoc_other by auto; exact C.
Qed.

(* acquiring a borrow on k and adding the guard keeps every cell consistent *)
Lemma acquire_consistent w k c excl b' g :
  inv w -> lookup k (cells w) = Some c -> acquire (c_b c) excl = Some b' ->
  forall k2 c2, lookup k2 (update k (mkCell (c_ty c) (c_val c) b') (cells w)) = Some c2 ->
    cell_consistent (guards w ++ [mkGuard g k excl]) k2 c2.
Proof.
  intros I L A k2 c2 L2. rewrite lookup_update in L2. destruct (key_eqb k2 k) eqn:E.
  - apply key_eqb_eq in E. subst k2. inversion L2; subst c2. clear L2.
    pose proof (i_borrow _ I k c L) as C. unfold cell_consistent in *. cbn [c_b].
    destruct (c_b c) as [|n|], excl; cbn in A; inversion A; subst b'; rewrite !gcount_snoc_same; cbn [Bool.eqb]; lia.
  - apply consistent_other; [cbn; apply key_eqb_neq in E; congruence|]. now apply (i_borrow _ I).
Qed.

Theorem step_inv w o : inv w -> inv (fst (step w o)).
Proof.
  intros I. destruct o as [ty k v|ty k|ty v|k|k|fk ty k|g|g|g|g p]; cbn [step].
  - (* insert *)
    destruct (no_guards w) eqn:NG; cbn [negb]; [|exact I].
    destruct (ty =? fst k) eqn:T; cbn [negb fst].
    + apply N.eqb_eq in T. pose proof (no_guards_nil _ NG) as G.
      constructor; cbn [cells guards next_guard].
      * apply nodup_update. apply (i_keys _ I).
      * intros k2 c2. rewrite lookup_update. destruct (key_eqb k2 k) eqn:E.
        -- intros H. inversion H; subst. cbn. apply key_eqb_eq in E. now subst.
        -- apply (i_ty _ I).
      * intros k2 c2. rewrite lookup_update. rewrite G. destruct (key_eqb k2 k).
        -- intros H. inversion H; subst. unfold cell_consistent. cbn. auto.
        -- intros H. pose proof (i_borrow _ I k2 c2 H) as C. now rewrite G in C.
      * rewrite G. intros x [].
      * apply (i_gids _ I).
      * apply (i_gnext _ I).
    + destruct I. constructor; auto.
  - (* remove *)
    destruct (no_guards w) eqn:NG; cbn [negb]; [|exact I].
    destruct (ty =? fst k); cbn [negb fst]; [|exact I].
    destruct (lookup k (cells w)) as [c|] eqn:L; [|exact I]. cbn [fst].
    pose proof (no_guards_nil _ NG) as G.
    constructor; cbn [cells guards next_guard].
    + apply nodup_delete. apply (i_keys _ I).
    + intros k2 c2. rewrite lookup_delete by apply (i_keys _ I). destruct (key_eqb k2 k); [discriminate|apply (i_ty _ I)].
    + intros k2 c2. rewrite lookup_delete by apply (i_keys _ I). destruct (key_eqb k2 k); [discriminate|apply (i_borrow _ I)].
    + rewrite G. intros x [].
    + apply (i_gids _ I).
    + apply (i_gnext _ I).
  - (* entry *)
    destruct (no_guards w) eqn:NG; cbn [negb]; [|exact I].
    destruct (lookup (ty, 0) (cells w)) as [c|] eqn:L; cbn [fst].
    + destruct I. constructor; auto.
    + pose proof (no_guards_nil _ NG) as G. unfold set_cells.
      constructor; cbn [cells guards next_guard].
      * apply nodup_update. apply (i_keys _ I).
      * intros k2 c2. rewrite lookup_update. destruct (key_eqb k2 (ty, 0)) eqn:E.
        -- intros H. inversion H; subst. cbn. apply key_eqb_eq in E. now subst.
        -- apply (i_ty _ I).
      * intros k2 c2. rewrite lookup_update. rewrite G. destruct (key_eqb k2 (ty, 0)).
        -- intros H. inversion H; subst. unfold cell_consistent. cbn. auto.
        -- intros H. pose proof (i_borrow _ I k2 c2 H) as C. now rewrite G in C.
      * rewrite G. intros x [].
      * apply (i_gids _ I).
      * apply (i_gnext _ I).
  - exact I.
  - destruct (no_guards w); cbn [negb]; [|exact I]. destruct (lookup k (cells w)); exact I.
  - (* fetch *)
    destruct (ty =? fst k); cbn [negb]; [|exact I].
    destruct (lookup k (cells w)) as [c|] eqn:L; [|exact I].
    destruct (acquire (c_b c) (fk_excl fk)) as [b'|] eqn:A; [|exact I]. cbn [fst].
    constructor; cbn [cells guards next_guard].
    + apply nodup_update. apply (i_keys _ I).
    + intros k2 c2. rewrite lookup_update. destruct (key_eqb k2 k) eqn:E.
      * intros H. inversion H; subst. cbn. apply key_eqb_eq in E. subst. now apply (i_ty _ I).
      * apply (i_ty _ I).
    + eapply acquire_consistent; eauto.
    + intros x Hx. rewrite lookup_update. apply in_app_or in Hx. destruct Hx as [Hx|[<-|[]]].
      * destruct (key_eqb (g_key x) k); [discriminate|now apply (i_gkeys _ I)].
      * cbn. now rewrite key_eqb_refl.
    + unfold gids. rewrite map_app. cbn. apply NoDup_app_intro'; [apply (i_gids _ I)|constructor; [intros []|constructor]|].
      intros y Hy [<-|[]]. apply in_map_iff in Hy. destruct Hy as (x & Ex & Hx). pose proof (i_gnext _ I x Hx). lia.
    + intros x Hx. apply in_app_or in Hx. destruct Hx as [Hx|[<-|[]]]; [pose proof (i_gnext _ I x Hx)|cbn]; lia.
  - (* clone *)
    destruct (find_guard g (guards w)) as [x|] eqn:Fg; [|exact I].
    destruct (g_excl x) eqn:Ex; [exact I|].
    destruct (lookup (g_key x) (cells w)) as [c|] eqn:L; [|exact I].
    destruct (acquire (c_b c) false) as [b'|] eqn:A; [|exact I]. cbn [fst].
    constructor; cbn [cells guards next_guard].
    + apply nodup_update. apply (i_keys _ I).
    + intros k2 c2. rewrite lookup_update. destruct (key_eqb k2 (g_key x)) eqn:E.
      * intros H. inversion H; subst. cbn. apply key_eqb_eq in E. subst. now apply (i_ty _ I).
      * apply (i_ty _ I).
    + eapply acquire_consistent; eauto.
    + intros y Hy. rewrite lookup_update. apply in_app_or in Hy. destruct Hy as [Hy|[<-|[]]].
      * destruct (key_eqb (g_key y) (g_key x)); [discriminate|now apply (i_gkeys _ I)].
      * cbn. now rewrite key_eqb_refl.
    + unfold gids. rewrite map_app. cbn. apply NoDup_app_intro'; [apply (i_gids _ I)|constructor; [intros []|constructor]|].
      intros y Hy [<-|[]]. apply in_map_iff in Hy. destruct Hy as (z & Ez & Hz). pose proof (i_gnext _ I z Hz). lia.
    + intros y Hy. apply in_app_or in Hy. destruct Hy as [Hy|[<-|[]]]; [pose proof (i_gnext _ I y Hy)|cbn]; lia.
  - (* drop *)
    destruct (find_guard g (guards w)) as [x|] eqn:Fg; [|exact I].
    destruct (lookup (g_key x) (cells w)) as [c|] eqn:L; [|exact I]. cbn [fst].
    destruct (find_guard_in _ _ _ Fg) as [Hx Hid].
    constructor; cbn [cells guards next_guard].
    + apply nodup_update. apply (i_keys _ I).
    + intros k2 c2. rewrite lookup_update. destruct (key_eqb k2 (g_key x)) eqn:E.
      * intros H. inversion H; subst. cbn. apply key_eqb_eq in E. subst. now apply (i_ty _ I).
      * apply (i_ty _ I).
    + intros k2 c2. rewrite lookup_update. destruct (key_eqb k2 (g_key x)) eqn:E.
      * apply key_eqb_eq in E. subst k2. intros H. inversion H; subst c2. clear H.
        pose proof (i_borrow _ I _ _ L) as C. unfold cell_consistent in *. cbn [c_b].
        pose proof (gcount_remove (g_key x) false g _ x (i_gids _ I) Fg) as R1.
        pose proof (gcount_remove (g_key x) true g _ x (i_gids _ I) Fg) as R2.
        unfold on_key in R1, R2. rewrite key_eqb_refl in R1, R2. cbn [andb] in R1, R2.
        destruct (c_b c) as [|n|], (g_excl x); cbn [Bool.eqb release] in *; try lia.
        destruct n; cbn; lia.
      * intros H. pose proof (i_borrow _ I _ _ H) as C. unfold cell_consistent in *.
        pose proof (gcount_remove k2 false g _ x (i_gids _ I) Fg) as R1.
        pose proof (gcount_remove k2 true g _ x (i_gids _ I) Fg) as R2.
        unfold on_key in R1, R2. rewrite key_eqb_sym in E. rewrite E in R1, R2. cbn [andb] in R1, R2.
        rewrite Nat.add_0_r in R1, R2. rewrite <- R1, <- R2. exact C.
    + intros y Hy. rewrite lookup_update. destruct (key_eqb (g_key y) (g_key x)); [discriminate|].
      apply (i_gkeys _ I). eapply remove_guard_in; eauto.
    + apply remove_guard_ids. apply (i_gids _ I).
    + intros y Hy. apply (i_gnext _ I). eapply remove_guard_in; eauto.
  - (* read *)
    destruct (find_guard g (guards w)) as [x|]; [|exact I]. destruct (lookup (g_key x) (cells w)); exact I.
  - (* write *)
    destruct (find_guard g (guards w)) as [x|] eqn:Fg; [|exact I].
    destruct (g_excl x); cbn [negb]; [|exact I].
    destruct (lookup (g_key x) (cells w)) as [c|] eqn:L; [|exact I]. cbn [fst]. unfold set_cells.
    constructor; cbn [cells guards next_guard].
    + apply nodup_update. apply (i_keys _ I).
    + intros k2 c2. rewrite lookup_update. destruct (key_eqb k2 (g_key x)) eqn:E.
      * intros H. inversion H; subst. cbn. apply key_eqb_eq in E. subst. now apply (i_ty _ I).
      * apply (i_ty _ I).
    + intros k2 c2. rewrite lookup_update. destruct (key_eqb k2 (g_key x)) eqn:E.
      * apply key_eqb_eq in E. subst k2. intros H. inversion H; subst c2.
        pose proof (i_borrow _ I _ _ L) as C. exact C.
      * apply (i_borrow _ I).
    + intros y Hy. rewrite lookup_update. destruct (key_eqb (g_key y) (g_key x)); [discriminate|now apply (i_gkeys _ I)].
    + apply (i_gids _ I).
    + apply (i_gnext _ I).
Qed.

(* C08: every reachable state — whatever the history of fetches, clones, drops, inserts … —
   satisfies the invariant: every cell is unborrowed, or borrowed by exactly its n+1 live shared
   guards, or by exactly one live exclusive guard *)
Theorem run_inv os : forall w, inv w -> inv (fst (run w os)).
Proof.
  induction os as [|o os IH]; intros w I; cbn [run]; [exact I|].
  pose proof (step_inv w o I) as I1. destruct (step w o) as [w1 x]. cbn [fst] in I1.
  specialize (IH w1 I1). destruct (run w1 os) as [w2 xs]. exact IH.
Qed.
Corollary reachable_inv os : inv (fst (run empty_world os)).
Proof. apply run_inv. apply inv_empty. Qed.

(* an operation that fails (panic, or None from an Option form) leaves every cell and every
   guard as it was: existing guards stay usable *)
Theorem fail_preserves w o :
  match snd (step w o) with
  | OPanic _ | ONone => cells (fst (step w o)) = cells w /\ guards (fst (step w o)) = guards w
  | _ => True
  end.
Proof.
  destruct o as [ty k v|ty k|ty v|k|k|fk ty k|g|g|g|g p]; cbn [step].
  - destruct (no_guards w); cbn; auto. destruct (ty =? fst k); cbn; auto.
  - destruct (no_guards w); cbn; auto. destruct (ty =? fst k); cbn; auto. destruct (lookup k (cells w)); cbn; auto.
  - destruct (no_guards w); cbn; auto. destruct (lookup (ty, 0) (cells w)); cbn; auto.
  - cbn. auto.
  - destruct (no_guards w); cbn; auto. destruct (lookup k (cells w)); cbn; auto.
  - destruct (ty =? fst k); cbn; auto. destruct (lookup k (cells w)) as [c|]; cbn.
    + destruct (acquire (c_b c) (fk_excl fk)); cbn; auto.
    + destruct (fk_panics_when_absent fk); cbn; auto.
  - destruct (find_guard g (guards w)) as [x|]; cbn; auto. destruct (g_excl x); cbn; auto.
    destruct (lookup (g_key x) (cells w)) as [c|]; cbn; auto. destruct (acquire (c_b c) false); cbn; auto.
  - destruct (find_guard g (guards w)) as [x|]; cbn; auto. destruct (lookup (g_key x) (cells w)); cbn; auto.
  - destruct (find_guard g (guards w)) as [x|]; cbn; auto. destruct (lookup (g_key x) (cells w)); cbn; auto.
  - destruct (find_guard g (guards w)) as [x|]; cbn; auto. destruct (g_excl x); cbn; auto.
    destruct (lookup (g_key x) (cells w)); cbn; auto.
Qed.

(* a fetch never hands out an aliasing guard: it succeeds only if the new borrow is compatible
   with the live ones, and then the cell records it *)
Theorem fetch_guard_sound w fk ty k g :
  inv w -> snd (step w (OFetchOp fk ty k)) = OGuard g ->
  exists c, lookup k (cells w) = Some c /\ ty = fst k /\
    (if fk_excl fk then gcount k false (guards w) = O /\ gcount k true (guards w) = O
     else gcount k true (guards w) = O).
Proof.
  intros I. cbn [step]. destruct (N.eqb_spec ty (fst k)); cbn [negb]; [|discriminate].
  destruct (lookup k (cells w)) as [c|] eqn:L; [|destruct (fk_panics_when_absent fk); discriminate].
  destruct (acquire (c_b c) (fk_excl fk)) as [b'|] eqn:A; cbn; [|discriminate].
  intros _. exists c. split; auto. split; auto.
  pose proof (i_borrow _ I k c L) as C. unfold cell_consistent in C.
  destruct (c_b c) as [|n|], (fk_excl fk); cbn in A; try discriminate; tauto.
Qed.

(* the try_/Option forms return None only when the resource is absent *)
Theorem none_iff_absent w fk ty k :
  snd (step w (OFetchOp fk ty k)) = ONone <-> (ty = fst k /\ lookup k (cells w) = None /\ fk_panics_when_absent fk = false).
Proof.
  cbn [step]. destruct (N.eqb_spec ty (fst k)); cbn [negb].
  - destruct (lookup k (cells w)) as [c|] eqn:L.
    + destruct (acquire (c_b c) (fk_excl fk)); cbn; split; try discriminate; intros (_ & H & _); discriminate.
    + destruct (fk_panics_when_absent fk); cbn; split; try discriminate; auto. intros (_ & _ & H); discriminate.
  - cbn. split; [discriminate|]. intros (H & _). contradiction.
Qed.

(* dropping a guard releases exactly that borrow: only the cell of its key changes, by one
   step of [release]; the guard disappears, all others stay *)
Theorem drop_exact w g x c :
  find_guard g (guards w) = Some x -> lookup (g_key x) (cells w) = Some c ->
  let w' := fst (step w (ODrop g)) in
  lookup (g_key x) (cells w') = Some (mkCell (c_ty c) (c_val c) (release (c_b c))) /\
  (forall k, k <> g_key x -> lookup k (cells w') = lookup k (cells w)) /\
  guards w' = remove_guard g (guards w).
Proof.
  intros Fg L. cbn [step]. rewrite Fg, L. cbn [fst cells guards]. split; [|split; auto].
  - rewrite lookup_update. now rewrite key_eqb_refl.
  - intros k Hk. rewrite lookup_update. apply key_eqb_neq in Hk. now rewrite Hk.
Qed.
