(* PlanAnon.v — C19, names carry no information beyond dependency resolution: erasing the names of
   systems that no dependency list mentions (registering them as "") leaves the plan unchanged —
   the stages themselves, including the SystemIds in them, and the thread-local list.
   Read from right to left: giving names to anonymous systems changes nothing either, as long
   as the program with the names builds at all. *)
From Shred Require Import Base SrcParams Plan PlanObs PlanLemmas PlanInv PlanLoc PlanBuild PlanProps.

Section Anon.
  Variable X : name -> bool.         (* the names to erase *)

  Definition erase (n : name) : name := if X n then [] else n.

  Fixpoint erase_reg (r : reg) : reg :=
    match r with
    | RSys tag nm deps rd wr t => RSys tag (erase nm) deps rd wr t
    | RBatch tag nm deps cr cw t cnt inner => RBatch tag (erase nm) deps cr cw t cnt (map erase_reg inner)
    | RTL tag => RTL tag
    | RBarrier => RBarrier
    end.

  Definition avoid_deps (deps : list name) : bool := forallb (fun d => negb (X d)) deps.
  (* no dependency list, at any level, mentions an erased name *)
  Fixpoint avoid_reg (r : reg) : bool :=
    match r with
    | RSys _ _ deps _ _ _ => avoid_deps deps
    | RBatch _ _ deps _ _ _ _ inner => avoid_deps deps && forallb avoid_reg inner
    | _ => true
    end.

  Definition keep (m : list (name * N)) : list (name * N) := filter (fun p => negb (X (fst p))) m.

  Record arel (b b' : builder) : Prop := {
    ar_next : b_next b' = b_next b;
    ar_names : b_names b' = keep (b_names b);
    ar_barrier : b_barrier b' = b_barrier b;
    ar_stages : b_stages b' = b_stages b;
    ar_tl : b_tl b' = b_tl b
  }.

  Lemma lookup_keep n m : X n = false -> lookup_name n (keep m) = lookup_name n m.
  Proof.
    intros Hn. induction m as [|[k v] m IH]; cbn [keep filter lookup_name fst]; auto.
    destruct (X k) eqn:Xk; cbn [negb].
    - fold (keep m). rewrite IH. destruct (name_eqb n k) eqn:E; auto.
      apply name_eqb_eq in E. subst. congruence.
    - cbn [lookup_name]. fold (keep m). now rewrite IH.
  Qed.

  Lemma resolve_keep m deps : avoid_deps deps = true -> resolve_deps (keep m) deps = resolve_deps m deps.
  Proof.
    induction deps as [|d deps IH]; cbn [avoid_deps forallb resolve_deps]; auto.
    intros H. apply andb_prop in H. destruct H as [Hd H]. apply Bool.negb_true_iff in Hd.
    rewrite (lookup_keep d m Hd). destruct (lookup_name d m); auto. fold (avoid_deps deps) in H. now rewrite (IH H).
  Qed.

  Lemma keep_app m x : keep (m ++ [x]) = keep m ++ (if X (fst x) then [] else [x]).
  Proof. unfold keep. rewrite filter_app. cbn [filter]. destruct (X (fst x)); reflexivity. Qed.

  Lemma arel_empty : arel empty_builder empty_builder.
  Proof. constructor; reflexivity. Qed.

  Lemma add_anon b b' tag nm deps rd wr t b1 : arel b b' -> avoid_deps deps = true ->
    add b tag nm deps rd wr t = Ok b1 ->
    exists b1', add b' tag (erase nm) deps rd wr t = Ok b1' /\ arel b1 b1'.
  Proof.
    intros A Hd. unfold add.
    rewrite (ar_names _ _ A), (resolve_keep _ _ Hd), (ar_next _ _ A), (ar_barrier _ _ A), (ar_stages _ _ A).
    destruct (resolve_deps (b_names b) deps) as [ids|e]; cbn [bind]; [|discriminate].
    unfold erase. destruct (X nm) eqn:Xn.
    - (* the name is erased *)
      cbn [is_empty_name bind].
      destruct (is_empty_name nm) eqn:En; cbn [bind].
      + destruct (sb_insert _ _ _) as [st1|]; cbn [bind]; [|discriminate].
        intros H. inversion H; subst. eexists. split; [reflexivity|]. constructor; cbn; auto; apply A.
      + destruct (lookup_name nm (b_names b)); cbn [bind]; [discriminate|].
        destruct (sb_insert _ _ _) as [st1|]; cbn [bind]; [|discriminate].
        intros H. inversion H; subst. eexists. split; [reflexivity|]. constructor; cbn; auto; try apply A.
        rewrite keep_app. cbn [fst]. rewrite Xn. now rewrite app_nil_r.
    - destruct (is_empty_name nm) eqn:En; cbn [bind].
      + destruct (sb_insert _ _ _) as [st1|]; cbn [bind]; [|discriminate].
        intros H. inversion H; subst. eexists. split; [reflexivity|]. constructor; cbn; auto; apply A.
      + rewrite (lookup_keep nm _ Xn). destruct (lookup_name nm (b_names b)); cbn [bind]; [discriminate|].
        destruct (sb_insert _ _ _) as [st1|]; cbn [bind]; [|discriminate].
        intros H. inversion H; subst. eexists. split; [reflexivity|]. constructor; cbn; auto; try apply A.
        rewrite keep_app. cbn [fst]. now rewrite Xn.
  Qed.

  Lemma run_reg_batch' tag nm deps cr cw t cnt inner b :
    run_reg (RBatch tag nm deps cr cw t cnt inner) b =
    (bi <- run_regs inner empty_builder ;; add b tag nm deps (all_reads bi ++ cr) (all_writes bi ++ cw) t).
  Proof. reflexivity. Qed.

  Lemma run_regs_anon : forall n rs b b' b1,
    (size_regs rs <= n)%nat -> forallb avoid_reg rs = true -> arel b b' -> run_regs rs b = Ok b1 ->
    exists b1', run_regs (map erase_reg rs) b' = Ok b1' /\ arel b1 b1'.
  Proof.
    induction n as [|n IH]; intros rs b b' b1 Hsz Hav A H.
    - destruct rs as [|r rs]; [|exfalso; cbn in Hsz; destruct r; cbn in Hsz; lia].
      cbn in *. inversion H; subst. eauto.
    - destruct rs as [|r rs]; cbn [run_regs map] in *; [inversion H; subst; eauto|].
      cbn [forallb] in Hav. apply andb_prop in Hav. destruct Hav as [Hr Hav].
      destruct (run_reg r b) as [b2|] eqn:R1; cbn [bind] in H; [|discriminate].
      assert (Hsz_rs : (size_regs rs <= n)%nat) by (cbn [size_regs] in Hsz; destruct r; cbn in Hsz; lia).
      assert (Y : exists b2', run_reg (erase_reg r) b' = Ok b2' /\ arel b2 b2').
      { destruct r as [tag nm deps rd wr t|tag nm deps cr cw t cnt inner|tag|].
        - cbn [run_reg erase_reg avoid_reg] in *. eapply add_anon; eauto.
        - cbn [erase_reg]. rewrite run_reg_batch' in *. cbn [avoid_reg] in Hr. apply andb_prop in Hr. destruct Hr as [Hd Hi].
          destruct (run_regs inner empty_builder) as [bi|] eqn:Ri; cbn [bind] in R1; [|discriminate].
          assert (Hsz_i : (size_regs inner <= n)%nat).
          { cbn [size_regs size_reg] in Hsz.
            change ((fix go (rs : list reg) : nat := match rs with [] => O | r' :: rs' => (size_reg r' + go rs')%nat end) inner)
              with (size_regs inner) in Hsz. lia. }
          destruct (IH inner empty_builder empty_builder bi Hsz_i Hi arel_empty Ri) as (bi' & -> & Bi). cbn [bind].
          unfold all_reads, all_writes. rewrite (ar_stages _ _ Bi). eapply add_anon; eauto.
        - cbn in *. inversion R1; subst. eexists. split; [reflexivity|]. destruct A. constructor; cbn; auto. congruence.
        - cbn in *. inversion R1; subst. eexists. split; [reflexivity|]. destruct A. constructor; cbn; auto. congruence. }
      destruct Y as (b2' & -> & A2). cbn [bind]. eapply IH; eauto.
  Qed.

  Theorem plan_names_irrelevant rs b :
    forallb avoid_reg rs = true -> plan rs = Ok b ->
    exists b', plan (map erase_reg rs) = Ok b' /\ b_stages b' = b_stages b /\ b_tl b' = b_tl b /\
               layout_tags b' = layout_tags b /\ max_threads b' = max_threads b.
  Proof.
    intros Hav H. unfold plan in *.
    destruct (run_regs_anon (size_regs rs) rs empty_builder empty_builder b (le_n _) Hav arel_empty H) as (b' & -> & A).
    exists b'. split; auto. split; [apply A|]. split; [apply A|].
    unfold layout_tags, max_threads. now rewrite (ar_stages _ _ A).
  Qed.
End Anon.
