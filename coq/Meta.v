(* Meta.v — M5: the meta table (src/meta.rs, non-nightly cfg) on top of the world model.
   A vtable function is represented by the type it was instantiated for (attach_vtable::<T, R>
   is tagged R); the address of the object is left abstract: every cast goes through
   attach_vtable's address assertion, modelled by [bad] = the types whose CastFrom
   implementation does not return the address it was given.  Model only. *)
From Shred Require Import Base World.
Open Scope N_scope.

Record mtable := mkMT {
  m_fns : list N;                 (* vtable_fns[i]: tag = concrete type the function was made for *)
  m_indices : list (N * nat);     (* indices: TypeId -> position *)
  m_tys : list N                  (* tys[i] *)
}.
Definition empty_table : mtable := mkMT [] [] [].

Fixpoint mlookup (ty : N) (m : list (N * nat)) : option nat :=
  match m with [] => None | (k, v) :: r => if k =? ty then Some v else mlookup ty r end.

Fixpoint replace_nth {A} (i : nat) (x : A) (l : list A) : option (list A) :=
  match l, i with
  | [], _ => None
  | _ :: r, O => Some (x :: r)
  | y :: r, S i' => option_map (cons y) (replace_nth i' x r)
  end.

(* register::<R>: occupied => overwrite the slot; vacant => index = len(indices), push to both vectors *)
Definition register (t : mtable) (ty : N) : result mtable :=
  match mlookup ty (m_indices t) with
  | Some ind => match replace_nth ind ty (m_fns t) with
                | Some f' => Ok (mkMT f' (m_indices t) (m_tys t))
                | None => Err EIndex
                end
  | None => Ok (mkMT (m_fns t ++ [ty]) (m_indices t ++ [(ty, length (m_indices t))]) (m_tys t ++ [ty]))
  end.

Inductive mres := MNone | MObj (vt : N) | MPanicIndex | MPanicCast.

(* get / get_mut on a resource of concrete type [ty] *)
Definition mget_obj (bad : list N) (t : mtable) (ty : N) : mres :=
  match mlookup ty (m_indices t) with
  | None => MNone
  | Some ind => match nth_error (m_fns t) ind with
                | None => MPanicIndex
                | Some vt => if memN vt bad then MPanicCast else MObj vt
                end
  end.

(* ---------------- operations on (table, world) ---------------- *)

Inductive mop :=
| MReg (ty : N)
| MIns (ty : N) (v : value)
| MRem (ty : N)
| MGet (ty : N)            (* fetch::<R>() then table.get(&*res): the object and its value *)
| MGetMut (ty : N)         (* fetch_mut::<R>() then table.get_mut: call the bump method *)
| MIter                    (* collect (vtable tag, payload) of everything yielded, then drop the guards *)
| MIterMut                 (* bump everything yielded *)
| MHold (ty : N) (excl : bool)   (* an ordinary fetch of the resource that stays alive *)
| MDropHolds.

Inductive mout :=
| MU | MN | MV (v : value)
| MO (vt : N) (v : value)           (* an object: the vtable it answers with, its value *)
| ML (l : list (N * N * N))         (* iteration: (type of the slot, vtable tag, payload) in order *)
| MP (k : pkind) | MPI | MPC.

Record mstate := mkMS { s_tab : mtable; s_world : world; s_holds : list N }.
Definition empty_mstate : mstate := mkMS empty_table empty_world [].

Definition bump (v : value) : value := (fst v, snd v + 1).

(* the iterator: walk tys; skip absent; borrow (unchecked borrow()/borrow_mut(): a conflict panics) *)
Fixpoint iter_walk (bad : list N) (excl : bool) (fns tys : list N) (w : world) (acc : list (N * N * N)) (gs : list N)
  : world * list N * (list (N * N * N) + mout) :=
  match tys, fns with
  | [], _ => (w, gs, inl acc)
  | ty :: tys', fn :: fns' =>
      match lookup (ty, 0) (cells w) with
      | None => iter_walk bad excl fns' tys' w acc gs
      | Some _ =>
          match step w (OFetchOp (if excl then FTryMutById else FTryById) ty (ty, 0)) with
          | (w1, OGuard g) =>
              if memN fn bad then (w1, gs ++ [g], inr MPC)
              else
                let w2 := if excl then
                            match lookup (ty, 0) (cells w1) with
                            | Some c => fst (step w1 (OWrite g (snd (c_val c) + 1)))
                            | None => w1
                            end
                          else w1 in
                let p := match lookup (ty, 0) (cells w2) with Some c => snd (c_val c) | None => 0 end in
                iter_walk bad excl fns' tys' w2 (acc ++ [(ty, fn, p)]) (gs ++ [g])
          | (w1, OPanic k) => (w1, gs, inr (MP k))
          | (w1, _) => (w1, gs, inr MPI)
          end
      end
  | _ :: _, [] => (w, gs, inr MPI)           (* vtable_fns[index] out of range *)
  end.

Fixpoint drop_all (gs : list N) (w : world) : world :=
  match gs with [] => w | g :: r => drop_all r (fst (step w (ODrop g))) end.

Definition mstep (bad : list N) (s : mstate) (o : mop) : mstate * mout :=
  let t := s_tab s in
  let w := s_world s in
  match o with
  | MReg ty => match register t ty with
               | Ok t' => (mkMS t' w (s_holds s), MU)
               | Err _ => (s, MPI)
               end
  | MIns ty v => let '(w', out) := step w (OInsert ty (ty, 0) v) in
                 (mkMS t w' (s_holds s), match out with OUnit => MU | OPanic k => MP k | _ => MPI end)
  | MRem ty => let '(w', out) := step w (ORemove ty (ty, 0)) in
               (mkMS t w' (s_holds s), match out with OVal v => MV v | ONone => MN | OPanic k => MP k | _ => MPI end)
  | MGet ty =>
      match step w (OFetchOp FFetch ty (ty, 0)) with
      | (w1, OGuard g) =>
          let v := match lookup (ty, 0) (cells w1) with Some c => c_val c | None => (0, 0) end in
          let w2 := fst (step w1 (ODrop g)) in
          (mkMS t w2 (s_holds s),
           match mget_obj bad t ty with MNone => MN | MObj vt => MO vt v | MPanicIndex => MPI | MPanicCast => MPC end)
      | (w1, OPanic k) => (mkMS t w1 (s_holds s), MP k)
      | (w1, _) => (mkMS t w1 (s_holds s), MPI)
      end
  | MGetMut ty =>
      match step w (OFetchOp FFetchMut ty (ty, 0)) with
      | (w1, OGuard g) =>
          match mget_obj bad t ty with
          | MObj vt =>
              let v := match lookup (ty, 0) (cells w1) with Some c => c_val c | None => (0, 0) end in
              let w2 := fst (step w1 (OWrite g (snd v + 1))) in
              let w3 := fst (step w2 (ODrop g)) in
              (mkMS t w3 (s_holds s), MO vt (bump v))
          | r => (mkMS t (fst (step w1 (ODrop g))) (s_holds s),
                  match r with MNone => MN | MPanicIndex => MPI | _ => MPC end)
          end
      | (w1, OPanic k) => (mkMS t w1 (s_holds s), MP k)
      | (w1, _) => (mkMS t w1 (s_holds s), MPI)
      end
  | MIter =>
      let '(w1, gs, r) := iter_walk bad false (m_fns t) (m_tys t) w [] [] in
      (mkMS t (drop_all gs w1) (s_holds s), match r with inl l => ML l | inr e => e end)
  | MIterMut =>
      let '(w1, gs, r) := iter_walk bad true (m_fns t) (m_tys t) w [] [] in
      (mkMS t (drop_all gs w1) (s_holds s), match r with inl l => ML l | inr e => e end)
  | MHold ty excl =>
      match step w (OFetchOp (if excl then FTryFetchMut else FTryFetch) ty (ty, 0)) with
      | (w1, OGuard g) => (mkMS t w1 (s_holds s ++ [g]), MU)
      | (w1, ONone) => (mkMS t w1 (s_holds s), MN)
      | (w1, OPanic k) => (mkMS t w1 (s_holds s), MP k)
      | (w1, _) => (mkMS t w1 (s_holds s), MPI)
      end
  | MDropHolds => (mkMS t (drop_all (s_holds s) w) [], MU)
  end.

Fixpoint mrun (bad : list N) (s : mstate) (os : list mop) : mstate * list mout :=
  match os with
  | [] => (s, [])
  | o :: r => let '(s1, x) := mstep bad s o in let '(s2, xs) := mrun bad s1 r in (s2, x :: xs)
  end.

(* first occurrences, in order *)
Fixpoint dedup_first (seen l : list N) : list N :=
  match l with
  | [] => []
  | x :: r => if memN x seen then dedup_first seen r else x :: dedup_first (x :: seen) r
  end.
