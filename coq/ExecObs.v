(* ExecObs.v — what the trace oracles need from a registration program (one level). *)
From Shred Require Import Base SrcParams Plan PlanObs Exec.
Open Scope N_scope.

(* tags registered before the most recent barrier in front of t *)
Fixpoint prebarrier_tags (acc cur : list N) (rs : list reg) (t : N) : list N :=
  match rs with
  | [] => []
  | RBarrier :: rs' => prebarrier_tags (acc ++ cur) [] rs' t
  | r :: rs' =>
      match reg_tag r with
      | Some t' => if t' =? t then acc else prebarrier_tags acc (cur ++ [t']) rs' t
      | None => prebarrier_tags acc cur rs' t
      end
  end.

(* everything that must have finished before t starts: its dependencies and whatever was
   registered before the most recent barrier *)
Definition must_precede (rs : list reg) (t : N) : list N :=
  match find_reg t rs with
  | Some r => dep_tags rs r ++ prebarrier_tags [] [] rs t
  | None => []
  end.

(* tags of a registration and of everything inside it *)
Fixpoint subtree_tags (r : reg) : list N :=
  match r with
  | RSys t _ _ _ _ _ => [t]
  | RBatch t _ _ _ _ _ _ inner =>
      t :: (fix go (rs : list reg) : list N := match rs with [] => [] | r' :: rs' => subtree_tags r' ++ go rs' end) inner
  | RTL t => [t]
  | RBarrier => []
  end.

(* the model's layout of a level, as the executor sees it *)
Definition model_layout (rs : list reg) : option (lay * list N) :=
  match plan rs with
  | Ok b => Some (layout_tags b, b_tl b)
  | Err _ => None
  end.
