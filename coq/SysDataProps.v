(* SysDataProps.v — C06 (declared access = real borrows, for every type expression) and the
   world half of C13 (what setup creates). *)
From Shred Require Import Base World WorldProps WorldMap SysData.
From Coq Require Import Permutation.
Open Scope N_scope.

(* induction over type expressions of any arity and nesting *)
Section SdInd.
  Variable P : sd -> Prop.
  Hypothesis Hread : forall ty h, P (SRead ty h).
  Hypothesis Hwrite : forall ty h, P (SWrite ty h).
  Hypothesis Hor : forall ty, P (SOptRead ty).
  Hypothesis How : forall ty, P (SOptWrite ty).
  Hypothesis Hunit : P SUnit.
  Hypothesis Hph : P SPhantom.
  Hypothesis Htup : forall l, Forall P l -> P (STuple l).
  Fixpoint sd_ind' (d : sd) : P d :=
    match d with
    | SRead ty h => Hread ty h
    | SWrite ty h => Hwrite ty h
    | SOptRead ty => Hor ty
    | SOptWrite ty => How ty
    | SUnit => Hunit
    | SPhantom => Hph
    | STuple l => Htup l ((fix go (l : list sd) : Forall P l :=
                             match l with [] => Forall_nil P | x :: r => Forall_cons x (sd_ind' x) (go r) end) l)
    end.
End SdInd.

Lemma sd_reads_tuple l : sd_reads (STuple l) = concat (map sd_reads l).
Proof. induction l as [|x r IH]; [reflexivity|]. cbn [map concat]. rewrite <- IH. reflexivity. Qed.
Lemma sd_writes_tuple l : sd_writes (STuple l) = concat (map sd_writes l).
Proof. induction l as [|x r IH]; [reflexivity|]. cbn [map concat]. rewrite <- IH. reflexivity. Qed.
Lemma sd_leaves_tuple l : sd_leaves (STuple l) = concat (map sd_leaves l).
Proof. induction l as [|x r IH]; [reflexivity|]. cbn [map concat]. rewrite <- IH. reflexivity. Qed.
Lemma sd_setup_tuple dflt l w : sd_setup dflt (STuple l) w = fold_left (fun w x => sd_setup dflt x w) l w.
Proof. revert w. induction l as [|x r IH]; intros w; [reflexivity|]. cbn [fold_left]. rewrite <- IH. reflexivity. Qed.

(* the reported reads are the types of the shared leaves, the reported writes those of the
   exclusive leaves, in fetch order: what a type reports IS what its members fetch *)
Definition shared_tys (ls : list (N * bool * bool)) : list N :=
  map (fun l => fst (fst l)) (filter (fun l => negb (snd (fst l))) ls).
Definition excl_tys (ls : list (N * bool * bool)) : list N :=
  map (fun l => fst (fst l)) (filter (fun l => snd (fst l)) ls).

Lemma shared_tys_app a b : shared_tys (a ++ b) = shared_tys a ++ shared_tys b.
Proof. unfold shared_tys. now rewrite filter_app, map_app. Qed.
Lemma excl_tys_app a b : excl_tys (a ++ b) = excl_tys a ++ excl_tys b.
Proof. unfold excl_tys. now rewrite filter_app, map_app. Qed.

Theorem reads_writes_are_the_leaves d :
  sd_reads d = shared_tys (sd_leaves d) /\ sd_writes d = excl_tys (sd_leaves d).
Proof.
  induction d as [ty h|ty h|ty|ty| | |l IH] using sd_ind'; try (split; reflexivity).
  rewrite sd_reads_tuple, sd_writes_tuple, sd_leaves_tuple.
  induction IH as [|x r [Hx1 Hx2] _ IHr]; [split; reflexivity|].
  cbn [map concat]. rewrite shared_tys_app, excl_tys_app. destruct IHr as [-> ->]. now rewrite Hx1, Hx2.
Qed.

(* ---------------- fetch ---------------- *)

Definition present (w : world) (l : N * bool * bool) : bool :=
  match lookup (fst (fst l), 0) (cells w) with Some _ => true | None => false end.
Definition leaf_guard_shape (l : N * bool * bool) : key * bool := ((fst (fst l), 0), snd (fst l)).
Definition guard_shape (g : guard) : key * bool := (g_key g, g_excl g).

Lemma update_keys_present k c cs : lookup k cs <> None -> keys (update k c cs) = keys cs.
Proof.
  induction cs as [|[k0 c0] cs IH]; cbn [lookup update]; intros H; [congruence|].
  destruct (key_eqb k k0) eqn:E; cbn [keys map fst].
  - apply key_eqb_eq in E. now subst.
  - f_equal. now apply IH.
Qed.

(* a successful leaf fetch: one new guard of the right shape; values, types and keys unchanged *)
Lemma fetch_step_guard w fk ty g w' :
  step w (OFetchOp fk ty (ty, 0)) = (w', OGuard g) ->
  guards w' = guards w ++ [mkGuard g (ty, 0) (fk_excl fk)] /\ g = next_guard w /\ next_guard w' = N.succ g /\
  keys (cells w') = keys (cells w) /\ (forall k, mget w' k = mget w k) /\ dropped w' = dropped w /\
  lookup (ty, 0) (cells w) <> None.
Proof.
  cbn [step fst]. rewrite N.eqb_refl. cbn [negb].
  destruct (lookup (ty, 0) (cells w)) as [c|] eqn:L; [|destruct (fk_panics_when_absent fk); intros H; inversion H].
  destruct (acquire (c_b c) (fk_excl fk)) as [b'|]; intros H; inversion H; subst. cbn [guards next_guard cells dropped].
  repeat split; auto; try congruence.
  - apply update_keys_present. congruence.
  - intros k. unfold mget. cbn [cells]. rewrite lookup_update. destruct (key_eqb k (ty, 0)) eqn:E; auto.
    apply key_eqb_eq in E. subst. now rewrite L.
Qed.
Lemma fetch_step_none w fk ty w' :
  step w (OFetchOp fk ty (ty, 0)) = (w', ONone) -> w' = w /\ lookup (ty, 0) (cells w) = None.
Proof.
  cbn [step fst]. rewrite N.eqb_refl. cbn [negb].
  destruct (lookup (ty, 0) (cells w)) as [c|] eqn:L.
  - destruct (acquire (c_b c) (fk_excl fk)); intros H; inversion H.
  - destruct (fk_panics_when_absent fk); intros H; inversion H. auto.
Qed.

Lemma leaf_fkind_excl e o : fk_excl (leaf_fkind e o) = e.
Proof. destruct e, o; reflexivity. Qed.

(* C06: if fetching the value succeeds, the guards it holds are, in fetch order, exactly one
   shared guard for every EXISTING resource among its reads and one exclusive guard for every
   EXISTING resource among its writes — and nothing else: no other guard appears, no value, no
   key changes *)
Lemma fetch_leaves_exact : forall ls acc w w' gs,
  fetch_leaves ls acc w = (w', inl gs) ->
  exists new, guards w' = guards w ++ new /\ gs = acc ++ map g_id new /\
    map guard_shape new = map leaf_guard_shape (filter (present w) ls) /\
    keys (cells w') = keys (cells w) /\ (forall k, mget w' k = mget w k) /\ dropped w' = dropped w /\
    (forall l, In l ls -> snd l = false -> present w l = true).
Proof.
  induction ls as [|[[ty excl] opt] ls IH]; intros acc w w' gs H; cbn [fetch_leaves] in H.
  - inversion H; subst. exists []. rewrite !app_nil_r. repeat split; auto; intros l [].
  - destruct (step w (OFetchOp (leaf_fkind excl opt) ty (ty, 0))) as [w1 out] eqn:S.
    destruct out as [| | | |g|p]; try (inversion H; fail).
    + (* None: an optional leaf of an absent resource *)
      destruct (fetch_step_none _ _ _ _ S) as [-> L].
      destruct (IH _ _ _ _ H) as (new & G & Egs & Sh & K & M & D & Pr). exists new.
      repeat split; auto.
      * cbn [filter]. unfold present at 1. cbn [fst]. now rewrite L.
      * intros l [<-|Hl] Ho; [|auto]. cbn in Ho. subst opt.
        (* a non-optional form never returns None *)
        exfalso. clear - S. cbn [step] in S. rewrite N.eqb_refl in S. cbn [negb] in S.
        destruct (lookup (ty, 0) (cells w)) as [c|]; [destruct (acquire _ _); inversion S|].
        destruct excl; cbn in S; inversion S.
    + destruct (fetch_step_guard _ _ _ _ _ S) as (G1 & Eg & Nx & K1 & M1 & D1 & L1).
      destruct (IH _ _ _ _ H) as (new & G & Egs & Sh & K & M & D & Pr).
      assert (PW : forall l, present w1 l = present w l).
      { intros l. unfold present. pose proof (M1 (fst (fst l), 0)) as X. unfold mget in X.
        destruct (lookup (fst (fst l), 0) (cells w1)), (lookup (fst (fst l), 0) (cells w)); cbn in X; congruence. }
      exists (mkGuard g (ty, 0) (fk_excl (leaf_fkind excl opt)) :: new). repeat split.
      * rewrite G, G1, <- app_assoc. reflexivity.
      * rewrite Egs, <- app_assoc. reflexivity.
      * cbn [filter]. unfold present at 1. cbn [fst]. destruct (lookup (ty, 0) (cells w)); [|congruence].
        cbn [map]. f_equal; [unfold guard_shape, leaf_guard_shape; cbn; now rewrite leaf_fkind_excl|].
        rewrite Sh. f_equal. apply filter_ext. exact PW.
      * congruence.
      * intros k. now rewrite M, M1.
      * congruence.
      * intros l [<-|Hl] Ho; [unfold present; cbn [fst]; destruct (lookup (ty, 0) (cells w)); congruence|].
        rewrite <- PW. auto.
Qed.

Theorem sd_fetch_exact d w w' gs :
  sd_fetch d w = (w', inl gs) ->
  exists new, guards w' = guards w ++ new /\ gs = map g_id new /\
    map guard_shape new = map leaf_guard_shape (filter (present w) (sd_leaves d)) /\
    keys (cells w') = keys (cells w) /\ (forall k, mget w' k = mget w k) /\ dropped w' = dropped w.
Proof.
  unfold sd_fetch. intros H. destruct (fetch_leaves_exact _ _ _ _ _ H) as (new & G & E & S & K & M & D & _).
  exists new. repeat split; auto.
Qed.

(* ---------------- setup ---------------- *)

Fixpoint default_tys (d : sd) : list N :=
  match d with
  | SRead ty h | SWrite ty h => if provides h then [ty] else []
  | STuple l => (fix go (l : list sd) : list N := match l with [] => [] | x :: r => default_tys x ++ go r end) l
  | _ => []
  end.
Lemma default_tys_tuple l : default_tys (STuple l) = concat (map default_tys l).
Proof. induction l as [|x r IH]; [reflexivity|]. cbn [map concat]. rewrite <- IH. reflexivity. Qed.

Lemma insert_default_spec dflt ty w k :
  mget (insert_default dflt ty w) k =
  match mget w k with Some v => Some v | None => if key_eqb k (ty, 0) then Some (dflt ty) else None end.
Proof.
  unfold insert_default, mget. destruct (lookup (ty, 0) (cells w)) as [c|] eqn:L.
  - destruct (lookup k (cells w)) eqn:Lk; cbn; auto. destruct (key_eqb k (ty, 0)) eqn:E; auto.
    apply key_eqb_eq in E. subst. congruence.
  - cbn [set_cells cells]. rewrite lookup_update. destruct (key_eqb k (ty, 0)) eqn:E.
    + apply key_eqb_eq in E. subst. now rewrite L.
    + destruct (lookup k (cells w)); reflexivity.
Qed.
Lemma insert_default_guards dflt ty w : guards (insert_default dflt ty w) = guards w /\ dropped (insert_default dflt ty w) = dropped w.
Proof. unfold insert_default. destruct (lookup (ty, 0) (cells w)); split; reflexivity. Qed.

(* C13/C06: setup is the composition of the member setups; it never changes a resource that
   exists; it creates exactly the missing resources reached through a default-providing
   accessor, with their default value; optional and expecting accessors create nothing;
   guards and the drop ledger are untouched *)
Theorem sd_setup_spec dflt d : forall w k,
  mget (sd_setup dflt d w) k =
  match mget w k with
  | Some v => Some v
  | None => if snd k =? 0 then (if memN (fst k) (default_tys d) then Some (dflt (fst k)) else None) else None
  end.
Proof.
  induction d as [ty h|ty h|ty|ty| | |l IH] using sd_ind'; intros w k;
    try (cbn [sd_setup default_tys memN existsb]; destruct (mget w k); destruct (snd k =? 0); reflexivity).
  - cbn [sd_setup default_tys]. destruct (provides h); [|cbn; destruct (mget w k); destruct (snd k =? 0); reflexivity].
    rewrite insert_default_spec. destruct (mget w k); auto. destruct k as [k1 k2]. unfold key_eqb. cbn [fst snd memN existsb].
    rewrite orb_false_r. rewrite (N.eqb_sym ty k1) at 1 || idtac.
    destruct (N.eqb_spec k1 ty), (N.eqb_spec k2 0); cbn; subst; auto.
  - cbn [sd_setup default_tys]. destruct (provides h); [|cbn; destruct (mget w k); destruct (snd k =? 0); reflexivity].
    rewrite insert_default_spec. destruct (mget w k); auto. destruct k as [k1 k2]. unfold key_eqb. cbn [fst snd memN existsb].
    rewrite orb_false_r.
    destruct (N.eqb_spec k1 ty), (N.eqb_spec k2 0); cbn; subst; auto.
  - rewrite sd_setup_tuple, default_tys_tuple. revert w.
    induction IH as [|x r Hx _ IHr]; intros w; cbn [fold_left map concat].
    + destruct (mget w k); destruct (snd k =? 0); reflexivity.
    + rewrite IHr, Hx. destruct (mget w k); auto. destruct (snd k =? 0); auto.
      unfold memN. rewrite existsb_app. fold (memN (fst k) (default_tys x)). fold (memN (fst k) (concat (map default_tys r))).
      destruct (memN (fst k) (default_tys x)); reflexivity.
Qed.

Theorem sd_setup_keeps_guards dflt d : forall w,
  guards (sd_setup dflt d w) = guards w /\ dropped (sd_setup dflt d w) = dropped w.
Proof.
  induction d as [ty h|ty h|ty|ty| | |l IH] using sd_ind'; intros w; try (split; reflexivity).
  - cbn [sd_setup]. destruct (provides h); [apply insert_default_guards|split; reflexivity].
  - cbn [sd_setup]. destruct (provides h); [apply insert_default_guards|split; reflexivity].
  - rewrite sd_setup_tuple. revert w. induction IH as [|x r Hx _ IHr]; intros w; cbn [fold_left]; [split; reflexivity|].
    destruct (IHr (sd_setup dflt x w)) as [-> ->]. apply Hx.
Qed.

(* setup twice = setup once *)
Theorem sd_setup_idempotent dflt d w k :
  mget (sd_setup dflt d (sd_setup dflt d w)) k = mget (sd_setup dflt d w) k.
Proof.
  rewrite (sd_setup_spec dflt d (sd_setup dflt d w) k), (sd_setup_spec dflt d w k).
  destruct (mget w k); auto. destruct (snd k =? 0); auto. destruct (memN (fst k) (default_tys d)); auto.
Qed.

(* ---------------- dropping the value (or unwinding a failed fetch) restores everything ---------------- *)

Lemma find_guard_none g gs : find_guard g gs = None -> forall x, In x gs -> g_id x <> g.
Proof.
  induction gs as [|y gs IH]; cbn; intros H x Hx; [destruct Hx|].
  destruct (N.eqb_spec (g_id y) g); [discriminate|]. destruct Hx as [<-|Hx]; auto.
Qed.

Lemma filter_id {A} (p : A -> bool) l : (forall x, In x l -> p x = true) -> filter p l = l.
Proof. induction l as [|x l IH]; cbn; intros H; auto. rewrite (H x (or_introl eq_refl)). f_equal. apply IH. intros y Hy. apply H. now right. Qed.

Lemma filter_filter' {A} (p q : A -> bool) l : filter p (filter q l) = filter (fun x => q x && p x) l.
Proof. induction l as [|x l IH]; cbn; auto. destruct (q x); cbn; [destruct (p x); cbn; now rewrite IH|auto]. Qed.

Lemma drop_guards_spec : forall gs w, inv w ->
  let w' := drop_guards gs w in
  inv w' /\ guards w' = filter (fun x => negb (memN (g_id x) gs)) (guards w) /\
  keys (cells w') = keys (cells w) /\ (forall k, mget w' k = mget w k) /\ dropped w' = dropped w.
Proof.
  induction gs as [|g gs IH]; intros w I; cbn [drop_guards].
  - split; [exact I|]. split; [symmetry; apply filter_id; auto|]. split; [reflexivity|]. split; [reflexivity|reflexivity].
  - pose proof (step_inv w (ODrop g) I) as I1.
    assert (S1 : guards (fst (step w (ODrop g))) = filter (fun x => negb (g_id x =? g)) (guards w) /\
                 keys (cells (fst (step w (ODrop g)))) = keys (cells w) /\
                 (forall k, mget (fst (step w (ODrop g))) k = mget w k) /\ dropped (fst (step w (ODrop g))) = dropped w).
    { cbn [step]. destruct (find_guard g (guards w)) as [x|] eqn:F.
      - destruct (find_guard_in _ _ _ F) as [Hx Hid].
        destruct (lookup (g_key x) (cells w)) as [c|] eqn:L; [|exfalso; now apply (i_gkeys _ I x Hx)].
        cbn [fst guards cells dropped]. split; [reflexivity|]. split; [apply update_keys_present; congruence|]. split; [|reflexivity].
        intros k. unfold mget. cbn [cells]. rewrite lookup_update. destruct (key_eqb k (g_key x)) eqn:E; auto.
        apply key_eqb_eq in E. subst. now rewrite L.
      - cbn [fst]. split; [|split; [reflexivity|split; [reflexivity|reflexivity]]].
        symmetry. apply filter_id. intros y Hy. pose proof (find_guard_none _ _ F y Hy) as Hn.
        apply N.eqb_neq in Hn. now rewrite Hn. }
    destruct S1 as (G1 & K1 & M1 & D1).
    destruct (IH (fst (step w (ODrop g))) I1) as (I2 & G2 & K2 & M2 & D2).
    cbn zeta. split; [exact I2|]. split; [|split; [congruence|split; [intros k; now rewrite M2, M1|congruence]]].
    rewrite G2, G1, filter_filter'. apply filter_ext. intros y. cbn [memN existsb].
    destruct (g_id y =? g); reflexivity.
Qed.

(* the borrow state of a cell is determined by the live guards: two consistent cells agree *)
Lemma consistent_unique gs k c1 c2 : cell_consistent gs k c1 -> cell_consistent gs k c2 -> c_b c1 = c_b c2.
Proof.
  unfold cell_consistent. destruct (c_b c1) as [|n1|], (c_b c2) as [|n2|]; intros [A1 A2] [B1 B2]; try reflexivity; try lia.
  f_equal. lia.
Qed.

Lemma cells_determined w1 w2 : inv w1 -> inv w2 ->
  keys (cells w1) = keys (cells w2) -> (forall k, mget w1 k = mget w2 k) -> guards w1 = guards w2 ->
  cells w1 = cells w2.
Proof.
  intros I1 I2 K M G.
  assert (E : forall k c1 c2, lookup k (cells w1) = Some c1 -> lookup k (cells w2) = Some c2 -> c1 = c2).
  { intros k c1 c2 L1 L2.
    pose proof (i_ty _ I1 _ _ L1) as T1. pose proof (i_ty _ I2 _ _ L2) as T2.
    pose proof (M k) as Mk. unfold mget in Mk. rewrite L1, L2 in Mk. cbn in Mk. inversion Mk as [Ev].
    pose proof (i_borrow _ I1 _ _ L1) as B1. pose proof (i_borrow _ I2 _ _ L2) as B2. rewrite G in B1.
    pose proof (consistent_unique _ _ _ _ B1 B2) as Eb.
    destruct c1, c2. cbn in *. congruence. }
  pose proof (i_keys _ I1) as N1. pose proof (i_keys _ I2) as N2.
  revert E N1 N2 K. generalize (cells w1) (cells w2). clear.
  induction l as [|[k1 c1] l IH]; intros [|[k2 c2] l2] E N1 N2 K; cbn in K; try discriminate; auto.
  inversion K as [[Ek Kt]]. subst k2. inversion N1; subst. inversion N2; subst.
  assert (c1 = c2) by (apply (E k1); cbn; now rewrite key_eqb_refl). subst c2. f_equal.
  apply IH; auto. intros k a b La Lb. apply (E k); cbn.
  - destruct (key_eqb k k1) eqn:Ex; auto. apply key_eqb_eq in Ex. subst. exfalso. apply lookup_in in La. auto.
  - destruct (key_eqb k k1) eqn:Ex; auto. apply key_eqb_eq in Ex. subst. exfalso. apply lookup_in in Lb. fold (keys l2) in *. rewrite <- Kt in *. auto.
Qed.

(* the state in front of the point where a fetch ends (successfully or with a panic) *)
Lemma fetch_leaves_trace : forall ls acc w, inv w ->
  exists new wm, inv wm /\ guards wm = guards w ++ new /\ Forall (fun x => next_guard w <= g_id x) new /\
    keys (cells wm) = keys (cells w) /\ (forall k, mget wm k = mget w k) /\ dropped wm = dropped w /\
    (fetch_leaves ls acc w = (wm, inl (acc ++ map g_id new)) \/
     exists p, fetch_leaves ls acc w = (drop_guards (acc ++ map g_id new) wm, inr p)).
Proof.
  induction ls as [|[[ty excl] opt] ls IH]; intros acc w I; cbn [fetch_leaves].
  - exists [], w. rewrite !app_nil_r. split; [exact I|]. split; [reflexivity|]. split; [constructor|]. split; [reflexivity|]. split; [reflexivity|]. split; [reflexivity|]. left. reflexivity.
  - destruct (step w (OFetchOp (leaf_fkind excl opt) ty (ty, 0))) as [w1 out] eqn:S.
    pose proof (step_inv w (OFetchOp (leaf_fkind excl opt) ty (ty, 0)) I) as I1. rewrite S in I1. cbn [fst] in I1.
    destruct out as [| | | |g|p].
    + exfalso. cbn [step] in S. rewrite N.eqb_refl in S. cbn [negb] in S.
      destruct (lookup (ty, 0) (cells w)) as [c|]; [destruct (acquire _ _)|destruct (fk_panics_when_absent _)]; inversion S.
    + exfalso. cbn [step] in S. rewrite N.eqb_refl in S. cbn [negb] in S.
      destruct (lookup (ty, 0) (cells w)) as [c|]; [destruct (acquire _ _)|destruct (fk_panics_when_absent _)]; inversion S.
    + exfalso. cbn [step] in S. rewrite N.eqb_refl in S. cbn [negb] in S.
      destruct (lookup (ty, 0) (cells w)) as [c|]; [destruct (acquire _ _)|destruct (fk_panics_when_absent _)]; inversion S.
    + destruct (fetch_step_none _ _ _ _ S) as [-> _]. apply IH; auto.
    + destruct (fetch_step_guard _ _ _ _ _ S) as (G1 & Eg & Nx & K1 & M1 & D1 & _).
      destruct (IH (acc ++ [g]) w1 I1) as (new & wm & Im & Gm & Fm & Km & Mm & Dm & R).
      exists (mkGuard g (ty, 0) (fk_excl (leaf_fkind excl opt)) :: new), wm.
      split; [exact Im|]. split; [rewrite Gm, G1, <- app_assoc; reflexivity|]. split.
      { constructor; [cbn; lia|]. eapply Forall_impl; [|exact Fm]. intros x Hx. cbv beta in *. lia. }
      split; [congruence|]. split; [intros k; now rewrite Mm, M1|]. split; [congruence|].
      cbn [map g_id]. rewrite <- app_assoc in R. cbn [app] in R. exact R.
    + (* the panic: nothing changed by the failing call; the unwinding drops what was fetched *)
      pose proof (fail_preserves w (OFetchOp (leaf_fkind excl opt) ty (ty, 0))) as FP. rewrite S in FP. cbn [snd fst] in FP.
      destruct FP as [Ec Eg].
      exists [], w1. rewrite !app_nil_r. split; [exact I1|]. split; [exact Eg|]. split; [constructor|].
      split; [now rewrite Ec|]. split; [intros k; unfold mget; now rewrite Ec|]. split.
      * clear - S. cbn [step] in S. destruct (ty =? fst (ty, 0)); cbn [negb] in S.
        -- destruct (lookup (ty, 0) (cells w)) as [c|]; [destruct (acquire _ _)|destruct (fk_panics_when_absent _)]; inversion S; reflexivity.
        -- inversion S. reflexivity.
      * right. exists p. reflexivity.
Qed.

Lemma fresh_filter w new : inv w -> Forall (fun x => next_guard w <= g_id x) new ->
  filter (fun x => negb (memN (g_id x) (map g_id new))) (guards w ++ new) = guards w.
Proof.
  intros I F. rewrite filter_app.
  assert (A : filter (fun x => negb (memN (g_id x) (map g_id new))) (guards w) = guards w).
  { apply filter_id. intros x Hx. apply negb_true_iff. apply not_true_is_false. intros Hm.
    unfold memN in Hm. apply existsb_exists in Hm. destruct Hm as (i & Hi & Ei). apply N.eqb_eq in Ei. subst i.
    apply in_map_iff in Hi. destruct Hi as (y & Ey & Hy). rewrite Forall_forall in F. pose proof (F y Hy). pose proof (i_gnext _ I x Hx). lia. }
  assert (B : filter (fun x => negb (memN (g_id x) (map g_id new))) new = []).
  { clear. assert (forall l, (forall y, In y l -> In (g_id y) (map g_id new)) -> filter (fun x => negb (memN (g_id x) (map g_id new))) l = []) as X.
    { induction l as [|y l IH]; cbn; intros H; auto.
      assert (memN (g_id y) (map g_id new) = true) as ->.
      { unfold memN. apply existsb_exists. exists (g_id y). split; [apply H; now left|apply N.eqb_refl]. }
      cbn. apply IH. intros z Hz. apply H. now right. }
    apply X. intros y Hy. now apply in_map. }
  now rewrite A, B, app_nil_r.
Qed.

(* C06: all of it is released when the value is dropped: the world is exactly as before the fetch *)
Theorem sd_drop_releases_everything d w w' gs :
  inv w -> sd_fetch d w = (w', inl gs) ->
  cells (drop_guards gs w') = cells w /\ guards (drop_guards gs w') = guards w.
Proof.
  intros I H. unfold sd_fetch in H.
  destruct (fetch_leaves_trace (sd_leaves d) [] w I) as (new & wm & Im & Gm & Fm & Km & Mm & Dm & [R|(p & R)]);
    rewrite R in H; [|discriminate]. cbn [app] in H. injection H as E1 E2. rewrite <- E1, <- E2.
  destruct (drop_guards_spec (map g_id new) wm Im) as (I2 & G2 & K2 & M2 & _).
  assert (G : guards (drop_guards (map g_id new) wm) = guards w) by (rewrite G2, Gm; now apply fresh_filter).
  split; auto. apply cells_determined; auto; [congruence|intros k; now rewrite M2, Mm].
Qed.

(* C06 / C08: a fetch that panics (a member is missing or conflicts) leaves nothing borrowed:
   the members fetched before it are released by the unwinding *)
Theorem sd_fetch_fail_clean d w w' p :
  inv w -> sd_fetch d w = (w', inr p) -> cells w' = cells w /\ guards w' = guards w.
Proof.
  intros I H. unfold sd_fetch in H.
  destruct (fetch_leaves_trace (sd_leaves d) [] w I) as (new & wm & Im & Gm & Fm & Km & Mm & Dm & [R|(p' & R)]);
    rewrite R in H; [discriminate|]. cbn [app] in H. injection H as E1 E2. rewrite <- E1.
  destruct (drop_guards_spec (map g_id new) wm Im) as (I2 & G2 & K2 & M2 & _).
  assert (G : guards (drop_guards (map g_id new) wm) = guards w) by (rewrite G2, Gm; now apply fresh_filter).
  split; auto. apply cells_determined; auto; [congruence|intros k; now rewrite M2, Mm].
Qed.

(* C06: "its setup is the composition of its members' setups", seen through user-written handlers:
   the handler calls made by setting up a tuple / derived struct are the calls of its members, one
   member after the other, whatever the world contains (no member is skipped, none runs twice) *)
Theorem sd_setup_calls_tuple l : sd_setup_calls (STuple l) = concat (map sd_setup_calls l).
Proof. induction l as [|x r IH]; [reflexivity|]. cbn [map concat]. rewrite <- IH. reflexivity. Qed.

Fixpoint custom_leaves (d : sd) : list N :=
  match d with
  | SRead ty h | SWrite ty h => match h with HCustom => [ty] | _ => [] end
  | STuple l => concat (map custom_leaves l)
  | _ => []
  end.
(* ... hence exactly one call per member with a user-written handler, in member order, at any nesting *)
Theorem sd_setup_calls_are_the_custom_members d : sd_setup_calls d = custom_leaves d.
Proof.
  induction d as [ty h|ty h|ty|ty| | |l IH] using sd_ind'; try reflexivity; try (destruct h; reflexivity).
  rewrite sd_setup_calls_tuple. cbn [custom_leaves]. induction IH as [|x r Hx _ IHr]; [reflexivity|].
  cbn [map concat]. now rewrite Hx, IHr.
Qed.

(* ---------------- World::exec ---------------- *)

Lemma insert_default_inv dflt ty w : inv w -> guards w = [] -> inv (insert_default dflt ty w).
Proof.
  intros I G. unfold insert_default. destruct (lookup (ty, 0) (cells w)) eqn:L; [exact I|].
  pose proof (step_inv w (OEntry ty (dflt ty)) I) as S. cbn [step] in S. unfold no_guards in S. rewrite G in S. cbn [negb] in S.
  rewrite L in S. exact S.
Qed.

Lemma sd_setup_inv dflt d : forall w, inv w -> guards w = [] -> inv (sd_setup dflt d w).
Proof.
  induction d as [ty h|ty h|ty|ty| | |l IH] using sd_ind'; intros w I G; try exact I.
  - cbn [sd_setup]. destruct (provides h); [now apply insert_default_inv|exact I].
  - cbn [sd_setup]. destruct (provides h); [now apply insert_default_inv|exact I].
  - rewrite sd_setup_tuple. revert w I G. induction IH as [|x r Hx _ IHr]; intros w I G; cbn [fold_left]; [exact I|].
    apply IHr; [now apply Hx|]. destruct (sd_setup_keeps_guards dflt x w) as [-> _]. exact G.
Qed.

(* C06/C09/C14: exec(f) = setup, then fetch; when the closure returns — or unwinds — the value is dropped and
   the world is exactly the world after setup, with nothing borrowed; if the fetch itself panics the same holds *)
Theorem sd_exec_returns_setup_world dflt d w w' gs :
  inv w -> guards w = [] -> sd_exec dflt d w = (w', inl gs) ->
  cells (drop_guards gs w') = cells (sd_setup dflt d w) /\ guards (drop_guards gs w') = [].
Proof.
  intros I G H. unfold sd_exec in H.
  destruct (sd_drop_releases_everything d (sd_setup dflt d w) w' gs (sd_setup_inv dflt d w I G) H) as [A B].
  split; auto. rewrite B. destruct (sd_setup_keeps_guards dflt d w) as [-> _]. exact G.
Qed.
Theorem sd_exec_fetch_panic_clean dflt d w w' p :
  inv w -> guards w = [] -> sd_exec dflt d w = (w', inr p) ->
  cells w' = cells (sd_setup dflt d w) /\ guards w' = [].
Proof.
  intros I G H. unfold sd_exec in H.
  destruct (sd_fetch_fail_clean d (sd_setup dflt d w) w' p (sd_setup_inv dflt d w I G) H) as [A B].
  split; auto. rewrite B. destruct (sd_setup_keeps_guards dflt d w) as [-> _]. exact G.
Qed.
