(* MetaIterInv.v — C08 for meta-table iteration: whatever the table, the world and the live guards are, a pass of
   the shared or of the exclusive iterator — complete, or cut short by a borrow panic or a bad cast — leaves the
   world in a state that satisfies the borrow discipline invariant (every guard it took is an ordinary guard). *)
From Shred Require Import Base World WorldProps Meta.
Open Scope N_scope.

Lemma iter_walk_inv bad excl : forall tys fns w acc gs, inv w -> inv (fst (fst (iter_walk bad excl fns tys w acc gs))).
Proof.
  induction tys as [|ty tys IH]; intros fns w acc gs I.
  - destruct fns; exact I.
  - destruct fns as [|fn fns]; [exact I|]. cbn [iter_walk].
    destruct (lookup (ty, 0) (cells w)) as [c|] eqn:L; [|now apply IH].
    pose proof (step_inv w (OFetchOp (if excl then FTryMutById else FTryById) ty (ty, 0)) I) as I1.
    destruct (step w (OFetchOp (if excl then FTryMutById else FTryById) ty (ty, 0))) as [w1 out] eqn:S. cbn [fst] in I1.
    destruct out as [|b|v| |g|k]; try exact I1.
    destruct (memN fn bad); [exact I1|].
    apply IH. destruct excl; [|exact I1].
    destruct (lookup (ty, 0) (cells w1)) as [c1|]; [|exact I1].
    apply (step_inv w1 (OWrite g (snd (c_val c1) + 1)) I1).
Qed.

Lemma drop_all_inv : forall gs w, inv w -> inv (drop_all gs w).
Proof. induction gs as [|g gs IH]; intros w I; cbn [drop_all]; [exact I|]. apply IH. now apply step_inv. Qed.

(* every operation of the meta-table state machine (register, insert, remove, get, get_mut, iter, iter_mut, holding and
   dropping guards) preserves the borrow discipline invariant of the world *)
Theorem mstep_inv bad s o : inv (s_world s) -> inv (s_world (fst (mstep bad s o))).
Proof.
  intros I. destruct o as [ty|ty v|ty|ty|ty| | |ty excl|]; cbn [mstep].
  - destruct (register (s_tab s) ty); exact I.
  - pose proof (step_inv (s_world s) (OInsert ty (ty, 0) v) I) as I1. destruct (step (s_world s) (OInsert ty (ty, 0) v)). exact I1.
  - pose proof (step_inv (s_world s) (ORemove ty (ty, 0)) I) as I1. destruct (step (s_world s) (ORemove ty (ty, 0))). exact I1.
  - pose proof (step_inv (s_world s) (OFetchOp FFetch ty (ty, 0)) I) as I1.
    destruct (step (s_world s) (OFetchOp FFetch ty (ty, 0))) as [w1 out]. cbn [fst] in I1.
    destruct out; cbn [fst s_world]; try exact I1. now apply step_inv.
  - pose proof (step_inv (s_world s) (OFetchOp FFetchMut ty (ty, 0)) I) as I1.
    destruct (step (s_world s) (OFetchOp FFetchMut ty (ty, 0))) as [w1 out]. cbn [fst] in I1.
    destruct out; cbn [fst s_world]; try exact I1.
    destruct (mget_obj bad (s_tab s) ty); cbn [fst s_world]; repeat apply step_inv; exact I1.
  - pose proof (iter_walk_inv bad false (m_tys (s_tab s)) (m_fns (s_tab s)) (s_world s) [] [] I) as I1.
    destruct (iter_walk bad false (m_fns (s_tab s)) (m_tys (s_tab s)) (s_world s) [] []) as [[w1 gs] r]. cbn [fst s_world] in *.
    now apply drop_all_inv.
  - pose proof (iter_walk_inv bad true (m_tys (s_tab s)) (m_fns (s_tab s)) (s_world s) [] [] I) as I1.
    destruct (iter_walk bad true (m_fns (s_tab s)) (m_tys (s_tab s)) (s_world s) [] []) as [[w1 gs] r]. cbn [fst s_world] in *.
    now apply drop_all_inv.
  - pose proof (step_inv (s_world s) (OFetchOp (if excl then FTryFetchMut else FTryFetch) ty (ty, 0)) I) as I1.
    destruct (step (s_world s) (OFetchOp (if excl then FTryFetchMut else FTryFetch) ty (ty, 0))) as [w1 out]. cbn [fst] in I1.
    destruct out; exact I1.
  - now apply drop_all_inv.
Qed.

Theorem mrun_inv bad : forall os s, inv (s_world s) -> inv (s_world (fst (mrun bad s os))).
Proof.
  induction os as [|o os IH]; intros s I; cbn [mrun]; [exact I|].
  pose proof (mstep_inv bad s o I) as I1. destruct (mstep bad s o) as [s1 x]. cbn [fst] in I1.
  specialize (IH s1 I1). destruct (mrun bad s1 os) as [s2 xs]. exact IH.
Qed.
