(* Visit.v — C13: the order in which Dispatcher::setup / Dispatcher::dispose visit the
   systems: the stages front to back, the groups of a stage, the members of a group, then the
   thread-local systems; a batch member stands for the visits of its inner dispatcher
   (BatchControllerSystem::setup / ::dispose forward to it).  Model only. *)
From Shred Require Import Base SrcParams Plan PlanObs.
Open Scope N_scope.

Definition lookup_visits (t : N) (sub : list (N * list N)) : list N :=
  match find (fun p => fst p =? t) sub with Some p => snd p | None => [] end.

(* one level: [sub] maps the tag of every ordinary member to what visiting it visits *)
Definition level_visits (rs : list reg) (sub : list (N * list N)) : list N :=
  match plan rs with
  | Ok b => concat (map (fun t => lookup_visits t sub) (flat (layout_tags b))) ++ b_tl b
  | Err _ => []
  end.

Fixpoint visits_reg (r : reg) : list N :=
  match r with
  | RSys t _ _ _ _ _ => [t]
  | RTL t => [t]
  | RBarrier => []
  | RBatch _ _ _ _ _ _ _ inner =>
      level_visits inner
        ((fix go (rs : list reg) : list (N * list N) :=
            match rs with
            | [] => []
            | r' :: rs' => match reg_tag r' with
                           | Some t' => (t', visits_reg r') :: go rs'
                           | None => go rs'
                           end
            end) inner)
  end.

Fixpoint sub_of (rs : list reg) : list (N * list N) :=
  match rs with
  | [] => []
  | r :: rs' => match reg_tag r with
                | Some t => (t, visits_reg r) :: sub_of rs'
                | None => sub_of rs'
                end
  end.

(* the systems whose setup (resp. dispose) hook is called, in call order *)
Definition visits (rs : list reg) : list N := level_visits rs (sub_of rs).

(* every system object of the program, at any depth (batch controllers are not systems with
   a user hook: their declared data is set up by World::setup, see SysData) *)
Fixpoint leaf_tags_reg (r : reg) : list N :=
  match r with
  | RSys t _ _ _ _ _ => [t]
  | RTL t => [t]
  | RBarrier => []
  | RBatch _ _ _ _ _ _ _ inner =>
      (fix go (rs : list reg) : list N := match rs with [] => [] | r' :: rs' => leaf_tags_reg r' ++ go rs' end) inner
  end.
Fixpoint leaf_tags (rs : list reg) : list N :=
  match rs with [] => [] | r :: rs' => leaf_tags_reg r ++ leaf_tags rs' end.
