(* NestedExec.v — C07 at run time, for the whole tree: nested dispatch as ONE trace set, and the
   theorem that two systems anywhere in the tree whose declared accesses conflict (and neither of
   which contains the other) never have overlapping windows — in every nested trace. *)
From Shred Require Import Base SrcParams Plan PlanObs PlanLemmas PlanInv PlanLoc PlanBuild PlanProps BatchProps
  Exec ExecProps ExecObs NestedObs ExecPlan TraceOracles ExecOracles ParSeq ParSeqProps TreeAccept.
From Coq Require Import Permutation.
Open Scope N_scope.

(* ---------------- the tree of a program ---------------- *)

Lemma subtree_tags_batch t nm deps cr cw tm cnt inner :
  subtree_tags (RBatch t nm deps cr cw tm cnt inner) = t :: concat (map subtree_tags inner).
Proof. cbn [subtree_tags]. f_equal. induction inner as [|r rs IH]; [reflexivity|]. cbn [map concat]. now rewrite <- IH. Qed.


(* r occurs in the program, at any depth *)
Inductive sub_reg : reg -> list reg -> Prop :=
| sub_here r rs : In r rs -> sub_reg r rs
| sub_in r rs t nm deps cr cw tm cnt inner :
    In (RBatch t nm deps cr cw tm cnt inner) rs -> sub_reg r inner -> sub_reg r rs.

(* k runs, one after the other *)
Fixpoint reps (P : list ev -> Prop) (k : nat) (tr : list ev) : Prop :=
  match k with
  | O => tr = []
  | S k' => exists t1 t2, P t1 /\ reps P k' t2 /\ tr = t1 ++ t2
  end.

(* ---------------- nested traces ----------------
   [n] bounds the nesting depth.  A nested trace of a level:
   - erasing everything that happens inside batches leaves a trace of the level's own dispatch;
   - every event belongs to the tree;
   - for every batch: the events of its subtree lie inside the batch's window, and are [count]
     nested traces of the inner program, one after the other.
   Events of different subtrees interleave freely, as the real threads do. *)
Fixpoint ntr (n : nat) (rs : list reg) (tr : list ev) : Prop :=
  match n with
  | O => False
  | S n' =>
      exists b, plan rs = Ok b /\
        traces_disp (layout_tags b) (b_tl b) (proj (sys_tags rs ++ tl_tags rs) tr) /\
        (forall e, In e tr -> In (ev_tag e) (tree_tags rs)) /\
        forall t nm deps cr cw tm cnt inner, In (RBatch t nm deps cr cw tm cnt inner) rs ->
          exists pre mid post, tr = pre ++ EF t :: mid ++ ER t :: post /\
            (forall e, In e (pre ++ post) -> ~ In (ev_tag e) (tree_tags inner)) /\
            reps (ntr n' inner) (N.to_nat cnt) (proj (tree_tags inner) mid)
  end.

(* ---------------- serial projections ---------------- *)

(* a sequence of whole windows of a and c *)
Inductive serial2 (a c : N) : list ev -> Prop :=
| ser_nil : serial2 a c []
| ser_a l : serial2 a c l -> serial2 a c (EF a :: ER a :: l)
| ser_c l : serial2 a c l -> serial2 a c (EF c :: ER c :: l).

Lemma serial2_app a c l1 l2 : serial2 a c l1 -> serial2 a c l2 -> serial2 a c (l1 ++ l2).
Proof. induction 1; cbn; auto; constructor; auto. Qed.
Lemma serial2_sym a c l : serial2 a c l -> serial2 c a l.
Proof. induction 1; constructor; auto. Qed.

(* in a serial sequence every fetch is immediately followed by the release of the same system *)
Lemma serial2_next a c : forall l p x q, serial2 a c l -> l = p ++ EF x :: q -> exists q', q = ER x :: q'.
Proof.
  intros l p x q H. revert p. induction H as [|l H IH|l H IH]; intros p E.
  - destruct p; discriminate.
  - destruct p as [|e1 [|e2 p]]; cbn in E; inversion E; subst; eauto.
  - destruct p as [|e1 [|e2 p]]; cbn in E; inversion E; subst; eauto.
Qed.

Lemma proj_app tags a b : proj tags (a ++ b) = proj tags a ++ proj tags b.
Proof. unfold proj. apply filter_app. Qed.
Lemma proj_In' tags tr e : In e (proj tags tr) <-> In e tr /\ In (ev_tag e) tags.
Proof. unfold proj. rewrite filter_In. now rewrite memN_In. Qed.
Lemma proj_none tags tr : (forall e, In e tr -> ~ In (ev_tag e) tags) -> proj tags tr = [].
Proof.
  induction tr as [|e r IH]; intros H; [reflexivity|]. unfold proj in *. cbn [filter].
  rewrite (proj2 (memN_false _ _) (H e (or_introl eq_refl))). apply IH. intros; apply H; now right.
Qed.
Lemma proj_sub a b tr : (forall x, In x a -> In x b) -> proj a (proj b tr) = proj a tr.
Proof. intros H. unfold proj. apply filter_filter_disj. intros e _ Hm. apply memN_In. apply H. now apply memN_In. Qed.

(* C07 on a recorded or modelled run: if the projection onto two systems is serial, then neither is
   ever fetched while the window of the other is open *)
Theorem serial2_no_overlap a c tr : a <> c -> serial2 a c (proj [a; c] tr) ->
  forall u1 u2 u3, tr = u1 ++ EF a :: u2 ++ EF c :: u3 -> In (ER a) u2.
Proof.
  intros Hne S u1 u2 u3 E. rewrite E in S. rewrite proj_app in S.
  assert (Pa : proj [a; c] (EF a :: u2 ++ EF c :: u3) = EF a :: proj [a; c] (u2 ++ EF c :: u3)).
  { unfold proj. cbn [filter ev_tag memN existsb]. now rewrite N.eqb_refl. }
  rewrite Pa in S. destruct (serial2_next a c _ _ a _ S eq_refl) as (q' & Eq).
  rewrite proj_app in Eq.
  destruct (proj [a; c] u2) as [|e r] eqn:P2.
  - exfalso. cbn [app] in Eq. unfold proj in Eq. cbn [filter ev_tag memN existsb] in Eq. rewrite N.eqb_refl, orb_true_r in Eq.
    inversion Eq.
  - cbn [app] in Eq. inversion Eq; subst e. assert (In (ER a) (proj [a; c] u2)) by (rewrite P2; now left).
    apply proj_In' in H. tauto.
Qed.

(* ---------------- tags of the tree ---------------- *)

Definition inner_tags (r : reg) : list N :=
  match r with RBatch _ _ _ _ _ _ _ inner => tree_tags inner | _ => [] end.
Definition deep_tags (rs : list reg) : list N := concat (map inner_tags rs).

Lemma tree_perm rs : Permutation (tree_tags rs) ((sys_tags rs ++ tl_tags rs) ++ deep_tags rs).
Proof.
  unfold tree_tags, deep_tags. induction rs as [|r rs IH]; [constructor|].
  destruct r as [t nm deps rd wr tm|t nm deps cr cw tm cnt inner|t|]; cbn [map concat sys_tags tl_tags reg_tag inner_tags].
  - cbn [subtree_tags app]. now apply perm_skip.
  - rewrite subtree_tags_batch. cbn [app]. apply perm_skip. fold (tree_tags inner).
    etransitivity; [apply Permutation_app_head; exact IH|]. apply Permutation_app_swap_app.
  - cbn [subtree_tags app]. etransitivity; [apply perm_skip; exact IH|].
    rewrite <- !app_assoc. apply Permutation_middle.
  - cbn [subtree_tags app]. exact IH.
Qed.

Lemma nd_level rs : NoDup (tree_tags rs) -> NoDup (sys_tags rs ++ tl_tags rs).
Proof. intros ND. eapply NoDup_app_remove_r. eapply Permutation_NoDup; [apply tree_perm|exact ND]. Qed.

Lemma nd_app_disj' {A} (a c : list A) x : NoDup (a ++ c) -> In x a -> ~ In x c.
Proof.
  induction a as [|y a IH]; cbn; intros H Hin; [destruct Hin|]. inversion H as [|? ? Hn ND]; subst.
  destruct Hin as [->|Hin]; [|auto]. intros Hc. apply Hn. apply in_or_app. now right.
Qed.

Lemma nd_concat_member {A} (ls : list (list A)) l : NoDup (concat ls) -> In l ls -> NoDup l.
Proof.
  induction ls as [|x ls IH]; intros ND Hin; [destruct Hin|]. cbn in ND. destruct Hin as [->|Hin].
  - eapply NoDup_app_remove_r; eauto.
  - apply IH; auto. eapply NoDup_app_remove_l; eauto.
Qed.

(* two different elements of the program have disjoint subtrees *)
Lemma nd_concat_unique {A} (ls : list (list A)) : NoDup (concat ls) ->
  forall i j l1 l2 x, nth_error ls i = Some l1 -> nth_error ls j = Some l2 -> In x l1 -> In x l2 -> i = j.
Proof.
  induction ls as [|l ls IH]; intros ND i j l1 l2 x Hi Hj H1 H2; [destruct i; discriminate|]. cbn in ND.
  destruct i as [|i], j as [|j]; cbn in Hi, Hj; auto.
  - inversion Hi; subst. exfalso. apply (nd_app_disj' _ _ x ND H1). apply in_concat. exists l2. split; auto. eapply nth_error_In; eauto.
  - inversion Hj; subst. exfalso. apply (nd_app_disj' _ _ x ND H2). apply in_concat. exists l1. split; auto. eapply nth_error_In; eauto.
  - f_equal. eapply (IH (NoDup_app_remove_l _ _ ND)); eauto.
Qed.

Lemma top_unique rs r1 r2 x : NoDup (tree_tags rs) -> In r1 rs -> In r2 rs ->
  In x (subtree_tags r1) -> In x (subtree_tags r2) -> r1 = r2.
Proof.
  intros ND H1 H2 X1 X2. apply In_nth_error in H1. apply In_nth_error in H2. destruct H1 as (i & Hi). destruct H2 as (j & Hj).
  assert (i = j).
  { apply (nd_concat_unique (map subtree_tags rs) ND i j (subtree_tags r1) (subtree_tags r2) x); auto; now apply map_nth_error. }
  subst j. congruence.
Qed.

Lemma subtree_in_tree rs r x : In r rs -> In x (subtree_tags r) -> In x (tree_tags rs).
Proof. intros Hr Hx. unfold tree_tags. apply in_concat. exists (subtree_tags r). split; auto. now apply in_map. Qed.

Lemma tag_in_subtree r t : reg_tag r = Some t -> In t (subtree_tags r).
Proof. destruct r; cbn [reg_tag]; intros H; inversion H; subst; [now left|rewrite subtree_tags_batch; now left]. Qed.

Lemma sub_reg_tags r rs : sub_reg r rs -> forall x, In x (subtree_tags r) -> In x (tree_tags rs).
Proof.
  induction 1 as [r rs Hin|r rs t nm deps cr cw tm cnt inner Hin Hs IH]; intros x Hx.
  - eapply subtree_in_tree; eauto.
  - apply (subtree_in_tree rs (RBatch t nm deps cr cw tm cnt inner)); auto. rewrite subtree_tags_batch. right. now apply IH.
Qed.

Lemma batch_nd rs t nm deps cr cw tm cnt inner : NoDup (tree_tags rs) -> In (RBatch t nm deps cr cw tm cnt inner) rs ->
  NoDup (tree_tags inner) /\ ~ In t (tree_tags inner).
Proof.
  intros ND Hin. assert (N1 : NoDup (subtree_tags (RBatch t nm deps cr cw tm cnt inner))).
  { apply (nd_concat_member (map subtree_tags rs)); auto. now apply in_map. }
  rewrite subtree_tags_batch in N1. inversion N1; subst. auto.
Qed.

(* ---------------- access of what is inside is part of the access of the whole ---------------- *)

Lemma eff_in_batch t nm deps cr cw tm cnt inner r : In r inner ->
  incl (eff_reads r) (eff_reads (RBatch t nm deps cr cw tm cnt inner)) /\
  incl (eff_writes r) (eff_writes (RBatch t nm deps cr cw tm cnt inner)).
Proof.
  intros Hin. rewrite eff_reads_batch, eff_writes_batch. split; intros x Hx; apply in_or_app; right; apply in_concat.
  - exists (eff_reads r). split; auto. now apply in_map.
  - exists (eff_writes r). split; auto. now apply in_map.
Qed.

Lemma eff_sub r inner : sub_reg r inner -> forall t nm deps cr cw tm cnt,
  incl (eff_reads r) (eff_reads (RBatch t nm deps cr cw tm cnt inner)) /\
  incl (eff_writes r) (eff_writes (RBatch t nm deps cr cw tm cnt inner)).
Proof.
  induction 1 as [r rs Hin|r rs t' nm' deps' cr' cw' tm' cnt' inner' Hin Hs IH]; intros t nm deps cr cw tm cnt.
  - now apply eff_in_batch.
  - destruct (IH t' nm' deps' cr' cw' tm' cnt') as [A B].
    destruct (eff_in_batch t nm deps cr cw tm cnt rs _ Hin) as [C D]. split; intros x Hx; auto.
Qed.

Lemma rw_conflict_mono r1 w1 r2 w2 r1' w1' r2' w2' :
  incl r1 r1' -> incl w1 w1' -> incl r2 r2' -> incl w2 w2' ->
  rw_conflict r1 w1 r2 w2 = true -> rw_conflict r1' w1' r2' w2' = true.
Proof.
  intros A B C D H. destruct (rw_conflict r1' w1' r2' w2') eqn:E; auto.
  rewrite (rw_conflict_incl r1 w1 r2 w2 r1' w1' r2' w2' A B C D E) in H. discriminate.
Qed.

(* ---------------- the placed system of a top-level registration covers its whole subtree ---------------- *)

Lemma placed_covers rs b r t : plan rs = Ok b -> regs_times_ok rs -> In r rs -> reg_tag r = Some t ->
  exists s, In s (placed b) /\ s_tag s = t /\ incl (eff_reads r) (s_reads s) /\ incl (eff_writes r) (s_writes s).
Proof.
  intros H Ht Hr Tr. pose proof (regs_times_ok1 _ Ht) as Ht1.
  unfold plan in H. apply run_regs_ops in H. destruct H as (os & Hos & Hrun).
  destruct (run_ops_inv os empty_builder [] b binv_empty (regs_ops_times _ _ Hos Ht1) Hrun) as (done & I & Hm & _).
  cbn [app] in I.
  assert (Sy : is_sys r = true) by (unfold is_sys; now rewrite Tr).
  destruct (regs_ops_in rs os Hos r Hr Sy) as (a' & Ha' & Hin').
  destruct (batch_accessor_covers r a' (regs_times_in _ _ Ht Hr) Ha') as [C1 C2].
  destruct (OracleProps.reg_op_fields r a' Ha') as (T & _ & _).
  rewrite <- Hm in Hin'. apply in_map_iff in Hin'. destruct Hin' as (e & <- & He).
  pose proof (bi_entries _ _ I) as E. rewrite Forall_forall in E. specialize (E e He).
  exists (e_sys e). split; [|split; [|split]].
  - unfold placed. apply (Permutation_in _ (Permutation_sym (bi_perm _ _ I))). unfold syss. now apply in_map.
  - rewrite (eo_tag _ _ E). congruence.
  - rewrite (eo_reads _ _ E). intros x Hx. auto.
  - rewrite (eo_writes _ _ E). intros x Hx. auto.
Qed.

(* ---------------- projections, unique events ---------------- *)

Lemma filter_split (p : ev -> bool) : forall l a x r, filter p l = a ++ x :: r ->
  exists l1 l2, l = l1 ++ x :: l2 /\ filter p l1 = a /\ filter p l2 = r.
Proof.
  induction l as [|e l IH]; intros a x r H; [destruct a; discriminate|]. cbn [filter] in H. destruct (p e) eqn:P.
  - destruct a as [|y a]; cbn in H; inversion H; subst.
    + exists [], l. cbn. auto.
    + destruct (IH a x r H2) as (l1 & l2 & -> & F1 & F2). exists (y :: l1), l2. cbn [filter app]. rewrite P, F1. auto.
  - destruct (IH a x r H) as (l1 & l2 & -> & F1 & F2). exists (e :: l1), l2. cbn [filter app]. rewrite P. auto.
Qed.

Lemma precedes_proj tags x y tr : precedes x y (proj tags tr) -> precedes x y tr.
Proof.
  intros (a & b & c & E). unfold proj in E. destruct (filter_split _ _ _ _ _ E) as (l1 & l2 & -> & _ & F2).
  destruct (filter_split _ _ _ _ _ F2) as (m1 & m2 & -> & _ & _). exists l1, m1, m2. reflexivity.
Qed.

Lemma count_ev_proj' x tags tr : In (ev_tag x) tags -> count_ev x (proj tags tr) = count_ev x tr.
Proof.
  intros H. unfold count_ev, proj. f_equal. apply filter_filter_disj. intros e _ He. apply ev_eqb_eq in He. subst e.
  now apply memN_In.
Qed.

Lemma count_ev_app' x a c : count_ev x (a ++ c) = (count_ev x a + count_ev x c)%nat.
Proof. unfold count_ev. now rewrite filter_app, app_length. Qed.
Lemma count_ev_cons_same x l : count_ev x (x :: l) = S (count_ev x l).
Proof. unfold count_ev. cbn [filter]. assert (E : ev_eqb x x = true) by now apply ev_eqb_eq. now rewrite E. Qed.
Lemma count_ev_zero x l : count_ev x l = 0%nat -> ~ In x l.
Proof.
  unfold count_ev. intros H Hin. assert (In x (filter (ev_eqb x) l)) by (apply filter_In; split; auto; now apply ev_eqb_eq).
  destruct (filter (ev_eqb x) l); [destruct H0|discriminate].
Qed.

(* an event that occurs once splits the trace in one way only *)
Lemma once_split x tr x1 y1 x2 y2 : count_ev x tr = 1%nat -> tr = x1 ++ x :: y1 -> tr = x2 ++ x :: y2 -> x1 = x2 /\ y1 = y2.
Proof.
  intros C E1. subst tr. revert x2. induction x1 as [|a x1 IH]; intros x2 E2.
  - destruct x2 as [|b x2]; cbn in E2; inversion E2; subst; auto.
    exfalso. cbn [app] in C. rewrite count_ev_cons_same, count_ev_app', count_ev_cons_same in C. lia.
  - destruct x2 as [|b x2]; cbn in E2; inversion E2; subst.
    + exfalso. cbn [app] in C. rewrite count_ev_cons_same, count_ev_app', count_ev_cons_same in C. lia.
    + assert (C' : count_ev x (x1 ++ x :: y1) = 1%nat).
      { cbn [app] in C. unfold count_ev in *. cbn [filter] in C. destruct (ev_eqb x b) eqn:Eb; auto.
        apply ev_eqb_eq in Eb. subst b. exfalso. cbn [length] in C. rewrite filter_app in C. cbn [filter] in C.
        assert (X : ev_eqb x x = true) by now apply ev_eqb_eq. rewrite X, app_length in C. cbn [length] in C. lia. }
      destruct (IH C' x2 H1) as [-> ->]. auto.
Qed.

Lemma once_not_elsewhere x tr p q : count_ev x tr = 1%nat -> tr = p ++ x :: q -> ~ In x p /\ ~ In x q.
Proof.
  intros C ->. rewrite count_ev_app', count_ev_cons_same in C. split; apply count_ev_zero; lia.
Qed.

Lemma proj_ext A B l : (forall e, In e l -> memN (ev_tag e) A = memN (ev_tag e) B) -> proj A l = proj B l.
Proof.
  induction l as [|e l IH]; intros H; [reflexivity|]. unfold proj in *. cbn [filter]. rewrite (H e (or_introl eq_refl)).
  rewrite IH; auto. intros; apply H; now right.
Qed.

Lemma proj2_only_a a c l : (forall e, In e l -> ev_tag e <> c) -> proj [a; c] l = proj [a] l.
Proof.
  intros H. apply proj_ext. intros e He. cbn [memN existsb]. destruct (N.eqb_spec (ev_tag e) c) as [X|_]; [now elim (H e He)|].
  now rewrite !orb_false_r.
Qed.
Lemma proj2_only_c a c l : (forall e, In e l -> ev_tag e <> a) -> proj [a; c] l = proj [c] l.
Proof.
  intros H. apply proj_ext. intros e He. cbn [memN existsb]. destruct (N.eqb_spec (ev_tag e) a) as [X|_]; [now elim (H e He)|].
  reflexivity.
Qed.

Lemma serial_embed_a a c l : serial2 a a l -> serial2 a c l.
Proof. induction 1; constructor; auto. Qed.
Lemma serial_embed_c a c l : serial2 c c l -> serial2 a c l.
Proof. induction 1; constructor; auto. Qed.

Lemma reps_lift (P : list ev -> Prop) (Q : list ev -> Prop) (f : list ev -> list ev) :
  Q [] -> (forall x y, Q x -> Q y -> Q (x ++ y)) -> (forall x y, f (x ++ y) = f x ++ f y) -> f [] = [] ->
  (forall t, P t -> Q (f t)) -> forall k runs, reps P k runs -> Q (f runs).
Proof.
  intros Q0 Qa Fa F0 H. induction k as [|k IH]; intros runs R; cbn in R.
  - subst. now rewrite F0.
  - destruct R as (t1 & t2 & P1 & R2 & ->). rewrite Fa. apply Qa; auto.
Qed.

(* ---------------- one level of a nested trace ---------------- *)

Definition wf (rs : list reg) : Prop := regs_times_ok rs /\ NoDup (tree_tags rs).

Lemma wf_inner rs t nm deps cr cw tm cnt inner : wf rs -> In (RBatch t nm deps cr cw tm cnt inner) rs -> wf inner.
Proof.
  intros [Ht ND] Hin. split; [|apply (batch_nd rs t nm deps cr cw tm cnt inner ND Hin)].
  pose proof (regs_times_in _ _ Ht Hin) as Hb. cbn [reg_times_ok] in Hb. destruct Hb as [_ Hi].
  change ((fix go (rs : list reg) : Prop := match rs with [] => True | r' :: rs' => reg_times_ok r' /\ go rs' end) inner)
    with (regs_times_ok inner) in Hi. exact Hi.
Qed.

Lemma in_sys_tags rs r t : In r rs -> reg_tag r = Some t -> In t (sys_tags rs).
Proof.
  induction rs as [|x rs IH]; intros Hin Tr; [destruct Hin|]. cbn [sys_tags]. destruct Hin as [->|Hin].
  - rewrite Tr. now left.
  - destruct (reg_tag x); [right|]; auto.
Qed.

Lemma precedes_proj_keep tags x y tr : precedes x y tr -> In (ev_tag x) tags -> In (ev_tag y) tags -> precedes x y (proj tags tr).
Proof.
  intros (a & b & c & ->) Hx Hy. exists (proj tags a), (proj tags b), (proj tags c).
  rewrite proj_app. unfold proj at 2. cbn [filter]. rewrite (proj2 (memN_In _ _) Hx). fold (proj tags (b ++ y :: c)).
  rewrite proj_app. unfold proj at 3. cbn [filter]. rewrite (proj2 (memN_In _ _) Hy). reflexivity.
Qed.

(* the events of a top-level system occur once, the fetch before the release *)
Lemma top_events rs b tr t : plan rs = Ok b -> wf rs ->
  traces_disp (layout_tags b) (b_tl b) (proj (sys_tags rs ++ tl_tags rs) tr) ->
  In t (sys_tags rs ++ tl_tags rs) ->
  count_ev (EF t) tr = 1%nat /\ count_ev (ER t) tr = 1%nat /\ precedes (EF t) (ER t) tr.
Proof.
  intros H [Ht ND] Tr Hin. pose proof (regs_times_ok1 _ Ht) as Ht1. pose proof (nd_level _ ND) as NDl.
  destruct (run_exactly_once rs b _ H Ht1 NDl Tr) as [C _]. destruct (C t Hin) as [C1 C2].
  assert (InR : In (ER t) (proj (sys_tags rs ++ tl_tags rs) tr)).
  { unfold count_ev in C2. destruct (filter (ev_eqb (ER t)) (proj (sys_tags rs ++ tl_tags rs) tr)) as [|e r] eqn:F; [discriminate|].
    assert (X : In e (filter (ev_eqb (ER t)) (proj (sys_tags rs ++ tl_tags rs) tr))) by (rewrite F; now left).
    apply filter_In in X. destruct X as [X1 X2]. apply ev_eqb_eq in X2. now subst e. }
  rewrite count_ev_proj' in C1, C2 by (cbn; auto). split; [auto|split; auto].
  apply (precedes_proj (sys_tags rs ++ tl_tags rs)). now apply (trace_windows _ _ _ Tr).
Qed.

Lemma own_events_outside tr t pre mid post : count_ev (EF t) tr = 1%nat -> count_ev (ER t) tr = 1%nat ->
  tr = pre ++ EF t :: mid ++ ER t :: post -> forall e, In e (pre ++ post) -> ev_tag e <> t.
Proof.
  intros C1 C2 E e He Ht.
  destruct (once_not_elsewhere (EF t) tr pre (mid ++ ER t :: post) C1 E) as [A1 A2].
  assert (E' : tr = (pre ++ EF t :: mid) ++ ER t :: post) by (rewrite E; now rewrite <- app_assoc).
  destruct (once_not_elsewhere (ER t) tr _ post C2 E') as [B1 B2].
  apply in_app_or in He. destruct e as [x|x]; cbn in Ht; subst x; destruct He as [He|He].
  - now apply A1. - apply A2. apply in_or_app. right. now right.
  - apply B1. apply in_or_app. now left. - now apply B2.
Qed.

Lemma inner_proj S I tr t pre mid post : tr = pre ++ EF t :: mid ++ ER t :: post ->
  (forall e, In e (pre ++ post) -> ~ In (ev_tag e) I) -> ~ In t I -> (forall x, In x S -> In x I) ->
  proj S tr = proj S (proj I mid).
Proof.
  intros -> Hout Ht Hs. rewrite proj_sub by exact Hs.
  rewrite proj_app. change (EF t :: mid ++ ER t :: post) with ([EF t] ++ mid ++ [ER t] ++ post). rewrite !proj_app.
  rewrite (proj_none S pre), (proj_none S post), (proj_none S [EF t]), (proj_none S [ER t]).
  - cbn [app]. now rewrite app_nil_r.
  - intros e [<-|[]] X. apply Ht. now apply Hs.
  - intros e [<-|[]] X. apply Ht. now apply Hs.
  - intros e He X. apply (Hout e); [apply in_or_app; now right|now apply Hs].
  - intros e He X. apply (Hout e); [apply in_or_app; now left|now apply Hs].
Qed.

(* the window of a top-level registration contains every event of its subtree *)
Lemma window_of_top n rs tr T t : ntr (S n) rs tr -> wf rs -> In T rs -> reg_tag T = Some t ->
  exists pre mid post, tr = pre ++ EF t :: mid ++ ER t :: post /\
    forall e, In e (pre ++ post) -> ~ In (ev_tag e) (subtree_tags T).
Proof.
  intros (b & H & Tr & All & Bat) W HT Tt.
  assert (Hl : In t (sys_tags rs ++ tl_tags rs)) by (apply in_or_app; left; eapply in_sys_tags; eauto).
  destruct (top_events rs b tr t H W Tr Hl) as (C1 & C2 & P).
  destruct T as [t' nm deps rd wr tm|t' nm deps cr cw tm cnt inner|t'|]; cbn [reg_tag] in Tt; inversion Tt; subst t'.
  - destruct P as (pre & mid & post & E). exists pre, mid, post. split; auto. intros e He [X|[]].
    apply (own_events_outside tr t pre mid post C1 C2 E e He). now symmetry.
  - destruct (Bat _ _ _ _ _ _ _ _ HT) as (pre & mid & post & E & Out & _). exists pre, mid, post. split; auto.
    intros e He X. rewrite subtree_tags_batch in X. destruct X as [X|X].
    + apply (own_events_outside tr t pre mid post C1 C2 E e He). now symmetry.
    + now apply (Out e He).
Qed.

(* ---------------- every system, at any depth: its own events are whole windows ---------------- *)

Lemma serial_single : forall n rs tr, ntr n rs tr -> wf rs ->
  forall r a, sub_reg r rs -> reg_tag r = Some a -> serial2 a a (proj [a] tr).
Proof.
  induction n as [|n IH]; intros rs tr N W r a Hs Ta; [destruct N|].
  pose proof N as N0. destruct N as (b & H & Tr & All & Bat).
  destruct Hs as [r rs Hin|r rs t nm deps cr cw tm cnt inner Hin Hs].
  - assert (Hl : In a (sys_tags rs ++ tl_tags rs)) by (apply in_or_app; left; eapply in_sys_tags; eauto).
    destruct (top_events rs b tr a H W Tr Hl) as (C1 & C2 & P).
    assert (E : proj [a] tr = [EF a; ER a]).
    { apply TreeAccept.leaf_trace. apply TreeAccept.o_once_spec. split.
      - intros x [<-|[]]. rewrite !count_ev_proj' by (cbn; auto). split; [auto|split; auto].
        apply precedes_before_in. apply precedes_proj_keep; auto; cbn; auto.
      - intros e He. apply proj_In' in He. tauto. }
    rewrite E. constructor. constructor.
  - destruct (Bat _ _ _ _ _ _ _ _ Hin) as (pre & mid & post & E & Out & R).
    destruct W as [Wt ND]. destruct (batch_nd rs t nm deps cr cw tm cnt inner ND Hin) as [NDi Hti].
    assert (Ai : In a (tree_tags inner)) by (apply (sub_reg_tags r inner Hs); now apply tag_in_subtree).
    rewrite (inner_proj [a] (tree_tags inner) tr t pre mid post E Out Hti) by (intros x [<-|[]]; exact Ai).
    apply (reps_lift (ntr n inner) (serial2 a a) (proj [a])) with (k := N.to_nat cnt); auto.
    + constructor.
    + intros; now apply serial2_app.
    + intros; apply proj_app.
    + intros t0 Ht0. apply (IH inner t0 Ht0 (wf_inner rs t nm deps cr cw tm cnt inner (conj Wt ND) Hin) r a Hs Ta).
Qed.

(* ---------------- two systems in different top-level subtrees ---------------- *)

Lemma proj_swap a c l : proj [a; c] l = proj [c; a] l.
Proof. apply proj_ext. intros e _. cbn [memN existsb]. rewrite !orb_false_r. apply orb_comm. Qed.

Lemma ordered_serial n rs b tr Ta Tc ta tc a c :
  ntr (S n) rs tr -> plan rs = Ok b -> wf rs ->
  traces_disp (layout_tags b) (b_tl b) (proj (sys_tags rs ++ tl_tags rs) tr) ->
  In Ta rs -> In Tc rs -> reg_tag Ta = Some ta -> reg_tag Tc = Some tc ->
  In a (subtree_tags Ta) -> In c (subtree_tags Tc) ->
  precedes (ER ta) (EF tc) tr ->
  proj [a; c] tr = proj [a] tr ++ proj [c] tr.
Proof.
  intros N H W Tr Ia Ic Tta Ttc Ha Hc P.
  assert (La : In ta (sys_tags rs ++ tl_tags rs)) by (apply in_or_app; left; apply (in_sys_tags rs Ta ta Ia Tta)).
  assert (Lc : In tc (sys_tags rs ++ tl_tags rs)) by (apply in_or_app; left; apply (in_sys_tags rs Tc tc Ic Ttc)).
  destruct (top_events rs b tr ta H W Tr La) as (_ & Ca2 & _).
  destruct (top_events rs b tr tc H W Tr Lc) as (Cc1 & _ & _).
  destruct (window_of_top n rs tr Ta ta N W Ia Tta) as (pa & ma & qa & Ea & Oa).
  destruct (window_of_top n rs tr Tc tc N W Ic Ttc) as (pc & mc & qc & Ec & Oc).
  destruct P as (x & y & z & E).
  assert (Ea' : tr = (pa ++ EF ta :: ma) ++ ER ta :: qa) by (rewrite Ea; now rewrite <- app_assoc).
  destruct (once_split (ER ta) tr _ _ _ _ Ca2 Ea' E) as [_ Eqa].
  assert (E' : tr = (x ++ ER ta :: y) ++ EF tc :: z) by (rewrite E; now rewrite <- app_assoc).
  destruct (once_split (EF tc) tr _ _ _ _ Cc1 Ec E') as [Epc _].
  (* tr = pc ++ EF tc :: z : no event of Tc's subtree in pc, none of Ta's in EF tc :: z *)
  assert (NoC : forall e, In e pc -> ev_tag e <> c).
  { intros e He X. apply (Oc e); [apply in_or_app; now left|now rewrite X]. }
  assert (NoA : forall e, In e (EF tc :: z) -> ev_tag e <> a).
  { intros e He X. apply (Oa e); [|now rewrite X]. apply in_or_app. right. rewrite Eqa. apply in_or_app. now right. }
  rewrite E'. rewrite <- Epc. rewrite !proj_app.
  rewrite (proj2_only_a a c pc NoC), (proj2_only_c a c _ NoA).
  rewrite (proj_none [a] (EF tc :: z)), (proj_none [c] pc).
  - now rewrite app_nil_r.
  - intros e He [X|[]]. now apply (NoC e He).
  - intros e He [X|[]]. now apply (NoA e He).
Qed.

Lemma cross_serial n rs tr Ta Tc ta tc a c :
  ntr (S n) rs tr -> wf rs -> In Ta rs -> In Tc rs -> reg_tag Ta = Some ta -> reg_tag Tc = Some tc -> ta <> tc ->
  reg_conflict Ta Tc = true -> In a (subtree_tags Ta) -> In c (subtree_tags Tc) ->
  serial2 a a (proj [a] tr) -> serial2 c c (proj [c] tr) -> serial2 a c (proj [a; c] tr).
Proof.
  intros N W Ia Ic Tta Ttc Hne Hconf Ha Hc Sa Sc. pose proof N as N0. destruct N as (b & H & Tr & _ & _).
  destruct W as [Wt ND]. pose proof (regs_times_ok1 _ Wt) as Ht1.
  destruct (placed_covers rs b Ta ta H Wt Ia Tta) as (sa & Psa & Tsa & Ra & Wa).
  destruct (placed_covers rs b Tc tc H Wt Ic Ttc) as (sc & Psc & Tsc & Rc & Wc).
  assert (SC : sys_conflict sa sc = true) by (unfold sys_conflict; eapply rw_conflict_mono; eauto).
  assert (NDs : NoDup (sys_tags rs)) by (eapply NoDup_app_remove_r; apply (nd_level _ ND)).
  destruct (run_conflicting_windows_disjoint rs b _ H Ht1 NDs Tr sa sc Psa Psc ltac:(congruence) SC) as [P|P];
    rewrite Tsa, Tsc in P; apply precedes_proj in P.
  - rewrite (ordered_serial n rs b tr Ta Tc ta tc a c N0 H (conj Wt ND) Tr Ia Ic Tta Ttc Ha Hc P).
    apply serial2_app; [now apply serial_embed_a|now apply serial_embed_c].
  - rewrite proj_swap. rewrite (ordered_serial n rs b tr Tc Ta tc ta c a N0 H (conj Wt ND) Tr Ic Ia Ttc Tta Hc Ha P).
    apply serial2_sym. apply serial2_app; [now apply serial_embed_a|now apply serial_embed_c].
Qed.

(* ---------------- C07, the whole tree ---------------- *)

(* In EVERY nested trace, for two systems (plain or batches) at ANY depth of the program whose declared
   accesses — including everything inside them — conflict, and neither of which contains the other:
   the events of the two form a sequence of whole windows; they never overlap. *)
Theorem nested_conflicting_serial : forall n rs tr, ntr n rs tr -> wf rs ->
  forall ra rc a c, sub_reg ra rs -> sub_reg rc rs -> reg_tag ra = Some a -> reg_tag rc = Some c ->
  ~ In a (subtree_tags rc) -> ~ In c (subtree_tags ra) -> reg_conflict ra rc = true ->
  serial2 a c (proj [a; c] tr).
Proof.
  induction n as [|n IH]; intros rs tr N W ra rc a c Sa Sc Ta Tc Na Nc Hconf; [destruct N|].
  pose proof (serial_single (S n) rs tr N W ra a Sa Ta) as Sga.
  pose proof (serial_single (S n) rs tr N W rc c Sc Tc) as Sgc.
  destruct W as [Wt ND].
  destruct Sa as [ra rs Ia|ra rs t1 nm1 deps1 cr1 cw1 tm1 cnt1 inner1 I1 S1];
  destruct Sc as [rc rs Ic|rc rs t2 nm2 deps2 cr2 cw2 tm2 cnt2 inner2 I2 S2].
  - (* both at the top *)
    apply (cross_serial n rs tr ra rc a c a c N (conj Wt ND) Ia Ic Ta Tc); auto using tag_in_subtree.
    intros ->. apply Na. now apply tag_in_subtree.
  - (* ra at the top, rc inside a batch *)
    set (B := RBatch t2 nm2 deps2 cr2 cw2 tm2 cnt2 inner2) in *.
    assert (Cin : In c (subtree_tags B)).
    { unfold B. rewrite subtree_tags_batch. right. apply (sub_reg_tags rc inner2 S2). now apply tag_in_subtree. }
    assert (Hne : a <> t2).
    { intros ->. assert (ra = B) by (apply (top_unique rs ra B t2 ND Ia I2); [now apply tag_in_subtree|unfold B; rewrite subtree_tags_batch; now left]).
      subst ra. now apply Nc. }
    apply (cross_serial n rs tr ra B a t2 a c N (conj Wt ND) Ia I2 Ta eq_refl Hne); auto using tag_in_subtree.
    destruct (eff_sub rc inner2 S2 t2 nm2 deps2 cr2 cw2 tm2 cnt2) as [X Y].
    unfold reg_conflict in *. eapply rw_conflict_mono; [| | | |exact Hconf]; auto using incl_refl.
  - set (B := RBatch t1 nm1 deps1 cr1 cw1 tm1 cnt1 inner1) in *.
    assert (Ain : In a (subtree_tags B)).
    { unfold B. rewrite subtree_tags_batch. right. apply (sub_reg_tags ra inner1 S1). now apply tag_in_subtree. }
    assert (Hne : t1 <> c).
    { intros ->. assert (rc = B) by (apply (top_unique rs rc B c ND Ic I1); [now apply tag_in_subtree|unfold B; rewrite subtree_tags_batch; now left]).
      subst rc. now apply Na. }
    apply (cross_serial n rs tr B rc t1 c a c N (conj Wt ND) I1 Ic eq_refl Tc Hne); auto using tag_in_subtree.
    destruct (eff_sub ra inner1 S1 t1 nm1 deps1 cr1 cw1 tm1 cnt1) as [X Y].
    unfold reg_conflict in *. eapply rw_conflict_mono; [| | | |exact Hconf]; auto using incl_refl.
  - set (B1 := RBatch t1 nm1 deps1 cr1 cw1 tm1 cnt1 inner1) in *. set (B2 := RBatch t2 nm2 deps2 cr2 cw2 tm2 cnt2 inner2) in *.
    assert (Ain : In a (tree_tags inner1)) by (apply (sub_reg_tags ra inner1 S1); now apply tag_in_subtree).
    assert (Cin : In c (tree_tags inner2)) by (apply (sub_reg_tags rc inner2 S2); now apply tag_in_subtree).
    destruct (N.eq_dec t1 t2) as [Et|Hne].
    + (* the same batch: look inside *)
      assert (EB : B1 = B2) by (apply (top_unique rs B1 B2 t1 ND I1 I2); unfold B1, B2; rewrite subtree_tags_batch; [now left|left; congruence]).
      unfold B1, B2 in EB. inversion EB; subst. clear EB.
      destruct N as (b & H & Tr & All & Bat).
      destruct (Bat _ _ _ _ _ _ _ _ I1) as (pre & mid & post & E & Out & R).
      destruct (batch_nd rs _ _ _ _ _ _ _ _ ND I1) as [NDi Hti].
      rewrite (inner_proj [a; c] (tree_tags inner2) tr t2 pre mid post E Out Hti) by (intros x [<-|[<-|[]]]; auto).
      apply (reps_lift (ntr n inner2) (serial2 a c) (proj [a; c])) with (k := N.to_nat cnt2); auto.
      * constructor.
      * intros; now apply serial2_app.
      * intros; apply proj_app.
      * intros t0 Ht0. apply (IH inner2 t0 Ht0 (wf_inner rs _ _ _ _ _ _ _ _ (conj Wt ND) I1) ra rc a c); auto.
    + apply (cross_serial n rs tr B1 B2 t1 t2 a c N (conj Wt ND) I1 I2 eq_refl eq_refl Hne).
      * destruct (eff_sub ra inner1 S1 t1 nm1 deps1 cr1 cw1 tm1 cnt1) as [X1 Y1].
        destruct (eff_sub rc inner2 S2 t2 nm2 deps2 cr2 cw2 tm2 cnt2) as [X2 Y2].
        unfold reg_conflict in *. eapply rw_conflict_mono; [| | | |exact Hconf]; auto.
      * unfold B1. rewrite subtree_tags_batch. now right.
      * unfold B2. rewrite subtree_tags_batch. now right.
      * exact Sga.
      * exact Sgc.
Qed.

(* ... in the form of the run-time oracle: neither is ever fetched while the window of the other is open *)
Corollary nested_conflicting_never_overlap n rs tr : ntr n rs tr -> wf rs ->
  forall ra rc a c, sub_reg ra rs -> sub_reg rc rs -> reg_tag ra = Some a -> reg_tag rc = Some c ->
  ~ In a (subtree_tags rc) -> ~ In c (subtree_tags ra) -> reg_conflict ra rc = true ->
  forall u1 u2 u3, tr = u1 ++ EF a :: u2 ++ EF c :: u3 -> In (ER a) u2.
Proof.
  intros N W ra rc a c Sa Sc Ta Tc Na Nc Hc u1 u2 u3 E.
  assert (Hne : a <> c) by (intros ->; apply Na; now apply tag_in_subtree).
  apply (serial2_no_overlap a c tr Hne (nested_conflicting_serial n rs tr N W ra rc a c Sa Sc Ta Tc Na Nc Hc) u1 u2 u3 E).
Qed.

(* ---------------- the definition is inhabited: a batch dispatched twice beside another system ---------------- *)

Fixpoint nodupb (l : list N) : bool := match l with [] => true | x :: r => negb (memN x r) && nodupb r end.
Lemma nodup_dec_true (l : list N) : nodupb l = true -> NoDup l.
Proof.
  induction l as [|x r IH]; cbn [nodupb]; intros H; constructor; apply andb_true_iff in H; destruct H as [H1 H2]; auto.
  apply negb_true_iff in H1. now apply memN_false.
Qed.

Lemma filter_all_id {A} (p : A -> bool) l : (forall x, In x l -> p x = true) -> filter p l = l.
Proof. induction l as [|x l IH]; intros H; cbn; auto. rewrite (H x (or_introl eq_refl)), IH; auto. intros; apply H; now right. Qed.

Example ntr_example :
  let inner := [RSys 2 [] [] [] [8] 1%Z; RSys 3 [] [] [9] [] 1%Z] in
  let rs := [RBatch 1 [] [] [] [] 5%Z 2 inner; RSys 4 [] [] [] [7] 3%Z] in
  ntr 2 rs [EF 1; EF 4; EF 2; EF 3; ER 2; ER 3; ER 4; EF 3; ER 3; EF 2; ER 2; ER 1].
Proof.
  cbn zeta. cbn [ntr].
  assert (INNER : forall t0, accept_disp [[[2]; [3]]] [] t0 = true ->
            ntr 1 [RSys 2 [] [] [] [8] 1%Z; RSys 3 [] [] [9] [] 1%Z] t0).
  { intros t0 A. cbn [ntr]. eexists. split; [vm_compute; reflexivity|]. split; [|split].
    - apply accept_sound in A; [|apply nodup_dec_true; vm_compute; reflexivity].
      assert (P : proj (sys_tags [RSys 2 [] [] [] [8] 1%Z; RSys 3 [] [] [9] [] 1%Z] ++ tl_tags [RSys 2 [] [] [] [8] 1%Z; RSys 3 [] [] [9] [] 1%Z]) t0 = t0).
      { unfold proj. apply filter_all_id. intros e He.
        destruct A as (t1 & S & ->). rewrite app_nil_r in He. apply (staged_In _ _ e S) in He. apply memN_In. exact He. }
      rewrite P. exact A.
    - intros e He. apply accept_sound in A; [|apply nodup_dec_true; vm_compute; reflexivity].
      destruct A as (t1 & S & ->). rewrite app_nil_r in He. apply (staged_In _ _ e S) in He. exact He.
    - intros t nm deps cr cw tm cnt inner [X|[X|[]]]; discriminate. }
  eexists. split; [vm_compute; reflexivity|]. split; [|split].
  - apply accept_sound; [apply nodup_dec_true; vm_compute; reflexivity|vm_compute; reflexivity].
  - intros e He. apply memN_In. revert e He. apply Forall_forall. repeat constructor.
  - intros t nm deps cr cw tm cnt inner [X|[X|[]]]; [|discriminate]. inversion X; subst.
    exists [], [EF 4; EF 2; EF 3; ER 2; ER 3; ER 4; EF 3; ER 3; EF 2; ER 2], []. split; [reflexivity|]. split.
    + intros e [].
    + exists [EF 2; EF 3; ER 2; ER 3], [EF 3; ER 3; EF 2; ER 2]. split; [apply INNER; vm_compute; reflexivity|]. split; [|vm_compute; reflexivity].
      exists [EF 3; ER 3; EF 2; ER 2], []. split; [apply INNER; vm_compute; reflexivity|]. split; reflexivity.
Qed.
