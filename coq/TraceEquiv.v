(* TraceEquiv.v — C05 in its most general form: the final world depends only on the relative order in which
   CONFLICTING systems ran (and on how often each ran).  Two run orders — of any length, with repetitions, at any
   nesting — that agree, for every pair of conflicting systems and for every single system, on the projection onto
   that pair, end in the same world.  (Mazurkiewicz' projection lemma for the dependence relation `conflict`.) *)
From Shred Require Import Base Plan PlanLemmas Exec ExecProps Confluence.
From Coq Require Import Permutation.
Open Scope N_scope.

Section Equiv.
  Variable V : Type.
  Variable R W : N -> list N.
  Variable f : N -> world V -> world V.

  Definition pproj (a b : N) (l : list N) : list N := filter (fun x => (x =? a) || (x =? b)) l.
  Definition dep (a b : N) : Prop := a = b \/ rw_conflict (R a) (W a) (R b) (W b) = true.

  Lemma pproj_app a b l1 l2 : pproj a b (l1 ++ l2) = pproj a b l1 ++ pproj a b l2.
  Proof. apply filter_app. Qed.

  Lemma in_split_first (x : N) l : In x l -> exists l1 l2, l = l1 ++ x :: l2 /\ ~ In x l1.
  Proof.
    induction l as [|y l IH]; intros H; [destruct H|]. destruct (N.eq_dec y x) as [->|Hne].
    - exists [], l. split; auto.
    - destruct H as [E|H]; [congruence|]. destruct (IH H) as (l1 & l2 & -> & Hn). exists (y :: l1), l2. split; auto.
      intros [E|X]; [congruence|auto].
  Qed.

  Lemma pproj_nil a b l : (forall x, In x l -> x <> a /\ x <> b) -> pproj a b l = [].
  Proof.
    induction l as [|y l IH]; intros H; [reflexivity|]. unfold pproj in *. cbn [filter].
    destruct (H y (or_introl eq_refl)) as [Ha Hb]. rewrite (proj2 (N.eqb_neq _ _) Ha), (proj2 (N.eqb_neq _ _) Hb). cbn [orb].
    apply IH. intros; apply H; now right.
  Qed.

  (* the first element of v1 ++ a :: v2 that is x or a, when x occurs in v1 and a does not *)
  Lemma pproj_head x a v1 rest : In x v1 -> ~ In a v1 -> exists t, pproj x a (v1 ++ rest) = x :: t.
  Proof.
    induction v1 as [|y v1 IH]; intros Hx Ha; [destruct Hx|]. unfold pproj in *. cbn [app filter].
    destruct (N.eqb_spec y x) as [->|Hyx]; cbn [orb]; [eauto|].
    destruct (N.eqb_spec y a) as [->|Hya]; [exfalso; apply Ha; now left|]. cbn [orb].
    destruct Hx as [E|Hx]; [congruence|]. apply IH; auto. intros X. apply Ha. now right.
  Qed.

  Theorem same_conflict_order : forall u v,
    Forall (respects V R W f) u -> Forall (respects V R W f) v ->
    (forall a b, dep a b -> pproj a b u = pproj a b v) ->
    forall w, weq V (run V f u w) (run V f v w).
  Proof.
    induction u as [|a u IH]; intros v Hu Hv Hp w.
    - destruct v as [|x v]; [intros k; reflexivity|]. exfalso.
      specialize (Hp x x (or_introl eq_refl)). unfold pproj in Hp. cbn [filter] in Hp. rewrite N.eqb_refl in Hp. discriminate.
    - inversion Hu as [|? ? Ha Hu']; subst.
      assert (Hin : In a v).
      { specialize (Hp a a (or_introl eq_refl)). unfold pproj in Hp. cbn [filter] in Hp. rewrite N.eqb_refl in Hp. cbn [orb] in Hp.
        assert (X : In a (filter (fun x => (x =? a) || (x =? a)) v)) by (rewrite <- Hp; now left). apply filter_In in X. tauto. }
      destruct (in_split_first a v Hin) as (v1 & v2 & -> & Hn).
      apply Forall_app in Hv. destruct Hv as [Hv1 Hv2]. inversion Hv2 as [|? ? _ Hv2']; subst.
      (* everything in front of the first a in v commutes with a *)
      assert (NC : forall x, In x v1 -> noconf R W x a).
      { intros x Hx. unfold noconf. destruct (rw_conflict (R x) (W x) (R a) (W a)) eqn:C; auto. exfalso.
        specialize (Hp x a (or_intror C)). destruct (pproj_head x a v1 (a :: v2) Hx Hn) as (t & E). rewrite E in Hp.
        unfold pproj in Hp. cbn [filter] in Hp. rewrite N.eqb_refl, orb_true_r in Hp. inversion Hp; subst. contradiction. }
      (* the rest agrees on every dependent pair *)
      assert (Hp' : forall b c, dep b c -> pproj b c u = pproj b c (v1 ++ v2)).
      { intros b c D. specialize (Hp b c D). rewrite pproj_app in *. unfold pproj in Hp at 1 3. cbn [filter] in Hp. fold (pproj b c u) in Hp. fold (pproj b c v2) in Hp.
        destruct ((a =? b) || (a =? c)) eqn:E.
        - assert (Z : pproj b c v1 = []).
          { apply pproj_nil. intros x Hx. split; intros ->.
            - (* x = b in v1: then a = c (a <> b as a is not in v1) and b, c = a are dependent but commute *)
              apply orb_true_iff in E. destruct E as [E|E]; apply N.eqb_eq in E; subst; [contradiction|].
              specialize (NC _ Hx). unfold noconf in NC. destruct D as [->|D]; [contradiction|congruence].
            - apply orb_true_iff in E. destruct E as [E|E]; apply N.eqb_eq in E; subst; [|contradiction].
              specialize (NC _ Hx). unfold noconf in NC. destruct D as [->|D]; [contradiction|]. rewrite rw_conflict_sym in D. congruence. }
          rewrite Z in *. cbn [app] in Hp. now inversion Hp.
        - exact Hp. }
      cbn [run fold_left]. fold (run V f u (f a w)).
      eapply weq_trans; [apply (IH (v1 ++ v2)); auto; apply Forall_app; auto|].
      apply weq_sym. fold (run V f (a :: v1 ++ v2) w) in *.
      change (run V f (v1 ++ v2) (f a w)) with (run V f (a :: v1 ++ v2) w).
      apply (move_front V R W f a v1 v2); auto.
  Qed.
End Equiv.
