(* MetaIterAll.v — C17/C08: an iteration that completes has yielded EVERY registered type that is present, in
   order — whatever is borrowed.  A present but conflictingly borrowed resource therefore makes the pass end in a
   panic; it is never skipped silently and never handed out. *)
From Shred Require Import Base Plan PlanLemmas World WorldProps WorldMap Meta MetaProps.
Open Scope N_scope.

Definition fst3 (x : N * N * N) : N := fst (fst x).

(* the steps an iterator takes do not change which resources are present *)
Lemma fetch_presence w fk ty k k' : presentb (fst (step w (OFetchOp fk ty k))) k' = presentb w k'.
Proof.
  unfold presentb. cbn [step]. destruct (negb (ty =? fst k)); [reflexivity|]. destruct (lookup k (cells w)) as [c|] eqn:L; [|reflexivity].
  destruct (acquire (c_b c) (fk_excl fk)); [|reflexivity]. cbn [fst cells]. rewrite lookup_update.
  destruct (key_eqb (k', 0) k) eqn:E; [|reflexivity]. apply key_eqb_eq in E. subst k. now rewrite L.
Qed.
Lemma write_presence w g p k' : presentb (fst (step w (OWrite g p))) k' = presentb w k'.
Proof.
  unfold presentb. cbn [step]. destruct (find_guard g (guards w)) as [x|]; [|reflexivity]. destruct (negb (g_excl x)); [reflexivity|].
  destruct (lookup (g_key x) (cells w)) as [c|] eqn:L; [|reflexivity]. unfold set_cells. cbn [fst cells]. rewrite lookup_update.
  destruct (key_eqb (k', 0) (g_key x)) eqn:E; [|reflexivity]. apply key_eqb_eq in E. rewrite <- E in L. now rewrite L.
Qed.

Lemma iter_walk_complete bad excl : forall tys fns w acc gs w' gs' l,
  iter_walk bad excl fns tys w acc gs = (w', gs', inl l) ->
  map fst3 l = map fst3 acc ++ filter (presentb w) tys.
Proof.
  induction tys as [|ty tys IH]; intros fns w acc gs w' gs' l H.
  - destruct fns; cbn in H; inversion H; subst; now rewrite app_nil_r.
  - destruct fns as [|fn fns]; [cbn in H; discriminate|]. cbn [iter_walk] in H. cbn [filter]. unfold presentb at 1.
    destruct (lookup (ty, 0) (cells w)) as [c|] eqn:L; [|eapply IH; eauto].
    pose proof (fetch_presence w (if excl then FTryMutById else FTryById) ty (ty, 0)) as P1.
    destruct (step w (OFetchOp (if excl then FTryMutById else FTryById) ty (ty, 0))) as [w1 out] eqn:S. cbn [fst] in P1.
    destruct out as [|b|v| |g|k]; try discriminate.
    destruct (memN fn bad); [discriminate|].
    set (w2 := if excl then match lookup (ty, 0) (cells w1) with Some c0 => fst (step w1 (OWrite g (snd (c_val c0) + 1))) | None => w1 end else w1) in *.
    assert (P2 : forall k', presentb w2 k' = presentb w k').
    { intros k'. unfold w2. destruct excl; [|apply P1]. destruct (lookup (ty, 0) (cells w1)); [|apply P1]. rewrite write_presence. apply P1. }
    rewrite (IH _ _ _ _ _ _ _ H). rewrite map_app. cbn [map fst3 fst]. rewrite <- app_assoc. cbn [app]. f_equal. f_equal.
    apply filter_ext. exact P2.
Qed.

(* C17 / C08: a completed pass of iter or iter_mut over the table lists every registered present type once, in
   first-registration order — for ANY state of the borrow flags and any live guards *)
Theorem completed_iteration_skips_nothing bad excl regs t w w' gs l :
  reg_all empty_table regs = Ok t ->
  iter_walk bad excl (m_fns t) (m_tys t) w [] [] = (w', gs, inl l) ->
  map fst3 l = filter (presentb w) (dedup_first [] regs).
Proof.
  intros R H. destruct (reg_all_inv regs empty_table tinv_empty) as (t' & R' & It & Et). rewrite R in R'. inversion R'; subst t'.
  cbn [m_tys empty_table app] in Et. rewrite <- Et. apply (iter_walk_complete bad excl _ _ _ _ _ _ _ _ H).
Qed.
