(* TraceOracles.v — what the executable oracles that suite S2 evaluates on every RECORDED trace
   mean, as propositions about that trace (no model involved: if the oracle says `true`, the
   recorded run itself has the property). *)
From Shred Require Import Base Plan PlanLemmas Exec ExecProps.
Open Scope N_scope.

(* ---------------- C02 / C03: o_preds_done ---------------- *)

Lemma preds_done_spec mp : forall tr closed, preds_done mp closed tr = true ->
  forall t1 t t2, tr = t1 ++ EF t :: t2 -> forall d, In d (mp t) -> In d closed \/ In (ER d) t1.
Proof.
  induction tr as [|e r IH]; intros closed H t1 t t2 E d Hd; [destruct t1; discriminate|].
  destruct e as [x|x]; cbn [preds_done] in H.
  - apply andb_true_iff in H. destruct H as [H1 H2]. destruct t1 as [|y t1]; cbn in E; inversion E; subst.
    + left. rewrite forallb_forall in H1. apply memN_In. auto.
    + destruct (IH closed H2 t1 t t2 eq_refl d Hd) as [A|A]; [now left|right; now right].
  - destruct t1 as [|y t1]; cbn in E; inversion E; subst.
    destruct (IH (x :: closed) H t1 t t2 eq_refl d Hd) as [[<-|A]|A]; [right; now left|now left|right; now right].
Qed.

(* whenever a system is fetched, everything that must precede it has been released before *)
Theorem o_preds_done_meaning mp tr : o_preds_done mp tr = true ->
  forall t1 t t2, tr = t1 ++ EF t :: t2 -> forall d, In d (mp t) -> In (ER d) t1.
Proof.
  intros H t1 t t2 E d Hd. destruct (preds_done_spec mp tr [] H t1 t t2 E d Hd) as [[]|A]; exact A.
Qed.

Corollary o_preds_done_precedes mp tr : o_preds_done mp tr = true ->
  forall t d, In (EF t) tr -> In d (mp t) -> precedes (ER d) (EF t) tr.
Proof.
  intros H t d Hin Hd. apply in_split in Hin. destruct Hin as (t1 & t2 & E).
  pose proof (o_preds_done_meaning mp tr H t1 t t2 E d Hd) as A. apply in_split in A. destruct A as (u1 & u2 & ->).
  exists u1, u2, t2. rewrite E. now rewrite <- app_assoc.
Qed.

(* ---------------- C01 / C07: o_no_overlap ---------------- *)

(* the windows that are open after a prefix *)
Fixpoint open_after (open : list N) (tr : list ev) : list N :=
  match tr with
  | [] => open
  | EF t :: r => open_after (t :: open) r
  | ER t :: r => open_after (filter (fun o => negb (o =? t)) open) r
  end.

Lemma no_overlap_spec conflict : forall tr open, no_overlap conflict open tr = true ->
  forall t1 t t2, tr = t1 ++ EF t :: t2 -> forall o, In o (open_after open t1) -> conflict o t = false.
Proof.
  induction tr as [|e r IH]; intros open H t1 t t2 E o Ho; [destruct t1; discriminate|].
  destruct e as [x|x]; cbn [no_overlap] in H.
  - apply andb_true_iff in H. destruct H as [H1 H2]. destruct t1 as [|y t1]; cbn in E; inversion E; subst.
    + cbn in Ho. rewrite forallb_forall in H1. apply negb_true_iff. auto.
    + cbn [open_after] in Ho. eapply IH; eauto.
  - destruct t1 as [|y t1]; cbn in E; inversion E; subst. cbn [open_after] in Ho. eapply IH; eauto.
Qed.

(* a window fetched in the prefix and not released in it is open *)
Lemma open_after_in : forall t1 open o, In o open -> ~ In (ER o) t1 -> In o (open_after open t1).
Proof.
  induction t1 as [|e r IH]; intros open o Ho Hn; [exact Ho|]. destruct e as [x|x]; cbn [open_after].
  - apply IH; [now right|]. intros X. apply Hn. now right.
  - apply IH.
    + apply filter_In. split; auto. apply negb_true_iff. apply N.eqb_neq. intros ->. apply Hn. now left.
    + intros X. apply Hn. now right.
Qed.
Lemma open_after_fetched : forall u1 open o u2, ~ In (ER o) u2 -> In o (open_after open (u1 ++ EF o :: u2)).
Proof.
  induction u1 as [|e r IH]; intros open o u2 Hn.
  - cbn [app open_after]. apply open_after_in; [now left|exact Hn].
  - destruct e; cbn [app open_after]; apply IH; auto.
Qed.

(* C01 on the recorded run itself: if [c] is fetched while the window of [a] is open, they do not conflict *)
Theorem o_no_overlap_meaning conflict tr : o_no_overlap conflict tr = true ->
  forall u1 a u2 c u3, tr = u1 ++ EF a :: u2 ++ EF c :: u3 -> ~ In (ER a) u2 -> conflict a c = false.
Proof.
  intros H u1 a u2 c u3 E Hn.
  apply (no_overlap_spec conflict tr [] H (u1 ++ EF a :: u2) c u3).
  - rewrite E. rewrite <- app_assoc. reflexivity.
  - now apply open_after_fetched.
Qed.

(* ... hence conflicting windows are disjoint: one is released before the other is fetched *)
Corollary o_no_overlap_disjoint conflict tr : o_no_overlap conflict tr = true ->
  forall u1 a u2 c u3, tr = u1 ++ EF a :: u2 ++ EF c :: u3 -> conflict a c = true -> In (ER a) u2.
Proof.
  intros H u1 a u2 c u3 E Hc. destruct (existsb (ev_eqb (ER a)) u2) eqn:X.
  - apply existsb_exists in X. destruct X as (e & He & Ee). apply ev_eqb_eq in Ee. now subst e.
  - assert (Hn : ~ In (ER a) u2).
    { intros Hin. assert (Y : existsb (ev_eqb (ER a)) u2 = true) by (apply existsb_exists; exists (ER a); split; auto; now apply ev_eqb_eq).
      congruence. }
    rewrite (o_no_overlap_meaning conflict tr H u1 a u2 c u3 E Hn) in Hc. discriminate.
Qed.

(* ---------------- C12: o_tl_last ---------------- *)

Theorem o_tl_last_meaning tl tr : o_tl_last tl tr = true ->
  exists pre, tr = pre ++ group_trace tl /\ forall e, In e pre -> ~ In (ev_tag e) tl.
Proof.
  unfold o_tl_last. intros H. apply andb_true_iff in H. destruct H as [H1 H2].
  apply list_eqb_ev in H1. exists (firstn (length tr - 2 * length tl) tr). split.
  - rewrite <- H1. now rewrite firstn_skipn.
  - intros e He. rewrite forallb_forall in H2. specialize (H2 e He). apply negb_true_iff in H2. now apply memN_false.
Qed.


(* ================= the converse direction: the oracles hold on well-formed traces with the property ================= *)

Lemma nodup_split_unique {A} (l x1 y1 x2 y2 : list A) e : NoDup l -> l = x1 ++ e :: y1 -> l = x2 ++ e :: y2 -> x1 = x2 /\ y1 = y2.
Proof.
  intros ND E1. subst l. revert x2. induction x1 as [|a x1 IH]; intros x2 E2.
  - destruct x2 as [|b x2]; cbn in E2; inversion E2; subst; auto.
    exfalso. cbn in ND. inversion ND as [|? ? Hn _]; subst. apply Hn. apply in_or_app. right. now left.
  - destruct x2 as [|b x2]; cbn in E2; inversion E2; subst.
    + exfalso. cbn in ND. inversion ND as [|? ? Hn _]; subst. apply Hn. apply in_or_app. right. now left.
    + cbn in ND. inversion ND as [|? ? _ ND']; subst. destruct (IH ND' x2 H1) as [-> ->]. auto.
Qed.

Lemma preds_done_intro mp : forall tr closed,
  (forall t1 t t2, tr = t1 ++ EF t :: t2 -> forall d, In d (mp t) -> In d closed \/ In (ER d) t1) ->
  preds_done mp closed tr = true.
Proof.
  induction tr as [|e r IH]; intros closed H; [reflexivity|]. destruct e as [x|x]; cbn [preds_done].
  - apply andb_true_iff. split.
    + apply forallb_forall. intros d Hd. apply memN_In. destruct (H [] x r eq_refl d Hd) as [A|[]]; exact A.
    + apply IH. intros t1 t t2 E d Hd. destruct (H (EF x :: t1) t t2 (f_equal (cons (EF x)) E) d Hd) as [A|[A|A]]; auto. discriminate.
  - apply IH. intros t1 t t2 E d Hd. destruct (H (ER x :: t1) t t2 (f_equal (cons (ER x)) E) d Hd) as [A|[A|A]]; auto.
    + left. right. exact A.
    + inversion A; subst. left. now left.
Qed.

(* a trace in which every event occurs once and every required predecessor is released before the
   fetch passes the oracle *)
Theorem o_preds_done_intro mp tr : NoDup tr ->
  (forall t d, In (EF t) tr -> In d (mp t) -> precedes (ER d) (EF t) tr) -> o_preds_done mp tr = true.
Proof.
  intros ND H. apply preds_done_intro. intros t1 t t2 E d Hd. right.
  assert (Hin : In (EF t) tr) by (rewrite E; apply in_or_app; right; now left).
  destruct (H t d Hin Hd) as (a & b & c & E2).
  assert (E2' : tr = (a ++ ER d :: b) ++ EF t :: c) by (rewrite E2; now rewrite <- app_assoc).
  destruct (nodup_split_unique tr t1 t2 (a ++ ER d :: b) c (EF t) ND E E2') as [-> _]. apply in_or_app. right. now left.
Qed.

Lemma open_after_app : forall p open q, open_after open (p ++ q) = open_after (open_after open p) q.
Proof. induction p as [|e p IH]; intros open q; [reflexivity|]. destruct e; cbn [app open_after]; apply IH. Qed.

Lemma open_after_char : forall pre open o, In o (open_after open pre) ->
  (In o open /\ ~ In (ER o) pre) \/ (exists u1 u2, pre = u1 ++ EF o :: u2 /\ ~ In (ER o) u2).
Proof.
  induction pre as [|e pre IH]; intros open o H; [left; split; auto|]. destruct e as [x|x]; cbn [open_after] in H.
  - destruct (IH _ _ H) as [[[<-|Ho] Hn]|(u1 & u2 & -> & Hn)].
    + right. exists [], pre. auto.
    + left. split; auto. intros [X|X]; [discriminate|auto].
    + right. exists (EF x :: u1), u2. auto.
  - destruct (IH _ _ H) as [[Ho Hn]|(u1 & u2 & -> & Hn)].
    + apply filter_In in Ho. destruct Ho as [Ho Hx]. apply negb_true_iff in Hx. apply N.eqb_neq in Hx.
      left. split; auto. intros [X|X]; [inversion X; congruence|auto].
    + right. exists (ER x :: u1), u2. auto.
Qed.

Lemma precedes_in_l x y t : precedes x y t -> In x t.
Proof. intros (a & b & c & ->). apply in_or_app. right. now left. Qed.
Lemma precedes_in_r x y t : precedes x y t -> In y t.
Proof. intros (a & b & c & ->). apply in_or_app. right. right. apply in_or_app. right. now left. Qed.

(* no event twice, every release after its fetch, conflicting windows disjoint: the oracle says true *)
Theorem o_no_overlap_intro conflict tr : NoDup tr ->
  (forall o, In (ER o) tr -> precedes (EF o) (ER o) tr) ->
  (forall a c, conflict a c = true -> a <> c -> In (EF a) tr -> In (EF c) tr ->
     precedes (ER a) (EF c) tr \/ precedes (ER c) (EF a) tr) ->
  o_no_overlap conflict tr = true.
Proof.
  intros ND WF DJ. unfold o_no_overlap.
  assert (G : forall suf pre, tr = pre ++ suf -> no_overlap conflict (open_after [] pre) suf = true).
  { induction suf as [|e r IH]; intros pre E; [reflexivity|]. destruct e as [t|t]; cbn [no_overlap].
    - apply andb_true_iff. split.
      + apply forallb_forall. intros o Ho. apply negb_true_iff. destruct (conflict o t) eqn:C; auto. exfalso.
        destruct (open_after_char _ _ _ Ho) as [[[] _]|(u1 & u2 & Ep & Hn)].
        assert (Io : In (EF o) tr) by (rewrite E, Ep; apply in_or_app; left; apply in_or_app; right; now left).
        assert (It : In (EF t) tr) by (rewrite E; apply in_or_app; right; now left).
        assert (Hne : o <> t).
        { intros ->. rewrite Ep in E. rewrite <- app_assoc in E. cbn [app] in E.
          assert (E' : tr = (u1 ++ EF t :: u2) ++ EF t :: r) by (rewrite E; now rewrite <- app_assoc).
          destruct (nodup_split_unique tr u1 (u2 ++ EF t :: r) (u1 ++ EF t :: u2) r (EF t) ND E E') as [X _].
          assert (L : length u1 = length (u1 ++ EF t :: u2)) by (now rewrite <- X). rewrite app_length in L. cbn in L. lia. }
        destruct (DJ o t C Hne Io It) as [P|P].
        * (* ER o before EF t: then ER o is in pre, hence after EF o, hence in u2 *)
          destruct P as (a & b & c & E2).
          assert (E2' : tr = (a ++ ER o :: b) ++ EF t :: c) by (rewrite E2; now rewrite <- app_assoc).
          destruct (nodup_split_unique tr pre r (a ++ ER o :: b) c (EF t) ND E E2') as [Epre _].
          assert (Ro : In (ER o) tr) by (rewrite E2; apply in_or_app; right; now left).
          destruct (WF o Ro) as (x & y & z & E3).
          (* EF o splits tr uniquely: u1 = x *)
          assert (E4 : tr = u1 ++ EF o :: (u2 ++ EF t :: r)) by (rewrite E, Ep; rewrite <- app_assoc; reflexivity).
          destruct (nodup_split_unique tr u1 (u2 ++ EF t :: r) x (y ++ ER o :: z) (EF o) ND E4 E3) as [-> Ey].
          (* ER o lies in y ++ ER o :: z = u2 ++ EF t :: r; it is in pre = x ++ EF o :: u2, so in u2 *)
          assert (Ipre : In (ER o) pre) by (rewrite Epre; apply in_or_app; right; now left).
          rewrite Ep in Ipre. apply in_app_or in Ipre. destruct Ipre as [I1|[I1|I1]]; [|discriminate|now apply Hn].
          (* ER o in x: twice in tr *)
          apply in_split in I1. destruct I1 as (p & q & ->). rewrite E3 in ND.
          replace ((p ++ ER o :: q) ++ EF o :: y ++ ER o :: z) with (p ++ ER o :: (q ++ EF o :: y ++ ER o :: z)) in ND
            by (now rewrite <- app_assoc).
          apply NoDup_remove_2 in ND. apply ND. apply in_or_app. right. apply in_or_app. right. right. apply in_or_app. right. now left.
        * (* ER t before EF o, which is before EF t: t released before fetched *)
          assert (Rt : In (ER t) tr) by (eapply precedes_in_l; eauto).
          destruct (WF t Rt) as (x & y & z & E3). destruct P as (a & b & c & E2).
          (* position of EF t: pre = x; position of ER t: a = x ++ EF t :: y; but EF o in pre comes after ER t *)
          destruct (nodup_split_unique tr pre r x (y ++ ER t :: z) (EF t) ND E E3) as [-> _].
          assert (E3' : tr = (x ++ EF t :: y) ++ ER t :: z) by (rewrite E3; now rewrite <- app_assoc).
          destruct (nodup_split_unique tr a (b ++ EF o :: c) (x ++ EF t :: y) z (ER t) ND E2 E3') as [-> Ez].
          (* EF o is in z, and in x: twice *)
          assert (Iz : In (EF o) z) by (rewrite <- Ez; apply in_or_app; right; now left).
          assert (Ix : In (EF o) x) by (rewrite Ep; apply in_or_app; right; now left).
          apply in_split in Ix. destruct Ix as (p & q & ->). rewrite E3 in ND.
          replace ((p ++ EF o :: q) ++ EF t :: y ++ ER t :: z) with (p ++ EF o :: (q ++ EF t :: y ++ ER t :: z)) in ND
            by (now rewrite <- app_assoc).
          apply NoDup_remove_2 in ND. apply ND. apply in_or_app. right. apply in_or_app. right. right. apply in_or_app. right. now right.
      + replace (t :: open_after [] pre) with (open_after [] (pre ++ [EF t])) by (rewrite open_after_app; reflexivity).
        apply IH. rewrite E. now rewrite <- app_assoc.
    - replace (filter (fun o => negb (o =? t)) (open_after [] pre)) with (open_after [] (pre ++ [ER t])) by (rewrite open_after_app; reflexivity).
      apply IH. rewrite E. now rewrite <- app_assoc. }
  apply (G tr []). reflexivity.
Qed.
