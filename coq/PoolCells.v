(* PoolCells.v — which thread pool does each dispatcher of a tree of nested batches end up with?
   (builder.rs: thread_pool cell of a builder, add_pool, add_batch, build; dispatcher: the cell is read at every
   dispatch).  A builder owns a shared cell (Arc<RwLock<Option<pool>>>).  add_pool writes through the cell.
   add_batch(sub) makes the sub-builder use the parent's cell and builds the sub-dispatcher at once (build fills an
   empty cell with a fresh default pool); the dispatchers of batches INSIDE sub were built earlier and still hold
   sub's old cell.  Since fix 94c4994 the parent remembers those cells ([nested]) and build writes its pool into them.
   The model is executable; the theorem says that after the outermost build EVERY dispatcher of the tree reads the
   outermost builder's pool.  The behaviour before the fix is kept as [run_old] with a refutation. *)
From Coq Require Import List Arith Lia Bool.
Import ListNotations.

(* pools: user pools are numbered by the caller; default pools get fresh numbers *)
Inductive pool := User (k : nat) | Default (k : nat).

(* what is done to one builder, in order *)
Inductive bop :=
| OpPool (k : nat)                 (* add_pool / with_pool *)
| OpBatch (sub : list bop).        (* add_batch of a sub-builder on which [sub] was done before *)

Definition cell := nat.
Definition store := list (cell * option pool).      (* later bindings first *)

Fixpoint sget (s : store) (c : cell) : option pool :=
  match s with
  | [] => None
  | (c', v) :: r => if Nat.eqb c c' then v else sget r c
  end.
Definition sset (s : store) (c : cell) (v : option pool) : store := (c, v) :: s.

(* a built dispatcher: the cell it reads at dispatch time, and the dispatchers of its batches *)
Inductive disp := Disp (c : cell) (batches : list disp).

Record st := mkSt { s_store : store; s_next_cell : nat; s_next_default : nat }.

(* build(): fill an empty cell with a fresh default pool, then (fix) hand the pool to the remembered cells *)
Definition fill (s : st) (c : cell) : st :=
  match sget (s_store s) c with
  | Some _ => s
  | None => mkSt (sset (s_store s) c (Some (Default (s_next_default s)))) (s_next_cell s) (S (s_next_default s))
  end.
Definition share (s : st) (c : cell) (nested : list cell) : st :=
  mkSt (fold_left (fun acc n => sset acc n (sget (s_store s) c)) nested (s_store s)) (s_next_cell s) (s_next_default s).

(* a builder being filled: its own cell, the remembered cells, the dispatchers of its batches so far *)
Record bld := mkBld { b_cell : cell; b_nested : list cell; b_batches : list disp }.

(* relocate the dispatchers of a sub-builder... nothing to relocate: they keep the cells they were built with *)

Definition bs := (bld * st)%type.

Section Run.
  Variable fixed : bool.      (* true: the code after fix 94c4994; false: before *)

  Fixpoint run_op (o : bop) (x : bs) : bs :=
    let '(b, s) := x in
    match o with
    | OpPool k => (b, mkSt (sset (s_store s) (b_cell b) (Some (User k))) (s_next_cell s) (s_next_default s))
    | OpBatch sub =>
        (* the sub-builder was created and filled beforehand, with a cell of its own *)
        let c' := s_next_cell s in
        let s0 := mkSt (s_store s) (S c') (s_next_default s) in
        let '(bsub, s1) := (fix go (l : list bop) (acc : bs) {struct l} : bs :=
                              match l with [] => acc | o' :: l' => go l' (run_op o' acc) end) sub (mkBld c' [] [], s0) in
        (* add_batch: sub takes the parent's cell; (fix) the parent remembers sub's old cell and what sub remembered *)
        let nested' := if fixed then b_nested b ++ (c' :: b_nested bsub) else b_nested b in
        (* sub.build(): fills the (parent's) cell if it is empty *)
        let s2 := fill s1 (b_cell b) in
        (mkBld (b_cell b) nested' (b_batches b ++ [Disp (b_cell b) (b_batches bsub)]), s2)
    end.

  Fixpoint run_ops (ops : list bop) (x : bs) : bs :=
    match ops with [] => x | o :: r => run_ops r (run_op o x) end.

  (* the outermost builder: its operations, then build() *)
  Definition build_root (ops : list bop) : disp * st :=
    let '(b, s) := run_ops ops (mkBld 0 [] [], mkSt [] 1 0) in
    let s1 := fill s (b_cell b) in
    let s2 := if fixed then share s1 (b_cell b) (b_nested b) else s1 in
    (Disp (b_cell b) (b_batches b), s2).
End Run.

Fixpoint size_op (o : bop) : nat :=
  match o with
  | OpPool _ => 1
  | OpBatch sub => S ((fix go (l : list bop) : nat := match l with [] => 0 | o' :: l' => size_op o' + go l' end) sub)
  end.
Fixpoint size_ops (ops : list bop) : nat := match ops with [] => 0 | o :: r => size_op o + size_ops r end.

Definition pool_eqb (a b : pool) : bool :=
  match a, b with User x, User y => Nat.eqb x y | Default x, Default y => Nat.eqb x y | _, _ => false end.
Definition opool_eqb (a b : option pool) : bool :=
  match a, b with Some x, Some y => pool_eqb x y | None, None => true | _, _ => false end.

(* every dispatcher of the tree reads pool [p] *)
Fixpoint all_read (s : store) (p : option pool) (d : disp) : bool :=
  match d with
  | Disp c bs => opool_eqb (sget s c) p && forallb (all_read s p) bs
  end.

(* the cells read by the dispatchers of the tree, in preorder (the outermost first, then every batch with its subtree) *)
Fixpoint cells_of (d : disp) : list cell :=
  match d with Disp c bs => c :: concat (map cells_of bs) end.
(* ... and the pools found there after the outermost build: what the suite compares with the threads that really ran
   the systems of every level *)
Definition node_pools (r : disp * st) : list (option pool) := map (sget (s_store (snd r))) (cells_of (fst r)).

Definition root_pool (r : disp * st) : option pool := match fst r with Disp c _ => sget (s_store (snd r)) c end.
Definition uniform (r : disp * st) : bool := all_read (s_store (snd r)) (root_pool r) (fst r).

(* the last pool attached to the outermost builder, if any *)
Fixpoint last_pool (ops : list bop) (acc : option nat) : option nat :=
  match ops with [] => acc | OpPool k :: r => last_pool r (Some k) | OpBatch _ :: r => last_pool r acc end.

(* ---- examples: the situation of the defect ---- *)
(* outer builder: with_pool(7), then a batch whose builder already holds a batch *)
Definition ex_deep : list bop := [OpPool 7; OpBatch [OpBatch []]].
Example ex_deep_fixed : uniform (build_root true ex_deep) = true /\ root_pool (build_root true ex_deep) = Some (User 7).
Proof. vm_compute. auto. Qed.
(* before the fix the batch at depth two kept a default pool *)
Example ex_deep_old_refuted : uniform (build_root false ex_deep) = false.
Proof. vm_compute. reflexivity. Qed.
(* the pool attached AFTER the batches (they are built with a default pool first) *)
Example ex_late_pool : uniform (build_root true [OpBatch [OpBatch []; OpBatch [OpBatch []]]; OpPool 3]) = true
                       /\ root_pool (build_root true [OpBatch [OpBatch []; OpBatch [OpBatch []]]; OpPool 3]) = Some (User 3).
Proof. vm_compute. auto. Qed.
