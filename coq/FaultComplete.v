(* FaultComplete.v — C14: the acceptor of recorded faulty traces accepts EVERY faulty trace of the model
   (with faccept_sound: it decides the faulty trace set). *)
From Shred Require Import Base Plan PlanLemmas Exec ExecProps Fault FaultProps FaultAccept.
From Coq Require Import Permutation.
Open Scope N_scope.

Lemma fshuffle_filter_other (p : fev -> bool) a b c : FShuffle a b c -> (forall e, In e a -> p e = false) -> filter p c = filter p b.
Proof.
  induction 1 as [|x a b c S IH|x a b c S IH]; intros H; [reflexivity| |].
  - cbn [filter]. rewrite (H x (or_introl eq_refl)). apply IH. intros; apply H; now right.
  - cbn [filter]. rewrite IH; auto.
Qed.
Lemma fshuffle_filter_own (p : fev -> bool) a b c : FShuffle a b c ->
  (forall e, In e a -> p e = true) -> (forall e, In e b -> p e = false) -> filter p c = a.
Proof.
  induction 1 as [|x a b c S IH|x a b c S IH]; intros Ha Hb; [reflexivity| |].
  - cbn [filter]. rewrite (Ha x (or_introl eq_refl)). f_equal. apply IH; auto. intros; apply Ha; now right.
  - cbn [filter]. rewrite (Hb x (or_introl eq_refl)). apply IH; auto. intros; apply Hb; now right.
Qed.

Lemma fshuffleN_proj : forall (parts : list (list N)) (ts : list (list fev)) tr,
  FShuffleN ts tr -> Forall2 (fun p t => forall e, In e t -> In (fev_tag e) p) parts ts -> NoDup (concat parts) ->
  Forall2 (fun p t => fproj p tr = t) parts ts.
Proof.
  induction parts as [|p parts IH]; intros ts tr S F ND; inversion F as [|? t ? ts' Hp Ft]; subst; [constructor|].
  inversion S as [|? ? rest ? SN SH]; subst. cbn [concat] in ND.
  assert (Rin : forall e, In e rest -> In (fev_tag e) (concat parts)).
  { intros e He. apply (fshuffleN_in _ _ SN) in He. destruct He as (t0 & Ht0 & He).
    clear - Ft Ht0 He. induction Ft as [|p0 t1 ps ts Hpt _ IHf]; [destruct Ht0|]. cbn [concat]. apply in_or_app. destruct Ht0 as [->|Ht0]; [left; auto|right; auto]. }
  constructor.
  - unfold fproj. apply (fshuffle_filter_own _ _ _ _ SH).
    + intros e He. apply memN_In. auto.
    + intros e He. apply memN_false. intros X. apply (NoDup_app_disj' _ _ _ ND X). now apply Rin.
  - assert (IHr := IH ts' rest SN Ft (NoDup_app_remove_l _ _ ND)).
    assert (G : forall q, In q parts -> fproj q tr = fproj q rest).
    { intros q Hq. unfold fproj. apply (fshuffle_filter_other _ _ _ _ SH). intros e He. apply memN_false. intros X.
      apply (NoDup_app_disj' _ _ _ ND (Hp e He)). apply in_concat. exists q. auto. }
    clear - IHr G. induction IHr as [|q t1 qs ts1 E _ IHq]; constructor.
    + rewrite G; [exact E|now left].
    + apply IHq. intros q0 Hq0. apply G. now right.
Qed.

Lemma fgroups_tags F st ts p a : fgroups F st ts p a -> Forall2 (fun g t => forall e, In e t -> In (fev_tag e) g) st ts.
Proof.
  induction 1 as [|g st ts p a G IH|g st ts p a G IH].
  - constructor.
  - constructor; [|exact IH]. intros e He. eapply fgroup_tags; eauto.
  - constructor; [|exact IH]. intros e [].
Qed.

Lemma fgroups_shape F st ts p a : fgroups F st ts p a ->
  Forall2 (fun g t => t = fst (fgroup F g) \/ (t = [] /\ a = false)) st ts.
Proof.
  induction 1 as [|g st ts p a G IH|g st ts p a G IH].
  - constructor.
  - constructor; [now left|exact IH].
  - constructor; [right; auto|]. clear - IH. induction IH as [|g0 t0 st0 ts0 H _ IHf]; constructor; auto. destruct H as [H|[H ?]]; auto.
Qed.

Lemma fgroups_has_panic F st ts p a : fgroups F st ts p a -> p = true -> exists l x, In l ts /\ In (FP x) l.
Proof.
  induction 1 as [|g st ts p a G IH|g st ts p a G IH]; intros Hp; [discriminate| |].
  - destruct (snd (fgroup F g)) eqn:Sg.
    + destruct (fgroup_panic_has F g Sg) as (x & Hx). exists (fst (fgroup F g)), x. split; [now left|auto].
    + cbn [orb] in Hp. destruct (IH Hp) as (l & x & Hl & Hx). exists l, x. split; [now right|auto].
  - destruct (IH Hp) as (l & x & Hl & Hx). exists l, x. split; [now right|auto].
Qed.

Lemma list_eqb_fev_refl l : list_eqb fev_eqb l l = true.
Proof. induction l as [|e l IH]; cbn; auto. rewrite IH. assert (X : fev_eqb e e = true) by now apply fev_eqb_eq. now rewrite X. Qed.

Lemma stage_has_panic F st t p : fstage_traces F st t p -> has_panic t = p.
Proof.
  intros H. destruct p.
  - destruct H as (ts & a & G & S & _). destruct (fgroups_has_panic _ _ _ _ _ G eq_refl) as (l & x & Hl & Hx).
    apply has_panic_spec. exists x. apply (fshuffleN_in _ _ S). eauto.
  - destruct (has_panic t) eqn:E; auto. apply has_panic_spec in E. destruct E as (x & Hx).
    now rewrite (fstage_panic_flag F st t false x H Hx).
Qed.

Lemma faccept_stage_complete F st t p : NoDup (concat st) -> fstage_traces F st t p -> faccept_stage F st t = true.
Proof.
  intros ND H. pose proof (stage_has_panic F st t p H) as HP. destruct H as (ts & a & G & S & PA).
  pose proof (fshuffleN_proj st ts t S (fgroups_tags _ _ _ _ _ G) ND) as P.
  pose proof (fgroups_shape _ _ _ _ _ G) as Sh.
  unfold faccept_stage. apply forallb_forall. intros g Hg.
  assert (X : exists tg, fproj g t = tg /\ (tg = fst (fgroup F g) \/ (tg = [] /\ a = false))).
  { clear - P Sh Hg. revert ts P Sh. induction st as [|g0 st IH]; intros ts P Sh; [destruct Hg|].
    inversion P as [|? t0 ? ts0 E P']; subst. inversion Sh as [|? ? ? ? H0 Sh']; subst. destruct Hg as [->|Hg]; eauto. }
  destruct X as (tg & E & [->|[-> Ha]]).
  - rewrite E, list_eqb_fev_refl. reflexivity.
  - rewrite E. destruct p; [|rewrite (PA eq_refl) in Ha; discriminate]. rewrite HP. cbn. apply orb_true_r.
Qed.

Lemma span_tags_app tags seg rest : (forall e, In e seg -> In (fev_tag e) tags) ->
  (match rest with [] => True | e :: _ => ~ In (fev_tag e) tags end) -> span_tags tags (seg ++ rest) = (seg, rest).
Proof.
  intros Hs Hr. induction seg as [|e seg IH]; cbn [app span_tags].
  - destruct rest as [|e r]; [reflexivity|]. cbn [span_tags]. now rewrite (proj2 (memN_false _ _) Hr).
  - rewrite (proj2 (memN_In _ _) (Hs e (or_introl eq_refl))). rewrite IH; auto. intros; apply Hs; now right.
Qed.

Lemma faccept_staged_complete F : forall l t p tail, fstaged F l t p -> NoDup (concat (concat l)) ->
  (forall e, In e tail -> ~ In (fev_tag e) (concat (concat l))) ->
  faccept_staged F l (t ++ (if p then [] else tail)) = Some ((if p then [] else tail), p).
Proof.
  intros l t p tail H. revert tail. induction H as [|st l t1 t2 p H1 H2 IH|st l t1 H1]; intros tail ND Ht.
  - reflexivity.
  - cbn [concat] in ND, Ht. rewrite concat_app in ND, Ht. cbn [faccept_staged]. rewrite <- app_assoc.
    rewrite (span_tags_app (concat st) t1 (t2 ++ (if p then [] else tail))).
    + rewrite (faccept_stage_complete F st t1 false (NoDup_app_remove_r _ _ ND) H1).
      rewrite (stage_has_panic F st t1 false H1). apply IH; [eapply NoDup_app_remove_l; eauto|].
      intros e He X. apply (Ht e He). apply in_or_app. now right.
    + intros e He. eapply fstage_tags; eauto.
    + destruct (t2 ++ (if p then [] else tail)) as [|e r] eqn:E; [exact I|].
      assert (He : In e (t2 ++ (if p then [] else tail))) by (rewrite E; now left).
      apply in_app_or in He. destruct He as [He|He].
      * intros X. apply (NoDup_app_disj' _ _ _ ND X). eapply fstaged_tags; eauto.
      * destruct p; [destruct He|]. intros X. apply (Ht e He). apply in_or_app. now left.
  - cbn [concat] in ND. rewrite concat_app in ND. cbn [faccept_staged]. rewrite app_nil_r.
    rewrite <- (app_nil_r t1) at 1. rewrite (span_tags_app (concat st) t1 []); [|intros e He; eapply fstage_tags; eauto|exact I].
    rewrite (faccept_stage_complete F st t1 true (NoDup_app_remove_r _ _ ND) H1).
    rewrite (stage_has_panic F st t1 true H1). reflexivity.
Qed.

(* every faulty trace of the model is accepted *)
Theorem faccept_complete F l tl tr p : NoDup (concat (concat l) ++ tl) -> ftraces_disp F l tl tr p -> faccept_disp F l tl tr = true.
Proof.
  intros ND (t1 & p1 & S & H). unfold faccept_disp.
  assert (Tl : forall e, In e (fst (fgroup F tl)) -> ~ In (fev_tag e) (concat (concat l))).
  { intros e He X. apply (NoDup_app_disj' _ _ _ ND X). eapply fgroup_tags; eauto. }
  pose proof (faccept_staged_complete F l t1 p1 (fst (fgroup F tl)) S (NoDup_app_remove_r _ _ ND) Tl) as A.
  destruct p1.
  - destruct H as [-> _]. rewrite app_nil_r in A. rewrite A. reflexivity.
  - destruct H as [-> _]. rewrite A. apply list_eqb_fev_refl.
Qed.

Corollary faccept_iff F l tl tr : NoDup (concat (concat l) ++ tl) ->
  (faccept_disp F l tl tr = true <-> exists p, ftraces_disp F l tl tr p).
Proof.
  intros ND. split.
  - apply faccept_sound. eapply NoDup_app_remove_r; eauto.
  - intros (p & H). eapply faccept_complete; eauto.
Qed.
