(* MetaIterMut.v — C17: the exclusive iterator (iter_mut).  Over a world in which none of the reached resources is
   borrowed it yields precisely the registered types that are present, in first-registration order, once each, each
   through the vtable of its own type, as EXCLUSIVE borrows: the harness bumps the payload through each of them,
   so the yielded payloads are the stored ones plus one and exactly the reached resources are changed. *)
From Shred Require Import Base Plan PlanLemmas World WorldProps WorldMap Meta MetaProps.
Open Scope N_scope.

Definition is_free (w : world) (ty : N) : Prop := forall c, lookup (ty, 0) (cells w) = Some c -> c_b c = BFree.

Lemma find_guard_snoc g k e : forall gs, (forall x, In x gs -> g_id x <> g) -> find_guard g (gs ++ [mkGuard g k e]) = Some (mkGuard g k e).
Proof.
  induction gs as [|y gs IH]; intros H; cbn [app find_guard g_id].
  - now rewrite N.eqb_refl.
  - destruct (N.eqb_spec (g_id y) g) as [E|_]; [now elim (H y (or_introl eq_refl))|]. apply IH. intros; apply H; now right.
Qed.

Lemma memN_cons x y l : memN x (y :: l) = (x =? y) || memN x l.
Proof. reflexivity. Qed.

Lemma iter_walk_excl bad : forall tys w acc gs,
  NoDup tys -> (forall ty, In ty tys -> ~ In ty bad) -> (forall ty, In ty tys -> is_free w ty) -> inv w ->
  exists w' gs', iter_walk bad true tys tys w acc gs =
    (w', gs', inl (acc ++ map (fun ty => (ty, ty, payload_of w ty + 1)) (filter (presentb w) tys))) /\
    (forall k, mget w' k = if (snd k =? 0) && memN (fst k) tys
                           then option_map (fun v => (fst v, snd v + 1)) (mget w k) else mget w k).
Proof.
  induction tys as [|ty tys IH]; intros w acc gs ND Hbad Hfree I; cbn [iter_walk filter map].
  - exists w, gs. rewrite app_nil_r. split; auto. intros k. unfold memN. cbn [existsb]. now rewrite andb_false_r.
  - inversion ND as [|? ? Hn ND']; subst.
    unfold presentb at 1. destruct (lookup (ty, 0) (cells w)) as [c|] eqn:L.
    + (* present and free: the exclusive borrow succeeds, the payload is bumped through the guard *)
      pose proof (Hfree ty (or_introl eq_refl) c L) as Bf.
      cbn [step fk_excl]. rewrite N.eqb_refl. cbn [negb fst]. rewrite L, Bf. cbn [acquire].
      assert (memN ty bad = false) as -> by (apply memN_false; apply Hbad; now left).
      set (g := next_guard w).
      set (w1 := mkWorld (update (ty, 0) (mkCell (c_ty c) (c_val c) BExcl) (cells w)) (guards w ++ [mkGuard g (ty, 0) true]) (N.succ g) (dropped w)).
      assert (I1 : inv w1).
      { pose proof (step_inv w (OFetchOp FTryMutById ty (ty, 0)) I) as X. cbn [step fk_excl] in X. rewrite N.eqb_refl in X. cbn [negb fst] in X.
        rewrite L, Bf in X. exact X. }
      assert (Ls : lookup (ty, 0) (cells w1) = Some (mkCell (c_ty c) (c_val c) BExcl)) by (unfold w1; cbn [cells]; now rewrite lookup_update, key_eqb_refl).
      rewrite Ls. cbn [c_val snd].
      assert (Fg : find_guard g (guards w1) = Some (mkGuard g (ty, 0) true)).
      { unfold w1. cbn [guards]. apply find_guard_snoc. intros x Hx E. pose proof (i_gnext _ I x Hx) as Lt. unfold g in E. lia. }
      cbn [step]. rewrite Fg. cbn [g_excl negb g_key]. rewrite Ls. cbn [fst c_ty c_val c_b].
      set (w2 := set_cells w1 (update (ty, 0) (mkCell (c_ty c) (fst (c_val c), snd (c_val c) + 1) BExcl) (cells w1))).
      assert (I2 : inv w2).
      { pose proof (step_inv w1 (OWrite g (snd (c_val c) + 1)) I1) as X. cbn [step] in X. rewrite Fg in X. cbn [g_excl negb g_key] in X.
        rewrite Ls in X. exact X. }
      assert (L2 : lookup (ty, 0) (cells w2) = Some (mkCell (c_ty c) (fst (c_val c), snd (c_val c) + 1) BExcl)).
      { unfold w2, set_cells. cbn [cells]. now rewrite lookup_update, key_eqb_refl. }
      assert (Lo : forall k, k <> (ty, 0) -> lookup k (cells w2) = lookup k (cells w)).
      { intros k Hk. unfold w2, set_cells, w1. cbn [cells]. rewrite !lookup_update. apply key_eqb_neq in Hk. now rewrite Hk. }
      rewrite L2. cbn [c_val snd].
      destruct (IH w2 (acc ++ [(ty, ty, snd (c_val c) + 1)]) (gs ++ [g]) ND') as (w' & gs' & E & M); auto.
      * intros t Ht. apply Hbad. now right.
      * intros t Ht c' Lc'. assert (t <> ty) by (intros ->; contradiction).
        rewrite Lo in Lc' by (intros X; inversion X; congruence). apply (Hfree t (or_intror Ht) c' Lc').
      * exists w', gs'. split.
        -- assert (P1 : payload_of w ty = snd (c_val c)) by (unfold payload_of; now rewrite L).
           assert (F : filter (presentb w2) tys = filter (presentb w) tys).
           { apply filter_ext_in. intros t Ht. unfold presentb. rewrite Lo; auto. intros X; inversion X; subst; contradiction. }
           assert (Mp : map (fun t => (t, t, payload_of w2 t + 1)) (filter (presentb w) tys) = map (fun t => (t, t, payload_of w t + 1)) (filter (presentb w) tys)).
           { apply map_ext_in. intros t Ht. apply filter_In in Ht. destruct Ht as [Ht _].
             unfold payload_of. rewrite Lo; auto. intros X; inversion X; subst; contradiction. }
           rewrite E, F, Mp. cbn [map]. rewrite P1, <- app_assoc. reflexivity.
        -- intros k. rewrite M, memN_cons. unfold mget. destruct (key_eqb k (ty, 0)) eqn:Ek.
           ++ apply key_eqb_eq in Ek. subst k. cbn [fst snd]. rewrite !N.eqb_refl. cbn [andb orb].
              assert (memN ty tys = false) as -> by now apply memN_false. rewrite L2, L. reflexivity.
           ++ apply key_eqb_neq in Ek. rewrite (Lo k Ek). destruct k as [k1 k2]. cbn [fst snd].
              destruct (N.eqb_spec k2 0) as [->|_]; cbn [andb]; [|reflexivity].
              destruct (N.eqb_spec k1 ty) as [->|_]; [now elim Ek|]. reflexivity.
    + (* absent: skipped *)
      destruct (IH w acc gs ND') as (w' & gs' & E & M); auto.
      * intros t Ht. apply Hbad. now right.
      * intros t Ht. apply Hfree. now right.
      * exists w', gs'. split; auto. intros k. rewrite M, memN_cons. destruct k as [k1 k2]. cbn [fst snd].
        destruct (N.eqb_spec k2 0) as [->|_]; cbn [andb]; [|reflexivity].
        destruct (N.eqb_spec k1 ty) as [->|_]; cbn [orb]; [|reflexivity].
        unfold mget. rewrite L. destruct (memN ty tys); reflexivity.
Qed.

(* C17: the exclusive iterator over a world in which the reached resources are not borrowed *)
Theorem iter_mut_spec bad regs t w :
  reg_all empty_table regs = Ok t -> inv w -> (forall ty, In ty regs -> ~ In ty bad) ->
  (forall ty c, In ty regs -> lookup (ty, 0) (cells w) = Some c -> c_b c = BFree) ->
  exists w' gs, iter_walk bad true (m_fns t) (m_tys t) w [] [] =
    (w', gs, inl (map (fun ty => (ty, ty, payload_of w ty + 1)) (filter (presentb w) (dedup_first [] regs)))) /\
    (forall k, mget w' k = if (snd k =? 0) && memN (fst k) (dedup_first [] regs)
                           then option_map (fun v => (fst v, snd v + 1)) (mget w k) else mget w k).
Proof.
  intros R I Hb Hf. destruct (reg_all_inv regs empty_table tinv_empty) as (t' & R' & It & Et). rewrite R in R'. inversion R'; subst t'.
  cbn [m_tys empty_table app] in Et. rewrite (ti_fns _ It), Et.
  assert (IN : forall ty, In ty (dedup_first [] regs) -> In ty regs).
  { clear. generalize (@nil N). induction regs as [|x l IH]; intros s ty; cbn [dedup_first]; [tauto|].
    destruct (memN x s); [intros H; right; eapply IH; eauto|]. intros [->|H]; [now left|right; eapply IH; eauto]. }
  destruct (iter_walk_excl bad (dedup_first [] regs) w [] []) as (w' & gs & E & M); auto.
  - rewrite <- Et. apply (ti_nodup _ It).
  - intros ty Hty c L. eapply Hf; eauto.
  - exists w', gs. split; auto.
Qed.
