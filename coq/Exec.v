(* Exec.v — M2: what running a layout can do.  One level of dispatch: stages one after the
   other, the groups of a stage in ANY interleaving (rayon par_iter_mut), a group front to
   back, then the thread-local systems on the caller in list order.  A member is a window
   [EF t; ER t] (fetch entry .. data dropped); a batch is such a window as well, and each of
   its inner dispatches is again a trace of this model for the inner layout.
   Models, the acceptor and the trace oracles; proofs are in ExecProps.v. *)
From Shred Require Import Base.
Open Scope N_scope.

Inductive ev := EF (t : N) | ER (t : N).
Definition ev_tag (e : ev) : N := match e with EF t => t | ER t => t end.
Definition ev_eqb (a b : ev) : bool :=
  match a, b with
  | EF x, EF y => x =? y
  | ER x, ER y => x =? y
  | _, _ => false
  end.

Definition lay := list (list (list N)).        (* stages / groups / members *)

Definition sys_trace (t : N) : list ev := [EF t; ER t].
Definition group_trace (g : list N) : list ev := concat (map sys_trace g).

(* all interleavings of two / of many sequences *)
Inductive Shuffle : list ev -> list ev -> list ev -> Prop :=
| Sh_nil : Shuffle [] [] []
| Sh_l x a b c : Shuffle a b c -> Shuffle (x :: a) b (x :: c)
| Sh_r x a b c : Shuffle a b c -> Shuffle a (x :: b) (x :: c).

Inductive ShuffleN : list (list ev) -> list ev -> Prop :=
| SN_nil : ShuffleN [] []
| SN_cons l ls t t' : ShuffleN ls t -> Shuffle l t t' -> ShuffleN (l :: ls) t'.

(* a stage: any interleaving of its group traces *)
Definition stage_traces (st : list (list N)) (t : list ev) : Prop :=
  ShuffleN (map group_trace st) t.

(* the parallel part of a dispatch: the stages one after the other *)
Inductive staged_traces : lay -> list ev -> Prop :=
| ST_nil : staged_traces [] []
| ST_cons st l t1 t2 : stage_traces st t1 -> staged_traces l t2 -> staged_traces (st :: l) (t1 ++ t2).

(* dispatch = parallel part, then the thread-local systems in order *)
Definition traces_disp (l : lay) (tl : list N) (t : list ev) : Prop :=
  exists t1, staged_traces l t1 /\ t = t1 ++ group_trace tl.

(* the same with the executing thread: the staged part is run by the pool (par_iter inside
   ThreadPool::install), the thread-local part by the thread that called dispatch *)
Inductive thr := Caller | Pool.
Definition traces_disp_thr (l : lay) (tl : list N) (t : list (ev * thr)) : Prop :=
  exists t1, staged_traces l t1 /\
             t = map (fun e => (e, Pool)) t1 ++ map (fun e => (e, Caller)) (group_trace tl).

(* dispatch_seq: the one sequential trace *)
Definition trace_seq (l : lay) (tl : list N) : list ev :=
  concat (map (fun st => concat (map group_trace st)) l) ++ group_trace tl.

(* ---------------- the acceptor (run on recorded real traces) ---------------- *)

Definition proj (tags : list N) (tr : list ev) : list ev :=
  filter (fun e => memN (ev_tag e) tags) tr.

Definition accept_stage (st : list (list N)) (seg : list ev) : bool :=
  forallb (fun g => list_eqb ev_eqb (proj g seg) (group_trace g)) st &&
  forallb (fun e => memN (ev_tag e) (concat st)) seg.

Fixpoint accept_staged (l : lay) (tr : list ev) : option (list ev) :=   (* returns the rest *)
  match l with
  | [] => Some tr
  | st :: l' =>
      let n := (2 * length (concat st))%nat in
      if accept_stage st (firstn n tr) then accept_staged l' (skipn n tr) else None
  end.

Definition accept_disp (l : lay) (tl : list N) (tr : list ev) : bool :=
  match accept_staged l tr with
  | Some rest => list_eqb ev_eqb rest (group_trace tl)
  | None => false
  end.

(* ---------------- oracles on a trace ---------------- *)

(* x occurs strictly before y *)
Fixpoint before_in (x y : ev) (tr : list ev) : bool :=
  match tr with
  | [] => false
  | e :: r => if ev_eqb e x then existsb (ev_eqb y) r else before_in x y r
  end.

(* C04: every tag has exactly one window *)
Definition count_ev (x : ev) (tr : list ev) : nat := length (filter (ev_eqb x) tr).
Definition o_once (tags : list N) (tr : list ev) : bool :=
  forallb (fun t => (count_ev (EF t) tr =? 1)%nat && (count_ev (ER t) tr =? 1)%nat && before_in (EF t) (ER t) tr) tags
  && forallb (fun e => memN (ev_tag e) tags) tr.

(* C01: walk the trace with the set of open windows; a window may open only if it conflicts
   with none of the open ones *)
Fixpoint no_overlap (conflict : N -> N -> bool) (open : list N) (tr : list ev) : bool :=
  match tr with
  | [] => true
  | EF t :: r => forallb (fun o => negb (conflict o t)) open && no_overlap conflict (t :: open) r
  | ER t :: r => no_overlap conflict (filter (fun o => negb (o =? t)) open) r
  end.
Definition o_no_overlap (conflict : N -> N -> bool) (tr : list ev) : bool := no_overlap conflict [] tr.

(* C02 / C03: [must_precede t] lists the systems that must have finished before t starts *)
Fixpoint preds_done (must_precede : N -> list N) (closed : list N) (tr : list ev) : bool :=
  match tr with
  | [] => true
  | EF t :: r => forallb (fun d => memN d closed) (must_precede t) && preds_done must_precede closed r
  | ER t :: r => preds_done must_precede (t :: closed) r
  end.
Definition o_preds_done (must_precede : N -> list N) (tr : list ev) : bool := preds_done must_precede [] tr.

(* C12: the trace ends with the windows of the thread-local systems, in order *)
Definition o_tl_last (tl : list N) (tr : list ev) : bool :=
  let n := (length tr - 2 * length tl)%nat in
  list_eqb ev_eqb (skipn n tr) (group_trace tl) &&
  forallb (fun e => negb (memN (ev_tag e) tl)) (firstn n tr).

(* C07: all events of an inner dispatch lie inside the window of the batch *)
Fixpoint inside_window (t : N) (inner : list N) (opened : bool) (tr : list ev) : bool :=
  match tr with
  | [] => true
  | e :: r =>
      if ev_eqb e (EF t) then inside_window t inner true r
      else if ev_eqb e (ER t) then inside_window t inner false r
      else (negb (memN (ev_tag e) inner) || opened) && inside_window t inner opened r
  end.
Definition o_inside (t : N) (inner : list N) (tr : list ev) : bool := inside_window t inner false tr.
