(* FaultProps.v — C14: theorems about EVERY faulty trace, for every fault set. *)
From Shred Require Import Base Plan PlanLemmas Exec ExecProps Fault.
From Coq Require Import Permutation.
Open Scope N_scope.

Lemma fshuffle_in a b c : FShuffle a b c -> forall e, In e c <-> In e a \/ In e b.
Proof. induction 1; intros e; cbn; [tauto| |]; rewrite IHFShuffle; tauto. Qed.

Lemma fshuffleN_in ls t : FShuffleN ls t -> forall e, In e t <-> exists l, In l ls /\ In e l.
Proof.
  induction 1 as [|l ls t t' HN IH HS]; intros e; cbn.
  - split; [tauto|intros (l & [] & _)].
  - rewrite (fshuffle_in _ _ _ HS e), IH. split.
    + intros [H|(l0 & H0 & H1)]; eauto.
    + intros (l0 & [->|H0] & H1); eauto.
Qed.

Definition fprecedes (x y : fev) (t : list fev) : Prop := exists t1 t2 t3, t = t1 ++ x :: t2 ++ y :: t3.

Lemma fprecedes_cons e x y t : fprecedes x y t -> fprecedes x y (e :: t).
Proof. intros (t1 & t2 & t3 & ->). exists (e :: t1), t2, t3. reflexivity. Qed.
Lemma fprecedes_here x y t : In y t -> fprecedes x y (x :: t).
Proof. intros H. apply in_split in H. destruct H as (t2 & t3 & ->). exists [], t2, t3. reflexivity. Qed.
Lemma fprecedes_app_l x y a b : fprecedes x y a -> fprecedes x y (a ++ b).
Proof. intros (t1 & t2 & t3 & ->). exists t1, t2, (t3 ++ b). repeat (rewrite <- ?app_assoc; cbn [app]). reflexivity. Qed.
Lemma fprecedes_app_r x y a b : fprecedes x y b -> fprecedes x y (a ++ b).
Proof. intros H. induction a; cbn; auto. now apply fprecedes_cons. Qed.
Lemma fprecedes_inv e x y t : fprecedes x y (e :: t) -> (e = x /\ In y t) \/ fprecedes x y t.
Proof.
  intros (t1 & t2 & t3 & H). destruct t1 as [|e' t1]; cbn in H; inversion H; subst.
  - left. split; auto. apply in_or_app. right. now left.
  - right. exists t1, t2, t3. reflexivity.
Qed.

Lemma fshuffle_precedes a b c x y : FShuffle a b c -> (fprecedes x y a \/ fprecedes x y b) -> fprecedes x y c.
Proof.
  induction 1 as [|e a b c H IH|e a b c H IH]; intros [P|P].
  - destruct P as (t1 & t2 & t3 & E). destruct t1; discriminate.
  - destruct P as (t1 & t2 & t3 & E). destruct t1; discriminate.
  - apply fprecedes_inv in P. destruct P as [[-> Hy]|P].
    + apply fprecedes_here. apply (fshuffle_in _ _ _ H). now left.
    + apply fprecedes_cons. auto.
  - apply fprecedes_cons. auto.
  - apply fprecedes_cons. auto.
  - apply fprecedes_inv in P. destruct P as [[-> Hy]|P].
    + apply fprecedes_here. apply (fshuffle_in _ _ _ H). now right.
    + apply fprecedes_cons. auto.
Qed.

Lemma fshuffleN_precedes ls t l x y : FShuffleN ls t -> In l ls -> fprecedes x y l -> fprecedes x y t.
Proof.
  induction 1 as [|l0 ls t t' HN IH HS]; intros Hin P; [destruct Hin|].
  destruct Hin as [->|Hin]; eapply fshuffle_precedes; eauto.
Qed.

(* ---------------- one group ---------------- *)

Lemma fgroup_tags F g e : In e (fst (fgroup F g)) -> In (fev_tag e) g.
Proof.
  induction g as [|t r IH]; cbn [fgroup]; [intros []|].
  destruct (memN t F).
  - cbn. intros [<-|[<-|[<-|[]]]]; cbn; auto.
  - destruct (fgroup F r) as [tr p]. cbn [fst] in *. intros [<-|[<-|H]]; cbn; auto.
Qed.

(* every fetch is followed by the release of the same system: nothing stays borrowed *)
Lemma fgroup_closed F g x : In (FF x) (fst (fgroup F g)) -> fprecedes (FF x) (FR x) (fst (fgroup F g)).
Proof.
  induction g as [|t r IH]; cbn [fgroup]; [intros []|].
  destruct (memN t F).
  - cbn. intros [E|[E|[E|[]]]]; inversion E; subst. exists [], [FP x], []. reflexivity.
  - destruct (fgroup F r) as [tr p]. cbn [fst] in *. intros [E|[E|H]].
    + inversion E; subst. exists [], [], tr. reflexivity.
    + discriminate.
    + apply (fprecedes_cons (FF t)). apply (fprecedes_cons (FR t)). auto.
Qed.

(* a panic is raised only by a member of the fault set, and only when the group reports it *)
Lemma fgroup_panic F g x : In (FP x) (fst (fgroup F g)) -> memN x F = true /\ snd (fgroup F g) = true.
Proof.
  induction g as [|t r IH]; cbn [fgroup]; [intros []|].
  destruct (memN t F) eqn:M.
  - cbn. intros [E|[E|[E|[]]]]; inversion E; subst. auto.
  - destruct (fgroup F r) as [tr p]. cbn [fst snd] in *. intros [E|[E|H]]; try discriminate. auto.
Qed.

(* no member behind a panicking member runs *)
Lemma fgroup_after_panic F g g1 g2 g3 d s :
  g = g1 ++ d :: g2 ++ s :: g3 -> NoDup g -> In (FP d) (fst (fgroup F g)) -> ~ In (FF s) (fst (fgroup F g)).
Proof.
  intros -> ND. induction g1 as [|t g1 IH]; cbn [app fgroup].
  - destruct (memN d F) eqn:M.
    + cbn. intros _ [E|[E|[E|[]]]]; inversion E; subst.
      inversion ND as [|? ? Hn _]; subst. apply Hn. apply in_or_app. right. now left.
    + destruct (fgroup F (g2 ++ s :: g3)) as [tr p] eqn:G. cbn [fst]. intros [E|[E|H]]; try discriminate.
      exfalso. assert (In (FP d) (fst (fgroup F (g2 ++ s :: g3)))) as H' by now rewrite G.
      apply fgroup_tags in H'. cbn in H'. inversion ND as [|? ? Hn _]; subst. contradiction.
  - inversion ND as [|? ? Hn ND']; subst. destruct (memN t F) eqn:M.
    + cbn. intros [E|[E|[E|[]]]]; inversion E; subst. exfalso. apply Hn. apply in_or_app. right. now left.
    + destruct (fgroup F (g1 ++ d :: g2 ++ s :: g3)) as [tr p] eqn:G. cbn [fst] in *.
      intros [E|[E|H]]; try discriminate. intros [E|[E|H']]; try discriminate.
      * inversion E; subst. apply Hn. apply in_or_app. right. right. apply in_or_app. right. now left.
      * eapply IH; eauto.
Qed.

Definition is_fetch (x : N) (e : fev) : bool := match e with FF y => y =? x | _ => false end.
Definition fetches (x : N) (t : list fev) : nat := length (filter (is_fetch x) t).
Lemma fgroup_once F g x : NoDup g -> (fetches x (fst (fgroup F g)) <= 1)%nat.
Proof.
  unfold fetches. induction g as [|t r IH]; cbn [fgroup]; intros ND; [cbn; lia|]. inversion ND as [|? ? Hn ND']; subst.
  destruct (memN t F).
  - cbn. destruct (t =? x); cbn; lia.
  - destruct (fgroup F r) as [tr p] eqn:G. cbn [fst filter is_fetch] in *. specialize (IH ND').
    destruct (N.eqb_spec t x) as [->|]; cbn [length]; [|exact IH].
    assert (filter (is_fetch x) tr = []) as ->; [|cbn; lia].
    clear IH. assert (T : forall e, In e tr -> In (fev_tag e) r) by (intros e He; apply (fgroup_tags F r e); now rewrite G).
    clear G. induction tr as [|e tr IHt]; cbn [filter]; auto.
    destruct e as [y|y|y]; cbn [is_fetch]; try (apply IHt; intros e' H'; apply T; now right).
    destruct (N.eqb_spec y x) as [->|]; [exfalso; apply Hn; apply (T (FF x)); now left|].
    apply IHt. intros e' H'. apply T. now right.
Qed.

(* without a panic a group behaves as in the fault-free model *)
Lemma fgroup_no_panic F g : snd (fgroup F g) = false -> fst (fgroup F g) = map erase (group_trace g).
Proof.
  induction g as [|t r IH]; cbn [fgroup]; [reflexivity|].
  destruct (memN t F); [discriminate|]. destruct (fgroup F r) as [tr p]. cbn [fst snd] in *.
  intros H. rewrite (IH H). reflexivity.
Qed.

Lemma fgroup_nofault g : fgroup [] g = (map erase (group_trace g), false).
Proof. induction g as [|t r IH]; cbn [fgroup memN existsb]; [reflexivity|]. rewrite IH. reflexivity. Qed.

(* ---------------- counting fetches ---------------- *)
From Shred Require Import PlanObs.

Lemma fetches_app x a b : fetches x (a ++ b) = (fetches x a + fetches x b)%nat.
Proof. unfold fetches. now rewrite filter_app, app_length. Qed.

Lemma fgroup_fetches F g x : (fetches x (fst (fgroup F g)) <= count_occ_N x g)%nat.
Proof.
  unfold fetches, count_occ_N. induction g as [|t r IH]; cbn [fgroup]; [cbn; lia|].
  destruct (memN t F).
  - cbn [fst filter is_fetch]. rewrite (N.eqb_sym x t). destruct (t =? x); cbn [length]; lia.
  - destruct (fgroup F r) as [tr p]. cbn [fst filter is_fetch] in *. rewrite (N.eqb_sym x t).
    destruct (t =? x); cbn [length]; lia.
Qed.

Lemma fshuffle_fetches a b c x : FShuffle a b c -> fetches x c = (fetches x a + fetches x b)%nat.
Proof.
  unfold fetches. induction 1 as [|e a b c H IH|e a b c H IH]; cbn [filter]; auto.
  - destruct (is_fetch x e); cbn [length]; lia.
  - destruct (is_fetch x e); cbn [length]; lia.
Qed.

Lemma count_occ_N_app' x a c : count_occ_N x (a ++ c) = (count_occ_N x a + count_occ_N x c)%nat.
Proof. unfold count_occ_N. now rewrite filter_app, app_length. Qed.

Lemma fstage_fetches F st ts p a t x :
  fgroups F st ts p a -> FShuffleN ts t -> (fetches x t <= count_occ_N x (concat st))%nat.
Proof.
  intros G. revert t. induction G as [|g st ts p a G IH|g st ts p a G IH]; intros t S; inversion S; subst.
  - cbn. lia.
  - cbn [concat]. rewrite count_occ_N_app'. match goal with H : FShuffle _ _ _ |- _ => rewrite (fshuffle_fetches _ _ _ x H) end.
    pose proof (fgroup_fetches F g x). match goal with H : FShuffleN ts _ |- _ => specialize (IH _ H) end. lia.
  - cbn [concat]. rewrite count_occ_N_app'. match goal with H : FShuffle _ _ _ |- _ => rewrite (fshuffle_fetches _ _ _ x H) end.
    match goal with H : FShuffleN ts _ |- _ => specialize (IH _ H) end. cbn. lia.
Qed.

Lemma fstaged_fetches F l t p x : fstaged F l t p -> (fetches x t <= count_occ_N x (concat (concat l)))%nat.
Proof.
  induction 1 as [|st l t1 t2 p (ts & a & G & S & _) _ IH|st l t1 (ts & a & G & S & _)]; cbn [concat].
  - cbn. lia.
  - rewrite concat_app, count_occ_N_app', fetches_app. pose proof (fstage_fetches _ _ _ _ _ _ x G S). lia.
  - rewrite concat_app, count_occ_N_app'. pose proof (fstage_fetches _ _ _ _ _ _ x G S). lia.
Qed.

Lemma count_occ_N_nodup_le x l : NoDup l -> (count_occ_N x l <= 1)%nat.
Proof.
  unfold count_occ_N. induction 1 as [|y l Hn ND IH]; cbn [filter]; [cbn; lia|].
  destruct (N.eqb_spec x y) as [->|]; cbn [length]; [|lia].
  assert (filter (N.eqb y) l = []) as ->; [|cbn; lia].
  clear - Hn. induction l as [|z l IH]; cbn; auto. destruct (N.eqb_spec y z); [subst; exfalso; apply Hn; now left|].
  apply IH. intros H. apply Hn. now right.
Qed.

(* C14: in EVERY faulty trace no system runs twice *)
Theorem fault_at_most_once F l tl t p x :
  ftraces_disp F l tl t p -> NoDup (concat (concat l) ++ tl) -> (fetches x t <= 1)%nat.
Proof.
  intros (t1 & p1 & H & E) ND. pose proof (fstaged_fetches _ _ _ _ x H) as C1.
  pose proof (count_occ_N_nodup_le x _ ND) as C. rewrite count_occ_N_app' in C.
  destruct p1.
  - destruct E as [-> _]. lia.
  - destruct E as [-> _]. rewrite fetches_app. pose proof (fgroup_fetches F tl x). lia.
Qed.

(* ---------------- stages ---------------- *)

Lemma fgroups_elem F st ts p a : fgroups F st ts p a ->
  forall l, In l ts -> l = [] \/ exists g, In g st /\ l = fst (fgroup F g).
Proof.
  induction 1 as [|g st ts p a G IH|g st ts p a G IH]; intros l Hl; [destruct Hl| |].
  - destruct Hl as [<-|Hl]; [right; exists g; split; auto; now left|].
    destruct (IH l Hl) as [->|(g' & Hg' & ->)]; auto. right. exists g'. split; auto. now right.
  - destruct Hl as [<-|Hl]; auto.
    destruct (IH l Hl) as [->|(g' & Hg' & ->)]; auto. right. exists g'. split; auto. now right.
Qed.

Lemma fgroups_panic F st ts p a : fgroups F st ts p a ->
  forall l x, In l ts -> In (FP x) l -> p = true.
Proof.
  induction 1 as [|g st ts p a G IH|g st ts p a G IH]; intros l x Hl Hx; [destruct Hl| |].
  - destruct Hl as [<-|Hl].
    + apply fgroup_panic in Hx. destruct Hx as [_ ->]. reflexivity.
    + rewrite (IH l x Hl Hx). apply orb_true_r.
  - destruct Hl as [<-|Hl]; [destruct Hx|]. eapply IH; eauto.
Qed.

Lemma fstage_tags F st t p e : fstage_traces F st t p -> In e t -> In (fev_tag e) (concat st).
Proof.
  intros (ts & a & G & S & _) He. apply (fshuffleN_in _ _ S) in He. destruct He as (l & Hl & He).
  destruct (fgroups_elem _ _ _ _ _ G l Hl) as [->|(g & Hg & ->)]; [destruct He|].
  apply in_concat. exists g. split; auto. eapply fgroup_tags; eauto.
Qed.

Lemma fstage_closed F st t p x : fstage_traces F st t p -> In (FF x) t -> fprecedes (FF x) (FR x) t.
Proof.
  intros (ts & a & G & S & _) He. apply (fshuffleN_in _ _ S) in He. destruct He as (l & Hl & He).
  destruct (fgroups_elem _ _ _ _ _ G l Hl) as [->|(g & Hg & ->)]; [destruct He|].
  eapply fshuffleN_precedes; eauto. now apply fgroup_closed.
Qed.

Lemma fstage_panic_flag F st t p x : fstage_traces F st t p -> In (FP x) t -> p = true.
Proof.
  intros (ts & a & G & S & _) He. apply (fshuffleN_in _ _ S) in He. destruct He as (l & Hl & He).
  eapply fgroups_panic; eauto.
Qed.

Lemma fstaged_tags F l t p e : fstaged F l t p -> In e t -> In (fev_tag e) (concat (concat l)).
Proof.
  induction 1 as [|st l t1 t2 p H1 _ IH|st l t1 H1]; intros He; cbn [concat]; [destruct He| |]; rewrite concat_app; apply in_or_app.
  - apply in_app_or in He. destruct He as [He|He]; [left; eapply fstage_tags; eauto|right; auto].
  - left. eapply fstage_tags; eauto.
Qed.

(* C14: whatever panics, in EVERY trace every fetched system is released afterwards: when the
   panic has been caught no resource is left borrowed *)
Theorem fault_all_released F l tl t p x :
  ftraces_disp F l tl t p -> In (FF x) t -> fprecedes (FF x) (FR x) t.
Proof.
  intros (t1 & p1 & H & E) Hx.
  assert (S : forall t1 p1, fstaged F l t1 p1 -> In (FF x) t1 -> fprecedes (FF x) (FR x) t1).
  { clear. induction 1 as [|st l t1 t2 p H1 _ IH|st l t1 H1]; intros Hx; [destruct Hx| |].
    - apply in_app_or in Hx. destruct Hx as [Hx|Hx]; [apply fprecedes_app_l; eapply fstage_closed; eauto|apply fprecedes_app_r; auto].
    - eapply fstage_closed; eauto. }
  destruct p1.
  - destruct E as [-> _]. eauto.
  - destruct E as [-> _]. apply in_app_or in Hx. destruct Hx as [Hx|Hx].
    + apply fprecedes_app_l. eauto.
    + apply fprecedes_app_r. now apply fgroup_closed.
Qed.

(* a reported panic is the panic of a member of the fault set that really ran *)
Theorem fault_panic_is_real F l tl t p :
  ftraces_disp F l tl t p -> (p = true <-> exists x, In (FP x) t) .
Proof.
  intros (t1 & p1 & H & E).
  assert (S : forall l t1 p1, fstaged F l t1 p1 -> (p1 = true <-> exists x, In (FP x) t1)).
  { clear. induction 1 as [|st l t1 t2 p H1 _ IH|st l t1 H1].
    - split; [discriminate|intros (x & [])].
    - rewrite IH. split.
      + intros (x & Hx). exists x. apply in_or_app. now right.
      + intros (x & Hx). apply in_app_or in Hx. destruct Hx as [Hx|Hx]; eauto.
        pose proof (fstage_panic_flag _ _ _ _ _ H1 Hx). discriminate.
    - split; auto. intros _. destruct H1 as (ts & a & G & S & Ha).
      (* some started group reports a panic: it contains the FP event *)
      assert (X : forall st ts p a, fgroups F st ts p a -> p = true -> exists l x, In l ts /\ In (FP x) l).
      { clear. induction 1 as [|g st ts p a G IH|g st ts p a G IH]; intros Hp; [discriminate| |].
        - destruct (snd (fgroup F g)) eqn:Sg.
          + exists (fst (fgroup F g)). clear - Sg.
            assert (exists x, In (FP x) (fst (fgroup F g))) as (x & Hx).
            { induction g as [|t r IH]; cbn [fgroup] in *; [discriminate|]. destruct (memN t F).
              - exists t. cbn. auto.
              - destruct (fgroup F r) as [tr p]. cbn [fst snd] in *. destruct (IH Sg) as (x & Hx). exists x. now right; right. }
            exists x. split; auto. now left.
          + cbn in Hp. destruct (IH Hp) as (l & x & Hl & Hx). exists l, x. split; auto. now right.
        - destruct (IH Hp) as (l & x & Hl & Hx). exists l, x. split; auto. now right. }
      destruct (X _ _ _ _ G eq_refl) as (l0 & x & Hl & Hx). exists x. apply (fshuffleN_in _ _ S). eauto. }
  destruct p1.
  - destruct E as [-> ->]. apply (S _ _ _ H).
  - destruct E as [-> ->]. split.
    + intros Hp. assert (exists x, In (FP x) (fst (fgroup F tl))) as (x & Hx).
      { clear - Hp. induction tl as [|t r IH]; cbn [fgroup] in *; [discriminate|]. destruct (memN t F).
        - exists t. cbn. auto.
        - destruct (fgroup F r) as [tr p]. cbn [fst snd] in *. destruct (IH Hp) as (x & Hx). exists x. now right; right. }
      exists x. apply in_or_app. now right.
    + intros (x & Hx). apply in_app_or in Hx. destruct Hx as [Hx|Hx].
      * pose proof (proj2 (S _ _ _ H) (ex_intro _ x Hx)). discriminate.
      * now apply fgroup_panic in Hx.
Qed.

(* ---------------- dependents of a panicking system do not run ---------------- *)

Lemma NoDup_app_disj' {A} (a c : list A) x : NoDup (a ++ c) -> In x a -> In x c -> False.
Proof.
  induction a as [|y a IH]; cbn; intros ND Ha Hc; [destruct Ha|].
  inversion ND; subst. destruct Ha as [->|Ha]; auto. apply H1. apply in_or_app. now right.
Qed.

Lemma nodup_concat_unique (st : list (list N)) g g' x :
  NoDup (concat st) -> In g st -> In g' st -> In x g -> In x g' -> g = g'.
Proof.
  induction st as [|h st IH]; intros ND Hg Hg' Hx Hx'; [destruct Hg|].
  cbn [concat] in ND. destruct Hg as [->|Hg], Hg' as [->|Hg']; auto.
  - exfalso. eapply (NoDup_app_disj' g (concat st) x); eauto. apply in_concat. eauto.
  - exfalso. eapply (NoDup_app_disj' g' (concat st) x); eauto. apply in_concat. eauto.
  - eapply IH; eauto. eapply NoDup_app_remove_l; eauto.
Qed.

Lemma fstage_no_dependent F st t p d s g g1 g2 g3 :
  fstage_traces F st t p -> NoDup (concat st) -> In g st -> g = g1 ++ d :: g2 ++ s :: g3 ->
  In (FP d) t -> ~ In (FF s) t.
Proof.
  intros (ts & a & G & S & _) ND Hg E Hd Hs.
  apply (fshuffleN_in _ _ S) in Hd. destruct Hd as (ld & Hld & Hd).
  apply (fshuffleN_in _ _ S) in Hs. destruct Hs as (ls & Hls & Hs).
  destruct (fgroups_elem _ _ _ _ _ G ld Hld) as [->|(gd & Hgd & ->)]; [destruct Hd|].
  destruct (fgroups_elem _ _ _ _ _ G ls Hls) as [->|(gs & Hgs & ->)]; [destruct Hs|].
  assert (In d g) by (subst g; apply in_or_app; right; now left).
  assert (In s g) by (subst g; apply in_or_app; right; right; apply in_or_app; right; now left).
  assert (gd = g) by (apply (nodup_concat_unique st gd g d); auto; apply (fgroup_tags F gd (FP d) Hd)).
  assert (gs = g) by (apply (nodup_concat_unique st gs g s); auto; apply (fgroup_tags F gs (FF s) Hs)).
  subst gd gs. eapply (fgroup_after_panic F g g1 g2 g3 d s); eauto.
  (* NoDup g *)
  clear - ND Hg. induction st as [|h st IH]; [destruct Hg|]. cbn [concat] in ND. destruct Hg as [->|Hg].
  - eapply NoDup_app_remove_r; eauto.
  - apply IH; auto. eapply NoDup_app_remove_l; eauto.
Qed.

(* C14: in EVERY faulty trace, if d panicked then no system placed behind d (in particular no
   system that depends on d, directly or along a chain — C02 places those behind d) runs *)
Theorem fault_no_dependent_runs F : forall l t p d s,
  fstaged F l t p -> NoDup (concat (concat l)) -> lay_before l d s -> In (FP d) t -> ~ In (FF s) t.
Proof.
  induction l as [|st l IH]; intros t p d s H ND B Hd Hs.
  - inversion H; subst. destruct Hd.
  - cbn [concat] in ND. rewrite concat_app in ND.
    pose proof (NoDup_app_remove_r _ _ ND) as NDst. pose proof (NoDup_app_remove_l _ _ ND) as NDl.
    inversion H as [|? ? t1 t2 p' H1 H2|? ? t1 H1]; subst.
    + (* this stage ran without a panic *)
      assert (Hd2 : In (FP d) t2).
      { apply in_app_or in Hd. destruct Hd as [Hd|Hd]; auto.
        pose proof (fstage_panic_flag _ _ _ _ _ H1 Hd). discriminate. }
      pose proof (fstaged_tags _ _ _ _ _ H2 Hd2) as Td. cbn in Td.
      assert (Nd : ~ In d (concat st)) by (intros X; eapply NoDup_app_disj'; eauto).
      destruct B as [(kd & ks & sd & ss & Hlt & Hkd & Hks & Id & Is)|(k & st0 & g & g1 & g2 & g3 & Hk & Hg & E)].
      * destruct kd as [|kd]; cbn in Hkd; [inversion Hkd; subst; contradiction|].
        destruct ks as [|ks]; [lia|]. cbn in Hks.
        apply in_app_or in Hs. destruct Hs as [Hs|Hs].
        -- pose proof (fstage_tags _ _ _ _ _ H1 Hs) as Ts. cbn in Ts.
           eapply NoDup_app_disj'; [exact ND|exact Ts|]. apply in_concat in Is. destruct Is as (gs & Hgs & Is).
           apply in_concat. exists gs. split; auto. apply in_concat. exists ss. split; auto. eapply nth_error_In; eauto.
        -- eapply (IH t2 _ d s); eauto. left. exists kd, ks, sd, ss. repeat split; auto. lia.
      * destruct k as [|k]; cbn in Hk.
        -- inversion Hk; subst st0. exfalso. apply Nd. apply in_concat. exists g. split; auto. subst g. apply in_or_app. right. now left.
        -- apply in_app_or in Hs. destruct Hs as [Hs|Hs].
           ++ pose proof (fstage_tags _ _ _ _ _ H1 Hs) as Ts. cbn in Ts.
              eapply NoDup_app_disj'; [exact ND|exact Ts|]. apply in_concat. exists g. split.
              ** apply in_concat. exists st0. split; auto. eapply nth_error_In; eauto.
              ** subst g. apply in_or_app. right. right. apply in_or_app. right. now left.
           ++ eapply (IH t2 _ d s); eauto. right. exists k, st0, g, g1, g2, g3. auto.
    + (* this stage panicked: nothing behind it runs *)
      pose proof (fstage_tags _ _ _ _ _ H1 Hd) as Td. cbn in Td.
      pose proof (fstage_tags _ _ _ _ _ H1 Hs) as Ts. cbn in Ts.
      destruct B as [(kd & ks & sd & ss & Hlt & Hkd & Hks & Id & Is)|(k & st0 & g & g1 & g2 & g3 & Hk & Hg & E)].
      * destruct ks as [|ks]; [lia|]. cbn in Hks.
        eapply NoDup_app_disj'; [exact ND|exact Ts|]. apply in_concat in Is. destruct Is as (gs & Hgs & Is).
        apply in_concat. exists gs. split; auto. apply in_concat. exists ss. split; auto. eapply nth_error_In; eauto.
      * destruct k as [|k]; cbn in Hk.
        -- inversion Hk; subst st0. eapply fstage_no_dependent; eauto.
        -- eapply NoDup_app_disj'; [exact ND|exact Ts|]. apply in_concat. exists g. split.
           ++ apply in_concat. exists st0. split; auto. eapply nth_error_In; eauto.
           ++ subst g. apply in_or_app. right. right. apply in_or_app. right. now left.
Qed.

(* after a panic among the staged systems no thread-local system runs; a panicking
   thread-local system stops the ones behind it *)
Theorem fault_thread_locals F l tl t p :
  ftraces_disp F l tl t p -> NoDup (concat (concat l) ++ tl) ->
  (forall d a, In d (concat (concat l)) -> In a tl -> In (FP d) t -> ~ In (FF a) t) /\
  (forall a c l1 l2 l3, tl = l1 ++ a :: l2 ++ c :: l3 -> In (FP a) t -> ~ In (FF c) t).
Proof.
  intros (t1 & p1 & H & E) ND. split.
  - intros d a Hd Ha Hp Hf. destruct p1.
    + destruct E as [-> _]. apply (fstaged_tags _ _ _ _ _ H) in Hf. cbn in Hf. eapply NoDup_app_disj'; eauto.
    + destruct E as [-> _].
      assert (Hp1 : In (FP d) t1).
      { apply in_app_or in Hp. destruct Hp as [Hp|Hp]; auto. apply fgroup_tags in Hp. cbn in Hp. exfalso. eapply NoDup_app_disj'; eauto. }
      (* a staged panic sets the flag *)
      assert (S : forall l t1 p1, fstaged F l t1 p1 -> (exists x, In (FP x) t1) -> p1 = true).
      { clear. induction 1 as [|st l t1 t2 p H1 _ IH|st l t1 H1]; intros (x & Hx).
        - destruct Hx.
        - apply in_app_or in Hx. destruct Hx as [Hx|Hx]; [pose proof (fstage_panic_flag _ _ _ _ _ H1 Hx); discriminate|eauto].
        - reflexivity. }
      pose proof (S _ _ _ H (ex_intro _ d Hp1)). discriminate.
  - intros a c l1 l2 l3 Etl Hp Hf.
    pose proof (NoDup_app_remove_l _ _ ND) as NDtl.
    assert (Ia : In a tl) by (subst tl; apply in_or_app; right; now left).
    assert (Ic : In c tl) by (subst tl; apply in_or_app; right; right; apply in_or_app; right; now left).
    assert (X : forall e, In e t1 -> In (fev_tag e) tl -> False).
    { intros e He Ht. apply (fstaged_tags _ _ _ _ _ H) in He. eapply NoDup_app_disj'; eauto. }
    destruct p1.
    + destruct E as [-> _]. apply (X _ Hf). exact Ic.
    + destruct E as [-> _].
      apply in_app_or in Hp. destruct Hp as [Hp|Hp]; [exact (X _ Hp Ia)|].
      apply in_app_or in Hf. destruct Hf as [Hf|Hf]; [exact (X _ Hf Ic)|].
      eapply (fgroup_after_panic F tl l1 l2 l3 a c); eauto.
Qed.

(* ---------------- without faults: exactly the fault-free model ---------------- *)

Lemma fshuffle_erase a b c : Shuffle a b c -> FShuffle (map erase a) (map erase b) (map erase c).
Proof. induction 1; cbn; constructor; auto. Qed.
Lemma fshuffle_unerase : forall a b c', FShuffle (map erase a) (map erase b) c' ->
  exists c, Shuffle a b c /\ c' = map erase c.
Proof.
  intros a b c' H. remember (map erase a) as a' eqn:Ea. remember (map erase b) as b' eqn:Eb.
  revert a b Ea Eb. induction H as [|e a' b' c' H IH|e a' b' c' H IH]; intros a b Ea Eb.
  - destruct a, b; try discriminate. exists []. split; constructor.
  - destruct a as [|x a]; [discriminate|]. cbn in Ea. inversion Ea; subst.
    destruct (IH a b eq_refl eq_refl) as (c & Hc & ->). exists (x :: c). split; [constructor; auto|reflexivity].
  - destruct b as [|x b]; [discriminate|]. cbn in Eb. inversion Eb; subst.
    destruct (IH a b eq_refl eq_refl) as (c & Hc & ->). exists (x :: c). split; [constructor; auto|reflexivity].
Qed.

Lemma fgroups_nofault st ts p a : fgroups [] st ts p a -> (p = false -> a = true) ->
  ts = map (fun g => map erase (group_trace g)) st /\ p = false.
Proof.
  induction 1 as [|g st ts p a G IH|g st ts p a G IH]; intros Ha.
  - auto.
  - rewrite fgroup_nofault in *. cbn [fst snd orb] in *. destruct (IH Ha) as [-> ->]. auto.
  - (* a skipped group needs a panic, but nothing panics *)
    assert (p = false).
    { clear - G. induction G as [|g st ts p a G IH|g st ts p a G IH]; auto. rewrite fgroup_nofault. cbn. exact IH. }
    subst p. specialize (Ha eq_refl). discriminate.
Qed.

Lemma fshuffleN_unerase : forall ls t', FShuffleN (map (map erase) ls) t' -> exists t, ShuffleN ls t /\ t' = map erase t.
Proof.
  induction ls as [|l ls IH]; intros t' H; cbn [map] in H; inversion H as [|? ? t0 ? H1 H2]; subst.
  - exists []. split; constructor.
  - destruct (IH _ H1) as (t & Ht & ->). destruct (fshuffle_unerase _ _ _ H2) as (c & Hc & ->).
    exists c. split; [econstructor; eauto|reflexivity].
Qed.

(* C14 (next dispatch): with nothing panicking the faulty model IS the fault-free model: the
   dispatch after a caught panic is an ordinary dispatch — every system exactly once (C04) *)
Theorem fault_free_is_ordinary l tl t p :
  ftraces_disp [] l tl t p -> p = false /\ exists t0, traces_disp l tl t0 /\ t = map erase t0.
Proof.
  intros (t1 & p1 & H & E).
  assert (S : forall l t1 p1, fstaged [] l t1 p1 -> p1 = false /\ exists t0, staged_traces l t0 /\ t1 = map erase t0).
  { clear. induction 1 as [|st l t1 t2 p (ts & a & G & S & Ha) _ IH|st l t1 (ts & a & G & S & Ha)].
    - split; auto. exists []. split; constructor.
    - destruct IH as [-> (t0 & H0 & ->)]. split; auto.
      destruct (fgroups_nofault _ _ _ _ G Ha) as [-> _].
      rewrite <- map_map in S. destruct (fshuffleN_unerase _ _ S) as (u & Hu & ->).
      exists (u ++ t0). split; [constructor; auto|now rewrite map_app].
    - destruct (fgroups_nofault _ _ _ _ G Ha) as [_ X]. discriminate. }
  destruct (S _ _ _ H) as [-> (t0 & H0 & ->)]. destruct E as [-> ->].
  rewrite fgroup_nofault. cbn [fst snd]. split; auto.
  exists (t0 ++ group_trace tl). split; [exists t0; auto|now rewrite map_app].
Qed.
