(* PoolCellsProps.v — C11, the logic half that is not timing: after the outermost build every dispatcher of a tree of
   nested batches reads the pool of the outermost builder, whatever the order of add_pool and add_batch calls at any
   level; that pool is the last one attached to the outermost builder, or else a default pool. *)
From Coq Require Import List Arith Lia Bool.
Import ListNotations.
From Shred Require Import PoolCells.

Definition cells_all (ds : list disp) : list cell := concat (map cells_of ds).

Fixpoint dsize (d : disp) : nat :=
  match d with Disp _ bs => S (fold_right (fun d' a => dsize d' + a) 0 bs) end.

Lemma dsize_in d bs : In d bs -> dsize d <= fold_right (fun d' a => dsize d' + a) 0 bs.
Proof. induction bs as [|x bs IH]; intros H; [destruct H|]. destruct H as [->|H]; cbn; [lia|]. specialize (IH H). lia. Qed.

Lemma pool_eqb_refl p : pool_eqb p p = true.
Proof. destruct p; cbn; apply Nat.eqb_refl. Qed.
Lemma opool_eqb_refl p : opool_eqb p p = true.
Proof. destruct p; cbn; auto using pool_eqb_refl. Qed.

Lemma all_read_ok s p : forall n d, dsize d <= n -> (forall x, In x (cells_of d) -> sget s x = p) -> all_read s p d = true.
Proof.
  induction n as [|n IH]; intros d Hn H; [destruct d; cbn in Hn; lia|].
  destruct d as [c bs]. cbn [all_read]. apply andb_true_intro. split.
  - rewrite (H c) by (cbn; auto). apply opool_eqb_refl.
  - apply forallb_forall. intros d' Hd'. apply IH.
    + pose proof (dsize_in d' bs Hd'). cbn [dsize] in Hn. lia.
    + intros x Hx. apply H. cbn [cells_of]. right. apply in_concat. exists (cells_of d'). split; auto. now apply in_map.
Qed.

(* ---- the store ---- *)
Lemma sget_sset_same s c v : sget (sset s c v) c = v.
Proof. cbn. now rewrite Nat.eqb_refl. Qed.
Lemma sget_sset_other s c c' v : c <> c' -> sget (sset s c' v) c = sget s c.
Proof. intros H. cbn. destruct (Nat.eqb_spec c c'); [contradiction|reflexivity]. Qed.

Lemma share_in v : forall N s c, In c N -> sget (fold_left (fun acc n => sset acc n v) N s) c = v.
Proof.
  induction N as [|n N IH]; intros s c H; [destruct H|]. cbn [fold_left].
  destruct (in_dec Nat.eq_dec c N) as [I|NI]; [now apply IH|].
  destruct H as [->|H]; [|contradiction].
  clear IH. revert s. induction N as [|m N IHN]; intros s; cbn [fold_left]; [apply sget_sset_same|].
  assert (c <> m) by (intros ->; apply NI; now left).
  assert (NI' : ~ In c N) by (intros X; apply NI; now right).
  specialize (IHN NI'). (* commute the two writes *)
  assert (G : forall s1 s2, (forall y, sget s1 y = sget s2 y) ->
              forall y, sget (fold_left (fun acc n => sset acc n v) N s1) y = sget (fold_left (fun acc n => sset acc n v) N s2) y).
  { clear. induction N as [|k N IH]; intros s1 s2 E y; cbn [fold_left]; auto. apply IH. intros z. cbn. destruct (Nat.eqb z k); auto. }
  rewrite (G (sset (sset s c v) m v) (sset (sset s m v) c v)).
  - apply IHN.
  - intros y. cbn. destruct (Nat.eqb_spec y m), (Nat.eqb_spec y c); auto.
Qed.
Lemma share_notin v : forall N s c, ~ In c N -> sget (fold_left (fun acc n => sset acc n v) N s) c = sget s c.
Proof.
  induction N as [|n N IH]; intros s c H; cbn [fold_left]; auto.
  rewrite IH by (intros X; apply H; now right). apply sget_sset_other. intros ->. apply H. now left.
Qed.

Lemma fill_some s c : exists p, sget (s_store (fill s c)) c = Some p.
Proof. unfold fill. destruct (sget (s_store s) c) eqn:E; [eauto|]. cbn [s_store]. rewrite sget_sset_same. eauto. Qed.
Lemma fill_other s c y : y <> c -> sget (s_store (fill s c)) y = sget (s_store s) y.
Proof. intros H. unfold fill. destruct (sget (s_store s) c); auto. cbn [s_store]. now apply sget_sset_other. Qed.
Lemma fill_keeps s c p : sget (s_store s) c = Some p -> fill s c = s.
Proof. intros H. unfold fill. now rewrite H. Qed.
Lemma fill_next s c : s_next_cell (fill s c) = s_next_cell s.
Proof. unfold fill. destruct (sget (s_store s) c); reflexivity. Qed.

(* ---- unfolding the nested recursion ---- *)
Lemma run_op_batch fixed sub b s :
  run_op fixed (OpBatch sub) (b, s) =
  let c' := s_next_cell s in
  let '(bsub, s1) := run_ops fixed sub (mkBld c' [] [], mkSt (s_store s) (S c') (s_next_default s)) in
  (mkBld (b_cell b) (if fixed then b_nested b ++ (c' :: b_nested bsub) else b_nested b)
         (b_batches b ++ [Disp (b_cell b) (b_batches bsub)]), fill s1 (b_cell b)).
Proof. reflexivity. Qed.

(* ---- the invariant of a builder being filled (code after the fix) ---- *)
Definition covered (b : bld) : Prop := forall x, In x (cells_all (b_batches b)) -> In x (b_cell b :: b_nested b).

Lemma run_ops_covered : forall n ops b s,
  size_ops ops <= n -> covered b ->
  let '(b', s') := run_ops true ops (b, s) in b_cell b' = b_cell b /\ covered b'.
Proof.
  induction n as [|n IH]; intros ops b s Hn Hc.
  - destruct ops as [|o r]; [cbn; auto|]. exfalso. destruct o; cbn in Hn; lia.
  - destruct ops as [|o r]; [cbn; auto|]. cbn [run_ops].
    assert (Hr : size_ops r <= n) by (destruct o; cbn in Hn; lia).
    destruct o as [k|sub].
    + cbn [run_op]. apply IH; auto.
    + rewrite run_op_batch. cbn zeta.
      assert (Hs : size_ops sub <= n).
      { cbn [size_ops size_op] in Hn.
        change ((fix go (l : list bop) : nat := match l with [] => 0 | o' :: l' => size_op o' + go l' end) sub) with (size_ops sub) in Hn. lia. }
      pose proof (IH sub (mkBld (s_next_cell s) [] []) (mkSt (s_store s) (S (s_next_cell s)) (s_next_default s)) Hs) as Isub.
      destruct (run_ops true sub (mkBld (s_next_cell s) [] [], mkSt (s_store s) (S (s_next_cell s)) (s_next_default s))) as [bsub s1].
      destruct Isub as [Ec Cs]; [intros x Hx; destruct Hx|]. cbn [b_cell] in Ec.
      match goal with |- context [run_ops true r (?B, ?S)] => pose proof (IH r B S Hr) as Irest; destruct (run_ops true r (B, S)) as [b' s'] end.
      cbn [b_cell b_nested b_batches] in Irest. apply Irest.
      intros x Hx. unfold cells_all in Hx. cbn [b_batches] in Hx. rewrite map_app, concat_app in Hx. apply in_app_or in Hx.
      cbn [b_cell b_nested]. destruct Hx as [Hx|Hx].
      * destruct (Hc x Hx) as [->|H]; [now left|]. right. apply in_or_app. now left.
      * cbn [map concat cells_of] in Hx. rewrite app_nil_r in Hx. destruct Hx as [<-|Hx]; [now left|].
        right. apply in_or_app. right. fold (cells_all (b_batches bsub)) in Hx.
        destruct (Cs x Hx) as [<-|H]; [left; auto|right; exact H].
Qed.

(* THEOREM 1: after the outermost build every dispatcher of the tree reads the same pool as the outermost one *)
Theorem every_dispatcher_reads_the_root_pool ops : uniform (build_root true ops) = true.
Proof.
  unfold build_root.
  pose proof (run_ops_covered (size_ops ops) ops (mkBld 0 [] []) (mkSt [] 1 0) (le_n _)) as I.
  destruct (run_ops true ops (mkBld 0 [] [], mkSt [] 1 0)) as [b s].
  destruct I as [Ec Cv]; [intros x Hx; destruct Hx|].
  unfold uniform, root_pool. cbn [fst snd share s_store].
  set (s1 := fill s (b_cell b)). set (p := sget (s_store s1) (b_cell b)).
  assert (G : forall x, In x (b_cell b :: b_nested b) ->
              sget (fold_left (fun acc n => sset acc n p) (b_nested b) (s_store s1)) x = p).
  { intros x Hx. destruct (in_dec Nat.eq_dec x (b_nested b)) as [I|NI].
    - now apply share_in.
    - rewrite share_notin by exact NI. destruct Hx as [<-|Hx]; [reflexivity|contradiction]. }
  rewrite (G (b_cell b)) by now left.
  apply (all_read_ok _ _ (dsize (Disp (b_cell b) (b_batches b)))); [lia|].
  intros x Hx. apply G. cbn [cells_of] in Hx. destruct Hx as [<-|Hx]; [now left|]. apply Cv. exact Hx.
Qed.

(* ... in the terms the suite observes: every entry of [node_pools] is the root's pool *)
Lemma all_read_forall s p : forall n d, dsize d <= n -> all_read s p d = true -> Forall (fun c => opool_eqb (sget s c) p = true) (cells_of d).
Proof.
  induction n as [|n IH]; intros d Hn H; [destruct d; cbn in Hn; lia|].
  destruct d as [c bs]. cbn [all_read] in H. apply andb_prop in H. destruct H as [H1 H2]. cbn [cells_of]. constructor; [exact H1|].
  rewrite forallb_forall in H2. apply Forall_forall. intros x Hx. apply in_concat in Hx. destruct Hx as (l & Hl & Hx).
  apply in_map_iff in Hl. destruct Hl as (d' & <- & Hd').
  assert (F : Forall (fun c => opool_eqb (sget s c) p = true) (cells_of d')).
  { apply IH; [pose proof (dsize_in d' bs Hd'); cbn [dsize] in Hn; lia|auto]. }
  rewrite Forall_forall in F. auto.
Qed.

Corollary node_pools_uniform ops :
  Forall (fun q => opool_eqb q (root_pool (build_root true ops)) = true) (node_pools (build_root true ops)).
Proof.
  pose proof (every_dispatcher_reads_the_root_pool ops) as U. unfold uniform in U.
  unfold node_pools. apply Forall_forall. intros q Hq. apply in_map_iff in Hq. destruct Hq as (c & <- & Hc).
  pose proof (all_read_forall _ _ _ _ (le_n _) U) as F. rewrite Forall_forall in F. auto.
Qed.

(* ---- which pool that is ---- *)
Definition well (b : bld) (s : st) : Prop := b_cell b < s_next_cell s.

Lemma run_ops_frame : forall n ops b s,
  size_ops ops <= n -> well b s ->
  let '(b', s') := run_ops true ops (b, s) in
  b_cell b' = b_cell b /\ s_next_cell s <= s_next_cell s' /\
  (forall y, y < b_cell b -> sget (s_store s') y = sget (s_store s) y) /\
  match last_pool ops None with
  | Some k => sget (s_store s') (b_cell b) = Some (User k)
  | None => sget (s_store s') (b_cell b) = sget (s_store s) (b_cell b) \/
            (sget (s_store s) (b_cell b) = None /\ exists d, sget (s_store s') (b_cell b) = Some (Default d))
  end.
Proof.
  induction n as [|n IH]; intros ops b s Hn Hw.
  - destruct ops as [|o r]; [cbn; repeat split; auto|]. exfalso. destruct o; cbn in Hn; lia.
  - destruct ops as [|o r]; [cbn; repeat split; auto|]. cbn [run_ops].
    assert (Hr : size_ops r <= n) by (destruct o; cbn in Hn; lia).
    destruct o as [k|sub].
    + cbn [run_op last_pool].
      match goal with |- context [run_ops true r (?B, ?S)] => pose proof (IH r B S Hr) as Irest; destruct (run_ops true r (B, S)) as [b' s'] end.
      cbn [b_cell s_next_cell s_store] in Irest. destruct Irest as (E1 & E2 & E3 & E4); [exact Hw|].
      split; [exact E1|]. split; [exact E2|]. split.
      * intros y Hy. rewrite (E3 y Hy). apply sget_sset_other. lia.
      * assert (L : forall acc, last_pool r (Some acc) = match last_pool r None with Some k' => Some k' | None => Some acc end).
        { clear. induction r as [|o r IHr]; intros acc; cbn [last_pool]; auto. destruct o as [k|sub]; [|apply IHr].
          rewrite (IHr k). destruct (last_pool r None); reflexivity. }
        rewrite L. destruct (last_pool r None) as [k'|]; [exact E4|].
        destruct E4 as [E4|(E4 & _)]; [rewrite E4; apply sget_sset_same|rewrite sget_sset_same in E4; discriminate].
    + rewrite run_op_batch. cbn zeta. cbn [last_pool].
      assert (Hs : size_ops sub <= n).
      { cbn [size_ops size_op] in Hn.
        change ((fix go (l : list bop) : nat := match l with [] => 0 | o' :: l' => size_op o' + go l' end) sub) with (size_ops sub) in Hn. lia. }
      pose proof (IH sub (mkBld (s_next_cell s) [] []) (mkSt (s_store s) (S (s_next_cell s)) (s_next_default s)) Hs) as Isub.
      destruct (run_ops true sub (mkBld (s_next_cell s) [] [], mkSt (s_store s) (S (s_next_cell s)) (s_next_default s))) as [bsub s1].
      cbn [b_cell s_next_cell s_store] in Isub. destruct Isub as (_ & N1 & F1 & _); [unfold well; cbn; lia|].
      unfold well in Hw.
      match goal with |- context [run_ops true r (?B, ?S)] => pose proof (IH r B S Hr) as Irest; destruct (run_ops true r (B, S)) as [b' s'] end.
      unfold well in Irest. cbn [b_cell] in Irest. rewrite !fill_next in Irest. destruct Irest as (E1 & E2 & E3 & E4); [lia|].
      split; [exact E1|]. split; [lia|]. split.
      * intros y Hy. rewrite (E3 y Hy), fill_other by lia. apply F1. lia.
      * assert (Fc : sget (s_store s1) (b_cell b) = sget (s_store s) (b_cell b)) by (apply F1; lia).
        destruct (last_pool r None) as [k'|]; [exact E4|].
        destruct (sget (s_store s) (b_cell b)) as [p0|] eqn:V0.
        -- left. rewrite (fill_keeps s1 (b_cell b) p0) in E4 by (rewrite Fc; reflexivity).
           destruct E4 as [E4|(E4 & _)]; [rewrite E4; exact Fc|rewrite Fc in E4; discriminate].
        -- right. split; [reflexivity|].
           unfold fill in E4. rewrite Fc in E4. cbn [s_store] in E4. rewrite sget_sset_same in E4.
           destruct E4 as [E4|(E4 & _)]; [eauto|discriminate].
Qed.

(* THEOREM 2: the pool of the whole tree is the last one attached to the outermost builder, or else a default pool *)
Theorem root_pool_is_the_attached_one ops :
  match last_pool ops None with
  | Some k => root_pool (build_root true ops) = Some (User k)
  | None => exists d, root_pool (build_root true ops) = Some (Default d)
  end.
Proof.
  unfold build_root.
  pose proof (run_ops_frame (size_ops ops) ops (mkBld 0 [] []) (mkSt [] 1 0) (le_n _)) as I.
  destruct (run_ops true ops (mkBld 0 [] [], mkSt [] 1 0)) as [b s].
  destruct I as (Ec & _ & _ & E); [unfold well; cbn; lia|]. cbn [b_cell s_store] in E, Ec.
  unfold root_pool. cbn [fst snd share s_store].
  assert (R : forall p, sget (s_store (fill s (b_cell b))) (b_cell b) = p ->
              sget (fold_left (fun acc n => sset acc n p) (b_nested b) (s_store (fill s (b_cell b)))) (b_cell b) = p).
  { intros p Hp. destruct (in_dec Nat.eq_dec (b_cell b) (b_nested b)) as [I|NI]; [now apply share_in|now rewrite share_notin]. }
  rewrite Ec in *.
  destruct (last_pool ops None) as [k|].
  - assert (V : sget (s_store (fill s 0)) 0 = Some (User k)) by (rewrite (fill_keeps s 0 (User k) E); exact E).
    rewrite V. apply R. exact V.
  - destruct E as [E|(_ & d & E)].
    + cbn in E. destruct (fill_some s 0) as (p & V).
      assert (exists d, p = Default d) as (d & ->).
      { unfold fill in V. rewrite E in V. cbn [s_store] in V. rewrite sget_sset_same in V. inversion V. eauto. }
      exists d. rewrite V. apply R. exact V.
    + assert (V : sget (s_store (fill s 0)) 0 = Some (Default d)) by (rewrite (fill_keeps s 0 (Default d) E); exact E).
      exists d. rewrite V. apply R. exact V.
Qed.
