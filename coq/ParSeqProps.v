(* ParSeqProps.v — C16: theorems about Par/Seq trees of any depth and fan-out. *)
From Shred Require Import Base Plan PlanLemmas Exec ExecProps ParSeq.
From Coq Require Import Permutation.
Open Scope N_scope.

Section TreeInd.
  Variable P : tree -> Prop.
  Hypothesis Hleaf : forall x r w, P (TLeaf x r w).
  Hypothesis Hpar : forall l, Forall P l -> P (TPar l).
  Hypothesis Hseq : forall l, Forall P l -> P (TSeq l).
  Fixpoint tree_ind' (t : tree) : P t :=
    match t with
    | TLeaf x r w => Hleaf x r w
    | TPar l => Hpar l ((fix go (l : list tree) : Forall P l :=
                           match l with [] => Forall_nil P | c :: r => Forall_cons c (tree_ind' c) (go r) end) l)
    | TSeq l => Hseq l ((fix go (l : list tree) : Forall P l :=
                           match l with [] => Forall_nil P | c :: r => Forall_cons c (tree_ind' c) (go r) end) l)
    end.
End TreeInd.

Lemma t_leaves_par l : t_leaves (TPar l) = concat (map t_leaves l).
Proof. induction l as [|c r IH]; [reflexivity|]. cbn [map concat]. rewrite <- IH. reflexivity. Qed.
Lemma t_leaves_seq l : t_leaves (TSeq l) = concat (map t_leaves l).
Proof. induction l as [|c r IH]; [reflexivity|]. cbn [map concat]. rewrite <- IH. reflexivity. Qed.
Lemma t_reads_par l : t_reads (TPar l) = concat (map t_reads l).
Proof. induction l as [|c r IH]; [reflexivity|]. cbn [map concat]. rewrite <- IH. reflexivity. Qed.
Lemma t_reads_seq l : t_reads (TSeq l) = concat (map t_reads l).
Proof. induction l as [|c r IH]; [reflexivity|]. cbn [map concat]. rewrite <- IH. reflexivity. Qed.
Lemma t_writes_par l : t_writes (TPar l) = concat (map t_writes l).
Proof. induction l as [|c r IH]; [reflexivity|]. cbn [map concat]. rewrite <- IH. reflexivity. Qed.
Lemma t_writes_seq l : t_writes (TSeq l) = concat (map t_writes l).
Proof. induction l as [|c r IH]; [reflexivity|]. cbn [map concat]. rewrite <- IH. reflexivity. Qed.
Lemma seq_trace_par l : seq_trace (TPar l) = concat (map seq_trace l).
Proof. induction l as [|c r IH]; [reflexivity|]. cbn [map concat]. rewrite <- IH. reflexivity. Qed.
Lemma seq_trace_seq l : seq_trace (TSeq l) = concat (map seq_trace l).
Proof. induction l as [|c r IH]; [reflexivity|]. cbn [map concat]. rewrite <- IH. reflexivity. Qed.

(* the traces of the children of a node *)
Fixpoint kids_traces (l : list tree) (ts : list (list ev)) : Prop :=
  match l, ts with
  | [], [] => True
  | c :: r, t1 :: ts' => tr_tree c t1 /\ kids_traces r ts'
  | _, _ => False
  end.
Lemma tr_par l tr : tr_tree (TPar l) tr <-> exists ts, kids_traces l ts /\ ShuffleN ts tr.
Proof.
  cbn [tr_tree]. split; intros (ts & H & S); exists ts; split; auto; revert ts H; clear;
    induction l as [|c r IH]; intros [|t1 ts]; cbn; auto; intros [H1 H2]; split; auto.
Qed.
Lemma tr_seq l tr : tr_tree (TSeq l) tr <-> exists ts, kids_traces l ts /\ tr = concat ts.
Proof.
  cbn [tr_tree]. revert tr. induction l as [|c r IH]; intros tr.
  - split; [intros ->; exists []; cbn; auto|intros ([|? ?] & H & ->); cbn in *; tauto].
  - split.
    + intros (t1 & t2 & H1 & H2 & ->). apply IH in H2. destruct H2 as (ts & Hk & ->). exists (t1 :: ts). cbn. auto.
    + intros ([|t1 ts] & H & ->); cbn in H; [tauto|]. destruct H as [H1 H2]. exists t1, (concat ts). split; auto. split; auto.
      apply IH. eauto.
Qed.

(* ---------------- every leaf exactly once ---------------- *)

(* C16: every trace of a tree is a rearrangement of the sequential trace: every leaf is fetched
   once and released once, nothing else happens *)
Theorem tree_once t : forall tr, tr_tree t tr -> Permutation tr (seq_trace t).
Proof.
  induction t as [x r w|l IH|l IH] using tree_ind'; intros tr H.
  - cbn in H. subst. reflexivity.
  - apply tr_par in H. destruct H as (ts & Hk & S). rewrite seq_trace_par.
    etransitivity; [apply shuffleN_perm; eauto|].
    clear S. revert ts Hk. induction IH as [|c r Hc _ IHr]; intros [|t1 ts] Hk; cbn in Hk; try tauto; [reflexivity|].
    destruct Hk as [H1 H2]. cbn [map concat]. apply Permutation_app; auto.
  - apply tr_seq in H. destruct H as (ts & Hk & ->). rewrite seq_trace_seq.
    revert ts Hk. induction IH as [|c r Hc _ IHr]; intros [|t1 ts] Hk; cbn in Hk; try tauto; [reflexivity|].
    destruct Hk as [H1 H2]. cbn [map concat]. apply Permutation_app; auto.
Qed.

Lemma seq_trace_In t e : In e (seq_trace t) <-> In (ev_tag e) (t_leaves t).
Proof.
  induction t as [x r w|l IH|l IH] using tree_ind'.
  - cbn. destruct e; cbn; intuition congruence.
  - rewrite seq_trace_par, t_leaves_par. induction IH as [|c r Hc _ IHr]; cbn [map concat]; [tauto|].
    rewrite !in_app_iff, Hc, IHr. tauto.
  - rewrite seq_trace_seq, t_leaves_seq. induction IH as [|c r Hc _ IHr]; cbn [map concat]; [tauto|].
    rewrite !in_app_iff, Hc, IHr. tauto.
Qed.

Lemma tr_tree_In t tr e : tr_tree t tr -> (In e tr <-> In (ev_tag e) (t_leaves t)).
Proof.
  intros H. rewrite <- seq_trace_In. pose proof (tree_once t tr H) as P. split; apply Permutation_in; auto. now symmetry.
Qed.

(* ---------------- seq: earlier children finish before later children start ---------------- *)

(* x lies in an earlier child than y of some seq node of the tree *)
Fixpoint seq_before (t : tree) (x y : N) : Prop :=
  match t with
  | TLeaf _ _ _ => False
  | TPar l => (fix go (l : list tree) : Prop := match l with [] => False | c :: r => seq_before c x y \/ go r end) l
  | TSeq l =>
      (fix go (l : list tree) : Prop := match l with [] => False | c :: r => seq_before c x y \/ go r end) l \/
      exists l1 c l2 d l3, l = l1 ++ c :: l2 ++ d :: l3 /\ In x (t_leaves c) /\ In y (t_leaves d)
  end.
Definition any_kid (l : list tree) (x y : N) : Prop := exists c, In c l /\ seq_before c x y.
Lemma seq_before_par l x y : seq_before (TPar l) x y <-> any_kid l x y.
Proof.
  cbn [seq_before]. unfold any_kid. induction l as [|c r IH]; [split; [tauto|intros (c & [] & _)]|].
  rewrite IH. split.
  - intros [H|(d & Hd & H)]; [exists c; split; auto; now left|exists d; split; auto; now right].
  - intros (d & [<-|Hd] & H); [now left|right; eauto].
Qed.
Lemma seq_before_seq l x y : seq_before (TSeq l) x y <->
  any_kid l x y \/ exists l1 c l2 d l3, l = l1 ++ c :: l2 ++ d :: l3 /\ In x (t_leaves c) /\ In y (t_leaves d).
Proof.
  cbn [seq_before]. apply or_iff_compat_r. unfold any_kid. induction l as [|c r IH]; [split; [tauto|intros (c & [] & _)]|].
  rewrite IH. split.
  - intros [H|(d & Hd & H)]; [exists c; split; auto; now left|exists d; split; auto; now right].
  - intros (d & [<-|Hd] & H); [now left|right; eauto].
Qed.

Lemma kids_traces_app : forall l1 l2 ts, kids_traces (l1 ++ l2) ts ->
  exists ts1 ts2, ts = ts1 ++ ts2 /\ kids_traces l1 ts1 /\ kids_traces l2 ts2.
Proof.
  induction l1 as [|c l1 IH]; intros l2 ts H; cbn [app] in H.
  - exists [], ts. cbn. auto.
  - destruct ts as [|t1 ts]; cbn in H; [tauto|]. destruct H as [H1 H2].
    destruct (IH _ _ H2) as (ts1 & ts2 & -> & K1 & K2). exists (t1 :: ts1), ts2. cbn. auto.
Qed.
Lemma kids_traces_in : forall l ts c, kids_traces l ts -> In c l -> exists t1, In t1 ts /\ tr_tree c t1.
Proof.
  induction l as [|d l IH]; intros [|t1 ts] c H Hc; cbn in H; try tauto; [destruct Hc|].
  destruct H as [H1 H2]. destruct Hc as [<-|Hc]; [exists t1; split; auto; now left|].
  destruct (IH _ _ H2 Hc) as (t2 & Ht2 & T2). exists t2. split; auto. now right.
Qed.

Lemma precedes_concat_in ts t1 x y : In t1 ts -> precedes x y t1 -> precedes x y (concat ts).
Proof.
  induction ts as [|t ts IH]; intros H P; [destruct H|]. destruct H as [<-|H]; cbn [concat]; [now apply precedes_app_l|apply precedes_app_r; auto].
Qed.

(* C16: in EVERY trace, every leaf of an earlier child of a seq node has released before any
   leaf of a later child fetches — at any depth, whatever surrounds the seq node *)
Theorem seq_ordered t : forall tr x y, tr_tree t tr -> seq_before t x y -> precedes (ER x) (EF y) tr.
Proof.
  induction t as [x0 r w|l IH|l IH] using tree_ind'; intros tr x y H B.
  - destruct B.
  - apply tr_par in H. destruct H as (ts & Hk & S). apply seq_before_par in B. destruct B as (c & Hc & Bc).
    destruct (kids_traces_in _ _ _ Hk Hc) as (t1 & Ht1 & T1). rewrite Forall_forall in IH.
    eapply shuffleN_precedes; eauto.
  - apply tr_seq in H. destruct H as (ts & Hk & ->). apply seq_before_seq in B.
    destruct B as [(c & Hc & Bc)|(l1 & c & l2 & d & l3 & -> & Hx & Hy)].
    + destruct (kids_traces_in _ _ _ Hk Hc) as (t1 & Ht1 & T1). rewrite Forall_forall in IH.
      eapply precedes_concat_in; eauto.
    + apply kids_traces_app in Hk. destruct Hk as (ts1 & ts' & -> & _ & K).
      destruct ts' as [|tc ts']; cbn in K; [tauto|]. destruct K as [Tc K].
      apply kids_traces_app in K. destruct K as (ts2 & ts'' & -> & _ & K).
      destruct ts'' as [|td ts3]; cbn in K; [tauto|]. destruct K as [Td _].
      rewrite concat_app. apply precedes_app_r. cbn [concat]. rewrite concat_app. cbn [concat].
      assert (In (ER x) tc) by (apply (tr_tree_In c tc (ER x) Tc); exact Hx).
      assert (In (EF y) td) by (apply (tr_tree_In d td (EF y) Td); exact Hy).
      apply precedes_app_lr; auto. apply in_or_app. right. apply in_or_app. now left.
Qed.

(* ---------------- reads / writes = union over the leaves ---------------- *)

Fixpoint leaf_accesses (t : tree) : list (N * list N * list N) :=
  match t with
  | TLeaf x r w => [(x, r, w)]
  | TPar l | TSeq l => (fix go (l : list tree) := match l with [] => [] | c :: r => leaf_accesses c ++ go r end) l
  end.
Lemma leaf_accesses_par l : leaf_accesses (TPar l) = concat (map leaf_accesses l).
Proof. induction l as [|c r IH]; [reflexivity|]. cbn [map concat]. rewrite <- IH. reflexivity. Qed.
Lemma leaf_accesses_seq l : leaf_accesses (TSeq l) = concat (map leaf_accesses l).
Proof. induction l as [|c r IH]; [reflexivity|]. cbn [map concat]. rewrite <- IH. reflexivity. Qed.

(* C16: what a node reports is the concatenation, in order, of what its leaves declare *)
Theorem tree_reads_writes t :
  t_reads t = concat (map (fun a => snd (fst a)) (leaf_accesses t)) /\
  t_writes t = concat (map snd (leaf_accesses t)).
Proof.
  induction t as [x r w|l IH|l IH] using tree_ind'.
  - cbn. now rewrite !app_nil_r.
  - rewrite t_reads_par, t_writes_par, leaf_accesses_par.
    induction IH as [|c r [Hc1 Hc2] _ [I1 I2]]; [split; reflexivity|]. cbn [map concat].
    rewrite !map_app, !concat_app, <- Hc1, <- Hc2, <- I1, <- I2. auto.
  - rewrite t_reads_seq, t_writes_seq, leaf_accesses_seq.
    induction IH as [|c r [Hc1 Hc2] _ [I1 I2]]; [split; reflexivity|]. cbn [map concat].
    rewrite !map_app, !concat_app, <- Hc1, <- Hc2, <- I1, <- I2. auto.
Qed.

(* ---------------- the debug check ---------------- *)

Definition tree_conflict (a c : tree) : bool := rw_conflict (t_reads c) (t_writes c) (t_reads a) (t_writes a).

Lemma with_conflict_spec racc wacc c :
  with_conflict racc wacc c = rw_conflict (t_reads c) (t_writes c) racc wacc.
Proof.
  unfold with_conflict, rw_conflict. rewrite intersects_app_r.
  rewrite (intersects_sym wacc (t_reads c)), (intersects_sym wacc (t_writes c)), (intersects_sym racc (t_writes c)).
  destruct (intersects (t_writes c) wacc), (intersects (t_writes c) racc), (intersects (t_reads c) wacc); reflexivity.
Qed.

(* C16: adding a child to a par node panics (debug build) exactly when its access conflicts —
   W/W, W/R or R/W — with one of the children already there *)
Theorem par_check_iff : forall l racc wacc i,
  par_check racc wacc i l = None <->
  (forall l1 c l2, l = l1 ++ c :: l2 ->
     rw_conflict (t_reads c) (t_writes c) (racc ++ concat (map t_reads l1)) (wacc ++ concat (map t_writes l1)) = false).
Proof.
  induction l as [|c l IH]; intros racc wacc i; cbn [par_check].
  - split; auto. intros _ l1 c l2 E. destruct l1; discriminate.
  - rewrite with_conflict_spec. destruct (rw_conflict (t_reads c) (t_writes c) racc wacc) eqn:C.
    + split; [discriminate|]. intros H. specialize (H [] c l eq_refl). cbn in H. rewrite !app_nil_r in H. congruence.
    + rewrite IH. split.
      * intros H [|d l1] c' l2 E; cbn [app] in E; inversion E; subst.
        -- cbn. now rewrite !app_nil_r.
        -- cbn [map concat]. rewrite !app_assoc. apply (H l1 c' l2). reflexivity.
      * intros H l1 c' l2 ->. specialize (H (c :: l1) c' l2 eq_refl). cbn [map concat] in H. now rewrite !app_assoc in H.
Qed.

Corollary par_ok_iff c l :
  par_ok (c :: l) = None <->
  (forall l1 d l2, l = l1 ++ d :: l2 ->
     rw_conflict (t_reads d) (t_writes d) (concat (map t_reads (c :: l1))) (concat (map t_writes (c :: l1))) = false).
Proof. cbn [par_ok]. rewrite par_check_iff. cbn [map concat]. reflexivity. Qed.

(* ---------------- par: children may overlap ---------------- *)

Theorem par_children_may_overlap x y r1 w1 r2 w2 :
  tr_tree (TPar [TLeaf x r1 w1; TLeaf y r2 w2]) [EF x; EF y; ER x; ER y].
Proof.
  apply tr_par. exists [[EF x; ER x]; [EF y; ER y]]. split; [cbn; auto|].
  econstructor; [econstructor; [constructor|]|]; repeat constructor.
Qed.
