(* ExecPlan.v — the planner theorems carried to EVERY trace of the executor model: what the
   layout promises statically (PlanProps) holds at run time in every interleaving
   (ExecProps).  Events carry the harness tag of the system object. *)
From Shred Require Import Base SrcParams Plan PlanObs PlanLemmas PlanInv PlanLoc PlanBuild PlanProps Exec ExecProps.
From Coq Require Import Permutation.

Lemma map_inj_in {A B} (f : A -> B) (l : list A) x y :
  NoDup (map f l) -> In x l -> In y l -> f x = f y -> x = y.
Proof.
  induction l as [|z l IH]; cbn; intros ND Hx Hy E; [destruct Hx|].
  inversion ND as [|? ? Hn ND']; subst.
  destruct Hx as [->|Hx], Hy as [->|Hy]; auto.
  - exfalso. apply Hn. rewrite E. now apply in_map.
  - exfalso. apply Hn. rewrite <- E. now apply in_map.
Qed.

Lemma nth_error_map_some {A B} (f : A -> B) l k y :
  nth_error (map f l) k = Some y -> exists x, nth_error l k = Some x /\ f x = y.
Proof.
  revert k. induction l as [|z l IH]; intros [|k]; cbn; intros H; try discriminate.
  - inversion H. eauto.
  - auto.
Qed.

Lemma placed_ids_nodup b done : binv b done -> NoDup (map s_id (placed b)).
Proof. intros I. unfold placed. rewrite <- (all_ids_members _ (bi_stages _ _ I)). eapply binv_nodup; eauto. Qed.

Lemma in_stage_placed (b : builder) st g x : In st (b_stages b) -> In g st -> In x (g_mem g) -> In x (placed b).
Proof.
  intros Hst Hg Hx. unfold placed, members. apply in_concat. exists (g_mem g). split; auto.
  apply in_map. apply in_concat. exists st. auto.
Qed.

Lemma layout_tags_nth b k st : nth_error (b_stages b) k = Some st ->
  nth_error (layout_tags b) k = Some (map (fun g => map s_tag (g_mem g)) st).
Proof. intros H. unfold layout_tags. now apply map_nth_error. Qed.

Lemma at_stage_member b done k id : binv b done -> at_stage (b_stages b) k id ->
  exists st g x, nth_error (b_stages b) k = Some st /\ In g st /\ In x (g_mem g) /\ s_id x = id.
Proof.
  intros I (st & Hn & Hin). exists st.
  pose proof (bi_stages _ _ I) as Hok. rewrite Forall_forall in Hok.
  pose proof (sk_groups _ (Hok st (nth_error_In _ _ Hn))) as G.
  unfold stage_ids in Hin. apply in_concat in Hin. destruct Hin as (ids & Hids & Hin).
  apply in_map_iff in Hids. destruct Hids as (g & <- & Hg).
  rewrite Forall_forall in G. rewrite (gk_ids _ (G g Hg)) in Hin.
  apply in_map_iff in Hin. destruct Hin as (x & Hx & Hxin). exists g, x. auto.
Qed.

Lemma tag_in_stage st g (x : sys) : In g st -> In x (g_mem g) ->
  In (s_tag x) (concat (map (fun g => map s_tag (g_mem g)) st)).
Proof. intros Hg Hx. apply in_concat. exists (map s_tag (g_mem g)). split; [now apply (in_map (fun g => map s_tag (g_mem g)))|now apply in_map]. Qed.

(* placement in front (by SystemId, as the planner invariant states it) means placement in
   front in the executed layout of system objects *)
Lemma before_lay_before b done a c :
  binv b done -> In a (placed b) -> In c (placed b) ->
  before (b_stages b) (s_id a) (s_id c) -> lay_before (layout_tags b) (s_tag a) (s_tag c).
Proof.
  intros I Ha Hc [ (kd & ks & Hlt & Hd & Hs) | (k & st & gi & grp & l1 & l2 & l3 & Hk & Hg & E) ].
  - left.
    destruct (at_stage_member b done kd _ I Hd) as (sd & g1 & x & Hn1 & Hg1 & Hx & Ex).
    destruct (at_stage_member b done ks _ I Hs) as (ss & g2 & y & Hn2 & Hg2 & Hy & Ey).
    pose proof (placed_ids_nodup b done I) as NDi.
    assert (Px : In x (placed b)) by (apply (in_stage_placed b sd g1 x); auto; eapply nth_error_In; eauto).
    assert (Py : In y (placed b)) by (apply (in_stage_placed b ss g2 y); auto; eapply nth_error_In; eauto).
    assert (x = a) by (apply (map_inj_in s_id (placed b)); auto).
    assert (y = c) by (apply (map_inj_in s_id (placed b)); auto).
    subst x y.
    exists kd, ks, (map (fun g => map s_tag (g_mem g)) sd), (map (fun g => map s_tag (g_mem g)) ss).
    repeat split; auto using layout_tags_nth; eapply tag_in_stage; eauto.
  - right.
    pose proof (bi_stages _ _ I) as Hok. rewrite Forall_forall in Hok.
    pose proof (sk_groups _ (Hok st (nth_error_In _ _ Hk))) as G. rewrite Forall_forall in G.
    pose proof (nth_error_In _ _ Hg) as Hgin.
    rewrite (gk_ids _ (G grp Hgin)) in E.
    apply map_eq_app in E. destruct E as (m1 & r1 & Em & E1 & E2).
    apply map_eq_cons in E2. destruct E2 as (x & r2 & -> & Ex & E2).
    apply map_eq_app in E2. destruct E2 as (m2 & r3 & -> & E2 & E3).
    apply map_eq_cons in E3. destruct E3 as (y & m3 & -> & Ey & E3).
    assert (Hxg : In x (g_mem grp)) by (rewrite Em; apply in_or_app; right; now left).
    assert (Hyg : In y (g_mem grp)) by (rewrite Em; apply in_or_app; right; right; apply in_or_app; right; now left).
    pose proof (placed_ids_nodup b done I) as NDi.
    assert (Px : In x (placed b)) by (apply (in_stage_placed b st grp x); auto; eapply nth_error_In; eauto).
    assert (Py : In y (placed b)) by (apply (in_stage_placed b st grp y); auto; eapply nth_error_In; eauto).
    assert (x = a) by (apply (map_inj_in s_id (placed b)); auto).
    assert (y = c) by (apply (map_inj_in s_id (placed b)); auto).
    subst x y.
    exists k, (map (fun g => map s_tag (g_mem g)) st), (map s_tag (g_mem grp)),
      (map s_tag m1), (map s_tag m2), (map s_tag m3).
    split; [now apply layout_tags_nth|]. split; [now apply (in_map (fun g => map s_tag (g_mem g)))|].
    rewrite Em. rewrite map_app. cbn [map]. rewrite map_app. reflexivity.
Qed.

Lemma placed_tags_nodup rs b :
  plan rs = Ok b -> Forall reg_time_ok1 rs -> NoDup (sys_tags rs) -> NoDup (flat (layout_tags b)).
Proof.
  intros H Ht ND. eapply Permutation_NoDup; [symmetry; eapply plan_exec_perm; eauto|exact ND].
Qed.

(* side by side in the layout of tags = members of different groups of one stage *)
Lemma side_by_side_members b a c :
  NoDup (flat (layout_tags b)) -> In a (placed b) -> In c (placed b) ->
  side_by_side (layout_tags b) (s_tag a) (s_tag c) ->
  exists st i j g1 g2, In st (b_stages b) /\ nth_error st i = Some g1 /\ nth_error st j = Some g2 /\ i <> j /\
                       In a (g_mem g1) /\ In c (g_mem g2).
Proof.
  intros ND Ha Hc (k & lst & i & j & t1 & t2 & Hk & Hi & Hj & Hne & Hat & Hct).
  unfold layout_tags in Hk. apply nth_error_map_some in Hk. destruct Hk as (st & Hst & <-).
  apply nth_error_map_some in Hi. destruct Hi as (g1 & Hg1 & <-).
  apply nth_error_map_some in Hj. destruct Hj as (g2 & Hg2 & <-).
  apply in_map_iff in Hat. destruct Hat as (x & Ex & Hx). apply in_map_iff in Hct. destruct Hct as (y & Ey & Hy).
  pose proof (nth_error_In _ _ Hst) as Hstin.
  rewrite flat_layout_tags in ND.
  assert (Px : In x (placed b)) by (apply (in_stage_placed b st g1 x); auto; eapply nth_error_In; eauto).
  assert (Py : In y (placed b)) by (apply (in_stage_placed b st g2 y); auto; eapply nth_error_In; eauto).
  assert (x = a) by (apply (map_inj_in s_tag (placed b)); auto).
  assert (y = c) by (apply (map_inj_in s_tag (placed b)); auto).
  subst x y. exists st, i, j, g1, g2. repeat split; auto.
Qed.

(* ---------------- C01 at run time ---------------- *)

(* In EVERY trace of a dispatch (every interleaving, every pool size) the windows
   [fetch .. release] of two systems whose declared accesses conflict are disjoint. *)
Theorem run_conflicting_windows_disjoint rs b t :
  plan rs = Ok b -> Forall reg_time_ok1 rs -> NoDup (sys_tags rs) ->
  traces_disp (layout_tags b) (b_tl b) t ->
  forall a c, In a (placed b) -> In c (placed b) -> s_tag a <> s_tag c -> sys_conflict a c = true ->
  precedes (ER (s_tag a)) (EF (s_tag c)) t \/ precedes (ER (s_tag c)) (EF (s_tag a)) t.
Proof.
  intros H Ht ND Tr a c Ha Hc Hne Hconf.
  pose proof (placed_tags_nodup rs b H Ht ND) as NDl.
  assert (Ia : In (s_tag a) (flat (layout_tags b))) by (rewrite flat_layout_tags; now apply in_map).
  assert (Ic : In (s_tag c) (flat (layout_tags b))) by (rewrite flat_layout_tags; now apply in_map).
  destruct (windows_disjoint_unless_side_by_side _ _ _ _ _ Tr NDl Ia Ic Hne) as [S|D]; auto.
  exfalso. destruct (side_by_side_members b a c NDl Ha Hc S) as (st & i & j & g1 & g2 & Hst & Hi & Hj & Hij & Hag & Hcg).
  rewrite (plan_isolated rs b H Ht st i j g1 g2 a c Hst Hi Hj Hij Hag Hcg) in Hconf. discriminate.
Qed.

(* ---------------- C02 at run time ---------------- *)

(* In EVERY trace, a system begins to fetch only after each system it depends on has released
   its data — no shared resource is needed for that. *)
Theorem run_dependency_finished_first rs b t :
  plan rs = Ok b -> Forall reg_time_ok1 rs ->
  traces_disp (layout_tags b) (b_tl b) t ->
  exists done, binv b done /\ map (fun e => o_tag (e_op e)) done = sys_tags rs /\
    forall e e', In e done -> In e' done -> In (s_id (e_sys e')) (s_deps (e_sys e)) ->
      precedes (ER (s_tag (e_sys e'))) (EF (s_tag (e_sys e))) t.
Proof.
  intros H Ht Tr. destruct (plan_inv rs b H Ht) as (done & I & Htags). exists done.
  split; [exact I|split; [exact Htags|]]. intros e e' He He' Hd.
  assert (P : forall x, In x done -> In (e_sys x) (placed b)).
  { intros x Hx. unfold placed. eapply Permutation_in; [symmetry; apply (bi_perm _ _ I)|]. unfold syss. now apply in_map. }
  eapply trace_before; eauto. eapply before_lay_before; eauto. apply (bi_deps _ _ I e He). exact Hd.
Qed.

(* ---------------- C03 at run time ---------------- *)

Theorem run_barrier_separates pre post b t :
  plan (pre ++ RBarrier :: post) = Ok b -> Forall reg_time_ok1 (pre ++ RBarrier :: post) ->
  traces_disp (layout_tags b) (b_tl b) t ->
  exists done1 done2,
    map (fun e => o_tag (e_op e)) done1 = sys_tags pre /\
    map (fun e => o_tag (e_op e)) done2 = sys_tags post /\
    forall e1 e2, In e1 done1 -> In e2 done2 ->
      precedes (ER (s_tag (e_sys e1))) (EF (s_tag (e_sys e2))) t.
Proof.
  intros H Ht Tr. destruct (plan_barrier pre post b H Ht) as (d1 & d2 & B & I & H1 & H2 & Hlo & Hhi).
  exists d1, d2. split; [exact H1|split; [exact H2|]]. intros e1 e2 He1 He2.
  assert (P : forall x, In x (d1 ++ d2) -> In (e_sys x) (placed b)).
  { intros x Hx. unfold placed. eapply Permutation_in; [symmetry; apply (bi_perm _ _ I)|]. unfold syss. now apply in_map. }
  assert (L : forall x, In x (d1 ++ d2) -> located (b_stages b) (s_id (e_sys x))).
  { intros x Hx. apply located_all_ids. rewrite (all_ids_members _ (bi_stages _ _ I)). apply in_map. now apply P. }
  destruct (L e1 (in_or_app _ _ _ (or_introl He1))) as (k1 & Hk1).
  destruct (L e2 (in_or_app _ _ _ (or_intror He2))) as (k2 & Hk2).
  pose proof (Hlo e1 k1 He1 Hk1). pose proof (Hhi e2 k2 He2 Hk2).
  eapply trace_before; eauto. eapply before_lay_before; eauto using in_or_app.
  left. exists k1, k2. repeat split; auto. lia.
Qed.

(* ---------------- C04 at run time ---------------- *)

Lemma count_group_trace x g : count_ev (EF x) (group_trace g) = count_occ_N x g /\ count_ev (ER x) (group_trace g) = count_occ_N x g.
Proof.
  unfold count_ev, count_occ_N, group_trace. induction g as [|y g [IH1 IH2]]; cbn; auto.
  rewrite N.eqb_sym. destruct (N.eqb y x); cbn; split; congruence.
Qed.

Lemma count_ev_app x a c : count_ev x (a ++ c) = (count_ev x a + count_ev x c)%nat.
Proof. unfold count_ev. now rewrite filter_app, app_length. Qed.
Lemma count_occ_N_app x a c : count_occ_N x (a ++ c) = (count_occ_N x a + count_occ_N x c)%nat.
Proof. unfold count_occ_N. now rewrite filter_app, app_length. Qed.

Lemma count_trace_seq x l tl :
  count_ev (EF x) (trace_seq l tl) = count_occ_N x (flat l ++ tl) /\
  count_ev (ER x) (trace_seq l tl) = count_occ_N x (flat l ++ tl).
Proof.
  unfold trace_seq, flat. rewrite !count_ev_app, !count_occ_N_app.
  destruct (count_group_trace x tl) as [-> ->].
  assert (forall l : lay,
    count_ev (EF x) (concat (map (fun st => concat (map group_trace st)) l)) = count_occ_N x (concat (concat l)) /\
    count_ev (ER x) (concat (map (fun st => concat (map group_trace st)) l)) = count_occ_N x (concat (concat l))) as K.
  { clear. induction l as [|st l [IH1 IH2]]; cbn [map concat]; auto.
    rewrite concat_app, !count_ev_app, count_occ_N_app, IH1, IH2.
    assert (count_ev (EF x) (concat (map group_trace st)) = count_occ_N x (concat st) /\
            count_ev (ER x) (concat (map group_trace st)) = count_occ_N x (concat st)) as [-> ->]; auto.
    induction st as [|g st [I1 I2]]; cbn [map concat]; auto.
    rewrite !count_ev_app, count_occ_N_app, I1, I2. destruct (count_group_trace x g) as [-> ->]. auto. }
  destruct (K l) as [-> ->]. auto.
Qed.

Lemma count_occ_N_perm x a c : Permutation a c -> count_occ_N x a = count_occ_N x c.
Proof. unfold count_occ_N. induction 1; cbn; auto; repeat destruct (N.eqb _ _); cbn; congruence. Qed.

Lemma count_occ_N_nodup x l : NoDup l -> In x l -> count_occ_N x l = 1%nat.
Proof.
  unfold count_occ_N. induction 1 as [|y l Hn ND IH]; cbn; intros Hin; [destruct Hin|].
  destruct Hin as [->|Hin].
  - rewrite N.eqb_refl. cbn. f_equal.
    assert (filter (N.eqb x) l = []) as ->; auto.
    clear - Hn. induction l as [|z l IH]; cbn; auto. destruct (N.eqb_spec x z); [subst; exfalso; apply Hn; now left|].
    apply IH. intros H. apply Hn. now right.
  - destruct (N.eqb_spec x y); [subst; contradiction|]. auto.
Qed.

(* One dispatch: every registered system object (ordinary or thread-local) is fetched exactly
   once and released exactly once, in EVERY trace; nothing else happens. *)
Theorem run_exactly_once rs b t :
  plan rs = Ok b -> Forall reg_time_ok1 rs -> NoDup (sys_tags rs ++ tl_tags rs) ->
  traces_disp (layout_tags b) (b_tl b) t ->
  (forall x, In x (sys_tags rs ++ tl_tags rs) -> count_ev (EF x) t = 1%nat /\ count_ev (ER x) t = 1%nat) /\
  (forall e, In e t -> In (ev_tag e) (sys_tags rs ++ tl_tags rs)).
Proof.
  intros H Ht ND Tr. pose proof (trace_perm_seq _ _ _ Tr) as P.
  assert (PP : Permutation (flat (layout_tags b) ++ b_tl b) (sys_tags rs ++ tl_tags rs)).
  { rewrite (plan_tl_order _ _ H). apply Permutation_app_tail. eapply plan_exec_perm; eauto. }
  split.
  - intros x Hx. rewrite !(count_occ_perm _ _ _ P).
    destruct (count_trace_seq x (layout_tags b) (b_tl b)) as [-> ->].
    rewrite (count_occ_N_perm x _ _ PP). split; apply count_occ_N_nodup; auto.
  - intros e He. eapply Permutation_in; [exact PP|].
    apply (Permutation_in _ P) in He. unfold trace_seq in He. apply in_app_or in He. apply in_or_app.
    destruct He as [He|He]; [left|right; now apply group_trace_In].
    fold (seq_staged (layout_tags b)) in He. now apply seq_staged_In in He.
Qed.

(* k successive dispatches: the concatenation of k traces; every system exactly k times *)
Inductive traces_rep (l : lay) (tl : list N) : nat -> list ev -> Prop :=
| TR_0 : traces_rep l tl 0 []
| TR_S k t1 t2 : traces_disp l tl t1 -> traces_rep l tl k t2 -> traces_rep l tl (S k) (t1 ++ t2).

Theorem run_k_times rs b k t :
  plan rs = Ok b -> Forall reg_time_ok1 rs -> NoDup (sys_tags rs ++ tl_tags rs) ->
  traces_rep (layout_tags b) (b_tl b) k t ->
  forall x, In x (sys_tags rs ++ tl_tags rs) -> count_ev (EF x) t = k /\ count_ev (ER x) t = k.
Proof.
  intros H Ht ND Tr x Hx. induction Tr as [|k t1 t2 T1 T2 IH]; [split; reflexivity|].
  destruct (run_exactly_once rs b t1 H Ht ND T1) as [C _]. destruct (C x Hx) as [C1 C2].
  destruct IH as [I1 I2]. rewrite !count_ev_app, C1, C2, I1, I2. auto.
Qed.

(* ---------------- C12 at run time ---------------- *)

(* thread-local systems: after every ordinary system has released, one at a time, in
   registration order *)
Theorem run_thread_locals_last rs b t :
  plan rs = Ok b -> Forall reg_time_ok1 rs ->
  traces_disp (layout_tags b) (b_tl b) t ->
  (exists t1, t = t1 ++ group_trace (tl_tags rs) /\ forall e, In e t1 -> In (ev_tag e) (sys_tags rs)) /\
  (forall s a, In s (sys_tags rs) -> In a (tl_tags rs) -> precedes (ER s) (EF a) t) /\
  (forall a c l1 l2 l3, tl_tags rs = l1 ++ a :: l2 ++ c :: l3 -> precedes (ER a) (EF c) t).
Proof.
  intros H Ht Tr. pose proof (plan_tl_order _ _ H) as Etl. rewrite Etl in Tr.
  pose proof (plan_exec_perm rs b H Ht) as P.
  split; [|split].
  - destruct (trace_tl_last _ _ _ Tr) as (t1 & E & Hall). exists t1. split; auto.
    intros e He. eapply Permutation_in; [exact P|]. now apply Hall.
  - intros s a Hs Ha. eapply trace_staged_before_tl; eauto. eapply Permutation_in; [symmetry; exact P|]. exact Hs.
  - intros a c l1 l2 l3 E. eapply trace_tl_order; eauto.
Qed.

(* every recorded trace the acceptor accepts is one of the traces the theorems quantify over *)
Theorem accepted_is_trace rs b tr :
  plan rs = Ok b -> Forall reg_time_ok1 rs -> NoDup (sys_tags rs) ->
  accept_disp (layout_tags b) (b_tl b) tr = true -> traces_disp (layout_tags b) (b_tl b) tr.
Proof. intros H Ht ND A. apply accept_sound; auto. eapply placed_tags_nodup; eauto. Qed.
