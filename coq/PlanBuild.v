(* PlanBuild.v — the builder level: one level of a registration program as a list of
   operations; the builder invariant [binv] holds in every reachable state. *)
From Shred Require Import Base SrcParams Plan PlanLemmas PlanInv PlanLoc.
From Coq Require Import Permutation.

Record opadd := mkOp {
  o_tag : N; o_name : name; o_deps : list name; o_reads : list N; o_writes : list N; o_time : Z }.
Inductive op := OAdd (a : opadd) | OTL (t : N) | OBar.

Definition run_op (o : op) (b : builder) : result builder :=
  match o with
  | OAdd a => add b (o_tag a) (o_name a) (o_deps a) (o_reads a) (o_writes a) (o_time a)
  | OTL t => Ok (add_thread_local b t)
  | OBar => Ok (add_barrier b)
  end.

Fixpoint run_ops (os : list op) (b : builder) : result builder :=
  match os with
  | [] => Ok b
  | o :: os' => b' <- run_op o b ;; run_ops os' b'
  end.

(* what a registration does to the builder of its own level *)
Definition reg_op (r : reg) : result op :=
  match r with
  | RSys tag nm deps reads writes time => Ok (OAdd (mkOp tag nm deps reads writes time))
  | RBatch tag nm deps cr cw time _ inner =>
      bi <- run_regs inner empty_builder ;;
      Ok (OAdd (mkOp tag nm deps (all_reads bi ++ cr) (all_writes bi ++ cw) time))
  | RTL t => Ok (OTL t)
  | RBarrier => Ok OBar
  end.

Lemma run_reg_op r b : run_reg r b = (o <- reg_op r ;; run_op o b).
Proof.
  destruct r as [| tag nm deps cr cw time cnt inner | |]; try reflexivity.
  assert (E : run_reg (RBatch tag nm deps cr cw time cnt inner) b =
              (bi <- run_regs inner empty_builder ;;
               add b tag nm deps (all_reads bi ++ cr) (all_writes bi ++ cw) time)) by reflexivity.
  rewrite E. cbn [reg_op]. destruct (run_regs inner empty_builder); reflexivity.
Qed.

Fixpoint regs_ops (rs : list reg) : result (list op) :=
  match rs with
  | [] => Ok []
  | r :: rs' => o <- reg_op r ;; os <- regs_ops rs' ;; Ok (o :: os)
  end.

(* a successful run of a level is a run of its operations *)
Lemma run_regs_ops : forall rs b b',
  run_regs rs b = Ok b' -> exists os, regs_ops rs = Ok os /\ run_ops os b = Ok b'.
Proof.
  induction rs as [|r rs IH]; intros b b' H; cbn [run_regs] in H.
  - inversion H; subst. exists []. auto.
  - rewrite run_reg_op in H. cbn [regs_ops].
    destruct (reg_op r) as [o|e]; cbn [bind] in *; [|discriminate].
    destruct (run_op o b) as [b1|e] eqn:R; cbn [bind] in H; [|discriminate].
    destruct (IH _ _ H) as (os & -> & Hos). cbn [bind]. exists (o :: os). split; auto.
    cbn [run_ops]. rewrite R. exact Hos.
Qed.

Lemma run_ops_app os1 : forall os2 b,
  run_ops (os1 ++ os2) b = (b1 <- run_ops os1 b ;; run_ops os2 b1).
Proof.
  induction os1 as [|o os1 IH]; intros os2 b; cbn [app run_ops bind]; auto.
  destruct (run_op o b); cbn [bind]; auto.
Qed.

(* ---------------- history entries ---------------- *)

Record entry := mkEntry { e_op : opadd; e_sys : sys; e_bar : nat (* barrier index at insertion *) }.

Definition dep_resolved (done : list entry) (n : name) (d : N) : Prop :=
  exists e, In e done /\ o_name (e_op e) = n /\ n <> [] /\ s_id (e_sys e) = d.

Record entry_ok (done : list entry) (e : entry) : Prop := {
  eo_tag : s_tag (e_sys e) = o_tag (e_op e);
  eo_reads : s_reads (e_sys e) = o_reads (e_op e);
  eo_writes : s_writes (e_sys e) = o_writes (e_op e);
  eo_time : s_time (e_sys e) = o_time (e_op e);
  eo_deps : Forall2 (dep_resolved done) (o_deps (e_op e)) (s_deps (e_sys e))
}.

Definition syss (done : list entry) : list sys := map e_sys done.

Record binv (b : builder) (done : list entry) : Prop := {
  bi_stages : Forall stage_ok (b_stages b);
  bi_perm : Permutation (members (b_stages b)) (syss done);
  bi_ids : map s_id (syss done) = map N.of_nat (seq 0 (length done));
  bi_next : b_next b = N.of_nat (length done);
  bi_names : forall n id, lookup_name n (b_names b) = Some id -> dep_resolved done n id;
  bi_names_complete : forall e, In e done -> o_name (e_op e) <> [] ->
                                lookup_name (o_name (e_op e)) (b_names b) <> None;
  bi_names_unique : forall e1 e2, In e1 done -> In e2 done -> o_name (e_op e1) = o_name (e_op e2) ->
                                  o_name (e_op e1) <> [] -> e1 = e2;
  bi_barrier : (b_barrier b <= length (b_stages b))%nat;
  bi_entries : Forall (entry_ok done) done;
  bi_deps : forall e, In e done -> forall d, In d (s_deps (e_sys e)) -> before (b_stages b) d (s_id (e_sys e));
  bi_bar_lo : forall e k, In e done -> at_stage (b_stages b) k (s_id (e_sys e)) -> (e_bar e <= k)%nat;
  bi_bar_mono : forall e, In e done -> (e_bar e <= b_barrier b)%nat
}.

Lemma binv_empty : binv empty_builder [].
Proof.
  constructor; cbn; auto; try constructor; try (intros; contradiction); try discriminate.
Qed.

Lemma Forall2_impl {A B} (P Q : A -> B -> Prop) l1 l2 :
  (forall a b, P a b -> Q a b) -> Forall2 P l1 l2 -> Forall2 Q l1 l2.
Proof. intros H F. induction F; constructor; auto. Qed.

Lemma dep_resolved_mono done more n d : dep_resolved done n d -> dep_resolved (done ++ more) n d.
Proof. intros (e & He & H). exists e. split; auto. apply in_or_app. now left. Qed.

Lemma entry_ok_mono done more e : entry_ok done e -> entry_ok (done ++ more) e.
Proof.
  intros [A B C D E]. constructor; auto.
  eapply Forall2_impl; [|exact E]. intros n d. apply dep_resolved_mono.
Qed.

(* ids handed out so far are exactly 0 .. n-1 *)
Lemma ids_lt done : map s_id (syss done) = map N.of_nat (seq 0 (length done)) ->
  forall id, In id (map s_id (syss done)) <-> (id < N.of_nat (length done))%N.
Proof.
  intros E id. rewrite E, in_map_iff. split.
  - intros (k & <- & Hk). apply in_seq in Hk. lia.
  - intros H. exists (N.to_nat id). split; [lia|]. apply in_seq. lia.
Qed.

Lemma binv_located b done id : binv b done -> (located (b_stages b) id <-> (id < b_next b)%N).
Proof.
  intros I. rewrite located_all_ids, (all_ids_members _ (bi_stages _ _ I)), (bi_next _ _ I).
  rewrite <- (ids_lt done (bi_ids _ _ I)). split; intros H.
  - apply in_map_iff in H. destruct H as (s & <- & Hs). apply in_map.
    eapply Permutation_in; [apply (bi_perm _ _ I)|]. exact Hs.
  - apply in_map_iff in H. destruct H as (s & <- & Hs). apply in_map.
    eapply Permutation_in; [symmetry; apply (bi_perm _ _ I)|]. exact Hs.
Qed.

Lemma dep_resolved_lt b done n d : binv b done -> dep_resolved done n d -> (d < b_next b)%N.
Proof.
  intros I (e & He & _ & _ & <-). rewrite (bi_next _ _ I). apply (ids_lt done (bi_ids _ _ I)).
  unfold syss. rewrite map_map. apply in_map_iff. eauto.
Qed.

Lemma resolve_deps_spec m : forall deps ids,
  resolve_deps m deps = Ok ids -> Forall2 (fun n d => lookup_name n m = Some d) deps ids.
Proof.
  induction deps as [|n deps IH]; intros ids H; cbn [resolve_deps] in H.
  - inversion H; subst. constructor.
  - destruct (lookup_name n m) as [d|] eqn:L; [|discriminate].
    destruct (resolve_deps m deps) as [ids'|e]; cbn [bind] in H; [|discriminate].
    inversion H; subst. constructor; auto.
Qed.

Lemma lookup_app_none n m k v :
  lookup_name n m = None -> lookup_name n (m ++ [(k, v)]) = if name_eqb n k then Some v else None.
Proof. induction m as [|[k' v'] m IH]; cbn; auto. destruct (name_eqb n k'); [discriminate|auto]. Qed.

Lemma lookup_app_some n m x d : lookup_name n m = Some d -> lookup_name n (m ++ x) = Some d.
Proof. induction m as [|[k' v'] m IH]; cbn; [discriminate|]. destruct (name_eqb n k'); auto. Qed.

Lemma list_eqb_eq (a : list N) : forall b, list_eqb N.eqb a b = true <-> a = b.
Proof.
  induction a as [|x a IH]; destruct b as [|y b]; cbn; split; try discriminate; auto.
  - intros H. apply andb_true_iff in H. destruct H as [H1 H2]. apply N.eqb_eq in H1. apply IH in H2. congruence.
  - intros H. inversion H; subst. rewrite N.eqb_refl. cbn. now apply IH.
Qed.

Lemma name_eqb_eq a b : name_eqb a b = true <-> a = b.
Proof. apply list_eqb_eq. Qed.

(* ---------------- add preserves the invariant ---------------- *)

Definition new_sys (b : builder) (a : opadd) (ids : list N) : sys :=
  mkSys (o_tag a) (b_next b) (o_reads a) (o_writes a) (o_time a) ids.

Lemma add_inv b a b' :
  run_op (OAdd a) b = Ok b' ->
  exists ids names' stages',
    resolve_deps (b_names b) (o_deps a) = Ok ids /\
    ((o_name a = [] /\ names' = b_names b) \/
     (o_name a <> [] /\ lookup_name (o_name a) (b_names b) = None /\ names' = b_names b ++ [(o_name a, b_next b)])) /\
    sb_insert (b_barrier b) (b_stages b) (new_sys b a ids) = Ok stages' /\
    b' = mkB (N.succ (b_next b)) names' (b_barrier b) stages' (b_tl b).
Proof.
  cbn [run_op]. unfold add.
  destruct (resolve_deps (b_names b) (o_deps a)) as [ids|e]; cbn [bind]; [|discriminate].
  destruct (is_empty_name (o_name a)) eqn:En; cbn [bind].
  - destruct (sb_insert _ _ _) as [st'|e] eqn:S; cbn [bind]; [|discriminate].
    intros H. inversion H; subst. exists ids, (b_names b), st'. repeat split; auto.
    left. split; auto. destruct (o_name a); [auto|discriminate].
  - destruct (lookup_name (o_name a) (b_names b)) eqn:L; cbn [bind]; [discriminate|].
    destruct (sb_insert _ _ _) as [st'|e] eqn:S; cbn [bind]; [|discriminate].
    intros H. inversion H; subst. exists ids, (b_names b ++ [(o_name a, b_next b)]), st'. repeat split; auto.
    right. repeat split; auto. destruct (o_name a); [discriminate|congruence].
Qed.

Lemma add_preserves b done a b' :
  binv b done -> time_ok (o_time a) -> run_op (OAdd a) b = Ok b' ->
  exists s, binv b' (done ++ [mkEntry a s (b_barrier b)]) /\ s_id s = b_next b /\
            entry_ok (done ++ [mkEntry a s (b_barrier b)]) (mkEntry a s (b_barrier b)) /\
            stages_ext (b_stages b) (b_stages b') /\ b_barrier b' = b_barrier b /\ b_tl b' = b_tl b /\
            sb_insert (b_barrier b) (b_stages b) s = Ok (b_stages b') /\
            (forall d, In d (s_deps s) -> located (b_stages b) d).
Proof.
  intros I Ht H. apply add_inv in H. destruct H as (ids & names' & stages' & Hres & Hnm & Hins & ->).
  set (s := new_sys b a ids) in *. exists s.
  set (e := mkEntry a s (b_barrier b)).
  assert (Hts : time_ok (s_time s)) by exact Ht.
  pose proof (bi_stages _ _ I) as Hst.
  assert (Hfresh : ~ located (b_stages b) (s_id s)).
  { rewrite (binv_located _ _ _ I). cbn. lia. }
  assert (Hres2 : Forall2 (dep_resolved done) (o_deps a) ids).
  { apply resolve_deps_spec in Hres. eapply Forall2_impl; [|exact Hres]. intros n d. apply (bi_names _ _ I). }
  assert (Hdloc : forall d, In d (s_deps s) -> located (b_stages b) d).
  { cbn. intros d Hd. apply (binv_located _ _ _ I).
    clear - Hres2 Hd I. induction Hres2 as [|n d' ns ds Hnd _ IH]; [destruct Hd|].
    destruct Hd as [<-|Hd]; auto. eapply dep_resolved_lt; eauto. }
  assert (Hext : stages_ext (b_stages b) stages') by (eapply sb_insert_ext; eauto).
  assert (Heok : entry_ok (done ++ [e]) e).
  { constructor; cbn; auto. eapply Forall2_impl; [|exact Hres2]. intros n d. apply dep_resolved_mono. }
  split; [|split; [reflexivity|split; [exact Heok|split; [exact Hext|split; [reflexivity|split; [reflexivity|split; [exact Hins|exact Hdloc]]]]]]].
  constructor; cbn [b_stages b_next b_names b_barrier b_tl].
  - eapply sb_insert_ok; eauto.
  - etransitivity; [eapply sb_insert_members; eauto|].
    unfold syss. rewrite map_app. cbn. etransitivity; [apply perm_skip; apply (bi_perm _ _ I)|].
    apply Permutation_cons_append.
  - unfold syss. rewrite map_app, map_app, app_length. cbn [map length].
    rewrite Nat.add_1_r, seq_S, map_app. cbn [map]. f_equal.
    + apply (bi_ids _ _ I).
    + cbn. rewrite (bi_next _ _ I). reflexivity.
  - rewrite app_length. cbn. rewrite (bi_next _ _ I). lia.
  - intros n id Hl. destruct Hnm as [[_ ->]|(Hne & Hnone & ->)].
    + apply dep_resolved_mono. now apply (bi_names _ _ I).
    + destruct (lookup_name n (b_names b)) as [d|] eqn:L.
      * rewrite (lookup_app_some _ _ _ _ L) in Hl. inversion Hl; subst.
        apply dep_resolved_mono. now apply (bi_names _ _ I).
      * rewrite (lookup_app_none _ _ _ _ L) in Hl. destruct (name_eqb n (o_name a)) eqn:E; [|discriminate].
        apply name_eqb_eq in E. inversion Hl; subst.
        exists e. repeat split; auto. apply in_or_app. right. now left.
  - intros e0 He0 Hn0. apply in_app_or in He0. destruct He0 as [He0|[<-|[]]].
    + pose proof (bi_names_complete _ _ I e0 He0 Hn0) as Hc.
      destruct Hnm as [[_ ->]|(_ & _ & ->)]; auto.
      destruct (lookup_name (o_name (e_op e0)) (b_names b)) eqn:L; [|congruence].
      rewrite (lookup_app_some _ _ _ _ L). discriminate.
    + cbn in *. destruct Hnm as [[Hem _]|(_ & Hnone & ->)]; [congruence|].
      rewrite (lookup_app_none _ _ _ _ Hnone).
      assert (name_eqb (o_name a) (o_name a) = true) as -> by now apply name_eqb_eq. discriminate.
  - intros e1 e2 H1 H2 Hn Hne. apply in_app_or in H1. apply in_app_or in H2.
    destruct H1 as [H1|[<-|[]]], H2 as [H2|[<-|[]]]; auto.
    + now apply (bi_names_unique _ _ I).
    + exfalso. cbn [e_op e] in Hn. pose proof (bi_names_complete _ _ I e1 H1 Hne) as Hc.
      destruct Hnm as [[Hem _]|(_ & Hnone & _)]; congruence.
    + exfalso. cbn [e_op e] in Hn, Hne. assert (Hne2 : o_name (e_op e2) <> []) by congruence.
      pose proof (bi_names_complete _ _ I e2 H2 Hne2) as Hc.
      destruct Hnm as [[Hem _]|(_ & Hnone & _)]; congruence.
  - pose proof (bi_barrier _ _ I) as Hb.
    assert (length (b_stages b) <= length stages')%nat; [|lia].
    destruct (Nat.le_gt_cases (length (b_stages b)) (length stages')); auto. exfalso.
    destruct (b_stages b) as [|st0 rest0] eqn:Eb; [cbn in *; lia|].
    assert (Hl : nth_error (st0 :: rest0) (length rest0) <> None) by (apply nth_error_Some; cbn; lia).
    destruct (nth_error (st0 :: rest0) (length rest0)) as [stx|] eqn:Ex; [|congruence].
    destruct (Hext _ _ Ex) as (st' & Hn' & _).
    assert (length rest0 < length stages')%nat by (apply nth_error_Some; congruence). cbn in *. lia.
  - apply Forall_app. split.
    + eapply Forall_impl; [|apply (bi_entries _ _ I)]. intros x. apply entry_ok_mono.
    + constructor; auto.
  - intros e0 He0 d Hd. apply in_app_or in He0. destruct He0 as [He0|[<-|[]]].
    + eapply before_ext; eauto. now apply (bi_deps _ _ I).
    + cbn [e_sys e]. eapply (sb_insert_deps (b_barrier b) (b_stages b) s stages'); eauto. apply (bi_barrier _ _ I).
  - intros e0 k He0 Hk. apply in_app_or in He0. destruct He0 as [He0|[<-|[]]].
    + (* an old system: its stage did not change *)
      assert (Hloc0 : located (b_stages b) (s_id (e_sys e0))).
      { apply (binv_located _ _ _ I). rewrite (bi_next _ _ I). apply (ids_lt done (bi_ids _ _ I)).
        unfold syss. rewrite map_map. apply in_map_iff. eauto. }
      destruct Hloc0 as (k0 & Hk0).
      assert (Hk0' : at_stage stages' k0 (s_id (e_sys e0))) by (eapply at_stage_ext; eauto).
      assert (k = k0).
      { (* ids are unique in stages' *)
        assert (ND : NoDup (all_ids stages')).
        { rewrite (all_ids_members stages') by (eapply sb_insert_ok; eauto).
          eapply Permutation_NoDup.
          - symmetry. apply Permutation_map. eapply sb_insert_members; eauto.
          - cbn [map]. constructor.
            + intros Hin. apply Hfresh. apply located_all_ids. now rewrite (all_ids_members _ Hst).
            + rewrite (Permutation_map s_id (bi_perm _ _ I)), (bi_ids _ _ I).
              apply FinFun.Injective_map_NoDup; [intros x y; lia|apply seq_NoDup]. }
        eapply at_stage_unique; eauto. }
      subst k0. now apply (bi_bar_lo _ _ I).
    + cbn [e_bar e e_sys] in *. eapply (sb_insert_at_barrier (b_barrier b) (b_stages b) s stages'); eauto. apply (bi_barrier _ _ I).
  - intros e0 He0. apply in_app_or in He0. destruct He0 as [He0|[<-|[]]]; cbn; auto.
    now apply (bi_bar_mono _ _ I).
Qed.

(* ---------------- every operation preserves the invariant ---------------- *)

Definition op_time_ok (o : op) : Prop := match o with OAdd a => time_ok (o_time a) | _ => True end.
Definition op_entries (o : op) (b : builder) (more : list entry) : Prop :=
  match o with
  | OAdd a => exists s, more = [mkEntry a s (b_barrier b)] /\ s_id s = b_next b
  | _ => more = []
  end.

Lemma run_op_preserves b done o b' :
  binv b done -> op_time_ok o -> run_op o b = Ok b' ->
  exists more, binv b' (done ++ more) /\ op_entries o b more /\
    stages_ext (b_stages b) (b_stages b') /\ (b_barrier b <= b_barrier b')%nat.
Proof.
  intros I Ht H. destruct o as [a|t|].
  - destruct (add_preserves b done a b' I Ht H) as (s & I' & Hid & _ & Hext & Hbar & _).
    exists [mkEntry a s (b_barrier b)]. split; auto. split; [exists s; auto|]. split; auto. lia.
  - cbn in H. inversion H; subst. exists []. rewrite app_nil_r. split; [|split; [reflexivity|split; [apply stages_ext_refl|cbn; lia]]].
    destruct I. constructor; auto.
  - cbn in H. inversion H; subst. exists []. rewrite app_nil_r.
    split; [|split; [reflexivity|split; [apply stages_ext_refl|cbn; apply (bi_barrier _ _ I)]]].
    destruct I. constructor; cbn [add_barrier b_stages b_next b_names b_barrier b_tl]; auto.
    intros e He. specialize (bi_bar_mono0 e He). lia.
Qed.

Fixpoint adds (os : list op) : list opadd :=
  match os with
  | [] => []
  | OAdd a :: r => a :: adds r
  | _ :: r => adds r
  end.

Theorem run_ops_inv : forall os b done b',
  binv b done -> Forall op_time_ok os -> run_ops os b = Ok b' ->
  exists more, binv b' (done ++ more) /\ map e_op more = adds os /\
    stages_ext (b_stages b) (b_stages b') /\ (b_barrier b <= b_barrier b')%nat /\
    Forall (fun e => (b_barrier b <= e_bar e)%nat) more.
Proof.
  induction os as [|o os IH]; intros b done b' I Ht H; cbn [run_ops] in H.
  - inversion H; subst. exists []. rewrite app_nil_r.
    split; [exact I|split; [reflexivity|split; [apply stages_ext_refl|split; [lia|constructor]]]].
  - inversion Ht as [|? ? Ho Hos]; subst.
    destruct (run_op o b) as [b1|e] eqn:R; cbn [bind] in H; [|discriminate].
    destruct (run_op_preserves _ _ _ _ I Ho R) as (m1 & I1 & Hm1 & E1 & B1).
    destruct (IH _ _ _ I1 Hos H) as (m2 & I2 & Hm2 & E2 & B2 & F2).
    exists (m1 ++ m2). rewrite app_assoc. split; auto.
    split; [|split; [eapply stages_ext_trans; eauto|split; [lia|]]].
    + rewrite map_app, Hm2. destruct o as [a|t|]; cbn in Hm1.
      * destruct Hm1 as (s & -> & _). reflexivity.
      * subst. reflexivity.
      * subst. reflexivity.
    + apply Forall_app. split.
      * destruct o as [a|t|]; cbn in Hm1.
        -- destruct Hm1 as (s & -> & _). constructor; auto.
        -- subst. constructor.
        -- subst. constructor.
      * eapply Forall_impl; [|exact F2]. intros e He. cbv beta in *. lia.
Qed.

(* totality: a well-formed operation never hits a capacity / arithmetic / index panic *)
Lemma run_op_total b done o :
  binv b done -> op_time_ok o ->
  (exists b', run_op o b = Ok b') \/
  (exists a, o = OAdd a /\
     ((exists n, In n (o_deps a) /\ lookup_name n (b_names b) = None /\ run_op o b = Err (ENoSuch n)) \/
      (o_name a <> [] /\ lookup_name (o_name a) (b_names b) <> None /\ run_op o b = Err (EDup (o_name a))))).
Proof.
  intros I Ht. destruct o as [a|t|]; [|left; eexists; reflexivity|left; eexists; reflexivity].
  cbn [run_op]. unfold add.
  destruct (resolve_deps (b_names b) (o_deps a)) as [ids|e] eqn:R; cbn [bind].
  - destruct (is_empty_name (o_name a)) eqn:En; cbn [bind].
    + destruct (sb_insert_total (b_barrier b) (b_stages b) (new_sys b a ids) (bi_stages _ _ I) Ht) as (st' & S).
      unfold new_sys in S. rewrite S. cbn [bind]. left. eexists. reflexivity.
    + destruct (lookup_name (o_name a) (b_names b)) eqn:L; cbn [bind].
      * right. exists a. split; auto. right. repeat split; auto; try congruence.
        destruct (o_name a); [discriminate|congruence].
      * destruct (sb_insert_total (b_barrier b) (b_stages b) (new_sys b a ids) (bi_stages _ _ I) Ht) as (st' & S).
        unfold new_sys in S. rewrite S. cbn [bind]. left. eexists. reflexivity.
  - right. exists a. split; auto. left.
    clear - R. revert e R. induction (o_deps a) as [|n deps IH]; intros e R; cbn [resolve_deps] in R; [discriminate|].
    destruct (lookup_name n (b_names b)) eqn:L.
    + destruct (resolve_deps (b_names b) deps) as [ids|e'] eqn:R'; cbn [bind] in R; [discriminate|].
      inversion R; subst. destruct (IH e eq_refl) as (n' & Hin & Hl & He).
      exists n'. repeat split; auto. now right.
    + inversion R; subst. exists n. repeat split; auto. now left.
Qed.
