(* WorldMap.v — C09: the world is a faithful typed map from (type, dynamic id) to one value. *)
From Shred Require Import Base World WorldProps.
From Coq Require Import Permutation.
Open Scope N_scope.

(* the abstract map *)
Definition mget (w : world) (k : key) : option value := option_map c_val (lookup k (cells w)).

Definition enabled (w : world) : Prop := guards w = [].
Lemma enabled_no_guards w : enabled w -> no_guards w = true.
Proof. unfold enabled, no_guards. now intros ->. Qed.

(* insert replaces; every other slot — in particular the same type under another dynamic id —
   is untouched *)
Theorem insert_spec w ty k v : enabled w -> ty = fst k ->
  let '(w', out) := step w (OInsert ty k v) in
  out = OUnit /\ mget w' k = Some v /\ forall k', k' <> k -> mget w' k' = mget w k'.
Proof.
  intros E T. cbn [step]. rewrite (enabled_no_guards _ E). cbn [negb]. subst ty. rewrite N.eqb_refl. cbn [negb].
  split; auto. unfold mget. cbn [cells]. split.
  - rewrite lookup_update, key_eqb_refl. reflexivity.
  - intros k' Hk. rewrite lookup_update. apply key_eqb_neq in Hk. now rewrite Hk.
Qed.

(* remove returns the stored value and empties the slot *)
Theorem remove_spec w ty k : inv w -> enabled w -> ty = fst k ->
  let '(w', out) := step w (ORemove ty k) in
  out = (match mget w k with Some v => OVal v | None => ONone end) /\
  mget w' k = None /\ forall k', k' <> k -> mget w' k' = mget w k'.
Proof.
  intros I E T. cbn [step]. rewrite (enabled_no_guards _ E). cbn [negb]. subst ty. rewrite N.eqb_refl. cbn [negb].
  unfold mget. destruct (lookup k (cells w)) as [c|] eqn:L; cbn [option_map cells].
  - split; auto. split.
    + rewrite lookup_delete by apply (i_keys _ I). now rewrite key_eqb_refl.
    + intros k' Hk. rewrite lookup_delete by apply (i_keys _ I). apply key_eqb_neq in Hk. now rewrite Hk.
  - split; auto. rewrite L. split; auto.
Qed.

(* entry-or-insert never overwrites *)
Theorem entry_spec w ty v : enabled w ->
  let '(w', out) := step w (OEntry ty v) in
  match mget w (ty, 0) with
  | Some v0 => out = OVal v0 /\ forall k, mget w' k = mget w k
  | None => out = OVal v /\ mget w' (ty, 0) = Some v /\ forall k, k <> (ty, 0) -> mget w' k = mget w k
  end.
Proof.
  intros E. cbn [step]. rewrite (enabled_no_guards _ E). cbn [negb]. unfold mget.
  destruct (lookup (ty, 0) (cells w)) as [c|] eqn:L; cbn [option_map cells set_cells].
  - split; auto.
  - split; auto. split.
    + rewrite lookup_update, key_eqb_refl. reflexivity.
    + intros k Hk. rewrite lookup_update. apply key_eqb_neq in Hk. now rewrite Hk.
Qed.

(* presence queries agree with the map *)
Theorem has_spec w k : step w (OHas k) = (w, OBool (match mget w k with Some _ => true | None => false end)).
Proof. cbn [step]. unfold mget. destruct (lookup k (cells w)); reflexivity. Qed.

(* a successful fetch yields a guard through which exactly the stored value is read *)
Theorem fetch_read_spec w fk ty k g :
  inv w -> snd (step w (OFetchOp fk ty k)) = OGuard g ->
  let w' := fst (step w (OFetchOp fk ty k)) in
  exists v, mget w k = Some v /\ snd (step w' (ORead g)) = OVal v /\ (forall k', mget w' k' = mget w k').
Proof.
  intros I. cbn [step]. destruct (N.eqb_spec ty (fst k)); cbn [negb]; [|discriminate].
  destruct (lookup k (cells w)) as [c|] eqn:L; [|destruct (fk_panics_when_absent fk); discriminate].
  destruct (acquire (c_b c) (fk_excl fk)) as [b'|] eqn:A; cbn [snd fst]; [|discriminate].
  intros H. inversion H; subst g. exists (c_val c). unfold mget. rewrite L. split; auto. split.
  - cbn [step guards cells].
    assert (F : find_guard (next_guard w) (guards w ++ [mkGuard (next_guard w) k (fk_excl fk)]) = Some (mkGuard (next_guard w) k (fk_excl fk))).
    { pose proof (i_gnext _ I) as Hn. clear - Hn. induction (guards w) as [|x gs IH]; cbn.
      - now rewrite N.eqb_refl.
      - destruct (N.eqb_spec (g_id x) (next_guard w)) as [E|E].
        + pose proof (Hn x (or_introl eq_refl)). lia.
        + apply IH. intros y Hy. apply Hn. now right. }
    rewrite F. cbn [g_key]. rewrite lookup_update, key_eqb_refl. reflexivity.
  - intros k'. cbn [cells]. rewrite lookup_update. destruct (key_eqb k' k) eqn:E; auto.
    apply key_eqb_eq in E. subst. now rewrite L.
Qed.

(* the value stored under an id always has the type named by that id *)
Theorem type_inv os k c : lookup k (cells (fst (run empty_world os))) = Some c -> c_ty c = fst k.
Proof. apply (i_ty _ (reachable_inv os)). Qed.

(* every id-taking call whose type argument disagrees with the id panics and leaves the world
   (cells and guards) unchanged *)
Definition typed_call (o : op) : option (N * key) :=
  match o with
  | OInsert ty k _ => Some (ty, k)
  | ORemove ty k => Some (ty, k)
  | OFetchOp _ ty k => Some (ty, k)
  | _ => None
  end.
Theorem mismatch_panics w o ty k :
  typed_call o = Some (ty, k) -> ty <> fst k ->
  (snd (step w o) = OPanic PWrongType \/ snd (step w o) = OPanic PNotEnabled) /\
  cells (fst (step w o)) = cells w /\ guards (fst (step w o)) = guards w.
Proof.
  intros T Hne. apply N.eqb_neq in Hne.
  destruct o; cbn in T; inversion T; subst; cbn [step].
  - destruct (no_guards w); cbn [negb]; auto. rewrite Hne. cbn. auto.
  - destruct (no_guards w); cbn [negb]; auto. rewrite Hne. cbn. auto.
  - rewrite Hne. cbn. auto.
Qed.

(* ---------------- every value is dropped exactly once ---------------- *)

Definition live (w : world) : list N := map (fun kc => fst (c_val (snd kc))) (cells w).

(* objects that come into existence with an operation (the argument of a call that is really
   made) *)
Definition created (w : world) (o : op) : list N :=
  match o with
  | OInsert _ _ v => if no_guards w then [fst v] else []
  | OEntry _ v => if no_guards w then [fst v] else []
  | _ => []
  end.

Lemma live_update_absent k c cs : lookup k cs = None ->
  Permutation (map (fun kc => fst (c_val (snd kc))) (update k c cs)) (fst (c_val c) :: map (fun kc => fst (c_val (snd kc))) cs).
Proof.
  induction cs as [|[k0 c0] cs IH]; cbn [update lookup map]; intros L; [reflexivity|].
  destruct (key_eqb k k0) eqn:E; [discriminate|]. cbn [map snd]. etransitivity; [apply perm_skip; apply IH; auto|]. apply perm_swap.
Qed.
Lemma live_update_present k c c0 cs : lookup k cs = Some c0 ->
  Permutation (fst (c_val c0) :: map (fun kc => fst (c_val (snd kc))) (update k c cs))
              (fst (c_val c) :: map (fun kc => fst (c_val (snd kc))) cs).
Proof.
  induction cs as [|[k1 c1] cs IH]; cbn [update lookup map]; intros L; [discriminate|].
  destruct (key_eqb k k1) eqn:E.
  - inversion L; subst. cbn [map snd]. apply perm_swap.
  - cbn [map snd]. etransitivity; [apply perm_swap|]. etransitivity; [apply perm_skip; apply IH; auto|]. apply perm_swap.
Qed.
Lemma live_update_same_serial k c c0 cs : lookup k cs = Some c0 -> fst (c_val c) = fst (c_val c0) ->
  map (fun kc => fst (c_val (snd kc))) (update k c cs) = map (fun kc => fst (c_val (snd kc))) cs.
Proof.
  induction cs as [|[k1 c1] cs IH]; cbn [update lookup map]; intros L E; [discriminate|].
  destruct (key_eqb k k1) eqn:E1.
  - inversion L; subst. cbn [map snd]. now rewrite E.
  - cbn [map snd]. f_equal. auto.
Qed.
Lemma live_delete k c0 cs : lookup k cs = Some c0 ->
  Permutation (fst (c_val c0) :: map (fun kc => fst (c_val (snd kc))) (delete k cs)) (map (fun kc => fst (c_val (snd kc))) cs).
Proof.
  induction cs as [|[k1 c1] cs IH]; cbn [delete lookup map]; intros L; [discriminate|].
  destruct (key_eqb k k1) eqn:E.
  - inversion L; subst. reflexivity.
  - cbn [map snd]. etransitivity; [apply perm_swap|]. apply perm_skip. auto.
Qed.

(* one step: what was dropped plus what is stored = the same before, plus what was created *)
Theorem step_accounting w o :
  Permutation (dropped (fst (step w o)) ++ live (fst (step w o))) (dropped w ++ live w ++ created w o).
Proof.
  assert (P0 : Permutation (dropped w ++ live w) (dropped w ++ live w ++ [])) by now rewrite app_nil_r.
  destruct o as [ty k v|ty k|ty v|k|k|fk ty k|g|g|g|g p]; cbn [step created].
  - destruct (no_guards w); cbn [negb fst]; [|exact P0].
    destruct (ty =? fst k); cbn [negb fst dropped live cells].
    + destruct (lookup k (cells w)) as [c0|] eqn:L.
      * rewrite <- app_assoc. apply Permutation_app_head. fold (live w).
        etransitivity; [apply (live_update_present k (mkCell ty v BFree) c0 _ L)|]. cbn. apply Permutation_cons_append.
      * rewrite app_nil_r. apply Permutation_app_head. fold (live w).
        etransitivity; [apply (live_update_absent k (mkCell ty v BFree) _ L)|]. cbn. apply Permutation_cons_append.
    + unfold live. rewrite <- app_assoc. apply Permutation_app_head. apply Permutation_app_comm.
  - destruct (no_guards w); cbn [negb fst]; [|exact P0].
    destruct (ty =? fst k); cbn [negb fst]; [|exact P0].
    destruct (lookup k (cells w)) as [c0|] eqn:L; cbn [fst dropped live cells]; [|exact P0].
    rewrite app_nil_r, <- app_assoc. apply Permutation_app_head. cbn [app]. now apply live_delete.
  - destruct (no_guards w); cbn [negb fst]; [|exact P0].
    destruct (lookup (ty, 0) (cells w)) as [c0|] eqn:L; cbn [fst dropped live cells set_cells].
    + rewrite <- app_assoc. apply Permutation_app_head. apply Permutation_app_comm.
    + apply Permutation_app_head. fold (live w).
      etransitivity; [apply (live_update_absent (ty, 0) (mkCell ty v BFree) _ L)|]. cbn. apply Permutation_cons_append.
  - exact P0.
  - destruct (no_guards w); cbn [negb fst]; [|exact P0]. destruct (lookup k (cells w)); exact P0.
  - destruct (ty =? fst k); cbn [negb fst]; [|exact P0].
    destruct (lookup k (cells w)) as [c0|] eqn:L; [|destruct (fk_panics_when_absent fk); exact P0].
    destruct (acquire (c_b c0) (fk_excl fk)); cbn [fst dropped live cells]; [|exact P0].
    rewrite app_nil_r. unfold live. cbn [cells]. erewrite live_update_same_serial; [reflexivity|exact L|reflexivity].
  - destruct (find_guard g (guards w)) as [x|]; [|exact P0]. destruct (g_excl x); [exact P0|].
    destruct (lookup (g_key x) (cells w)) as [c0|] eqn:L; [|exact P0].
    destruct (acquire (c_b c0) false); cbn [fst dropped live cells]; [|exact P0].
    rewrite app_nil_r. unfold live. cbn [cells]. erewrite live_update_same_serial; [reflexivity|exact L|reflexivity].
  - destruct (find_guard g (guards w)) as [x|]; [|exact P0].
    destruct (lookup (g_key x) (cells w)) as [c0|] eqn:L; cbn [fst dropped live cells]; [|exact P0].
    rewrite app_nil_r. unfold live. cbn [cells]. erewrite live_update_same_serial; [reflexivity|exact L|reflexivity].
  - destruct (find_guard g (guards w)) as [x|]; [|exact P0]. destruct (lookup (g_key x) (cells w)); exact P0.
  - destruct (find_guard g (guards w)) as [x|]; [|exact P0]. destruct (g_excl x); cbn [negb]; [|exact P0].
    destruct (lookup (g_key x) (cells w)) as [c0|] eqn:L; cbn [fst dropped live cells set_cells]; [|exact P0].
    rewrite app_nil_r. unfold live, set_cells. cbn [cells dropped]. erewrite live_update_same_serial; [reflexivity|exact L|reflexivity].
Qed.

Fixpoint created_run (w : world) (os : list op) : list N :=
  match os with
  | [] => []
  | o :: r => created w o ++ created_run (fst (step w o)) r
  end.

Theorem run_accounting os : forall w,
  Permutation (dropped (fst (run w os)) ++ live (fst (run w os))) (dropped w ++ live w ++ created_run w os).
Proof.
  induction os as [|o os IH]; intros w; cbn [run created_run]; [now rewrite app_nil_r|].
  pose proof (step_accounting w o) as S. specialize (IH (fst (step w o))).
  destruct (step w o) as [w1 x]. cbn [fst] in *. destruct (run w1 os) as [w2 xs]. cbn [fst] in *.
  etransitivity; [exact IH|]. rewrite app_assoc. etransitivity; [apply Permutation_app_tail; exact S|].
  rewrite <- !app_assoc. reflexivity.
Qed.

(* C09: with distinct objects, every object ever created is, at any time, either stored in
   exactly one slot or has been dropped exactly once — never both, never twice *)
Theorem dropped_exactly_once os :
  let w := fst (run empty_world os) in
  NoDup (created_run empty_world os) ->
  NoDup (dropped w ++ live w) /\ (forall s, In s (created_run empty_world os) <-> In s (dropped w) \/ In s (live w)).
Proof.
  intros w ND. pose proof (run_accounting os empty_world) as P. cbn [dropped live cells empty_world map app] in P. fold w in P.
  split.
  - eapply Permutation_NoDup; [symmetry; exact P|exact ND].
  - intros s. rewrite <- in_app_iff. split; intros H; [eapply Permutation_in; [symmetry; exact P|exact H]|eapply Permutation_in; [exact P|exact H]].
Qed.
