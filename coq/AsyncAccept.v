(* AsyncAccept.v — C15 on the recorded history itself: what it means that the acceptor of suite S7
   accepts a history of tokens (events of pool systems, events of thread-local systems with their
   thread, begin / end markers of the caller's operations). *)
From Shred Require Import Base Plan PlanLemmas Exec ExecProps Async.
Open Scope N_scope.

Definition tok_evs (t : tok) : list ev := match t with TEv e => [e] | _ => [] end.
Definition evs_of (ts : list tok) : list ev := concat (map tok_evs ts).

Lemma evs_of_app a b : evs_of (a ++ b) = evs_of a ++ evs_of b.
Proof. unfold evs_of. now rewrite map_app, concat_app. Qed.

(* the events of ordinary systems seen so far = [c_done] complete dispatches, then the running one *)
Record cinv (l : lay) (a : acc) (evs : list ev) : Prop := {
  ci_blocks : exists blocks, length blocks = c_done a /\ Forall (fun b => accept_disp l [] b = true) blocks /\
                             evs = concat blocks ++ c_prog a;
  ci_idle : c_active a = false -> c_prog a = []
}.

Lemma cinv_init l : cinv l acc_init [].
Proof. split; [exists []; cbn; auto|reflexivity]. Qed.

Lemma close_job l a evs : cinv l a evs -> (negb (c_active a) || job_complete l a) = true ->
  exists blocks, length blocks = (c_done a + (if c_active a then 1 else 0))%nat /\
                 Forall (fun b => accept_disp l [] b = true) blocks /\ evs = concat blocks.
Proof.
  intros [(blocks & L & F & E) Idle] H. destruct (c_active a) eqn:Act; cbn [negb orb] in H.
  - exists (blocks ++ [c_prog a]). split; [rewrite app_length; cbn; lia|]. split.
    + apply Forall_app. split; auto.
    + rewrite concat_app. cbn [concat]. now rewrite app_nil_r.
  - exists blocks. rewrite (Idle eq_refl) in E. rewrite app_nil_r in E. split; [lia|auto].
Qed.

Lemma acc_step_inv l tl a t a' evs : cinv l a evs -> acc_step l tl a t = Some a' -> cinv l a' (evs ++ tok_evs t).
Proof.
  intros I H. pose proof I as I0. destruct I as [(blocks & L & F & E) Idle].
  destruct t as [e|e oc|o|o]; cbn [acc_step tok_evs] in H; rewrite ?app_nil_r.
  - (* an event of an ordinary system *)
    destruct (c_active a && negb (job_complete l a)) eqn:C1.
    + inversion H; subst a'. split; cbn; [|discriminate]. exists blocks. rewrite E. now rewrite app_assoc.
    + destruct (c_want a && (negb (c_active a) || job_complete l a)) eqn:C2; [|discriminate]. inversion H; subst a'.
      apply andb_true_iff in C2. destruct C2 as [_ C2]. destruct (close_job l a evs I0 C2) as (bl & L' & F' & E').
      split; cbn; [|discriminate]. exists bl. rewrite E'. auto.
  - destruct (c_inwait a && oc && (negb (c_active a) || job_complete l a)); [|discriminate]. inversion H; subst a'.
    split; cbn; auto. exists blocks. auto.
  - destruct o; inversion H; subst a'; try exact I0; split; cbn; auto; exists blocks; auto.
  - assert (CLOSE : forall w iw ts, (negb (c_active a) || job_complete l a) = true ->
              cinv l (mkAcc false [] w iw ts (c_done a + (if c_active a then 1 else 0))) evs).
    { intros w iw ts C. destruct (close_job l a evs I0 C) as (bl & L' & F' & E'). split; cbn; auto. exists bl. rewrite app_nil_r. auto. }
    destruct o.
    + (* dispatch returned *)
      destruct (c_want a); [|inversion H; subst; exact I0].
      destruct (negb (c_active a) || job_complete l a) eqn:C; [|discriminate]. inversion H; subst a'.
      destruct (close_job l a evs I0 C) as (bl & L' & F' & E'). split; cbn; [|discriminate]. exists bl. rewrite app_nil_r. auto.
    + destruct ((negb (c_active a) || job_complete l a) && list_eqb ev_eqb (c_tlseen a) (group_trace tl)) eqn:C; [|discriminate].
      inversion H; subst a'. apply andb_true_iff in C. destruct C as [C _]. now apply CLOSE.
    + destruct (negb (c_active a) || job_complete l a) eqn:C; [|discriminate]. inversion H; subst a'. now apply CLOSE.
    + destruct (negb (c_active a) || job_complete l a) eqn:C; [|discriminate]. inversion H; subst a'. now apply CLOSE.
    + destruct (negb (c_active a) || job_complete l a) eqn:C; [|discriminate]. inversion H; subst a'. now apply CLOSE.
    + destruct (negb (c_active a) || job_complete l a) eqn:C; [|discriminate]. inversion H; subst a'. now apply CLOSE.
    + destruct b.
      * destruct (c_active a); [|discriminate]. inversion H; subst a'. exact I0.
      * destruct (negb (c_active a) || job_complete l a) eqn:C; [|discriminate]. inversion H; subst a'. now apply CLOSE.
Qed.

Lemma acc_run_inv l tl : forall ts a i a' evs, cinv l a evs -> acc_run l tl a ts i = inr a' -> cinv l a' (evs ++ evs_of ts).
Proof.
  induction ts as [|t ts IH]; intros a i a' evs I H; cbn [acc_run] in H.
  - inversion H; subst. unfold evs_of. cbn. now rewrite app_nil_r.
  - destruct (acc_step l tl a t) as [a1|] eqn:S; [|discriminate].
    change (t :: ts) with ([t] ++ ts). rewrite evs_of_app, app_assoc.
    replace (evs_of [t]) with (tok_evs t) by (unfold evs_of; cbn; now rewrite app_nil_r).
    eapply IH; [eapply acc_step_inv; eauto|eauto].
Qed.

(* the operations after whose return nothing may be running *)
Definition quiescing (o : aop) : bool :=
  match o with AWait | AWaitNoTl | AWorld | AWorldMut | ASetup | ARunning false => true | _ => false end.

(* C15: if the acceptor accepts a history that ends with the return of wait / wait_without_tl / world /
   world_mut / setup / running()=false, then the events of the ordinary systems recorded up to that return
   are a sequence of COMPLETE dispatches (each accepted by the dispatch acceptor, hence a trace of the
   model): every system of every earlier dispatch has finished and none is inside run *)
Theorem accepted_accessor_means_all_finished l tl ts o a :
  NoDup (concat (concat l)) -> quiescing o = true -> acc_run l tl acc_init (ts ++ [TEnd o]) 0 = inr a ->
  exists blocks, evs_of ts = concat blocks /\ Forall (fun b => traces_disp l [] b) blocks /\ c_active a = false.
Proof.
  intros ND Q H.
  (* split the run at the last token *)
  assert (SPLIT : forall ts1 a0 i, acc_run l tl a0 (ts1 ++ [TEnd o]) i = inr a ->
            exists a1, acc_run l tl a0 ts1 i = inr a1 /\ acc_step l tl a1 (TEnd o) = Some a).
  { induction ts1 as [|t ts1 IH]; intros a0 i R; cbn [app acc_run] in R.
    - destruct (acc_step l tl a0 (TEnd o)) as [a1|] eqn:S; [|discriminate]. cbn in R. inversion R; subst. exists a0. auto.
    - cbn [acc_run]. destruct (acc_step l tl a0 t) as [a1|]; [|discriminate]. apply IH in R. exact R. }
  destruct (SPLIT ts acc_init 0%nat H) as (a1 & R1 & S).
  pose proof (acc_run_inv l tl ts acc_init 0%nat a1 [] (cinv_init l) R1) as I1. cbn [app] in I1.
  assert (C : (negb (c_active a1) || job_complete l a1) = true /\ c_active a = false /\ c_prog a = []).
  { destruct o; try discriminate; cbn [acc_step] in S.
    - destruct ((negb (c_active a1) || job_complete l a1) && list_eqb ev_eqb (c_tlseen a1) (group_trace tl)) eqn:X; [|discriminate].
      apply andb_true_iff in X. destruct X. inversion S; subst. auto.
    - destruct (negb (c_active a1) || job_complete l a1) eqn:X; [|discriminate]. inversion S; subst. auto.
    - destruct (negb (c_active a1) || job_complete l a1) eqn:X; [|discriminate]. inversion S; subst. auto.
    - destruct (negb (c_active a1) || job_complete l a1) eqn:X; [|discriminate]. inversion S; subst. auto.
    - destruct (negb (c_active a1) || job_complete l a1) eqn:X; [|discriminate]. inversion S; subst. auto.
    - destruct b; [discriminate|]. destruct (negb (c_active a1) || job_complete l a1) eqn:X; [|discriminate]. inversion S; subst. auto. }
  destruct C as (C & Act & _). destruct (close_job l a1 (evs_of ts) I1 C) as (bl & _ & F & E).
  exists bl. split; auto. split; auto. rewrite Forall_forall in *. intros b Hb. apply accept_sound; auto.
Qed.

(* C15: running() = true is only accepted while a job that was spawned has not been consumed *)
Theorem accepted_running_true_means_job_outstanding l tl a : acc_step l tl a (TEnd (ARunning true)) <> None -> c_active a = true.
Proof. cbn [acc_step]. destruct (c_active a); auto. Qed.

(* C15 / C12: an event of a thread-local system is only accepted between the begin and the end of wait(),
   on the calling thread, when the job is complete *)
Theorem accepted_thread_local_event l tl a e oc a' : acc_step l tl a (TTl e oc) = Some a' ->
  c_inwait a = true /\ oc = true /\ (c_active a = false \/ accept_disp l [] (c_prog a) = true).
Proof.
  cbn [acc_step]. destruct (c_inwait a); [|discriminate]. destruct oc; [|discriminate]. cbn [andb].
  destruct (c_active a); cbn [negb orb]; [|auto]. unfold job_complete. destruct (accept_disp l [] (c_prog a)); [auto|discriminate].
Qed.

(* C15: an event of an ordinary system is only accepted while a dispatch is in progress: the running job
   is incomplete, or a dispatch() call has begun and the previous job is complete — no overtaking *)
Theorem accepted_pool_event l tl a e a' : acc_step l tl a (TEv e) = Some a' ->
  (c_active a = true /\ job_complete l a = false) \/
  (c_want a = true /\ (c_active a = false \/ job_complete l a = true)).
Proof.
  cbn [acc_step]. destruct (c_active a); cbn [andb negb orb].
  - destruct (job_complete l a); cbn [negb]; [|auto]. destruct (c_want a); [auto|discriminate].
  - destruct (c_want a); [auto|discriminate].
Qed.
