(* ConfluencePlan.v — C05 for the layouts the planner builds. *)
From Shred Require Import Base SrcParams Plan PlanObs PlanLemmas PlanInv PlanLoc PlanBuild PlanProps Exec ExecProps ExecPlan Confluence.
From Coq Require Import Permutation.
Open Scope N_scope.

Lemma FOP_intro_nth {A} (P : A -> A -> Prop) (l : list A) :
  (forall i j a b, (i < j)%nat -> nth_error l i = Some a -> nth_error l j = Some b -> P a b) -> ForallOrdPairs P l.
Proof.
  induction l as [|x l IH]; intros H; constructor.
  - rewrite Forall_forall. intros y Hy. apply In_nth_error in Hy. destruct Hy as (j & Hj).
    apply (H O (S j) x y); auto. lia.
  - apply IH. intros i j a b Hlt Hi Hj. apply (H (S i) (S j)); auto. lia.
Qed.

(* the layout of a planned program is isolated for any access functions that agree with the
   declarations of the placed systems *)
Theorem plan_lay_isolated rs b (R W : N -> list N) :
  plan rs = Ok b -> Forall reg_time_ok1 rs -> NoDup (sys_tags rs) ->
  (forall s, In s (placed b) -> R (s_tag s) = s_reads s /\ W (s_tag s) = s_writes s) ->
  lay_isolated R W (layout_tags b).
Proof.
  intros H Ht ND Hacc. unfold lay_isolated, layout_tags. rewrite Forall_forall. intros tst Htst.
  apply in_map_iff in Htst. destruct Htst as (st & <- & Hst).
  apply FOP_intro_nth. intros i j ta tc Hlt Hi Hj x y Hx Hy.
  apply nth_error_map_some in Hi. destruct Hi as (g1 & Hg1 & <-).
  apply nth_error_map_some in Hj. destruct Hj as (g2 & Hg2 & <-).
  apply in_map_iff in Hx. destruct Hx as (a & <- & Ha). apply in_map_iff in Hy. destruct Hy as (c & <- & Hc).
  assert (Pa : In a (placed b)) by (apply (in_stage_placed b st g1 a); auto; eapply nth_error_In; eauto).
  assert (Pc : In c (placed b)) by (apply (in_stage_placed b st g2 c); auto; eapply nth_error_In; eauto).
  unfold noconf. destruct (Hacc a Pa) as [-> ->]. destruct (Hacc c Pc) as [-> ->].
  apply (plan_isolated rs b H Ht st i j g1 g2 a c Hst Hg1 Hg2); auto. lia.
Qed.

(* C05: for every planned program, every world type and every family of effects that respect
   the declared access: EVERY trace of a parallel dispatch ends in the same world (resources
   and system states) as the sequential dispatch; also for k repeated dispatches *)
Theorem plan_par_eq_seq rs b (V : Type) (R W : N -> list N) (f : N -> world V -> world V) :
  plan rs = Ok b -> Forall reg_time_ok1 rs -> NoDup (sys_tags rs) ->
  (forall s, In s (placed b) -> R (s_tag s) = s_reads s /\ W (s_tag s) = s_writes s) ->
  (forall t, In t (sys_tags rs ++ tl_tags rs) -> respects V R W f t) ->
  forall k t, traces_rep' (layout_tags b) (b_tl b) k t ->
  forall w, weq V (run V f (rel_order t) w) (run V f (seq_rep (layout_tags b) (b_tl b) k) w).
Proof.
  intros H Ht ND Hacc Hres k t Tr w.
  apply (par_eq_seq_repeated V R W f _ _ _ _ Tr).
  - eapply plan_lay_isolated; eauto.
  - split.
    + rewrite Forall_forall. intros st Hst. rewrite Forall_forall. intros g Hg. rewrite Forall_forall. intros x Hx.
      apply Hres. apply in_or_app. left. eapply Permutation_in; [eapply plan_exec_perm; eauto|].
      unfold flat. apply in_concat. exists g. split; auto. apply in_concat. eauto.
    + rewrite Forall_forall. intros x Hx. apply Hres. apply in_or_app. right. now rewrite <- (plan_tl_order _ _ H).
Qed.
