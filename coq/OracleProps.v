(* OracleProps.v — the executable oracles of PlanObs.v (evaluated by the driver on the REAL layouts)
   tied to the theorems: (a) what an oracle's `true` means, for ANY layout, as a proposition;
   (b) on the layout the model planner builds the oracle is `true` — so an oracle can only fire on
   a real layout that differs from the model's, never on code that agrees with the model. *)
From Shred Require Import Base SrcParams Plan PlanObs PlanLemmas PlanInv PlanLoc PlanBuild PlanProps BatchProps.
From Coq Require Import Permutation.

(* ---------------- perm_b decides Permutation ---------------- *)

Lemma count_occ_N_spec x l : count_occ_N x l = count_occ N.eq_dec l x.
Proof.
  unfold count_occ_N. induction l as [|y l IH]; cbn [filter count_occ length]; auto.
  destruct (N.eqb_spec x y) as [->|Hne].
  - destruct (N.eq_dec y y) as [_|Hn]; [|congruence]. cbn [length]. now rewrite IH.
  - destruct (N.eq_dec y x) as [E|_]; [congruence|]. exact IH.
Qed.

Lemma perm_b_true l1 l2 : perm_b l1 l2 = true <-> Permutation l1 l2.
Proof.
  unfold perm_b. split.
  - intros H. apply andb_prop in H. destruct H as [_ H]. rewrite forallb_forall in H.
    apply (Permutation_count_occ N.eq_dec). intros x.
    destruct (in_dec N.eq_dec x (l1 ++ l2)) as [Hin|Hnin].
    + specialize (H x Hin). apply Nat.eqb_eq in H. now rewrite <- !count_occ_N_spec.
    + assert (~ In x l1 /\ ~ In x l2) as [N1 N2] by (split; intros Hx; apply Hnin; apply in_or_app; auto).
      rewrite (proj1 (count_occ_not_In N.eq_dec l1 x) N1), (proj1 (count_occ_not_In N.eq_dec l2 x) N2). reflexivity.
  - intros P. apply andb_true_intro. split.
    + apply Nat.eqb_eq. now apply Permutation_length.
    + apply forallb_forall. intros x _. apply Nat.eqb_eq. rewrite !count_occ_N_spec.
      now apply (Permutation_count_occ N.eq_dec).
Qed.

(* C04: the oracle says exactly: the executed layout holds the registered systems, once each *)
Theorem o_exec_perm_meaning rs l : o_exec_perm rs l = true <-> Permutation (sys_tags rs) (flat l).
Proof. apply perm_b_true. Qed.

Theorem o_exec_perm_on_model rs b :
  plan rs = Ok b -> Forall reg_time_ok1 rs -> o_exec_perm rs (layout_tags b) = true.
Proof. intros H Ht. apply o_exec_perm_meaning. symmetry. now apply plan_exec_perm. Qed.

(* ---------------- find_reg ---------------- *)

Lemma find_reg_some t rs r : find_reg t rs = Some r -> In r rs /\ reg_tag r = Some t.
Proof.
  induction rs as [|x rs IH]; cbn [find_reg]; [discriminate|].
  destruct (reg_tag x) as [t'|] eqn:Tx.
  - destruct (N.eqb_spec t' t) as [->|Hne].
    + intros H. inversion H; subst. split; [now left|exact Tx].
    + intros H. destruct (IH H). split; [now right|assumption].
  - intros H. destruct (IH H). split; [now right|assumption].
Qed.

Lemma find_reg_in t rs : In t (sys_tags rs) -> exists r, find_reg t rs = Some r.
Proof.
  induction rs as [|x rs IH]; cbn [sys_tags find_reg]; [intros []|].
  destruct (reg_tag x) as [t'|] eqn:Tx.
  - destruct (N.eqb_spec t' t) as [->|Hne]; [eauto|]. intros [E|Hin]; [congruence|auto].
  - auto.
Qed.

Lemma conflict_tags_sym rs a c : conflict_tags rs a c = conflict_tags rs c a.
Proof.
  unfold conflict_tags. destruct (find_reg a rs), (find_reg c rs); auto. unfold reg_conflict. apply rw_conflict_sym.
Qed.

(* ---------------- C01 / C07: isolation ---------------- *)

Lemma groups_isolated_spec rs st : groups_isolated rs st = true ->
  forall i j g1 g2 a c, (i < j)%nat -> nth_error st i = Some g1 -> nth_error st j = Some g2 ->
    In a g1 -> In c g2 -> conflict_tags rs a c = false.
Proof.
  induction st as [|g st IH]; intros H i j g1 g2 a c Hij Hi Hj Ha Hc.
  - destruct i; discriminate.
  - cbn [groups_isolated] in H. apply andb_prop in H. destruct H as [H1 H2].
    destruct j as [|j]; [lia|]. cbn [nth_error] in Hj. destruct i as [|i]; cbn [nth_error] in Hi.
    + inversion Hi; subst g1. rewrite forallb_forall in H1. specialize (H1 g2 (nth_error_In _ _ Hj)).
      rewrite forallb_forall in H1. specialize (H1 a Ha). rewrite forallb_forall in H1. specialize (H1 c Hc).
      now apply Bool.negb_true_iff in H1.
    + apply (IH H2 i j g1 g2 a c); auto; lia.
Qed.

(* what the oracle's `true` means on ANY layout: two systems in different groups of one stage
   are both registered and nothing declared anywhere inside them conflicts *)
Theorem o_isolated_meaning rs l : o_isolated rs l = true ->
  forall st i j g1 g2 a c, In st l -> i <> j -> nth_error st i = Some g1 -> nth_error st j = Some g2 ->
    In a g1 -> In c g2 ->
    exists ra rc, In ra rs /\ In rc rs /\ reg_tag ra = Some a /\ reg_tag rc = Some c /\ reg_conflict ra rc = false.
Proof.
  intros H st i j g1 g2 a c Hst Hij Hi Hj Ha Hc. unfold o_isolated in H. rewrite forallb_forall in H. specialize (H st Hst).
  assert (F : conflict_tags rs a c = false).
  { destruct (Nat.lt_gt_cases i j) as [X _]. destruct (X Hij) as [Hlt|Hgt].
    - eapply groups_isolated_spec; eauto.
    - rewrite conflict_tags_sym. eapply groups_isolated_spec; eauto. }
  unfold conflict_tags in F. destruct (find_reg a rs) as [ra|] eqn:Fa; [|discriminate].
  destruct (find_reg c rs) as [rc|] eqn:Fc; [|discriminate].
  destruct (find_reg_some _ _ _ Fa), (find_reg_some _ _ _ Fc). exists ra, rc. auto.
Qed.

Lemma groups_isolated_intro rs (st : list (list N)) :
  (forall i j g1 g2 a c, (i < j)%nat -> nth_error st i = Some g1 -> nth_error st j = Some g2 ->
     In a g1 -> In c g2 -> conflict_tags rs a c = false) ->
  groups_isolated rs st = true.
Proof.
  induction st as [|g st IH]; intros H; cbn [groups_isolated]; auto.
  apply andb_true_intro. split.
  - apply forallb_forall. intros g' Hg'. apply forallb_forall. intros a Ha. apply forallb_forall. intros c Hc.
    apply Bool.negb_true_iff. apply In_nth_error in Hg'. destruct Hg' as (j & Hj).
    apply (H O (S j) g g' a c); auto. lia.
  - apply IH. intros i j g1 g2 a c Hij Hi Hj. apply (H (S i) (S j) g1 g2 a c); auto. lia.
Qed.

Lemma nth_error_map_some {A B} (f : A -> B) l n y : nth_error (map f l) n = Some y -> exists x, nth_error l n = Some x /\ f x = y.
Proof.
  revert n. induction l as [|a l IH]; intros [|n]; cbn; try discriminate.
  - intros H. inversion H. eauto.
  - apply IH.
Qed.

(* on the layout the model planner builds the oracle holds: program of any length and nesting *)
Theorem o_isolated_on_model rs b :
  plan rs = Ok b -> regs_times_ok rs -> NoDup (sys_tags rs) -> o_isolated rs (layout_tags b) = true.
Proof.
  intros H Ht ND. pose proof (regs_times_ok1 _ Ht) as Ht1.
  unfold o_isolated, layout_tags. apply forallb_forall. intros stt Hstt. apply in_map_iff in Hstt.
  destruct Hstt as (st & <- & Hst). apply groups_isolated_intro.
  intros i j g1 g2 a c Hij Hi Hj Ha Hc.
  apply nth_error_map_some in Hi. destruct Hi as (G1 & Hi & <-).
  apply nth_error_map_some in Hj. destruct Hj as (G2 & Hj & <-).
  apply in_map_iff in Ha. destruct Ha as (sa & <- & Ha). apply in_map_iff in Hc. destruct Hc as (sc & <- & Hc).
  assert (Pl : forall s G k, nth_error st k = Some G -> In s (g_mem G) -> In (s_tag s) (sys_tags rs)).
  { intros s G k Hk Hs. apply (Permutation_in _ (plan_exec_perm rs b H Ht1)). rewrite flat_layout_tags. apply in_map.
    unfold placed, members. apply in_concat. exists (g_mem G). split; auto. apply in_map. apply in_concat. exists st.
    split; auto. eapply nth_error_In; eauto. }
  destruct (find_reg_in _ _ (Pl sa G1 i Hi Ha)) as (ra & Fa). destruct (find_reg_in _ _ (Pl sc G2 j Hj Hc)) as (rc & Fc).
  unfold conflict_tags. rewrite Fa, Fc. destruct (find_reg_some _ _ _ Fa) as [Ia Ta]. destruct (find_reg_some _ _ _ Fc) as [Ic Tc].
  apply (side_by_side_subtrees_do_not_conflict rs b H Ht ND st i j G1 G2 sa sc ra rc); auto. lia.
Qed.

(* ---------------- C12: sendable, C10: max threads ---------------- *)

Theorem o_sendable_on_model rs b : plan rs = Ok b -> o_sendable rs (sendable b) = true.
Proof.
  intros H. unfold o_sendable. pose proof (sendable_iff rs b H) as S.
  destruct (tl_tags rs) as [|t r] eqn:E.
  - rewrite (proj2 S eq_refl). reflexivity.
  - destruct (sendable b); [|reflexivity]. destruct S as [S _]. specialize (S eq_refl). discriminate.
Qed.

Theorem o_max_threads_on_model b : o_max_threads (layout_tags b) (max_threads b) = true.
Proof.
  unfold o_max_threads, max_threads, layout_tags. apply Nat.eqb_eq. f_equal. rewrite map_map.
  apply map_ext. intros st. now rewrite map_length.
Qed.

(* ---------------- positions: pos_of finds where a tag really is ---------------- *)

Lemma nodup_app_r {A} (a c : list A) : NoDup (a ++ c) -> NoDup c.
Proof. induction a as [|x a IH]; cbn; auto. intros H. inversion H; auto. Qed.
Lemma nodup_app_l {A} (a c : list A) : NoDup (a ++ c) -> NoDup a.
Proof.
  induction a as [|x a IH]; cbn; intros H; [constructor|]. inversion H as [|? ? Hn ND]; subst. constructor; auto.
  intros Hin. apply Hn. apply in_or_app. now left.
Qed.
Lemma nodup_app_disjoint {A} (a c : list A) x : NoDup (a ++ c) -> In x a -> ~ In x c.
Proof.
  induction a as [|y a IH]; cbn; intros H Hin; [destruct Hin|]. inversion H as [|? ? Hn ND]; subst.
  destruct Hin as [->|Hin]; [|auto]. intros Hc. apply Hn. apply in_or_app. now right.
Qed.

Lemma index_of_none t g : ~ In t g -> index_of t g = None.
Proof.
  induction g as [|x g IH]; cbn [index_of]; auto. intros H.
  destruct (N.eqb_spec x t) as [->|_]; [exfalso; apply H; now left|]. rewrite IH; auto. intros Hin. apply H. now right.
Qed.
Lemma index_of_spec t g i : NoDup g -> nth_error g i = Some t -> index_of t g = Some i.
Proof.
  revert i. induction g as [|x g IH]; intros i ND H; [destruct i; discriminate|]. cbn [index_of].
  inversion ND as [|? ? Hn ND']; subst. destruct i as [|i]; cbn [nth_error] in H.
  - inversion H; subst. now rewrite N.eqb_refl.
  - destruct (N.eqb_spec x t) as [->|_]; [exfalso; apply Hn; eapply nth_error_In; eauto|]. now rewrite (IH i ND' H).
Qed.

Lemma pos_in_stage_none t st : ~ In t (concat st) -> pos_in_stage t st = None.
Proof.
  induction st as [|g st IH]; cbn [pos_in_stage concat]; auto. intros H.
  rewrite index_of_none by (intros Hin; apply H; apply in_or_app; now left).
  rewrite IH; auto. intros Hin. apply H. apply in_or_app. now right.
Qed.
Lemma pos_in_stage_spec t st g grp i : NoDup (concat st) -> nth_error st g = Some grp -> nth_error grp i = Some t ->
  pos_in_stage t st = Some (g, i).
Proof.
  revert g. induction st as [|x st IH]; intros g ND Hg Hi; [destruct g; discriminate|]. cbn [pos_in_stage concat] in *.
  destruct g as [|g]; cbn [nth_error] in Hg.
  - inversion Hg; subst x. rewrite (index_of_spec t grp i); auto. eapply nodup_app_l; eauto.
  - assert (Hnin : ~ In t x).
    { intros Hin. apply (nodup_app_disjoint _ _ t ND Hin). apply in_concat. exists grp.
      split; eapply nth_error_In; eauto. }
    rewrite (index_of_none _ _ Hnin). rewrite (IH g); auto. eapply nodup_app_r; eauto.
Qed.

Lemma pos_of_spec t (l : layout) k st g grp i : NoDup (flat l) ->
  nth_error l k = Some st -> nth_error st g = Some grp -> nth_error grp i = Some t -> pos_of t l = Some (k, g, i).
Proof.
  unfold flat. revert k. induction l as [|x l IH]; intros k ND Hk Hg Hi; [destruct k; discriminate|].
  cbn [pos_of concat map] in *. rewrite concat_app in ND. destruct k as [|k]; cbn [nth_error] in Hk.
  - inversion Hk; subst x. rewrite (pos_in_stage_spec t st g grp i); auto. eapply nodup_app_l; eauto.
  - assert (Hnin : ~ In t (concat x)).
    { intros Hin. apply (nodup_app_disjoint _ _ t ND Hin). apply in_concat. exists grp.
      split; [|eapply nth_error_In; eauto]. apply in_concat. exists st. split; eapply nth_error_In; eauto. }
    rewrite (pos_in_stage_none _ _ Hnin). rewrite (IH k); auto. eapply nodup_app_r; eauto.
Qed.

(* ---------------- C02: the dependency oracle ---------------- *)

Theorem o_deps_ordered_meaning rs l : o_deps_ordered rs l = true ->
  forall r t d, In r rs -> reg_tag r = Some t -> In d (dep_tags rs r) -> before_b l d t = true.
Proof.
  intros H r t d Hr Ht Hd. unfold o_deps_ordered in H. rewrite forallb_forall in H. specialize (H r Hr).
  rewrite Ht in H. rewrite forallb_forall in H. auto.
Qed.

Lemma reg_op_fields r a : reg_op r = Ok (OAdd a) ->
  reg_tag r = Some (o_tag a) /\ o_name a = reg_name r /\ o_deps a = reg_deps r.
Proof.
  destruct r; cbn [reg_op]; try discriminate.
  - intros H. inversion H; subst. cbn. auto.
  - destruct (run_regs inner empty_builder); cbn [bind]; [|discriminate]. intros H. inversion H; subst. cbn. auto.
Qed.

Lemma find_by_name_some n rs t : find_by_name n rs = Some t ->
  exists r, In r rs /\ is_sys r = true /\ reg_name r = n /\ n <> [] /\ reg_tag r = Some t.
Proof.
  induction rs as [|x rs IH]; cbn [find_by_name]; [discriminate|].
  destruct (is_sys x && negb (is_empty_name (reg_name x)) && name_eqb n (reg_name x)) eqn:E.
  - intros H. apply andb_prop in E. destruct E as [E E3]. apply andb_prop in E. destruct E as [E1 E2].
    apply name_eqb_eq in E3. exists x. repeat split; auto; [now left|].
    subst n. intros Hn. rewrite Hn in E2. discriminate.
  - intros H. destruct (IH H) as (r & Hr & X). exists r. split; [now right|exact X].
Qed.

Lemma NoDup_map_inj {A B} (f : A -> B) l a c : NoDup (map f l) -> In a l -> In c l -> f a = f c -> a = c.
Proof.
  induction l as [|x l IH]; intros ND Ha Hc E; [destruct Ha|]. cbn [map] in ND. inversion ND as [|? ? Hn ND']; subst.
  destruct Ha as [->|Ha], Hc as [->|Hc]; auto.
  - exfalso. apply Hn. rewrite E. now apply in_map.
  - exfalso. apply Hn. rewrite <- E. now apply in_map.
Qed.

Lemma seq_N_nodup n : NoDup (map N.of_nat (seq 0 n)).
Proof.
  apply FinFun.Injective_map_NoDup; [|apply seq_NoDup]. intros x y H. now apply Nat2N.inj.
Qed.

(* a member of the stages sits at definite coordinates *)
Lemma members_pos sts s : In s (members sts) ->
  exists k st g grp i, nth_error sts k = Some st /\ nth_error st g = Some grp /\ nth_error (g_mem grp) i = Some s.
Proof.
  unfold members. intros H. apply in_concat in H. destruct H as (m & Hm & Hs). apply in_map_iff in Hm.
  destruct Hm as (grp & <- & Hg). apply in_concat in Hg. destruct Hg as (st & Hst & Hg).
  apply In_nth_error in Hst. destruct Hst as (k & Hk). apply In_nth_error in Hg. destruct Hg as (g & Hg).
  apply In_nth_error in Hs. destruct Hs as (i & Hi). exists k, st, g, grp, i. auto.
Qed.
Lemma pos_members sts k st g grp i s : nth_error sts k = Some st -> nth_error st g = Some grp -> nth_error (g_mem grp) i = Some s ->
  In s (members sts).
Proof.
  intros Hk Hg Hi. unfold members. apply in_concat. exists (g_mem grp). split; [|eapply nth_error_In; eauto].
  apply in_map. apply in_concat. exists st. split; eapply nth_error_In; eauto.
Qed.

Lemma layout_tags_pos b k st g grp i s : nth_error (b_stages b) k = Some st -> nth_error st g = Some grp ->
  nth_error (g_mem grp) i = Some s ->
  exists st' grp', nth_error (layout_tags b) k = Some st' /\ nth_error st' g = Some grp' /\ nth_error grp' i = Some (s_tag s).
Proof.
  intros Hk Hg Hi. unfold layout_tags. eexists. eexists. split; [|split].
  - apply map_nth_error. exact Hk.
  - apply map_nth_error. exact Hg.
  - apply map_nth_error. exact Hi.
Qed.

Lemma Forall2_in_l {A B} (R : A -> B -> Prop) l1 l2 x : Forall2 R l1 l2 -> In x l1 -> exists y, In y l2 /\ R x y.
Proof.
  induction 1 as [|a c l1 l2 H _ IH]; intros Hin; [destruct Hin|]. destruct Hin as [->|Hin].
  - exists c. split; [now left|auto].
  - destruct (IH Hin) as (y & Hy & Hr). exists y. split; [now right|auto].
Qed.

(* an id listed in a stage belongs to a member at definite coordinates *)
Lemma stage_id_pos st id : Forall group_ok st -> In id (stage_ids st) ->
  exists g grp i s, nth_error st g = Some grp /\ nth_error (g_mem grp) i = Some s /\ s_id s = id.
Proof.
  intros G H. unfold stage_ids in H. apply in_concat in H. destruct H as (ids & Hids & Hin). apply in_map_iff in Hids.
  destruct Hids as (grp & <- & Hg). rewrite Forall_forall in G. rewrite (gk_ids _ (G grp Hg)) in Hin.
  apply In_nth_error in Hin. destruct Hin as (i & Hi). apply nth_error_map_some in Hi. destruct Hi as (s & Hs & Hid).
  apply In_nth_error in Hg. destruct Hg as (g & Hg). exists g, grp, i, s. auto.
Qed.

Theorem o_deps_ordered_on_model rs b :
  plan rs = Ok b -> Forall reg_time_ok1 rs -> NoDup (sys_tags rs) -> o_deps_ordered rs (layout_tags b) = true.
Proof.
  intros H Ht ND. pose proof H as H0. unfold plan in H. apply run_regs_ops in H. destruct H as (os & Hos & Hrun).
  destruct (run_ops_inv os empty_builder [] b binv_empty (regs_ops_times _ _ Hos Ht) Hrun) as (done & I & Hm & _).
  cbn [app] in I.
  assert (NDl : NoDup (flat (layout_tags b))).
  { eapply Permutation_NoDup; [symmetry; apply (plan_exec_perm rs b H0 Ht)|exact ND]. }
  assert (NDid : NoDup (map s_id (members (b_stages b)))).
  { eapply Permutation_NoDup; [symmetry; apply Permutation_map; apply (bi_perm _ _ I)|]. rewrite (bi_ids _ _ I). apply seq_N_nodup. }
  pose proof (bi_entries _ _ I) as E. rewrite Forall_forall in E.
  pose proof (bi_stages _ _ I) as SK. rewrite Forall_forall in SK.
  (* the entry of a registered system *)
  assert (ENT : forall r t, In r rs -> reg_tag r = Some t ->
            exists e, In e done /\ o_tag (e_op e) = t /\ o_name (e_op e) = reg_name r /\ o_deps (e_op e) = reg_deps r).
  { intros r t Hr Tr. assert (Sy : is_sys r = true) by (unfold is_sys; now rewrite Tr).
    destruct (regs_ops_in rs os Hos r Hr Sy) as (a & Ha & Hin). destruct (reg_op_fields r a Ha) as (T & Nm & Dp).
    rewrite <- Hm in Hin. apply in_map_iff in Hin. destruct Hin as (e & <- & He). exists e. repeat split; auto. congruence. }
  (* the tag of an entry is found by pos_of at the coordinates of its system *)
  assert (POS : forall e k st g grp i, In e done -> nth_error (b_stages b) k = Some st -> nth_error st g = Some grp ->
            nth_error (g_mem grp) i = Some (e_sys e) -> pos_of (o_tag (e_op e)) (layout_tags b) = Some (k, g, i)).
  { intros e k st g grp i He Hk Hg Hi. destruct (layout_tags_pos b k st g grp i _ Hk Hg Hi) as (st' & grp' & A1 & A2 & A3).
    rewrite <- (eo_tag _ _ (E e He)). eapply pos_of_spec; eauto. }
  (* a member with the id of an entry is the system of that entry *)
  assert (SAME : forall e s, In e done -> In s (members (b_stages b)) -> s_id s = s_id (e_sys e) -> s = e_sys e).
  { intros e s He Hs Hid. apply (NoDup_map_inj s_id (members (b_stages b))); auto.
    apply (Permutation_in _ (Permutation_sym (bi_perm _ _ I))). unfold syss. now apply in_map. }
  unfold o_deps_ordered. apply forallb_forall. intros r Hr. destruct (reg_tag r) as [t|] eqn:Tr; [|reflexivity].
  apply forallb_forall. intros d Hd.
  destruct (ENT r t Hr Tr) as (e & He & Te & _ & De).
  unfold dep_tags in Hd. apply in_concat in Hd. destruct Hd as (x & Hx & Hdx). apply in_map_iff in Hx.
  destruct Hx as (n & <- & Hn). destruct (find_by_name n rs) as [t'|] eqn:F; [|destruct Hdx].
  destruct Hdx as [<-|[]].
  destruct (find_by_name_some _ _ _ F) as (r' & Hr' & Sy' & Nm' & Nne & Tr').
  destruct (ENT r' t' Hr' Tr') as (e'' & He'' & Te'' & Ne'' & _).
  (* the dependency resolves to that entry *)
  rewrite <- De in Hn. destruct (Forall2_in_l _ _ _ n (eo_deps _ _ (E e He)) Hn) as (id & Hid & (e' & He' & Ne' & _ & Ide')).
  assert (e' = e'') by (apply (bi_names_unique _ _ I); auto; congruence). subst e''.
  pose proof (bi_deps _ _ I e He id Hid) as B. rewrite <- Ide' in B.
  rewrite <- Te, <- Te''. unfold before_b.
  destruct B as [(kd & ks & Hlt & (std & Hkd & Hind) & (sts & Hks & Hins))|(k & st & g & grp & l1 & l2 & l3 & Hk & Hg & Hids)].
  - destruct (stage_id_pos std _ (sk_groups _ (SK std (nth_error_In _ _ Hkd))) Hind) as (gd & grpd & idd & sd & Gd & Md & Idd).
    destruct (stage_id_pos sts _ (sk_groups _ (SK sts (nth_error_In _ _ Hks))) Hins) as (gs & grps & ids & ss & Gs & Ms & Ids).
    assert (sd = e_sys e') by (apply SAME; auto; apply (pos_members _ kd std gd grpd idd); auto). subst sd.
    assert (ss = e_sys e) by (apply SAME; auto; apply (pos_members _ ks sts gs grps ids); auto). subst ss.
    rewrite (POS e' kd std gd grpd idd He' Hkd Gd Md), (POS e ks sts gs grps ids He Hks Gs Ms).
    apply Bool.orb_true_iff. left. now apply Nat.ltb_lt.
  - pose proof (sk_groups _ (SK st (nth_error_In _ _ Hk))) as G. rewrite Forall_forall in G.
    pose proof (gk_ids _ (G grp (nth_error_In _ _ Hg))) as Gi. rewrite Gi in Hids.
    assert (Xd : nth_error (map s_id (g_mem grp)) (length l1) = Some (s_id (e_sys e'))).
    { rewrite Hids. rewrite nth_error_app2 by lia. now rewrite Nat.sub_diag. }
    assert (Xs : nth_error (map s_id (g_mem grp)) (length l1 + 1 + length l2) = Some (s_id (e_sys e))).
    { rewrite Hids. rewrite nth_error_app2 by lia. replace (length l1 + 1 + length l2 - length l1)%nat with (S (length l2)) by lia.
      cbn [nth_error]. rewrite nth_error_app2 by lia. now rewrite Nat.sub_diag. }
    apply nth_error_map_some in Xd. destruct Xd as (sd & Md & Idd). apply nth_error_map_some in Xs. destruct Xs as (ss & Ms & Ids).
    assert (sd = e_sys e') by (apply SAME; auto; apply (pos_members _ k st g grp (length l1)); auto). subst sd.
    assert (ss = e_sys e) by (apply SAME; auto; apply (pos_members _ k st g grp (length l1 + 1 + length l2)%nat); auto). subst ss.
    rewrite (POS e' k st g grp _ He' Hk Hg Md), (POS e k st g grp _ He Hk Hg Ms).
    apply Bool.orb_true_iff. right. rewrite !Nat.eqb_refl. cbn [andb]. apply Nat.ltb_lt. lia.
Qed.

(* ---------------- C03: the barrier oracle ---------------- *)

(* the tag of a history entry is found by stage_of in the stage where its id is *)
Lemma entry_stage_of b done e : binv b done -> NoDup (flat (layout_tags b)) -> In e done ->
  exists k, stage_of (o_tag (e_op e)) (layout_tags b) = Some k /\ at_stage (b_stages b) k (s_id (e_sys e)).
Proof.
  intros I ND He.
  assert (Hs : In (e_sys e) (members (b_stages b))).
  { apply (Permutation_in _ (Permutation_sym (bi_perm _ _ I))). unfold syss. now apply in_map. }
  destruct (members_pos _ _ Hs) as (k & st & g & grp & i & Hk & Hg & Hi).
  destruct (layout_tags_pos b k st g grp i _ Hk Hg Hi) as (st' & grp' & A1 & A2 & A3).
  pose proof (bi_entries _ _ I) as E. rewrite Forall_forall in E. rewrite (eo_tag _ _ (E e He)) in A3.
  exists k. split.
  - unfold stage_of. now rewrite (pos_of_spec _ _ k st' g grp' i ND A1 A2 A3).
  - exists st. split; auto. unfold stage_ids. apply in_concat. exists (g_ids grp). split.
    + apply in_map. eapply nth_error_In; eauto.
    + pose proof (bi_stages _ _ I) as SK. rewrite Forall_forall in SK.
      pose proof (sk_groups _ (SK st (nth_error_In _ _ Hk))) as G. rewrite Forall_forall in G.
      rewrite (gk_ids _ (G grp (nth_error_In _ _ Hg))). apply in_map. eapply nth_error_In; eauto.
Qed.

Lemma sys_tags_cons_sys r t rs : reg_tag r = Some t -> sys_tags (r :: rs) = t :: sys_tags rs.
Proof. intros H. cbn [sys_tags]. now rewrite H. Qed.
Lemma sys_tags_cons_none r rs : reg_tag r = None -> sys_tags (r :: rs) = sys_tags rs.
Proof. intros H. cbn [sys_tags]. now rewrite H. Qed.

Lemma barriers_ok_intro l : forall post mx lo,
  (forall t, In t (sys_tags post) -> exists k, stage_of t l = Some k /\ (lo <= k)%nat) ->
  (forall p1 p2, post = p1 ++ RBarrier :: p2 -> forall t2 k2, In t2 (sys_tags p2) -> stage_of t2 l = Some k2 ->
     (mx <= k2)%nat /\ forall t1 k1, In t1 (sys_tags p1) -> stage_of t1 l = Some k1 -> (k1 < k2)%nat) ->
  barriers_ok mx lo post l = true.
Proof.
  induction post as [|r post IH]; intros mx lo H1 H2; [reflexivity|].
  assert (NEXT : forall mx' lo', (reg_tag r = None \/ exists t k, reg_tag r = Some t /\ stage_of t l = Some k /\ mx' = Nat.max mx (S k)) ->
            (r = RBarrier -> lo' = mx /\ mx' = mx) -> (r <> RBarrier -> lo' = lo) -> (reg_tag r = None -> mx' = mx) ->
            barriers_ok mx' lo' post l = true).
  { intros mx' lo' Hr Hb Hnb Hn. apply IH.
    - intros t Ht. destruct r; try (specialize (Hnb ltac:(discriminate)); subst lo').
      + apply H1. cbn [sys_tags reg_tag]. now right.
      + apply H1. cbn [sys_tags reg_tag]. now right.
      + apply H1. exact Ht.
      + destruct (Hb eq_refl) as [-> _]. destruct (H1 t Ht) as (k & Hk & _). exists k. split; auto.
        apply (H2 [] post eq_refl t k Ht Hk).
    - intros p1 p2 -> t2 k2 Ht2 Hk2. destruct (H2 (r :: p1) p2 eq_refl t2 k2 Ht2 Hk2) as [A B]. split.
      + destruct Hr as [Hr|(t & k & Tr & Sk & ->)].
        * rewrite (Hn Hr). exact A.
        * apply Nat.max_lub; auto. apply (B t k); auto. rewrite (sys_tags_cons_sys _ _ _ Tr). now left.
      + intros t1 k1 Ht1 Hk1. apply (B t1 k1); auto. destruct (reg_tag r) as [t|] eqn:Tr.
        * rewrite (sys_tags_cons_sys _ _ _ Tr). now right.
        * now rewrite (sys_tags_cons_none _ _ Tr). }
  destruct r as [tag nm deps rd wr tm|tag nm deps cr cw tm cnt inner|tag|].
  - cbn [barriers_ok reg_tag]. destruct (H1 tag ltac:(cbn [sys_tags reg_tag]; now left)) as (k & Hk & Hlo). rewrite Hk.
    apply andb_true_intro. split; [now apply Nat.leb_le|]. apply NEXT; auto; try discriminate.
    right. exists tag, k. auto.
  - cbn [barriers_ok reg_tag]. destruct (H1 tag ltac:(cbn [sys_tags reg_tag]; now left)) as (k & Hk & Hlo). rewrite Hk.
    apply andb_true_intro. split; [now apply Nat.leb_le|]. apply NEXT; auto; try discriminate.
    right. exists tag, k. auto.
  - cbn [barriers_ok reg_tag]. apply NEXT; auto; discriminate.
  - cbn [barriers_ok]. apply NEXT; auto. intros X. now elim X.
Qed.

Lemma stage_of_fun t l k k' : stage_of t l = Some k -> stage_of t l = Some k' -> k = k'.
Proof. congruence. Qed.

Theorem o_barriers_on_model rs b :
  plan rs = Ok b -> Forall reg_time_ok1 rs -> NoDup (sys_tags rs) -> o_barriers rs (layout_tags b) = true.
Proof.
  intros H Ht ND.
  assert (NDl : NoDup (flat (layout_tags b))).
  { eapply Permutation_NoDup; [symmetry; apply (plan_exec_perm rs b H Ht)|exact ND]. }
  unfold o_barriers. apply barriers_ok_intro.
  - intros t Hin. destruct (plan_inv rs b H Ht) as (done & I & Htags). rewrite <- Htags in Hin.
    apply in_map_iff in Hin. destruct Hin as (e & <- & He).
    destruct (entry_stage_of b done e I NDl He) as (k & Hk & _). exists k. split; auto. lia.
  - intros p1 p2 -> t2 k2 Ht2 Hk2.
    destruct (plan_barrier p1 p2 b H Ht) as (d1 & d2 & B & I & T1 & T2 & Lo & Hi).
    rewrite <- T2 in Ht2. apply in_map_iff in Ht2. destruct Ht2 as (e2 & <- & He2).
    destruct (entry_stage_of b _ e2 I NDl (in_or_app _ _ _ (or_intror He2))) as (k & Hk & At).
    assert (k = k2) by congruence. subst k. split; [lia|].
    intros t1 k1 Ht1 Hk1. rewrite <- T1 in Ht1. apply in_map_iff in Ht1. destruct Ht1 as (e1 & <- & He1).
    destruct (entry_stage_of b _ e1 I NDl (in_or_app _ _ _ (or_introl He1))) as (k & Hk' & At1).
    assert (k = k1) by congruence. subst k. specialize (Lo e1 k1 He1 At1). specialize (Hi e2 k2 He2 At). lia.
Qed.

(* what the barrier oracle's `true` means on ANY layout *)
Lemma barriers_ok_spec l : forall post mx lo, (lo <= mx)%nat -> barriers_ok mx lo post l = true ->
  (forall t, In t (sys_tags post) -> exists k, stage_of t l = Some k /\ (lo <= k)%nat) /\
  (forall p1 p2, post = p1 ++ RBarrier :: p2 -> forall t2 k2, In t2 (sys_tags p2) -> stage_of t2 l = Some k2 ->
     (mx <= k2)%nat /\ forall t1 k1, In t1 (sys_tags p1) -> stage_of t1 l = Some k1 -> (k1 < k2)%nat).
Proof.
  induction post as [|r post IH]; intros mx lo Hlm H.
  - split; [intros t []|]. intros p1 p2 E. destruct p1; discriminate.
  - assert (STEP : forall mx' lo', barriers_ok mx' lo' post l = true -> (lo' <= mx')%nat -> (lo <= lo')%nat -> (mx <= mx')%nat ->
               (r = RBarrier -> lo' = mx) ->
               (forall t k, reg_tag r = Some t -> stage_of t l = Some k -> (lo <= k)%nat /\ (S k <= mx')%nat) ->
               (forall t, reg_tag r = Some t -> exists k, stage_of t l = Some k) ->
               (forall t, In t (sys_tags (r :: post)) -> exists k, stage_of t l = Some k /\ (lo <= k)%nat) /\
               (forall p1 p2, r :: post = p1 ++ RBarrier :: p2 -> forall t2 k2, In t2 (sys_tags p2) -> stage_of t2 l = Some k2 ->
                  (mx <= k2)%nat /\ forall t1 k1, In t1 (sys_tags p1) -> stage_of t1 l = Some k1 -> (k1 < k2)%nat)).
    { intros mx' lo' Hrec Hlm' Hlo Hmx Hb Hk Hex. destruct (IH mx' lo' Hlm' Hrec) as [A B]. split.
      - intros t Hin. destruct (reg_tag r) as [t0|] eqn:Tr.
        + rewrite (sys_tags_cons_sys _ _ _ Tr) in Hin. destruct Hin as [<-|Hin].
          * destruct (Hex t0 eq_refl) as (k & Sk). exists k. split; auto. apply (Hk t0 k eq_refl Sk).
          * destruct (A t Hin) as (k & Sk & L). exists k. split; auto. lia.
        + rewrite (sys_tags_cons_none _ _ Tr) in Hin. destruct (A t Hin) as (k & Sk & L). exists k. split; auto. lia.
      - intros p1 p2 E t2 k2 Ht2 Hk2. destruct p1 as [|x p1]; cbn [app] in E; inversion E; subst.
        + destruct (A t2 Ht2) as (k & Sk & L). assert (k = k2) by congruence. subst k. rewrite (Hb eq_refl) in L.
          split; auto. intros t1 k1 [].
        + destruct (B p1 p2 eq_refl t2 k2 Ht2 Hk2) as [M Lt]. split; [lia|].
          intros t1 k1 Ht1 Hk1. destruct (reg_tag x) as [t0|] eqn:Tr.
          * rewrite (sys_tags_cons_sys _ _ _ Tr) in Ht1. destruct Ht1 as [<-|Ht1]; [|eauto].
            destruct (Hk t0 k1 eq_refl Hk1). lia.
          * rewrite (sys_tags_cons_none _ _ Tr) in Ht1. eauto. }
    destruct r as [tag nm deps rd wr tm|tag nm deps cr cw tm cnt inner|tag|]; cbn [barriers_ok reg_tag] in H.
    + destruct (stage_of tag l) as [k|] eqn:Sk; [|discriminate]. apply andb_prop in H. destruct H as [L H]. apply Nat.leb_le in L.
      apply (STEP _ _ H); auto; try lia; try discriminate.
      * intros t k' E Sk'. inversion E; subst. assert (k' = k) by congruence. subst. lia.
      * intros t E. inversion E; subst. eauto.
    + destruct (stage_of tag l) as [k|] eqn:Sk; [|discriminate]. apply andb_prop in H. destruct H as [L H]. apply Nat.leb_le in L.
      apply (STEP _ _ H); auto; try lia; try discriminate.
      * intros t k' E Sk'. inversion E; subst. assert (k' = k) by congruence. subst. lia.
      * intros t E. inversion E; subst. eauto.
    + apply (STEP _ _ H); auto; try discriminate.
    + apply (STEP _ _ H); auto; try discriminate.
Qed.

Theorem o_barriers_meaning rs l : o_barriers rs l = true ->
  forall p1 p2, rs = p1 ++ RBarrier :: p2 ->
  forall t1 t2, In t1 (sys_tags p1) -> In t2 (sys_tags p2) ->
  exists k1 k2, stage_of t1 l = Some k1 /\ stage_of t2 l = Some k2 /\ (k1 < k2)%nat.
Proof.
  intros H p1 p2 E t1 t2 H1 H2. destruct (barriers_ok_spec l rs O O (le_n _) H) as [A B].
  assert (In1 : In t1 (sys_tags rs)).
  { subst rs. clear - H1. induction p1 as [|r p1 IH]; [destruct H1|]. cbn [app]. destruct (reg_tag r) as [t|] eqn:Tr.
    - rewrite (sys_tags_cons_sys r t p1 Tr) in H1. rewrite (sys_tags_cons_sys r t _ Tr). destruct H1; [now left|right; auto].
    - rewrite (sys_tags_cons_none r p1 Tr) in H1. rewrite (sys_tags_cons_none r _ Tr). auto. }
  assert (In2 : In t2 (sys_tags rs)).
  { subst rs. clear - H2. induction p1 as [|r p1 IH]; cbn [app].
    - now rewrite sys_tags_cons_none by reflexivity.
    - destruct (reg_tag r) as [t|] eqn:Tr; [rewrite (sys_tags_cons_sys _ _ _ Tr); now right|now rewrite (sys_tags_cons_none _ _ Tr)]. }
  destruct (A t1 In1) as (k1 & S1 & _). destruct (A t2 In2) as (k2 & S2 & _). exists k1, k2. repeat split; auto.
  apply (proj2 (B p1 p2 E t2 k2 H2 S2) t1 k1 H1 S1).
Qed.
