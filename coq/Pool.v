(* Pool.v — M8: an abstraction of a work-stealing pool executing one stage whose [n] groups each
   begin with a rendezvous system (a head may leave `run` only after every sibling head has
   entered).  [P] workers; an idle worker may take any pending group.  Nothing of rayon's
   deques or stealing is modelled: C11 is PARTIAL — the theorems are about this model, the real
   pools are exercised by suite S8. *)
From Coq Require Import Arith Lia Bool List.
Import ListNotations.

Record pstate := mkP { p_pending : nat; p_inside : nat; p_finished : nat }.

Inductive pstep (P n : nat) : pstate -> pstate -> Prop :=
| P_take s : p_pending s > 0 -> p_inside s < P ->
    pstep P n s (mkP (p_pending s - 1) (p_inside s + 1) (p_finished s))
| P_leave s : p_pending s = 0 -> p_inside s > 0 ->             (* all heads have entered: the rendezvous is complete *)
    pstep P n s (mkP 0 (p_inside s - 1) (p_finished s + 1)).

Inductive preach (P n : nat) : pstate -> Prop :=
| PR_init : preach P n (mkP n 0 0)
| PR_step s s' : preach P n s -> pstep P n s s' -> preach P n s'.

Definition pfinal (n : nat) (s : pstate) : Prop := p_finished s = n /\ p_pending s = 0 /\ p_inside s = 0.
Definition penabled (P n : nat) (s : pstate) : Prop := exists s', pstep P n s s'.

Lemma preach_inv P n s : preach P n s ->
  p_pending s + p_inside s + p_finished s = n /\ p_inside s <= P /\ (p_finished s > 0 -> p_pending s = 0).
Proof.
  induction 1 as [|s s' R IH H].
  - cbn. lia.
  - destruct IH as (A & B & C). destruct H; cbn in *; lia.
Qed.

(* C11 (model): with at least as many workers as the stage has groups, the rendezvous program
   never deadlocks: every reachable state that is not final has an enabled step *)
Theorem pool_rendezvous_live P n s : n <= P -> preach P n s -> pfinal n s \/ penabled P n s.
Proof.
  intros HP R. destruct (preach_inv _ _ _ R) as (A & B & C).
  destruct (Nat.eq_dec (p_pending s) 0) as [E|E].
  - destruct (Nat.eq_dec (p_inside s) 0) as [E2|E2].
    + left. unfold pfinal. lia.
    + right. eexists. apply P_leave; lia.
  - right. eexists. apply P_take; lia.
Qed.

(* ... and the state in which ALL heads are inside run at the same time is reachable *)
Lemma take_k P n k : k <= n -> k <= P -> preach P n (mkP (n - k) k 0).
Proof.
  induction k as [|k IH]; intros H1 H2.
  - rewrite Nat.sub_0_r. constructor.
  - assert (R : preach P n (mkP (n - k) k 0)) by (apply IH; lia).
    replace (n - S k) with ((n - k) - 1) by lia. replace (S k) with (k + 1) by lia.
    eapply PR_step; [exact R|]. apply (P_take P n (mkP (n - k) k 0)); cbn; lia.
Qed.
Theorem all_heads_inside_reachable P n : n <= P -> preach P n (mkP 0 n 0).
Proof. intros H. replace 0 with (n - n) at 1 by lia. apply take_k; lia. Qed.

(* the precondition is needed: with fewer workers than groups a deadlock is reachable *)
Theorem pool_too_small_deadlocks P n : P < n -> exists s, preach P n s /\ ~ pfinal n s /\ ~ penabled P n s.
Proof.
  intros H. exists (mkP (n - P) P 0). split; [apply take_k; lia|]. split.
  - unfold pfinal. cbn. lia.
  - intros (s' & S). inversion S; subst; cbn in *; lia.
Qed.

(* every complete run ends with every group finished exactly once *)
Theorem pool_final_counts P n s : preach P n s -> ~ penabled P n s -> n <= P -> p_finished s = n.
Proof.
  intros R Hn HP. destruct (pool_rendezvous_live P n s HP R) as [F|E]; [apply F|contradiction].
Qed.

(* what suite S8 compares with the real pools *)
Definition pool_can_rendezvous (P n : nat) : bool := n <=? P.
