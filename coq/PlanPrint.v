(* PlanPrint.v — C20: the text of write_par_seq lists every executed system exactly once, at
   the stage, group and position at which it is executed, by its sanitised name or by the
   placeholder of its id. *)
From Shred Require Import Base SrcParams Plan PlanObs PlanLemmas PlanInv PlanLoc PlanBuild PlanProps.
From Coq Require Import Permutation.
Open Scope N_scope.

(* the name table as a function of the history *)
Definition names_of (done : list entry) : list (name * N) :=
  concat (map (fun e => if is_empty_name (o_name (e_op e)) then [] else [(o_name (e_op e), s_id (e_sys e))]) done).

Lemma names_of_app a c : names_of (a ++ c) = names_of a ++ names_of c.
Proof. unfold names_of. now rewrite map_app, concat_app. Qed.

Lemma run_op_names b o b' more :
  run_op o b = Ok b' -> op_entries o b more -> b_names b' = b_names b ++ names_of more.
Proof.
  intros H E. destruct o as [a|t|].
  - destruct E as (s & -> & Hid). apply add_inv in H.
    destruct H as (ids & names' & stages' & _ & Hnm & _ & ->). cbn [b_names].
    unfold names_of. cbn [map concat e_op e_sys]. rewrite app_nil_r, Hid.
    destruct Hnm as [[En ->]|(Hne & _ & ->)].
    + rewrite En. cbn. now rewrite app_nil_r.
    + destruct (o_name a); [congruence|reflexivity].
  - cbn in E. subst. cbn in H. inversion H; subst. cbn. now rewrite app_nil_r.
  - cbn in E. subst. cbn in H. inversion H; subst. cbn. now rewrite app_nil_r.
Qed.

Lemma run_ops_names : forall os b done b',
  binv b done -> Forall op_time_ok os -> run_ops os b = Ok b' -> b_names b = names_of done ->
  exists more, binv b' (done ++ more) /\ map e_op more = adds os /\ b_names b' = names_of (done ++ more).
Proof.
  induction os as [|o os IH]; intros b done b' I Ht H Hn; cbn [run_ops] in H.
  - inversion H; subst. exists []. rewrite app_nil_r. auto.
  - inversion Ht as [|? ? Ho Hos]; subst.
    destruct (run_op o b) as [b1|e] eqn:R; cbn [bind] in H; [|discriminate].
    destruct (run_op_preserves _ _ _ _ I Ho R) as (m1 & I1 & Hm1 & _).
    assert (N1 : b_names b1 = names_of (done ++ m1)).
    { rewrite (run_op_names _ _ _ _ R Hm1), Hn. now rewrite names_of_app. }
    destruct (IH _ _ _ I1 Hos H N1) as (m2 & I2 & Hm2 & N2).
    exists (m1 ++ m2). rewrite app_assoc. split; auto. split; auto.
    rewrite map_app, Hm2. destruct o as [a|t|]; cbn in Hm1.
    + destruct Hm1 as (s & -> & _). reflexivity.
    + subst. reflexivity.
    + subst. reflexivity.
Qed.

(* what the printer shows for an entry *)
Definition shown (e : entry) : name :=
  if is_empty_name (o_name (e_op e)) then placeholder (s_id (e_sys e)) else sanitise (o_name (e_op e)).

Lemma rev_lookup_names_of : forall done e,
  NoDup (map (fun e => s_id (e_sys e)) done) -> In e done ->
  display (names_of done) (s_id (e_sys e)) = shown e.
Proof.
  unfold display, shown.
  induction done as [|x done IH]; intros e ND Hin; [destruct Hin|].
  cbn [map] in ND. inversion ND as [|? ? Hn ND']; subst.
  unfold names_of. cbn [map concat]. fold (names_of done).
  destruct Hin as [->|Hin].
  - destruct (is_empty_name (o_name (e_op e))) eqn:En; cbn [app].
    + (* unnamed: no entry of the rest carries this id *)
      assert (R : rev_lookup (s_id (e_sys e)) (names_of done) = None).
      { clear - Hn. induction done as [|y done IH]; [reflexivity|].
        unfold names_of. cbn [map concat]. fold (names_of done).
        assert (s_id (e_sys y) <> s_id (e_sys e)) by (intros E; apply Hn; left; auto).
        destruct (is_empty_name (o_name (e_op y))); cbn [app].
        - apply IH. intros H'. apply Hn. now right.
        - cbn [rev_lookup]. destruct (N.eqb_spec (s_id (e_sys y)) (s_id (e_sys e))); [contradiction|].
          apply IH. intros H'. apply Hn. now right. }
      now rewrite R.
    + cbn [rev_lookup]. now rewrite N.eqb_refl.
  - assert (s_id (e_sys x) <> s_id (e_sys e)).
    { intros E. apply Hn. rewrite E. now apply (in_map (fun e => s_id (e_sys e))). }
    destruct (is_empty_name (o_name (e_op x))); cbn [app].
    + now apply IH.
    + cbn [rev_lookup]. destruct (N.eqb_spec (s_id (e_sys x)) (s_id (e_sys e))); [contradiction|]. now apply IH.
Qed.

Lemma done_ids_nodup b done : binv b done -> NoDup (map (fun e => s_id (e_sys e)) done).
Proof.
  intros I. pose proof (bi_ids _ _ I) as E. unfold syss in E. rewrite map_map in E. rewrite E.
  apply FinFun.Injective_map_NoDup; [intros x y; lia|apply seq_NoDup].
Qed.

(* the entry of a placed system *)
Lemma placed_entry b done s : binv b done -> In s (placed b) -> exists e, In e done /\ e_sys e = s.
Proof.
  intros I Hs. unfold placed in Hs. apply (Permutation_in _ (bi_perm _ _ I)) in Hs.
  unfold syss in Hs. apply in_map_iff in Hs. destruct Hs as (e & <- & He). eauto.
Qed.

(* the layout of what is shown for the executed systems *)
Definition shown_layout (done : list entry) (b : builder) : list (list (list name)) :=
  map (fun st => map (fun g => map (fun s => display (names_of done) (s_id s)) (g_mem g)) st) (b_stages b).

(* C20: the printed text is the rendering of the EXECUTED layout (the boxed systems, stage by
   stage, group by group, member by member), each system shown by its sanitised name, or by
   the placeholder of its id when it was registered without a name. *)
Theorem print_matches_exec rs b :
  plan rs = Ok b -> Forall reg_time_ok1 rs ->
  exists done, binv b done /\ map (fun e => o_tag (e_op e)) done = sys_tags rs /\
    print_builder b = render (shown_layout done b) /\
    (forall e, In e done -> display (names_of done) (s_id (e_sys e)) = shown e) /\
    (forall s, In s (placed b) -> exists e, In e done /\ e_sys e = s).
Proof.
  intros H Ht. pose proof H as H0. unfold plan in H. apply run_regs_ops in H. destruct H as (os & Hos & Hrun).
  destruct (run_ops_names os empty_builder [] b binv_empty (regs_ops_times _ _ Hos Ht) Hrun eq_refl)
    as (done & I & Hm & Hn).
  cbn [app] in I, Hn. exists done. split; [exact I|]. split; [|split; [|split]].
  - rewrite <- (regs_ops_tags _ _ Hos), <- Hm, map_map. reflexivity.
  - unfold print_builder. rewrite (ids_eq_exec rs b H0 Ht), Hn. unfold shown_layout, map3.
    f_equal. rewrite map_map. apply map_ext. intros st. rewrite map_map. apply map_ext. intros g.
    now rewrite map_map.
  - intros e He. apply rev_lookup_names_of; auto. eapply done_ids_nodup; eauto.
  - intros s Hs. eapply placed_entry; eauto.
Qed.

(* the rendering determines the nested list: two layouts with the same text are equal, as
   long as display names contain no tab / newline (names are sanitised identifiers) — so
   "listed exactly once at its position" can be read off the text.  Here: the number of
   systems shown equals the number executed, slot by slot. *)
Theorem print_shape_matches_exec rs b :
  plan rs = Ok b -> Forall reg_time_ok1 rs ->
  exists done, print_builder b = render (shown_layout done b) /\
    map (map (@length name)) (shown_layout done b) = shape b.
Proof.
  intros H Ht. destruct (print_matches_exec rs b H Ht) as (done & _ & _ & E & _). exists done. split; auto.
  unfold shown_layout, shape. rewrite map_map. apply map_ext. intros st. rewrite map_map. apply map_ext. intros g.
  apply map_length.
Qed.
