(* PrintOracle.v — C20: the oracle `print_matches` that suite S1 evaluates on the REAL Debug text and the REAL
   executed layout holds for the model's text and layout: it can fire only where the crate differs. *)
From Shred Require Import Base SrcParams Plan PlanObs PlanLemmas PlanInv PlanLoc PlanBuild PlanProps PlanPrint BatchProps OracleProps.
From Coq Require Import Permutation.
Open Scope N_scope.

Lemma list_eqb_N_refl (l : list N) : list_eqb N.eqb l l = true.
Proof. induction l as [|x l IH]; cbn; auto. now rewrite N.eqb_refl, IH. Qed.

Lemma assoc_ids : forall rs n i t, NoDup (sys_tags rs) -> nth_error (sys_tags rs) i = Some t ->
  assoc_N t (ids_of rs n) = Some (n + N.of_nat i).
Proof.
  induction rs as [|r rs IH]; intros n i t ND H; [destruct i; discriminate|]. cbn [sys_tags ids_of] in *.
  destruct (reg_tag r) as [t'|] eqn:Tr; [|now apply IH].
  inversion ND as [|? ? Hn ND']; subst. destruct i as [|i]; cbn [nth_error] in H.
  - inversion H; subst. cbn [assoc_N]. rewrite N.eqb_refl. f_equal. lia.
  - cbn [assoc_N]. destruct (N.eqb_spec t' t) as [->|_]; [exfalso; apply Hn; eapply nth_error_In; eauto|].
    rewrite (IH (N.succ n) i t ND' H). f_equal. lia.
Qed.

Theorem o_print_on_model rs b :
  plan rs = Ok b -> Forall reg_time_ok1 rs -> NoDup (sys_tags rs) -> o_print rs (layout_tags b) (print_builder b) = true.
Proof.
  intros H Ht ND. pose proof H as H0. unfold plan in H. apply run_regs_ops in H. destruct H as (os & Hos & Hrun).
  destruct (run_ops_names os empty_builder [] b binv_empty (regs_ops_times _ _ Hos Ht) Hrun eq_refl) as (done & I & Hm & Hn).
  cbn [app] in I, Hn, Hm.
  assert (Htags : map (fun e => o_tag (e_op e)) done = sys_tags rs).
  { rewrite <- (regs_ops_tags _ _ Hos), <- Hm, map_map. reflexivity. }
  pose proof (bi_entries _ _ I) as E. rewrite Forall_forall in E.
  assert (KEY : forall s, In s (placed b) -> display (names_of done) (s_id s) = display_tag rs (s_tag s)).
  { intros s Hs. destruct (placed_entry b done s I Hs) as (e & He & <-).
    rewrite (rev_lookup_names_of done e (done_ids_nodup b done I) He).
    apply In_nth_error in He. destruct He as (i & Hi).
    assert (Ti : nth_error (sys_tags rs) i = Some (s_tag (e_sys e))).
    { rewrite <- Htags. rewrite (eo_tag _ _ (E e (nth_error_In _ _ Hi))). now apply (map_nth_error (fun e => o_tag (e_op e))). }
    assert (Idi : s_id (e_sys e) = N.of_nat i).
    { pose proof (bi_ids _ _ I) as B. assert (X : nth_error (map s_id (syss done)) i = Some (s_id (e_sys e))).
      { unfold syss. rewrite map_map. now apply (map_nth_error (fun e => s_id (e_sys e))). }
      rewrite B in X. apply OracleProps.nth_error_map_some in X. destruct X as (k & Hk & <-).
      assert (i < length done)%nat by (apply nth_error_Some; congruence).
      rewrite nth_error_nth' with (d := O) in Hk by (rewrite seq_length; auto). inversion Hk. rewrite seq_nth; auto. }
    destruct (find_reg_in _ _ (nth_error_In _ _ Ti)) as (r & Fr). destruct (find_reg_some _ _ _ Fr) as [Ir Tr].
    assert (Sy : is_sys r = true) by (unfold is_sys; now rewrite Tr).
    destruct (regs_ops_in rs os Hos r Ir Sy) as (a & Ha & Hin). destruct (reg_op_fields r a Ha) as (Ta & Nm & _).
    rewrite <- Hm in Hin. apply in_map_iff in Hin. destruct Hin as (e' & <- & He').
    assert (e' = e).
    { apply In_nth_error in He'. destruct He' as (j & Hj).
      assert (Tj : nth_error (sys_tags rs) j = Some (s_tag (e_sys e))).
      { rewrite <- Htags. erewrite (map_nth_error (fun e => o_tag (e_op e))); eauto. f_equal. congruence. }
      assert (j = i).
      { clear - ND Ti Tj. revert i j Ti Tj. induction (sys_tags rs) as [|x l IHl]; intros i j Ti Tj; [destruct i; discriminate|].
        inversion ND as [|? ? Hn ND']; subst. destruct i as [|i], j as [|j]; cbn in Ti, Tj; auto.
        - inversion Ti; subst. exfalso. apply Hn. eapply nth_error_In; eauto.
        - inversion Tj; subst. exfalso. apply Hn. eapply nth_error_In; eauto. }
      subst j. congruence. }
    subst e'. unfold display_tag, shown. rewrite Fr, <- Nm.
    destruct (is_empty_name (o_name (e_op e))); [|reflexivity].
    rewrite (assoc_ids rs 0 i _ ND Ti). f_equal. rewrite Idi. lia. }
  unfold o_print.
  assert (EQ : print_builder b = render (map3 (display_tag rs) (layout_tags b))).
  { unfold print_builder. rewrite (ids_eq_exec rs b H0 Ht), Hn. unfold map3, layout_tags. f_equal.
    rewrite !map_map. apply map_ext_in. intros st Hst. rewrite !map_map. apply map_ext_in. intros g Hg.
    rewrite !map_map. apply map_ext_in. intros s Hs. apply KEY.
    unfold placed, members. apply in_concat. exists (g_mem g). split; auto. apply in_map. apply in_concat. exists st. auto. }
  rewrite EQ. apply list_eqb_N_refl.
Qed.
