(* PlanProps.v — the planner theorems at the level of registration programs. *)
From Shred Require Import Base SrcParams Plan PlanObs PlanLemmas PlanInv PlanLoc PlanBuild.
From Coq Require Import Permutation.

(* well-formed running-time hints (RunningTime has exactly the values of time_values) *)
Definition reg_time_ok1 (r : reg) : Prop :=
  match r with
  | RSys _ _ _ _ _ t => time_ok t
  | RBatch _ _ _ _ _ t _ _ => time_ok t
  | _ => True
  end.

Lemma regs_ops_times : forall rs os, regs_ops rs = Ok os -> Forall reg_time_ok1 rs -> Forall op_time_ok os.
Proof.
  induction rs as [|r rs IH]; intros os H Ht; cbn [regs_ops] in H.
  - inversion H; subst. constructor.
  - inversion Ht as [|? ? Hr Hrs]; subst.
    destruct (reg_op r) as [o|e] eqn:R; cbn [bind] in H; [|discriminate].
    destruct (regs_ops rs) as [os'|e]; cbn [bind] in H; [|discriminate].
    inversion H; subst. constructor; auto.
    destruct r; cbn in R.
    + inversion R; subst. exact Hr.
    + destruct (run_regs inner empty_builder); cbn in R; [|discriminate]. inversion R; subst. exact Hr.
    + inversion R; subst. exact I.
    + inversion R; subst. exact I.
Qed.

Lemma regs_ops_tags : forall rs os, regs_ops rs = Ok os -> map o_tag (adds os) = sys_tags rs.
Proof.
  induction rs as [|r rs IH]; intros os H; cbn [regs_ops] in H.
  - inversion H; subst. reflexivity.
  - destruct (reg_op r) as [o|e] eqn:R; cbn [bind] in H; [|discriminate].
    destruct (regs_ops rs) as [os'|e]; cbn [bind] in H; [|discriminate].
    inversion H; subst. specialize (IH os' eq_refl).
    destruct r; cbn in R.
    + inversion R; subst. cbn. now rewrite IH.
    + destruct (run_regs inner empty_builder); cbn in R; [|discriminate]. inversion R; subst. cbn. now rewrite IH.
    + inversion R; subst. cbn. exact IH.
    + inversion R; subst. cbn. exact IH.
Qed.

(* the invariant holds for the builder of every successfully planned level *)
Theorem plan_inv rs b :
  plan rs = Ok b -> Forall reg_time_ok1 rs ->
  exists done, binv b done /\ map (fun e => o_tag (e_op e)) done = sys_tags rs.
Proof.
  intros H Ht. unfold plan in H. apply run_regs_ops in H. destruct H as (os & Hos & Hrun).
  destruct (run_ops_inv os empty_builder [] b binv_empty (regs_ops_times _ _ Hos Ht) Hrun) as (done & I & Hm & _).
  cbn in I. exists done. split; auto. rewrite <- (regs_ops_tags _ _ Hos), <- Hm, map_map. reflexivity.
Qed.

Definition placed (b : builder) : list sys := members (b_stages b).

Lemma flat_layout_tags b : flat (layout_tags b) = map s_tag (placed b).
Proof.
  unfold flat, layout_tags, placed, members.
  induction (b_stages b) as [|st sts IH]; cbn; auto.
  rewrite !concat_app, map_app, concat_app, map_app, <- IH. f_equal.
  clear. induction st as [|g st IH]; cbn; auto. now rewrite map_app, IH.
Qed.

Lemma syss_tags done : Forall (entry_ok done) done ->
  map s_tag (syss done) = map (fun e => o_tag (e_op e)) done.
Proof.
  intros H. unfold syss. rewrite map_map. apply map_ext_in. intros e He.
  rewrite Forall_forall in H. apply (eo_tag _ _ (H e He)).
Qed.

(* ---------------- C04: every registered system is in the executed layout exactly once ---------------- *)

Theorem plan_exec_perm rs b :
  plan rs = Ok b -> Forall reg_time_ok1 rs ->
  Permutation (flat (layout_tags b)) (sys_tags rs).
Proof.
  intros H Ht. destruct (plan_inv rs b H Ht) as (done & I & Htags).
  rewrite flat_layout_tags, <- Htags, <- (syss_tags done (bi_entries _ _ I)).
  apply Permutation_map. apply (bi_perm _ _ I).
Qed.

(* the id table the printer walks and the boxed systems that are executed agree, slot by slot *)
Theorem ids_eq_exec rs b :
  plan rs = Ok b -> Forall reg_time_ok1 rs ->
  layout_ids b = map (fun st => map (fun g => map s_id (g_mem g)) st) (b_stages b).
Proof.
  intros H Ht. destruct (plan_inv rs b H Ht) as (done & I & _).
  unfold layout_ids. apply map_ext_in. intros st Hst.
  pose proof (bi_stages _ _ I) as Hok. rewrite Forall_forall in Hok. specialize (Hok st Hst).
  apply map_ext_in. intros g Hg. pose proof (sk_groups _ Hok) as G. rewrite Forall_forall in G.
  apply (gk_ids _ (G g Hg)).
Qed.

(* no group is ever over-filled, whatever the length of the program *)
Theorem groups_within_capacity rs b :
  plan rs = Ok b -> Forall reg_time_ok1 rs ->
  forall st g, In st (b_stages b) -> In g st -> (1 <= length (g_mem g) <= cap)%nat.
Proof.
  intros H Ht st g Hst Hg. destruct (plan_inv rs b H Ht) as (done & I & _).
  pose proof (bi_stages _ _ I) as Hok. rewrite Forall_forall in Hok. specialize (Hok st Hst).
  pose proof (sk_groups _ Hok) as G. rewrite Forall_forall in G.
  pose proof (gk_len _ (G g Hg)). pose proof join_limit_le_cap. lia.
Qed.

(* ---------------- C01: groups of one stage never hold conflicting systems ---------------- *)

Definition sys_conflict (a c : sys) : bool :=
  rw_conflict (s_reads a) (s_writes a) (s_reads c) (s_writes c).

Lemma FOP_nth {A} (R : A -> A -> Prop) l : ForallOrdPairs R l ->
  forall i j a b, (i < j)%nat -> nth_error l i = Some a -> nth_error l j = Some b -> R a b.
Proof.
  induction 1 as [|x l Hx Hl IH]; intros i j a b Hlt Hi Hj.
  - destruct i; discriminate.
  - destruct i, j; try lia; cbn in *.
    + inversion Hi; subst. rewrite Forall_forall in Hx. apply Hx. eapply nth_error_In; eauto.
    + eapply (IH i j); eauto. lia.
Qed.

Lemma gconf_members g1 g2 a c :
  group_ok g1 -> group_ok g2 -> gconf g1 g2 = false -> In a (g_mem g1) -> In c (g_mem g2) ->
  sys_conflict a c = false.
Proof.
  intros G1 G2 H Ha Hc. unfold gconf in H. unfold sys_conflict.
  rewrite (gk_reads _ G1), (gk_writes _ G1), (gk_reads _ G2), (gk_writes _ G2) in H.
  rewrite rw_conflict_false in *. destruct H as (H1 & H2 & H3).
  assert (In1 : forall (f : sys -> list N) s l x, In s l -> In x (f s) -> In x (concat (map f l))).
  { intros f s l x Hs Hx. apply in_concat. exists (f s). split; auto. now apply in_map. }
  repeat split; intros x Hx1 Hx2.
  - eapply H1; eapply In1; eauto.
  - eapply H2; eapply In1; eauto.
  - eapply H3; eapply In1; eauto.
Qed.

Theorem plan_isolated rs b :
  plan rs = Ok b -> Forall reg_time_ok1 rs ->
  forall st i j g1 g2 a c,
    In st (b_stages b) -> nth_error st i = Some g1 -> nth_error st j = Some g2 -> i <> j ->
    In a (g_mem g1) -> In c (g_mem g2) -> sys_conflict a c = false.
Proof.
  intros H Ht st i j g1 g2 a c Hst Hi Hj Hne Ha Hc.
  destruct (plan_inv rs b H Ht) as (done & I & _).
  pose proof (bi_stages _ _ I) as Hok. rewrite Forall_forall in Hok. specialize (Hok st Hst).
  pose proof (sk_groups _ Hok) as G. rewrite Forall_forall in G.
  assert (G1 : group_ok g1) by (apply G; eapply nth_error_In; eauto).
  assert (G2 : group_ok g2) by (apply G; eapply nth_error_In; eauto).
  destruct (Nat.lt_gt_cases i j) as [Hc0 _]. destruct (Hc0 Hne) as [Hlt|Hgt].
  - apply (gconf_members g1 g2 a c G1 G2); auto. apply (FOP_nth _ st (sk_iso _ Hok) i j g1 g2); auto.
  - unfold sys_conflict. rewrite rw_conflict_sym. fold (sys_conflict c a).
    apply (gconf_members g2 g1 c a G2 G1); auto. apply (FOP_nth _ st (sk_iso _ Hok) j i g2 g1); auto.
Qed.

(* ---------------- C02: dependencies are placed in front of their dependents ---------------- *)

(* [runs_before b d s]: in every execution of the layout d has finished before s starts:
   d sits in an earlier stage, or in the same group at a smaller index *)
Definition runs_before (b : builder) (d s : N) : Prop := before (b_stages b) d s.

Theorem plan_deps_ordered rs b :
  plan rs = Ok b -> Forall reg_time_ok1 rs ->
  exists done, binv b done /\ map (fun e => o_tag (e_op e)) done = sys_tags rs /\
    forall e, In e done ->
      Forall2 (fun n d => exists e', In e' done /\ o_name (e_op e') = n /\ n <> [] /\ s_id (e_sys e') = d /\
                                     runs_before b d (s_id (e_sys e)))
              (o_deps (e_op e)) (s_deps (e_sys e)).
Proof.
  intros H Ht. destruct (plan_inv rs b H Ht) as (done & I & Htags). exists done.
  split; [exact I|split; [exact Htags|]].
  intros e He. pose proof (bi_entries _ _ I) as E. rewrite Forall_forall in E.
  pose proof (eo_deps _ _ (E e He)) as D.
  assert (B : forall d, In d (s_deps (e_sys e)) -> runs_before b d (s_id (e_sys e))) by (apply (bi_deps _ _ I); auto).
  revert B. induction D as [|n d ns ds Hnd _ IH]; intros B; constructor.
  - destruct Hnd as (e' & He' & Hn & Hne & Hid). exists e'. repeat split; auto. apply B. now left.
  - apply IH. intros d' Hd'. apply B. now right.
Qed.


(* ---------------- C03: barriers ---------------- *)

Lemma binv_nodup b done : binv b done -> NoDup (all_ids (b_stages b)).
Proof.
  intros I. rewrite (all_ids_members _ (bi_stages _ _ I)).
  rewrite (Permutation_map s_id (bi_perm _ _ I)), (bi_ids _ _ I).
  apply FinFun.Injective_map_NoDup; [intros x y; lia|apply seq_NoDup].
Qed.

Lemma regs_ops_app : forall r1 r2 os, regs_ops (r1 ++ r2) = Ok os ->
  exists o1 o2, regs_ops r1 = Ok o1 /\ regs_ops r2 = Ok o2 /\ os = o1 ++ o2.
Proof.
  induction r1 as [|r r1 IH]; intros r2 os H; cbn [app regs_ops] in *.
  - exists [], os. auto.
  - destruct (reg_op r) as [o|e]; cbn [bind] in *; [|discriminate].
    destruct (regs_ops (r1 ++ r2)) as [os'|e] eqn:E; cbn [bind] in H; [|discriminate].
    inversion H; subst. destruct (IH _ _ E) as (o1 & o2 & -> & -> & ->). cbn [bind].
    exists (o :: o1), o2. auto.
Qed.

(* everything registered before a barrier lies in a strictly earlier stage than everything
   registered after it — whatever the access sets and dependencies *)
Theorem plan_barrier pre post b :
  plan (pre ++ RBarrier :: post) = Ok b -> Forall reg_time_ok1 (pre ++ RBarrier :: post) ->
  exists done1 done2 B,
    binv b (done1 ++ done2) /\
    map (fun e => o_tag (e_op e)) done1 = sys_tags pre /\
    map (fun e => o_tag (e_op e)) done2 = sys_tags post /\
    (forall e k, In e done1 -> at_stage (b_stages b) k (s_id (e_sys e)) -> (k < B)%nat) /\
    (forall e k, In e done2 -> at_stage (b_stages b) k (s_id (e_sys e)) -> (B <= k)%nat).
Proof.
  intros H Ht. unfold plan in H. apply run_regs_ops in H. destruct H as (os & Hos & Hrun).
  pose proof (regs_ops_times _ _ Hos Ht) as Hto.
  apply regs_ops_app in Hos. destruct Hos as (o1 & o2' & Ho1 & Ho2 & ->).
  cbn [regs_ops reg_op bind] in Ho2.
  destruct (regs_ops post) as [o2|e] eqn:Ho2p; cbn [bind] in Ho2; [|discriminate]. inversion Ho2; subst o2'. clear Ho2.
  rewrite run_ops_app in Hrun.
  destruct (run_ops o1 empty_builder) as [b1|e] eqn:R1; cbn [bind] in Hrun; [|discriminate].
  cbn [run_ops run_op bind] in Hrun.
  apply Forall_app in Hto. destruct Hto as [Ht1 Ht2]. inversion Ht2 as [|? ? _ Ht2']; subst.
  destruct (run_ops_inv o1 empty_builder [] b1 binv_empty Ht1 R1) as (done1 & I1 & Hm1 & _).
  cbn [app] in I1.
  assert (I1b : binv (add_barrier b1) done1).
  { destruct (run_op_preserves b1 done1 OBar (add_barrier b1) I1 I eq_refl) as (m & Im & Hm & _).
    cbn in Hm. subst m. now rewrite app_nil_r in Im. }
  destruct (run_ops_inv o2 (add_barrier b1) done1 b I1b Ht2' Hrun) as (done2 & I2 & Hm2 & Hext & _ & Hbar).
  exists done1, done2, (length (b_stages b1)). split; [exact I2|]. split; [|split; [|split]].
  - rewrite <- (regs_ops_tags _ _ Ho1), <- Hm1, map_map. reflexivity.
  - rewrite <- (regs_ops_tags _ _ Ho2p), <- Hm2, map_map. reflexivity.
  - intros e k He Hk.
    assert (Hloc : located (b_stages b1) (s_id (e_sys e))).
    { apply (binv_located _ _ _ I1). rewrite (bi_next _ _ I1). apply (ids_lt done1 (bi_ids _ _ I1)).
      unfold syss. rewrite map_map. apply in_map_iff. eauto. }
    destruct Hloc as (k0 & Hk0).
    assert (k0 < length (b_stages b1))%nat.
    { destruct Hk0 as (st & Hn & _). apply nth_error_Some. congruence. }
    assert (Hk0' : at_stage (b_stages b) k0 (s_id (e_sys e))) by (eapply at_stage_ext; eauto).
    assert (k = k0) by (eapply at_stage_unique; [eapply binv_nodup; eauto| |]; eauto). lia.
  - intros e k He Hk. rewrite Forall_forall in Hbar. specialize (Hbar e He). cbn in Hbar.
    assert (e_bar e <= k)%nat; [|lia].
    apply (bi_bar_lo _ _ I2 e k); auto. apply in_or_app. now right.
Qed.

(* a barrier where nothing was registered since the previous one (or at the very beginning)
   changes nothing *)
Theorem barrier_idempotent b : add_barrier (add_barrier b) = add_barrier b.
Proof. reflexivity. Qed.

Theorem barrier_leading : b_barrier (add_barrier empty_builder) = b_barrier empty_builder.
Proof. reflexivity. Qed.

Theorem barrier_no_new_stage b b' done :
  binv b done -> b_barrier b = length (b_stages b) -> add_barrier b = b' -> b' = b.
Proof. intros I E <-. destruct b; cbn in *. now rewrite E. Qed.

(* thread-local systems are unaffected by barriers: kept in registration order, outside the stages *)
Lemma run_ops_tl : forall os b b', run_ops os b = Ok b' ->
  b_tl b' = b_tl b ++ concat (map (fun o => match o with OTL t => [t] | _ => [] end) os).
Proof.
  induction os as [|o os IH]; intros b b' H; cbn [run_ops] in H.
  - inversion H; subst. cbn. now rewrite app_nil_r.
  - destruct (run_op o b) as [b1|e] eqn:R; cbn [bind] in H; [|discriminate].
    rewrite (IH _ _ H). cbn [map concat]. rewrite app_assoc. f_equal.
    destruct o as [a|t|]; cbn in R.
    + unfold add in R. destruct (resolve_deps _ _); cbn in R; [|discriminate].
      destruct (if is_empty_name (o_name a) then _ else _); cbn in R; [|discriminate].
      destruct (sb_insert _ _ _); cbn in R; [|discriminate]. inversion R; subst. cbn. now rewrite app_nil_r.
    + inversion R; subst. reflexivity.
    + inversion R; subst. cbn. now rewrite app_nil_r.
Qed.

Lemma regs_ops_tl : forall rs os, regs_ops rs = Ok os ->
  concat (map (fun o => match o with OTL t => [t] | _ => [] end) os) = tl_tags rs.
Proof.
  induction rs as [|r rs IH]; intros os H; cbn [regs_ops] in H.
  - inversion H; subst. reflexivity.
  - destruct (reg_op r) as [o|e] eqn:R; cbn [bind] in H; [|discriminate].
    destruct (regs_ops rs) as [os'|e]; cbn [bind] in H; [|discriminate].
    inversion H; subst. specialize (IH os' eq_refl). cbn [map concat]. rewrite IH.
    destruct r; cbn in R.
    + inversion R; subst. reflexivity.
    + destruct (run_regs inner empty_builder); cbn in R; [|discriminate]. inversion R; subst. reflexivity.
    + inversion R; subst. reflexivity.
    + inversion R; subst. reflexivity.
Qed.

(* C12 (plan level): the thread-local list is exactly the thread-local registrations, in order *)
Theorem plan_tl_order rs b : plan rs = Ok b -> b_tl b = tl_tags rs.
Proof.
  intros H. unfold plan in H. apply run_regs_ops in H. destruct H as (os & Hos & Hrun).
  rewrite (run_ops_tl _ _ _ Hrun). cbn. now apply regs_ops_tl.
Qed.

(* C12: convertible to the sendable form exactly when there is no thread-local system *)
Theorem sendable_iff rs b : plan rs = Ok b -> (sendable b = true <-> tl_tags rs = []).
Proof.
  intros H. unfold sendable. rewrite (plan_tl_order _ _ H). destruct (tl_tags rs); split; auto; discriminate.
Qed.

(* ---------------- C18: the builder rejects exactly the two ill-formed registrations ---------------- *)

Fixpoint reg_times_ok (r : reg) : Prop :=
  match r with
  | RSys _ _ _ _ _ t => time_ok t
  | RBatch _ _ _ _ _ t _ inner =>
      time_ok t /\ (fix go (rs : list reg) : Prop :=
                      match rs with [] => True | r' :: rs' => reg_times_ok r' /\ go rs' end) inner
  | _ => True
  end.
Fixpoint regs_times_ok (rs : list reg) : Prop :=
  match rs with [] => True | r :: rs' => reg_times_ok r /\ regs_times_ok rs' end.

Fixpoint size_reg (r : reg) : nat :=
  match r with
  | RBatch _ _ _ _ _ _ _ inner =>
      S ((fix go (rs : list reg) : nat := match rs with [] => O | r' :: rs' => (size_reg r' + go rs')%nat end) inner)
  | _ => 1%nat
  end.
Fixpoint size_regs (rs : list reg) : nat :=
  match rs with [] => O | r :: rs' => (size_reg r + size_regs rs')%nat end.

Definition names_agree (names : list name) (b : builder) : Prop :=
  forall n, mem_name n names = true <-> lookup_name n (b_names b) <> None.

Lemma mem_name_app n l x : mem_name n (l ++ [x]) = mem_name n l || name_eqb n x.
Proof. unfold mem_name. rewrite existsb_app. cbn. now rewrite orb_false_r. Qed.

Lemma resolve_deps_find names b deps :
  names_agree names b ->
  match find (fun d => negb (mem_name d names)) deps with
  | Some d => resolve_deps (b_names b) deps = Err (ENoSuch d)
  | None => exists ids, resolve_deps (b_names b) deps = Ok ids
  end.
Proof.
  intros A. induction deps as [|d deps IH]; cbn [find resolve_deps].
  - eauto.
  - destruct (mem_name d names) eqn:M; cbn [negb].
    + apply A in M. destruct (lookup_name d (b_names b)) as [id|]; [|congruence].
      destruct (find _ deps).
      * rewrite IH. reflexivity.
      * destruct IH as (ids & ->). cbn. eauto.
    + destruct (lookup_name d (b_names b)) as [id|] eqn:L; auto.
      assert (mem_name d names = true) by (apply A; congruence). congruence.
Qed.

(* one add call against its specification *)
Lemma add_spec names b done tag nm deps reads writes t :
  binv b done -> names_agree names b -> time_ok t ->
  match check_call names nm deps with
  | Some e => add b tag nm deps reads writes t = Err e
  | None => exists b', add b tag nm deps reads writes t = Ok b' /\
                       names_agree (if negb (is_empty_name nm) then names ++ [nm] else names) b' /\
                       exists done', binv b' done'
  end.
Proof.
  intros I A Ht. unfold check_call.
  pose proof (resolve_deps_find names b deps A) as R. unfold add.
  destruct (find _ deps) as [d|].
  - rewrite R. reflexivity.
  - destruct R as (ids & Hres). rewrite Hres. cbn [bind].
    destruct (is_empty_name nm) eqn:En; cbn [negb andb bind].
    + destruct (sb_insert_total (b_barrier b) (b_stages b) (mkSys tag (b_next b) reads writes t ids)
                                (bi_stages _ _ I) Ht) as (st' & S).
      rewrite S. cbn [bind]. eexists. split; [reflexivity|]. split.
      * intros n. cbn. apply A.
      * assert (Hrun : run_op (OAdd (mkOp tag nm deps reads writes t)) b =
                       Ok (mkB (N.succ (b_next b)) (b_names b) (b_barrier b) st' (b_tl b))).
        { cbn [run_op o_tag o_name o_deps o_reads o_writes o_time]. unfold add. rewrite Hres. cbn [bind].
          rewrite En. cbn [bind]. rewrite S. reflexivity. }
        destruct (add_preserves b done (mkOp tag nm deps reads writes t) _ I Ht Hrun) as (s & I' & _). eauto.
    + destruct (mem_name nm names) eqn:M.
      * apply A in M. destruct (lookup_name nm (b_names b)); [reflexivity|congruence].
      * destruct (lookup_name nm (b_names b)) eqn:L.
        { assert (mem_name nm names = true) by (apply A; congruence). congruence. }
        cbn [bind].
        destruct (sb_insert_total (b_barrier b) (b_stages b) (mkSys tag (b_next b) reads writes t ids)
                                  (bi_stages _ _ I) Ht) as (st' & S).
        rewrite S. cbn [bind]. eexists. split; [reflexivity|]. split.
        -- intros n. cbn [b_names]. rewrite mem_name_app. destruct (lookup_name n (b_names b)) eqn:Ln.
           ++ rewrite (lookup_app_some _ _ _ _ Ln). assert (mem_name n names = true) as -> by (apply A; congruence).
              cbn. split; auto; discriminate.
           ++ rewrite (lookup_app_none _ _ _ _ Ln).
              assert (mem_name n names = false) as ->.
              { destruct (mem_name n names) eqn:Mn; auto. apply A in Mn. congruence. }
              cbn. destruct (name_eqb n nm); split; auto; try discriminate; congruence.
        -- assert (Hrun : run_op (OAdd (mkOp tag nm deps reads writes t)) b =
                         Ok (mkB (N.succ (b_next b)) (b_names b ++ [(nm, b_next b)]) (b_barrier b) st' (b_tl b))).
           { cbn [run_op o_tag o_name o_deps o_reads o_writes o_time]. unfold add. rewrite Hres. cbn [bind].
             rewrite En, L. cbn [bind]. rewrite S. reflexivity. }
           destruct (add_preserves b done (mkOp tag nm deps reads writes t) _ I Ht Hrun) as (s & I' & _). eauto.
Qed.

Lemma names_agree_empty : names_agree [] empty_builder.
Proof. intros n. cbn. split; [discriminate|congruence]. Qed.

(* the model builder against the specification by name bookkeeping, for programs of any
   size and nesting: it fails exactly when, and with exactly the error that, the
   specification says — in particular never with a capacity, arithmetic, index or
   unreachable!() panic *)
Lemma run_regs_spec : forall n rs,
  (size_regs rs <= n)%nat -> regs_times_ok rs ->
  forall b done names, binv b done -> names_agree names b ->
  match spec_err_regs rs names with
  | Some (_, e) => run_regs rs b = Err e
  | None => exists b', run_regs rs b = Ok b' /\ exists done', binv b' done'
  end.
Proof.
  induction n as [|n IHn]; intros rs Hsz Ht b done names I A.
  - destruct rs as [|r rs]; [cbn; eauto|]. exfalso. cbn in Hsz. destruct r; cbn in Hsz; lia.
  - destruct rs as [|r rs]; [cbn; eauto|].
    cbn [spec_err_regs run_regs]. destruct Ht as [Hr Hrs]. cbn [size_regs] in Hsz.
    assert (Hsz_rs : (size_regs rs <= n)%nat) by (destruct r; cbn in Hsz; lia).
    (* the first registration *)
    assert (Hstep :
      match spec_err_reg r names with
      | Some (_, e) => run_reg r b = Err e
      | None => exists b', run_reg r b = Ok b' /\ names_agree (names_after names r) b' /\ exists done', binv b' done'
      end).
    { destruct r as [tag nm deps reads writes t | tag nm deps cr cw t cnt inner | tag |].
      - cbn [spec_err_reg run_reg]. cbn in Hr.
        pose proof (add_spec names b done tag nm deps reads writes t I A Hr) as S.
        destruct (check_call names nm deps) as [e|]; cbn [option_map]; auto.
      - (* batch: the inner program runs first, on its own builder *)
        rewrite run_reg_op. cbn [reg_op].
        assert (Hin : (size_regs inner <= n)%nat).
        { cbn [size_reg] in Hsz. change ((fix go (rs : list reg) : nat := match rs with [] => O | r' :: rs' => (size_reg r' + go rs')%nat end) inner)
            with (size_regs inner) in Hsz. lia. }
        destruct Hr as [Htime Hinner]. change ((fix go (rs : list reg) : Prop := match rs with [] => True | r' :: rs' => reg_times_ok r' /\ go rs' end) inner)
          with (regs_times_ok inner) in Hinner.
        pose proof (IHn inner Hin Hinner empty_builder [] [] binv_empty names_agree_empty) as Sin.
        cbn [spec_err_reg].
        change ((fix go (rs : list reg) (ni : list name) {struct rs} : option (nat * err) :=
                   match rs with
                   | [] => None
                   | r' :: rs' =>
                       match spec_err_reg r' ni with
                       | Some x => Some x
                       | None => option_map (shift_err (calls_reg r')) (go rs' (names_after ni r'))
                       end
                   end) inner []) with (spec_err_regs inner []).
        destruct (spec_err_regs inner []) as [[i e]|].
        + rewrite Sin. reflexivity.
        + destruct Sin as (bi & -> & _). cbn [bind run_op o_tag o_name o_deps o_reads o_writes o_time].
          pose proof (add_spec names b done tag nm deps (all_reads bi ++ cr) (all_writes bi ++ cw) t I A Htime) as S.
          destruct (check_call names nm deps) as [e|]; cbn [option_map]; auto.
      - cbn. eexists. split; [reflexivity|]. split; [exact A|]. exists done. destruct I; constructor; auto.
      - cbn. eexists. split; [reflexivity|]. split; [exact A|].
        destruct (run_op_preserves b done OBar (add_barrier b) I Logic.I eq_refl) as (m & Im & _). eauto. }
    destruct (spec_err_reg r names) as [[i e]|].
    + rewrite Hstep. reflexivity.
    + destruct Hstep as (b1 & -> & A1 & done1 & I1). cbn [bind].
      pose proof (IHn rs Hsz_rs Hrs b1 done1 (names_after names r) I1 A1) as Srest.
      destruct (spec_err_regs rs (names_after names r)) as [[i e]|]; cbn [option_map shift_err snd]; auto.
Qed.

Theorem builder_total_and_exact rs :
  regs_times_ok rs ->
  match spec_first_error rs with
  | Some (_, e) => plan rs = Err e /\ (exists nm, e = ENoSuch nm \/ e = EDup nm)
  | None => exists b, plan rs = Ok b
  end.
Proof.
  intros Ht. unfold spec_first_error, plan.
  pose proof (run_regs_spec (size_regs rs) rs (le_n _) Ht empty_builder [] [] binv_empty names_agree_empty) as S.
  destruct (spec_err_regs rs []) as [[i e]|] eqn:E.
  - split; auto.
    (* the specification only ever produces the two documented errors *)
    clear S Ht.
    assert (G : forall n rs names i e, (size_regs rs <= n)%nat -> spec_err_regs rs names = Some (i, e) ->
                exists nm, e = ENoSuch nm \/ e = EDup nm).
    { clear. assert (C : forall names nm deps e, check_call names nm deps = Some e -> exists x, e = ENoSuch x \/ e = EDup x).
      { intros names nm deps e. unfold check_call. destruct (find _ deps).
        - intros H; inversion H; eauto.
        - destruct (_ && _); intros H; inversion H; eauto. }
      induction n as [|n IH]; intros rs names i e Hsz H.
      - destruct rs as [|r rs]; [discriminate|]. exfalso. cbn in Hsz. destruct r; cbn in Hsz; lia.
      - destruct rs as [|r rs]; [discriminate|]. cbn [spec_err_regs size_regs] in *.
        assert (Hsz_rs : (size_regs rs <= n)%nat) by (destruct r; cbn in Hsz; lia).
        destruct (spec_err_reg r names) as [[i0 e0]|] eqn:Er.
        + inversion H; subst. destruct r as [tag nm deps reads writes t | tag nm deps cr cw t cnt inner | tag |]; cbn [spec_err_reg] in Er.
          * destruct (check_call names nm deps) eqn:Cc; cbn in Er; [|discriminate]. inversion Er; subst. eapply C; eauto.
          * change ((fix go (rs : list reg) (ni : list name) {struct rs} : option (nat * err) :=
                   match rs with
                   | [] => None
                   | r' :: rs' =>
                       match spec_err_reg r' ni with
                       | Some x => Some x
                       | None => option_map (shift_err (calls_reg r')) (go rs' (names_after ni r'))
                       end
                   end) inner []) with (spec_err_regs inner []) in Er.
            destruct (spec_err_regs inner []) as [[i1 e1]|] eqn:Ei.
            -- inversion Er; subst. eapply (IH inner []); eauto.
               cbn [size_reg] in Hsz. change ((fix go (rs : list reg) : nat := match rs with [] => O | r' :: rs' => (size_reg r' + go rs')%nat end) inner)
                 with (size_regs inner) in Hsz. lia.
            -- destruct (check_call names nm deps) eqn:Cc; cbn in Er; [|discriminate]. inversion Er; subst. eapply C; eauto.
          * discriminate.
          * discriminate.
        + destruct (spec_err_regs rs (names_after names r)) as [[i1 e1]|] eqn:Es; cbn in H; [|discriminate].
          inversion H; subst. eapply IH; eauto. }
    eapply G; eauto.
  - destruct S as (b & Hb & _). eauto.
Qed.
