(* Async.v — M7: the hand-off state machine of AsyncDispatcher (src/dispatch/async_dispatcher.rs).
   The caller owns either the Inner (stages + world) or the receiving end of a channel; a
   dispatch moves the Inner into a pool job, which executes the stages and sends it back.
   Labelled transition system: caller operations interleaved with the steps of the job.
   The model, an executable acceptor for recorded histories, and the theorems. *)
From Shred Require Import Base Plan PlanLemmas Exec ExecProps.
Open Scope N_scope.

Inductive aop := ADispatch | AWait | AWaitNoTl | AWorld | AWorldMut | ASetup | ARunning (b : bool).

Record ast := mkA {
  a_pending : bool;                            (* Data::Rx: a job was spawned and not yet collected *)
  a_job : option (list ev * list ev);          (* the running job: events done, events still to come *)
  a_sent : bool;                               (* the job has finished and sent the Inner back *)
  a_blocks : list (list ev)                    (* completed pieces of work, in order *)
}.
Definition a_init : ast := mkA false None false [].

Inductive lbl := LJob (e : ev) | LSend | LOp (o : aop).

Definition collects (o : aop) : bool :=          (* operations that go through Data::inner() and return *)
  match o with AWaitNoTl | AWorld | AWorldMut | ASetup => true | _ => false end.

Inductive astep (l : lay) (tl : list N) : ast -> lbl -> ast -> Prop :=
| S_job s d e r : a_job s = Some (d, e :: r) ->
    astep l tl s (LJob e) (mkA (a_pending s) (Some (d ++ [e], r)) (a_sent s) (a_blocks s))
| S_send s d : a_job s = Some (d, []) ->
    astep l tl s LSend (mkA (a_pending s) None true (a_blocks s ++ [d]))
| S_collect s o : collects o = true -> (a_pending s = false \/ a_sent s = true) ->
    astep l tl s (LOp o) (mkA false (a_job s) false (a_blocks s))
| S_wait s : (a_pending s = false \/ a_sent s = true) ->
    astep l tl s (LOp AWait) (mkA false (a_job s) false (a_blocks s ++ [group_trace tl]))
| S_dispatch s t : (a_pending s = false \/ a_sent s = true) -> staged_traces l t ->
    astep l tl s (LOp ADispatch) (mkA true (Some ([], t)) false (a_blocks s))
| S_running_false s : (a_pending s = false \/ a_sent s = true) ->
    astep l tl s (LOp (ARunning false)) (mkA false (a_job s) false (a_blocks s))
| S_running_true s : a_pending s = true -> a_sent s = false ->
    astep l tl s (LOp (ARunning true)) s.

Inductive areach (l : lay) (tl : list N) : ast -> Prop :=
| R_init : areach l tl a_init
| R_step s lb s' : areach l tl s -> astep l tl s lb s' -> areach l tl s'.

Definition block_ok (l : lay) (tl : list N) (b : list ev) : Prop := staged_traces l b \/ b = group_trace tl.

Record ainv (l : lay) (tl : list N) (s : ast) : Prop := {
  ai_pending : a_pending s = true <-> (a_job s <> None \/ a_sent s = true);
  ai_excl : a_job s <> None -> a_sent s = false;
  ai_blocks : Forall (block_ok l tl) (a_blocks s);
  ai_job : forall d r, a_job s = Some (d, r) -> staged_traces l (d ++ r)
}.

Lemma ainv_init l tl : ainv l tl a_init.
Proof.
  constructor; cbn.
  - split; [discriminate|intros [X|X]; congruence].
  - congruence.
  - constructor.
  - discriminate.
Qed.

Lemma astep_inv l tl s lb s' : ainv l tl s -> astep l tl s lb s' -> ainv l tl s'.
Proof.
  intros I H. destruct H as [s d e r J|s d J|s o C En|s En|s t En T|s En|s P S]; cbn.
  - constructor; cbn.
    + rewrite (ai_pending _ _ _ I). rewrite J. split; intros [H|H]; auto; left; congruence.
    + intros _. apply (ai_excl _ _ _ I). congruence.
    + apply (ai_blocks _ _ _ I).
    + intros d' r' E. inversion E; subst. rewrite <- app_assoc. apply (ai_job _ _ _ I _ _ J).
  - constructor; cbn.
    + rewrite (ai_pending _ _ _ I). rewrite J. split; intros _; [now right|left; congruence].
    + congruence.
    + apply Forall_app. split; [apply (ai_blocks _ _ _ I)|]. constructor; [|constructor]. left.
      pose proof (ai_job _ _ _ I _ _ J) as T. now rewrite app_nil_r in T.
    + discriminate.
  - (* a collecting operation returns only when nothing is pending or the job has sent *)
    assert (Jn : a_job s = None).
    { destruct En as [P|S].
      - destruct (a_job s) eqn:J; auto. assert (a_pending s = true) by (apply (ai_pending _ _ _ I); left; congruence). congruence.
      - destruct (a_job s) eqn:J; auto. assert (a_sent s = false) by (apply (ai_excl _ _ _ I); congruence). congruence. }
    constructor; cbn; rewrite ?Jn.
    + split; [discriminate|intros [H|H]; congruence].
    + congruence.
    + apply (ai_blocks _ _ _ I).
    + discriminate.
  - assert (Jn : a_job s = None).
    { destruct En as [P|S].
      - destruct (a_job s) eqn:J; auto. assert (a_pending s = true) by (apply (ai_pending _ _ _ I); left; congruence). congruence.
      - destruct (a_job s) eqn:J; auto. assert (a_sent s = false) by (apply (ai_excl _ _ _ I); congruence). congruence. }
    constructor; cbn; rewrite ?Jn.
    + split; [discriminate|intros [H|H]; congruence].
    + congruence.
    + apply Forall_app. split; [apply (ai_blocks _ _ _ I)|]. constructor; [|constructor]. now right.
    + discriminate.
  - constructor; cbn.
    + split; auto. intros _. left. discriminate.
    + auto.
    + apply (ai_blocks _ _ _ I).
    + intros d r E. inversion E; subst. exact T.
  - assert (Jn : a_job s = None).
    { destruct En as [P|S].
      - destruct (a_job s) eqn:J; auto. assert (a_pending s = true) by (apply (ai_pending _ _ _ I); left; congruence). congruence.
      - destruct (a_job s) eqn:J; auto. assert (a_sent s = false) by (apply (ai_excl _ _ _ I); congruence). congruence. }
    constructor; cbn; rewrite ?Jn.
    + split; [discriminate|intros [H|H]; congruence].
    + congruence.
    + apply (ai_blocks _ _ _ I).
    + discriminate.
  - exact I.
Qed.

Theorem areach_inv l tl s : areach l tl s -> ainv l tl s.
Proof. induction 1; [apply ainv_init|eapply astep_inv; eauto]. Qed.

(* an operation that may only return after the hand-off is complete *)
Definition returns_after_handoff (o : aop) : bool :=
  match o with AWait | AWaitNoTl | AWorld | AWorldMut | ASetup => true | _ => false end.

(* C15: when wait / wait_without_tl / world / world_mut / setup return, no job is running and
   none is pending: every system of every earlier dispatch has finished *)
Theorem accessor_returns_idle l tl s o s' :
  areach l tl s -> astep l tl s (LOp o) s' -> returns_after_handoff o = true ->
  a_job s' = None /\ a_sent s' = false /\ a_pending s' = false.
Proof.
  intros R H Ho. pose proof (areach_inv _ _ _ R) as I. pose proof (astep_inv _ _ _ _ _ I H) as I'.
  inversion H; subst; cbn in Ho; try discriminate; cbn.
  - repeat split; auto. destruct (a_job s) eqn:J; auto. exfalso.
    assert (X : false = true); [|discriminate]. apply (ai_pending _ _ _ I'). cbn. left. congruence.
  - repeat split; auto. destruct (a_job s) eqn:J; auto. exfalso.
    assert (X : false = true); [|discriminate]. apply (ai_pending _ _ _ I'). cbn. left. congruence.
Qed.

(* C15: running() reports false only once everything has finished; while a job is running it
   reports true *)
Theorem running_false_means_finished l tl s s' :
  areach l tl s -> astep l tl s (LOp (ARunning false)) s' -> a_job s' = None /\ a_job s = None.
Proof.
  intros R H. pose proof (areach_inv _ _ _ R) as I. pose proof (astep_inv _ _ _ _ _ I H) as I'.
  inversion H; subst; cbn in *; try congruence.
  assert (Jn : a_job s = None); [|split; exact Jn]. destruct (a_job s) eqn:J; auto. exfalso.
  assert (X : false = true); [|discriminate]. apply (ai_pending _ _ _ I'). cbn. left. congruence.
Qed.
Theorem running_job_reports_true l tl s b s' :
  areach l tl s -> a_job s <> None -> astep l tl s (LOp (ARunning b)) s' -> b = true.
Proof.
  intros R J H. destruct b; auto. destruct (running_false_means_finished _ _ _ _ R H). contradiction.
Qed.

(* C15: a second dispatch does not start before the previous one is complete *)
Theorem no_overtaking l tl s s' :
  areach l tl s -> astep l tl s (LOp ADispatch) s' -> a_job s = None.
Proof.
  intros R H. pose proof (areach_inv _ _ _ R) as I.
  assert (En : a_pending s = false \/ a_sent s = true) by (inversion H; subst; cbn in *; auto; congruence).
  destruct (a_job s) eqn:J; auto. exfalso. destruct En as [P|S].
  - assert (a_pending s = true) by (apply (ai_pending _ _ _ I); left; congruence). congruence.
  - assert (a_sent s = false) by (apply (ai_excl _ _ _ I); congruence). congruence.
Qed.

(* C15: the finished work is a sequence of WHOLE dispatches (each a trace of the staged part:
   every ordinary system exactly once, C04) and of thread-local passes, which only `wait`
   contributes; the running job is a prefix of such a trace *)
Theorem work_is_whole_dispatches l tl s :
  areach l tl s -> Forall (block_ok l tl) (a_blocks s) /\ (forall d r, a_job s = Some (d, r) -> staged_traces l (d ++ r)).
Proof. intros R. pose proof (areach_inv _ _ _ R) as I. split; [apply (ai_blocks _ _ _ I)|apply (ai_job _ _ _ I)]. Qed.

Theorem thread_locals_only_in_wait l tl s lb s' :
  astep l tl s lb s' -> lb <> LOp AWait ->
  a_blocks s' = a_blocks s \/ exists d, a_job s = Some (d, []) /\ a_blocks s' = a_blocks s ++ [d].
Proof. intros H Hn. inversion H; subst; cbn; auto; [right; eauto|congruence]. Qed.

(* ---------------- executable acceptor for recorded histories ---------------- *)
(* tokens of a recorded history, in the order of the shared log: events of ordinary systems
   (pool), events of thread-local systems (with the thread they ran on), and the begin / end
   markers of the caller's operations *)
Inductive tok :=
| TEv (e : ev)                         (* an ordinary system's fetch / release *)
| TTl (e : ev) (on_caller : bool)      (* a thread-local system's fetch / release *)
| TBegin (o : aop)
| TEnd (o : aop).

Record acc := mkAcc {
  c_active : bool;             (* a job was spawned and its completion was not yet consumed by a caller op *)
  c_prog : list ev;            (* events of the current job so far *)
  c_want : bool;               (* a dispatch() call has begun and its job's first event was not seen yet *)
  c_inwait : bool;             (* between the begin and end markers of wait() *)
  c_tlseen : list ev;
  c_done : nat                 (* completed dispatches *)
}.

Definition job_complete (l : lay) (a : acc) : bool := accept_disp l [] (c_prog a).

Definition acc_step (l : lay) (tl : list N) (a : acc) (t : tok) : option acc :=
  match t with
  | TEv e =>
      if c_active a && negb (job_complete l a) then Some (mkAcc true (c_prog a ++ [e]) (c_want a) (c_inwait a) (c_tlseen a) (c_done a))
      else if c_want a && (negb (c_active a) || job_complete l a)
      then Some (mkAcc true [e] false (c_inwait a) (c_tlseen a) (c_done a + (if c_active a then 1 else 0)))
      else None                                  (* an ordinary system ran although no dispatch allows it *)
  | TTl e on_caller =>
      if c_inwait a && on_caller && (negb (c_active a) || job_complete l a)
      then Some (mkAcc (c_active a) (c_prog a) (c_want a) true (c_tlseen a ++ [e]) (c_done a))
      else None                                  (* thread-local system outside wait / on a pool thread / before the job ended *)
  | TBegin ADispatch => Some (mkAcc (c_active a) (c_prog a) true (c_inwait a) (c_tlseen a) (c_done a))
  | TBegin AWait => Some (mkAcc (c_active a) (c_prog a) (c_want a) true [] (c_done a))
  | TBegin _ => Some a
  | TEnd ADispatch =>
      (* returned: the previous job (if any) was complete; the new one is active even if it logged nothing yet *)
      if c_want a then
        (if negb (c_active a) || job_complete l a
         then Some (mkAcc true [] false (c_inwait a) (c_tlseen a) (c_done a + (if c_active a then 1 else 0))) else None)
      else Some a
  | TEnd AWait =>
      if (negb (c_active a) || job_complete l a) && list_eqb ev_eqb (c_tlseen a) (group_trace tl)
      then Some (mkAcc false [] (c_want a) false [] (c_done a + (if c_active a then 1 else 0))) else None
  | TEnd (ARunning false) =>
      if negb (c_active a) || job_complete l a
      then Some (mkAcc false [] (c_want a) (c_inwait a) (c_tlseen a) (c_done a + (if c_active a then 1 else 0))) else None
  | TEnd (ARunning true) => if c_active a then Some a else None
  | TEnd _ =>
      if negb (c_active a) || job_complete l a
      then Some (mkAcc false [] (c_want a) (c_inwait a) (c_tlseen a) (c_done a + (if c_active a then 1 else 0))) else None
  end.

Fixpoint acc_run (l : lay) (tl : list N) (a : acc) (ts : list tok) (i : nat) : nat + acc :=
  match ts with
  | [] => inr a
  | t :: r => match acc_step l tl a t with Some a' => acc_run l tl a' r (S i) | None => inl i end
  end.
Definition acc_init : acc := mkAcc false [] false false [] 0.
