(* SkipOracle.v — C10: the oracle `skip_justified` that suite S1 evaluates on the REAL layout holds on the
   layout the model builds.  The walker of the oracle (registration order, stages read off the FINAL
   layout, first usable stage recomputed at every barrier) is matched step by step with the builder. *)
From Shred Require Import Base SrcParams Plan PlanObs PlanLemmas PlanInv PlanLoc PlanBuild PlanProps PlanPrint PlanSkip BatchProps OracleProps.
From Coq Require Import Permutation.
Open Scope N_scope.

(* ---------------- the accessor of a registration holds nothing but what is declared inside it ---------------- *)

Lemma all_reads_from_ops b done : binv b done -> forall x, In x (all_reads b) -> exists e, In e done /\ In x (o_reads (e_op e)).
Proof.
  intros I x Hx. unfold all_reads in Hx. apply in_concat in Hx. destruct Hx as (l & Hl & Hx). apply in_map_iff in Hl.
  destruct Hl as (g & <- & Hg). apply in_concat in Hg. destruct Hg as (st & Hst & Hg).
  pose proof (bi_stages _ _ I) as S. rewrite Forall_forall in S. pose proof (sk_groups _ (S st Hst)) as Gs. rewrite Forall_forall in Gs.
  rewrite (gk_reads _ (Gs g Hg)) in Hx. apply in_concat in Hx. destruct Hx as (l & Hl & Hx). apply in_map_iff in Hl. destruct Hl as (s & <- & Hs).
  assert (Hm : In s (members (b_stages b))).
  { unfold members. apply in_concat. exists (g_mem g). split; auto. apply in_map. apply in_concat. exists st. auto. }
  apply (Permutation_in _ (bi_perm _ _ I)) in Hm. unfold syss in Hm. apply in_map_iff in Hm. destruct Hm as (e & <- & He).
  exists e. split; auto. pose proof (bi_entries _ _ I) as E. rewrite Forall_forall in E. now rewrite <- (eo_reads _ _ (E e He)).
Qed.
Lemma all_writes_from_ops b done : binv b done -> forall x, In x (all_writes b) -> exists e, In e done /\ In x (o_writes (e_op e)).
Proof.
  intros I x Hx. unfold all_writes in Hx. apply in_concat in Hx. destruct Hx as (l & Hl & Hx). apply in_map_iff in Hl.
  destruct Hl as (g & <- & Hg). apply in_concat in Hg. destruct Hg as (st & Hst & Hg).
  pose proof (bi_stages _ _ I) as S. rewrite Forall_forall in S. pose proof (sk_groups _ (S st Hst)) as Gs. rewrite Forall_forall in Gs.
  rewrite (gk_writes _ (Gs g Hg)) in Hx. apply in_concat in Hx. destruct Hx as (l & Hl & Hx). apply in_map_iff in Hl. destruct Hl as (s & <- & Hs).
  assert (Hm : In s (members (b_stages b))).
  { unfold members. apply in_concat. exists (g_mem g). split; auto. apply in_map. apply in_concat. exists st. auto. }
  apply (Permutation_in _ (bi_perm _ _ I)) in Hm. unfold syss in Hm. apply in_map_iff in Hm. destruct Hm as (e & <- & He).
  exists e. split; auto. pose proof (bi_entries _ _ I) as E. rewrite Forall_forall in E. now rewrite <- (eo_writes _ _ (E e He)).
Qed.

Lemma regs_ops_adds_inv : forall rs os a, regs_ops rs = Ok os -> In a (adds os) -> exists r, In r rs /\ reg_op r = Ok (OAdd a).
Proof.
  induction rs as [|r0 rs IH]; intros os a H Hin; cbn [regs_ops] in H; [inversion H; subst; destruct Hin|].
  destruct (reg_op r0) as [o|e] eqn:R; cbn [bind] in H; [|discriminate].
  destruct (regs_ops rs) as [os'|e]; cbn [bind] in H; [|discriminate]. inversion H; subst.
  destruct o as [a0|t|]; cbn [adds] in Hin.
  - destruct Hin as [<-|Hin]; [exists r0; split; [now left|exact R]|].
    destruct (IH os' a eq_refl Hin) as (r & Hr & Ho). exists r. split; [now right|exact Ho].
  - destruct (IH os' a eq_refl Hin) as (r & Hr & Ho). exists r. split; [now right|exact Ho].
  - destruct (IH os' a eq_refl Hin) as (r & Hr & Ho). exists r. split; [now right|exact Ho].
Qed.

Definition covered (r : reg) (a : opadd) : Prop := incl (o_reads a) (eff_reads r) /\ incl (o_writes a) (eff_writes r).

Lemma reg_op_covered : forall n r a, (size_reg r <= n)%nat -> reg_times_ok r -> reg_op r = Ok (OAdd a) -> covered r a.
Proof.
  induction n as [|n IH]; intros r a Hsz Ht H.
  - destruct r; cbn in Hsz; lia.
  - destruct r as [t nm deps rd wr tm|t nm deps cr cw tm cnt inner|t|]; cbn [reg_op] in H; try discriminate.
    + inversion H; subst. split; cbn; apply incl_refl.
    + destruct (run_regs inner empty_builder) as [bi|e] eqn:Ri; cbn [bind] in H; [|discriminate].
      inversion H; subst a. clear H. unfold covered. cbn [o_reads o_writes].
      cbn [size_reg] in Hsz.
      change ((fix go (rs : list reg) : nat := match rs with [] => O | r' :: rs' => (size_reg r' + go rs')%nat end) inner)
        with (size_regs inner) in Hsz.
      cbn [reg_times_ok] in Ht. destruct Ht as [_ Hti].
      change ((fix go (rs : list reg) : Prop := match rs with [] => True | r' :: rs' => reg_times_ok r' /\ go rs' end) inner)
        with (regs_times_ok inner) in Hti.
      pose proof (regs_times_ok1 _ Hti) as Ht1.
      pose proof Ri as Ri'. apply run_regs_ops in Ri'. destruct Ri' as (os & Hos & Hrun).
      destruct (run_ops_inv os empty_builder [] bi binv_empty (regs_ops_times _ _ Hos Ht1) Hrun) as (done & I & Hm & _).
      cbn [app] in I.
      assert (C : forall e, In e done -> exists r', In r' inner /\ covered r' (e_op e)).
      { intros e He. assert (Hin : In (e_op e) (adds os)) by (rewrite <- Hm; now apply in_map).
        destruct (regs_ops_adds_inv inner os _ Hos Hin) as (r' & Hr' & Ho). exists r'. split; auto.
        apply (IH r' (e_op e)); auto.
        - assert (size_reg r' <= size_regs inner)%nat; [|lia].
          clear - Hr'. induction inner as [|x l IHl]; [destruct Hr'|]. destruct Hr' as [->|Hr']; cbn [size_regs]; [lia|]. specialize (IHl Hr'). lia.
        - eapply regs_times_in; eauto. }
      rewrite eff_reads_batch, eff_writes_batch. split; intros x Hx; apply in_app_or in Hx; apply in_or_app; destruct Hx as [Hx|Hx]; auto; right.
      * destruct (all_reads_from_ops bi done I x Hx) as (e & He & Hxe). destruct (C e He) as (r' & Hr' & [C1 _]).
        apply in_concat. exists (eff_reads r'). split; [now apply in_map|auto].
      * destruct (all_writes_from_ops bi done I x Hx) as (e & He & Hxe). destruct (C e He) as (r' & Hr' & [_ C2]).
        apply in_concat. exists (eff_writes r'). split; [now apply in_map|auto].
Qed.

(* ---------------- the walker's first usable stage ---------------- *)

Lemma fold_max_ge (l : list (reg * nat)) : forall init, (init <= fold_left (fun m e => Nat.max m (S (snd e))) l init)%nat /\
  forall p, In p l -> (S (snd p) <= fold_left (fun m e => Nat.max m (S (snd e))) l init)%nat.
Proof.
  induction l as [|x l IH]; intros init; cbn [fold_left]; [split; [lia|intros p []]|].
  destruct (IH (Nat.max init (S (snd x)))) as [A B]. split; [lia|]. intros p [<-|Hp]; [lia|auto].
Qed.
Lemma fold_max_le (l : list (reg * nat)) B : forall init, (init <= B)%nat -> (forall p, In p l -> (S (snd p) <= B)%nat) ->
  (fold_left (fun m e => Nat.max m (S (snd e))) l init <= B)%nat.
Proof.
  induction l as [|x l IH]; intros init Hi H; cbn [fold_left]; auto. apply IH; [|intros; apply H; now right].
  specialize (H x (or_introl eq_refl)). lia.
Qed.

Lemma Forall2_in_r {A B} (R : A -> B -> Prop) l1 l2 y : Forall2 R l1 l2 -> In y l2 -> exists x, In x l1 /\ R x y.
Proof.
  induction 1 as [|a c l1 l2 H _ IH]; intros Hin; [destruct Hin|]. destruct Hin as [->|Hin].
  - exists a. split; [now left|auto].
  - destruct (IH Hin) as (x & Hx & Hr). exists x. split; [now right|auto].
Qed.

Definition wrel (bF : builder) (p : reg * nat) (e : entry) : Prop :=
  reg_op (fst p) = Ok (OAdd (e_op e)) /\ at_stage (b_stages bF) (snd p) (s_id (e_sys e)).

Lemma stages_len b done bF preW : binv b done -> stages_ext (b_stages b) (b_stages bF) -> NoDup (all_ids (b_stages bF)) ->
  Forall2 (wrel bF) preW done ->
  fold_left (fun m e => Nat.max m (S (snd e))) preW 0%nat = length (b_stages b).
Proof.
  intros I Ext ND F. apply Nat.le_antisymm.
  - apply fold_max_le; [lia|]. intros p Hp. destruct (Forall2_in_l _ _ _ p F Hp) as (e & He & _ & At).
    destruct (entry_located b done e I He) as (k0 & Hk0).
    assert (k0 < length (b_stages b))%nat by (destruct Hk0 as (st & Hn & _); apply nth_error_Some; congruence).
    assert (snd p = k0) by (apply (at_stage_unique _ ND (snd p) k0 (s_id (e_sys e)) At (at_stage_ext _ _ _ _ Ext Hk0))). lia.
  - destruct (b_stages b) as [|st0 sts0] eqn:Eb; [cbn; lia|]. rewrite <- Eb in Ext |- *.
    set (j := (length (b_stages b) - 1)%nat).
    assert (Hj : (j < length (b_stages b))%nat) by (unfold j; rewrite Eb; cbn [length]; lia).
    destruct (nth_error (b_stages b) j) as [st|] eqn:Nj; [|apply nth_error_None in Nj; lia].
    pose proof (bi_stages _ _ I) as S. rewrite Forall_forall in S. pose proof (S st (nth_error_In _ _ Nj)) as Sk.
    destruct st as [|g st']; [now elim (sk_nonempty _ Sk)|].
    pose proof (sk_groups _ Sk) as Gs. rewrite Forall_forall in Gs. pose proof (Gs g (or_introl eq_refl)) as G.
    destruct (g_mem g) as [|s ms] eqn:Em; [pose proof (gk_len _ G) as L; rewrite Em in L; cbn in L; lia|].
    assert (Hm : In s (members (b_stages b))).
    { unfold members. apply in_concat. exists (g_mem g). split; [|rewrite Em; now left]. apply in_map. apply in_concat.
      exists (g :: st'). split; [eapply nth_error_In; eauto|now left]. }
    apply (Permutation_in _ (bi_perm _ _ I)) in Hm. unfold syss in Hm. apply in_map_iff in Hm. destruct Hm as (e & Es & He).
    destruct (Forall2_in_r _ _ _ e F He) as (p & Hp & _ & At).
    assert (Atj : at_stage (b_stages b) j (s_id (e_sys e))).
    { exists (g :: st'). split; auto. unfold stage_ids. cbn [map concat]. apply in_or_app. left. rewrite (gk_ids _ G), Em, Es. now left. }
    assert (snd p = j) by (apply (at_stage_unique _ ND (snd p) j (s_id (e_sys e)) At (at_stage_ext _ _ _ _ Ext Atj))).
    destruct (fold_max_ge preW 0%nat) as [_ Bp]. specialize (Bp p Hp). unfold j in *. lia.
Qed.

(* ---------------- small facts ---------------- *)

Lemma add_keeps_barrier a b b1 : run_op (OAdd a) b = Ok b1 -> b_barrier b1 = b_barrier b.
Proof.
  cbn [run_op]. unfold add. destruct (resolve_deps _ _); cbn [bind]; [|discriminate].
  destruct (if is_empty_name (o_name a) then _ else _); cbn [bind]; [|discriminate].
  destruct (sb_insert _ _ _); cbn [bind]; [|discriminate]. intros H. inversion H. reflexivity.
Qed.

Lemma reg_op_time r o : reg_times_ok r -> reg_op r = Ok o -> op_time_ok o.
Proof.
  destruct r as [t nm deps rd wr tm|t nm deps cr cw tm cnt inner|t|]; cbn [reg_op reg_times_ok]; intros Ht H.
  - inversion H; subst. exact Ht.
  - destruct (run_regs inner empty_builder); cbn [bind] in H; [|discriminate]. inversion H; subst. cbn. tauto.
  - inversion H; subst. exact I.
  - inversion H; subst. exact I.
Qed.

Lemma id_at b L i x : binv b L -> nth_error L i = Some x -> s_id (e_sys x) = N.of_nat i.
Proof.
  intros I Hi. pose proof (bi_ids _ _ I) as B.
  assert (X : nth_error (map s_id (syss L)) i = Some (s_id (e_sys x))).
  { unfold syss. rewrite map_map. now apply (map_nth_error (fun e => s_id (e_sys e))). }
  rewrite B in X. apply OracleProps.nth_error_map_some in X. destruct X as (k & Hk & <-).
  assert (i < length L)%nat by (apply nth_error_Some; congruence).
  rewrite nth_error_nth' with (d := O) in Hk by (rewrite seq_length; auto). inversion Hk. now rewrite seq_nth.
Qed.

Lemma earlier_in_done b0 done e more e' : binv b0 (done ++ e :: more) -> In e' (done ++ e :: more) ->
  (s_id (e_sys e') < s_id (e_sys e))%N -> In e' done.
Proof.
  intros I He' Hlt. apply In_nth_error in He'. destruct He' as (i & Hi).
  rewrite (id_at b0 _ i e' I Hi) in Hlt.
  assert (He : nth_error (done ++ e :: more) (length done) = Some e) by (rewrite nth_error_app2 by lia; now rewrite Nat.sub_diag).
  rewrite (id_at b0 _ _ e I He) in Hlt.
  assert (i < length done)%nat by lia. rewrite nth_error_app1 in Hi by auto. eapply nth_error_In; eauto.
Qed.

Lemma rw_mono r1 w1 r2 w2 r1' w1' r2' w2' :
  incl r1 r1' -> incl w1 w1' -> incl r2 r2' -> incl w2 w2' ->
  rw_conflict r1 w1 r2 w2 = true -> rw_conflict r1' w1' r2' w2' = true.
Proof.
  intros A B C D H. destruct (rw_conflict r1' w1' r2' w2') eqn:E; auto.
  rewrite (rw_conflict_incl r1 w1 r2 w2 r1' w1' r2' w2' A B C D E) in H. discriminate.
Qed.

Lemma skips_cons_sys rs pre lo r post l t k : reg_tag r = Some t -> stage_of t l = Some k ->
  skips_justified rs pre lo (r :: post) l = skip_ok rs pre lo r k l && skips_justified rs (pre ++ [(r, k)]) lo post l.
Proof. intros Tr Sk. destruct r; cbn [reg_tag] in Tr; try discriminate; cbn [skips_justified reg_tag]; inversion Tr; subst; now rewrite Sk. Qed.

(* ---------------- the walk ---------------- *)

Section Walk.
  Variable rs : list reg.
  Variable bF : builder.
  Hypothesis NDid : NoDup (all_ids (b_stages bF)).
  Hypothesis NDl : NoDup (flat (layout_tags bF)).
  Hypothesis TIMES : regs_times_ok rs.
  Hypothesis DEPS : forall r a s, In r rs -> reg_op r = Ok (OAdd a) -> In s (placed bF) -> s_tag s = o_tag a ->
    forall d k', In d (s_deps s) -> at_stage (b_stages bF) k' d -> In k' (dep_stages rs r (layout_tags bF)).

  Lemma walk : forall post b done,
    binv b done -> all_justified b done -> (forall r, In r post -> In r rs) -> run_regs post b = Ok bF ->
    exists more, binv bF (done ++ more) /\ all_justified bF (done ++ more) /\ stages_ext (b_stages b) (b_stages bF) /\
      forall preW, Forall2 (wrel bF) preW done -> (forall p, In p preW -> In (fst p) rs) ->
        skips_justified rs preW (b_barrier b) post (layout_tags bF) = true.
  Proof.
    induction post as [|r post IH]; intros b done I J Sub H.
    - cbn in H. inversion H; subst. exists []. rewrite app_nil_r. split; [auto|split; [auto|split; [apply stages_ext_refl|reflexivity]]].
    - cbn [run_regs] in H. destruct (run_reg r b) as [b1|x] eqn:R1; cbn [bind] in H; [|discriminate].
      rewrite run_reg_op in R1. destruct (reg_op r) as [o|x] eqn:Ro; cbn [bind] in R1; [|discriminate].
      assert (Hr : In r rs) by (apply Sub; now left).
      assert (Sub' : forall r', In r' post -> In r' rs) by (intros; apply Sub; now right).
      pose proof (regs_times_in _ _ TIMES Hr) as Tr.
      pose proof (reg_op_time r o Tr Ro) as To.
      destruct (run_op_preserves b done o b1 I To R1) as (_m & _ & _ & Ext0 & _).
      destruct o as [a|t|].
      + (* a system or a batch *)
        destruct (add_justified b done a b1 I J To R1) as (s & I1 & J1). set (e := mkEntry a s (b_barrier b)) in *.
        destruct (IH b1 (done ++ [e]) I1 J1 Sub' H) as (more & IF & JF & Ext1 & W).
        rewrite <- app_assoc in IF, JF. cbn [app] in IF, JF.
        exists (e :: more). split; [exact IF|split; [exact JF|split; [eapply stages_ext_trans; eauto|]]].
        intros preW F2 Hin.
        destruct (reg_op_fields r a Ro) as (Tt & _ & _).
        assert (He : In e (done ++ e :: more)) by (apply in_or_app; right; now left).
        destruct (entry_stage_of bF _ e IF NDl He) as (k & Sk & At). cbn [e_op e] in Sk. cbn [e_sys e] in At.
        rewrite (skips_cons_sys rs preW (b_barrier b) r post (layout_tags bF) (o_tag a) k Tt Sk).
        apply andb_true_iff. split.
        * (* every skipped stage is forced *)
          unfold skip_ok. apply forallb_forall. intros j Hj. apply in_seq in Hj.
          destruct (Nat.ltb_spec j (b_barrier b)) as [Hlo|Hlo]; [reflexivity|]. cbn [orb].
          pose proof (bi_entries _ _ IF) as E. rewrite Forall_forall in E.
          destruct (JF e He k At j) as [(e' & He' & Hlt & At' & Conf)|(d & k' & Hd & Hjk & Atd)]; [cbn [e_bar e]; lia| |].
          -- assert (Hd' : In e' done) by (eapply earlier_in_done; eauto).
             destruct (Forall2_in_r _ _ _ e' F2 Hd') as (p & Hp & Rp & Atp).
             assert (snd p = j) by (apply (at_stage_unique _ NDid (snd p) j _ Atp At')).
             assert (RC : reg_conflict r (fst p) = true).
             { destruct (reg_op_covered (size_reg r) r a (le_n _) Tr Ro) as [C1 C2].
               destruct (reg_op_covered (size_reg (fst p)) (fst p) (e_op e') (le_n _) (regs_times_in _ _ TIMES (Hin p Hp)) Rp) as [D1 D2].
               unfold sys_conflict in Conf.
               pose proof (E e He) as Ee. pose proof (E e' He') as Ee'.
               rewrite (eo_reads _ _ Ee), (eo_writes _ _ Ee), (eo_reads _ _ Ee'), (eo_writes _ _ Ee') in Conf. cbn [e_op e] in Conf.
               unfold reg_conflict. eapply rw_mono; [| | | |exact Conf]; auto. }
             assert (X : existsb (Nat.eqb j) (map snd (filter (fun x => reg_conflict r (fst x)) preW)) = true).
             { apply existsb_exists. exists j. split; [|apply Nat.eqb_refl]. apply in_map_iff. exists p. split; auto.
               apply filter_In. split; auto. }
             rewrite X. reflexivity.
          -- assert (Pl : In s (placed bF)).
             { unfold placed. apply (Permutation_in _ (Permutation_sym (bi_perm _ _ IF))). unfold syss. apply in_map_iff. exists e. auto. }
             pose proof (eo_tag _ _ (E e He)) as Tg. cbn [e_sys e_op e] in Tg.
             pose proof (DEPS r a s Hr Ro Pl Tg d k' Hd Atd) as Dk.
             assert (X : existsb (fun sd => (j <=? sd)%nat) (dep_stages rs r (layout_tags bF)) = true).
             { apply existsb_exists. exists k'. split; auto. now apply Nat.leb_le. }
             rewrite X. apply orb_true_r.
        * rewrite <- (add_keeps_barrier a b b1 R1). apply W.
          -- apply Forall2_app; auto. constructor; [|constructor]. split; auto.
          -- intros p Hp. apply in_app_or in Hp. destruct Hp as [Hp|[<-|[]]]; auto.
      + (* a thread-local system *)
        destruct r; cbn [reg_op] in Ro; try discriminate; [destruct (run_regs inner empty_builder); discriminate|].
        destruct (run_op_justified b done (OTL t) b1 I J To R1) as (m & I1 & J1 & Em). subst m. rewrite app_nil_r in I1, J1.
        destruct (IH b1 done I1 J1 Sub' H) as (more & IF & JF & Ext1 & W).
        exists more. split; [exact IF|split; [exact JF|split; [eapply stages_ext_trans; eauto|]]].
        intros preW F2 Hin. cbn [skips_justified reg_tag]. cbn [run_op] in R1. inversion R1; subst b1. apply (W preW F2 Hin).
      + (* a barrier *)
        destruct r; cbn [reg_op] in Ro; try discriminate; [destruct (run_regs inner empty_builder); discriminate|].
        destruct (run_op_justified b done OBar b1 I J To R1) as (m & I1 & J1 & Em). subst m. rewrite app_nil_r in I1, J1.
        destruct (IH b1 done I1 J1 Sub' H) as (more & IF & JF & Ext1 & W).
        exists more. split; [exact IF|split; [exact JF|split; [eapply stages_ext_trans; eauto|]]].
        intros preW F2 Hin. cbn [skips_justified].
        assert (Ext : stages_ext (b_stages b) (b_stages bF)) by (eapply stages_ext_trans; eauto).
        rewrite (stages_len b done bF preW I Ext NDid F2).
        cbn [run_op] in R1. inversion R1; subst b1. apply (W preW F2 Hin).
  Qed.
End Walk.

(* ---------------- the dependency stages the oracle computes are the stages of the resolved ids ---------------- *)

Lemma find_by_name_total n : forall rs r, In r rs -> is_sys r = true -> reg_name r = n -> n <> [] -> exists t, find_by_name n rs = Some t.
Proof.
  induction rs as [|x rs IH]; intros r Hin Sy Nm Ne; [destruct Hin|]. cbn [find_by_name].
  destruct (is_sys x && negb (is_empty_name (reg_name x)) && name_eqb n (reg_name x)) eqn:E.
  - unfold is_sys in E. destruct (reg_tag x) as [t|]; [eauto|discriminate].
  - destruct Hin as [->|Hin]; [|eapply IH; eauto].
    exfalso. rewrite Sy, Nm in E. assert (X : name_eqb n n = true) by now apply name_eqb_eq.
    rewrite X in E. destruct n; [now elim Ne|discriminate].
Qed.

Lemma deps_stages_model rs b : plan rs = Ok b -> Forall reg_time_ok1 rs -> NoDup (sys_tags rs) ->
  forall r a s, In r rs -> reg_op r = Ok (OAdd a) -> In s (placed b) -> s_tag s = o_tag a ->
  forall d k', In d (s_deps s) -> at_stage (b_stages b) k' d -> In k' (dep_stages rs r (layout_tags b)).
Proof.
  intros H Ht ND r a s Hr Ro Pl Tg d k' Hd Atd. pose proof H as H0.
  unfold plan in H. apply run_regs_ops in H. destruct H as (os & Hos & Hrun).
  destruct (run_ops_inv os empty_builder [] b binv_empty (regs_ops_times _ _ Hos Ht) Hrun) as (done & I & Hm & _).
  cbn [app] in I.
  assert (Htags : map (fun e => o_tag (e_op e)) done = sys_tags rs).
  { rewrite <- (regs_ops_tags _ _ Hos), <- Hm, map_map. reflexivity. }
  assert (NDt : NoDup (map (fun e => o_tag (e_op e)) done)) by (rewrite Htags; exact ND).
  assert (NDl : NoDup (flat (layout_tags b))).
  { eapply Permutation_NoDup; [symmetry; apply (plan_exec_perm rs b H0 Ht)|exact ND]. }
  pose proof (binv_nodup _ _ I) as NDid.
  pose proof (bi_entries _ _ I) as E. rewrite Forall_forall in E.
  (* the entry of a registration *)
  assert (ENT : forall r0 a0, In r0 rs -> reg_op r0 = Ok (OAdd a0) -> exists e0, In e0 done /\ e_op e0 = a0).
  { intros r0 a0 Hr0 Ro0. destruct (reg_op_fields r0 a0 Ro0) as (T0 & _ & _).
    assert (Sy : is_sys r0 = true) by (unfold is_sys; now rewrite T0).
    destruct (regs_ops_in rs os Hos r0 Hr0 Sy) as (a' & Ha' & Hin). assert (a' = a0) by congruence. subst a'.
    rewrite <- Hm in Hin. apply in_map_iff in Hin. destruct Hin as (e0 & <- & He0). eauto. }
  destruct (PlanPrint.placed_entry b done s I Pl) as (e & He & Es).
  destruct (ENT r a Hr Ro) as (e2 & He2 & Ea).
  assert (e2 = e).
  { apply (NoDup_map_inj (fun e => o_tag (e_op e)) done); auto. rewrite Ea, <- Tg, <- Es. apply (eo_tag _ _ (E e He)). }
  subst e2. pose proof (eo_deps _ _ (E e He)) as D. rewrite Ea, Es in D.
  destruct (Forall2_in_r _ _ _ d D Hd) as (n & Hn & (e'' & He'' & Nm'' & Nne & Id'')).
  destruct (reg_op_fields r a Ro) as (_ & _ & Dp). rewrite Dp in Hn.
  assert (Hin'' : In (e_op e'') (adds os)) by (rewrite <- Hm; now apply in_map).
  destruct (regs_ops_adds_inv rs os _ Hos Hin'') as (r'' & Hr'' & Ro'').
  destruct (reg_op_fields r'' _ Ro'') as (T'' & N'' & _).
  assert (Sy'' : is_sys r'' = true) by (unfold is_sys; now rewrite T'').
  destruct (find_by_name_total n rs r'' Hr'' Sy'' ltac:(congruence) Nne) as (t1 & F1).
  destruct (find_by_name_some _ _ _ F1) as (r1 & Hr1 & Sy1 & Nm1 & _ & T1).
  assert (exists a1, reg_op r1 = Ok (OAdd a1)) as (a1 & Ro1).
  { destruct (regs_ops_in rs os Hos r1 Hr1 Sy1) as (a1 & Ha1 & _). eauto. }
  destruct (ENT r1 a1 Hr1 Ro1) as (e1 & He1 & Ea1). destruct (reg_op_fields r1 a1 Ro1) as (T1' & N1 & _).
  assert (e1 = e'').
  { apply (bi_names_unique _ _ I); auto; rewrite Ea1; congruence. }
  subst e1. assert (t1 = o_tag (e_op e'')) by congruence. subst t1.
  destruct (entry_stage_of b done e'' I NDl He'') as (k'' & Sk'' & At'').
  rewrite Id'' in At''. assert (k'' = k') by (apply (at_stage_unique _ NDid k'' k' d At'' Atd)). subst k''.
  unfold dep_stages. apply in_concat. exists [k']. split; [|now left].
  apply in_map_iff. exists (o_tag (e_op e'')). rewrite Sk''. split; auto.
  unfold dep_tags. apply in_concat. exists [o_tag (e_op e'')]. split; [|now left].
  apply in_map_iff. exists n. rewrite F1. auto.
Qed.

(* C10: the oracle holds on the layout the model builds, for programs of any length and nesting *)
Theorem o_skip_justified_on_model rs b :
  plan rs = Ok b -> regs_times_ok rs -> NoDup (sys_tags rs) -> o_skip_justified rs (layout_tags b) = true.
Proof.
  intros H Ht ND. pose proof (regs_times_ok1 _ Ht) as Ht1.
  assert (NDl : NoDup (flat (layout_tags b))).
  { eapply Permutation_NoDup; [symmetry; apply (plan_exec_perm rs b H Ht1)|exact ND]. }
  destruct (plan_inv rs b H Ht1) as (done0 & I0 & _). pose proof (binv_nodup _ _ I0) as NDid.
  assert (J0 : all_justified empty_builder []) by (intros e []).
  destruct (walk rs b NDid NDl Ht (deps_stages_model rs b H Ht1 ND) rs empty_builder [] binv_empty J0 (fun r Hr => Hr) H)
    as (more & _ & _ & _ & W).
  unfold o_skip_justified. apply (W [] (Forall2_nil _)). intros p [].
Qed.
