(* Fault.v — C14: the executor model with panicking systems.  [F] = the systems that panic
   when they run.  A panicking member is fetched, panics, and its data is released by the
   unwinding ([EF t; EP t; ER t]); the rest of its group does not run.  The other groups of
   the stage either run (completely, or up to their own first panic) or — only if some group
   of the stage panicked — are never started (a superset of what rayon does); the stage ends
   when all started groups have ended; after a stage with a panic nothing else runs: no later
   stage, no thread-local system.  Thread-local systems run in order until the first panic.
   Model only. *)
From Shred Require Import Base Exec.
Open Scope N_scope.

Inductive fev := FF (t : N) | FR (t : N) | FP (t : N).
Definition fev_tag (e : fev) : N := match e with FF t => t | FR t => t | FP t => t end.

Definition fsys (F : list N) (t : N) : list fev * bool :=
  if memN t F then ([FF t; FP t; FR t], true) else ([FF t; FR t], false).

(* a group: front to back until the first panic *)
Fixpoint fgroup (F : list N) (g : list N) : list fev * bool :=
  match g with
  | [] => ([], false)
  | t :: r => if memN t F then ([FF t; FP t; FR t], true)
              else let '(tr, p) := fgroup F r in (FF t :: FR t :: tr, p)
  end.

Inductive FShuffle : list fev -> list fev -> list fev -> Prop :=
| FSh_nil : FShuffle [] [] []
| FSh_l x a b c : FShuffle a b c -> FShuffle (x :: a) b (x :: c)
| FSh_r x a b c : FShuffle a b c -> FShuffle a (x :: b) (x :: c).
Inductive FShuffleN : list (list fev) -> list fev -> Prop :=
| FSN_nil : FShuffleN [] []
| FSN_cons l ls t t' : FShuffleN ls t -> FShuffle l t t' -> FShuffleN (l :: ls) t'.

(* the groups of a stage: each one runs or is never started; [p] = some started group
   panicked, [a] = all groups were started *)
Inductive fgroups (F : list N) : list (list N) -> list (list fev) -> bool -> bool -> Prop :=
| FG_nil : fgroups F [] [] false true
| FG_run g st ts p a : fgroups F st ts p a ->
    fgroups F (g :: st) (fst (fgroup F g) :: ts) (snd (fgroup F g) || p) a
| FG_skip g st ts p a : fgroups F st ts p a -> fgroups F (g :: st) ([] :: ts) p false.

Definition fstage_traces (F : list N) (st : list (list N)) (t : list fev) (p : bool) : Prop :=
  exists ts a, fgroups F st ts p a /\ FShuffleN ts t /\ (p = false -> a = true).

Inductive fstaged (F : list N) : lay -> list fev -> bool -> Prop :=
| FS_nil : fstaged F [] [] false
| FS_ok st l t1 t2 p : fstage_traces F st t1 false -> fstaged F l t2 p -> fstaged F (st :: l) (t1 ++ t2) p
| FS_panic st l t1 : fstage_traces F st t1 true -> fstaged F (st :: l) t1 true.

(* dispatch with faults: (trace, a panic reaches the caller) *)
Definition ftraces_disp (F : list N) (l : lay) (tl : list N) (t : list fev) (p : bool) : Prop :=
  exists t1 p1, fstaged F l t1 p1 /\
    if p1 then t = t1 /\ p = true
    else t = t1 ++ fst (fgroup F tl) /\ p = snd (fgroup F tl).

(* dispatch_seq with faults: groups one after the other, everything stops at the first panic *)
Definition ftrace_seq (F : list N) (l : lay) (tl : list N) : list fev * bool :=
  fgroup F (concat (concat l) ++ tl).

Definition erase (e : ev) : fev := match e with EF t => FF t | ER t => FR t end.

(* ---------------- the acceptor for recorded faulty traces ---------------- *)

Definition fev_eqb (a b : fev) : bool :=
  match a, b with
  | FF x, FF y => x =? y
  | FR x, FR y => x =? y
  | FP x, FP y => x =? y
  | _, _ => false
  end.
Definition fproj (tags : list N) (tr : list fev) : list fev := filter (fun e => memN (fev_tag e) tags) tr.
Definition is_panic (e : fev) : bool := match e with FP _ => true | _ => false end.
Definition has_panic (tr : list fev) : bool := existsb is_panic tr.
Definition is_nil {A} (l : list A) : bool := match l with [] => true | _ => false end.

(* the longest prefix made of events of the given tags, and the rest *)
Fixpoint span_tags (tags : list N) (tr : list fev) : list fev * list fev :=
  match tr with
  | [] => ([], [])
  | e :: r => if memN (fev_tag e) tags then let '(a, b) := span_tags tags r in (e :: a, b) else ([], tr)
  end.

(* every group either shows exactly its faulty group trace, or — only when the stage has a
   panic — nothing at all *)
Definition faccept_stage (F : list N) (st : list (list N)) (seg : list fev) : bool :=
  forallb (fun g => list_eqb fev_eqb (fproj g seg) (fst (fgroup F g)) || (has_panic seg && is_nil (fproj g seg))) st.

Fixpoint faccept_staged (F : list N) (l : lay) (tr : list fev) : option (list fev * bool) :=
  match l with
  | [] => Some (tr, false)
  | st :: l' =>
      let '(seg, rest) := span_tags (concat st) tr in
      if faccept_stage F st seg then
        if has_panic seg then (if is_nil rest then Some ([], true) else None)
        else faccept_staged F l' rest
      else None
  end.

Definition faccept_disp (F : list N) (l : lay) (tl : list N) (tr : list fev) : bool :=
  match faccept_staged F l tr with
  | Some (rest, true) => is_nil rest
  | Some (rest, false) => list_eqb fev_eqb rest (fst (fgroup F tl))
  | None => false
  end.
