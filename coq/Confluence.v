(* Confluence.v — C05: schedule independence.  The world is a function from keys to values
   (resources and, under private keys, the state of each system); a system's effect is applied
   when it releases.  If every effect respects the declared access (reads only R ∪ W, changes
   only W) and side-by-side systems do not conflict, then EVERY trace of a dispatch ends in
   the state of the sequential trace. *)
From Shred Require Import Base Plan PlanLemmas Exec ExecProps.
From Coq Require Import Permutation.
Open Scope N_scope.

Section Effects.
  Variable V : Type.
  Definition world := N -> V.
  Definition weq (w w' : world) : Prop := forall k, w k = w' k.

  Variable R W : N -> list N.             (* declared reads / writes of a system (by tag) *)
  Variable f : N -> world -> world.       (* the effect of running a system *)

  Definition respects (t : N) : Prop :=
    (forall w k, ~ In k (W t) -> f t w k = w k) /\
    (forall w w', (forall k, In k (R t) \/ In k (W t) -> w k = w' k) -> forall k, In k (W t) -> f t w k = f t w' k).

  Lemma respects_proper t : respects t -> forall w w', weq w w' -> weq (f t w) (f t w').
  Proof.
    intros [Fr Lo] w w' E k. destruct (in_dec N.eq_dec k (W t)) as [Hk|Hk].
    - apply Lo; auto.
    - rewrite !Fr by auto. apply E.
  Qed.

  Definition noconf (a b : N) : Prop := rw_conflict (R a) (W a) (R b) (W b) = false.

  (* two systems without a W/W, W/R or R/W overlap commute *)
  Lemma noconflict_commute a b : respects a -> respects b -> noconf a b ->
    forall w, weq (f a (f b w)) (f b (f a w)).
  Proof.
    intros [Fa La] [Fb Lb] C w k. unfold noconf in C. rewrite rw_conflict_false in C. destruct C as (C1 & C2 & C3).
    destruct (in_dec N.eq_dec k (W a)) as [Ka|Ka]; destruct (in_dec N.eq_dec k (W b)) as [Kb|Kb].
    - exfalso. eauto.
    - (* written by a only *)
      rewrite (Fb (f a w) k Kb). apply La; auto.
      intros k' [Hk'|Hk']; apply Fb; intros X; eauto.
    - rewrite (Fa (f b w) k Ka). symmetry. apply Lb; auto.
      intros k' [Hk'|Hk']; apply Fa; intros X; eauto.
    - now rewrite Fa, Fb, Fb, Fa.
  Qed.

  Definition run (order : list N) (w : world) : world := fold_left (fun w t => f t w) order w.

  Lemma run_app a b w : run (a ++ b) w = run b (run a w).
  Proof. unfold run. apply fold_left_app. Qed.

  Lemma run_proper order : Forall respects order -> forall w w', weq w w' -> weq (run order w) (run order w').
  Proof.
    induction order as [|t r IH]; intros Hr w w' E; cbn; auto.
    inversion Hr; subst. apply IH; auto. now apply respects_proper.
  Qed.

  Lemma weq_trans a b c : weq a b -> weq b c -> weq a c.
  Proof. intros H1 H2 k. now rewrite H1. Qed.
  Lemma weq_sym a b : weq a b -> weq b a.
  Proof. intros H k. now rewrite H. Qed.

  (* a system that commutes with everything in front of it may be moved to the front *)
  Lemma move_front y a r : respects y -> Forall respects a -> Forall respects r ->
    (forall x, In x a -> noconf x y) ->
    forall w, weq (run (a ++ y :: r) w) (run (y :: a ++ r) w).
  Proof.
    intros Hy. induction a as [|x a IH]; intros Ha Hr Hc w; [intros k; reflexivity|].
    inversion Ha as [|? ? Hx Ha']; subst. cbn [app run fold_left].
    fold (run (a ++ y :: r) (f x w)). fold (run (a ++ r) (f x (f y w))).
    eapply weq_trans; [apply IH; auto; intros x' Hx'; apply Hc; now right|].
    cbn [run fold_left]. fold (run (a ++ r) (f y (f x w))).
    apply run_proper; [apply Forall_app; split; auto|].
    apply weq_sym. apply noconflict_commute; auto. apply Hc. now left.
  Qed.

  (* interleavings of tag lists *)
  Inductive ShufT : list N -> list N -> list N -> Prop :=
  | ShT_nil : ShufT [] [] []
  | ShT_l x a b c : ShufT a b c -> ShufT (x :: a) b (x :: c)
  | ShT_r x a b c : ShufT a b c -> ShufT a (x :: b) (x :: c).
  Inductive ShufTN : list (list N) -> list N -> Prop :=
  | ShTN_nil : ShufTN [] []
  | ShTN_cons l ls t t' : ShufTN ls t -> ShufT l t t' -> ShufTN (l :: ls) t'.

  Lemma shufT_in a b c : ShufT a b c -> forall x, In x c <-> In x a \/ In x b.
  Proof. induction 1; intros y; cbn; [tauto| |]; rewrite IHShufT; tauto. Qed.

  (* folding over any interleaving of two mutually commuting sequences = folding over their
     concatenation *)
  Lemma interleave_confluent a b c : ShufT a b c ->
    Forall respects a -> Forall respects b -> (forall x y, In x a -> In y b -> noconf x y) ->
    forall w, weq (run c w) (run (a ++ b) w).
  Proof.
    induction 1 as [|x a b c H IH|y a b c H IH]; intros Ha Hb Hc w.
    - intros k. reflexivity.
    - inversion Ha; subst. cbn [app run fold_left]. apply IH; auto. intros x' y' Hx' Hy'. apply Hc; auto. now right.
    - inversion Hb as [|? ? Hy Hb']; subst. cbn [run fold_left]. fold (run c (f y w)).
      eapply weq_trans; [apply IH; auto; intros x' y' Hx' Hy'; apply Hc; auto; now right|].
      apply weq_sym. eapply weq_trans; [apply move_front; auto; intros x' Hx'; apply Hc; auto; now left|].
      intros k. reflexivity.
  Qed.

  Lemma shufTN_in ls t : ShufTN ls t -> forall x, In x t <-> In x (concat ls).
  Proof.
    induction 1 as [|l ls t t' HN IH HS]; intros x; cbn; [tauto|].
    rewrite (shufT_in _ _ _ HS), in_app_iff, IH. tauto.
  Qed.

  Lemma interleaveN_confluent ls t : ShufTN ls t ->
    Forall (Forall respects) ls ->
    ForallOrdPairs (fun g1 g2 => forall x y, In x g1 -> In y g2 -> noconf x y) ls ->
    forall w, weq (run t w) (run (concat ls) w).
  Proof.
    induction 1 as [|l ls t t' HN IH HS]; intros Hr Hp w; [intros k; reflexivity|].
    inversion Hr as [|? ? Hl Hls]; subst. inversion Hp as [|? ? Hl1 Hp']; subst.
    assert (Ht : Forall respects t).
    { rewrite Forall_forall. intros x Hx. apply (shufTN_in _ _ HN) in Hx. apply in_concat in Hx.
      destruct Hx as (g & Hg & Hx). rewrite Forall_forall in Hls. specialize (Hls g Hg). rewrite Forall_forall in Hls. auto. }
    eapply weq_trans; [apply (interleave_confluent _ _ _ HS); auto|].
    - intros x y Hx Hy. apply (shufTN_in _ _ HN) in Hy. apply in_concat in Hy. destruct Hy as (g & Hg & Hy).
      rewrite Forall_forall in Hl1. eapply Hl1; eauto.
    - cbn [concat]. rewrite !run_app. apply IH; auto.
  Qed.

  (* ---------------- from event traces to release orders ---------------- *)

  Definition rel_order (t : list ev) : list N :=
    concat (map (fun e => match e with ER x => [x] | EF _ => [] end) t).

  Lemma rel_order_app a b : rel_order (a ++ b) = rel_order a ++ rel_order b.
  Proof. unfold rel_order. now rewrite map_app, concat_app. Qed.

  Lemma rel_order_group g : rel_order (group_trace g) = g.
  Proof. unfold rel_order, group_trace. induction g as [|x g IH]; cbn; auto. now rewrite IH. Qed.

  Lemma shuffle_rel a b c : Shuffle a b c -> ShufT (rel_order a) (rel_order b) (rel_order c).
  Proof.
    induction 1 as [|e a b c H IH|e a b c H IH]; [constructor| |];
      destruct e; cbn; auto; now constructor.
  Qed.

  Lemma shuffleN_rel ls t : ShuffleN ls t -> ShufTN (map rel_order ls) (rel_order t).
  Proof. induction 1; cbn; econstructor; eauto. now apply shuffle_rel. Qed.

  (* side-by-side systems of a layout do not conflict on their declared access *)
  Definition lay_isolated (l : lay) : Prop :=
    Forall (ForallOrdPairs (fun g1 g2 => forall x y, In x g1 -> In y g2 -> noconf x y)) l.
  Definition lay_respects (l : lay) (tl : list N) : Prop :=
    Forall (Forall (Forall respects)) l /\ Forall respects tl.

  Lemma map_rel_group st : map rel_order (map group_trace st) = st.
  Proof. rewrite map_map. rewrite <- (map_id st) at 2. apply map_ext. apply rel_order_group. Qed.

  Lemma staged_confluent l : forall t, staged_traces l t -> lay_isolated l -> Forall (Forall (Forall respects)) l ->
    forall w, weq (run (rel_order t) w) (run (concat (concat l)) w).
  Proof.
    induction l as [|st l IH]; intros t H Hi Hr w; inversion H as [|? ? t1 t2 H1 H2]; subst.
    - intros k. reflexivity.
    - inversion Hi; subst. inversion Hr; subst.
      rewrite rel_order_app. cbn [concat]. rewrite concat_app, !run_app.
      apply shuffleN_rel in H1. rewrite map_rel_group in H1.
      eapply weq_trans; [apply IH; auto|].
      apply run_proper.
      + rewrite Forall_forall. intros x Hx. apply in_concat in Hx. destruct Hx as (g & Hg & Hx).
        apply in_concat in Hg. destruct Hg as (s & Hs & Hg).
        match goal with H : Forall (Forall (Forall respects)) l |- _ => rewrite Forall_forall in H; specialize (H s Hs);
          rewrite Forall_forall in H; specialize (H g Hg); rewrite Forall_forall in H; auto end.
      + apply interleaveN_confluent; auto.
  Qed.

  Lemma rel_order_trace_seq l tl : rel_order (trace_seq l tl) = concat (concat l) ++ tl.
  Proof.
    unfold trace_seq. rewrite rel_order_app, rel_order_group. f_equal.
    induction l as [|st l IH]; [reflexivity|]. cbn [map concat]. rewrite rel_order_app, concat_app, IH. f_equal.
    clear. induction st as [|g st IHs]; [reflexivity|]. cbn [map concat]. now rewrite rel_order_app, rel_order_group, IHs.
  Qed.

  (* C05: every trace of a parallel dispatch ends in the state of the sequential dispatch *)
  Theorem par_eq_seq l tl t :
    traces_disp l tl t -> lay_isolated l -> lay_respects l tl ->
    forall w, weq (run (rel_order t) w) (run (rel_order (trace_seq l tl)) w).
  Proof.
    intros (t1 & H & ->) Hi [Hr Htl] w.
    pose proof (rel_order_trace_seq l tl) as E.
    rewrite E, rel_order_app, rel_order_group, !run_app.
    apply run_proper; auto. now apply staged_confluent.
  Qed.

  (* repeating the dispatch preserves the equality *)
  Inductive traces_rep' (l : lay) (tl : list N) : nat -> list ev -> Prop :=
  | TR0 : traces_rep' l tl 0 []
  | TRS k t1 t2 : traces_disp l tl t1 -> traces_rep' l tl k t2 -> traces_rep' l tl (S k) (t1 ++ t2).
  Fixpoint seq_rep (l : lay) (tl : list N) (k : nat) : list N :=
    match k with O => [] | S k' => (concat (concat l) ++ tl) ++ seq_rep l tl k' end.

  Lemma all_respect l tl : lay_respects l tl -> Forall respects (concat (concat l) ++ tl).
  Proof.
    intros [Hr Htl]. apply Forall_app. split; auto.
    rewrite Forall_forall. intros x Hx. apply in_concat in Hx. destruct Hx as (g & Hg & Hx).
    apply in_concat in Hg. destruct Hg as (s & Hs & Hg).
    rewrite Forall_forall in Hr. specialize (Hr s Hs). rewrite Forall_forall in Hr. specialize (Hr g Hg).
    rewrite Forall_forall in Hr. auto.
  Qed.

  Theorem par_eq_seq_repeated l tl k t :
    traces_rep' l tl k t -> lay_isolated l -> lay_respects l tl ->
    forall w, weq (run (rel_order t) w) (run (seq_rep l tl k) w).
  Proof.
    induction 1 as [|k t1 t2 H1 H2 IH]; intros Hi Hr w; [intros x; reflexivity|].
    rewrite rel_order_app. cbn [seq_rep]. rewrite !run_app.
    eapply weq_trans; [apply IH; auto|].
    apply run_proper.
    - clear - Hr. induction k; cbn; [constructor|]. apply Forall_app. split; auto. now apply all_respect.
    - pose proof (par_eq_seq l tl t1 H1 Hi Hr w) as P.
      pose proof (rel_order_trace_seq l tl) as E.
      rewrite E, run_app in P. exact P.
  Qed.

  (* a batch: the composition of effects that respect their own declarations respects any
     declaration that covers them (the union accessor of C07), so a batch whose number of
     inner dispatches does not depend on the world is itself a respectful system *)
  Lemma respects_compose_cover (ts : list N) (Ru Wu : list N) :
    Forall respects ts ->
    (forall t k, In t ts -> In k (W t) -> In k Wu) ->
    (forall t k, In t ts -> In k (R t) -> In k Ru \/ In k Wu) ->
    (forall w k, ~ In k Wu -> run ts w k = w k) /\
    (forall w w', (forall k, In k Ru \/ In k Wu -> w k = w' k) ->
                  forall k, In k Ru \/ In k Wu -> run ts w k = run ts w' k).
  Proof.
    induction ts as [|t ts IH]; intros Hr HW HR.
    - split; intros; cbn; auto.
    - inversion Hr as [|? ? [Ft Lt] Hr']; subst.
      destruct IH as [IH1 IH2]; auto.
      { intros t' k Ht'. apply HW. now right. }
      { intros t' k Ht'. apply HR. now right. }
      split.
      + intros w k Hk. cbn [run fold_left]. fold (run ts (f t w)). rewrite IH1 by auto.
        apply Ft. intros X. apply Hk. eapply HW; eauto. now left.
      + intros w w' E k Hk. cbn [run fold_left]. fold (run ts (f t w)). fold (run ts (f t w')).
        apply IH2; auto. intros k' Hk'.
        destruct (in_dec N.eq_dec k' (W t)) as [Kw|Kw].
        * apply Lt; auto. intros k2 [H2|H2]; apply E; [eapply HR; eauto; now left|right; eapply HW; eauto; now left].
        * rewrite !Ft by auto. now apply E.
  Qed.
End Effects.
