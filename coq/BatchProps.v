(* BatchProps.v — C07: a batch takes part in scheduling with the union of what its controller
   declares and of what every system inside it declares, at any nesting depth. *)
From Shred Require Import Base SrcParams Plan PlanObs PlanLemmas PlanInv PlanLoc PlanBuild PlanProps Exec ExecProps.
From Coq Require Import Permutation.
Open Scope N_scope.

Lemma eff_reads_batch t nm deps cr cw tm cnt inner :
  eff_reads (RBatch t nm deps cr cw tm cnt inner) = cr ++ concat (map eff_reads inner).
Proof.
  cbn [eff_reads]. f_equal. induction inner as [|r rs IH]; [reflexivity|]. cbn [map concat]. now rewrite <- IH.
Qed.
Lemma eff_writes_batch t nm deps cr cw tm cnt inner :
  eff_writes (RBatch t nm deps cr cw tm cnt inner) = cw ++ concat (map eff_writes inner).
Proof.
  cbn [eff_writes]. f_equal. induction inner as [|r rs IH]; [reflexivity|]. cbn [map concat]. now rewrite <- IH.
Qed.

(* the accumulated tables of a built level hold the access lists of all its operations *)
Lemma all_reads_ops b done : binv b done ->
  forall e x, In e done -> In x (o_reads (e_op e)) -> In x (all_reads b).
Proof.
  intros I e x He Hx. unfold all_reads.
  pose proof (bi_entries _ _ I) as E. rewrite Forall_forall in E. rewrite <- (eo_reads _ _ (E e He)) in Hx.
  assert (Hm : In (e_sys e) (members (b_stages b))).
  { eapply Permutation_in; [symmetry; apply (bi_perm _ _ I)|]. unfold syss. now apply in_map. }
  unfold members in Hm. apply in_concat in Hm. destruct Hm as (ms & Hms & Hs).
  apply in_map_iff in Hms. destruct Hms as (g & <- & Hg).
  apply in_concat. exists (g_reads g). split; [now apply in_map|].
  assert (G : group_ok g).
  { apply in_concat in Hg. destruct Hg as (st & Hst & Hg). pose proof (bi_stages _ _ I) as S. rewrite Forall_forall in S.
    pose proof (sk_groups _ (S st Hst)) as Gs. rewrite Forall_forall in Gs. auto. }
  rewrite (gk_reads _ G). apply in_concat. exists (s_reads (e_sys e)). split; auto. now apply in_map.
Qed.
Lemma all_writes_ops b done : binv b done ->
  forall e x, In e done -> In x (o_writes (e_op e)) -> In x (all_writes b).
Proof.
  intros I e x He Hx. unfold all_writes.
  pose proof (bi_entries _ _ I) as E. rewrite Forall_forall in E. rewrite <- (eo_writes _ _ (E e He)) in Hx.
  assert (Hm : In (e_sys e) (members (b_stages b))).
  { eapply Permutation_in; [symmetry; apply (bi_perm _ _ I)|]. unfold syss. now apply in_map. }
  unfold members in Hm. apply in_concat in Hm. destruct Hm as (ms & Hms & Hs).
  apply in_map_iff in Hms. destruct Hms as (g & <- & Hg).
  apply in_concat. exists (g_writes g). split; [now apply in_map|].
  assert (G : group_ok g).
  { apply in_concat in Hg. destruct Hg as (st & Hst & Hg). pose proof (bi_stages _ _ I) as S. rewrite Forall_forall in S.
    pose proof (sk_groups _ (S st Hst)) as Gs. rewrite Forall_forall in Gs. auto. }
  rewrite (gk_writes _ G). apply in_concat. exists (s_writes (e_sys e)). split; auto. now apply in_map.
Qed.

(* the operation a registration performs on the builder of its level *)
Definition covers (r : reg) (a : opadd) : Prop :=
  (forall x, In x (eff_reads r) -> In x (o_reads a)) /\ (forall x, In x (eff_writes r) -> In x (o_writes a)).

Lemma regs_ops_in : forall rs os, regs_ops rs = Ok os ->
  forall r, In r rs -> is_sys r = true -> exists a, reg_op r = Ok (OAdd a) /\ In a (adds os).
Proof.
  induction rs as [|r0 rs IH]; intros os H r Hin Hs; [destruct Hin|]. cbn [regs_ops] in H.
  destruct (reg_op r0) as [o|e] eqn:R; cbn [bind] in H; [|discriminate].
  destruct (regs_ops rs) as [os'|e]; cbn [bind] in H; [|discriminate]. inversion H; subst.
  destruct Hin as [->|Hin].
  - destruct r; cbn in Hs; try discriminate; cbn [reg_op] in *.
    + inversion R; subst. eexists. split; [reflexivity|now left].
    + destruct (run_regs inner empty_builder); cbn [bind] in *; [|discriminate]. inversion R; subst.
      eexists. split; [reflexivity|now left].
  - destruct (IH os' eq_refl r Hin Hs) as (a & Ha & Hina). exists a. split; auto.
    destruct o; cbn [adds]; auto. now right.
Qed.

(* C07: by induction on the nesting: the access lists handed to the scheduler for a
   registration contain every read / write of everything inside it, at any depth *)
Lemma reg_op_covers : forall n r a,
  (size_reg r <= n)%nat -> reg_times_ok r -> reg_op r = Ok (OAdd a) -> covers r a.
Proof.
  induction n as [|n IH]; intros r a Hsz Ht H.
  - destruct r; cbn in Hsz; lia.
  - destruct r as [t nm deps rd wr tm|t nm deps cr cw tm cnt inner|t|]; cbn [reg_op] in H.
    + inversion H; subst. split; cbn; auto.
    + destruct (run_regs inner empty_builder) as [bi|e] eqn:Ri; cbn [bind] in H; [|discriminate].
      inversion H; subst a. clear H. cbn [o_reads o_writes].
      (* the inner level *)
      cbn [size_reg] in Hsz.
      change ((fix go (rs : list reg) : nat := match rs with [] => O | r' :: rs' => (size_reg r' + go rs')%nat end) inner)
        with (size_regs inner) in Hsz.
      cbn [reg_times_ok] in Ht. destruct Ht as [_ Hti].
      change ((fix go (rs : list reg) : Prop := match rs with [] => True | r' :: rs' => reg_times_ok r' /\ go rs' end) inner)
        with (regs_times_ok inner) in Hti.
      assert (Ht1 : Forall reg_time_ok1 inner).
      { clear - Hti. induction inner as [|r rs IHr]; constructor; cbn in Hti; destruct Hti as [Hr Hrs]; auto.
        destruct r; cbn in *; tauto. }
      pose proof Ri as Ri'. apply run_regs_ops in Ri'. destruct Ri' as (os & Hos & Hrun).
      destruct (run_ops_inv os empty_builder [] bi binv_empty (regs_ops_times _ _ Hos Ht1) Hrun) as (done & I & Hm & _).
      cbn [app] in I.
      assert (C : forall r', In r' inner ->
                (forall x, In x (eff_reads r') -> In x (all_reads bi)) /\ (forall x, In x (eff_writes r') -> In x (all_writes bi))).
      { intros r' Hr'. destruct (is_sys r') eqn:Sy.
        - destruct (regs_ops_in inner os Hos r' Hr' Sy) as (a' & Ha' & Hin').
          assert (Hsz' : (size_reg r' <= n)%nat).
          { assert (size_reg r' <= size_regs inner)%nat; [|lia].
            clear - Hr'. induction inner as [|x l IHl]; [destruct Hr'|]. destruct Hr' as [->|Hr']; cbn [size_regs]; [lia|].
            specialize (IHl Hr'). lia. }
          assert (Ht' : reg_times_ok r').
          { clear - Hti Hr'. induction inner as [|x l IHl]; [destruct Hr'|]. cbn in Hti. destruct Hr' as [->|Hr']; tauto. }
          destruct (IH r' a' Hsz' Ht' Ha') as [C1 C2].
          rewrite <- Hm in Hin'. apply in_map_iff in Hin'. destruct Hin' as (e & <- & He).
          split; intros x Hx; [eapply all_reads_ops|eapply all_writes_ops]; eauto.
        - destruct r'; cbn in Sy; try discriminate; split; intros x []. }
      split; intros x Hx.
      * rewrite eff_reads_batch in Hx. apply in_or_app. apply in_app_or in Hx. destruct Hx as [Hx|Hx]; [now right|left].
        apply in_concat in Hx. destruct Hx as (l & Hl & Hx). apply in_map_iff in Hl. destruct Hl as (r' & <- & Hr').
        now apply (proj1 (C r' Hr')).
      * rewrite eff_writes_batch in Hx. apply in_or_app. apply in_app_or in Hx. destruct Hx as [Hx|Hx]; [now right|left].
        apply in_concat in Hx. destruct Hx as (l & Hl & Hx). apply in_map_iff in Hl. destruct Hl as (r' & <- & Hr').
        now apply (proj2 (C r' Hr')).
    + discriminate.
    + discriminate.
Qed.

Theorem batch_accessor_covers r a : reg_times_ok r -> reg_op r = Ok (OAdd a) -> covers r a.
Proof. apply (reg_op_covers (size_reg r) r a (le_n _)). Qed.

(* monotonicity of the conflict test *)
Lemma rw_conflict_incl r1 w1 r2 w2 r1' w1' r2' w2' :
  incl r1 r1' -> incl w1 w1' -> incl r2 r2' -> incl w2 w2' ->
  rw_conflict r1' w1' r2' w2' = false -> rw_conflict r1 w1 r2 w2 = false.
Proof.
  intros A B C D H. rewrite rw_conflict_false in *. destruct H as (H1 & H2 & H3).
  repeat split; intros x Hx Hy; [eapply H1|eapply H2|eapply H3]; eauto.
Qed.

Lemma regs_times_in rs r : regs_times_ok rs -> In r rs -> reg_times_ok r.
Proof. induction rs as [|x l IH]; intros H Hin; [destruct Hin|]. cbn in H. destruct Hin as [->|Hin]; tauto. Qed.

Lemma regs_times_ok1 rs : regs_times_ok rs -> Forall reg_time_ok1 rs.
Proof.
  induction rs as [|r rs IH]; intros H; constructor; cbn in H; destruct H as [Hr Hrs]; auto.
  destruct r; cbn in *; tauto.
Qed.

(* C07/C01: two registrations whose system objects are placed side by side do not conflict on
   ANYTHING declared inside them: controller data and inner systems at any depth *)
Theorem side_by_side_subtrees_do_not_conflict rs b :
  plan rs = Ok b -> regs_times_ok rs -> NoDup (sys_tags rs) ->
  forall st i j g1 g2 a c ra rc,
    In st (b_stages b) -> nth_error st i = Some g1 -> nth_error st j = Some g2 -> i <> j ->
    In a (g_mem g1) -> In c (g_mem g2) ->
    In ra rs -> In rc rs -> reg_tag ra = Some (s_tag a) -> reg_tag rc = Some (s_tag c) ->
    reg_conflict ra rc = false.
Proof.
  intros H Ht ND st i j g1 g2 a c ra rc Hst Hi Hj Hij Ha Hc Hra Hrc Ta Tc.
  pose proof (regs_times_ok1 _ Ht) as Ht1.
  pose proof (plan_isolated rs b H Ht1 st i j g1 g2 a c Hst Hi Hj Hij Ha Hc) as Iso.
  unfold plan in H. apply run_regs_ops in H. destruct H as (os & Hos & Hrun).
  destruct (run_ops_inv os empty_builder [] b binv_empty (regs_ops_times _ _ Hos Ht1) Hrun) as (done & I & Hm & _).
  cbn [app] in I.
  assert (K : forall (s : sys) (r : reg) (g : group), In g st -> In s (g_mem g) -> In r rs -> reg_tag r = Some (s_tag s) ->
              incl (eff_reads r) (s_reads s) /\ incl (eff_writes r) (s_writes s)).
  { intros s r g Hg Hs Hr Tr.
    assert (Sy : is_sys r = true) by (unfold is_sys; now rewrite Tr).
    destruct (regs_ops_in rs os Hos r Hr Sy) as (a' & Ha' & Hin').
    destruct (batch_accessor_covers r a' (regs_times_in _ _ Ht Hr) Ha') as [C1 C2].
    rewrite <- Hm in Hin'. apply in_map_iff in Hin'. destruct Hin' as (e & <- & He).
    pose proof (bi_entries _ _ I) as E. rewrite Forall_forall in E. specialize (E e He).
    (* the entry of r and the member s carry the same tag: they are the same system *)
    assert (Hs' : In s (members (b_stages b))).
    { unfold members. apply in_concat. exists (g_mem g). split; auto. apply in_map. apply in_concat. exists st. auto. }
    apply (Permutation_in _ (bi_perm _ _ I)) in Hs'. unfold syss in Hs'. apply in_map_iff in Hs'.
    destruct Hs' as (e2 & <- & He2).
    assert (e2 = e).
    { assert (NDt : NoDup (map (fun e => o_tag (e_op e)) done)).
      { rewrite <- map_map, Hm. rewrite (regs_ops_tags _ _ Hos). exact ND. }
      assert (Te : o_tag (e_op e) = s_tag (e_sys e2)).
      { clear - Ha' Tr. destruct r; cbn in Ha', Tr; try discriminate.
        - inversion Ha'; subst. cbn. congruence.
        - destruct (run_regs inner empty_builder); cbn in Ha'; [|discriminate]. inversion Ha'; subst. cbn. congruence. }
      pose proof (E) as Ee. pose proof (bi_entries _ _ I) as E2. rewrite Forall_forall in E2. specialize (E2 e2 He2).
      rewrite (eo_tag _ _ E2) in Te.
      clear - NDt Te He He2. induction done as [|x l IH]; [destruct He|]. cbn [map] in NDt. inversion NDt as [|? ? Hn ND']; subst.
      destruct He as [->|He], He2 as [->|He2]; auto.
      - exfalso. apply Hn. rewrite Te. now apply (in_map (fun e => o_tag (e_op e))).
      - exfalso. apply Hn. rewrite <- Te. now apply (in_map (fun e => o_tag (e_op e))). }
    subst e2. rewrite (eo_reads _ _ E), (eo_writes _ _ E). split; intros x Hx; auto. }
  destruct (K a ra g1 (nth_error_In _ _ Hi) Ha Hra Ta) as [A1 A2].
  destruct (K c rc g2 (nth_error_In _ _ Hj) Hc Hrc Tc) as [C1 C2].
  unfold reg_conflict. eapply rw_conflict_incl; eauto.
Qed.

(* the inner dispatcher is built by the same planner: every theorem about [plan] holds for it *)
Theorem inner_level_is_planned rs b t nm deps cr cw tm cnt inner :
  plan rs = Ok b -> In (RBatch t nm deps cr cw tm cnt inner) rs -> exists bi, plan inner = Ok bi.
Proof.
  unfold plan. intros H Hin. apply run_regs_ops in H. destruct H as (os & Hos & _).
  clear - Hos Hin. revert os Hos. induction rs as [|r rs IH]; intros os Hos; [destruct Hin|]. cbn [regs_ops] in Hos.
  destruct (reg_op r) as [o|e] eqn:R; cbn [bind] in Hos; [|discriminate].
  destruct (regs_ops rs) as [os'|e]; cbn [bind] in Hos; [|discriminate].
  destruct Hin as [->|Hin]; [|eapply IH; eauto].
  cbn [reg_op] in R. destruct (run_regs inner empty_builder) as [bi|e]; [eauto|discriminate].
Qed.

(* ---------------- run time: what happens inside a batch stays inside its window ---------------- *)

(* if every event of the inner systems lies inside the window of the batch (oracle o_inside,
   evaluated on every recorded trace), then whatever is ordered against the batch's window is
   ordered against every inner window *)
Lemma inside_window_spec t inner : forall tr opened,
  inside_window t inner opened tr = true ->
  forall e, In e tr -> In (ev_tag e) inner -> ev_tag e <> t ->
    opened = true \/ precedes (EF t) e tr.
Proof.
  induction tr as [|x tr IH]; intros opened H e He Hi Hne; [destruct He|]. cbn [inside_window] in H.
  destruct (ev_eqb x (EF t)) eqn:E1.
  - apply ev_eqb_eq in E1. subst x. destruct He as [<-|He]; [cbn in Hne; congruence|].
    right. now apply precedes_here.
  - destruct (ev_eqb x (ER t)) eqn:E2.
    + apply ev_eqb_eq in E2. subst x. destruct He as [<-|He]; [cbn in Hne; congruence|].
      destruct (IH false H e He Hi Hne) as [X|X]; [discriminate|]. right. now apply precedes_cons.
    + apply andb_true_iff in H. destruct H as [H1 H2]. destruct He as [<-|He].
      * apply memN_In in Hi. rewrite Hi in H1. cbn in H1. left. exact H1.
      * destruct (IH opened H2 e He Hi Hne) as [X|X]; auto. right. now apply precedes_cons.
Qed.
