(* TreeComplete.v — C16: the Par/Seq trace acceptor accepts EVERY trace of the model (completeness): with
   tree_accept_sound it decides the trace set, so suite S6 can neither miss nor invent a violation of the
   trace-set membership. *)
From Shred Require Import Base Plan PlanLemmas Exec ExecProps AcceptComplete ParSeq ParSeqProps TreeAccept.
From Coq Require Import Permutation.
Open Scope N_scope.

(* ---------------- projections of an interleaving ---------------- *)

Lemma shuffleN_proj : forall (parts : list (list N)) (ts : list (list ev)) tr,
  ShuffleN ts tr -> Forall2 (fun p t => forall e, In e t -> In (ev_tag e) p) parts ts -> NoDup (concat parts) ->
  Forall2 (fun p t => proj p tr = t) parts ts.
Proof.
  induction parts as [|p parts IH]; intros ts tr S F ND; inversion F as [|? t ? ts' Hp Ft]; subst; [constructor|].
  inversion S as [|? ? rest ? SN SH]; subst. cbn [concat] in ND.
  assert (Rin : forall e, In e rest -> In (ev_tag e) (concat parts)).
  { intros e He. apply shuffleN_perm in SN. apply (Permutation_in _ SN) in He. apply in_concat in He. destruct He as (t0 & Ht0 & He).
    clear - Ft Ht0 He. induction Ft as [|p0 t1 ps ts Hpt _ IHf]; [destruct Ht0|]. cbn [concat]. apply in_or_app. destruct Ht0 as [->|Ht0]; [left; auto|right; auto]. }
  constructor.
  - unfold proj. apply (shuffle_filter_own _ _ _ _ SH).
    + intros e He. apply memN_In. auto.
    + intros e He. apply memN_false. intros X. apply (nd_app_disj _ _ _ ND X). now apply Rin.
  - assert (IHr := IH ts' rest SN Ft (NoDup_app_remove_l _ _ ND)).
    assert (G : forall q, In q parts -> proj q tr = proj q rest).
    { intros q Hq. unfold proj. apply (shuffle_filter_other _ _ _ _ SH). intros e He. apply memN_false. intros X.
      apply (nd_app_disj _ _ _ ND (Hp e He)). apply in_concat. exists q. auto. }
    clear - IHr G. induction IHr as [|q t1 qs ts1 E _ IHq]; constructor.
    + rewrite G; [exact E|now left].
    + apply IHq. intros q0 Hq0. apply G. now right.
Qed.

Lemma kids_tags l ts : kids_traces l ts -> Forall2 (fun p t => forall e, In e t -> In (ev_tag e) p) (map t_leaves l) ts.
Proof.
  revert ts. induction l as [|c l IH]; intros [|t ts] H; cbn in H; try tauto; [constructor|]. destruct H as [H1 H2].
  cbn [map]. constructor; auto. intros e He. now apply (tr_tree_In c t e H1).
Qed.

(* ---------------- windows ---------------- *)

Lemma tree_window t : forall tr x, tr_tree t tr -> In x (t_leaves t) -> precedes (EF x) (ER x) tr.
Proof.
  induction t as [y r w|l IH|l IH] using tree_ind'; intros tr x H Hx.
  - cbn in H, Hx. destruct Hx as [<-|[]]. subst. exists [], [], []. reflexivity.
  - apply tr_par in H. destruct H as (ts & Hk & S). rewrite t_leaves_par in Hx. apply in_concat in Hx. destruct Hx as (lv & Hlv & Hx).
    apply in_map_iff in Hlv. destruct Hlv as (c & <- & Hc). destruct (kids_traces_in l ts c Hk Hc) as (t1 & Ht1 & Tc).
    rewrite Forall_forall in IH. eapply shuffleN_precedes; eauto.
  - apply tr_seq in H. destruct H as (ts & Hk & ->). rewrite t_leaves_seq in Hx. apply in_concat in Hx. destruct Hx as (lv & Hlv & Hx).
    apply in_map_iff in Hlv. destruct Hlv as (c & <- & Hc). destruct (kids_traces_in l ts c Hk Hc) as (t1 & Ht1 & Tc).
    rewrite Forall_forall in IH. eapply precedes_concat_in; eauto.
Qed.

Lemma precedes_before_in' x y t : precedes x y t -> before_in x y t = true.
Proof.
  intros (a & b & c & ->). induction a as [|e a IH]; cbn [app before_in].
  - assert (X : ev_eqb x x = true) by now apply ev_eqb_eq. rewrite X. apply existsb_exists. exists y. split; [|now apply ev_eqb_eq].
    apply in_or_app. right. now left.
  - destruct (ev_eqb e x) eqn:E; [|exact IH]. apply existsb_exists. exists y. split; [|now apply ev_eqb_eq].
    apply in_or_app. right. right. apply in_or_app. right. now left.
Qed.

Lemma count_seq_trace t x : count_ev (EF x) (seq_trace t) = length (filter (N.eqb x) (t_leaves t)) /\
                            count_ev (ER x) (seq_trace t) = length (filter (N.eqb x) (t_leaves t)).
Proof.
  induction t as [y r w|l IH|l IH] using tree_ind'.
  - unfold count_ev. cbn. rewrite (N.eqb_sym x y). destruct (N.eqb y x); cbn; auto.
  - rewrite seq_trace_par, t_leaves_par. induction IH as [|c r Hc _ IHr]; [split; reflexivity|]. cbn [map concat].
    unfold count_ev in *. rewrite !filter_app, !app_length. destruct Hc as [-> ->]. destruct IHr as [-> ->]. auto.
  - rewrite seq_trace_seq, t_leaves_seq. induction IH as [|c r Hc _ IHr]; [split; reflexivity|]. cbn [map concat].
    unfold count_ev in *. rewrite !filter_app, !app_length. destruct Hc as [-> ->]. destruct IHr as [-> ->]. auto.
Qed.

Lemma filter_eq_nodup x (l : list N) : NoDup l -> In x l -> length (filter (N.eqb x) l) = 1%nat.
Proof.
  induction 1 as [|y l Hn ND IH]; intros Hin; [destruct Hin|]. cbn [filter]. destruct Hin as [->|Hin].
  - rewrite N.eqb_refl. cbn [length]. f_equal. clear - Hn. induction l as [|z l IH]; [reflexivity|]. cbn [filter].
    destruct (N.eqb_spec x z) as [->|_]; [exfalso; apply Hn; now left|]. apply IH. intros X. apply Hn. now right.
  - destruct (N.eqb_spec x y) as [->|_]; [now elim Hn|auto].
Qed.

Lemma count_ev_perm (x : ev) a b : Permutation a b -> count_ev x a = count_ev x b.
Proof. unfold count_ev. induction 1; cbn; auto; repeat destruct (ev_eqb _ _); cbn; congruence. Qed.

Lemma once_complete t tr : NoDup (t_leaves t) -> tr_tree t tr -> o_once (t_leaves t) tr = true.
Proof.
  intros ND H. apply o_once_spec. split.
  - intros x Hx. pose proof (tree_once t tr H) as P. destruct (count_seq_trace t x) as [C1 C2].
    rewrite (count_ev_perm _ _ _ P), (count_ev_perm _ _ _ P), C1, C2, (filter_eq_nodup x _ ND Hx).
    split; [auto|split; auto]. apply precedes_before_in'. eapply tree_window; eauto.
  - intros e He. now apply (tr_tree_In t tr e H).
Qed.

(* ---------------- the order check ---------------- *)

Lemma no_after_ab_go a b : (forall x, In x a -> ~ In x b) -> forall tr s, no_after a b tr ->
  (s = true -> forall e, In e tr -> ~ In (ev_tag e) a) -> ab_go a b tr s = true.
Proof.
  intros Dj. induction tr as [|e r IH]; intros s NA Hs; [reflexivity|]. cbn [ab_go].
  assert (NAr : no_after a b r).
  { intros t1 x t2 E Hx e' He'. apply (NA (e :: t1) x t2); [now rewrite E|auto|now right]. }
  destruct (memN (ev_tag e) b) eqn:Mb.
  - apply IH; auto. intros _ x Hx Ha. apply in_split in Hx. destruct Hx as (t1 & t2 & ->).
    apply (NA (e :: t1) x t2 eq_refl Ha e); [now left|now apply memN_In].
  - destruct (memN (ev_tag e) a) eqn:Ma.
    + apply andb_true_iff. split.
      * destruct s; [|reflexivity]. exfalso. apply (Hs eq_refl e); [now left|now apply memN_In].
      * apply IH; auto. intros E x Hx. apply Hs; auto. now right.
    + apply IH; auto. intros E x Hx. apply Hs; auto. now right.
Qed.

Lemma concat_no_after a b (t1 t2 : list ev) : (forall e, In e t1 -> ~ In (ev_tag e) b) -> (forall e, In e t2 -> ~ In (ev_tag e) a) ->
  no_after a b (t1 ++ t2).
Proof.
  intros H1 H2 u1 x u2 E Hx e' He' Hb. apply app_eq_app in E. destruct E as (m & [[E1 E2]|[E1 E2]]).
  - destruct m as [|y m]; cbn in E2.
    + apply (H2 x); auto. rewrite <- E2. now left.
    + inversion E2; subst. apply (H1 e'); auto. apply in_or_app. now left.
  - apply (H2 x); auto. rewrite E2. apply in_or_app. right. now left.
Qed.

Lemma kids_each tr : forall l ts, kids_traces l ts -> Forall2 (fun p t => proj p tr = t) (map t_leaves l) ts ->
  forall c, In c l -> tr_tree c (proj (t_leaves c) tr).
Proof.
  induction l as [|c0 l IH]; intros ts K F c Hc; [destruct Hc|].
  destruct ts as [|t0 ts]; cbn in K; [destruct K|]. destruct K as [K1 K2].
  cbn [map] in F. inversion F as [|? ? ? ? E F']; subst. destruct Hc as [->|Hc].
  - exact K1.
  - eapply IH; eauto.
Qed.

Lemma kids_all_tags l : forall ts e, kids_traces l ts -> In e (concat ts) -> In (ev_tag e) (concat (map t_leaves l)).
Proof.
  induction l as [|c l IH]; intros ts e K He.
  - destruct ts; cbn in K; [destruct He|destruct K].
  - destruct ts as [|t ts]; cbn in K; [destruct K|]. destruct K as [K1 K2].
    cbn [concat map] in *. apply in_app_or in He. apply in_or_app. destruct He as [He|He]; [left; now apply (tr_tree_In c t e K1)|right; eauto].
Qed.

Lemma seq_pairs_complete : forall l ts, kids_traces l ts -> NoDup (concat (map t_leaves l)) -> seq_pairs_ok l (concat ts) = true.
Proof.
  induction l as [|c r IH]; intros ts K ND; [reflexivity|].
  destruct ts as [|t1 ts]; cbn in K; [destruct K|]. destruct K as [K1 K2].
  cbn [map concat] in ND. cbn [seq_pairs_ok concat]. apply andb_true_iff. split.
  - apply forallb_forall. intros d Hd. rewrite all_before_go.
    assert (Dd : forall x, In x (t_leaves c) -> ~ In x (t_leaves d)).
    { intros x Hx Hxd. apply (nd_app_disj _ _ _ ND Hx). apply in_concat. exists (t_leaves d). split; auto. now apply in_map. }
    apply (no_after_ab_go _ _ Dd); [|discriminate]. apply concat_no_after.
    + intros e He Hb. apply (Dd (ev_tag e)); auto. now apply (tr_tree_In c t1 e K1).
    + intros e He Ha. apply (nd_app_disj _ _ _ ND Ha). eapply kids_all_tags; eauto.
  - rewrite <- (seq_pairs_ok_proj (concat (map t_leaves r)) r (t1 ++ concat ts)).
    + unfold proj. rewrite filter_app.
      assert (E1 : filter (fun e => memN (ev_tag e) (concat (map t_leaves r))) t1 = []).
      { clear - K1 ND. assert (G : forall e, In e t1 -> memN (ev_tag e) (concat (map t_leaves r)) = false).
        { intros e He. apply memN_false. intros X. apply (tr_tree_In c t1 e K1) in He. apply (nd_app_disj _ _ _ ND He X). }
        clear - G. induction t1 as [|y t1 IHt]; [reflexivity|]. cbn [filter]. rewrite (G y (or_introl eq_refl)). apply IHt. intros; apply G; now right. }
      assert (E2 : filter (fun e => memN (ev_tag e) (concat (map t_leaves r))) (concat ts) = concat ts).
      { assert (G : forall e, In e (concat ts) -> memN (ev_tag e) (concat (map t_leaves r)) = true).
        { intros e He. apply memN_In. eapply kids_all_tags; eauto. }
        revert G. generalize (concat ts). intros l0 G. induction l0 as [|y l0 IHl]; [reflexivity|]. cbn [filter].
        rewrite (G y (or_introl eq_refl)). f_equal. apply IHl. intros; apply G; now right. }
      rewrite E1, E2. cbn [app]. apply IH; auto. eapply NoDup_app_remove_l; eauto.
    + intros d x Hd Hx. apply in_concat. exists (t_leaves d). split; auto. now apply in_map.
Qed.

Lemma order_complete t : forall tr, NoDup (t_leaves t) -> tr_tree t tr -> order_ok t tr = true.
Proof.
  induction t as [x r w|l IH|l IH] using tree_ind'; intros tr ND H; [reflexivity| |].
  - rewrite order_ok_par. rewrite t_leaves_par in ND. apply tr_par in H. destruct H as (ts & K & S).
    pose proof (shuffleN_proj (map t_leaves l) ts tr S (kids_tags l ts K) ND) as P.
    apply forallb_forall. intros c Hc. rewrite Forall_forall in IH.
    rewrite <- (order_ok_proj c (t_leaves c) tr) by auto. apply IH; auto.
    + eapply nd_concat_in; eauto. now apply in_map.
    + eapply kids_each; eauto.
  - rewrite order_ok_seq. rewrite t_leaves_seq in ND. apply tr_seq in H. destruct H as (ts & K & ->).
    pose proof (shuffleN_proj (map t_leaves l) ts (concat ts) (shuffleN_concat ts) (kids_tags l ts K) ND) as P.
    apply andb_true_iff. split.
    + apply forallb_forall. intros c Hc. rewrite Forall_forall in IH.
      rewrite <- (order_ok_proj c (t_leaves c) (concat ts)) by auto. apply IH; auto.
      * eapply nd_concat_in; eauto. now apply in_map.
      * eapply kids_each; eauto.
    + now apply seq_pairs_complete.
Qed.

(* every trace of the tree is accepted *)
Theorem tree_accept_complete t tr : NoDup (t_leaves t) -> tr_tree t tr -> tree_accept t tr = true.
Proof. intros ND H. unfold tree_accept. rewrite (once_complete t tr ND H), (order_complete t tr ND H). reflexivity. Qed.

Corollary tree_accept_iff t tr : NoDup (t_leaves t) -> (tree_accept t tr = true <-> tr_tree t tr).
Proof. intros ND. split; [now apply tree_accept_sound|now apply tree_accept_complete]. Qed.
