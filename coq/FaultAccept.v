(* FaultAccept.v — soundness of the acceptor for recorded faulty traces: whatever
   [faccept_disp] accepts is a trace of the faulty executor model, so the theorems of
   FaultProps.v apply to every recorded trace that suite S2 accepts. *)
From Shred Require Import Base Plan PlanLemmas Exec ExecProps Fault FaultProps.
Open Scope N_scope.

Lemma fev_eqb_eq a b : fev_eqb a b = true <-> a = b.
Proof.
  destruct a, b; cbn; split; intros H; try discriminate; try (apply N.eqb_eq in H; congruence);
    inversion H; apply N.eqb_refl.
Qed.
Lemma list_eqb_fev a : forall b, list_eqb fev_eqb a b = true -> a = b.
Proof.
  induction a as [|x a IH]; destruct b as [|y b]; cbn; intros H; try discriminate; auto.
  apply andb_true_iff in H. destruct H as [H1 H2]. apply fev_eqb_eq in H1. f_equal; auto.
Qed.

Lemma fshuffle_filter (p : fev -> bool) l : FShuffle (filter p l) (filter (fun e => negb (p e)) l) l.
Proof. induction l as [|e l IH]; cbn; [constructor|]. destruct (p e); cbn; constructor; auto. Qed.

Lemma ffilter_filter_disj (p q : fev -> bool) l :
  (forall e, In e l -> p e = true -> q e = true) -> filter p (filter q l) = filter p l.
Proof.
  induction l as [|e l IH]; intros H; cbn; auto.
  destruct (q e) eqn:Q; cbn.
  - rewrite IH; auto. intros e' He'. apply H. now right.
  - destruct (p e) eqn:P.
    + rewrite (H e (or_introl eq_refl) P) in Q. discriminate.
    + apply IH. intros e' He'. apply H. now right.
Qed.

(* a segment that contains only events of the stage is an interleaving of its projections *)
Lemma fproj_shuffleN : forall (st : list (list N)) seg,
  NoDup (concat st) -> (forall e, In e seg -> In (fev_tag e) (concat st)) ->
  FShuffleN (map (fun g => fproj g seg) st) seg.
Proof.
  induction st as [|g st IH]; intros seg ND Hall.
  - destruct seg as [|e seg]; [constructor|]. exfalso. apply (Hall e). now left.
  - cbn [map]. cbn [concat] in ND.
    set (rest := filter (fun e => negb (memN (fev_tag e) g)) seg).
    apply (FSN_cons (fproj g seg) (map (fun g' => fproj g' seg) st) rest seg).
    + assert (E : map (fun g' => fproj g' seg) st = map (fun g' => fproj g' rest) st).
      { apply map_ext_in. intros g' Hg'. unfold fproj, rest. symmetry.
        apply ffilter_filter_disj. intros e He Hm. apply negb_true_iff. apply not_true_is_false. intros Hg.
        apply memN_In in Hm. apply memN_In in Hg.
        eapply (NoDup_app_disj' g (concat st)); eauto. apply in_concat. eauto. }
      rewrite E. apply IH.
      * eapply NoDup_app_remove_l; eauto.
      * intros e He. unfold rest in He. apply filter_In in He. destruct He as [He Hn].
        specialize (Hall e He). cbn in Hall. apply in_app_or in Hall. destruct Hall as [Hall|Hall]; auto.
        apply negb_true_iff in Hn. apply memN_In in Hall. congruence.
    + unfold fproj, rest. apply fshuffle_filter.
Qed.

Definition run_flag (F : list N) (seg : list fev) (g : list N) : bool :=
  list_eqb fev_eqb (fproj g seg) (fst (fgroup F g)).

Lemma fgroups_build F seg : forall st,
  (forall g, In g st -> run_flag F seg g = true \/ fproj g seg = []) ->
  fgroups F st (map (fun g => fproj g seg) st)
          (existsb (fun g => run_flag F seg g && snd (fgroup F g)) st) (forallb (run_flag F seg) st).
Proof.
  induction st as [|g st IH]; intros H; cbn [map existsb forallb]; [constructor|].
  assert (IH' := IH (fun g' Hg' => H g' (or_intror Hg'))).
  destruct (run_flag F seg g) eqn:Rf.
  - cbn [andb]. unfold run_flag in Rf. apply list_eqb_fev in Rf. rewrite Rf. now constructor.
  - cbn [andb orb]. destruct (H g (or_introl eq_refl)) as [X|X]; [congruence|]. rewrite X.
    apply (FG_skip F g st _ _ (forallb (run_flag F seg) st)). exact IH'.
Qed.

Lemma has_panic_spec seg : has_panic seg = true <-> exists x, In (FP x) seg.
Proof.
  unfold has_panic. rewrite existsb_exists. split.
  - intros (e & He & P). destruct e; try discriminate. eauto.
  - intros (x & Hx). exists (FP x). auto.
Qed.

Lemma fgroup_panic_has F g : snd (fgroup F g) = true -> exists x, In (FP x) (fst (fgroup F g)).
Proof.
  induction g as [|t r IH]; cbn [fgroup]; [discriminate|]. destruct (memN t F).
  - intros _. exists t. cbn. auto.
  - destruct (fgroup F r) as [tr p]. cbn [fst snd] in *. intros H. destruct (IH H) as (x & Hx). exists x. now right; right.
Qed.

Lemma faccept_stage_sound F st seg :
  NoDup (concat st) -> (forall e, In e seg -> In (fev_tag e) (concat st)) ->
  faccept_stage F st seg = true -> fstage_traces F st seg (has_panic seg).
Proof.
  intros ND Hall A. unfold faccept_stage in A. rewrite forallb_forall in A.
  assert (H : forall g, In g st -> run_flag F seg g = true \/ fproj g seg = []).
  { intros g Hg. specialize (A g Hg). apply orb_true_iff in A. destruct A as [A|A]; [now left|right].
    apply andb_true_iff in A. destruct A as [_ A]. destruct (fproj g seg); [reflexivity|discriminate]. }
  pose proof (fgroups_build F seg st H) as G.
  set (p' := existsb (fun g => run_flag F seg g && snd (fgroup F g)) st) in *.
  set (a' := forallb (run_flag F seg) st) in *.
  (* the computed panic flag is the one read off the segment *)
  assert (P1 : p' = true -> has_panic seg = true).
  { intros Hp. unfold p' in Hp. apply existsb_exists in Hp. destruct Hp as (g & Hg & Hr). apply andb_true_iff in Hr.
    destruct Hr as [Hr Hs]. unfold run_flag in Hr. apply list_eqb_fev in Hr.
    destruct (fgroup_panic_has F g Hs) as (x & Hx). apply has_panic_spec. exists x.
    rewrite <- Hr in Hx. unfold fproj in Hx. apply filter_In in Hx. tauto. }
  assert (P2 : has_panic seg = true -> p' = true).
  { intros Hp. apply has_panic_spec in Hp. destruct Hp as (x & Hx).
    pose proof (Hall _ Hx) as Tx. cbn in Tx. apply in_concat in Tx. destruct Tx as (g & Hg & Hxg).
    assert (Hpr : In (FP x) (fproj g seg)) by (unfold fproj; apply filter_In; split; auto; cbn; now apply memN_In).
    destruct (H g Hg) as [Rf|E]; [|rewrite E in Hpr; destruct Hpr].
    unfold p'. apply existsb_exists. exists g. split; auto. rewrite Rf. cbn [andb].
    unfold run_flag in Rf. apply list_eqb_fev in Rf. rewrite Rf in Hpr. now apply fgroup_panic in Hpr. }
  assert (Ep : p' = has_panic seg).
  { destruct (has_panic seg) eqn:E2.
    - now apply P2.
    - destruct p' eqn:E1; auto. specialize (P1 eq_refl). discriminate. }
  exists (map (fun g => fproj g seg) st), a'. split; [rewrite <- Ep; exact G|]. split; [now apply fproj_shuffleN|].
  (* a group may be missing only when the stage has a panic *)
  intros Hp. unfold a'. apply forallb_forall. intros g Hg. specialize (A g Hg). rewrite Hp in A. cbn [andb] in A.
  now rewrite orb_false_r in A.
Qed.

Lemma span_tags_spec tags : forall tr seg rest, span_tags tags tr = (seg, rest) ->
  tr = seg ++ rest /\ (forall e, In e seg -> In (fev_tag e) tags).
Proof.
  induction tr as [|e tr IH]; intros seg rest H; cbn [span_tags] in H.
  - inversion H; subst. split; auto. intros e [].
  - destruct (memN (fev_tag e) tags) eqn:M.
    + destruct (span_tags tags tr) as [a b] eqn:S. inversion H; subst. destruct (IH _ _ eq_refl) as [E Hall].
      split; [cbn; now rewrite <- E|]. intros e' [<-|He']; [now apply memN_In|auto].
    + inversion H; subst. split; auto. intros e' [].
Qed.

Lemma faccept_staged_sound F : forall l tr rest p,
  NoDup (concat (concat l)) -> faccept_staged F l tr = Some (rest, p) ->
  exists t1, fstaged F l t1 p /\ tr = t1 ++ rest /\ (p = true -> rest = []).
Proof.
  induction l as [|st l IH]; intros tr rest p ND H; cbn [faccept_staged] in H.
  - inversion H; subst. exists []. split; [constructor|]. split; auto. discriminate.
  - cbn [concat] in ND. rewrite concat_app in ND.
    destruct (span_tags (concat st) tr) as [seg rest0] eqn:S. destruct (span_tags_spec _ _ _ _ S) as [E Hall].
    destruct (faccept_stage F st seg) eqn:A; [|discriminate].
    pose proof (faccept_stage_sound F st seg (NoDup_app_remove_r _ _ ND) Hall A) as St.
    destruct (has_panic seg) eqn:Hp.
    + destruct rest0 as [|? ?]; cbn in H; [|discriminate]. inversion H; subst.
      exists seg. split; [now apply FS_panic|]. split; [now rewrite app_nil_r|auto].
    + destruct (IH _ _ _ (NoDup_app_remove_l _ _ ND) H) as (t2 & H2 & E2 & R2).
      exists (seg ++ t2). split; [now apply FS_ok|]. split; [subst; now rewrite <- app_assoc|exact R2].
Qed.

(* every recorded faulty trace that the acceptor accepts is a trace of the faulty model *)
Theorem faccept_sound F l tl tr :
  NoDup (concat (concat l)) -> faccept_disp F l tl tr = true -> exists p, ftraces_disp F l tl tr p.
Proof.
  intros ND H. unfold faccept_disp in H. destruct (faccept_staged F l tr) as [[rest p]|] eqn:A; [|discriminate].
  destruct (faccept_staged_sound F l tr rest p ND A) as (t1 & S & E & R).
  destruct p.
  - rewrite (R eq_refl) in E. exists true, t1, true. split; auto. rewrite app_nil_r in E. auto.
  - apply list_eqb_fev in H. exists (snd (fgroup F tl)), t1, false. split; auto. split; [congruence|reflexivity].
Qed.
