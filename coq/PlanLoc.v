(* PlanLoc.v — where systems are placed: locations are stable (I8), every system is placed
   exactly once (I1), dependencies end up in front of their dependents (I6), new systems
   land at or behind the barrier (I7). *)
From Shred Require Import Base SrcParams Plan PlanLemmas PlanInv.
From Coq Require Import Permutation.

Definition members (sts : list stage) : list sys := concat (map g_mem (concat sts)).
Definition all_ids (sts : list stage) : list N := concat (map stage_ids sts).

Definition at_stage (sts : list stage) (k : nat) (id : N) : Prop :=
  exists st, nth_error sts k = Some st /\ In id (stage_ids st).

Definition in_group_before (sts : list stage) (d s : N) : Prop :=
  exists k st g grp l1 l2 l3,
    nth_error sts k = Some st /\ nth_error st g = Some grp /\ g_ids grp = l1 ++ d :: l2 ++ s :: l3.

(* d runs before s in every execution of the layout: an earlier stage, or earlier in one group *)
Definition before (sts : list stage) (d s : N) : Prop :=
  (exists kd ks, (kd < ks)%nat /\ at_stage sts kd d /\ at_stage sts ks s) \/ in_group_before sts d s.

Definition located (sts : list stage) (id : N) : Prop := exists k, at_stage sts k id.

Lemma located_all_ids sts id : located sts id <-> In id (all_ids sts).
Proof.
  unfold located, at_stage, all_ids. rewrite in_concat. split.
  - intros (k & st & Hn & Hin). exists (stage_ids st). split; auto. apply in_map. eapply nth_error_In; eauto.
  - intros (l & Hl & Hin). apply in_map_iff in Hl. destruct Hl as (st & <- & Hst).
    apply In_nth_error in Hst. destruct Hst as (k & Hk). eauto.
Qed.

(* ---------------- extension: stages, groups and members are only ever appended ---------------- *)

Definition prefix {A} (l l' : list A) : Prop := exists m, l' = l ++ m.

Lemma prefix_refl {A} (l : list A) : prefix l l.
Proof. exists []. now rewrite app_nil_r. Qed.
Lemma prefix_trans {A} (a b c : list A) : prefix a b -> prefix b c -> prefix a c.
Proof. intros (m & ->) (n & ->). exists (m ++ n). now rewrite app_assoc. Qed.
Lemma prefix_In {A} (l l' : list A) x : prefix l l' -> In x l -> In x l'.
Proof. intros (m & ->) H. apply in_or_app. now left. Qed.

Definition stage_ext (st st' : stage) : Prop :=
  forall g grp, nth_error st g = Some grp ->
    exists grp', nth_error st' g = Some grp' /\ prefix (g_ids grp) (g_ids grp').

Definition stages_ext (sts sts' : list stage) : Prop :=
  forall k st, nth_error sts k = Some st -> exists st', nth_error sts' k = Some st' /\ stage_ext st st'.

Lemma stage_ext_refl st : stage_ext st st.
Proof. intros g grp H. exists grp. split; auto. apply prefix_refl. Qed.
Lemma stages_ext_refl sts : stages_ext sts sts.
Proof. intros k st H. exists st. split; auto. apply stage_ext_refl. Qed.
Lemma stage_ext_trans a b c : stage_ext a b -> stage_ext b c -> stage_ext a c.
Proof.
  intros H1 H2 g grp Hg. destruct (H1 g grp Hg) as (g1 & Hg1 & P1).
  destruct (H2 g g1 Hg1) as (g2 & Hg2 & P2). exists g2. split; auto. eapply prefix_trans; eauto.
Qed.
Lemma stages_ext_trans a b c : stages_ext a b -> stages_ext b c -> stages_ext a c.
Proof.
  intros H1 H2 k st Hk. destruct (H1 k st Hk) as (s1 & Hs1 & E1).
  destruct (H2 k s1 Hs1) as (s2 & Hs2 & E2). exists s2. split; auto. eapply stage_ext_trans; eauto.
Qed.

Lemma stage_ext_ids st st' id : stage_ext st st' -> In id (stage_ids st) -> In id (stage_ids st').
Proof.
  intros E H. unfold stage_ids in *. rewrite in_concat in *. destruct H as (l & Hl & Hin).
  apply in_map_iff in Hl. destruct Hl as (grp & <- & Hg). apply In_nth_error in Hg. destruct Hg as (g & Hg).
  destruct (E g grp Hg) as (grp' & Hg' & P). exists (g_ids grp'). split.
  - apply in_map. eapply nth_error_In; eauto.
  - eapply prefix_In; eauto.
Qed.

Lemma at_stage_ext sts sts' k id : stages_ext sts sts' -> at_stage sts k id -> at_stage sts' k id.
Proof.
  intros E (st & Hk & Hin). destruct (E k st Hk) as (st' & Hk' & Es). exists st'. split; auto.
  eapply stage_ext_ids; eauto.
Qed.

Lemma in_group_before_ext sts sts' d s : stages_ext sts sts' -> in_group_before sts d s -> in_group_before sts' d s.
Proof.
  intros E (k & st & g & grp & l1 & l2 & l3 & Hk & Hg & Hi).
  destruct (E k st Hk) as (st' & Hk' & Es). destruct (Es g grp Hg) as (grp' & Hg' & (m & Hm)).
  exists k, st', g, grp', l1, l2, (l3 ++ m). repeat split; auto.
  rewrite Hm, Hi. rewrite <- !app_assoc. cbn. rewrite <- app_assoc. reflexivity.
Qed.

Lemma before_ext sts sts' d s : stages_ext sts sts' -> before sts d s -> before sts' d s.
Proof.
  intros E [(kd & ks & Hlt & Hd & Hs)|H].
  - left. exists kd, ks. repeat split; auto; eapply at_stage_ext; eauto.
  - right. eapply in_group_before_ext; eauto.
Qed.

(* extension inside one stage *)
Lemma stage_ext_app st g : stage_ext st (st ++ [g]).
Proof.
  intros i grp H. exists grp. split; [|apply prefix_refl].
  rewrite nth_error_app1; auto. apply nth_error_Some. congruence.
Qed.

Lemma stage_ext_pushed l1 x l2 s : stage_ext (l1 ++ x :: l2) (l1 ++ pushed s x :: l2).
Proof.
  intros i grp H. destruct (Nat.lt_ge_cases i (length l1)).
  - rewrite nth_error_app1 in * by auto. exists grp. split; auto. apply prefix_refl.
  - rewrite nth_error_app2 in * by auto. destruct (i - length l1)%nat as [|j] eqn:E.
    + cbn in *. inversion H; subst. eexists. split; [reflexivity|]. cbn. eexists. reflexivity.
    + cbn in *. exists grp. split; auto. apply prefix_refl.
Qed.

Lemma stages_ext_cons st st' rest rest' :
  stage_ext st st' -> stages_ext rest rest' -> stages_ext (st :: rest) (st' :: rest').
Proof.
  intros Es Er [|k] s H; cbn in *.
  - inversion H; subst. eauto.
  - apply Er; auto.
Qed.

Lemma stages_ext_app_l pre post post' : stages_ext post post' -> stages_ext (pre ++ post) (pre ++ post').
Proof.
  intros E. induction pre as [|p pre IH]; cbn; auto.
  apply stages_ext_cons; auto. apply stage_ext_refl.
Qed.

(* ---------------- what place does ---------------- *)

Lemma place_ext : forall sts s dep sts',
  Forall stage_ok sts -> time_ok (s_time s) -> place sts s dep = Ok sts' -> stages_ext sts sts'.
Proof.
  induction sts as [|st rest IH]; intros s dep sts' Hok Ht H; cbn [place] in H.
  - intros k st Hk. destruct k; discriminate.
  - inversion Hok as [|? ? Hst Hrest]; subst.
    destruct (decide st s dep) as [d|e] eqn:D; cbn [bind] in H; [|discriminate].
    destruct d as [|i|].
    + rewrite push_sys_empty in H by auto. cbn in H. inversion H; subst.
      apply stages_ext_cons; [apply stage_ext_app|apply stages_ext_refl].
    + apply decide_join in D. destruct D as (l1 & x & l2 & E & Hi & Hlen & _). subst i st.
      assert (Hx : group_ok x).
      { pose proof (sk_groups _ Hst) as Hg. rewrite Forall_forall in Hg. apply Hg. apply in_or_app. right. now left. }
      rewrite (upd_group_at l1 x l2 (push_sys s) (pushed s x)) in H by (now apply push_sys_join).
      cbn in H. inversion H; subst.
      apply stages_ext_cons; [apply stage_ext_pushed|apply stages_ext_refl].
    + destruct (place rest s (remove_ids st dep)) as [rest'|e] eqn:P; cbn [bind] in H; [|discriminate].
      inversion H; subst. apply stages_ext_cons; [apply stage_ext_refl|]. eapply IH; eauto.
Qed.

Lemma members_cons st rest : members (st :: rest) = concat (map g_mem st) ++ members rest.
Proof. unfold members. cbn. now rewrite map_app, concat_app. Qed.

Lemma place_members : forall sts s dep sts',
  Forall stage_ok sts -> time_ok (s_time s) -> place sts s dep = Ok sts' ->
  Permutation (members sts') (s :: members sts).
Proof.
  induction sts as [|st rest IH]; intros s dep sts' Hok Ht H; cbn [place] in H.
  - rewrite push_sys_empty in H by auto. cbn in H. inversion H; subst. cbn. constructor. constructor.
  - inversion Hok as [|? ? Hst Hrest]; subst.
    destruct (decide st s dep) as [d|e] eqn:D; cbn [bind] in H; [|discriminate].
    destruct d as [|i|].
    + rewrite push_sys_empty in H by auto. cbn in H. inversion H; subst.
      rewrite !members_cons. rewrite map_app, concat_app. cbn.
      rewrite <- app_assoc. cbn. symmetry. apply Permutation_middle.
    + apply decide_join in D. destruct D as (l1 & x & l2 & E & Hi & Hlen & _). subst i st.
      assert (Hx : group_ok x).
      { pose proof (sk_groups _ Hst) as Hg. rewrite Forall_forall in Hg. apply Hg. apply in_or_app. right. now left. }
      rewrite (upd_group_at l1 x l2 (push_sys s) (pushed s x)) in H by (now apply push_sys_join).
      cbn in H. inversion H; subst. rewrite !members_cons.
      rewrite !map_app, !concat_app. cbn [map concat pushed g_mem].
      rewrite <- !app_assoc. cbn [app].
      symmetry. etransitivity; [apply Permutation_middle|]. apply Permutation_app_head.
      etransitivity; [apply Permutation_middle|]. apply Permutation_app_head. cbn. reflexivity.
    + destruct (place rest s (remove_ids st dep)) as [rest'|e] eqn:P; cbn [bind] in H; [|discriminate].
      inversion H; subst. rewrite !members_cons.
      etransitivity; [apply Permutation_app_head; eapply IH; eauto|].
      symmetry. apply Permutation_middle.
Qed.

(* ids of well-formed stages are the ids of the members *)
Lemma stage_ids_members st : Forall group_ok st -> stage_ids st = map s_id (concat (map g_mem st)).
Proof.
  unfold stage_ids. induction 1 as [|g st Hg Hst IH]; cbn; auto.
  rewrite map_app, IH, (gk_ids _ Hg). reflexivity.
Qed.

Lemma all_ids_members sts : Forall stage_ok sts -> all_ids sts = map s_id (members sts).
Proof.
  unfold all_ids. induction 1 as [|st sts Hst Hsts IH]; cbn [map concat]; auto.
  rewrite members_cons, map_app, IH, (stage_ids_members st (sk_groups _ Hst)). reflexivity.
Qed.

(* shifting locations over a prefix of stages *)
Lemma at_stage_app_r pre post k id : at_stage post k id -> at_stage (pre ++ post) (length pre + k) id.
Proof.
  intros (st & Hk & Hin). exists st. split; auto.
  rewrite nth_error_app2 by lia. replace (length pre + k - length pre)%nat with k by lia. auto.
Qed.
Lemma at_stage_app_l pre post k id : at_stage pre k id -> at_stage (pre ++ post) k id.
Proof.
  intros (st & Hk & Hin). exists st. split; auto.
  rewrite nth_error_app1; auto. apply nth_error_Some. congruence.
Qed.
Lemma at_stage_app_inv pre post k id :
  at_stage (pre ++ post) k id ->
  ((k < length pre)%nat /\ at_stage pre k id) \/ ((length pre <= k)%nat /\ at_stage post (k - length pre) id).
Proof.
  intros (st & Hk & Hin). destruct (Nat.lt_ge_cases k (length pre)).
  - left. split; auto. rewrite nth_error_app1 in Hk by auto. exists st. auto.
  - right. split; auto. rewrite nth_error_app2 in Hk by auto. exists st. auto.
Qed.
Lemma at_stage_cons st rest k id : at_stage rest k id -> at_stage (st :: rest) (S k) id.
Proof. intros (s & Hk & Hin). exists s. auto. Qed.
Lemma at_stage_here st rest id : In id (stage_ids st) -> at_stage (st :: rest) 0 id.
Proof. intros H. exists st. auto. Qed.

Lemma in_group_before_cons st rest d s : in_group_before rest d s -> in_group_before (st :: rest) d s.
Proof.
  intros (k & s0 & g & grp & l1 & l2 & l3 & Hk & Hg & Hi).
  exists (S k), s0, g, grp, l1, l2, l3. auto.
Qed.
Lemma in_group_before_app_r pre post d s : in_group_before post d s -> in_group_before (pre ++ post) d s.
Proof. intros H. induction pre; cbn; auto. now apply in_group_before_cons. Qed.

Lemma before_cons st rest d s : before rest d s -> before (st :: rest) d s.
Proof.
  intros [(kd & ks & Hlt & Hd & Hs)|H].
  - left. exists (S kd), (S ks). repeat split; try lia; now apply at_stage_cons.
  - right. now apply in_group_before_cons.
Qed.
Lemma before_app_r pre post d s : before post d s -> before (pre ++ post) d s.
Proof. intros H. induction pre; cbn; auto. now apply before_cons. Qed.

(* the new system is somewhere in the result *)
Lemma place_located : forall sts s dep sts',
  Forall stage_ok sts -> time_ok (s_time s) -> place sts s dep = Ok sts' -> located sts' (s_id s).
Proof.
  intros sts s dep sts' Hok Ht H. apply located_all_ids.
  rewrite (all_ids_members sts') by (eapply place_ok; eauto).
  apply in_map. eapply Permutation_in; [symmetry; eapply place_members; eauto|]. now left.
Qed.

(* I6 for the system being placed: every pending dependency that is located in the scanned
   stages ends up in front of it *)
Lemma place_deps : forall sts s dep sts',
  Forall stage_ok sts -> time_ok (s_time s) -> place sts s dep = Ok sts' ->
  (forall d, In d dep -> located sts d) ->
  ~ located sts (s_id s) ->
  forall d, In d dep -> before sts' d (s_id s).
Proof.
  induction sts as [|st rest IH]; intros s dep sts' Hok Ht H Hloc Hfresh d Hd; cbn [place] in H.
  - exfalso. destruct (Hloc d Hd) as (k & st & Hk & _). destruct k; discriminate.
  - inversion Hok as [|? ? Hst Hrest]; subst.
    destruct (decide st s dep) as [dc|e] eqn:D; cbn [bind] in H; [|discriminate].
    destruct dc as [|i|].
    + apply decide_new in D. destruct D as [-> _]. destruct Hd.
    + apply decide_join in D. destruct D as (l1 & x & l2 & E & Hi & Hlen & _ & _ & Hdep). subst i st.
      assert (Hx : group_ok x).
      { pose proof (sk_groups _ Hst) as Hg. rewrite Forall_forall in Hg. apply Hg. apply in_or_app. right. now left. }
      rewrite (upd_group_at l1 x l2 (push_sys s) (pushed s x)) in H by (now apply push_sys_join).
      cbn in H. inversion H; subst.
      destruct Hdep as [->|(d0 & -> & Hin)]; [destruct Hd|].
      destruct Hd as [<-|[]]. right.
      apply in_split in Hin. destruct Hin as (a & b & Hab).
      exists O, (l1 ++ pushed s x :: l2), (length l1), (pushed s x), a, b, [].
      repeat split; auto.
      * apply nth_error_mid.
      * cbn. rewrite Hab. rewrite <- app_assoc. reflexivity.
    + destruct (place rest s (remove_ids st dep)) as [rest'|e] eqn:P; cbn [bind] in H; [|discriminate].
      inversion H; subst.
      destruct (in_dec N.eq_dec d (stage_ids st)) as [Hin|Hnin].
      * (* the dependency is in this stage, the system in a later one *)
        left. destruct (place_located rest s (remove_ids st dep) rest' Hrest Ht P) as (k & Hk).
        exists O, (S k). repeat split; try lia.
        -- now apply at_stage_here.
        -- now apply at_stage_cons.
      * apply before_cons. eapply IH; eauto.
        -- intros d' Hd'. apply remove_ids_In in Hd'. destruct Hd' as [Hd1 Hd2].
           destruct (Hloc d' Hd1) as ([|k] & st0 & Hk & Hin0); cbn in Hk.
           ++ inversion Hk; subst. contradiction.
           ++ exists k, st0. auto.
        -- intros (k & Hk). apply Hfresh. exists (S k). now apply at_stage_cons.
        -- apply remove_ids_In. auto.
Qed.

(* the new system does not land in an earlier position than the scanned stages: trivial here,
   the barrier part is handled in sb_insert *)
Lemma cross_off_not_in pre : forall dep d,
  In d dep -> ~ In d (cross_off pre dep) -> exists st, In st pre /\ In d (stage_ids st).
Proof.
  unfold cross_off. induction pre as [|st pre IH]; intros dep d Hd Hn; cbn [fold_left] in Hn.
  - contradiction.
  - destruct (in_dec N.eq_dec d (stage_ids st)) as [Hin|Hnin].
    + exists st. split; auto. now left.
    + destruct (IH (remove_ids st dep) d) as (st' & Hst' & Hin'); auto.
      * apply remove_ids_In. auto.
      * exists st'. split; auto. now right.
Qed.

Lemma sb_insert_ext barrier sts s sts' :
  Forall stage_ok sts -> time_ok (s_time s) -> sb_insert barrier sts s = Ok sts' -> stages_ext sts sts'.
Proof.
  intros Hok Ht. unfold sb_insert.
  destruct (place _ _ _) as [post'|e] eqn:P; cbn [bind]; [|discriminate].
  intros H. inversion H; subst. rewrite <- (firstn_skipn barrier sts) at 1.
  apply stages_ext_app_l. eapply place_ext; [| |exact P]; auto. now apply Forall_skipn.
Qed.

Lemma sb_insert_members barrier sts s sts' :
  Forall stage_ok sts -> time_ok (s_time s) -> sb_insert barrier sts s = Ok sts' ->
  Permutation (members sts') (s :: members sts).
Proof.
  intros Hok Ht. unfold sb_insert.
  destruct (place _ _ _) as [post'|e] eqn:P; cbn [bind]; [|discriminate].
  intros H. inversion H; subst.
  assert (M : forall a b, members (a ++ b) = members a ++ members b).
  { intros a b. unfold members. now rewrite concat_app, map_app, concat_app. }
  rewrite <- (firstn_skipn barrier sts) at 2. rewrite !M.
  etransitivity; [apply Permutation_app_head; eapply place_members; [| |exact P]; auto; now apply Forall_skipn|].
  symmetry. apply Permutation_middle.
Qed.

(* the new system lands at or behind the barrier (I7) *)
Lemma sb_insert_at_barrier barrier sts s sts' k :
  Forall stage_ok sts -> time_ok (s_time s) -> (barrier <= length sts)%nat ->
  sb_insert barrier sts s = Ok sts' -> ~ located sts (s_id s) ->
  at_stage sts' k (s_id s) -> (barrier <= k)%nat.
Proof.
  intros Hok Ht Hb. unfold sb_insert.
  destruct (place _ _ _) as [post'|e] eqn:P; cbn [bind]; [|discriminate].
  intros H Hfresh Hat. inversion H; subst.
  apply at_stage_app_inv in Hat. rewrite firstn_length, Nat.min_l in Hat by auto.
  destruct Hat as [[Hlt Hat]|[Hge _]]; auto.
  exfalso. apply Hfresh. exists k. rewrite <- (firstn_skipn barrier sts). now apply at_stage_app_l.
Qed.

(* I6 for the system being inserted *)
Lemma sb_insert_deps barrier sts s sts' :
  Forall stage_ok sts -> time_ok (s_time s) -> (barrier <= length sts)%nat ->
  sb_insert barrier sts s = Ok sts' ->
  (forall d, In d (s_deps s) -> located sts d) -> ~ located sts (s_id s) ->
  forall d, In d (s_deps s) -> before sts' d (s_id s).
Proof.
  intros Hok Ht Hb Hins Hloc Hfresh d Hd.
  pose proof Hins as Hins'. unfold sb_insert in Hins.
  destruct (place _ _ _) as [post'|e] eqn:P; cbn [bind] in Hins; [|discriminate].
  inversion Hins; subst. clear Hins.
  set (pre := firstn barrier sts) in *. set (post := skipn barrier sts) in *.
  assert (Hsplit : sts = pre ++ post) by (unfold pre, post; now rewrite firstn_skipn).
  assert (Hpost : Forall stage_ok post) by (unfold post; now apply Forall_skipn).
  assert (Hlen : length pre = barrier) by (unfold pre; rewrite firstn_length; lia).
  destruct (in_dec N.eq_dec d (cross_off pre (s_deps s))) as [Hin|Hnin].
  - (* still pending after the barrier: located in the scanned part *)
    apply before_app_r. eapply place_deps; [| |exact P| | |]; auto.
    + intros d' Hd'. apply cross_off_In in Hd'. destruct Hd' as [Hd1 Hd2].
      destruct (Hloc d' Hd1) as (k & Hk). rewrite Hsplit in Hk. apply at_stage_app_inv in Hk.
      destruct Hk as [[_ (st & Hn & Hi)]|[_ Hk]].
      * exfalso. apply (Hd2 st); auto. eapply nth_error_In; eauto.
      * eexists; eauto.
    + intros (k & Hk). apply Hfresh. exists (length pre + k)%nat. rewrite Hsplit. now apply at_stage_app_r.
  - (* crossed off: it sits in front of the barrier, the new system behind it *)
    destruct (cross_off_not_in pre (s_deps s) d Hd Hnin) as (st & Hst & Hi).
    apply In_nth_error in Hst. destruct Hst as (kd & Hkd).
    assert (kd < length pre)%nat by (apply nth_error_Some; congruence).
    destruct (place_located post s _ post' Hpost Ht P) as (ks & Hks).
    left. exists kd, (length pre + ks)%nat. repeat split; try lia.
    + apply at_stage_app_l. exists st. auto.
    + now apply at_stage_app_r.
Qed.

(* a system id occurs in one stage only *)
Lemma NoDup_app_r {A} (a c : list A) : NoDup (a ++ c) -> NoDup c.
Proof. induction a as [|x a IH]; cbn; auto. intros H. inversion H; auto. Qed.
Lemma NoDup_app_disj {A} (a c : list A) x : NoDup (a ++ c) -> In x a -> In x c -> False.
Proof.
  induction a as [|y a IH]; cbn; intros ND Ha Hc; [destruct Ha|].
  inversion ND; subst. destruct Ha as [->|Ha]; auto. apply H1. apply in_or_app. now right.
Qed.

Lemma at_stage_unique sts : NoDup (all_ids sts) -> forall k k' id,
  at_stage sts k id -> at_stage sts k' id -> k = k'.
Proof.
  unfold all_ids. induction sts as [|x l IH]; intros ND k k' id (st1 & Hn1 & Hi1) (st2 & Hn2 & Hi2).
  - destruct k; discriminate.
  - cbn in ND. pose proof (NoDup_app_r _ _ ND) as ND'.
    destruct k, k'; cbn in *; auto.
    + inversion Hn1; subst. exfalso. eapply NoDup_app_disj; eauto.
      apply in_concat. exists (stage_ids st2). split; auto. apply in_map. eapply nth_error_In; eauto.
    + inversion Hn2; subst. exfalso. eapply NoDup_app_disj; eauto.
      apply in_concat. exists (stage_ids st1). split; auto. apply in_map. eapply nth_error_In; eauto.
    + f_equal. eapply IH; eauto; eexists; eauto.
Qed.
