(* VisitProps.v — C13: setup and dispose reach every system of the program exactly once, at
   any nesting depth. *)
From Shred Require Import Base SrcParams Plan PlanObs PlanLemmas PlanInv PlanLoc PlanBuild PlanProps Visit.
From Coq Require Import Permutation.
Open Scope N_scope.

(* well-formed at every depth: hints valid, tags of a level distinct, every level plans *)
Fixpoint wf_reg (r : reg) : Prop :=
  match r with
  | RBatch _ _ _ _ _ _ _ inner =>
      Forall reg_time_ok1 inner /\ NoDup (sys_tags inner) /\ (exists b, plan inner = Ok b) /\
      (fix go (rs : list reg) : Prop := match rs with [] => True | r' :: rs' => wf_reg r' /\ go rs' end) inner
  | _ => True
  end.
Fixpoint wf_regs (rs : list reg) : Prop :=
  match rs with [] => True | r :: rs' => wf_reg r /\ wf_regs rs' end.
Definition wf_level (rs : list reg) : Prop :=
  Forall reg_time_ok1 rs /\ NoDup (sys_tags rs) /\ (exists b, plan rs = Ok b) /\ wf_regs rs.

Lemma visits_reg_batch t nm deps cr cw tm cnt inner :
  visits_reg (RBatch t nm deps cr cw tm cnt inner) = visits inner.
Proof. reflexivity. Qed.
Lemma leaf_tags_reg_batch t nm deps cr cw tm cnt inner :
  leaf_tags_reg (RBatch t nm deps cr cw tm cnt inner) = leaf_tags inner.
Proof. reflexivity. Qed.
Lemma wf_reg_batch t nm deps cr cw tm cnt inner :
  wf_reg (RBatch t nm deps cr cw tm cnt inner) = wf_level inner.
Proof. reflexivity. Qed.

Lemma concat_map_perm {A B} (f : A -> list B) l1 l2 :
  Permutation l1 l2 -> Permutation (concat (map f l1)) (concat (map f l2)).
Proof.
  induction 1; cbn; auto.
  - now apply Permutation_app_head.
  - rewrite !app_assoc. apply Permutation_app_tail. apply Permutation_app_comm.
  - etransitivity; eauto.
Qed.

Lemma lookup_sub_of rs : NoDup (sys_tags rs) ->
  forall r t, In r rs -> reg_tag r = Some t -> lookup_visits t (sub_of rs) = visits_reg r.
Proof.
  unfold lookup_visits. induction rs as [|x rs IH]; intros ND r t Hin Ht; [destruct Hin|].
  cbn [sub_of sys_tags] in *. destruct (reg_tag x) as [tx|] eqn:Ex.
  - inversion ND as [|? ? Hn ND']; subst. cbn [find fst snd]. destruct Hin as [->|Hin].
    + rewrite Ht in Ex. inversion Ex; subst. now rewrite N.eqb_refl.
    + destruct (N.eqb_spec tx t) as [->|Hne].
      * exfalso. apply Hn. clear - Hin Ht. induction rs as [|y rs IH]; [destruct Hin|].
        cbn [sys_tags]. destruct Hin as [->|Hin]; [rewrite Ht; now left|].
        destruct (reg_tag y); [right|]; auto.
      * eapply IH; eauto.
  - destruct Hin as [->|Hin]; [congruence|]. eapply IH; eauto.
Qed.

Lemma size_regs_in r rs : In r rs -> (size_reg r <= size_regs rs)%nat.
Proof. induction rs as [|x rs IH]; intros H; [destruct H|]. destruct H as [->|H]; cbn [size_regs]; [lia|]. specialize (IH H). lia. Qed.

Lemma wf_regs_in r rs : wf_regs rs -> In r rs -> wf_reg r.
Proof. induction rs as [|x rs IH]; intros W H; [destruct H|]. destruct H as [->|H]; cbn in W; tauto. Qed.

(* visiting the members in registration order reaches every leaf once *)
Lemma visits_in_registration_order : forall rs,
  (forall r, In r rs -> Permutation (visits_reg r) (leaf_tags_reg r)) ->
  Permutation (concat (map (fun r => match reg_tag r with Some _ => visits_reg r | None => [] end) rs) ++ tl_tags rs)
              (leaf_tags rs).
Proof.
  induction rs as [|r rs IH]; intros Hr; [constructor|].
  assert (IH' := IH (fun r' H => Hr r' (or_intror H))). clear IH.
  pose proof (Hr r (or_introl eq_refl)) as P.
  cbn [map concat leaf_tags tl_tags].
  destruct r as [t nm deps rd wr tm|t nm deps cr cw tm cnt inner|t|]; cbn [reg_tag tl_tags] in *.
  - rewrite <- app_assoc. apply Permutation_app; auto.
  - rewrite <- app_assoc. apply Permutation_app; auto.
  - cbn [app]. etransitivity; [symmetry; apply Permutation_middle|]. cbn. apply perm_skip. exact IH'.
  - exact IH'.
Qed.

Lemma map_lookup_sub rs : NoDup (sys_tags rs) ->
  concat (map (fun t => lookup_visits t (sub_of rs)) (sys_tags rs)) =
  concat (map (fun r => match reg_tag r with Some _ => visits_reg r | None => [] end) rs).
Proof.
  intros ND.
  assert (G : forall l, (forall r, In r l -> In r rs) ->
    concat (map (fun t => lookup_visits t (sub_of rs)) (sys_tags l)) =
    concat (map (fun r => match reg_tag r with Some _ => visits_reg r | None => [] end) l)).
  { induction l as [|r l IH]; intros Hsub; [reflexivity|].
    cbn [sys_tags map concat]. destruct (reg_tag r) as [t|] eqn:Et.
    - cbn [map concat]. rewrite (lookup_sub_of rs ND r t (Hsub r (or_introl eq_refl)) Et). f_equal.
      apply IH. intros r' H. apply Hsub. now right.
    - cbn [app]. apply IH. intros r' H. apply Hsub. now right. }
  apply G. auto.
Qed.

Theorem visits_perm_aux : forall n rs, (size_regs rs <= n)%nat -> wf_level rs ->
  Permutation (visits rs) (leaf_tags rs).
Proof.
  induction n as [|n IH]; intros rs Hsz (Ht & ND & (b & Hb) & W).
  - destruct rs as [|r rs].
    + unfold visits, level_visits. cbn. constructor.
    + exfalso. cbn in Hsz. destruct r; cbn in Hsz; lia.
  - unfold visits, level_visits. rewrite Hb.
    rewrite (plan_tl_order _ _ Hb).
    etransitivity; [apply Permutation_app_tail; apply concat_map_perm; eapply plan_exec_perm; eauto|].
    rewrite (map_lookup_sub rs ND).
    apply visits_in_registration_order.
    intros r Hr. pose proof (wf_regs_in r rs W Hr) as Wr. pose proof (size_regs_in r rs Hr) as Sr.
    destruct r as [t nm deps rd wr tm|t nm deps cr cw tm cnt inner|t|]; try apply Permutation_refl.
    rewrite visits_reg_batch, leaf_tags_reg_batch. apply IH.
    + cbn [size_reg] in Sr.
      change ((fix go (rs : list reg) : nat := match rs with [] => O | r' :: rs' => (size_reg r' + go rs')%nat end) inner)
        with (size_regs inner) in Sr. lia.
    + rewrite wf_reg_batch in Wr. exact Wr.
Qed.

(* C13: the hooks called by setup (resp. dispose), at every nesting depth, are a permutation
   of all the systems of the program: every system exactly once, none missed *)
Theorem visits_perm rs : wf_level rs -> Permutation (visits rs) (leaf_tags rs).
Proof. apply (visits_perm_aux (size_regs rs) rs (le_n _)). Qed.
