(* MetaProps.v — C17: the meta table holds exactly the registered types, once each, each with
   its own vtable; iteration yields the registered types that are present, in first-registration
   order. *)
From Shred Require Import Base PlanObs PlanLemmas World WorldProps WorldMap Meta.
Open Scope N_scope.

Definition indices_of (tys : list N) : list (N * nat) := combine tys (seq 0 (length tys)).

Record tinv (t : mtable) : Prop := {
  ti_fns : m_fns t = m_tys t;                          (* slot i holds the vtable made for tys[i] *)
  ti_idx : m_indices t = indices_of (m_tys t);         (* aligned: index of tys[i] is i *)
  ti_nodup : NoDup (m_tys t)                           (* no type twice *)
}.

Lemma tinv_empty : tinv empty_table.
Proof. constructor; cbn; auto. constructor. Qed.

Lemma mlookup_combine : forall tys start ty,
  mlookup ty (combine tys (seq start (length tys))) =
  option_map (fun i => (start + i)%nat) (index_of ty tys).
Proof.
  induction tys as [|x tys IH]; intros start ty; cbn [length seq combine mlookup index_of]; [reflexivity|].
  destruct (x =? ty).
  - cbn. now rewrite Nat.add_0_r.
  - rewrite IH. destruct (index_of ty tys); cbn; [f_equal; lia|reflexivity].
Qed.

Lemma index_of_some : forall tys ty i, index_of ty tys = Some i -> nth_error tys i = Some ty /\ In ty tys.
Proof.
  induction tys as [|x tys IH]; intros ty i; cbn; [discriminate|].
  destruct (N.eqb_spec x ty).
  - intros H. inversion H; subst. cbn. auto.
  - destruct (index_of ty tys) eqn:E; cbn; [|discriminate]. intros H. inversion H; subst. cbn.
    destruct (IH ty n0 E). auto.
Qed.
Lemma index_of_none : forall tys ty, index_of ty tys = None <-> ~ In ty tys.
Proof.
  induction tys as [|x tys IH]; intros ty; cbn; [tauto|].
  destruct (N.eqb_spec x ty).
  - subst. split; [discriminate|intros H; exfalso; apply H; auto].
  - destruct (index_of ty tys) eqn:E; cbn.
    + split; [discriminate|]. intros H. exfalso. apply H. right. apply (index_of_some _ _ _ E).
    + split; auto. intros _ [H|H]; [congruence|]. now apply IH in H.
Qed.

Lemma replace_nth_same {A} : forall (l : list A) i x, nth_error l i = Some x -> replace_nth i x l = Some l.
Proof.
  induction l as [|y l IH]; intros [|i] x; cbn; try discriminate.
  - intros H. inversion H; subst. reflexivity.
  - intros H. rewrite (IH i x H). reflexivity.
Qed.

Lemma combine_snoc {A B} : forall (a : list A) (b : list B) x y, length a = length b ->
  combine (a ++ [x]) (b ++ [y]) = combine a b ++ [(x, y)].
Proof.
  induction a as [|u a IH]; intros [|v b] x y H; cbn in *; try discriminate; auto. f_equal. apply IH. lia.
Qed.
Lemma indices_of_app tys ty : indices_of (tys ++ [ty]) = indices_of tys ++ [(ty, length tys)].
Proof.
  unfold indices_of. rewrite app_length. cbn [length]. rewrite Nat.add_1_r, seq_S.
  rewrite combine_snoc by now rewrite seq_length. reflexivity.
Qed.

(* registering is total and keeps the invariant; a repeated registration changes nothing *)
Theorem register_inv t ty : tinv t ->
  exists t', register t ty = Ok t' /\ tinv t' /\
    m_tys t' = (if memN ty (m_tys t) then m_tys t else m_tys t ++ [ty]).
Proof.
  intros I. unfold register. rewrite (ti_idx _ I). unfold indices_of. rewrite (mlookup_combine (m_tys t) 0 ty).
  destruct (index_of ty (m_tys t)) as [i|] eqn:E; cbn [option_map].
  - destruct (index_of_some _ _ _ E) as [Hn Hin]. cbn [Nat.add].
    rewrite (ti_fns _ I). rewrite (replace_nth_same _ _ _ Hn).
    assert (memN ty (m_tys t) = true) as -> by now apply memN_In.
    eexists. split; [reflexivity|]. split; [|reflexivity].
    constructor; cbn; auto. apply (ti_nodup _ I).
  - apply index_of_none in E.
    assert (memN ty (m_tys t) = false) as -> by now apply memN_false.
    eexists. split; [reflexivity|]. split; [|reflexivity]. constructor; cbn [m_fns m_tys m_indices].
    + now rewrite (ti_fns _ I).
    + fold (indices_of (m_tys t)). rewrite indices_of_app. f_equal. f_equal. f_equal.
      unfold indices_of. rewrite combine_length, seq_length. lia.
    + apply NoDup_app_intro'; [apply (ti_nodup _ I)|constructor; [intros []|constructor]|].
      intros x Hx [<-|[]]. contradiction.
Qed.

Fixpoint reg_all (t : mtable) (l : list N) : result mtable :=
  match l with [] => Ok t | ty :: r => t' <- register t ty ;; reg_all t' r end.

Lemma dedup_first_spec : forall l seen, dedup_first seen l = dedup_first seen l.
Proof. reflexivity. Qed.

Lemma dedup_first_ext : forall l s1 s2, (forall x, memN x s1 = memN x s2) -> dedup_first s1 l = dedup_first s2 l.
Proof.
  induction l as [|y l IH]; intros s1 s2 H; cbn [dedup_first]; [reflexivity|]. rewrite (H y).
  destruct (memN y s2); [now apply IH|]. f_equal. apply IH. intros x. cbn [memN existsb]. unfold memN in H. now rewrite H.
Qed.

(* the table after ANY sequence of register calls (with repeats): total, invariant holds, and
   tys = the registered types once each in first-registration order *)
Theorem reg_all_inv : forall l t, tinv t ->
  exists t', reg_all t l = Ok t' /\ tinv t' /\ m_tys t' = m_tys t ++ dedup_first (m_tys t) l.
Proof.
  induction l as [|ty l IH]; intros t I; cbn [reg_all dedup_first].
  - exists t. rewrite app_nil_r. auto.
  - destruct (register_inv t ty I) as (t1 & -> & I1 & E1). cbn [bind].
    destruct (IH t1 I1) as (t2 & -> & I2 & E2). exists t2. split; auto. split; auto.
    rewrite E2, E1. destruct (memN ty (m_tys t)) eqn:M; [reflexivity|].
    rewrite <- app_assoc. cbn [app]. f_equal. f_equal.
    apply dedup_first_ext. intros x. unfold memN. rewrite existsb_app. cbn. now rewrite orb_false_r, orb_comm.
Qed.

(* conversion succeeds exactly for registered types, with the vtable of that very type; an
   unregistered type gives None; a type whose cast moves the address is rejected by a panic *)
Theorem get_iff_registered bad t ty : tinv t ->
  mget_obj bad t ty =
  if memN ty (m_tys t) then (if memN ty bad then MPanicCast else MObj ty) else MNone.
Proof.
  intros I. unfold mget_obj. rewrite (ti_idx _ I). unfold indices_of. rewrite (mlookup_combine (m_tys t) 0 ty).
  destruct (index_of ty (m_tys t)) as [i|] eqn:E; cbn [option_map Nat.add].
  - destruct (index_of_some _ _ _ E) as [Hn Hin]. rewrite (ti_fns _ I), Hn.
    assert (memN ty (m_tys t) = true) as -> by now apply memN_In. reflexivity.
  - apply index_of_none in E. assert (memN ty (m_tys t) = false) as -> by now apply memN_false. reflexivity.
Qed.

(* ---------------- iteration over a world without live guards ---------------- *)

Definition presentb (w : world) (ty : N) : bool := match lookup (ty, 0) (cells w) with Some _ => true | None => false end.
Definition payload_of (w : world) (ty : N) : N := match lookup (ty, 0) (cells w) with Some c => snd (c_val c) | None => 0 end.

(* cells of the types still to be visited are not exclusively borrowed *)
Definition not_excl (w : world) (ty : N) : Prop :=
  forall c, lookup (ty, 0) (cells w) = Some c -> c_b c <> BExcl.

Lemma iter_walk_shared bad : forall tys w acc gs,
  NoDup tys -> (forall ty, In ty tys -> ~ In ty bad) -> (forall ty, In ty tys -> not_excl w ty) ->
  (forall ty c, lookup (ty, 0) (cells w) = Some c -> c_ty c = ty) ->
  exists w' gs', iter_walk bad false tys tys w acc gs =
    (w', gs', inl (acc ++ map (fun ty => (ty, ty, payload_of w ty)) (filter (presentb w) tys))) /\
    (forall k, mget w' k = mget w k).
Proof.
  induction tys as [|ty tys IH]; intros w acc gs ND Hbad Hne Hty; cbn [iter_walk filter map].
  - exists w, gs. rewrite app_nil_r. auto.
  - inversion ND as [|? ? Hn ND']; subst.
    unfold presentb at 1. destruct (lookup (ty, 0) (cells w)) as [c|] eqn:L.
    + (* present: the shared borrow succeeds *)
      cbn [step fk_excl]. rewrite N.eqb_refl. cbn [negb fst]. rewrite L.
      assert (A : exists b', acquire (c_b c) false = Some b').
      { pose proof (Hne ty (or_introl eq_refl) c L). destruct (c_b c); cbn; eauto. congruence. }
      destruct A as (b' & ->).
      assert (memN ty bad = false) as -> by (apply memN_false; apply Hbad; now left).
      set (w1 := mkWorld (update (ty, 0) (mkCell (c_ty c) (c_val c) b') (cells w)) (guards w ++ [mkGuard (next_guard w) (ty, 0) false])
                         (N.succ (next_guard w)) (dropped w)).
      assert (Lo : forall k, k <> (ty, 0) -> lookup k (cells w1) = lookup k (cells w)).
      { intros k Hk. unfold w1. cbn [cells]. rewrite lookup_update. apply key_eqb_neq in Hk. now rewrite Hk. }
      assert (Ls : lookup (ty, 0) (cells w1) = Some (mkCell (c_ty c) (c_val c) b')).
      { unfold w1. cbn [cells]. now rewrite lookup_update, key_eqb_refl. }
      destruct (IH w1 (acc ++ [(ty, ty, payload_of w1 ty)]) (gs ++ [next_guard w]) ND') as (w' & gs' & E & M).
      * intros t Ht. apply Hbad. now right.
      * intros t Ht c' Lc'. assert (t <> ty) by (intros ->; contradiction).
        rewrite Lo in Lc' by (intros X; inversion X; congruence). apply (Hne t (or_intror Ht) c' Lc').
      * intros t c' Lc'. destruct (N.eq_dec t ty) as [->|Hd].
        -- rewrite Ls in Lc'. inversion Lc'; subst. cbn. eapply Hty; eauto.
        -- rewrite Lo in Lc' by (intros X; inversion X; congruence). eapply Hty; eauto.
      * exists w', gs'. split.
        -- fold (payload_of w1 ty). rewrite E. f_equal. f_equal. rewrite <- app_assoc. cbn [app map]. f_equal.
           assert (P1 : payload_of w1 ty = payload_of w ty) by (unfold payload_of; now rewrite Ls, L).
           rewrite P1. f_equal.
           assert (F : filter (presentb w1) tys = filter (presentb w) tys).
           { apply filter_ext_in. intros t Ht. unfold presentb. rewrite Lo; auto. intros X; inversion X; subst; contradiction. }
           rewrite F. apply map_ext_in. intros t Ht. apply filter_In in Ht. destruct Ht as [Ht _].
           unfold payload_of. rewrite Lo; auto. intros X; inversion X; subst; contradiction.
        -- intros k. rewrite M. unfold mget. destruct (key_eqb k (ty, 0)) eqn:Ek.
           ++ apply key_eqb_eq in Ek. subst k. now rewrite Ls, L.
           ++ apply key_eqb_neq in Ek. now rewrite Lo.
    + (* absent: skipped *)
      destruct (IH w acc gs ND') as (w' & gs' & E & M); auto.
      * intros t Ht. apply Hbad. now right.
      * intros t Ht. apply Hne. now right.
      * exists w', gs'. split; auto.
Qed.

(* C17: iterating a world in which nothing is exclusively borrowed yields precisely the
   registered types that are present, in first-registration order, once each, each through the
   vtable of its own type, with the stored value *)
Theorem iter_spec bad regs t w :
  reg_all empty_table regs = Ok t -> inv w -> (forall ty, In ty regs -> ~ In ty bad) ->
  (forall k c, lookup k (cells w) = Some c -> c_b c <> BExcl) ->
  exists w' gs, iter_walk bad false (m_fns t) (m_tys t) w [] [] =
    (w', gs, inl (map (fun ty => (ty, ty, payload_of w ty)) (filter (presentb w) (dedup_first [] regs)))) /\
    (forall k, mget w' k = mget w k).
Proof.
  intros R I Hb Hx. destruct (reg_all_inv regs empty_table tinv_empty) as (t' & R' & It & Et). rewrite R in R'. inversion R'; subst t'.
  cbn [m_tys empty_table app] in Et. rewrite (ti_fns _ It), Et.
  assert (IN : forall ty, In ty (dedup_first [] regs) -> In ty regs).
  { clear. generalize (@nil N). induction regs as [|x l IH]; intros s ty; cbn [dedup_first]; [tauto|].
    destruct (memN x s); [intros H; right; eapply IH; eauto|]. intros [->|H]; [now left|right; eapply IH; eauto]. }
  destruct (iter_walk_shared bad (dedup_first [] regs) w [] []) as (w' & gs & E & M).
  - rewrite <- Et. apply (ti_nodup _ It).
  - intros ty Hty. apply Hb. auto.
  - intros ty _ c L. eapply Hx; eauto.
  - intros ty c L. apply (i_ty _ I) in L. exact L.
  - exists w', gs. split; auto.
Qed.
