(* NestedConfluence.v — C05 for the whole tree: any two nested traces of a program agree, for every system and for
   every pair of conflicting systems at any depth, on the projection onto them; by the projection lemma
   (TraceEquiv.v) every nested trace therefore ends in the same world. *)
From Shred Require Import Base SrcParams Plan PlanObs PlanLemmas PlanInv PlanLoc PlanBuild PlanProps BatchProps OracleProps
  Exec ExecProps ExecObs NestedObs ExecPlan TraceOracles ExecOracles ParSeq ParSeqProps TreeAccept NestedExec NestedAccept Confluence TraceEquiv.
From Coq Require Import Permutation.
Open Scope N_scope.

(* ---------------- one level: the order of two conflicting systems is fixed by the plan ---------------- *)

Lemma level_order rs b sa sc : plan rs = Ok b -> Forall reg_time_ok1 rs -> NoDup (sys_tags rs) ->
  In sa (placed b) -> In sc (placed b) -> s_tag sa <> s_tag sc -> sys_conflict sa sc = true ->
  lay_before (layout_tags b) (s_tag sa) (s_tag sc) \/ lay_before (layout_tags b) (s_tag sc) (s_tag sa).
Proof.
  intros H Ht ND Ha Hc Hne Hconf.
  pose proof (placed_tags_nodup rs b H Ht ND) as NDl.
  assert (Ia : In (s_tag sa) (flat (layout_tags b))) by (rewrite flat_layout_tags; now apply in_map).
  assert (Ic : In (s_tag sc) (flat (layout_tags b))) by (rewrite flat_layout_tags; now apply in_map).
  destruct (placed_cases (layout_tags b) _ _ NDl Ia Ic Hne) as [S|D]; auto.
  exfalso. destruct (side_by_side_members b sa sc NDl Ha Hc S) as (st & i & j & g1 & g2 & Hst & Hi & Hj & Hij & Hag & Hcg).
  rewrite (plan_isolated rs b H Ht st i j g1 g2 sa sc Hst Hi Hj Hij Hag Hcg) in Hconf. discriminate.
Qed.

(* ---------------- k runs against k runs ---------------- *)

Lemma reps_pair (P : list ev -> Prop) (g : list ev -> list ev) :
  (forall x y, g (x ++ y) = g x ++ g y) -> (forall x y, P x -> P y -> g x = g y) ->
  forall k r1 r2, reps P k r1 -> reps P k r2 -> g r1 = g r2.
Proof.
  intros Ga Gp. induction k as [|k IH]; intros r1 r2 R1 R2; cbn in R1, R2.
  - now subst.
  - destruct R1 as (x1 & y1 & P1 & Q1 & ->). destruct R2 as (x2 & y2 & P2 & Q2 & ->). rewrite !Ga. f_equal; auto.
Qed.

(* ---------------- a single system: the same windows in every nested trace ---------------- *)

(* a tag of the tree: a system, a batch or a thread-local system of some level *)
Inductive tag_in : N -> list reg -> Prop :=
| ti_here a rs : In a (sys_tags rs ++ tl_tags rs) -> tag_in a rs
| ti_in a rs t nm deps cr cw tm cnt inner : In (RBatch t nm deps cr cw tm cnt inner) rs -> tag_in a inner -> tag_in a rs.

Lemma top_single n rs tr a : ntr (S n) rs tr -> wf rs -> In a (sys_tags rs ++ tl_tags rs) -> proj [a] tr = [EF a; ER a].
Proof.
  intros (b & H & Tr & All & Bat) W Hl. destruct (top_events rs b tr a H W Tr Hl) as (C1 & C2 & P).
  apply TreeAccept.leaf_trace. apply TreeAccept.o_once_spec. split.
  - intros x [<-|[]]. rewrite !count_ev_proj' by (cbn; auto). split; [auto|split; auto].
    apply precedes_before_in. apply precedes_proj_keep; auto; cbn; auto.
  - intros e He. apply proj_In' in He. tauto.
Qed.

Lemma tag_in_tree a rs : tag_in a rs -> In a (tree_tags rs).
Proof.
  induction 1 as [a rs H|a rs t nm deps cr cw tm cnt inner Hin _ IH].
  - apply (Permutation_in _ (Permutation_sym (tree_perm rs))). apply in_or_app. now left.
  - apply (subtree_in_tree rs (RBatch t nm deps cr cw tm cnt inner)); auto. rewrite subtree_tags_batch. now right.
Qed.

Lemma single_same : forall n rs tr1 tr2, ntr n rs tr1 -> ntr n rs tr2 -> wf rs ->
  forall a, tag_in a rs -> proj [a] tr1 = proj [a] tr2.
Proof.
  induction n as [|n IH]; intros rs tr1 tr2 N1 N2 W a Ha; [destruct N1|].
  destruct Ha as [a rs Hl|a rs t nm deps cr cw tm cnt inner Hin Hi].
  - now rewrite (top_single n rs tr1 a N1 W Hl), (top_single n rs tr2 a N2 W Hl).
  - destruct N1 as (b1 & H1 & T1 & A1 & B1). destruct N2 as (b2 & H2 & T2 & A2 & B2).
    destruct (B1 _ _ _ _ _ _ _ _ Hin) as (p1 & m1 & q1 & E1 & O1 & R1).
    destruct (B2 _ _ _ _ _ _ _ _ Hin) as (p2 & m2 & q2 & E2 & O2 & R2).
    destruct W as [Wt ND]. destruct (batch_nd rs _ _ _ _ _ _ _ _ ND Hin) as [NDi Hti].
    pose proof (tag_in_tree a inner Hi) as Ai.
    rewrite (inner_proj [a] (tree_tags inner) tr1 t p1 m1 q1 E1 O1 Hti) by (intros x [<-|[]]; exact Ai).
    rewrite (inner_proj [a] (tree_tags inner) tr2 t p2 m2 q2 E2 O2 Hti) by (intros x [<-|[]]; exact Ai).
    apply (reps_pair (ntr n inner) (proj [a])) with (k := N.to_nat cnt); auto.
    + intros; apply proj_app.
    + intros x y Px Py. apply (IH inner x y Px Py (wf_inner rs _ _ _ _ _ _ _ _ (conj Wt ND) Hin) a Hi).
Qed.

Lemma sub_reg_tag_in r rs a : sub_reg r rs -> reg_tag r = Some a -> tag_in a rs.
Proof.
  induction 1 as [r rs Hin|r rs t nm deps cr cw tm cnt inner Hin Hs IH]; intros Ta.
  - apply ti_here. apply in_or_app. left. eapply in_sys_tags; eauto.
  - eapply ti_in; eauto.
Qed.

(* ---------------- two conflicting systems: the same interleaving of windows in every nested trace ---------------- *)

Lemma cross_same n rs tr1 tr2 Ta Tc ta tc a c :
  ntr (S n) rs tr1 -> ntr (S n) rs tr2 -> wf rs -> In Ta rs -> In Tc rs -> reg_tag Ta = Some ta -> reg_tag Tc = Some tc -> ta <> tc ->
  reg_conflict Ta Tc = true -> In a (subtree_tags Ta) -> In c (subtree_tags Tc) ->
  proj [a] tr1 = proj [a] tr2 -> proj [c] tr1 = proj [c] tr2 -> proj [a; c] tr1 = proj [a; c] tr2.
Proof.
  intros N1 N2 W Ia Ic Tta Ttc Hne Hconf Ha Hc Sa Sc. pose proof N1 as N10. pose proof N2 as N20.
  destruct N1 as (b1 & H1 & T1 & _ & _). destruct N2 as (b2 & H2 & T2 & _ & _). assert (b2 = b1) by congruence. subst b2.
  destruct W as [Wt ND]. pose proof (regs_times_ok1 _ Wt) as Ht1.
  destruct (placed_covers rs b1 Ta ta H1 Wt Ia Tta) as (sa & Psa & Tsa & Ra & Wa).
  destruct (placed_covers rs b1 Tc tc H1 Wt Ic Ttc) as (sc & Psc & Tsc & Rc & Wc).
  assert (SC : sys_conflict sa sc = true) by (unfold sys_conflict; eapply rw_conflict_mono; eauto).
  assert (NDs : NoDup (sys_tags rs)) by (eapply NoDup_app_remove_r; apply (nd_level _ ND)).
  destruct (level_order rs b1 sa sc H1 Ht1 NDs Psa Psc ltac:(congruence) SC) as [L|L]; rewrite Tsa, Tsc in L.
  - pose proof (precedes_proj _ _ _ _ (trace_before _ _ _ _ _ T1 L)) as P1.
    pose proof (precedes_proj _ _ _ _ (trace_before _ _ _ _ _ T2 L)) as P2.
    rewrite (ordered_serial n rs b1 tr1 Ta Tc ta tc a c N10 H1 (conj Wt ND) T1 Ia Ic Tta Ttc Ha Hc P1).
    rewrite (ordered_serial n rs b1 tr2 Ta Tc ta tc a c N20 H1 (conj Wt ND) T2 Ia Ic Tta Ttc Ha Hc P2). congruence.
  - pose proof (precedes_proj _ _ _ _ (trace_before _ _ _ _ _ T1 L)) as P1.
    pose proof (precedes_proj _ _ _ _ (trace_before _ _ _ _ _ T2 L)) as P2.
    rewrite (proj_swap a c tr1), (proj_swap a c tr2).
    rewrite (ordered_serial n rs b1 tr1 Tc Ta tc ta c a N10 H1 (conj Wt ND) T1 Ic Ia Ttc Tta Hc Ha P1).
    rewrite (ordered_serial n rs b1 tr2 Tc Ta tc ta c a N20 H1 (conj Wt ND) T2 Ic Ia Ttc Tta Hc Ha P2). congruence.
Qed.

Theorem pair_same : forall n rs tr1 tr2, ntr n rs tr1 -> ntr n rs tr2 -> wf rs ->
  forall ra rc a c, sub_reg ra rs -> sub_reg rc rs -> reg_tag ra = Some a -> reg_tag rc = Some c ->
  ~ In a (subtree_tags rc) -> ~ In c (subtree_tags ra) -> reg_conflict ra rc = true ->
  proj [a; c] tr1 = proj [a; c] tr2.
Proof.
  induction n as [|n IH]; intros rs tr1 tr2 N1 N2 W ra rc a c Sa Sc Ta Tc Na Nc Hconf; [destruct N1|].
  pose proof (single_same (S n) rs tr1 tr2 N1 N2 W a (sub_reg_tag_in ra rs a Sa Ta)) as Sga.
  pose proof (single_same (S n) rs tr1 tr2 N1 N2 W c (sub_reg_tag_in rc rs c Sc Tc)) as Sgc.
  destruct W as [Wt ND].
  destruct Sa as [ra rs Ia|ra rs t1 nm1 deps1 cr1 cw1 tm1 cnt1 inner1 I1 S1];
  destruct Sc as [rc rs Ic|rc rs t2 nm2 deps2 cr2 cw2 tm2 cnt2 inner2 I2 S2].
  - apply (cross_same n rs tr1 tr2 ra rc a c a c N1 N2 (conj Wt ND) Ia Ic Ta Tc); auto using tag_in_subtree.
    intros ->. apply Na. now apply tag_in_subtree.
  - set (B := RBatch t2 nm2 deps2 cr2 cw2 tm2 cnt2 inner2) in *.
    assert (Cin : In c (subtree_tags B)).
    { unfold B. rewrite subtree_tags_batch. right. apply (sub_reg_tags rc inner2 S2). now apply tag_in_subtree. }
    assert (Hne : a <> t2).
    { intros ->. assert (ra = B) by (apply (top_unique rs ra B t2 ND Ia I2); [now apply tag_in_subtree|unfold B; rewrite subtree_tags_batch; now left]).
      subst ra. now apply Nc. }
    apply (cross_same n rs tr1 tr2 ra B a t2 a c N1 N2 (conj Wt ND) Ia I2 Ta eq_refl Hne); auto using tag_in_subtree.
    destruct (eff_sub rc inner2 S2 t2 nm2 deps2 cr2 cw2 tm2 cnt2) as [X Y].
    unfold reg_conflict in *. eapply rw_conflict_mono; [| | | |exact Hconf]; auto using incl_refl.
  - set (B := RBatch t1 nm1 deps1 cr1 cw1 tm1 cnt1 inner1) in *.
    assert (Ain : In a (subtree_tags B)).
    { unfold B. rewrite subtree_tags_batch. right. apply (sub_reg_tags ra inner1 S1). now apply tag_in_subtree. }
    assert (Hne : t1 <> c).
    { intros ->. assert (rc = B) by (apply (top_unique rs rc B c ND Ic I1); [now apply tag_in_subtree|unfold B; rewrite subtree_tags_batch; now left]).
      subst rc. now apply Na. }
    apply (cross_same n rs tr1 tr2 B rc t1 c a c N1 N2 (conj Wt ND) I1 Ic eq_refl Tc Hne); auto using tag_in_subtree.
    destruct (eff_sub ra inner1 S1 t1 nm1 deps1 cr1 cw1 tm1 cnt1) as [X Y].
    unfold reg_conflict in *. eapply rw_conflict_mono; [| | | |exact Hconf]; auto using incl_refl.
  - set (B1 := RBatch t1 nm1 deps1 cr1 cw1 tm1 cnt1 inner1) in *. set (B2 := RBatch t2 nm2 deps2 cr2 cw2 tm2 cnt2 inner2) in *.
    assert (Ain : In a (tree_tags inner1)) by (apply (sub_reg_tags ra inner1 S1); now apply tag_in_subtree).
    assert (Cin : In c (tree_tags inner2)) by (apply (sub_reg_tags rc inner2 S2); now apply tag_in_subtree).
    destruct (N.eq_dec t1 t2) as [Et|Hne].
    + assert (EB : B1 = B2) by (apply (top_unique rs B1 B2 t1 ND I1 I2); unfold B1, B2; rewrite subtree_tags_batch; [now left|left; congruence]).
      unfold B1, B2 in EB. inversion EB; subst. clear EB.
      destruct N1 as (b1 & H1 & T1 & A1 & Bt1). destruct N2 as (b2 & H2 & T2 & A2 & Bt2).
      destruct (Bt1 _ _ _ _ _ _ _ _ I1) as (p1 & m1 & q1 & E1 & O1 & R1).
      destruct (Bt2 _ _ _ _ _ _ _ _ I1) as (p2 & m2 & q2 & E2 & O2 & R2).
      destruct (batch_nd rs _ _ _ _ _ _ _ _ ND I1) as [NDi Hti].
      rewrite (inner_proj [a; c] (tree_tags inner2) tr1 t2 p1 m1 q1 E1 O1 Hti) by (intros x [<-|[<-|[]]]; auto).
      rewrite (inner_proj [a; c] (tree_tags inner2) tr2 t2 p2 m2 q2 E2 O2 Hti) by (intros x [<-|[<-|[]]]; auto).
      apply (reps_pair (ntr n inner2) (proj [a; c])) with (k := N.to_nat cnt2); auto.
      * intros; apply proj_app.
      * intros x y Px Py. apply (IH inner2 x y Px Py (wf_inner rs _ _ _ _ _ _ _ _ (conj Wt ND) I1) ra rc a c); auto.
    + apply (cross_same n rs tr1 tr2 B1 B2 t1 t2 a c N1 N2 (conj Wt ND) I1 I2 eq_refl eq_refl Hne); auto.
      * destruct (eff_sub ra inner1 S1 t1 nm1 deps1 cr1 cw1 tm1 cnt1) as [X1 Y1].
        destruct (eff_sub rc inner2 S2 t2 nm2 deps2 cr2 cw2 tm2 cnt2) as [X2 Y2].
        unfold reg_conflict in *. eapply rw_conflict_mono; [| | | |exact Hconf]; auto.
      * unfold B1. rewrite subtree_tags_batch. now right.
      * unfold B2. rewrite subtree_tags_batch. now right.
Qed.

(* ---------------- every tag that occurs in a nested trace is a tag of the tree ---------------- *)

Lemma in_sys_tags_of r rs a : In r rs -> reg_tag r = Some a -> In a (sys_tags rs).
Proof. apply in_sys_tags. Qed.

Lemma in_tl_tags rs a : In (RTL a) rs -> In a (tl_tags rs).
Proof.
  induction rs as [|r rs IH]; intros H; [destruct H|]. destruct H as [->|H]; [cbn; now left|].
  destruct r; cbn [tl_tags]; auto. right. auto.
Qed.

Lemma tree_tag_in : forall n rs a, (size_regs rs <= n)%nat -> In a (tree_tags rs) -> tag_in a rs.
Proof.
  induction n as [|n IH]; intros rs a Hsz Hin.
  - destruct rs as [|r rs]; [destruct Hin|]. exfalso. cbn in Hsz. destruct r; cbn in Hsz; lia.
  - unfold tree_tags in Hin. apply in_concat in Hin. destruct Hin as (l & Hl & Ha). apply in_map_iff in Hl. destruct Hl as (r & <- & Hr).
    destruct r as [t nm deps rd wr tm|t nm deps cr cw tm cnt inner|t|].
    + cbn [subtree_tags] in Ha. destruct Ha as [<-|[]]. apply ti_here. apply in_or_app. left. apply (in_sys_tags rs _ t Hr eq_refl).
    + rewrite subtree_tags_batch in Ha. destruct Ha as [<-|Ha].
      * apply ti_here. apply in_or_app. left. apply (in_sys_tags rs _ t Hr eq_refl).
      * eapply ti_in; eauto. apply IH; auto.
        assert (size_reg (RBatch t nm deps cr cw tm cnt inner) <= size_regs rs)%nat.
        { clear - Hr. induction rs as [|x l IHl]; [destruct Hr|]. destruct Hr as [->|Hr]; cbn [size_regs]; [lia|]. specialize (IHl Hr). lia. }
        cbn [size_reg] in H.
        change ((fix go (rs : list reg) : nat := match rs with [] => O | r' :: rs' => (size_reg r' + go rs')%nat end) inner) with (size_regs inner) in H. lia.
    + cbn [subtree_tags] in Ha. destruct Ha as [<-|[]]. apply ti_here. apply in_or_app. right. now apply in_tl_tags.
    + cbn [subtree_tags] in Ha. destruct Ha.
Qed.

Lemma ntr_tags n rs tr e : ntr n rs tr -> In e tr -> In (ev_tag e) (tree_tags rs).
Proof. destruct n; [intros []|]. intros (b & _ & _ & All & _). apply All. Qed.

(* ---------------- releases, effects, the final world ---------------- *)

(* the systems in the order in which they release (= the order in which their effects are applied) *)
Definition rel (tr : list ev) : list N := concat (map (fun e => match e with ER t => [t] | EF _ => [] end) tr).

Lemma rel_app a b : rel (a ++ b) = rel a ++ rel b.
Proof. unfold rel. now rewrite map_app, concat_app. Qed.

Lemma rel_cons_F t tr : rel (EF t :: tr) = rel tr.
Proof. reflexivity. Qed.
Lemma rel_cons_R t tr : rel (ER t :: tr) = t :: rel tr.
Proof. reflexivity. Qed.

Lemma rel_proj a c tr : pproj a c (rel tr) = rel (proj [a; c] tr).
Proof.
  induction tr as [|e tr IH]; [reflexivity|]. unfold proj in *. cbn [filter]. destruct e as [t|t]; cbn [ev_tag].
  - rewrite rel_cons_F, IH. destruct (memN t [a; c]); [now rewrite rel_cons_F|reflexivity].
  - rewrite rel_cons_R. unfold pproj at 1. cbn [filter]. fold (pproj a c (rel tr)). rewrite IH.
    unfold memN. cbn [existsb]. rewrite orb_false_r. destruct ((t =? a) || (t =? c)); [now rewrite rel_cons_R|reflexivity].
Qed.

Lemma proj_pair_same a tr : proj [a; a] tr = proj [a] tr.
Proof. apply proj_ext. intros e _. cbn [memN existsb]. rewrite !orb_false_r. apply orb_diag. Qed.

Section WholeTree.
  Variable V : Type.
  Variable Rd Wr : N -> list N.                    (* what the effect of a system really reads / changes *)
  Variable f : N -> world V -> world V.            (* the effect of one run of a system, applied when it releases *)
  Variable rs : list reg.
  Hypothesis W : wf rs.
  Hypothesis RESP : forall t, respects V Rd Wr f t.
  (* the real access is covered by the declarations: two different systems whose effects conflict are registered
     somewhere in the tree, neither inside the other, with conflicting declared access *)
  Hypothesis COVER : forall a c, a <> c -> rw_conflict (Rd a) (Wr a) (Rd c) (Wr c) = true ->
    exists ra rc, sub_reg ra rs /\ sub_reg rc rs /\ reg_tag ra = Some a /\ reg_tag rc = Some c /\
                  ~ In a (subtree_tags rc) /\ ~ In c (subtree_tags ra) /\ reg_conflict ra rc = true.

  (* C05, the whole tree: EVERY nested trace — any interleaving of the subtrees, any pool, any number of inner
     dispatches — ends in the same world; in particular the one of the sequential run *)
  Theorem nested_par_eq_seq n tr1 tr2 : ntr n rs tr1 -> ntr n rs tr2 ->
    forall w, weq V (run V f (rel tr1) w) (run V f (rel tr2) w).
  Proof.
    intros N1 N2. apply (same_conflict_order V Rd Wr f).
    - apply Forall_forall. intros t _. apply RESP.
    - apply Forall_forall. intros t _. apply RESP.
    - intros a c D. rewrite !rel_proj. f_equal. destruct (N.eq_dec a c) as [<-|Hne].
      + rewrite !proj_pair_same.
        destruct (in_dec N.eq_dec a (tree_tags rs)) as [Hin|Hnin].
        * apply (single_same n rs tr1 tr2 N1 N2 W a). apply (tree_tag_in (size_regs rs)); auto.
        * rewrite (proj_none [a] tr1), (proj_none [a] tr2); [reflexivity| |].
          -- intros e He [X|[]]. apply Hnin. rewrite X. apply (ntr_tags n rs tr2 e N2 He).
          -- intros e He [X|[]]. apply Hnin. rewrite X. apply (ntr_tags n rs tr1 e N1 He).
      + destruct D as [E|C]; [contradiction|].
        destruct (COVER a c Hne C) as (ra & rc & Sa & Sc & Ta & Tc & Na & Nc & RC).
        apply (pair_same n rs tr1 tr2 N1 N2 W ra rc a c); auto.
  Qed.
End WholeTree.

(* ---------------- the canonical instance: every plain system really uses what it declares ---------------- *)

Fixpoint find_sys (r : reg) (t : N) : option (list N * list N) :=
  match r with
  | RSys t' _ _ rd wr _ => if t' =? t then Some (rd, wr) else None
  | RBatch _ _ _ _ _ _ _ inner =>
      (fix go (rs : list reg) : option (list N * list N) :=
         match rs with [] => None | r' :: rs' => match find_sys r' t with Some x => Some x | None => go rs' end end) inner
  | _ => None
  end.
Fixpoint find_sys_regs (rs : list reg) (t : N) : option (list N * list N) :=
  match rs with [] => None | r :: rs' => match find_sys r t with Some x => Some x | None => find_sys_regs rs' t end end.

Definition decl_reads (rs : list reg) (t : N) : list N := match find_sys_regs rs t with Some (rd, _) => rd | None => [] end.
Definition decl_writes (rs : list reg) (t : N) : list N := match find_sys_regs rs t with Some (_, wr) => wr | None => [] end.

Lemma find_sys_batch t0 nm deps cr cw tm cnt inner t : find_sys (RBatch t0 nm deps cr cw tm cnt inner) t = find_sys_regs inner t.
Proof. cbn [find_sys]. induction inner as [|r rs IH]; [reflexivity|]. cbn [find_sys_regs]. now rewrite <- IH. Qed.

Lemma find_sys_sub : forall n rs t rd wr, (size_regs rs <= n)%nat -> find_sys_regs rs t = Some (rd, wr) ->
  exists nm deps tm, sub_reg (RSys t nm deps rd wr tm) rs.
Proof.
  induction n as [|n IH]; intros rs t rd wr Hsz H.
  - destruct rs as [|r rs]; [discriminate|]. exfalso. cbn in Hsz. destruct r; cbn in Hsz; lia.
  - induction rs as [|r rs IHrs]; [discriminate|]. cbn [find_sys_regs] in H.
    assert (Hsz' : (size_regs rs <= S n)%nat) by (cbn [size_regs] in Hsz; lia).
    destruct (find_sys r t) as [x|] eqn:F.
    + inversion H; subst x. destruct r as [t' nm deps rd' wr' tm|t' nm deps cr cw tm cnt inner|t'|]; [| |discriminate|discriminate].
      * cbn [find_sys] in F. destruct (N.eqb_spec t' t) as [->|_]; [|discriminate]. inversion F; subst. exists nm, deps, tm. apply sub_here. now left.
      * rewrite find_sys_batch in F.
        assert (Hi : (size_regs inner <= n)%nat).
        { cbn [size_regs size_reg] in Hsz.
          change ((fix go (rs : list reg) : nat := match rs with [] => O | r' :: rs' => (size_reg r' + go rs')%nat end) inner) with (size_regs inner) in Hsz. lia. }
        destruct (IH inner t rd wr Hi F) as (nm' & deps' & tm' & S). exists nm', deps', tm'. eapply sub_in; [now left|exact S].
    + destruct (IHrs Hsz' H) as (nm & deps & tm & S). exists nm, deps, tm.
      clear - S. induction S as [r0 rs0 Hin|r0 rs0 t0 nm0 deps0 cr0 cw0 tm0 cnt0 inner0 Hin Hs _].
      * apply sub_here. now right.
      * eapply sub_in; [right; exact Hin|exact Hs].
Qed.

Lemma rw_conflict_nil_l r2 w2 : rw_conflict [] [] r2 w2 = false.
Proof. apply rw_conflict_false. repeat split; intros x []. Qed.

(* C05 for the whole tree, canonical form: if the effect of every plain system respects ITS OWN declared reads and
   writes, and every other tag (batch controllers, thread-local systems) has no effect of its own, then every nested
   trace of the program ends in the same world *)
Theorem nested_par_eq_seq_declared V (f : N -> world V -> world V) rs :
  wf rs -> (forall t, respects V (decl_reads rs) (decl_writes rs) f t) ->
  forall n tr1 tr2, ntr n rs tr1 -> ntr n rs tr2 -> forall w, weq V (run V f (rel tr1) w) (run V f (rel tr2) w).
Proof.
  intros W RESP n tr1 tr2. apply (nested_par_eq_seq V (decl_reads rs) (decl_writes rs) f rs W RESP).
  intros a c Hne C. unfold decl_reads, decl_writes in C.
  destruct (find_sys_regs rs a) as [[rda wra]|] eqn:Fa; [|now rewrite rw_conflict_nil_l in C].
  destruct (find_sys_regs rs c) as [[rdc wrc]|] eqn:Fc; [|rewrite rw_conflict_sym, rw_conflict_nil_l in C; discriminate].
  destruct (find_sys_sub (size_regs rs) rs a rda wra (le_n _) Fa) as (nma & da & tma & Sa).
  destruct (find_sys_sub (size_regs rs) rs c rdc wrc (le_n _) Fc) as (nmc & dc & tmc & Sc).
  exists (RSys a nma da rda wra tma), (RSys c nmc dc rdc wrc tmc). repeat split; auto.
  - cbn [subtree_tags]. intros [X|[]]. congruence.
  - cbn [subtree_tags]. intros [X|[]]. congruence.
Qed.

(* ---------------- the hypotheses are satisfiable by effects that really do something ---------------- *)

Definition ex_rs : list reg :=
  [RBatch 1 [] [] [] [] 5%Z 2 [RSys 2 [] [] [] [8] 1%Z; RSys 3 [] [] [9] [] 1%Z]; RSys 4 [] [] [] [7] 3%Z].
(* system 2 increments resource 8, system 4 doubles resource 7 and adds one, system 3 only reads *)
Definition ex_f (t : N) (w : world N) : world N :=
  if t =? 2 then (fun k => if k =? 8 then w 8 + 1 else w k)
  else if t =? 4 then (fun k => if k =? 7 then 2 * w 7 + 1 else w k)
  else w.

Example ex_respects : forall t, respects N (decl_reads ex_rs) (decl_writes ex_rs) ex_f t.
Proof.
  intros t. unfold respects, ex_f. destruct (N.eqb_spec t 2) as [->|N2]; [|destruct (N.eqb_spec t 4) as [->|N4]].
  - split.
    + intros w k Hk. destruct (N.eqb_spec k 8) as [->|_]; [|reflexivity]. exfalso. apply Hk. vm_compute. now left.
    + intros w w' H k Hk. destruct (N.eqb_spec k 8) as [->|Hne]; [|vm_compute in Hk; destruct Hk as [E|[]]; congruence].
      rewrite (H 8); [reflexivity|]. right. vm_compute. now left.
  - split.
    + intros w k Hk. destruct (N.eqb_spec k 7) as [->|_]; [|reflexivity]. exfalso. apply Hk. vm_compute. now left.
    + intros w w' H k Hk. destruct (N.eqb_spec k 7) as [->|Hne]; [|vm_compute in Hk; destruct Hk as [E|[]]; congruence].
      rewrite (H 7); [reflexivity|]. right. vm_compute. now left.
  - split; [reflexivity|]. intros w w' H k Hk. apply H. now right.
Qed.

Example ex_wf : wf ex_rs.
Proof.
  split.
  - cbn [ex_rs regs_times_ok reg_times_ok]. unfold time_ok. repeat split; vm_compute; auto 10.
  - apply nodup_dec_true. vm_compute. reflexivity.
Qed.

(* two different interleavings of the same program — the inner systems of the batch overlap system 4 differently, the
   two inner dispatches order their systems differently — end in the same world, whatever the initial world *)
Example ex_same_world : forall w,
  weq N (run N ex_f (rel [EF 1; EF 4; EF 2; EF 3; ER 2; ER 3; ER 4; EF 3; ER 3; EF 2; ER 2; ER 1]) w)
        (run N ex_f (rel [EF 4; ER 4; EF 1; EF 2; ER 2; EF 3; ER 3; EF 2; ER 2; EF 3; ER 3; ER 1]) w).
Proof.
  apply (nested_par_eq_seq_declared N ex_f ex_rs ex_wf ex_respects 2).
  - exact ntr_example.
  - apply naccept_sound; [exact ex_wf|vm_compute; reflexivity].
Qed.
