(* SysData.v — M4: the system-data combinators (world/data.rs Read/Write/Option forms,
   system.rs (), PhantomData and the impl_data! tuples, shred-derive structs) on top of the
   world model.  Model only; proofs in SysDataProps.v. *)
From Shred Require Import Base World.
Open Scope N_scope.

Inductive handler := HDefault | HPanic | HCustom.
(* DefaultProvider / PanicHandler (ReadExpect, WriteExpect) / a user-written SetupHandler: the one of the
   harness inserts the default value when the resource is missing, like DefaultProvider, and
   ALSO appends its resource to a call log kept in the world *)
Definition provides (h : handler) : bool := match h with HPanic => false | _ => true end.

Inductive sd :=
| SRead (ty : N) (h : handler)
| SWrite (ty : N) (h : handler)
| SOptRead (ty : N)
| SOptWrite (ty : N)
| SUnit
| SPhantom
| STuple (l : list sd).                      (* tuples of any arity, and derived structs (same expansion) *)

Fixpoint sd_reads (d : sd) : list N :=
  match d with
  | SRead ty _ | SOptRead ty => [ty]
  | STuple l => (fix go (l : list sd) : list N := match l with [] => [] | x :: r => sd_reads x ++ go r end) l
  | _ => []
  end.
Fixpoint sd_writes (d : sd) : list N :=
  match d with
  | SWrite ty _ | SOptWrite ty => [ty]
  | STuple l => (fix go (l : list sd) : list N := match l with [] => [] | x :: r => sd_writes x ++ go r end) l
  | _ => []
  end.

(* setup: the members left to right; DefaultProvider = entry().or_insert_with(default) *)
Definition insert_default (dflt : N -> value) (ty : N) (w : world) : world :=
  match lookup (ty, 0) (cells w) with
  | Some _ => w
  | None => set_cells w (update (ty, 0) (mkCell ty (dflt ty) BFree) (cells w))
  end.
Fixpoint sd_setup (dflt : N -> value) (d : sd) (w : world) : world :=
  match d with
  | SRead ty h | SWrite ty h => if provides h then insert_default dflt ty w else w
  | STuple l => (fix go (l : list sd) (w : world) : world := match l with [] => w | x :: r => go r (sd_setup dflt x w) end) l w
  | _ => w
  end.

(* the calls of user-written setup handlers made by one setup, in order *)
Fixpoint sd_setup_calls (d : sd) : list N :=
  match d with
  | SRead ty HCustom | SWrite ty HCustom => [ty]
  | STuple l => (fix go (l : list sd) : list N := match l with [] => [] | x :: r => sd_setup_calls x ++ go r end) l
  | _ => []
  end.

(* the leaves in fetch order: (type, exclusive?, optional?) *)
Fixpoint sd_leaves (d : sd) : list (N * bool * bool) :=
  match d with
  | SRead ty _ => [(ty, false, false)]
  | SWrite ty _ => [(ty, true, false)]
  | SOptRead ty => [(ty, false, true)]
  | SOptWrite ty => [(ty, true, true)]
  | STuple l => (fix go (l : list sd) := match l with [] => [] | x :: r => sd_leaves x ++ go r end) l
  | _ => []
  end.

Definition leaf_fkind (excl opt : bool) : fkind :=
  match excl, opt with
  | false, false => FFetch | true, false => FFetchMut | false, true => FTryFetch | true, true => FTryFetchMut
  end.

Fixpoint drop_guards (gs : list N) (w : world) : world :=
  match gs with
  | [] => w
  | g :: r => drop_guards r (fst (step w (ODrop g)))
  end.

(* fetch: left to right; a member that panics ends the fetch, and the unwinding drops the
   members fetched so far.  Result: the world, and either the guards of the value or the panic *)
Fixpoint fetch_leaves (ls : list (N * bool * bool)) (acc : list N) (w : world) : world * (list N + pkind) :=
  match ls with
  | [] => (w, inl acc)
  | (ty, excl, opt) :: r =>
      match step w (OFetchOp (leaf_fkind excl opt) ty (ty, 0)) with
      | (w', OGuard g) => fetch_leaves r (acc ++ [g]) w'
      | (w', ONone) => fetch_leaves r acc w'
      | (w', OPanic p) => (drop_guards acc w', inr p)
      | (w', _) => (w', inr PBadGuard)
      end
  end.
Definition sd_fetch (d : sd) (w : world) : world * (list N + pkind) := fetch_leaves (sd_leaves d) [] w.

(* World::exec: set the type up, fetch it, hand the value to the closure (which may panic); the value is
   dropped when the closure returns or unwinds *)
Definition sd_exec (dflt : N -> value) (d : sd) (w : world) : world * (list N + pkind) := sd_fetch d (sd_setup dflt d w).

(* what the harness observes: borrow class of the cell of every type of a universe *)
Definition classes (w : world) (univ : list N) : list (option N) :=
  map (fun ty => option_map (fun c => borrow_class (c_b c)) (lookup (ty, 0) (cells w))) univ.
Definition present_mask (w : world) (univ : list N) : list bool :=
  map (fun ty => match lookup (ty, 0) (cells w) with Some _ => true | None => false end) univ.
Definition world_with (present : list N) (val : N -> value) : world :=
  fold_left (fun w ty => fst (step w (OInsert ty (ty, 0) (val ty)))) present empty_world.
