(* Extract.v — extraction of the executable models for the OCaml driver.
   Only ExtrOcamlBasic (bool, option, list, prod, unit, sumbool -> OCaml's own types);
   N, Z, positive, nat stay the extracted inductive types.  No Extract Constant. *)
From Coq Require Extraction ExtrOcamlBasic.
From Shred Require Import Base SrcParams Plan PlanObs PlanRec Exec ExecObs NestedObs Visit Fault World SysData Meta ParSeq Async Pool PoolCells.
Extraction Language OCaml.
Extraction "extracted/model.ml"
  cap join_slack time_values tuple_arities params_source
  plan run_regs empty_builder print_builder layout_tags layout_ids shape max_threads sendable b_tl b_stages
  levels err_index_regs calls_regs sys_tags tl_tags
  plan_rec rec_errs rec_calls accepted level_prog
  o_exec_perm o_isolated o_deps_ordered o_barriers o_skip_justified o_max_threads o_print o_sendable spec_first_error
  rw_conflict eff_reads eff_writes find_reg reg_tag dep_tags
  accept_disp trace_seq group_trace ev_eqb o_once o_no_overlap o_preds_done o_tl_last o_inside must_precede subtree_tags model_layout
  naccept tree_tags
  visits leaf_tags
  faccept_disp ftrace_seq fgroup
  World.step World.empty_world World.probe World.dropped World.run
  sd_reads sd_writes sd_setup sd_setup_calls sd_exec sd_fetch drop_guards classes present_mask world_with
  mstep empty_mstate dedup_first mrun
  t_reads t_writes t_leaves build_panics par_ok tree_accept order_ok seq_trace
  acc_run acc_init
  pool_can_rendezvous
  build_root node_pools root_pool.
