(* NestedAccept.v — an executable acceptor for nested traces and its soundness: a recorded trace of a
   whole dispatch (all depths in one log) that it accepts is a nested trace of the model, so the
   whole-tree theorem of NestedExec.v holds of the recorded run. *)
From Shred Require Import Base SrcParams Plan PlanObs PlanLemmas PlanInv PlanLoc PlanBuild PlanProps BatchProps
  Exec ExecProps ExecObs NestedObs ExecPlan NestedExec.
From Coq Require Import Permutation.
Open Scope N_scope.

Lemma split_ev_spec x : forall tr a b, split_ev x tr = Some (a, b) -> tr = a ++ x :: b.
Proof.
  induction tr as [|e r IH]; intros a b H; [discriminate|]. cbn [split_ev] in H. destruct (ev_eqb e x) eqn:E.
  - inversion H; subst. apply ev_eqb_eq in E. now subst.
  - destruct (split_ev x r) as [[a' b']|]; [|discriminate]. inversion H; subst. cbn. f_equal. now apply IH.
Qed.

Lemma chunks_spec len : forall k tr cs, chunks len k tr = Some cs -> tr = concat cs /\ length cs = k.
Proof.
  induction k as [|k IH]; intros tr cs H; cbn [chunks] in H.
  - destruct tr; [|discriminate]. inversion H; subst. auto.
  - destruct (chunks len k (skipn len tr)) as [cs'|] eqn:C; [|discriminate]. inversion H; subst.
    destruct (IH _ _ C) as [E L]. split; [|cbn; now rewrite L]. cbn [concat]. rewrite <- E. symmetry. apply firstn_skipn.
Qed.

Lemma reps_concat (P : list ev -> Prop) cs : Forall P cs -> reps P (length cs) (concat cs).
Proof. induction 1 as [|c cs Hc _ IH]; cbn; auto. exists c, (concat cs). auto. Qed.

Theorem naccept_sound : forall n rs tr, wf rs -> naccept n rs tr = true -> ntr n rs tr.
Proof.
  induction n as [|n IH]; intros rs tr W H; [discriminate|]. cbn [naccept] in H. cbn [ntr].
  destruct (plan rs) as [b|e] eqn:P; [|discriminate]. apply andb_true_iff in H. destruct H as [H H3]. apply andb_true_iff in H. destruct H as [H1 H2].
  exists b. split; [reflexivity|]. split; [|split].
  - destruct W as [Wt ND]. apply accept_sound; auto. eapply placed_tags_nodup; eauto using regs_times_ok1.
    eapply NoDup_app_remove_r. apply (nd_level _ ND).
  - intros e He. rewrite forallb_forall in H2. apply memN_In. auto.
  - intros t nm deps cr cw tm cnt inner Hin. rewrite forallb_forall in H3. specialize (H3 _ Hin). cbn beta iota in H3.
    destruct (split_ev (EF t) tr) as [[pre rest]|] eqn:S1; [|discriminate].
    destruct (split_ev (ER t) rest) as [[mid post]|] eqn:S2; [|discriminate].
    apply andb_true_iff in H3. destruct H3 as [Out Ch].
    destruct (chunks (run_len inner) (N.to_nat cnt) (proj (tree_tags inner) mid)) as [cs|] eqn:C; [|discriminate].
    apply split_ev_spec in S1. apply split_ev_spec in S2. subst rest.
    exists pre, mid, post. split; [exact S1|]. split.
    + intros e He. rewrite forallb_forall in Out. specialize (Out e He). apply negb_true_iff in Out. now apply memN_false.
    + destruct (chunks_spec _ _ _ _ C) as [E L]. rewrite E, <- L. apply reps_concat. apply Forall_forall. intros c Hc.
      rewrite forallb_forall in Ch. apply IH; auto. eapply wf_inner; eauto.
Qed.

(* the chain for a recorded run: accepted => nested trace of the model => conflicting systems anywhere never overlap *)
Corollary naccepted_never_overlap n rs tr : wf rs -> naccept n rs tr = true ->
  forall ra rc a c, sub_reg ra rs -> sub_reg rc rs -> reg_tag ra = Some a -> reg_tag rc = Some c ->
  ~ In a (subtree_tags rc) -> ~ In c (subtree_tags ra) -> reg_conflict ra rc = true ->
  forall u1 u2 u3, tr = u1 ++ EF a :: u2 ++ EF c :: u3 -> In (ER a) u2.
Proof. intros W H. apply (nested_conflicting_never_overlap n rs tr (naccept_sound n rs tr W H) W). Qed.

Example naccept_example :
  let inner := [RSys 2 [] [] [] [8] 1%Z; RSys 3 [] [] [9] [] 1%Z] in
  let rs := [RBatch 1 [] [] [] [] 5%Z 2 inner; RSys 4 [] [] [] [7] 3%Z] in
  naccept 2 rs [EF 1; EF 4; EF 2; EF 3; ER 2; ER 3; ER 4; EF 3; ER 3; EF 2; ER 2; ER 1] = true /\
  naccept 2 rs [EF 1; EF 4; EF 2; EF 3; ER 2; ER 3; ER 4; EF 3; ER 3; EF 2; ER 1; ER 2] = false.
Proof. split; vm_compute; reflexivity. Qed.
