(* ExecOracles.v — every trace of the executor model passes the oracles of suite S2: an oracle can
   fire only on a recorded trace that is not a trace of the model (which the acceptor reports too). *)
From Shred Require Import Base SrcParams Plan PlanObs PlanLemmas PlanInv PlanLoc PlanBuild PlanProps BatchProps OracleProps Exec ExecProps ExecObs ExecPlan TraceOracles.
From Coq Require Import Permutation.
Open Scope N_scope.

(* ---------------- model traces are well formed ---------------- *)

Lemma group_trace_nodup g : NoDup g -> NoDup (group_trace g).
Proof.
  induction 1 as [|x g Hn ND IH]; [constructor|]. change (group_trace (x :: g)) with (EF x :: ER x :: group_trace g).
  constructor; [|constructor; auto].
  - intros [X|X]; [discriminate|]. apply group_trace_In in X. now apply Hn.
  - intros X. apply group_trace_In in X. now apply Hn.
Qed.

Lemma seq_staged_flat l : seq_staged l = group_trace (concat (concat l)).
Proof.
  unfold seq_staged. induction l as [|st l IH]; [reflexivity|]. cbn [map concat]. rewrite concat_app, group_trace_app, IH. f_equal.
  clear. induction st as [|g st IH]; [reflexivity|]. cbn [map concat]. now rewrite group_trace_app, IH.
Qed.

Lemma trace_nodup l tl t : NoDup (concat (concat l) ++ tl) -> traces_disp l tl t -> NoDup t.
Proof.
  intros ND Tr. eapply Permutation_NoDup; [symmetry; eapply trace_perm_seq; eauto|].
  unfold trace_seq. fold (seq_staged l). rewrite seq_staged_flat, <- group_trace_app. now apply group_trace_nodup.
Qed.

Lemma group_window g o : In o g -> precedes (EF o) (ER o) (group_trace g).
Proof.
  intros H. apply in_split in H. destruct H as (g1 & g2 & ->). rewrite group_trace_app.
  change (group_trace (o :: g2)) with (EF o :: ER o :: group_trace g2).
  exists (group_trace g1), [], (group_trace g2). reflexivity.
Qed.

Lemma staged_window l : forall t o, staged_traces l t -> In o (concat (concat l)) -> precedes (EF o) (ER o) t.
Proof.
  induction l as [|st l IH]; intros t o H Hin; [destruct Hin|].
  inversion H as [|? ? t1 t2 H1 H2]; subst. cbn [concat] in Hin. rewrite concat_app in Hin. apply in_app_or in Hin. destruct Hin as [Hin|Hin].
  - apply precedes_app_l. apply in_concat in Hin. destruct Hin as (g & Hg & Ho).
    eapply (shuffleN_precedes (map group_trace st) t1 (group_trace g)); eauto; [now apply in_map|now apply group_window].
  - apply precedes_app_r. now apply IH.
Qed.

(* every release is preceded by the fetch of the same system *)
Theorem trace_windows l tl t : traces_disp l tl t -> forall o, In (ER o) t -> precedes (EF o) (ER o) t.
Proof.
  intros (t1 & H & ->) o Hin. apply in_app_or in Hin. destruct Hin as [Hin|Hin].
  - apply precedes_app_l. apply (staged_window l t1 o H). now apply (staged_In l t1 (ER o) H).
  - apply precedes_app_r. apply group_window. now apply group_trace_In in Hin.
Qed.

(* ---------------- C01: the no-overlap oracle holds on every model trace ---------------- *)

(* the conflict relation on tags induced by the placed systems (thread-local systems: the model
   gives them no access; they run alone anyway) *)
Definition conflict_of (b : builder) (a c : N) : bool :=
  match find (fun s => s_tag s =? a) (placed b), find (fun s => s_tag s =? c) (placed b) with
  | Some sa, Some sc => sys_conflict sa sc
  | _, _ => false
  end.

Lemma find_tag b x : find (fun s => s_tag s =? x) (placed b) = None \/
  exists s, find (fun s => s_tag s =? x) (placed b) = Some s /\ In s (placed b) /\ s_tag s = x.
Proof.
  destruct (find _ (placed b)) as [s|] eqn:F; [right|now left]. apply find_some in F. destruct F as [F1 F2].
  apply N.eqb_eq in F2. eauto.
Qed.

Theorem no_overlap_on_model_traces rs b t :
  plan rs = Ok b -> Forall reg_time_ok1 rs -> NoDup (sys_tags rs ++ tl_tags rs) ->
  traces_disp (layout_tags b) (b_tl b) t -> o_no_overlap (conflict_of b) t = true.
Proof.
  intros H Ht ND Tr.
  assert (NDs : NoDup (sys_tags rs)) by (eapply NoDup_app_remove_r; eauto).
  apply o_no_overlap_intro.
  - apply (trace_nodup (layout_tags b) (b_tl b)); auto. rewrite (plan_tl_order rs b H).
    eapply Permutation_NoDup; [|exact ND]. apply Permutation_app_tail. symmetry. apply (plan_exec_perm rs b H Ht).
  - apply (trace_windows _ _ _ Tr).
  - intros a c Hc Hne _ _. unfold conflict_of in Hc.
    destruct (find_tag b a) as [Fa|(sa & Fa & Ia & Ta)]; rewrite Fa in Hc; [discriminate|].
    destruct (find_tag b c) as [Fc|(sc & Fc & Ic & Tc)]; rewrite Fc in Hc; [discriminate|].
    subst a c. apply (run_conflicting_windows_disjoint rs b t H Ht NDs Tr sa sc); auto.
Qed.

(* ---------------- C02 / C03: the predecessor oracle holds on every model trace ---------------- *)

Lemma index_of_sound t g i : index_of t g = Some i -> nth_error g i = Some t.
Proof.
  revert i. induction g as [|x g IH]; intros i H; [discriminate|]. cbn [index_of] in H.
  destruct (N.eqb_spec x t) as [->|_]; [inversion H; reflexivity|].
  destruct (index_of t g) as [j|]; [|discriminate]. inversion H; subst. cbn. now apply IH.
Qed.
Lemma pos_in_stage_sound t st g i : pos_in_stage t st = Some (g, i) -> exists grp, nth_error st g = Some grp /\ nth_error grp i = Some t.
Proof.
  revert g. induction st as [|x st IH]; intros g H; [discriminate|]. cbn [pos_in_stage] in H.
  destruct (index_of t x) as [j|] eqn:X.
  - inversion H; subst. exists x. split; auto. now apply index_of_sound.
  - destruct (pos_in_stage t st) as [[g' i']|]; [|discriminate]. cbn in H. inversion H; subst.
    destruct (IH g' eq_refl) as (grp & A & B). exists grp. auto.
Qed.
Lemma pos_of_sound t (l : layout) k g i : pos_of t l = Some (k, g, i) ->
  exists st grp, nth_error l k = Some st /\ nth_error st g = Some grp /\ nth_error grp i = Some t.
Proof.
  revert k. induction l as [|x l IH]; intros k H; [discriminate|]. cbn [pos_of] in H.
  destruct (pos_in_stage t x) as [[g' i']|] eqn:X.
  - inversion H; subst. destruct (pos_in_stage_sound _ _ _ _ X) as (grp & A & B). exists x, grp. auto.
  - destruct (pos_of t l) as [[[k' g'] i']|]; [|discriminate]. cbn in H. inversion H; subst.
    destruct (IH k' eq_refl) as (st & grp & A & B & C). exists st, grp. auto.
Qed.

Lemma nth_error_split2 {A} (l : list A) i j x y : (i < j)%nat -> nth_error l i = Some x -> nth_error l j = Some y ->
  exists l1 l2 l3, l = l1 ++ x :: l2 ++ y :: l3.
Proof.
  intros Hlt Hi Hj. apply nth_error_split in Hi. destruct Hi as (l1 & r & -> & L1).
  rewrite nth_error_app2 in Hj by lia. replace (j - length l1)%nat with (S (j - length l1 - 1)) in Hj by lia. cbn in Hj.
  apply nth_error_split in Hj. destruct Hj as (l2 & l3 & -> & _). exists l1, l2, l3. reflexivity.
Qed.

Lemma before_b_lay_before (l : layout) d s : before_b l d s = true -> lay_before l d s.
Proof.
  unfold before_b. destruct (pos_of d l) as [[[kd gd] id]|] eqn:Pd; [|discriminate].
  destruct (pos_of s l) as [[[ks gs] is_]|] eqn:Ps; [|discriminate].
  destruct (pos_of_sound _ _ _ _ _ Pd) as (sd & grpd & D1 & D2 & D3). destruct (pos_of_sound _ _ _ _ _ Ps) as (ss & grps & S1 & S2 & S3).
  intros H. apply orb_true_iff in H. destruct H as [H|H].
  - apply Nat.ltb_lt in H. left. exists kd, ks, sd, ss. repeat split; auto.
    + apply in_concat. exists grpd. split; eapply nth_error_In; eauto.
    + apply in_concat. exists grps. split; eapply nth_error_In; eauto.
  - apply andb_true_iff in H. destruct H as [H H3]. apply andb_true_iff in H. destruct H as [H1 H2].
    apply Nat.eqb_eq in H1, H2. apply Nat.ltb_lt in H3. subst ks gs. rewrite D1 in S1. inversion S1; subst ss.
    rewrite D2 in S2. inversion S2; subst grps. right.
    destruct (nth_error_split2 grpd id is_ d s H3 D3 S3) as (l1 & l2 & l3 & E).
    exists kd, sd, grpd, l1, l2, l3. repeat split; auto. eapply nth_error_In; eauto.
Qed.

(* what prebarrier_tags returns lies in front of a barrier that is in front of t *)
Lemma prebarrier_spec : forall rs acc cur t d, In d (prebarrier_tags acc cur rs t) ->
  In d acc \/ exists pre post, rs = pre ++ RBarrier :: post /\ (In d cur \/ In d (sys_tags pre)) /\ In t (sys_tags post).
Proof.
  induction rs as [|r rs IH]; intros acc cur t d H; [destruct H|].
  assert (SYS : forall t', reg_tag r = Some t' -> r <> RBarrier ->
            In d (if t' =? t then acc else prebarrier_tags acc (cur ++ [t']) rs t) ->
            In d acc \/ exists pre post, r :: rs = pre ++ RBarrier :: post /\ (In d cur \/ In d (sys_tags pre)) /\ In t (sys_tags post)).
  { intros t' Tr _ Hd. destruct (t' =? t); [now left|].
    destruct (IH _ _ _ _ Hd) as [A|(pre & post & -> & A & B)]; [now left|]. right. exists (r :: pre), post. split; [reflexivity|]. split; auto.
    cbn [sys_tags]. rewrite Tr. destruct A as [A|A]; [|right; now right].
    apply in_app_or in A. destruct A as [A|[<-|[]]]; [now left|right; now left]. }
  destruct r as [tag nm deps rd wr tm|tag nm deps cr cw tm cnt inner|tag|]; cbn [prebarrier_tags reg_tag] in H.
  - apply (SYS tag); auto; discriminate.
  - apply (SYS tag); auto; discriminate.
  - destruct (IH _ _ _ _ H) as [A|(pre & post & -> & A & B)]; [now left|]. right. exists (RTL tag :: pre), post. split; [reflexivity|]. split; auto.
  - destruct (IH _ _ _ _ H) as [A|(pre & post & -> & A & B)].
    + apply in_app_or in A. destruct A as [A|A]; [now left|].
      (* d registered since the previous barrier, t somewhere behind this barrier: need t in rs *)
      right. exists [], rs. split; [reflexivity|]. split; [now left|].
      (* prebarrier_tags returns something only if t is found *)
      clear - H. revert H. generalize (acc ++ cur) as a. generalize (@nil N) as c. induction rs as [|r rs IHr]; intros c a H; [destruct H|].
      destruct r as [tag nm deps rd wr tm|tag nm deps cr cw tm cnt inner|tag|]; cbn [prebarrier_tags reg_tag sys_tags] in *.
      * destruct (N.eqb_spec tag t) as [->|_]; [now left|right; eauto].
      * destruct (N.eqb_spec tag t) as [->|_]; [now left|right; eauto].
      * eauto.
      * eauto.
    + right. exists (RBarrier :: pre), post. split; [reflexivity|]. split; auto.
      destruct A as [[]|A]; right; exact A.
Qed.


(* run_barrier_separates, stated on tags *)
Lemma barrier_separates_tags pre post b t :
  plan (pre ++ RBarrier :: post) = Ok b -> Forall reg_time_ok1 (pre ++ RBarrier :: post) ->
  traces_disp (layout_tags b) (b_tl b) t ->
  forall t1 t2, In t1 (sys_tags pre) -> In t2 (sys_tags post) -> precedes (ER t1) (EF t2) t.
Proof.
  intros H Ht Tr t1 t2 A B. destruct (plan_barrier pre post b H Ht) as (d1 & d2 & Bk & I & H1 & H2 & Hlo & Hhi).
  rewrite <- H1 in A. rewrite <- H2 in B. apply in_map_iff in A. apply in_map_iff in B.
  destruct A as (e1 & <- & He1). destruct B as (e2 & <- & He2).
  pose proof (bi_entries _ _ I) as E. rewrite Forall_forall in E.
  rewrite <- (eo_tag _ _ (E e1 (in_or_app _ _ _ (or_introl He1)))), <- (eo_tag _ _ (E e2 (in_or_app _ _ _ (or_intror He2)))).
  assert (P : forall x, In x (d1 ++ d2) -> In (e_sys x) (placed b)).
  { intros x Hx. unfold placed. eapply Permutation_in; [symmetry; apply (bi_perm _ _ I)|]. unfold syss. now apply in_map. }
  assert (L : forall x, In x (d1 ++ d2) -> located (b_stages b) (s_id (e_sys x))).
  { intros x Hx. apply located_all_ids. rewrite (all_ids_members _ (bi_stages _ _ I)). apply in_map. now apply P. }
  destruct (L e1 (in_or_app _ _ _ (or_introl He1))) as (k1 & Hk1).
  destruct (L e2 (in_or_app _ _ _ (or_intror He2))) as (k2 & Hk2).
  pose proof (Hlo e1 k1 He1 Hk1). pose proof (Hhi e2 k2 He2 Hk2).
  eapply trace_before; eauto. eapply before_lay_before; eauto using in_or_app.
  left. exists k1, k2. repeat split; auto. lia.
Qed.

Theorem preds_done_on_model_traces rs b t :
  plan rs = Ok b -> Forall reg_time_ok1 rs -> NoDup (sys_tags rs ++ tl_tags rs) ->
  traces_disp (layout_tags b) (b_tl b) t -> o_preds_done (must_precede rs) t = true.
Proof.
  intros H Ht ND Tr.
  assert (NDs : NoDup (sys_tags rs)) by (eapply NoDup_app_remove_r; eauto).
  apply o_preds_done_intro.
  - apply (trace_nodup (layout_tags b) (b_tl b)); auto. rewrite (plan_tl_order rs b H).
    eapply Permutation_NoDup; [|exact ND]. apply Permutation_app_tail. symmetry. apply (plan_exec_perm rs b H Ht).
  - intros t0 d _ Hd. unfold must_precede in Hd. destruct (find_reg t0 rs) as [r|] eqn:F; [|destruct Hd].
    destruct (OracleProps.find_reg_some _ _ _ F) as [Ir Tr0]. apply in_app_or in Hd. destruct Hd as [Hd|Hd].
    + (* a dependency *)
      pose proof (OracleProps.o_deps_ordered_on_model rs b H Ht NDs) as O.
      pose proof (OracleProps.o_deps_ordered_meaning rs _ O r t0 d Ir Tr0 Hd) as B.
      eapply trace_before; eauto. now apply before_b_lay_before.
    + (* registered in front of a barrier that is in front of t0 *)
      destruct (prebarrier_spec _ _ _ _ _ Hd) as [[]|(pre & post & E & [[]|A] & B)]. subst rs.
      now apply (barrier_separates_tags pre post b t H Ht Tr).
Qed.

(* ---------------- C04: the exactly-once oracle, C12: the thread-locals-last oracle ---------------- *)

Lemma precedes_before_in x y t : precedes x y t -> before_in x y t = true.
Proof.
  intros (a & b & c & ->). induction a as [|e a IH]; cbn [app before_in].
  - assert (X : ev_eqb x x = true) by now apply ev_eqb_eq. rewrite X. apply existsb_exists. exists y. split; [|now apply ev_eqb_eq].
    apply in_or_app. right. now left.
  - destruct (ev_eqb e x) eqn:E; [|exact IH]. apply existsb_exists. exists y. split; [|now apply ev_eqb_eq].
    apply in_or_app. right. right. apply in_or_app. right. now left.
Qed.

Theorem once_on_model_traces rs b t :
  plan rs = Ok b -> Forall reg_time_ok1 rs -> NoDup (sys_tags rs ++ tl_tags rs) ->
  traces_disp (layout_tags b) (b_tl b) t -> o_once (sys_tags rs ++ tl_tags rs) t = true.
Proof.
  intros H Ht ND Tr. destruct (run_exactly_once rs b t H Ht ND Tr) as [C A].
  unfold o_once. apply andb_true_iff. split.
  - apply forallb_forall. intros x Hx. destruct (C x Hx) as [C1 C2]. rewrite C1, C2. cbn [Nat.eqb andb].
    apply precedes_before_in. apply (trace_windows _ _ _ Tr).
    (* ER x occurs: its count is 1 *)
    unfold count_ev in C2. destruct (filter (ev_eqb (ER x)) t) as [|e r] eqn:F; [discriminate|].
    assert (In e (filter (ev_eqb (ER x)) t)) by (rewrite F; now left). apply filter_In in H0. destruct H0 as [H0 H1].
    apply ev_eqb_eq in H1. now subst e.
  - apply forallb_forall. intros e He. apply memN_In. now apply A.
Qed.

Lemma list_eqb_ev_refl l : list_eqb ev_eqb l l = true.
Proof. induction l as [|e l IH]; cbn; auto. rewrite IH. assert (X : ev_eqb e e = true) by now apply ev_eqb_eq. now rewrite X. Qed.
Lemma group_trace_length g : length (group_trace g) = (2 * length g)%nat.
Proof. induction g as [|x g IH]; [reflexivity|]. change (group_trace (x :: g)) with (EF x :: ER x :: group_trace g). cbn [length]. rewrite IH. lia. Qed.

Theorem tl_last_on_model_traces rs b t :
  plan rs = Ok b -> Forall reg_time_ok1 rs -> NoDup (sys_tags rs ++ tl_tags rs) ->
  traces_disp (layout_tags b) (b_tl b) t -> o_tl_last (b_tl b) t = true.
Proof.
  intros H Ht ND Tr. destruct (trace_tl_last _ _ _ Tr) as (t1 & -> & A).
  unfold o_tl_last. rewrite app_length, group_trace_length.
  replace (length t1 + 2 * length (b_tl b) - 2 * length (b_tl b))%nat with (length t1) by lia.
  rewrite skipn_app, Nat.sub_diag, skipn_all. cbn [skipn app]. rewrite list_eqb_ev_refl. cbn [andb].
  rewrite firstn_app, Nat.sub_diag, firstn_all. cbn [firstn]. rewrite app_nil_r.
  apply forallb_forall. intros e He. apply negb_true_iff. apply memN_false. intros Htl.
  specialize (A e He). rewrite (plan_tl_order rs b H) in Htl.
  assert (In (ev_tag e) (sys_tags rs)).
  { apply (Permutation_in _ (plan_exec_perm rs b H Ht)). exact A. }
  clear - ND H0 Htl. induction (sys_tags rs) as [|x l IH]; [destruct H0|]. cbn in ND. inversion ND as [|? ? Hn ND']; subst.
  destruct H0 as [->|H0]; [apply Hn; apply in_or_app; now right|auto].
Qed.
