(* PlanRecProps.v — a rejected registration leaves no trace in the plan: the builder that was used on after caught
   panics holds the plan of the ACCEPTED registrations, with some SystemIds renamed (the ids the rejected calls took
   are never used).  Consequently every theorem about [plan] applies to such a builder through its observations
   (layout by tags, shape, thread-local list, max_threads). *)
From Shred Require Import Base SrcParams Plan PlanObs PlanLemmas PlanInv PlanLoc PlanBuild PlanProps BatchProps OracleProps PlanRec PlanRen.
From Coq Require Import Permutation.
Open Scope N_scope.

Definition mono (f : N -> N) : Prop := forall a b, a < b -> f a < f b.
Definition lin (f : N -> N) (n : N) : Prop := forall i, n <= i -> f i = f n + (i - n).

Lemma mono_inj f : mono f -> forall a b, f a = f b -> a = b.
Proof.
  intros M a b E. destruct (N.lt_trichotomy a b) as [H|[H|H]]; auto; apply M in H; lia.
Qed.

(* the builder that recovered (br) against the builder of the accepted registrations (b) *)
Record sim (f : N -> N) (br b : builder) : Prop := {
  sm_mono : mono f;
  sm_lin : lin f (b_next b);
  sm_next : f (b_next b) = b_next br;
  sm_names : b_names br = ren_names f (b_names b);
  sm_names_lt : Forall (fun p => snd p < b_next b) (b_names b);
  sm_barrier : b_barrier br = b_barrier b;
  sm_stages : b_stages br = ren_stages f (b_stages b);
  sm_tl : b_tl br = b_tl b
}.

Lemma sim_empty : sim (fun i => i) empty_builder empty_builder.
Proof.
  constructor; cbn; auto.
  - intros a b H. exact H.
  - intros i H. lia.
Qed.

Lemma sim_lookup f br b : sim f br b -> forall n, lookup_name n (b_names br) = option_map f (lookup_name n (b_names b)).
Proof. intros S n. rewrite (sm_names _ _ _ S). apply lookup_ren. Qed.

Lemma Forall_lt_mono (m : list (name * N)) a c : a <= c -> Forall (fun p => snd p < a) m -> Forall (fun p => snd p < c) m.
Proof. intros H F. eapply Forall_impl; [|exact F]. cbn. intros p Hp. lia. Qed.

Lemma resolve_sim f mr m deps :
  (forall n, lookup_name n mr = option_map f (lookup_name n m)) ->
  resolve_deps mr deps = rmap (map f) (resolve_deps m deps).
Proof.
  intros H. induction deps as [|d deps IH]; cbn [resolve_deps rmap map]; auto.
  rewrite H. destruct (lookup_name d m); cbn [option_map rmap]; auto.
  rewrite IH. destruct (resolve_deps m deps); reflexivity.
Qed.

(* ---- one add on both sides ---- *)
Lemma add_sim f br b tag nm deps rd wr t :
  sim f br b ->
  match add b tag nm deps rd wr t with
  | Ok b' => exists br', add br tag nm deps rd wr t = Ok br' /\ sim f br' b'
  | Err e => add br tag nm deps rd wr t = Err e
  end.
Proof.
  intros S. pose proof (mono_inj f (sm_mono _ _ _ S)) as Inj. unfold add.
  rewrite (resolve_sim f _ _ deps (sim_lookup _ _ _ S)).
  destruct (resolve_deps (b_names b) deps) as [ids|e]; cbn [rmap bind]; auto.
  rewrite (sm_barrier _ _ _ S), (sm_stages _ _ _ S), <- (sm_next _ _ _ S).
  change (mkSys tag (f (b_next b)) rd wr t (map f ids)) with (ren_sys f (mkSys tag (b_next b) rd wr t ids)).
  rewrite (sb_insert_ren f Inj).
  assert (Hsucc : f (N.succ (b_next b)) = N.succ (f (b_next b))).
  { rewrite (sm_lin _ _ _ S (N.succ (b_next b))) by lia. lia. }
  assert (Hlin : lin f (N.succ (b_next b))).
  { intros i Hi. rewrite (sm_lin _ _ _ S i) by lia. rewrite Hsucc. lia. }
  assert (Hlt : Forall (fun p => snd p < N.succ (b_next b)) (b_names b)).
  { apply (Forall_lt_mono _ (b_next b)); [lia|apply S]. }
  destruct (is_empty_name nm) eqn:En; cbn [bind].
  - destruct (sb_insert (b_barrier b) (b_stages b) (mkSys tag (b_next b) rd wr t ids)) as [st'|e]; cbn [rmap bind]; auto.
    eexists. split; [reflexivity|]. constructor; cbn [b_next b_names b_barrier b_stages b_tl]; auto; try apply S.
  - rewrite (sim_lookup _ _ _ S nm).
    destruct (lookup_name nm (b_names b)) eqn:L; cbn [option_map bind]; auto.
    destruct (sb_insert (b_barrier b) (b_stages b) (mkSys tag (b_next b) rd wr t ids)) as [st'|e]; cbn [rmap bind]; auto.
    eexists. split; [reflexivity|]. constructor; cbn [b_next b_names b_barrier b_stages b_tl]; auto; try apply S.
    + rewrite (sm_names _ _ _ S). unfold ren_names. rewrite map_app. reflexivity.
    + apply Forall_app. split; [exact Hlt|]. constructor; [cbn; lia|constructor].
Qed.

(* ---- ids in a reachable builder are below b_next: renamings that agree below b_next agree on it ---- *)
Lemma ren_sys_ext f g n s :
  (forall i, i < n -> f i = g i) -> s_id s < n -> Forall (fun d => d < n) (s_deps s) -> ren_sys f s = ren_sys g s.
Proof.
  intros E Hid Hd. unfold ren_sys. rewrite (E _ Hid). f_equal.
  induction Hd as [|d l Hdl _ IH]; cbn [map]; auto. now rewrite (E _ Hdl), IH.
Qed.

Lemma binv_member_lt b done s :
  binv b done -> In s (members (b_stages b)) -> s_id s < b_next b /\ Forall (fun d => d < b_next b) (s_deps s).
Proof.
  intros I Hs.
  assert (Hd : In s (syss done)) by (eapply Permutation_in; [apply (bi_perm _ _ I)|exact Hs]).
  unfold syss in Hd. apply in_map_iff in Hd. destruct Hd as (e & <- & He). split.
  - rewrite (bi_next _ _ I). apply (ids_lt done (bi_ids _ _ I)). unfold syss. rewrite map_map. apply in_map_iff. eauto.
  - pose proof (bi_entries _ _ I) as En. rewrite Forall_forall in En. specialize (En e He).
    pose proof (eo_deps _ _ En) as F2. clear - I F2.
    induction F2 as [|n d ns ds Hnd _ IH]; constructor; auto. eapply dep_resolved_lt; eauto.
Qed.

Lemma ren_stages_ext f g b done :
  binv b done -> (forall i, i < b_next b -> f i = g i) -> ren_stages f (b_stages b) = ren_stages g (b_stages b).
Proof.
  intros I E.
  assert (M : forall s, In s (members (b_stages b)) -> ren_sys f s = ren_sys g s).
  { intros s Hs. destruct (binv_member_lt b done s I Hs) as [H1 H2]. eapply ren_sys_ext; eauto. }
  pose proof (bi_stages _ _ I) as Hok. revert M Hok. generalize (b_stages b) as sts.
  induction sts as [|st sts IH]; intros M Hok; cbn [ren_stages map]; auto.
  inversion Hok as [|? ? Hst Hrest]; subst. f_equal.
  - (* one stage *)
    assert (Ms : forall s, In s (concat (map g_mem st)) -> ren_sys f s = ren_sys g s).
    { intros s Hs. apply M. rewrite members_cons. apply in_or_app. now left. }
    pose proof (sk_groups _ Hst) as Hg. clear - Ms Hg.
    induction st as [|gr st IHs]; cbn [ren_stage map]; auto.
    inversion Hg as [|? ? Hgr Hgs]; subst. f_equal.
    + unfold ren_group. rewrite (gk_ids _ Hgr), !map_map.
      assert (Mg : forall s, In s (g_mem gr) -> ren_sys f s = ren_sys g s).
      { intros s Hs. apply Ms. cbn [map concat]. apply in_or_app. now left. }
      f_equal.
      * apply map_ext_in. intros s Hs. specialize (Mg s Hs). unfold ren_sys in Mg. now inversion Mg.
      * apply map_ext_in. exact Mg.
    + apply IHs; auto. intros s Hs. apply Ms. cbn [map concat]. apply in_or_app. now right.
  - apply IH; auto. intros s Hs. apply M. rewrite members_cons. apply in_or_app. now right.
Qed.

(* ---- a rejected call: the real builder only takes an id ---- *)
Definition shift (f : N -> N) (n : N) : N -> N := fun i => if i <? n then f i else N.succ (f i).

Lemma bump_sim f br b done : binv b done -> sim f br b -> sim (shift f (b_next b)) (bump br) b.
Proof.
  intros I S. generalize (eq_refl (b_next b)). generalize (b_next b) at 1 3 as n. intros n En.
  assert (E : forall i, i < n -> shift f n i = f i).
  { intros i Hi. unfold shift. destruct (N.ltb_spec i n); auto. lia. }
  constructor; cbn [bump b_next b_names b_barrier b_stages b_tl]; try apply S.
  - intros a c Hac. unfold shift. pose proof (sm_mono _ _ _ S a c Hac).
    destruct (N.ltb_spec a n), (N.ltb_spec c n); lia.
  - intros i Hi. rewrite <- En in *. unfold shift. destruct (N.ltb_spec i n); [lia|]. destruct (N.ltb_spec n n); [lia|].
    pose proof (sm_lin _ _ _ S i) as L. rewrite <- En in L. rewrite L by lia. lia.
  - rewrite <- En. unfold shift. destruct (N.ltb_spec n n); [lia|]. pose proof (sm_next _ _ _ S) as X. rewrite <- En in X. now rewrite X.
  - rewrite (sm_names _ _ _ S). unfold ren_names. apply map_ext_in. intros [k v] Hin. cbn [fst snd]. f_equal.
    symmetry. apply E. rewrite En. pose proof (sm_names_lt _ _ _ S) as F. rewrite Forall_forall in F. apply (F _ Hin).
  - rewrite (sm_stages _ _ _ S). symmetry. eapply ren_stages_ext; eauto. intros i Hi. apply E. now rewrite En.
Qed.

Lemma all_reads_sim f br b : sim f br b -> all_reads br = all_reads b /\ all_writes br = all_writes b.
Proof.
  intros S. unfold all_reads, all_writes. rewrite (sm_stages _ _ _ S), reads_ren, writes_ren. auto.
Qed.

(* ---- the accepted sub-program ---- *)
Fixpoint names_fold (rs : list reg) (names : list name) : list name :=
  match rs with [] => names | r :: rs' => names_fold rs' (names_next names r) end.

Lemma accepted_batch tag nm deps cr cw t cnt inner :
  accepted_reg (RBatch tag nm deps cr cw t cnt inner) = RBatch tag nm deps cr cw t cnt (accepted_from inner []).
Proof. reflexivity. Qed.

Lemma rrun_batch tag nm deps cr cw t cnt inner b :
  rrun_reg (RBatch tag nm deps cr cw t cnt inner) b =
  let bi := rrun_regs inner empty_builder in
  add_or_bump b (add b tag nm deps (all_reads bi ++ cr) (all_writes bi ++ cw) t).
Proof. reflexivity. Qed.

Lemma names_agree_same names b b' : b_names b' = b_names b -> names_agree names b -> names_agree names b'.
Proof. intros E A n. rewrite E. apply A. Qed.

(* one registration that names a system (RSys, or RBatch once its inner level is done) *)
Lemma add_step f br b done names tag nm deps rd wr t :
  binv b done -> names_agree names b -> sim f br b -> time_ok t ->
  match check_call names nm deps with
  | None => exists b' f' done',
      add b tag nm deps rd wr t = Ok b' /\ sim f' (add_or_bump br (add br tag nm deps rd wr t)) b' /\
      binv b' done' /\ names_agree (if negb (is_empty_name nm) then names ++ [nm] else names) b' /\
      forall k, add_err k (add br tag nm deps rd wr t) = []
  | Some e => (exists f', sim f' (add_or_bump br (add br tag nm deps rd wr t)) b) /\
              forall k, add_err k (add br tag nm deps rd wr t) = [(k, e)]
  end.
Proof.
  intros I A S Ht.
  pose proof (add_spec names b done tag nm deps rd wr t I A Ht) as Sp.
  pose proof (add_sim f br b tag nm deps rd wr t S) as Sm.
  destruct (check_call names nm deps) as [e|].
  - rewrite Sp in Sm. rewrite Sm. cbn [add_or_bump add_err]. split; [|reflexivity]. eexists. eapply bump_sim; eauto.
  - destruct Sp as (b' & Hb' & A' & done' & I'). rewrite Hb' in Sm. destruct Sm as (br' & -> & S').
    cbn [add_or_bump add_err]. exists b', f, done'. auto.
Qed.

Lemma berrs_batch tag nm deps cr cw t cnt inner b k :
  berrs_reg (RBatch tag nm deps cr cw t cnt inner) b k =
  berrs_regs inner empty_builder k ++
  add_err (k + calls_regs inner)%nat
    (add b tag nm deps (all_reads (rrun_regs inner empty_builder) ++ cr) (all_writes (rrun_regs inner empty_builder) ++ cw) t).
Proof. reflexivity. Qed.

Lemma rerrs_batch tag nm deps cr cw t cnt inner names k :
  rerrs_reg (RBatch tag nm deps cr cw t cnt inner) names k =
  rerrs_regs inner [] k ++ match check_call names nm deps with Some e => [((k + calls_regs inner)%nat, e)] | None => [] end.
Proof. reflexivity. Qed.

Lemma run_rec_sim : forall n rs,
  (size_regs rs <= n)%nat -> regs_times_ok rs ->
  forall f br b done names, binv b done -> names_agree names b -> sim f br b ->
  exists b' f' done',
    run_regs (accepted_from rs names) b = Ok b' /\ sim f' (rrun_regs rs br) b' /\
    binv b' done' /\ names_agree (names_fold rs names) b' /\
    forall k, berrs_regs rs br k = rerrs_regs rs names k.
Proof.
  induction n as [|n IHn]; intros rs Hsz Ht f br b done names I A S.
  - destruct rs as [|r rs]; [cbn; eauto 10|]. exfalso. cbn in Hsz. destruct r; cbn in Hsz; lia.
  - destruct rs as [|r rs]; [cbn; eauto 10|].
    destruct Ht as [Hr Hrs]. cbn [size_regs] in Hsz.
    assert (Hsz_rs : (size_regs rs <= n)%nat) by (destruct r; cbn in Hsz; lia).
    cbn [accepted_from rrun_regs names_fold].
    (* the first registration *)
    assert (Hstep : exists b1 f1 done1,
              run_regs (if call_ok names r then [accepted_reg r] else []) b = Ok b1 /\
              sim f1 (rrun_reg r br) b1 /\ binv b1 done1 /\ names_agree (names_next names r) b1 /\
              forall k, berrs_reg r br k = rerrs_reg r names k).
    { destruct r as [tag nm deps rd wr t | tag nm deps cr cw t cnt inner | tag |].
      - cbn in Hr. pose proof (add_step f br b done names tag nm deps rd wr t I A S Hr) as St.
        unfold names_next, names_after, call_ok. cbn [rrun_reg berrs_reg rerrs_reg is_sys reg_tag reg_name].
        destruct (check_call names nm deps) as [e|].
        + destruct St as ((f' & S') & E). exists b, f', done. cbn [run_regs]. auto.
        + destruct St as (b' & f' & done' & Hb' & S' & I' & A' & E). exists b', f', done'.
          cbn [run_regs accepted_reg run_reg bind]. rewrite Hb'. cbn [bind andb]. auto.
      - destruct Hr as [Htime Hinner].
        change ((fix go (rs : list reg) : Prop := match rs with [] => True | r' :: rs' => reg_times_ok r' /\ go rs' end) inner)
          with (regs_times_ok inner) in Hinner.
        assert (Hin : (size_regs inner <= n)%nat).
        { cbn [size_reg] in Hsz. change ((fix go (rs : list reg) : nat := match rs with [] => O | r' :: rs' => (size_reg r' + go rs')%nat end) inner)
            with (size_regs inner) in Hsz. lia. }
        destruct (IHn inner Hin Hinner (fun i => i) empty_builder empty_builder [] [] binv_empty names_agree_empty sim_empty)
          as (bi & fi & donei & Hbi & Si & _ & _ & Ei).
        destruct (all_reads_sim _ _ _ Si) as [Er Ew].
        rewrite rrun_batch. cbn zeta.
        assert (EB : forall k, berrs_reg (RBatch tag nm deps cr cw t cnt inner) br k =
                               rerrs_regs inner [] k ++ add_err (k + calls_regs inner)%nat
                                 (add br tag nm deps (all_reads bi ++ cr) (all_writes bi ++ cw) t)).
        { intros k. rewrite berrs_batch, Ei, Er, Ew. reflexivity. }
        rewrite Er, Ew.
        pose proof (add_step f br b done names tag nm deps (all_reads bi ++ cr) (all_writes bi ++ cw) t I A S Htime) as St.
        unfold names_next, names_after, call_ok. cbn [is_sys reg_tag reg_name].
        destruct (check_call names nm deps) as [e|] eqn:CC.
        + destruct St as ((f' & S') & E). exists b, f', done. cbn [run_regs].
          split; [reflexivity|]. split; [exact S'|]. split; [exact I|]. split; [exact A|].
          intros k. rewrite EB, rerrs_batch, CC, E. reflexivity.
        + destruct St as (b' & f' & done' & Hb' & S' & I' & A' & E). exists b', f', done'.
          rewrite accepted_batch. cbn [run_regs]. rewrite run_reg_op. cbn [reg_op]. rewrite Hbi. cbn [bind run_op o_tag o_name o_deps o_reads o_writes o_time].
          rewrite Hb'. cbn [bind andb].
          split; [reflexivity|]. split; [exact S'|]. split; [exact I'|]. split; [exact A'|].
          intros k. rewrite EB, rerrs_batch, CC, E. reflexivity.
      - exists (add_thread_local b tag), f, done. cbn [call_ok accepted_reg run_regs run_reg bind rrun_reg].
        split; [reflexivity|]. split.
        + destruct S. constructor; cbn [add_thread_local b_next b_names b_barrier b_stages b_tl]; auto. congruence.
        + split.
          * destruct I; constructor; auto.
          * split; [|reflexivity]. unfold names_next, names_after. cbn [call_ok is_sys reg_tag andb]. exact A.
      - exists (add_barrier b), f.
        destruct (run_op_preserves b done OBar (add_barrier b) I Logic.I eq_refl) as (m & Im & _).
        exists (done ++ m). cbn [call_ok accepted_reg run_regs run_reg bind rrun_reg].
        split; [reflexivity|]. split.
        + destruct S. constructor; cbn [add_barrier b_next b_names b_barrier b_stages b_tl]; auto.
          rewrite sm_stages0. unfold ren_stages. now rewrite map_length.
        + split; [exact Im|]. split; [|reflexivity]. unfold names_next, names_after. cbn [call_ok is_sys reg_tag andb]. exact A. }
    destruct Hstep as (b1 & f1 & done1 & H1 & S1 & I1 & A1 & E1).
    destruct (IHn rs Hsz_rs Hrs f1 (rrun_reg r br) b1 done1 (names_next names r) I1 A1 S1) as (b' & f' & done' & H' & S' & I' & A' & E').
    exists b', f', done'. split.
    + destruct (call_ok names r); cbn [run_regs] in *.
      * destruct (run_reg (accepted_reg r) b) as [bx|]; cbn [bind] in *; [|discriminate]. inversion H1; subst. exact H'.
      * inversion H1; subst. exact H'.
    + split; [exact S'|]. split; [exact I'|]. split; [exact A'|]. intros k. cbn [berrs_regs rerrs_regs]. now rewrite E1, E'.
Qed.

(* THE THEOREM: the builder used on after caught panics plans exactly the accepted registrations *)
Theorem plan_rec_is_plan_of_accepted rs :
  regs_times_ok rs ->
  exists b, plan (accepted rs) = Ok b /\
            layout_tags (plan_rec rs) = layout_tags b /\ shape (plan_rec rs) = shape b /\
            b_tl (plan_rec rs) = b_tl b /\ max_threads (plan_rec rs) = max_threads b /\
            sendable (plan_rec rs) = sendable b.
Proof.
  intros Ht.
  destruct (run_rec_sim (size_regs rs) rs (le_n _) Ht (fun i => i) empty_builder empty_builder [] []
              binv_empty names_agree_empty sim_empty) as (b & f & done & Hb & S & _ & _ & _).
  exists b. split; [exact Hb|].
  unfold plan_rec, layout_tags, shape, max_threads, sendable.
  rewrite (sm_stages _ _ _ S), (sm_tl _ _ _ S), layout_tags_ren, shape_ren, lengths_ren. auto.
Qed.

(* every ill-formed call is rejected AT THE CALL, however many were caught before it: the calls at which the
   recovering builder raises an error, with those errors, are exactly the calls the name bookkeeping rejects *)
Theorem rec_errs_are_the_builders rs :
  regs_times_ok rs -> berrs_regs rs empty_builder O = rec_errs rs.
Proof.
  intros Ht.
  destruct (run_rec_sim (size_regs rs) rs (le_n _) Ht (fun i => i) empty_builder empty_builder [] []
              binv_empty names_agree_empty sim_empty) as (b & f & done & _ & _ & _ & _ & E).
  apply E.
Qed.

(* ---- C20 for a recovered builder: the printed text is the text of the accepted program's builder, except that
   the NUMBER inside the placeholder of an unnamed system is renamed by a strictly increasing function (the ids the
   rejected calls took are skipped); names, stages, groups and positions are the same ---- *)
Definition display_with (ph : N -> name) (m : list (name * N)) (id : N) : name :=
  match rev_lookup id m with Some n => sanitise n | None => ph id end.

Lemma print_builder_display b : print_builder b = render (map3 (display_with placeholder (b_names b)) (layout_ids b)).
Proof. reflexivity. Qed.

Lemma rev_lookup_ren f (Inj : forall a b, f a = f b -> a = b) id m :
  rev_lookup (f id) (ren_names f m) = rev_lookup id m.
Proof.
  induction m as [|[k v] m IH]; cbn [ren_names map rev_lookup fst snd]; auto.
  fold (ren_names f m). rewrite IH.
  destruct (N.eqb_spec v id) as [->|Hn]; [now rewrite N.eqb_refl|].
  destruct (N.eqb_spec (f v) (f id)) as [E|_]; [exfalso; apply Hn, Inj, E|reflexivity].
Qed.

Lemma layout_ids_sim f br b : sim f br b -> layout_ids br = map3 f (layout_ids b).
Proof.
  intros S. unfold layout_ids, map3. rewrite (sm_stages _ _ _ S). unfold ren_stages, ren_stage.
  rewrite !map_map. apply map_ext. intros st. rewrite !map_map. apply map_ext. intros g. reflexivity.
Qed.

Theorem print_rec_is_print_of_accepted rs :
  regs_times_ok rs ->
  exists b f, mono f /\ plan (accepted rs) = Ok b /\
    print_builder b = render (map3 (display_with placeholder (b_names b)) (layout_ids b)) /\
    print_builder (plan_rec rs) = render (map3 (display_with (fun id => placeholder (f id)) (b_names b)) (layout_ids b)).
Proof.
  intros Ht.
  destruct (run_rec_sim (size_regs rs) rs (le_n _) Ht (fun i => i) empty_builder empty_builder [] []
              binv_empty names_agree_empty sim_empty) as (b & f & done & Hb & S & _ & _ & _).
  exists b, f. split; [apply S|]. split; [exact Hb|]. split; [reflexivity|].
  unfold plan_rec. unfold print_builder. rewrite (layout_ids_sim _ _ _ S), (sm_names _ _ _ S).
  f_equal. unfold map3. rewrite !map_map. apply map_ext. intros st. rewrite !map_map. apply map_ext. intros g.
  rewrite !map_map. apply map_ext. intros id. unfold display, display_with.
  rewrite (rev_lookup_ren f (mono_inj f (sm_mono _ _ _ S))). reflexivity.
Qed.

(* ---- what the accepted sub-program inherits ---- *)
Lemma reg_tag_accepted r : reg_tag (accepted_reg r) = reg_tag r.
Proof. destruct r; reflexivity. Qed.

Lemma sys_tags_accepted_In : forall rs names t, In t (sys_tags (accepted_from rs names)) -> In t (sys_tags rs).
Proof.
  induction rs as [|r rs IH]; intros names t; cbn [accepted_from sys_tags]; auto.
  destruct (call_ok names r).
  - cbn [sys_tags]. rewrite reg_tag_accepted. destruct (reg_tag r); cbn [In]; intros H.
    + destruct H as [H|H]; eauto.
    + eauto.
  - intros H. apply IH in H. destruct (reg_tag r); cbn [In]; auto.
Qed.

Lemma sys_tags_accepted_nodup : forall rs names, NoDup (sys_tags rs) -> NoDup (sys_tags (accepted_from rs names)).
Proof.
  induction rs as [|r rs IH]; intros names ND; cbn [accepted_from sys_tags] in *; [constructor|].
  destruct (call_ok names r).
  - cbn [sys_tags]. rewrite reg_tag_accepted. destruct (reg_tag r) as [t|]; [|apply IH; exact ND].
    inversion ND as [|? ? Hn Hr]; subst. constructor; [|apply IH; exact Hr].
    intros H. apply Hn. eapply sys_tags_accepted_In; eauto.
  - apply IH. destruct (reg_tag r); [inversion ND; auto|exact ND].
Qed.

Lemma tl_tags_accepted : forall rs names, tl_tags (accepted_from rs names) = tl_tags rs.
Proof.
  induction rs as [|r rs IH]; intros names; cbn [accepted_from tl_tags]; auto.
  destruct r as [tag nm deps rd wr t | tag nm deps cr cw t cnt inner | tag |]; cbn [call_ok].
  - destruct (check_call names nm deps); cbn [tl_tags accepted_reg]; apply IH.
  - destruct (check_call names nm deps); cbn [tl_tags accepted_reg]; apply IH.
  - cbn [tl_tags accepted_reg]. now rewrite IH.
  - cbn [tl_tags accepted_reg]. apply IH.
Qed.

Lemma times_accepted : forall n rs names, (size_regs rs <= n)%nat -> regs_times_ok rs -> regs_times_ok (accepted_from rs names).
Proof.
  induction n as [|n IHn]; intros rs names Hsz Ht.
  - destruct rs as [|r rs]; [exact I|]. exfalso. cbn in Hsz. destruct r; cbn in Hsz; lia.
  - destruct rs as [|r rs]; [exact I|]. destruct Ht as [Hr Hrs]. cbn [size_regs] in Hsz.
    assert (Hsz_rs : (size_regs rs <= n)%nat) by (destruct r; cbn in Hsz; lia).
    cbn [accepted_from]. destruct (call_ok names r); [|apply IHn; auto].
    cbn [regs_times_ok]. split; [|apply IHn; auto].
    destruct r as [tag nm deps rd wr t | tag nm deps cr cw t cnt inner | tag |]; try exact Hr.
    rewrite accepted_batch. destruct Hr as [Htime Hinner]. split; [exact Htime|].
    change ((fix go (rs : list reg) : Prop := match rs with [] => True | r' :: rs' => reg_times_ok r' /\ go rs' end) inner)
      with (regs_times_ok inner) in Hinner.
    change ((fix go (rs : list reg) : Prop := match rs with [] => True | r' :: rs' => reg_times_ok r' /\ go rs' end) (accepted_from inner []))
      with (regs_times_ok (accepted_from inner [])).
    apply IHn; auto.
    cbn [size_reg] in Hsz. change ((fix go (rs : list reg) : nat := match rs with [] => O | r' :: rs' => (size_reg r' + go rs')%nat end) inner)
      with (size_regs inner) in Hsz. lia.
Qed.

(* every plan oracle the driver evaluates in recovery mode holds of the model, with the ACCEPTED registrations as the
   specification program *)
Theorem rec_oracles_on_model rs :
  regs_times_ok rs -> NoDup (sys_tags rs) ->
  let l := layout_tags (plan_rec rs) in
  let spec := accepted rs in
  o_exec_perm spec l = true /\ o_isolated spec l = true /\ o_deps_ordered spec l = true /\ o_barriers spec l = true /\
  o_max_threads l (max_threads (plan_rec rs)) = true /\ o_sendable spec (sendable (plan_rec rs)) = true /\
  b_tl (plan_rec rs) = tl_tags rs.
Proof.
  intros Ht ND l spec.
  destruct (plan_rec_is_plan_of_accepted rs Ht) as (b & Hb & El & _ & Etl & Emt & Esd).
  assert (Hts : regs_times_ok spec) by (apply (times_accepted (size_regs rs)); auto).
  pose proof (regs_times_ok1 _ Hts) as Ht1.
  assert (NDs : NoDup (sys_tags spec)) by (apply sys_tags_accepted_nodup; exact ND).
  subst l. rewrite El, Emt, Esd, Etl.
  repeat split.
  - now apply o_exec_perm_on_model.
  - now apply o_isolated_on_model.
  - now apply o_deps_ordered_on_model.
  - now apply o_barriers_on_model.
  - apply o_max_threads_on_model.
  - now apply o_sendable_on_model.
  - rewrite (plan_tl_order _ _ Hb). apply tl_tags_accepted.
Qed.

(* non-vacuity: a program with a duplicate name and an unknown dependency in the middle *)
Example rec_example :
  let rs := [RSys 1 [97] [] [] [5] 3%Z; RSys 2 [97] [] [] [6] 3%Z; RSys 3 [] [[120]] [] [7] 3%Z;
             RSys 4 [98] [[97]] [5] [] 3%Z] in
  accepted rs = [RSys 1 [97] [] [] [5] 3%Z; RSys 4 [98] [[97]] [5] [] 3%Z] /\
  layout_tags (plan_rec rs) = [[[1]]; [[4]]] /\ layout_ids (plan_rec rs) = [[[0]]; [[3]]] /\
  rec_errs rs = [(1%nat, EDup [97]); (2%nat, ENoSuch [120])].
Proof. vm_compute. repeat split. Qed.

Corollary rec_isolated rs : regs_times_ok rs -> NoDup (sys_tags rs) ->
  o_isolated (accepted rs) (layout_tags (plan_rec rs)) = true.
Proof. intros Ht ND. apply (rec_oracles_on_model rs Ht ND). Qed.
Corollary rec_deps_ordered rs : regs_times_ok rs -> NoDup (sys_tags rs) ->
  o_deps_ordered (accepted rs) (layout_tags (plan_rec rs)) = true.
Proof. intros Ht ND. apply (rec_oracles_on_model rs Ht ND). Qed.
