(* PlanRen.v — the planner never looks at a SystemId except to compare it with another one: renaming the ids of a
   builder by an injective function commutes with every step of the insertion. *)
From Shred Require Import Base SrcParams Plan PlanObs PlanLemmas.

Definition rmap {A B} (g : A -> B) (r : result A) : result B :=
  match r with Ok a => Ok (g a) | Err e => Err e end.

Section Ren.
  Variable f : N -> N.
  Hypothesis f_inj : forall a b, f a = f b -> a = b.

  Definition ren_sys (s : sys) : sys :=
    mkSys (s_tag s) (f (s_id s)) (s_reads s) (s_writes s) (s_time s) (map f (s_deps s)).
  Definition ren_group (g : group) : group :=
    mkGroup (map f (g_ids g)) (g_reads g) (g_writes g) (g_time g) (map ren_sys (g_mem g)).
  Definition ren_stage (st : stage) : stage := map ren_group st.
  Definition ren_stages (sts : list stage) : list stage := map ren_stage sts.
  Definition ren_names (m : list (name * N)) : list (name * N) := map (fun p => (fst p, f (snd p))) m.

  Lemma memN_map x l : memN (f x) (map f l) = memN x l.
  Proof.
    unfold memN. induction l as [|y l IH]; cbn [map existsb]; auto. rewrite IH. f_equal.
    destruct (N.eqb_spec x y) as [->|Hn]; [apply N.eqb_refl|].
    apply N.eqb_neq. intros E. apply Hn, f_inj, E.
  Qed.

  Lemma intersects_map i j : intersects (map f i) (map f j) = intersects i j.
  Proof.
    unfold intersects. induction i as [|x i IH]; cbn [map existsb]; auto. now rewrite memN_map, IH.
  Qed.

  Lemma flagged_ren r w dep g : flagged r w (map f dep) (ren_group g) = flagged r w dep g.
  Proof. unfold flagged. cbn [ren_group g_reads g_writes g_ids]. now rewrite intersects_map. Qed.

  Lemma fc_loop_ren st : forall i r w dep c depc,
    fc_loop (ren_stage st) i r w (map f dep) c depc = fc_loop st i r w dep c depc.
  Proof.
    induction st as [|g st IH]; intros i r w dep c depc; cbn [ren_stage map fc_loop]; auto.
    rewrite flagged_ren. destruct (flagged r w dep g) as [fl d]. apply IH.
  Qed.

  Lemma find_conflict_ren st r w dep : find_conflict (ren_stage st) r w (map f dep) = find_conflict st r w dep.
  Proof.
    unfold find_conflict. rewrite fc_loop_ren, map_length. destruct (fc_loop st 0 r w dep CNone false) as [c depc].
    destruct dep; reflexivity.
  Qed.

  Lemma stage_ids_ren st : stage_ids (ren_stage st) = map f (stage_ids st).
  Proof.
    unfold stage_ids, ren_stage. rewrite map_map. cbn [ren_group g_ids]. rewrite concat_map, map_map. reflexivity.
  Qed.

  Lemma remove_ids_ren st dep : remove_ids (ren_stage st) (map f dep) = map f (remove_ids st dep).
  Proof.
    unfold remove_ids. rewrite stage_ids_ren. induction dep as [|d dep IH]; cbn [map filter]; auto.
    rewrite memN_map. destruct (memN d (stage_ids st)); cbn [negb map]; now rewrite IH.
  Qed.

  Lemma map_g_time_ren st : map g_time (ren_stage st) = map g_time st.
  Proof. unfold ren_stage. rewrite map_map. reflexivity. Qed.

  Lemma stage_max_ren st : stage_max (ren_stage st) = stage_max st.
  Proof. unfold stage_max. rewrite map_g_time_ren. destruct st; reflexivity. Qed.

  Lemma nth_error_ren st i : nth_error (ren_stage st) i = option_map ren_group (nth_error st i).
  Proof. unfold ren_stage. apply nth_error_map. Qed.

  Lemma improves_balance_ren st g t : improves_balance (ren_stage st) g t = improves_balance st g t.
  Proof.
    unfold improves_balance. rewrite stage_max_ren, nth_error_ren.
    destruct (stage_max st); cbn [bind]; auto. destruct (nth_error st g); reflexivity.
  Qed.

  Lemma decide_ren st s dep : decide (ren_stage st) (ren_sys s) (map f dep) = decide st s dep.
  Proof.
    unfold decide. cbn [ren_sys s_reads s_writes s_time]. rewrite find_conflict_ren.
    destruct (find_conflict st (s_reads s) (s_writes s) dep); auto.
    rewrite nth_error_ren. destruct (nth_error st g) as [grp|]; cbn [option_map]; auto.
    cbn [ren_group g_mem]. rewrite map_length, improves_balance_ren. reflexivity.
  Qed.

  Lemma push_sys_ren s g : push_sys (ren_sys s) (ren_group g) = rmap ren_group (push_sys s g).
  Proof.
    unfold push_sys. cbn [ren_group ren_sys g_mem g_time g_ids g_reads g_writes s_time s_id s_reads s_writes].
    rewrite map_length. destruct (length (g_mem g) <? cap)%nat; cbn [rmap]; auto.
    destruct (u8_add (g_time g) (s_time s)); cbn [bind rmap]; auto.
    unfold ren_group. cbn [g_ids g_reads g_writes g_time g_mem]. now rewrite !map_app.
  Qed.

  Lemma push_sys_ren_empty s : push_sys (ren_sys s) empty_group = rmap ren_group (push_sys s empty_group).
  Proof. exact (push_sys_ren s empty_group). Qed.

  Lemma upd_group_ren s : forall st i,
    upd_group i (push_sys (ren_sys s)) (ren_stage st) = rmap ren_stage (upd_group i (push_sys s) st).
  Proof.
    induction st as [|g st IH]; intros i; [destruct i; reflexivity|].
    destruct i as [|i]; cbn [ren_stage map upd_group].
    - rewrite push_sys_ren. destruct (push_sys s g); reflexivity.
    - fold (ren_stage st). rewrite IH. destruct (upd_group i (push_sys s) st); reflexivity.
  Qed.

  Lemma place_ren : forall sts s dep,
    place (ren_stages sts) (ren_sys s) (map f dep) = rmap ren_stages (place sts s dep).
  Proof.
    induction sts as [|st rest IH]; intros s dep; cbn [ren_stages map place].
    - rewrite push_sys_ren_empty. destruct (push_sys s empty_group); reflexivity.
    - rewrite decide_ren. destruct (decide st s dep) as [d|]; cbn [bind rmap]; auto.
      destruct d as [|i|].
      + rewrite push_sys_ren_empty. destruct (push_sys s empty_group); cbn [bind rmap]; auto.
        unfold ren_stages, ren_stage. cbn [map]. now rewrite map_app.
      + rewrite upd_group_ren. destruct (upd_group i (push_sys s) st); reflexivity.
      + rewrite remove_ids_ren. fold (ren_stages rest). rewrite IH.
        destruct (place rest s (remove_ids st dep)); reflexivity.
  Qed.

  Lemma cross_off_ren pre : forall dep, cross_off (ren_stages pre) (map f dep) = map f (cross_off pre dep).
  Proof.
    unfold cross_off. induction pre as [|st pre IH]; intros dep; cbn [ren_stages map fold_left]; auto.
    rewrite remove_ids_ren. apply IH.
  Qed.

  Lemma sb_insert_ren bar sts s :
    sb_insert bar (ren_stages sts) (ren_sys s) = rmap ren_stages (sb_insert bar sts s).
  Proof.
    unfold sb_insert, ren_stages. rewrite firstn_map, skipn_map. fold (ren_stages (firstn bar sts)) (ren_stages (skipn bar sts)).
    cbn [ren_sys s_deps]. rewrite cross_off_ren, place_ren.
    destruct (place (skipn bar sts) s (cross_off (firstn bar sts) (s_deps s))); cbn [bind rmap]; auto.
    unfold ren_stages. now rewrite map_app.
  Qed.

  Lemma lookup_ren n m : lookup_name n (ren_names m) = option_map f (lookup_name n m).
  Proof.
    induction m as [|[k v] m IH]; cbn [ren_names map lookup_name fst snd]; auto.
    destruct (name_eqb n k); auto.
  Qed.

  Lemma resolve_ren m deps : resolve_deps (ren_names m) deps = rmap (map f) (resolve_deps m deps).
  Proof.
    induction deps as [|d deps IH]; cbn [resolve_deps rmap map]; auto.
    rewrite lookup_ren. destruct (lookup_name d m); cbn [option_map rmap]; auto.
    rewrite IH. destruct (resolve_deps m deps); reflexivity.
  Qed.

  (* what the observations see is untouched *)
  Lemma layout_tags_ren sts :
    map (fun st => map (fun g => map s_tag (g_mem g)) st) (ren_stages sts) =
    map (fun st => map (fun g => map s_tag (g_mem g)) st) sts.
  Proof.
    unfold ren_stages, ren_stage. rewrite map_map. apply map_ext. intros st. rewrite map_map. apply map_ext. intros g.
    cbn [ren_group g_mem]. rewrite map_map. reflexivity.
  Qed.
  Lemma shape_ren sts :
    map (fun st => map (fun g => length (g_mem g)) st) (ren_stages sts) =
    map (fun st => map (fun g => length (g_mem g)) st) sts.
  Proof.
    unfold ren_stages, ren_stage. rewrite map_map. apply map_ext. intros st. rewrite map_map. apply map_ext. intros g.
    cbn [ren_group g_mem]. now rewrite map_length.
  Qed.
  Lemma lengths_ren sts : map (@length group) (ren_stages sts) = map (@length group) sts.
  Proof. unfold ren_stages, ren_stage. rewrite map_map. apply map_ext. intros st. now rewrite map_length. Qed.
  Lemma concat_ren sts : concat (ren_stages sts) = map ren_group (concat sts).
  Proof. induction sts as [|st sts IH]; cbn [ren_stages map concat]; auto. fold (ren_stages sts). now rewrite IH, map_app. Qed.
  Lemma reads_ren sts : concat (map g_reads (concat (ren_stages sts))) = concat (map g_reads (concat sts)).
  Proof. rewrite concat_ren, map_map. reflexivity. Qed.
  Lemma writes_ren sts : concat (map g_writes (concat (ren_stages sts))) = concat (map g_writes (concat sts)).
  Proof. rewrite concat_ren, map_map. reflexivity. Qed.
End Ren.
