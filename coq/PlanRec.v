(* PlanRec.v — the builder after a rejected registration (C18, and with it C01-C04/C10/C20 for builders that
   were used on after a caught panic).  DispatcherBuilder::add takes the next SystemId FIRST, then resolves the
   dependencies (panic: no such system), then enters the name (panic: name in use), then inserts into the stages.
   A registration that panics therefore leaves exactly one trace: the id it took is never used.
   Models only; the theorems are in PlanRecProps.v. *)
From Shred Require Import Base SrcParams Plan PlanObs.

(* the builder after a panicking add / add_batch *)
Definition bump (b : builder) : builder :=
  mkB (N.succ (b_next b)) (b_names b) (b_barrier b) (b_stages b) (b_tl b).

Definition add_or_bump (b : builder) (r : result builder) : builder :=
  match r with Ok b' => b' | Err _ => bump b end.

(* a registration program run by a caller that catches the panic of every rejected call and goes on with the
   same builder *)
Fixpoint rrun_reg (r : reg) (b : builder) : builder :=
  match r with
  | RSys tag nm deps reads writes time => add_or_bump b (add b tag nm deps reads writes time)
  | RBatch tag nm deps cr cw time _ inner =>
      let bi := (fix run_list (rs : list reg) (bi : builder) {struct rs} : builder :=
                   match rs with
                   | [] => bi
                   | r' :: rs' => run_list rs' (rrun_reg r' bi)
                   end) inner empty_builder in
      add_or_bump b (add b tag nm deps (all_reads bi ++ cr) (all_writes bi ++ cw) time)
  | RTL tag => add_thread_local b tag
  | RBarrier => add_barrier b
  end.

Fixpoint rrun_regs (rs : list reg) (b : builder) : builder :=
  match rs with
  | [] => b
  | r :: rs' => rrun_regs rs' (rrun_reg r b)
  end.

Definition plan_rec (rs : list reg) : builder := rrun_regs rs empty_builder.

(* the rejected calls as the recovering run itself meets them: (index of the call, error the builder raised) *)
Definition add_err (k : nat) (r : result builder) : list (nat * err) :=
  match r with Ok _ => [] | Err e => [(k, e)] end.

Fixpoint berrs_reg (r : reg) (b : builder) (k : nat) : list (nat * err) :=
  match r with
  | RSys tag nm deps reads writes time => add_err k (add b tag nm deps reads writes time)
  | RBatch tag nm deps cr cw time _ inner =>
      (fix go (rs : list reg) (bi : builder) (k' : nat) {struct rs} : list (nat * err) :=
         match rs with
         | [] => []
         | r' :: rs' => berrs_reg r' bi k' ++ go rs' (rrun_reg r' bi) (k' + calls_reg r')%nat
         end) inner empty_builder k
      ++ (let bi := rrun_regs inner empty_builder in
          add_err (k + calls_regs inner)%nat (add b tag nm deps (all_reads bi ++ cr) (all_writes bi ++ cw) time))
  | _ => []
  end.
Fixpoint berrs_regs (rs : list reg) (b : builder) (k : nat) : list (nat * err) :=
  match rs with
  | [] => []
  | r :: rs' => berrs_reg r b k ++ berrs_regs rs' (rrun_reg r b) (k + calls_reg r)%nat
  end.

(* ---- the accepted registrations, by name bookkeeping only (no planner) ---- *)
Definition call_ok (names : list name) (r : reg) : bool :=
  match r with
  | RSys _ nm deps _ _ _ => match check_call names nm deps with None => true | Some _ => false end
  | RBatch _ nm deps _ _ _ _ _ => match check_call names nm deps with None => true | Some _ => false end
  | _ => true
  end.

(* the rejected calls, by name bookkeeping only: (index of the call, counting the calls of a batch's own level before
   the add_batch call itself; error) *)
Definition call_err (names : list name) (r : reg) : option err :=
  match r with
  | RSys _ nm deps _ _ _ => check_call names nm deps
  | RBatch _ nm deps _ _ _ _ _ => check_call names nm deps
  | _ => None
  end.
Definition names_next (names : list name) (r : reg) : list name :=
  if call_ok names r then names_after names r else names.

Fixpoint rerrs_reg (r : reg) (names : list name) (k : nat) : list (nat * err) :=
  match r with
  | RBatch _ nm deps _ _ _ _ inner =>
      (fix go (rs : list reg) (ni : list name) (k' : nat) {struct rs} : list (nat * err) :=
         match rs with
         | [] => []
         | r' :: rs' => rerrs_reg r' ni k' ++ go rs' (names_next ni r') (k' + calls_reg r')%nat
         end) inner [] k
      ++ match check_call names nm deps with Some e => [((k + calls_regs inner)%nat, e)] | None => [] end
  | RSys _ nm deps _ _ _ => match check_call names nm deps with Some e => [(k, e)] | None => [] end
  | _ => []
  end.
Fixpoint rerrs_regs (rs : list reg) (names : list name) (k : nat) : list (nat * err) :=
  match rs with
  | [] => []
  | r :: rs' => rerrs_reg r names k ++ rerrs_regs rs' (names_next names r) (k + calls_reg r)%nat
  end.
Definition rec_errs (rs : list reg) : list (nat * err) := rerrs_regs rs [] O.
Definition rec_calls (rs : list reg) : nat := calls_regs rs.

Fixpoint accepted_reg (r : reg) : reg :=
  match r with
  | RBatch tag nm deps cr cw t cnt inner =>
      RBatch tag nm deps cr cw t cnt
        ((fix go (rs : list reg) (names : list name) {struct rs} : list reg :=
            match rs with
            | [] => []
            | r' :: rs' => if call_ok names r' then accepted_reg r' :: go rs' (names_next names r')
                           else go rs' (names_next names r')
            end) inner [])
  | _ => r
  end.

Fixpoint accepted_from (rs : list reg) (names : list name) : list reg :=
  match rs with
  | [] => []
  | r :: rs' => if call_ok names r then accepted_reg r :: accepted_from rs' (names_next names r)
                else accepted_from rs' (names_next names r)
  end.

Definition accepted (rs : list reg) : list reg := accepted_from rs [].

(* the inner program, as written, of the batch with this tag (0 = the whole program) *)
Fixpoint find_inner (tag : N) (r : reg) : option (list reg) :=
  match r with
  | RBatch t _ _ _ _ _ _ inner =>
      if (t =? tag)%N then Some inner
      else (fix go (rs : list reg) : option (list reg) :=
              match rs with
              | [] => None
              | r' :: rs' => match find_inner tag r' with Some x => Some x | None => go rs' end
              end) inner
  | _ => None
  end.
Fixpoint find_inner_regs (tag : N) (rs : list reg) : option (list reg) :=
  match rs with
  | [] => None
  | r :: rs' => match find_inner tag r with Some x => Some x | None => find_inner_regs tag rs' end
  end.
Definition level_prog (rs : list reg) (tag : N) : list reg :=
  if (tag =? 0)%N then rs else match find_inner_regs tag rs with Some inner => inner | None => [] end.
