(* Base.v — shared definitions: result monad, membership, intersection.
   Models only; no proofs in this file. *)
From Coq Require Export List NArith ZArith Bool Arith Lia.
Export ListNotations.

(* Every place where the Rust code can panic is an explicit error. *)
Inductive err :=
| ENoSuch (name : list N)     (* builder.rs add: "No such system registered" *)
| EDup (name : list N)        (* builder.rs add: "Cannot insert multiple systems with the same name" *)
| ECapacity                   (* ArrayVec::push on a full group *)
| EOverflow                   (* u8 / i8 arithmetic overflow (debug build) *)
| EIndex                      (* slice index out of range *)
| EUnwrapNone                 (* Option::unwrap on None *)
| EUnreachable.               (* unreachable!() *)

Inductive result (A : Type) := Ok (a : A) | Err (e : err).
Arguments Ok {A} a.
Arguments Err {A} e.

Definition bind {A B} (r : result A) (f : A -> result B) : result B :=
  match r with Ok a => f a | Err e => Err e end.
Notation "x <- r ;; k" := (bind r (fun x => k)) (at level 61, r at next level, right associativity).

Definition is_ok {A} (r : result A) : bool := match r with Ok _ => true | Err _ => false end.

Definition memN (x : N) (l : list N) : bool := existsb (N.eqb x) l.

(* util.rs check_intersection *)
Definition intersects (i j : list N) : bool := existsb (fun x => memN x j) i.

Fixpoint list_eqb {A} (eqb : A -> A -> bool) (a b : list A) : bool :=
  match a, b with
  | [], [] => true
  | x :: a', y :: b' => eqb x y && list_eqb eqb a' b'
  | _, _ => false
  end.

Definition name := list N.            (* UTF-8 bytes of a system name *)
Definition name_eqb : name -> name -> bool := list_eqb N.eqb.
Definition is_empty_name (n : name) : bool := match n with [] => true | _ => false end.

Fixpoint sumZ (l : list Z) : Z := match l with [] => 0%Z | x :: r => (x + sumZ r)%Z end.
Fixpoint maxnat (l : list nat) : nat := match l with [] => O | x :: r => Nat.max x (maxnat r) end.
