(* ExecProps.v — theorems about every trace of the executor model (every interleaving the
   pool can produce, every pool size), and soundness of the acceptor. *)
From Shred Require Import Base SrcParams Plan PlanLemmas Exec.
From Coq Require Import Permutation.

(* ---------------- shuffles ---------------- *)

Lemma NoDup_app_remove_l {A} (a c : list A) : NoDup (a ++ c) -> NoDup c.
Proof. induction a as [|x a IH]; cbn; auto. intros H. inversion H; auto. Qed.
Lemma NoDup_app_remove_r {A} (a c : list A) : NoDup (a ++ c) -> NoDup a.
Proof.
  induction a as [|x a IH]; cbn; intros H; [constructor|]. inversion H; subst. constructor; auto.
  intros Hin. apply H2. apply in_or_app. now left.
Qed.

Lemma shuffle_perm a b c : Shuffle a b c -> Permutation c (a ++ b).
Proof.
  induction 1; cbn; auto.
  etransitivity; [apply perm_skip; exact IHShuffle|]. apply Permutation_middle.
Qed.

Lemma shuffleN_perm ls t : ShuffleN ls t -> Permutation t (concat ls).
Proof.
  induction 1; cbn; auto.
  etransitivity; [eapply shuffle_perm; eauto|]. now apply Permutation_app_head.
Qed.

Lemma shuffle_nil_l b : Shuffle [] b b.
Proof. induction b; constructor; auto. Qed.
Lemma shuffle_nil_r a : Shuffle a [] a.
Proof. induction a; constructor; auto. Qed.

(* the sequential order is one of the interleavings *)
Lemma shuffle_app a b : Shuffle a b (a ++ b).
Proof. induction a; cbn; [apply shuffle_nil_l|constructor; auto]. Qed.
Lemma shuffleN_concat ls : ShuffleN ls (concat ls).
Proof. induction ls; cbn; econstructor; eauto. apply shuffle_app. Qed.

Ltac solve_app := repeat (rewrite <- ?app_assoc; cbn [app]); reflexivity.

(* x occurs strictly before y *)
Definition precedes (x y : ev) (t : list ev) : Prop := exists t1 t2 t3, t = t1 ++ x :: t2 ++ y :: t3.

Lemma precedes_cons e x y t : precedes x y t -> precedes x y (e :: t).
Proof. intros (t1 & t2 & t3 & ->). exists (e :: t1), t2, t3. reflexivity. Qed.
Lemma precedes_here x y t : In y t -> precedes x y (x :: t).
Proof. intros H. apply in_split in H. destruct H as (t2 & t3 & ->). exists [], t2, t3. reflexivity. Qed.
Lemma precedes_app_l x y a b : precedes x y a -> precedes x y (a ++ b).
Proof. intros (t1 & t2 & t3 & ->). exists t1, t2, (t3 ++ b). solve_app. Qed.
Lemma precedes_app_r x y a b : precedes x y b -> precedes x y (a ++ b).
Proof. intros H. induction a; cbn; auto. now apply precedes_cons. Qed.
Lemma precedes_app_lr x y a b : In x a -> In y b -> precedes x y (a ++ b).
Proof.
  intros Hx Hy. apply in_split in Hx. destruct Hx as (a1 & a2 & ->). apply in_split in Hy. destruct Hy as (b1 & b2 & ->).
  exists a1, (a2 ++ b1), b2. solve_app.
Qed.
Lemma precedes_inv e x y t : precedes x y (e :: t) -> (e = x /\ In y t) \/ precedes x y t.
Proof.
  intros (t1 & t2 & t3 & H). destruct t1 as [|e' t1]; cbn in H; inversion H; subst.
  - left. split; auto. apply in_or_app. right. now left.
  - right. exists t1, t2, t3. reflexivity.
Qed.

(* interleaving keeps the order inside each component *)
Lemma shuffle_precedes a b c x y : Shuffle a b c -> (precedes x y a \/ precedes x y b) -> precedes x y c.
Proof.
  induction 1 as [|e a b c H IH|e a b c H IH]; intros [P|P].
  - destruct P as (t1 & t2 & t3 & E). destruct t1; discriminate.
  - destruct P as (t1 & t2 & t3 & E). destruct t1; discriminate.
  - apply precedes_inv in P. destruct P as [[-> Hy]|P].
    + apply precedes_here. eapply Permutation_in; [symmetry; eapply shuffle_perm; eauto|]. apply in_or_app. now left.
    + apply precedes_cons. auto.
  - apply precedes_cons. auto.
  - apply precedes_cons. auto.
  - apply precedes_inv in P. destruct P as [[-> Hy]|P].
    + apply precedes_here. eapply Permutation_in; [symmetry; eapply shuffle_perm; eauto|]. apply in_or_app. now right.
    + apply precedes_cons. auto.
Qed.

Lemma shuffleN_precedes ls t l x y : ShuffleN ls t -> In l ls -> precedes x y l -> precedes x y t.
Proof.
  induction 1 as [|l0 ls t t' HN IH HS]; intros Hin P; [destruct Hin|].
  destruct Hin as [->|Hin].
  - eapply shuffle_precedes; eauto.
  - eapply shuffle_precedes; eauto.
Qed.

(* ---------------- C04: every system has exactly one window per dispatch ---------------- *)

Definition seq_staged (l : lay) : list ev := concat (map (fun st => concat (map group_trace st)) l).

Lemma staged_perm l t : staged_traces l t -> Permutation t (seq_staged l).
Proof.
  induction 1 as [|st l t1 t2 H1 H2 IH]; cbn; auto.
  apply Permutation_app; auto. now apply shuffleN_perm.
Qed.

(* every trace is a rearrangement of the sequential trace: each registered system is fetched
   once and released once, nothing else happens *)
Theorem trace_perm_seq l tl t : traces_disp l tl t -> Permutation t (trace_seq l tl).
Proof.
  intros (t1 & H & ->). unfold trace_seq. apply Permutation_app_tail. now apply staged_perm.
Qed.

(* dispatch_seq is one of the traces of dispatch *)
Theorem trace_seq_is_trace l tl : traces_disp l tl (trace_seq l tl).
Proof.
  exists (seq_staged l). split; [|reflexivity].
  induction l as [|st l IH]; cbn; constructor; auto. apply shuffleN_concat.
Qed.

Lemma group_trace_In g e : In e (group_trace g) <-> In (ev_tag e) g.
Proof.
  unfold group_trace. induction g as [|t g IH]; cbn; [tauto|].
  rewrite <- IH. destruct e; cbn; split; intros H; intuition (try congruence); subst; auto.
Qed.

Lemma seq_staged_In l e : In e (seq_staged l) <-> In (ev_tag e) (concat (concat l)).
Proof.
  unfold seq_staged. induction l as [|st l IH]; cbn; [tauto|].
  rewrite concat_app, !in_app_iff, IH. apply or_iff_compat_r.
  induction st as [|g st IHs]; cbn; [tauto|]. rewrite !in_app_iff, IHs, group_trace_In. tauto.
Qed.

Lemma count_occ_perm (x : ev) a b : Permutation a b -> count_ev x a = count_ev x b.
Proof. unfold count_ev. induction 1; cbn; auto; repeat destruct (ev_eqb _ _); cbn; congruence. Qed.

Lemma ev_eqb_eq a b : ev_eqb a b = true <-> a = b.
Proof.
  destruct a, b; cbn; split; intros H; try discriminate; try (apply N.eqb_eq in H; congruence);
    inversion H; apply N.eqb_refl.
Qed.

(* ---------------- C02 / C03: what is placed in front runs in front ---------------- *)

(* d in an earlier stage than s, or in the same group in front of it *)
Definition lay_before (l : lay) (d s : N) : Prop :=
  (exists kd ks sd ss, (kd < ks)%nat /\ nth_error l kd = Some sd /\ nth_error l ks = Some ss /\
                       In d (concat sd) /\ In s (concat ss)) \/
  (exists k st g g1 g2 g3, nth_error l k = Some st /\ In g st /\ g = g1 ++ d :: g2 ++ s :: g3).

Lemma group_trace_app a b : group_trace (a ++ b) = group_trace a ++ group_trace b.
Proof. unfold group_trace. now rewrite map_app, concat_app. Qed.

Lemma group_precedes g g1 g2 g3 d s :
  g = g1 ++ d :: g2 ++ s :: g3 -> precedes (ER d) (EF s) (group_trace g).
Proof.
  intros ->. rewrite group_trace_app. apply precedes_app_r.
  change (d :: g2 ++ s :: g3) with ([d] ++ g2 ++ [s] ++ g3). rewrite !group_trace_app.
  exists [EF d], (group_trace g2), (ER s :: group_trace g3). reflexivity.
Qed.

Lemma stage_trace_In st t e : stage_traces st t -> (In e t <-> In (ev_tag e) (concat st)).
Proof.
  intros H. apply shuffleN_perm in H. split; intros Hin.
  - apply (Permutation_in _ H) in Hin. clear H. induction st as [|g st IH]; cbn in *; [destruct Hin|].
    apply in_app_or in Hin. apply in_or_app. destruct Hin as [Hin|Hin]; [left; now apply group_trace_In|right; auto].
  - apply (Permutation_in _ (Permutation_sym H)). clear H. induction st as [|g st IH]; cbn in *; [destruct Hin|].
    apply in_app_or in Hin. apply in_or_app. destruct Hin as [Hin|Hin]; [left; now apply group_trace_In|right; auto].
Qed.

Lemma staged_In l t e : staged_traces l t -> (In e t <-> In (ev_tag e) (concat (concat l))).
Proof. intros H. rewrite <- seq_staged_In. apply staged_perm in H. split; apply Permutation_in; auto. now symmetry. Qed.

Lemma staged_before l : forall t d s, staged_traces l t -> lay_before l d s -> precedes (ER d) (EF s) t.
Proof.
  induction l as [|st l IH]; intros t d s H B.
  - destruct B as [(kd & ks & sd & ss & _ & Hd & _)|(k & st & g & g1 & g2 & g3 & Hk & _)]; destruct kd + destruct k; discriminate.
  - inversion H as [|? ? t1 t2 H1 H2]; subst.
    destruct B as [(kd & ks & sd & ss & Hlt & Hd & Hs & Id & Is)|(k & st0 & g & g1 & g2 & g3 & Hk & Hg & E)].
    + destruct kd as [|kd].
      * destruct ks as [|ks]; [lia|]. cbn in Hd, Hs. inversion Hd; subst sd.
        apply precedes_app_lr.
        -- apply (stage_trace_In st t1 (ER d) H1). exact Id.
        -- apply (staged_In l t2 (EF s) H2). cbn [ev_tag]. apply in_concat in Is. destruct Is as (g & Hg & Is).
           apply in_concat. exists g. split; auto. apply in_concat. exists ss. split; auto.
           eapply nth_error_In; eauto.
      * destruct ks as [|ks]; [lia|]. apply precedes_app_r. apply IH; auto.
        left. exists kd, ks, sd, ss. repeat split; auto. lia.
    + destruct k as [|k]; cbn in Hk.
      * inversion Hk; subst st0. apply precedes_app_l.
        eapply (shuffleN_precedes (map group_trace st) t1 (group_trace g)); eauto.
        -- now apply in_map.
        -- eapply group_precedes; eauto.
      * apply precedes_app_r. apply IH; auto. right. exists k, st0, g, g1, g2, g3. auto.
Qed.

(* in EVERY trace of a dispatch, a system placed in front of another one has released its
   data before the other one begins to fetch *)
Theorem trace_before l tl t d s :
  traces_disp l tl t -> lay_before l d s -> precedes (ER d) (EF s) t.
Proof. intros (t1 & H & ->) B. apply precedes_app_l. eapply staged_before; eauto. Qed.

(* ---------------- C12: thread-local systems after everything else, in order ---------------- *)

Theorem trace_tl_last l tl t :
  traces_disp l tl t ->
  exists t1, t = t1 ++ group_trace tl /\ forall e, In e t1 -> In (ev_tag e) (concat (concat l)).
Proof. intros (t1 & H & ->). exists t1. split; auto. intros e He. now apply (staged_In l t1 e H). Qed.

Theorem trace_tl_order l tl t a b tl1 tl2 tl3 :
  traces_disp l tl t -> tl = tl1 ++ a :: tl2 ++ b :: tl3 -> precedes (ER a) (EF b) t.
Proof. intros (t1 & H & ->) E. apply precedes_app_r. eapply group_precedes; eauto. Qed.

Theorem trace_staged_before_tl l tl t s a :
  traces_disp l tl t -> In s (concat (concat l)) -> In a tl -> precedes (ER s) (EF a) t.
Proof.
  intros (t1 & H & ->) Hs Ha. apply precedes_app_lr.
  - apply (staged_In l t1 (ER s) H). exact Hs.
  - apply group_trace_In. exact Ha.
Qed.

Theorem tl_on_caller l tl t : traces_disp_thr l tl t ->
  forall e th, In (e, th) t -> In (ev_tag e) tl -> ~ In (ev_tag e) (concat (concat l)) -> th = Caller.
Proof.
  intros (t1 & H & ->) e th Hin _ Hn. apply in_app_or in Hin. destruct Hin as [Hin|Hin].
  - apply in_map_iff in Hin. destruct Hin as (e' & E & He'). inversion E; subst.
    exfalso. apply Hn. now apply (staged_In l t1 e H).
  - apply in_map_iff in Hin. destruct Hin as (e' & E & _). now inversion E.
Qed.

Theorem thr_erase l tl t : traces_disp_thr l tl t -> traces_disp l tl (map fst t).
Proof.
  intros (t1 & H & ->). exists t1. split; auto. rewrite map_app, !map_map. cbn. now rewrite !map_id.
Qed.

(* ---------------- C01: windows that can overlap belong to side-by-side systems ---------------- *)

Definition side_by_side (l : lay) (a c : N) : Prop :=
  exists k st i j g1 g2, nth_error l k = Some st /\ nth_error st i = Some g1 /\ nth_error st j = Some g2 /\
                         i <> j /\ In a g1 /\ In c g2.

Lemma in_split_two (g : list N) a c : NoDup g -> In a g -> In c g -> a <> c ->
  (exists g1 g2 g3, g = g1 ++ a :: g2 ++ c :: g3) \/ (exists g1 g2 g3, g = g1 ++ c :: g2 ++ a :: g3).
Proof.
  intros ND Ha Hc Hne. apply in_split in Ha. destruct Ha as (l1 & l2 & ->).
  apply in_app_or in Hc. destruct Hc as [Hc|[Hc|Hc]]; [|congruence|].
  - right. apply in_split in Hc. destruct Hc as (m1 & m2 & ->). exists m1, m2, l2. now rewrite <- app_assoc.
  - left. apply in_split in Hc. destruct Hc as (m1 & m2 & ->). exists l1, m1, m2. reflexivity.
Qed.

(* two placed systems are side by side, or one of them runs completely before the other *)
Lemma placed_cases (l : lay) a c :
  NoDup (concat (concat l)) -> In a (concat (concat l)) -> In c (concat (concat l)) -> a <> c ->
  side_by_side l a c \/ lay_before l a c \/ lay_before l c a.
Proof.
  intros ND Ha Hc Hne.
  apply in_concat in Ha. destruct Ha as (ga & Hga & Ha). apply in_concat in Hga. destruct Hga as (sa & Hsa & Hga).
  apply in_concat in Hc. destruct Hc as (gc & Hgc & Hc). apply in_concat in Hgc. destruct Hgc as (sc & Hsc & Hgc).
  apply In_nth_error in Hsa. destruct Hsa as (ka & Hka). apply In_nth_error in Hsc. destruct Hsc as (kc & Hkc).
  assert (Ias : In a (concat sa)) by (apply in_concat; eauto).
  assert (Ics : In c (concat sc)) by (apply in_concat; eauto).
  destruct (Nat.lt_trichotomy ka kc) as [Hlt|[Heq|Hgt]].
  - right. left. left. exists ka, kc, sa, sc. auto.
  - subst kc. assert (sc = sa) by congruence. subst sc.
    apply In_nth_error in Hga. destruct Hga as (i & Hi). apply In_nth_error in Hgc. destruct Hgc as (j & Hj).
    destruct (Nat.eq_dec i j) as [->|Hij].
    + assert (gc = ga) by congruence. subst gc.
      assert (NDg : NoDup ga).
      { clear - ND Hka Hi. apply nth_error_In in Hka. apply nth_error_In in Hi.
        apply in_split in Hka. destruct Hka as (l1 & l2 & ->). rewrite concat_app, concat_app in ND. cbn in ND.
        rewrite concat_app in ND.
        apply NoDup_app_remove_l in ND. apply NoDup_app_remove_r in ND.
        apply in_split in Hi. destruct Hi as (s1 & s2 & ->). rewrite concat_app in ND. cbn in ND.
        apply NoDup_app_remove_l in ND. now apply NoDup_app_remove_r in ND. }
      destruct (in_split_two ga a c NDg Ha Hc Hne) as [(g1 & g2 & g3 & E)|(g1 & g2 & g3 & E)].
      * right. left. right. exists ka, sa, ga, g1, g2, g3. repeat split; auto. eapply nth_error_In; eauto.
      * right. right. right. exists ka, sa, ga, g1, g2, g3. repeat split; auto. eapply nth_error_In; eauto.
    + left. exists ka, sa, i, j, ga, gc. repeat split; auto.
  - right. right. left. exists kc, ka, sc, sa. auto.
Qed.

(* the window of a system: from EF to ER.  Two windows are disjoint when one ends before the
   other begins.  In EVERY trace, the windows of two systems that are not side by side are
   disjoint — so only systems the planner put side by side can ever overlap. *)
Theorem windows_disjoint_unless_side_by_side l tl t a c :
  traces_disp l tl t -> NoDup (concat (concat l)) ->
  In a (concat (concat l)) -> In c (concat (concat l)) -> a <> c ->
  side_by_side l a c \/ precedes (ER a) (EF c) t \/ precedes (ER c) (EF a) t.
Proof.
  intros H ND Ha Hc Hne.
  destruct (placed_cases l a c ND Ha Hc Hne) as [S|[B|B]]; auto.
  - right. left. eapply trace_before; eauto.
  - right. right. eapply trace_before; eauto.
Qed.

(* ---------------- the acceptor is sound ---------------- *)

Lemma shuffle_filter (p : ev -> bool) l : Shuffle (filter p l) (filter (fun e => negb (p e)) l) l.
Proof. induction l as [|e l IH]; cbn; [constructor|]. destruct (p e); cbn; constructor; auto. Qed.

Lemma filter_filter_disj (p q : ev -> bool) l :
  (forall e, In e l -> p e = true -> q e = true) -> filter p (filter q l) = filter p l.
Proof.
  induction l as [|e l IH]; intros H; cbn; auto.
  destruct (q e) eqn:Q; cbn.
  - rewrite IH; auto. intros e' He'. apply H. now right.
  - destruct (p e) eqn:P.
    + rewrite (H e (or_introl eq_refl) P) in Q. discriminate.
    + apply IH. intros e' He'. apply H. now right.
Qed.

Lemma list_eqb_ev a : forall b, list_eqb ev_eqb a b = true -> a = b.
Proof.
  induction a as [|x a IH]; destruct b as [|y b]; cbn; intros H; try discriminate; auto.
  apply andb_true_iff in H. destruct H as [H1 H2]. apply ev_eqb_eq in H1. f_equal; auto.
Qed.

(* a segment whose projection onto every group is that group's trace, and which contains
   nothing else, is an interleaving of the group traces *)
Lemma proj_shuffleN : forall (st : list (list N)) seg,
  NoDup (concat st) ->
  (forall g, In g st -> proj g seg = group_trace g) ->
  (forall e, In e seg -> In (ev_tag e) (concat st)) ->
  ShuffleN (map group_trace st) seg.
Proof.
  induction st as [|g st IH]; intros seg ND Hp Hall.
  - destruct seg as [|e seg]; [constructor|]. exfalso. apply (Hall e). now left.
  - cbn [map]. cbn [concat] in ND.
    set (rest := filter (fun e => negb (memN (ev_tag e) g)) seg).
    apply (SN_cons (group_trace g) (map group_trace st) rest seg).
    + apply IH.
      * eapply NoDup_app_remove_l; eauto.
      * intros g' Hg'. rewrite <- (Hp g' (or_intror Hg')). unfold proj, rest.
        apply filter_filter_disj. intros e He Hm. apply negb_true_iff. apply not_true_is_false. intros Hg.
        apply memN_In in Hm. apply memN_In in Hg.
        (* the tag would be in g and in g': impossible *)
        clear - ND Hm Hg Hg'. induction g as [|x g IHg]; [destruct Hg|]. cbn in ND. inversion ND; subst.
        destruct Hg as [->|Hg]; auto. apply H1. apply in_or_app. right. apply in_concat. eauto.
      * intros e He. unfold rest in He. apply filter_In in He. destruct He as [He Hn].
        specialize (Hall e He). cbn in Hall. apply in_app_or in Hall. destruct Hall as [Hall|Hall]; auto.
        apply negb_true_iff in Hn. apply memN_In in Hall. congruence.
    + rewrite <- (Hp g (or_introl eq_refl)). unfold proj, rest. apply shuffle_filter.
Qed.

Lemma accept_stage_sound st seg : NoDup (concat st) -> accept_stage st seg = true -> stage_traces st seg.
Proof.
  intros ND H. unfold accept_stage in H. apply andb_true_iff in H. destruct H as [H1 H2].
  rewrite forallb_forall in H1, H2. apply proj_shuffleN; auto.
  - intros g Hg. apply list_eqb_ev. now apply H1.
  - intros e He. apply memN_In. now apply H2.
Qed.

Lemma NoDup_concat_tail {A} (x : list A) l : NoDup (concat (x :: l)) -> NoDup x /\ NoDup (concat l).
Proof. cbn. intros H. split; [eapply NoDup_app_remove_r|eapply NoDup_app_remove_l]; eauto. Qed.

Lemma accept_staged_sound : forall l tr rest,
  NoDup (concat (concat l)) -> accept_staged l tr = Some rest ->
  exists t1, staged_traces l t1 /\ tr = t1 ++ rest.
Proof.
  induction l as [|st l IH]; intros tr rest ND H; cbn [accept_staged] in H.
  - inversion H; subst. exists []. split; [constructor|reflexivity].
  - cbn [map concat] in ND. rewrite concat_app in ND.
    destruct (accept_stage st (firstn (2 * length (concat st)) tr)) eqn:A; [|discriminate].
    destruct (IH _ _ (NoDup_app_remove_l _ _ ND) H) as (t2 & H2 & E).
    exists (firstn (2 * length (concat st)) tr ++ t2). split.
    + constructor; auto. apply accept_stage_sound; auto. eapply NoDup_app_remove_r; eauto.
    + rewrite <- app_assoc, <- E. symmetry. apply firstn_skipn.
Qed.

(* every trace the acceptor accepts is a trace of the model: the theorems above apply to every
   recorded real trace that suite S2 accepts *)
Theorem accept_sound l tl tr :
  NoDup (concat (concat l)) -> accept_disp l tl tr = true -> traces_disp l tl tr.
Proof.
  intros ND H. unfold accept_disp in H. destruct (accept_staged l tr) as [rest|] eqn:A; [|discriminate].
  apply list_eqb_ev in H. subst rest.
  destruct (accept_staged_sound l tr _ ND A) as (t1 & H1 & ->). exists t1. auto.
Qed.
