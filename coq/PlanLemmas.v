(* PlanLemmas.v — basic facts about the planner model: membership, intersection, the
   conflict classification of find_conflict. *)
From Shred Require Import Base SrcParams Plan.
From Coq Require Import Permutation.

Lemma memN_In x l : memN x l = true <-> In x l.
Proof.
  unfold memN. rewrite existsb_exists. split.
  - intros (y & Hy & E). apply N.eqb_eq in E. subst; auto.
  - intros H. exists x. split; auto. apply N.eqb_refl.
Qed.

Lemma memN_false x l : memN x l = false <-> ~ In x l.
Proof.
  destruct (memN x l) eqn:E.
  - apply memN_In in E. split; [discriminate|tauto].
  - split; auto. intros _ H. apply memN_In in H. congruence.
Qed.

Lemma intersects_spec i j : intersects i j = true <-> exists x, In x i /\ In x j.
Proof.
  unfold intersects. rewrite existsb_exists. split.
  - intros (x & Hx & M). exists x. split; auto. now apply memN_In.
  - intros (x & Hi & Hj). exists x. split; auto. now apply memN_In.
Qed.

Lemma intersects_false i j : intersects i j = false <-> forall x, In x i -> In x j -> False.
Proof.
  split.
  - intros H x Hi Hj. assert (intersects i j = true) by (apply intersects_spec; eauto). congruence.
  - intros H. destruct (intersects i j) eqn:E; auto.
    apply intersects_spec in E. destruct E as (x & Hi & Hj). exfalso; eauto.
Qed.

Lemma intersects_nil_l j : intersects [] j = false.
Proof. reflexivity. Qed.

Lemma intersects_sym i j : intersects i j = intersects j i.
Proof.
  apply eq_true_iff_eq. rewrite !intersects_spec. split; intros (x & A & B); eauto.
Qed.

Lemma intersects_app_r i j k : intersects i (j ++ k) = intersects i j || intersects i k.
Proof.
  apply eq_true_iff_eq. rewrite orb_true_iff, !intersects_spec. split.
  - intros (x & A & B). apply in_app_or in B. destruct B; [left|right]; eauto.
  - intros [(x & A & B)|(x & A & B)]; exists x; split; auto; apply in_or_app; auto.
Qed.

Lemma intersects_app_l i j k : intersects (i ++ j) k = intersects i k || intersects j k.
Proof. rewrite intersects_sym, intersects_app_r. f_equal; apply intersects_sym. Qed.

(* only membership matters: invariance under list equivalence *)
Definition same_set (a b : list N) : Prop := forall x, In x a <-> In x b.

Lemma intersects_same_set i i' j j' :
  same_set i i' -> same_set j j' -> intersects i j = intersects i' j'.
Proof.
  intros Hi Hj. apply eq_true_iff_eq. rewrite !intersects_spec.
  split; intros (x & A & B); exists x; split; try (apply Hi; auto); try (apply Hj; auto).
Qed.

Lemma rw_conflict_sym r1 w1 r2 w2 : rw_conflict r1 w1 r2 w2 = rw_conflict r2 w2 r1 w1.
Proof.
  unfold rw_conflict.
  apply eq_true_iff_eq. rewrite !orb_true_iff, !intersects_spec.
  split; intros [(x & A & B)|(x & A & B)].
  - apply in_app_or in B. destruct B as [B|B].
    + left. exists x. split; auto. apply in_or_app; auto.
    + right. exists x. auto.
  - left. exists x. split; auto. apply in_or_app; auto.
  - apply in_app_or in B. destruct B as [B|B].
    + left. exists x. split; auto. apply in_or_app; auto.
    + right. exists x; auto.
  - left. exists x. split; auto. apply in_or_app; auto.
Qed.

(* the usual reading: W/W, W/R or R/W overlap *)
Lemma rw_conflict_spec r1 w1 r2 w2 :
  rw_conflict r1 w1 r2 w2 = true <->
  (exists x, In x w1 /\ In x w2) \/ (exists x, In x w1 /\ In x r2) \/ (exists x, In x r1 /\ In x w2).
Proof.
  unfold rw_conflict. rewrite orb_true_iff, intersects_app_r, orb_true_iff, !intersects_spec. tauto.
Qed.

Lemma rw_conflict_false r1 w1 r2 w2 :
  rw_conflict r1 w1 r2 w2 = false <->
  (forall x, In x w1 -> In x w2 -> False) /\ (forall x, In x w1 -> In x r2 -> False) /\
  (forall x, In x r1 -> In x w2 -> False).
Proof.
  unfold rw_conflict. rewrite orb_false_iff, intersects_app_r, orb_false_iff, !intersects_false. tauto.
Qed.

(* conflict against an accumulated group = conflict against one of the parts *)
Lemma rw_conflict_app_r r w r1 w1 r2 w2 :
  rw_conflict r w (r1 ++ r2) (w1 ++ w2) = rw_conflict r w r1 w1 || rw_conflict r w r2 w2.
Proof.
  apply eq_true_iff_eq. rewrite orb_true_iff, !rw_conflict_spec.
  split.
  - intros [(x & A & B)|[(x & A & B)|(x & A & B)]]; apply in_app_or in B; destruct B; eauto 8.
  - intros [[(x & A & B)|[(x & A & B)|(x & A & B)]]|[(x & A & B)|[(x & A & B)|(x & A & B)]]];
      [left|right;left|right;right|left|right;left|right;right]; exists x; split; auto; apply in_or_app; auto.
Qed.

Lemma rw_conflict_nil_r r w : rw_conflict r w [] [] = false.
Proof. apply rw_conflict_false. repeat split; intros x _ []. Qed.

Lemma rw_conflict_same_set r1 r1' w1 w1' r2 r2' w2 w2' :
  same_set r1 r1' -> same_set w1 w1' -> same_set r2 r2' -> same_set w2 w2' ->
  rw_conflict r1 w1 r2 w2 = rw_conflict r1' w1' r2' w2'.
Proof.
  intros A B C D. unfold rw_conflict. f_equal; apply intersects_same_set; auto.
  intros x. rewrite !in_app_iff. rewrite (D x), (C x). tauto.
Qed.

(* ---------------- flagged / fc_loop ---------------- *)

Definition fl (r w dep : list N) (g : group) : bool := fst (flagged r w dep g).
Definition dfl (r w dep : list N) (g : group) : bool := snd (flagged r w dep g).
Definition gconfl (r w : list N) (g : group) : bool := rw_conflict r w (g_reads g) (g_writes g).

Lemma fl_spec r w dep g : fl r w dep g = gconfl r w g || intersects dep (g_ids g).
Proof. unfold fl, flagged, gconfl. destruct (rw_conflict _ _ _ _); cbn; auto. destruct (intersects _ _); auto. Qed.

Lemma dfl_spec r w dep g : dfl r w dep g = negb (gconfl r w g) && intersects dep (g_ids g).
Proof. unfold dfl, flagged, gconfl. destruct (rw_conflict _ _ _ _); cbn; auto. destruct (intersects _ _); auto. Qed.

Lemma fc_loop_depc st : forall i r w dep c depc,
  snd (fc_loop st i r w dep c depc) = depc || existsb (dfl r w dep) st.
Proof.
  induction st as [|g st IH]; intros i r w dep c depc; cbn [fc_loop existsb].
  - now rewrite orb_false_r.
  - unfold dfl at 1. destruct (flagged r w dep g) as [f d]. rewrite IH. cbn. now rewrite orb_assoc.
Qed.

Lemma fc_loop_none st : forall i r w dep c depc,
  fst (fc_loop st i r w dep c depc) = CNone ->
  c = CNone /\ Forall (fun g => fl r w dep g = false) st.
Proof.
  induction st as [|g st IH]; intros i r w dep c depc H; cbn [fc_loop] in H.
  - split; auto.
  - unfold fl at 1. destruct (flagged r w dep g) as [f d] eqn:F.
    apply IH in H. destruct H as [Hc Hall]. destruct f.
    + destruct c; discriminate.
    + split; auto. constructor; auto. unfold fl. now rewrite F.
Qed.

(* a CSingle result points at the unique flagged group *)
Lemma fc_loop_single st : forall i r w dep c depc g,
  fst (fc_loop st i r w dep c depc) = CSingle g ->
  (c = CSingle g /\ Forall (fun x => fl r w dep x = false) st) \/
  (c = CNone /\ exists l1 x l2, st = l1 ++ x :: l2 /\ g = (i + length l1)%nat /\ fl r w dep x = true /\
                 Forall (fun y => fl r w dep y = false) l1 /\ Forall (fun y => fl r w dep y = false) l2).
Proof.
  induction st as [|x st IH]; intros i r w dep c depc g H; cbn [fc_loop] in H.
  - left. split; auto.
  - destruct (flagged r w dep x) as [f d] eqn:F.
    apply IH in H. destruct f.
    + destruct H as [[Hc Hall]|[Hc _]].
      * destruct c; try discriminate. cbn in Hc. inversion Hc; subst.
        right. split; auto. exists [], x, st. cbn. repeat split; auto; try lia.
        unfold fl. now rewrite F.
      * destruct c; discriminate.
    + destruct H as [[Hc Hall]|[Hc (l1 & y & l2 & E & Hg & Hy & H1 & H2)]].
      * left. split; auto. constructor; auto. unfold fl. now rewrite F.
      * right. split; auto. exists (x :: l1), y, l2. cbn. subst. repeat split; auto; try lia.
        constructor; auto. unfold fl. now rewrite F.
Qed.

(* any result other than CNone needs a flagged group (or a non-CNone start) *)
Lemma fc_loop_flagged st : forall i r w dep c depc,
  fst (fc_loop st i r w dep c depc) <> CNone ->
  c <> CNone \/ Exists (fun g => fl r w dep g = true) st.
Proof.
  induction st as [|x st IH]; intros i r w dep c depc H; cbn [fc_loop] in H.
  - left. exact H.
  - destruct (flagged r w dep x) as [f d] eqn:F.
    apply IH in H. destruct f.
    + right. constructor. unfold fl. now rewrite F.
    + destruct H as [H|H]; auto.
Qed.

Definition fc_override (depc : bool) (dep : list N) : bool :=
  (depc && (1 <? length dep)%nat) || (negb depc && negb (match dep with [] => true | _ => false end)).

Lemma find_conflict_unfold st r w dep :
  find_conflict st r w dep =
  if fc_override (existsb (dfl r w dep) st) dep then CMultiple
  else fst (fc_loop st O r w dep CNone false).
Proof.
  unfold find_conflict, fc_override.
  pose proof (fc_loop_depc st O r w dep CNone false) as D.
  destruct (fc_loop st O r w dep CNone false) as [c depc]. cbn in D. subst depc. reflexivity.
Qed.

(* CNone: nothing flagged and no dependency pending *)
Lemma find_conflict_none st r w dep :
  find_conflict st r w dep = CNone ->
  dep = [] /\ Forall (fun g => gconfl r w g = false) st.
Proof.
  rewrite find_conflict_unfold. destruct (fc_override _ _) eqn:O; [discriminate|].
  intros H. apply fc_loop_none in H. destruct H as [_ Hall].
  assert (Hd : existsb (dfl r w dep) st = false).
  { apply not_true_is_false. intros E. apply existsb_exists in E. destruct E as (g & Hg & Dg).
    rewrite Forall_forall in Hall. specialize (Hall g Hg).
    rewrite fl_spec in Hall. rewrite dfl_spec in Dg.
    apply orb_false_iff in Hall. destruct Hall as [_ Hall]. rewrite Hall in Dg.
    now rewrite andb_false_r in Dg. }
  unfold fc_override in O. rewrite Hd in O. cbn in O. destruct dep; [|discriminate].
  split; auto. eapply Forall_impl; [|exact Hall]. intros g Hg. cbv beta in Hg. rewrite fl_spec in Hg.
  now apply orb_false_iff in Hg.
Qed.

(* CSingle g: g is the only flagged group; either no dependency is pending, or exactly one
   is and it sits in group g *)
Lemma find_conflict_single st r w dep g :
  find_conflict st r w dep = CSingle g ->
  exists l1 x l2, st = l1 ++ x :: l2 /\ g = length l1 /\
    Forall (fun y => fl r w dep y = false) l1 /\ Forall (fun y => fl r w dep y = false) l2 /\
    fl r w dep x = true /\
    (dep = [] \/ (exists d, dep = [d] /\ In d (g_ids x))).
Proof.
  rewrite find_conflict_unfold. destruct (fc_override _ _) eqn:O; [discriminate|].
  intros H. apply fc_loop_single in H. destruct H as [[H _]|[_ (l1 & x & l2 & E & Hg & Hx & H1 & H2)]]; [discriminate|].
  exists l1, x, l2. cbn in Hg. repeat split; auto.
  unfold fc_override in O. destruct (existsb (dfl r w dep) st) eqn:D; cbn in O.
  - (* a dependency-flagged group exists: it must be x *)
    right. apply existsb_exists in D. destruct D as (y & Hy & Dy).
    assert (Fy : fl r w dep y = true).
    { rewrite fl_spec. rewrite dfl_spec in Dy. apply andb_true_iff in Dy. destruct Dy as [_ Dy]. rewrite Dy. apply orb_true_r. }
    assert (y = x).
    { subst st. apply in_app_or in Hy. destruct Hy as [Hy|[Hy|Hy]]; auto.
      - rewrite Forall_forall in H1. rewrite (H1 y Hy) in Fy. discriminate.
      - rewrite Forall_forall in H2. rewrite (H2 y Hy) in Fy. discriminate. }
    subst y. rewrite dfl_spec in Dy. apply andb_true_iff in Dy. destruct Dy as [_ Dy].
    apply intersects_spec in Dy. destruct Dy as (d & Hd & Hin).
    rewrite orb_false_r in O.
    destruct dep as [|d0 [|d1 dep]]; cbn in O; try discriminate; [destruct Hd|].
    destruct Hd as [->|[]]. exists d. auto.
  - left. destruct dep; auto. discriminate.
Qed.

(* whatever the result: if it is not CNone and no dependency is pending, some group really
   conflicts on resources *)
Lemma find_conflict_not_none_nodep st r w :
  find_conflict st r w [] <> CNone -> Exists (fun g => gconfl r w g = true) st.
Proof.
  rewrite find_conflict_unfold.
  assert (existsb (dfl r w []) st = false) as ->.
  { apply not_true_is_false. intros E. apply existsb_exists in E. destruct E as (g & _ & Dg).
    rewrite dfl_spec in Dg. cbn in Dg. now rewrite andb_false_r in Dg. }
  cbn. intros H. apply fc_loop_flagged in H. destruct H as [H|H]; [congruence|].
  eapply Exists_impl; [|exact H]. intros g Hg. cbv beta in Hg. rewrite fl_spec in Hg. cbn in Hg. now rewrite orb_false_r in Hg.
Qed.

(* ---------------- remove_ids ---------------- *)

Lemma remove_ids_In st dep d : In d (remove_ids st dep) <-> In d dep /\ ~ In d (stage_ids st).
Proof.
  unfold remove_ids. rewrite filter_In. rewrite negb_true_iff, memN_false. tauto.
Qed.

Lemma remove_ids_nil st : remove_ids st [] = [].
Proof. reflexivity. Qed.

Lemma cross_off_In pre : forall dep d,
  In d (cross_off pre dep) <-> In d dep /\ forall st, In st pre -> ~ In d (stage_ids st).
Proof.
  unfold cross_off. induction pre as [|st pre IH]; intros dep d; cbn [fold_left].
  - split; [intros H; split; auto; intros st []|tauto].
  - rewrite IH, remove_ids_In. split.
    + intros [[A B] C]. split; auto. intros st' [<-|H]; auto.
    + intros [A B]. split; [split|]; auto. apply B. now left. intros st' H. apply B. now right.
Qed.
