(* C01 — isolation (plan level): systems placed side by side never conflict. *)
From Shred Require Import Base SrcParams Plan PlanObs PlanLemmas PlanInv PlanLoc PlanBuild PlanProps.

(* For every registration program: two systems in different groups of one stage have no
   W/W, W/R or R/W overlap of their declared access. *)
Theorem C01_side_by_side_systems_do_not_conflict :
  forall rs b, plan rs = Ok b -> Forall reg_time_ok1 rs ->
  forall st i j g1 g2 a c,
    In st (b_stages b) -> nth_error st i = Some g1 -> nth_error st j = Some g2 -> i <> j ->
    In a (g_mem g1) -> In c (g_mem g2) -> sys_conflict a c = false.
Proof. exact plan_isolated. Qed.
Print Assumptions C01_side_by_side_systems_do_not_conflict.

(* what "conflict" means *)
Theorem C01_conflict_meaning :
  forall r1 w1 r2 w2, rw_conflict r1 w1 r2 w2 = true <->
  (exists x, In x w1 /\ In x w2) \/ (exists x, In x w1 /\ In x r2) \/ (exists x, In x r1 /\ In x w2).
Proof. exact rw_conflict_spec. Qed.
Print Assumptions C01_conflict_meaning.

Example C01_example :
  let rs := [RSys 1 [] [] [8] [] 3%Z; RSys 2 [] [] [] [8] 3%Z; RSys 3 [] [] [8] [9] 3%Z] in
  exists b, plan rs = Ok b /\ layout_tags b = [[[1]; [3]]; [[2]]]%N.
Proof. eexists. split; vm_compute; reflexivity. Qed.
