(* C01 — isolation (plan level): systems placed side by side never conflict. *)
From Shred Require Import PlanRec PlanRecProps Base SrcParams Plan PlanObs PlanLemmas PlanInv PlanLoc PlanBuild PlanProps Exec ExecProps ExecPlan BatchProps OracleProps ExecObs TraceOracles ExecOracles AcceptComplete.

(* For every registration program: two systems in different groups of one stage have no
   W/W, W/R or R/W overlap of their declared access. *)
Theorem C01_side_by_side_systems_do_not_conflict :
  forall rs b, plan rs = Ok b -> Forall reg_time_ok1 rs ->
  forall st i j g1 g2 a c,
    In st (b_stages b) -> nth_error st i = Some g1 -> nth_error st j = Some g2 -> i <> j ->
    In a (g_mem g1) -> In c (g_mem g2) -> sys_conflict a c = false.
Proof. exact plan_isolated. Qed.
Print Assumptions C01_side_by_side_systems_do_not_conflict.

(* what "conflict" means *)
Theorem C01_conflict_meaning :
  forall r1 w1 r2 w2, rw_conflict r1 w1 r2 w2 = true <->
  (exists x, In x w1 /\ In x w2) \/ (exists x, In x w1 /\ In x r2) \/ (exists x, In x r1 /\ In x w2).
Proof. exact rw_conflict_spec. Qed.
Print Assumptions C01_conflict_meaning.

(* ---- run time: EVERY trace of the executor model (every interleaving of the groups of a
   stage, hence every pool size and thread timing) ---- *)

(* The windows [fetch .. release] of two systems whose declared accesses conflict are
   disjoint in every trace: one has released before the other fetches. *)
Theorem C01_conflicting_windows_never_overlap :
  forall rs b t,
  plan rs = Ok b -> Forall reg_time_ok1 rs -> NoDup (sys_tags rs) ->
  traces_disp (layout_tags b) (b_tl b) t ->
  forall a c, In a (placed b) -> In c (placed b) -> s_tag a <> s_tag c -> sys_conflict a c = true ->
  precedes (ER (s_tag a)) (EF (s_tag c)) t \/ precedes (ER (s_tag c)) (EF (s_tag a)) t.
Proof. exact run_conflicting_windows_disjoint. Qed.
Print Assumptions C01_conflicting_windows_never_overlap.

(* dispatch_seq is one of those traces, and every recorded trace that the acceptor of suite S2
   accepts is one of them *)
Theorem C01_sequential_trace_is_a_trace : forall l tl, traces_disp l tl (trace_seq l tl).
Proof. exact trace_seq_is_trace. Qed.
Print Assumptions C01_sequential_trace_is_a_trace.

Theorem C01_acceptor_sound :
  forall l tl tr, NoDup (concat (concat l)) -> accept_disp l tl tr = true -> traces_disp l tl tr.
Proof. exact accept_sound. Qed.
Print Assumptions C01_acceptor_sound.

(* ---- the oracle `isolated` that suite S1 evaluates on the REAL executed layout ---- *)
(* what its `true` means, for ANY layout: two tags in different groups of one stage belong to
   registered systems and nothing declared anywhere inside them conflicts *)
Theorem C01_oracle_isolated_means_isolation :
  forall rs l, o_isolated rs l = true ->
  forall st i j g1 g2 a c, In st l -> i <> j -> nth_error st i = Some g1 -> nth_error st j = Some g2 ->
    In a g1 -> In c g2 ->
    exists ra rc, In ra rs /\ In rc rs /\ reg_tag ra = Some a /\ reg_tag rc = Some c /\ reg_conflict ra rc = false.
Proof. exact o_isolated_meaning. Qed.
Print Assumptions C01_oracle_isolated_means_isolation.
(* and it is `true` on the layout the model builds: it can fire only on a real layout that differs *)
Theorem C01_oracle_isolated_holds_on_model_layouts :
  forall rs b, plan rs = Ok b -> regs_times_ok rs -> NoDup (sys_tags rs) -> o_isolated rs (layout_tags b) = true.
Proof. exact o_isolated_on_model. Qed.
Print Assumptions C01_oracle_isolated_holds_on_model_layouts.

(* ---- the run-time oracle `no_overlap` that suite S2 evaluates on every RECORDED trace ---- *)
(* what `true` means for the recorded run itself, whatever produced it: a system that is fetched
   while another one's window is open does not conflict with it *)
Theorem C01_oracle_no_overlap_meaning :
  forall conflict tr, o_no_overlap conflict tr = true ->
  forall u1 a u2 c u3, tr = u1 ++ EF a :: u2 ++ EF c :: u3 -> ~ In (ER a) u2 -> conflict a c = false.
Proof. exact o_no_overlap_meaning. Qed.
Print Assumptions C01_oracle_no_overlap_meaning.
(* and every trace of the executor model passes it (conflict relation of the placed systems) *)
Theorem C01_oracle_no_overlap_holds_on_every_model_trace :
  forall rs b t, plan rs = Ok b -> Forall reg_time_ok1 rs -> NoDup (sys_tags rs ++ tl_tags rs) ->
  traces_disp (layout_tags b) (b_tl b) t -> o_no_overlap (conflict_of b) t = true.
Proof. exact no_overlap_on_model_traces. Qed.
Print Assumptions C01_oracle_no_overlap_holds_on_every_model_trace.

(* the acceptor accepts EXACTLY the traces of the model: an `accept` disagreement of suite S2 means
   precisely that the recorded run is not a run of the model, and a silent acceptor means it is *)
Theorem C01_acceptor_decides_the_trace_set :
  forall l tl tr, NoDup (concat (concat l)) -> (accept_disp l tl tr = true <-> traces_disp l tl tr).
Proof. exact accept_iff. Qed.
Print Assumptions C01_acceptor_decides_the_trace_set.

Example C01_example :
  let rs := [RSys 1 [] [] [8] [] 3%Z; RSys 2 [] [] [] [8] 3%Z; RSys 3 [] [] [8] [9] 3%Z] in
  exists b, plan rs = Ok b /\ layout_tags b = [[[1]; [3]]; [[2]]]%N.
Proof. eexists. split; vm_compute; reflexivity. Qed.

(* a builder that was used on after caught panics of rejected registrations ([plan_rec], see props/C18.v) keeps
   the isolation of side-by-side groups, for the ACCEPTED registrations *)
Theorem C01_recovered_builder_isolates :
  forall rs, regs_times_ok rs -> NoDup (sys_tags rs) ->
  o_isolated (accepted rs) (layout_tags (plan_rec rs)) = true.
Proof. exact rec_isolated. Qed.
Print Assumptions C01_recovered_builder_isolates.
