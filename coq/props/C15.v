(* C15 — async dispatcher: completion is observable and never overtaken.
   Statements only; proofs in Async.v.  [areach l tl s]: s is reachable by ANY interleaving of
   caller operations (dispatch / running / wait / wait_without_tl / world / world_mut / setup,
   in any order) and steps of the background job (one event at a time, then the send). *)
From Shred Require Import Base Plan PlanLemmas Exec ExecProps Async AsyncAccept.

(* after wait, wait_without_tl, world, world_mut (and setup) return: no job is running, none is
   pending — every system of every earlier dispatch has finished *)
Theorem C15_accessors_return_only_after_completion :
  forall l tl s o s', areach l tl s -> astep l tl s (LOp o) s' -> returns_after_handoff o = true ->
  a_job s' = None /\ a_sent s' = false /\ a_pending s' = false.
Proof. exact accessor_returns_idle. Qed.
Print Assumptions C15_accessors_return_only_after_completion.

(* running() reports false only once all have finished ... *)
Theorem C15_running_false_only_when_finished :
  forall l tl s s', areach l tl s -> astep l tl s (LOp (ARunning false)) s' -> a_job s' = None /\ a_job s = None.
Proof. exact running_false_means_finished. Qed.
Print Assumptions C15_running_false_only_when_finished.

(* ... and while a system is running it reports true (however long the system stays in run) *)
Theorem C15_running_true_while_a_job_runs :
  forall l tl s b s', areach l tl s -> a_job s <> None -> astep l tl s (LOp (ARunning b)) s' -> b = true.
Proof. exact running_job_reports_true. Qed.
Print Assumptions C15_running_true_while_a_job_runs.

(* a second dispatch does not start before the previous one is complete *)
Theorem C15_no_overtaking :
  forall l tl s s', areach l tl s -> astep l tl s (LOp ADispatch) s' -> a_job s = None.
Proof. exact no_overtaking. Qed.
Print Assumptions C15_no_overtaking.

(* the finished work is a sequence of WHOLE dispatches — each a trace of the staged part, i.e.
   every ordinary system exactly once (C04) — and of thread-local passes *)
Theorem C15_each_dispatch_runs_every_system_once :
  forall l tl s, areach l tl s ->
  Forall (block_ok l tl) (a_blocks s) /\ (forall d r, a_job s = Some (d, r) -> staged_traces l (d ++ r)).
Proof. exact work_is_whole_dispatches. Qed.
Print Assumptions C15_each_dispatch_runs_every_system_once.

(* thread-local systems run only inside wait (on the thread that calls it) *)
Theorem C15_thread_locals_only_in_wait :
  forall l tl s lb s', astep l tl s lb s' -> lb <> LOp AWait ->
  a_blocks s' = a_blocks s \/ exists d, a_job s = Some (d, []) /\ a_blocks s' = a_blocks s ++ [d].
Proof. exact thread_locals_only_in_wait. Qed.
Print Assumptions C15_thread_locals_only_in_wait.

(* ---- what acceptance of a RECORDED history means (suite S7 runs [acc_run] on every history) ---- *)
(* a history that the acceptor accepts and that ends with the return of wait / wait_without_tl / world /
   world_mut / setup / running()=false: the events of ordinary systems recorded before that return are a
   sequence of COMPLETE dispatches, each a trace of the model — everything has finished, nothing is running *)
Theorem C15_accepted_accessor_return_means_all_finished :
  forall l tl ts o a, NoDup (concat (concat l)) -> quiescing o = true ->
  acc_run l tl acc_init (ts ++ [TEnd o]) 0 = inr a ->
  exists blocks, evs_of ts = concat blocks /\ Forall (fun b => traces_disp l [] b) blocks /\ c_active a = false.
Proof. exact accepted_accessor_means_all_finished. Qed.
Print Assumptions C15_accepted_accessor_return_means_all_finished.
Theorem C15_accepted_running_true_means_a_job_is_outstanding :
  forall l tl a, acc_step l tl a (TEnd (ARunning true)) <> None -> c_active a = true.
Proof. exact accepted_running_true_means_job_outstanding. Qed.
Print Assumptions C15_accepted_running_true_means_a_job_is_outstanding.
Theorem C15_accepted_thread_local_event_is_inside_wait_on_the_caller :
  forall l tl a e oc a', acc_step l tl a (TTl e oc) = Some a' ->
  c_inwait a = true /\ oc = true /\ (c_active a = false \/ accept_disp l [] (c_prog a) = true).
Proof. exact accepted_thread_local_event. Qed.
Print Assumptions C15_accepted_thread_local_event_is_inside_wait_on_the_caller.
Theorem C15_accepted_pool_event_never_overtakes :
  forall l tl a e a', acc_step l tl a (TEv e) = Some a' ->
  (c_active a = true /\ job_complete l a = false) \/
  (c_want a = true /\ (c_active a = false \/ job_complete l a = true)).
Proof. exact accepted_pool_event. Qed.
Print Assumptions C15_accepted_pool_event_never_overtakes.

Example C15_example :
  (* dispatch; one event; running() = true; the rest of the job; send; running() = false *)
  let l := [[[1%N]]] in
  exists s, areach l [] s /\ a_blocks s = [[EF 1%N; ER 1%N]] /\ a_pending s = false.
Proof.
  cbv zeta. eexists. split.
  - eapply R_step; [eapply R_step; [eapply R_step; [eapply R_step; [eapply R_step; [eapply R_step; [apply R_init|]|]|]|]|]|].
    + apply (S_dispatch _ _ _ [EF 1%N; ER 1%N]); [now left|].
      change [EF 1%N; ER 1%N] with ([EF 1%N; ER 1%N] ++ []). constructor; [|constructor].
      econstructor; [constructor|]. repeat constructor.
    + eapply S_job. reflexivity.
    + apply S_running_true; reflexivity.
    + eapply S_job. reflexivity.
    + eapply S_send. reflexivity.
    + apply S_running_false. now right.
  - split; reflexivity.
Qed.
