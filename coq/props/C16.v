(* C16 — Par/Seq trees. Statements only; proofs in ParSeqProps.v.  Trees of any depth and
   fan-out; [tr_tree t tr]: tr is a trace of dispatching t — a seq node concatenates the traces of
   its children, a par node interleaves them arbitrarily (rayon join). *)
From Shred Require Import Base Plan PlanLemmas Exec ExecProps ParSeq ParSeqProps TreeAccept AcceptComplete TreeComplete.
From Coq Require Import Permutation.

(* every leaf runs exactly once: every trace is a rearrangement of the sequential trace *)
Theorem C16_every_leaf_exactly_once :
  forall t tr, tr_tree t tr -> Permutation tr (seq_trace t).
Proof. exact tree_once. Qed.
Print Assumptions C16_every_leaf_exactly_once.

(* within a seq node — at any depth, whatever surrounds it — every leaf of an earlier child has
   released before any leaf of a later child fetches, in EVERY trace *)
Theorem C16_seq_children_run_in_order :
  forall t tr x y, tr_tree t tr -> seq_before t x y -> precedes (ER x) (EF y) tr.
Proof. exact seq_ordered. Qed.
Print Assumptions C16_seq_children_run_in_order.

(* children of a par node may overlap *)
Theorem C16_par_children_may_overlap :
  forall x y r1 w1 r2 w2, tr_tree (TPar [TLeaf x r1 w1; TLeaf y r2 w2]) [EF x; EF y; ER x; ER y].
Proof. exact par_children_may_overlap. Qed.
Print Assumptions C16_par_children_may_overlap.

(* the reads and writes a node reports are the concatenation of what its leaves declare *)
Theorem C16_node_access_is_the_union_of_its_leaves :
  forall t, t_reads t = concat (map (fun a => snd (fst a)) (leaf_accesses t)) /\
            t_writes t = concat (map snd (leaf_accesses t)).
Proof. exact tree_reads_writes. Qed.
Print Assumptions C16_node_access_is_the_union_of_its_leaves.

(* setup reaches every leaf: Par/Seq::setup call head.setup then tail.setup, i.e. the leaves in
   order [t_leaves t]; that this list holds every leaf is its definition — the tie compares it
   with the recorded setup calls *)

(* with debug assertions, adding child d to a par node panics exactly when d's access conflicts
   (W/W, W/R or R/W) with the accumulated access of the children already there *)
Theorem C16_par_with_panics_iff_conflict :
  forall c l, par_ok (c :: l) = None <->
  (forall l1 d l2, l = l1 ++ d :: l2 ->
     rw_conflict (t_reads d) (t_writes d) (concat (map t_reads (c :: l1))) (concat (map t_writes (c :: l1))) = false).
Proof. exact par_ok_iff. Qed.
Print Assumptions C16_par_with_panics_iff_conflict.

(* the acceptor that suite S6 runs on every recorded trace of a real Par/Seq tree is sound: a trace it
   accepts is a trace of the model, so the theorems above hold of the recorded run itself *)
Theorem C16_trace_acceptor_sound :
  forall t tr, NoDup (t_leaves t) -> tree_accept t tr = true -> tr_tree t tr.
Proof. exact tree_accept_sound. Qed.
Print Assumptions C16_trace_acceptor_sound.

(* ... and complete: the acceptor decides membership in the trace set of the tree *)
Theorem C16_trace_acceptor_decides_the_trace_set :
  forall t tr, NoDup (t_leaves t) -> (tree_accept t tr = true <-> tr_tree t tr).
Proof. exact tree_accept_iff. Qed.
Print Assumptions C16_trace_acceptor_decides_the_trace_set.

Example C16_example :
  let t := TSeq [TPar [TLeaf 1 [8] []; TLeaf 2 [8] [9]]; TLeaf 3 [] [8]] in
  build_panics t = false /\ t_reads t = [8; 8]%N /\ t_writes t = [9; 8]%N /\
  tree_accept t [EF 2; EF 1; ER 1; ER 2; EF 3; ER 3] = true /\ tree_accept t [EF 2; EF 3; ER 3; EF 1; ER 1; ER 2] = false /\
  build_panics (TPar [TLeaf 1 [8] []; TLeaf 2 [] [8]]) = true.
Proof. repeat split; vm_compute; reflexivity. Qed.
