(* C03 — barriers (plan level). *)
From Shred Require Import Base SrcParams Plan PlanObs PlanInv PlanLoc PlanBuild PlanProps PlanLemmas Exec ExecProps ExecPlan BatchProps OracleProps.

(* For ANY program [pre ++ barrier :: post]: there is a stage index B such that everything
   registered before the barrier sits in a stage < B and everything registered after it in a
   stage >= B — with no assumption on resources or dependencies. *)
Theorem C03_barrier_separates :
  forall pre post b,
  plan (pre ++ RBarrier :: post) = Ok b -> Forall reg_time_ok1 (pre ++ RBarrier :: post) ->
  exists done1 done2 B,
    binv b (done1 ++ done2) /\
    map (fun e => o_tag (e_op e)) done1 = sys_tags pre /\
    map (fun e => o_tag (e_op e)) done2 = sys_tags post /\
    (forall e k, In e done1 -> at_stage (b_stages b) k (s_id (e_sys e)) -> (k < B)%nat) /\
    (forall e k, In e done2 -> at_stage (b_stages b) k (s_id (e_sys e)) -> (B <= k)%nat).
Proof. exact plan_barrier. Qed.
Print Assumptions C03_barrier_separates.

(* A barrier directly after a barrier, or at the very beginning, changes nothing. *)
Theorem C03_barrier_idempotent : forall b, add_barrier (add_barrier b) = add_barrier b.
Proof. exact barrier_idempotent. Qed.
Print Assumptions C03_barrier_idempotent.
Theorem C03_leading_barrier_is_identity : add_barrier empty_builder = empty_builder.
Proof. reflexivity. Qed.
Print Assumptions C03_leading_barrier_is_identity.

(* Thread-local systems are outside the stages, unaffected by barriers, in registration order. *)
Theorem C03_thread_locals_unaffected : forall rs b, plan rs = Ok b -> b_tl b = tl_tags rs.
Proof. exact plan_tl_order. Qed.
Print Assumptions C03_thread_locals_unaffected.

(* ---- run time: in EVERY trace everything registered before the barrier has released before
   anything registered after it fetches ---- *)
Theorem C03_barrier_separates_at_run_time :
  forall pre post b t,
  plan (pre ++ RBarrier :: post) = Ok b -> Forall reg_time_ok1 (pre ++ RBarrier :: post) ->
  traces_disp (layout_tags b) (b_tl b) t ->
  exists done1 done2,
    map (fun e => o_tag (e_op e)) done1 = sys_tags pre /\
    map (fun e => o_tag (e_op e)) done2 = sys_tags post /\
    forall e1 e2, In e1 done1 -> In e2 done2 ->
      precedes (ER (s_tag (e_sys e1))) (EF (s_tag (e_sys e2))) t.
Proof. exact run_barrier_separates. Qed.
Print Assumptions C03_barrier_separates_at_run_time.

(* ---- the oracle `barriers` evaluated on the REAL executed layout ---- *)
Theorem C03_oracle_barriers_meaning :
  forall rs l, o_barriers rs l = true ->
  forall p1 p2, rs = p1 ++ RBarrier :: p2 ->
  forall t1 t2, In t1 (sys_tags p1) -> In t2 (sys_tags p2) ->
  exists k1 k2, stage_of t1 l = Some k1 /\ stage_of t2 l = Some k2 /\ (k1 < k2)%nat.
Proof. exact o_barriers_meaning. Qed.
Print Assumptions C03_oracle_barriers_meaning.
Theorem C03_oracle_barriers_holds_on_model_layouts :
  forall rs b, plan rs = Ok b -> Forall reg_time_ok1 rs -> NoDup (sys_tags rs) -> o_barriers rs (layout_tags b) = true.
Proof. exact o_barriers_on_model. Qed.
Print Assumptions C03_oracle_barriers_holds_on_model_layouts.

Example C03_example :
  let rs := [RBarrier; RSys 1 [] [] [] [] 3%Z; RBarrier; RBarrier; RSys 2 [] [] [] [] 3%Z; RTL 9; RBarrier] in
  exists b, plan rs = Ok b /\ layout_tags b = [[[1]]; [[2]]]%N /\ b_tl b = [9]%N.
Proof. eexists. repeat split; vm_compute; reflexivity. Qed.
