(* C04 — every registered system is in the executed layout exactly once (plan level).
   Statements only; proofs are in PlanProps.v. *)
From Shred Require Import Base SrcParams Plan PlanObs PlanInv PlanLoc PlanBuild PlanProps PlanLemmas Exec ExecProps ExecPlan BatchProps OracleProps ExecObs TraceOracles ExecOracles.
From Coq Require Import Permutation.

(* For registration programs of ANY length: the flattened executed layout (the boxed
   systems, stage by stage, group by group) is a permutation of the registered systems. *)
Theorem C04_layout_is_permutation_of_registered :
  forall rs b, plan rs = Ok b -> Forall reg_time_ok1 rs ->
  Permutation (flat (layout_tags b)) (sys_tags rs).
Proof. exact plan_exec_perm. Qed.
Print Assumptions C04_layout_is_permutation_of_registered.

(* The id table (what the printer walks) and the executed list agree slot by slot. *)
Theorem C04_id_table_matches_executed_list :
  forall rs b, plan rs = Ok b -> Forall reg_time_ok1 rs ->
  layout_ids b = map (fun st => map (fun g => map s_id (g_mem g)) st) (b_stages b).
Proof. exact ids_eq_exec. Qed.
Print Assumptions C04_id_table_matches_executed_list.

(* The fixed-capacity group is never over-filled, however many systems are funnelled into it. *)
Theorem C04_group_never_overfilled :
  forall rs b, plan rs = Ok b -> Forall reg_time_ok1 rs ->
  forall st g, In st (b_stages b) -> In g st -> (1 <= length (g_mem g) <= cap)%nat.
Proof. exact groups_within_capacity. Qed.
Print Assumptions C04_group_never_overfilled.

(* The side conditions on the constants found in the source hold (re-checked on every run). *)
Theorem C04_params_ok : params_ok = true.
Proof. exact params_ok_true. Qed.
Print Assumptions C04_params_ok.

(* ---- run time: one dispatch fetches and releases every registered system object exactly
   once in EVERY trace, and k dispatches exactly k times ---- *)
Theorem C04_every_system_exactly_once_per_dispatch :
  forall rs b t,
  plan rs = Ok b -> Forall reg_time_ok1 rs -> NoDup (sys_tags rs ++ tl_tags rs) ->
  traces_disp (layout_tags b) (b_tl b) t ->
  (forall x, In x (sys_tags rs ++ tl_tags rs) -> count_ev (EF x) t = 1%nat /\ count_ev (ER x) t = 1%nat) /\
  (forall e, In e t -> In (ev_tag e) (sys_tags rs ++ tl_tags rs)).
Proof. exact run_exactly_once. Qed.
Print Assumptions C04_every_system_exactly_once_per_dispatch.

Theorem C04_k_dispatches_k_times :
  forall rs b k t,
  plan rs = Ok b -> Forall reg_time_ok1 rs -> NoDup (sys_tags rs ++ tl_tags rs) ->
  traces_rep (layout_tags b) (b_tl b) k t ->
  forall x, In x (sys_tags rs ++ tl_tags rs) -> count_ev (EF x) t = k /\ count_ev (ER x) t = k.
Proof. exact run_k_times. Qed.
Print Assumptions C04_k_dispatches_k_times.

(* non-vacuity: a program with a joined group, a barrier and a dependency satisfies the hypotheses *)
(* ---- the oracle `exec_perm` evaluated on the REAL executed layout decides exactly this ---- *)
Theorem C04_oracle_exec_perm_meaning :
  forall rs l, o_exec_perm rs l = true <-> Permutation (sys_tags rs) (flat l).
Proof. exact o_exec_perm_meaning. Qed.
Print Assumptions C04_oracle_exec_perm_meaning.
Theorem C04_oracle_exec_perm_holds_on_model_layouts :
  forall rs b, plan rs = Ok b -> Forall reg_time_ok1 rs -> o_exec_perm rs (layout_tags b) = true.
Proof. exact o_exec_perm_on_model. Qed.
Print Assumptions C04_oracle_exec_perm_holds_on_model_layouts.

(* the run-time oracle `once` holds on every model trace *)
Theorem C04_oracle_once_holds_on_every_model_trace :
  forall rs b t, plan rs = Ok b -> Forall reg_time_ok1 rs -> NoDup (sys_tags rs ++ tl_tags rs) ->
  traces_disp (layout_tags b) (b_tl b) t -> o_once (sys_tags rs ++ tl_tags rs) t = true.
Proof. exact once_on_model_traces. Qed.
Print Assumptions C04_oracle_once_holds_on_every_model_trace.

Example C04_example :
  let rs := [RSys 1 [97] [] [8] [] 3%Z; RSys 2 [98] [] [] [9] 1%Z; RSys 3 [] [] [9] [] 2%Z; RBarrier;
             RSys 4 [99] [[97]] [] [8] 5%Z] in
  exists b, plan rs = Ok b /\ layout_tags b = [[[1]; [2; 3]]; [[4]]]%N.
Proof. eexists. split; vm_compute; reflexivity. Qed.
