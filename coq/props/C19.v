(* C19 — the plan is a deterministic function of the registration sequence, invariant under
   renaming of systems, injective relabelling of resources and permutation / duplication inside
   the access lists.  Statements only; proofs in PlanRel.v. *)
From Shred Require Import Base SrcParams Plan PlanObs PlanLemmas PlanInv PlanLoc PlanBuild PlanProps PlanRel PlanAnon.

(* the same registration sequence always yields the same plan (the planner is a function) *)
Theorem C19_plan_is_deterministic : forall rs r1 r2, plan rs = r1 -> plan rs = r2 -> r1 = r2.
Proof. exact plan_deterministic. Qed.
Print Assumptions C19_plan_is_deterministic.

(* [rrel phi rho r r']: r' is r with every system name n replaced by rho n (also inside
   dependency lists), and with access lists that have — as SETS — the phi-image of the access
   lists of r (so also: any permutation, any duplication), recursively inside batches.
   For every injective phi, every injective rho that keeps the empty name empty, and related
   programs of any length and nesting: if the first builds, the second builds the same plan —
   every system object at the same stage, group and position; same thread-local list; same
   maximum thread count; same id table. *)
Theorem C19_plan_invariant_under_renaming_relabelling_and_list_order :
  forall (phi : N -> N) (rho : name -> name),
  (forall x y, phi x = phi y -> x = y) -> (forall x y, rho x = rho y -> x = y) ->
  (forall n, is_empty_name (rho n) = is_empty_name n) ->
  forall rs rs' b, Forall2 (rrel phi rho) rs rs' -> plan rs = Ok b ->
  exists b', plan rs' = Ok b' /\ layout_tags b' = layout_tags b /\ b_tl b' = b_tl b /\
             max_threads b' = max_threads b /\ layout_ids b' = layout_ids b.
Proof. exact plan_invariant. Qed.
Print Assumptions C19_plan_invariant_under_renaming_relabelling_and_list_order.

(* names carry no information beyond dependency resolution: for every set X of names that no
   dependency list (at any nesting level) mentions, registering the systems called by a name in X
   as anonymous ("") instead yields the same stages — every system, id, stage, group and position —
   and the same thread-local list.  (Right to left: naming anonymous systems changes nothing.) *)
Theorem C19_unreferenced_names_are_irrelevant :
  forall (X : name -> bool) rs b,
  forallb (avoid_reg X) rs = true -> plan rs = Ok b ->
  exists b', plan (map (erase_reg X) rs) = Ok b' /\ b_stages b' = b_stages b /\ b_tl b' = b_tl b /\
             layout_tags b' = layout_tags b /\ max_threads b' = max_threads b.
Proof. exact plan_names_irrelevant. Qed.
Print Assumptions C19_unreferenced_names_are_irrelevant.

Example C19_example_anonymous :
  let X := fun n : name => name_eqb n [99] in
  let rs := [RSys 1 [97] [] [] [8] 3%Z; RSys 2 [99] [] [] [9] 1%Z; RSys 3 [98] [] [] [8; 9] 1%Z; RSys 4 [100] [[98]] [] [] 2%Z] in
  forallb (avoid_reg X) rs = true /\
  map (erase_reg X) rs = [RSys 1 [97] [] [] [8] 3%Z; RSys 2 [] [] [] [9] 1%Z; RSys 3 [98] [] [] [8; 9] 1%Z; RSys 4 [100] [[98]] [] [] 2%Z] /\
  exists b, plan rs = Ok b /\ layout_tags b = [[[1]; [2]]; [[3]]; [[4]]]%N.
Proof. split; [|split]; [vm_compute; reflexivity..|]. eexists. split; vm_compute; reflexivity. Qed.

(* the relation covers plain relabelling and plain permutation/duplication *)
Theorem C19_image_lists_are_related : forall phi l, sset phi l (map phi l).
Proof. exact sset_map. Qed.
Print Assumptions C19_image_lists_are_related.
Theorem C19_same_set_lists_are_related :
  forall l l', (forall x, In x l <-> In x l') -> sset (fun x => x) l l'.
Proof. exact sset_id_perm. Qed.
Print Assumptions C19_same_set_lists_are_related.

Example C19_example :
  let rs  := [RSys 1 [97] [] [8; 9] [] 3%Z; RSys 2 [98] [[97]] [] [9] 1%Z; RSys 3 [] [] [9] [8] 2%Z] in
  let rs' := [RSys 1 [1; 97] [] [28; 25; 28] [] 3%Z; RSys 2 [1; 98] [[1; 97]] [] [28] 1%Z; RSys 3 [] [] [28] [25; 25] 2%Z] in
  exists b b', plan rs = Ok b /\ plan rs' = Ok b' /\ layout_tags b = layout_tags b' /\ layout_tags b = [[[1]]; [[2]]; [[3]]]%N.
Proof. eexists. eexists. repeat split; vm_compute; reflexivity. Qed.
