(* C10 — no needless serialisation. Statements only; proofs in PlanSkip.v. *)
From Shred Require Import Base SrcParams Plan PlanObs PlanLemmas PlanInv PlanLoc PlanBuild PlanProps PlanSkip BatchProps OracleProps PlanPrint SkipOracle.

(* [justified sts done e]: if the system of entry e sits in stage k, then every stage j with
   (barrier index at its insertion) <= j < k
     - holds an EARLIER-registered system whose declared access conflicts with it, or
     - one of its dependencies sits in stage j or a later one.
   The theorem: this holds for every system of every registration program (any access sets,
   hints, barriers, dependency lists incl. dependencies in front of a barrier and repeated
   names). *)
Theorem C10_every_skipped_stage_is_forced :
  forall rs b, plan rs = Ok b -> Forall reg_time_ok1 rs ->
  exists done, binv b done /\ map (fun e => o_tag (e_op e)) done = sys_tags rs /\
    forall e, In e done -> justified (b_stages b) done e.
Proof. exact plan_skip_justified. Qed.
Print Assumptions C10_every_skipped_stage_is_forced.

(* what `justified` says, spelled out *)
Theorem C10_justified_meaning :
  forall sts done e, justified sts done e <->
  (forall k, at_stage sts k (s_id (e_sys e)) ->
   forall j, (e_bar e <= j < k)%nat ->
    (exists e', In e' done /\ (s_id (e_sys e') < s_id (e_sys e))%N /\ at_stage sts j (s_id (e_sys e')) /\
                sys_conflict (e_sys e) (e_sys e') = true) \/
    (exists d k', In d (s_deps (e_sys e)) /\ (j <= k')%nat /\ at_stage sts k' d)).
Proof. intros. reflexivity. Qed.
Print Assumptions C10_justified_meaning.

(* a system without dependencies that conflicts with no earlier system sits in the first stage
   behind the most recent barrier: compatible systems share one stage *)
Theorem C10_compatible_systems_share_the_first_stage :
  forall rs b, plan rs = Ok b -> Forall reg_time_ok1 rs ->
  exists done, binv b done /\ map (fun e => o_tag (e_op e)) done = sys_tags rs /\
    forall e, In e done -> s_deps (e_sys e) = [] ->
      (forall e', In e' done -> (s_id (e_sys e') < s_id (e_sys e))%N -> sys_conflict (e_sys e) (e_sys e') = false) ->
      forall k, at_stage (b_stages b) k (s_id (e_sys e)) -> k = e_bar e.
Proof. exact compatible_first_stage. Qed.
Print Assumptions C10_compatible_systems_share_the_first_stage.

(* the reported maximum thread count is the width of the widest stage *)
Theorem C10_max_threads_is_widest_stage :
  forall b, max_threads b = maxnat (map (@length group) (b_stages b)).
Proof. exact max_threads_is_widest. Qed.
Print Assumptions C10_max_threads_is_widest_stage.

(* the two input classes that the unrepaired planner got wrong (fixed: f8d62d5) *)
Theorem C10_oracle_max_threads_holds_on_model : forall b, o_max_threads (layout_tags b) (max_threads b) = true.
Proof. exact o_max_threads_on_model. Qed.
Print Assumptions C10_oracle_max_threads_holds_on_model.

(* the oracle `skip_justified` that suite S1 evaluates on the REAL layout (registration order, stages read off the
   final layout, first usable stage recomputed at every barrier, conflicts on the effective access of batches,
   dependency stages through the names) holds on the layout the model builds — any length, any nesting *)
Theorem C10_oracle_skip_justified_holds_on_model_layouts :
  forall rs b, plan rs = Ok b -> regs_times_ok rs -> NoDup (sys_tags rs) -> o_skip_justified rs (layout_tags b) = true.
Proof. exact o_skip_justified_on_model. Qed.
Print Assumptions C10_oracle_skip_justified_holds_on_model_layouts.
(* the accessor handed to the scheduler for a registration holds nothing but what is declared inside it
   (converse of C07's covering): conflicts seen by the planner are conflicts of the declared access *)
Theorem C10_accessor_is_covered_by_the_declarations :
  forall r a, reg_times_ok r -> reg_op r = Ok (OAdd a) ->
  incl (o_reads a) (eff_reads r) /\ incl (o_writes a) (eff_writes r).
Proof. intros r a. exact (reg_op_covered (size_reg r) r a (le_n _)). Qed.
Print Assumptions C10_accessor_is_covered_by_the_declarations.

Example C10_prebarrier_dependency :
  let rs := [RSys 1 [97] [] [] [] 5%Z; RBarrier; RSys 2 [98] [] [] [] 1%Z; RSys 3 [99] [[97]] [] [] 1%Z] in
  exists b, plan rs = Ok b /\ layout_tags b = [[[1]]; [[2]; [3]]]%N.
Proof. eexists. split; vm_compute; reflexivity. Qed.
Example C10_repeated_dependency :
  let rs := [RSys 1 [97] [] [] [] 3%Z; RSys 2 [98] [[97]] [] [] 3%Z; RSys 3 [99] [] [] [] 3%Z;
             RSys 4 [100] [[97]; [97]] [] [] 3%Z] in
  exists b, plan rs = Ok b /\ layout_tags b = [[[1]; [3]]; [[2]; [4]]]%N.
Proof. eexists. split; vm_compute; reflexivity. Qed.
