(* C20 — the printed par/seq plan. Statements only; proofs in PlanPrint.v. *)
From Shred Require Import PlanRec PlanRecProps Base SrcParams Plan PlanObs PlanLemmas PlanInv PlanLoc PlanBuild PlanProps PlanPrint BatchProps OracleProps PrintOracle.

(* The text written by write_par_seq (print_builder walks the ID table and the name map) is
   the rendering of the EXECUTED layout — the boxed systems stage by stage, group by group,
   member by member — where each executed system is shown by its sanitised name, or by the
   placeholder of its id when it was registered without a name; every executed system belongs
   to exactly one registration. *)
Theorem C20_printed_text_is_the_executed_layout :
  forall rs b, plan rs = Ok b -> Forall reg_time_ok1 rs ->
  exists done, binv b done /\ map (fun e => o_tag (e_op e)) done = sys_tags rs /\
    print_builder b = render (shown_layout done b) /\
    (forall e, In e done -> display (names_of done) (s_id (e_sys e)) = shown e) /\
    (forall s, In s (placed b) -> exists e, In e done /\ e_sys e = s).
Proof. exact print_matches_exec. Qed.
Print Assumptions C20_printed_text_is_the_executed_layout.

(* slot by slot: as many names in every printed group as systems executed in that group *)
Theorem C20_printed_shape_is_executed_shape :
  forall rs b, plan rs = Ok b -> Forall reg_time_ok1 rs ->
  exists done, print_builder b = render (shown_layout done b) /\
    map (map (@length name)) (shown_layout done b) = shape b.
Proof. exact print_shape_matches_exec. Qed.
Print Assumptions C20_printed_shape_is_executed_shape.

(* what is shown *)
Theorem C20_shown_name :
  forall e, shown e = if is_empty_name (o_name (e_op e)) then placeholder (s_id (e_sys e))
                      else sanitise (o_name (e_op e)).
Proof. reflexivity. Qed.
Print Assumptions C20_shown_name.

(* the printer is a total function of the builder (the repaired code has no unwrap on the name
   lookup: fixed 526450e); an empty builder prints "seq![\n]\n" *)
(* the oracle `print_matches` that suite S1 evaluates on the REAL Debug text against the REAL executed layout
   holds for the model's text and layout (so it can fire only where the crate differs from the model) *)
Theorem C20_oracle_print_matches_holds_on_the_model :
  forall rs b, plan rs = Ok b -> Forall reg_time_ok1 rs -> NoDup (sys_tags rs) ->
  o_print rs (layout_tags b) (print_builder b) = true.
Proof. exact o_print_on_model. Qed.
Print Assumptions C20_oracle_print_matches_holds_on_the_model.

Example C20_empty : print_builder empty_builder = [115;101;113;33;91;10;93;10]%N.
Proof. vm_compute. reflexivity. Qed.
Example C20_example :
  let rs := [RSys 1 [120;32;121] [] [] [] 3%Z; RSys 2 [] [] [] [] 3%Z] in
  exists b, plan rs = Ok b /\
    print_builder b = render [[[ [120;95;121] ]; [ [117;110;110;97;109;101;100;95;49] ]]]%N.
Proof. eexists. split; vm_compute; reflexivity. Qed.

(* a builder that was used on after caught panics of rejected registrations ([plan_rec], props/C18.v): its text is
   the text of the builder of the ACCEPTED registrations - same names at the same stage, group and position - except
   that the number inside the placeholder of an unnamed system is renamed by a strictly increasing function (the ids
   that the rejected calls took are skipped) *)
Theorem C20_recovered_builder_prints_the_accepted_plan :
  forall rs, regs_times_ok rs ->
  exists b f, mono f /\ plan (accepted rs) = Ok b /\
    print_builder b = render (map3 (display_with placeholder (b_names b)) (layout_ids b)) /\
    print_builder (plan_rec rs) = render (map3 (display_with (fun id => placeholder (f id)) (b_names b)) (layout_ids b)).
Proof. exact print_rec_is_print_of_accepted. Qed.
Print Assumptions C20_recovered_builder_prints_the_accepted_plan.
