(* placeholder until the theorems are in place *)
