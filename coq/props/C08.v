(* C08 — world borrows: shared xor exclusive, violations panic, drops release.
   Statements only; proofs in WorldProps.v. *)
From Shred Require Import Base World WorldProps Meta MetaIterInv.

(* For EVERY history of operations (fetch forms, by-id forms, clones, drops, reads and writes
   through guards, inserts, removes, entry, get_mut, presence queries, in any order, on any
   resources) the reached state satisfies the invariant: each cell is unborrowed and has no
   live guard, or is shared-borrowed by exactly its n+1 live shared guards and no exclusive
   one, or exclusively borrowed by exactly one live exclusive guard and no shared one; guards
   point to existing cells; stored type = type of the key. *)
Theorem C08_borrow_discipline_is_invariant : forall os, inv (fst (run empty_world os)).
Proof. exact reachable_inv. Qed.
Print Assumptions C08_borrow_discipline_is_invariant.

Theorem C08_invariant_meaning :
  forall gs k c, cell_consistent gs k c <->
  match c_b c with
  | BFree => gcount k false gs = O /\ gcount k true gs = O
  | BShared n => gcount k false gs = S n /\ gcount k true gs = O
  | BExcl => gcount k false gs = O /\ gcount k true gs = 1%nat
  end.
Proof. intros. reflexivity. Qed.
Print Assumptions C08_invariant_meaning.

(* a fetch returns a guard only when that does not alias: exclusive only on an unborrowed
   cell, shared only when no exclusive guard lives — otherwise it panics *)
Theorem C08_no_aliasing_guard :
  forall w fk ty k g, inv w -> snd (step w (OFetchOp fk ty k)) = OGuard g ->
  exists c, lookup k (cells w) = Some c /\ ty = fst k /\
    (if fk_excl fk then gcount k false (guards w) = O /\ gcount k true (guards w) = O
     else gcount k true (guards w) = O).
Proof. exact fetch_guard_sound. Qed.
Print Assumptions C08_no_aliasing_guard.

(* a failing operation (panic, None) changes neither cells nor guards: existing guards stay usable *)
Theorem C08_failure_changes_nothing :
  forall w o, match snd (step w o) with
  | OPanic _ | ONone => cells (fst (step w o)) = cells w /\ guards (fst (step w o)) = guards w
  | _ => True
  end.
Proof. exact fail_preserves. Qed.
Print Assumptions C08_failure_changes_nothing.

(* the try_ / Option forms return None only when the resource is absent *)
Theorem C08_none_iff_absent :
  forall w fk ty k, snd (step w (OFetchOp fk ty k)) = ONone <->
  (ty = fst k /\ lookup k (cells w) = None /\ fk_panics_when_absent fk = false).
Proof. exact none_iff_absent. Qed.
Print Assumptions C08_none_iff_absent.

(* dropping a guard releases exactly that borrow *)
Theorem C08_drop_releases_exactly_one_borrow :
  forall w g x c, find_guard g (guards w) = Some x -> lookup (g_key x) (cells w) = Some c ->
  let w' := fst (step w (ODrop g)) in
  lookup (g_key x) (cells w') = Some (mkCell (c_ty c) (c_val c) (release (c_b c))) /\
  (forall k, k <> g_key x -> lookup k (cells w') = lookup k (cells w)) /\
  guards w' = remove_guard g (guards w).
Proof. exact drop_exact. Qed.
Print Assumptions C08_drop_releases_exactly_one_borrow.

(* meta-table operations are part of the histories: register, get, get_mut, iter, iter_mut (complete, or cut short by a
   borrow panic or a rejected cast), holding and dropping guards — every such history keeps the borrow discipline *)
Theorem C08_meta_table_histories_keep_the_borrow_discipline :
  forall bad os s, inv (s_world s) -> inv (s_world (fst (mrun bad s os))).
Proof. exact mrun_inv. Qed.
Print Assumptions C08_meta_table_histories_keep_the_borrow_discipline.

Example C08_example :
  let os := [OInsert 0 (0, 0)%N (1, 5)%N; OFetchOp FTryFetch 0 (0, 0)%N; OClone 0; OFetchOp FTryFetchMut 0 (0, 0)%N;
             ODrop 0; ODrop 1; OFetchOp FFetchMut 0 (0, 0)%N; OFetchOp FTryById 0 (0, 0)%N] in
  snd (run empty_world os) = [OUnit; OGuard 0; OGuard 1; OPanic PAlreadyBorrowed; OUnit; OUnit; OGuard 2; OPanic PAlreadyMutBorrowed].
Proof. vm_compute. reflexivity. Qed.
