(* C17 — meta table: exactly the registered types, once each, with the right vtable.
   Statements only; proofs in MetaProps.v.  A vtable function is represented by the concrete
   type it was made for; [bad] = types whose CastFrom implementation changes the address. *)
From Shred Require Import Base PlanObs PlanLemmas World WorldProps WorldMap Meta MetaProps Plan MetaIterMut MetaIterAll.

(* after ANY sequence of register calls (with repeats): no panic; the three tables stay aligned
   (slot i holds the vtable of tys[i], index of tys[i] is i, no type twice), and tys lists the
   registered types once each in first-registration order *)
Theorem C17_table_invariant_for_every_register_sequence :
  forall l t, tinv t ->
  exists t', reg_all t l = Ok t' /\ tinv t' /\ m_tys t' = m_tys t ++ dedup_first (m_tys t) l.
Proof. exact reg_all_inv. Qed.
Print Assumptions C17_table_invariant_for_every_register_sequence.

(* a resource is converted exactly when its concrete type was registered, and then through
   the vtable made for that very type; a cast that changes the address is rejected by a panic *)
Theorem C17_get_iff_registered_with_own_vtable :
  forall bad t ty, tinv t ->
  mget_obj bad t ty = if memN ty (m_tys t) then (if memN ty bad then MPanicCast else MObj ty) else MNone.
Proof. exact get_iff_registered. Qed.
Print Assumptions C17_get_iff_registered_with_own_vtable.

(* iterating yields precisely the registered types currently present, in first-registration
   order, once each however often a type was registered, each through its own vtable, with the
   stored value (shared iterator, world without exclusive borrows; the exclusive iterator and
   the interplay with other fetches are validated by suite S5 against the same model) *)
Theorem C17_iteration_yields_registered_present_in_first_registration_order :
  forall bad regs t w,
  reg_all empty_table regs = Ok t -> inv w -> (forall ty, In ty regs -> ~ In ty bad) ->
  (forall k c, lookup k (cells w) = Some c -> c_b c <> BExcl) ->
  exists w' gs, iter_walk bad false (m_fns t) (m_tys t) w [] [] =
    (w', gs, inl (map (fun ty => (ty, ty, payload_of w ty)) (filter (presentb w) (dedup_first [] regs)))) /\
    (forall k, mget w' k = mget w k).
Proof. exact iter_spec. Qed.
Print Assumptions C17_iteration_yields_registered_present_in_first_registration_order.

(* the exclusive iterator: over a world in which the reached resources are not borrowed it yields precisely the
   registered types that are present, in first-registration order, once each, through the vtable of their own type,
   as exclusive borrows (the payload written through each of them is seen in the result and in the world afterwards;
   nothing else changes) *)
Theorem C17_exclusive_iteration_yields_registered_present_types_in_order :
  forall bad regs t w, reg_all empty_table regs = Ok t -> inv w -> (forall ty, In ty regs -> ~ In ty bad) ->
  (forall ty c, In ty regs -> lookup (ty, 0) (cells w) = Some c -> c_b c = BFree) ->
  exists w' gs, iter_walk bad true (m_fns t) (m_tys t) w [] [] =
    (w', gs, inl (map (fun ty => (ty, ty, payload_of w ty + 1)) (filter (presentb w) (dedup_first [] regs)))) /\
    (forall k, mget w' k = if (snd k =? 0) && memN (fst k) (dedup_first [] regs)
                           then option_map (fun v => (fst v, snd v + 1)) (mget w k) else mget w k).
Proof. exact iter_mut_spec. Qed.
Print Assumptions C17_exclusive_iteration_yields_registered_present_types_in_order.

(* whatever is borrowed: a pass of iter or iter_mut that completes has listed EVERY registered type that is present,
   once, in first-registration order — a present resource whose borrow conflicts ends the pass in a panic, it is never
   skipped and never handed out as an aliasing guard *)
Theorem C17_completed_iteration_skips_nothing :
  forall bad excl regs t w w' gs l, reg_all empty_table regs = Ok t ->
  iter_walk bad excl (m_fns t) (m_tys t) w [] [] = (w', gs, inl l) ->
  map fst3 l = filter (presentb w) (dedup_first [] regs).
Proof. exact completed_iteration_skips_nothing. Qed.
Print Assumptions C17_completed_iteration_skips_nothing.

Example C17_example :
  let ops := [MReg 2; MReg 1; MReg 2; MReg 3; MReg 1; MIns 1 (1, 10)%N; MIns 3 (2, 30)%N; MIns 2 (3, 20)%N; MRem 3;
              MIter; MGet 1; MGet 3; MIns 4 (4, 40)%N; MGet 4; MHold 2 true; MIter] in
  snd (mrun [] empty_mstate ops) =
    [MU; MU; MU; MU; MU; MU; MU; MU; MV (2, 30)%N; ML [(2, 2, 20); (1, 1, 10)]%N; MO 1 (1, 10)%N; MP PMissing; MU; MN; MU;
     MP PAlreadyMutBorrowed].
Proof. vm_compute. reflexivity. Qed.
