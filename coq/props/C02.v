(* C02 — dependencies (plan level): every dependency is placed in front of its dependent. *)
From Shred Require Import PlanRec PlanRecProps Base SrcParams Plan PlanObs PlanInv PlanLoc PlanBuild PlanProps PlanLemmas Exec ExecProps ExecPlan BatchProps OracleProps ExecObs TraceOracles ExecOracles.

(* [runs_before b d s]: d sits in an earlier stage than s, or in the same group at a smaller
   index — in both cases d's run has ended before s begins in every execution of the layout
   (ExecProps).  The theorem: for every successfully planned program there is a history [done]
   of the registered systems such that every name in a dependency list resolves to the id of
   the system registered under that name, and that system runs before the dependent. *)
Theorem C02_dependencies_placed_in_front :
  forall rs b, plan rs = Ok b -> Forall reg_time_ok1 rs ->
  exists done, binv b done /\ map (fun e => o_tag (e_op e)) done = sys_tags rs /\
    forall e, In e done ->
      Forall2 (fun n d => exists e', In e' done /\ o_name (e_op e') = n /\ n <> [] /\ s_id (e_sys e') = d /\
                                     runs_before b d (s_id (e_sys e)))
              (o_deps (e_op e)) (s_deps (e_sys e)).
Proof. exact plan_deps_ordered. Qed.
Print Assumptions C02_dependencies_placed_in_front.

(* ---- run time: in EVERY trace a system begins to fetch only after every system it depends
   on has released (its run has completely ended), whether or not they share a resource ---- *)
Theorem C02_dependency_released_before_dependent_fetches :
  forall rs b t,
  plan rs = Ok b -> Forall reg_time_ok1 rs ->
  traces_disp (layout_tags b) (b_tl b) t ->
  exists done, binv b done /\ map (fun e => o_tag (e_op e)) done = sys_tags rs /\
    forall e e', In e done -> In e' done -> In (s_id (e_sys e')) (s_deps (e_sys e)) ->
      precedes (ER (s_tag (e_sys e'))) (EF (s_tag (e_sys e))) t.
Proof. exact run_dependency_finished_first. Qed.
Print Assumptions C02_dependency_released_before_dependent_fetches.

(* placement in front implies running in front, in every trace (the lemma that carries
   transitivity: `before` chains compose stage by stage) *)
Theorem C02_placed_in_front_runs_in_front :
  forall l tl t d s, traces_disp l tl t -> lay_before l d s -> precedes (ER d) (EF s) t.
Proof. exact trace_before. Qed.
Print Assumptions C02_placed_in_front_runs_in_front.

(* ---- the oracle `deps_ordered` evaluated on the REAL executed layout ---- *)
Theorem C02_oracle_deps_ordered_meaning :
  forall rs l, o_deps_ordered rs l = true ->
  forall r t d, In r rs -> reg_tag r = Some t -> In d (dep_tags rs r) -> before_b l d t = true.
Proof. exact o_deps_ordered_meaning. Qed.
Print Assumptions C02_oracle_deps_ordered_meaning.
Theorem C02_oracle_deps_ordered_holds_on_model_layouts :
  forall rs b, plan rs = Ok b -> Forall reg_time_ok1 rs -> NoDup (sys_tags rs) -> o_deps_ordered rs (layout_tags b) = true.
Proof. exact o_deps_ordered_on_model. Qed.
Print Assumptions C02_oracle_deps_ordered_holds_on_model_layouts.

(* ---- the run-time oracle `preds_done` on every RECORDED trace ---- *)
Theorem C02_oracle_preds_done_meaning :
  forall mp tr, o_preds_done mp tr = true ->
  forall t1 t t2, tr = t1 ++ EF t :: t2 -> forall d, In d (mp t) -> In (ER d) t1.
Proof. exact o_preds_done_meaning. Qed.
Print Assumptions C02_oracle_preds_done_meaning.
(* every model trace passes it, for the dependencies and the pre-barrier systems of the program *)
Theorem C02_oracle_preds_done_holds_on_every_model_trace :
  forall rs b t, plan rs = Ok b -> Forall reg_time_ok1 rs -> NoDup (sys_tags rs ++ tl_tags rs) ->
  traces_disp (layout_tags b) (b_tl b) t -> o_preds_done (must_precede rs) t = true.
Proof. exact preds_done_on_model_traces. Qed.
Print Assumptions C02_oracle_preds_done_holds_on_every_model_trace.

Example C02_example :
  let rs := [RSys 1 [97] [] [] [] 3%Z; RSys 2 [98] [[97]] [] [] 3%Z; RSys 3 [99] [[98]; [97]; [97]] [] [] 3%Z] in
  exists b, plan rs = Ok b /\ layout_tags b = [[[1]]; [[2]]; [[3]]]%N.
Proof. eexists. split; vm_compute; reflexivity. Qed.

(* a builder that was used on after caught panics of rejected registrations ([plan_rec], see props/C18.v) keeps
   the dependency order of the ACCEPTED registrations (a dependency name resolves to the accepted system of that name, never to a rejected one or to the system that got the next id) *)
Theorem C02_recovered_builder_orders_dependencies :
  forall rs, regs_times_ok rs -> NoDup (sys_tags rs) ->
  o_deps_ordered (accepted rs) (layout_tags (plan_rec rs)) = true.
Proof. exact rec_deps_ordered. Qed.
Print Assumptions C02_recovered_builder_orders_dependencies.
