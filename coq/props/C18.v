(* C18 — the builder accepts all well-formed registrations and rejects the two ill-formed ones. *)
From Shred Require Import Base SrcParams Plan PlanObs PlanInv PlanLoc PlanBuild PlanProps PlanRec PlanRecProps.

(* [spec_first_error] decides by name bookkeeping only (no planner) which call, if any, is the
   first to name an unregistered dependency or to reuse a non-empty name.  For registration
   programs of ANY length and nesting depth whose running-time hints are values of RunningTime:
   the model builder fails exactly then, with exactly that error (which quotes the offending
   name) — and in every other case it builds; no capacity, index, unwrap, u8/i8 overflow or
   unreachable!() error is reachable. *)
Theorem C18_builder_total_and_errors_exact :
  forall rs, regs_times_ok rs ->
  match spec_first_error rs with
  | Some (_, e) => plan rs = Err e /\ (exists nm, e = ENoSuch nm \/ e = EDup nm)
  | None => exists b, plan rs = Ok b
  end.
Proof. exact builder_total_and_exact. Qed.
Print Assumptions C18_builder_total_and_errors_exact.

(* the arithmetic side conditions, for the constants found in the source now *)
Theorem C18_params_ok : params_ok = true.
Proof. exact params_ok_true. Qed.
Print Assumptions C18_params_ok.

Example C18_example_reject :
  spec_first_error [RSys 1 [97] [] [] [] 3%Z; RSys 2 [] [] [] [] 3%Z; RSys 3 [] [] [] [] 3%Z; RSys 4 [97] [] [] [] 3%Z]
  = Some (3%nat, EDup [97]).
Proof. vm_compute. reflexivity. Qed.
Example C18_example_unknown :
  plan [RSys 1 [97] [] [] [] 3%Z; RBatch 2 [98] [[97]] [] [] 5%Z 1 [RSys 3 [] [[97]] [] [] 1%Z]] = Err (ENoSuch [97]).
Proof. vm_compute. reflexivity. Qed.

(* The rejected call panics AT THE CALL and leaves no trace: a caller that catches the panic and goes on with the same
   builder ([plan_rec]: the builder of the real code only loses the SystemId the rejected call took) ends with exactly
   the plan of the ACCEPTED registrations ([accepted]: decided by name bookkeeping alone, at every nesting level) —
   same stages, groups and members by tag, same thread-local list, same max_threads, same sendability. *)
Theorem C18_rejected_registration_leaves_no_trace :
  forall rs, regs_times_ok rs ->
  exists b, plan (accepted rs) = Ok b /\
            layout_tags (plan_rec rs) = layout_tags b /\ shape (plan_rec rs) = shape b /\
            b_tl (plan_rec rs) = b_tl b /\ max_threads (plan_rec rs) = max_threads b /\
            sendable (plan_rec rs) = sendable b.
Proof. exact plan_rec_is_plan_of_accepted. Qed.
Print Assumptions C18_rejected_registration_leaves_no_trace.

(* ... so every plan oracle the driver evaluates on a recovered builder holds of the model *)
Theorem C18_recovered_builder_meets_every_plan_oracle :
  forall rs, regs_times_ok rs -> NoDup (sys_tags rs) ->
  let l := layout_tags (plan_rec rs) in
  let spec := accepted rs in
  o_exec_perm spec l = true /\ o_isolated spec l = true /\ o_deps_ordered spec l = true /\ o_barriers spec l = true /\
  o_max_threads l (max_threads (plan_rec rs)) = true /\ o_sendable spec (sendable (plan_rec rs)) = true /\
  b_tl (plan_rec rs) = tl_tags rs.
Proof. exact rec_oracles_on_model. Qed.
Print Assumptions C18_recovered_builder_meets_every_plan_oracle.

(* ... and every ill-formed call is rejected at that very call, however many rejected calls were caught before it:
   the calls at which the recovering model builder raises an error ([berrs_regs]: index of the call and the error of
   [add]) are exactly the calls that the name bookkeeping rejects ([rec_errs], which the suite compares with the
   panics of the real builder) *)
Theorem C18_every_ill_formed_call_is_rejected_at_the_call_also_after_recovery :
  forall rs, regs_times_ok rs -> berrs_regs rs empty_builder O = rec_errs rs.
Proof. exact rec_errs_are_the_builders. Qed.
Print Assumptions C18_every_ill_formed_call_is_rejected_at_the_call_also_after_recovery.

Example C18_example_recover :
  let rs := [RSys 1 [97] [] [] [5] 3%Z; RSys 2 [97] [] [] [6] 3%Z; RSys 3 [] [[120]] [] [7] 3%Z;
             RSys 4 [98] [[97]] [5] [] 3%Z] in
  accepted rs = [RSys 1 [97] [] [] [5] 3%Z; RSys 4 [98] [[97]] [5] [] 3%Z] /\
  layout_tags (plan_rec rs) = [[[1]]; [[4]]] /\ layout_ids (plan_rec rs) = [[[0]]; [[3]]] /\
  rec_errs rs = [(1%nat, EDup [97]); (2%nat, ENoSuch [120])].
Proof. exact rec_example. Qed.
