(* C18 — the builder accepts all well-formed registrations and rejects the two ill-formed ones. *)
From Shred Require Import Base SrcParams Plan PlanObs PlanInv PlanLoc PlanBuild PlanProps.

(* [spec_first_error] decides by name bookkeeping only (no planner) which call, if any, is the
   first to name an unregistered dependency or to reuse a non-empty name.  For registration
   programs of ANY length and nesting depth whose running-time hints are values of RunningTime:
   the model builder fails exactly then, with exactly that error (which quotes the offending
   name) — and in every other case it builds; no capacity, index, unwrap, u8/i8 overflow or
   unreachable!() error is reachable. *)
Theorem C18_builder_total_and_errors_exact :
  forall rs, regs_times_ok rs ->
  match spec_first_error rs with
  | Some (_, e) => plan rs = Err e /\ (exists nm, e = ENoSuch nm \/ e = EDup nm)
  | None => exists b, plan rs = Ok b
  end.
Proof. exact builder_total_and_exact. Qed.
Print Assumptions C18_builder_total_and_errors_exact.

(* the arithmetic side conditions, for the constants found in the source now *)
Theorem C18_params_ok : params_ok = true.
Proof. exact params_ok_true. Qed.
Print Assumptions C18_params_ok.

Example C18_example_reject :
  spec_first_error [RSys 1 [97] [] [] [] 3%Z; RSys 2 [] [] [] [] 3%Z; RSys 3 [] [] [] [] 3%Z; RSys 4 [97] [] [] [] 3%Z]
  = Some (3%nat, EDup [97]).
Proof. vm_compute. reflexivity. Qed.
Example C18_example_unknown :
  plan [RSys 1 [97] [] [] [] 3%Z; RBatch 2 [98] [[97]] [] [] 5%Z 1 [RSys 3 [] [[97]] [] [] 1%Z]] = Err (ENoSuch [97]).
Proof. vm_compute. reflexivity. Qed.
