(* C05 — schedule independence. Statements only; proofs in Confluence.v / ConfluencePlan.v. *)
From Shred Require Import Base SrcParams Plan PlanObs PlanLemmas PlanInv PlanLoc PlanBuild PlanProps Exec ExecProps ExecPlan Confluence ConfluencePlan ExecObs NestedObs NestedExec TraceEquiv NestedConfluence.

(* World = function from keys to values (any value type): resources and, under private keys,
   the state of every system.  [respects V R W f t]: the effect [f t] of system t changes only
   keys of W t, and what it writes depends only on the keys of R t and W t.
   For EVERY planned program, every such family of effects and every initial world: every
   trace of k parallel dispatches (every interleaving of the groups of every stage) ends in
   the world of k sequential dispatches. *)
Theorem C05_parallel_dispatch_equals_sequential_dispatch :
  forall rs b (V : Type) (R W : N -> list N) (f : N -> world V -> world V),
  plan rs = Ok b -> Forall reg_time_ok1 rs -> NoDup (sys_tags rs) ->
  (forall s, In s (placed b) -> R (s_tag s) = s_reads s /\ W (s_tag s) = s_writes s) ->
  (forall t, In t (sys_tags rs ++ tl_tags rs) -> respects V R W f t) ->
  forall k t, traces_rep' (layout_tags b) (b_tl b) k t ->
  forall w, weq V (run V f (rel_order t) w) (run V f (seq_rep (layout_tags b) (b_tl b) k) w).
Proof. exact plan_par_eq_seq. Qed.
Print Assumptions C05_parallel_dispatch_equals_sequential_dispatch.

(* the core: systems without W/W, W/R, R/W overlap commute *)
Theorem C05_nonconflicting_systems_commute :
  forall (V : Type) (R W : N -> list N) (f : N -> world V -> world V) a b,
  respects V R W f a -> respects V R W f b -> noconf R W a b ->
  forall w, weq V (f a (f b w)) (f b (f a w)).
Proof. exact noconflict_commute. Qed.
Print Assumptions C05_nonconflicting_systems_commute.

(* batches: a sequence of inner effects (any number of inner dispatches, fixed independently of
   the world) respects every declaration that covers the inner declarations — with C07 the
   batch is a respectful system for its union accessor, so the theorem applies at every depth *)
Theorem C05_batch_respects_its_union_accessor :
  forall (V : Type) (R W : N -> list N) (f : N -> world V -> world V) (ts : list N) (Ru Wu : list N),
  Forall (respects V R W f) ts ->
  (forall t k, In t ts -> In k (W t) -> In k Wu) ->
  (forall t k, In t ts -> In k (R t) -> In k Ru \/ In k Wu) ->
  (forall w k, ~ In k Wu -> run V f ts w k = w k) /\
  (forall w w', (forall k, In k Ru \/ In k Wu -> w k = w' k) ->
                forall k, In k Ru \/ In k Wu -> run V f ts w k = run V f ts w' k).
Proof. exact respects_compose_cover. Qed.
Print Assumptions C05_batch_respects_its_union_accessor.

(* non-vacuity: a counter increment respects (R, W) = ([], [k]) ... here: two writers of
   different keys and a reader *)
(* ---- the general form: the final world depends only on the relative order of CONFLICTING systems ----
   [pproj a b l]: the run order l restricted to the systems a and b.  Two run orders of any length (with
   repetitions) that agree on the projection onto every single system and onto every pair of systems whose
   accesses conflict end in the same world — for every value type and every family of respectful effects. *)
Theorem C05_final_world_depends_only_on_the_order_of_conflicting_systems :
  forall (V : Type) (R W : N -> list N) (f : N -> world V -> world V) u v,
  Forall (respects V R W f) u -> Forall (respects V R W f) v ->
  (forall a b, dep R W a b -> pproj a b u = pproj a b v) ->
  forall w, weq V (run V f u w) (run V f v w).
Proof. exact same_conflict_order. Qed.
Print Assumptions C05_final_world_depends_only_on_the_order_of_conflicting_systems.

(* ---- the whole tree ----
   [ntr n rs tr]: tr is a nested trace of program rs (batches at any depth, inner dispatches repeated `count`
   times, subtrees interleaved freely; NestedExec.v).  [rel tr]: the systems in the order in which they release,
   i.e. in which their effects take place.  If the effect of every plain system respects its own declared
   reads and writes (batch controllers and thread-local systems having no effect of their own), then EVERY
   nested trace of the program — in particular the one of a sequential run — ends in the same world. *)
Theorem C05_whole_tree_every_nested_trace_ends_in_the_same_world :
  forall (V : Type) (f : N -> world V -> world V) rs,
  wf rs -> (forall t, respects V (decl_reads rs) (decl_writes rs) f t) ->
  forall n tr1 tr2, ntr n rs tr1 -> ntr n rs tr2 -> forall w, weq V (run V f (rel tr1) w) (run V f (rel tr2) w).
Proof. exact nested_par_eq_seq_declared. Qed.
Print Assumptions C05_whole_tree_every_nested_trace_ends_in_the_same_world.

(* the same for any access that is covered by the declarations (also controllers with data of their own) *)
Theorem C05_whole_tree_general :
  forall (V : Type) (Rd Wr : N -> list N) (f : N -> world V -> world V) rs,
  wf rs -> (forall t, respects V Rd Wr f t) ->
  (forall a c, a <> c -> rw_conflict (Rd a) (Wr a) (Rd c) (Wr c) = true ->
     exists ra rc, sub_reg ra rs /\ sub_reg rc rs /\ reg_tag ra = Some a /\ reg_tag rc = Some c /\
                   ~ In a (subtree_tags rc) /\ ~ In c (subtree_tags ra) /\ reg_conflict ra rc = true) ->
  forall n tr1 tr2, ntr n rs tr1 -> ntr n rs tr2 -> forall w, weq V (run V f (rel tr1) w) (run V f (rel tr2) w).
Proof. exact nested_par_eq_seq. Qed.
Print Assumptions C05_whole_tree_general.

Example C05_example :
  let R := fun t : N => if (t =? 3)%N then [8%N] else [] in
  let W := fun t : N => if (t =? 1)%N then [8%N] else if (t =? 2)%N then [9%N] else [] in
  let f := fun (t : N) (w : world Z) (k : N) =>
             if (t =? 1)%N && (k =? 8)%N then (w 8%N + 1)%Z
             else if (t =? 2)%N && (k =? 9)%N then (w 9%N * 2)%Z else w k in
  respects Z R W f 1%N /\ respects Z R W f 2%N /\ respects Z R W f 3%N /\ noconf R W 1%N 2%N.
Proof.
  cbv zeta. repeat split; cbn; intros; auto;
    repeat match goal with
           | H : ~ (_ \/ _) |- _ => apply Decidable.not_or in H; destruct H
           | H : _ \/ False |- _ => destruct H as [H|[]]
           | H : False |- _ => destruct H
           end; subst; cbn; auto.
  - destruct (N.eqb_spec k 8); [congruence|reflexivity].
  - rewrite H; auto.
  - destruct (N.eqb_spec k 9); [congruence|reflexivity].
  - rewrite H; auto.
Qed.
