(* C13 — setup and dispose reach every system once. Statements only; proofs in VisitProps.v
   (visit lists) and SysDataProps.v (what setup does to the world). *)
From Shred Require Import Base SrcParams Plan PlanObs PlanLemmas PlanInv PlanLoc PlanBuild PlanProps Visit VisitProps World WorldProps WorldMap SysData SysDataProps.
From Coq Require Import Permutation.

(* [visits rs]: the systems whose hook Dispatcher::setup (resp. ::dispose) calls, in call
   order — stages front to back, groups, members, a batch member standing for the visits of
   its inner dispatcher, then the thread-local systems.  For every program that is well formed
   at every depth this list is a permutation of ALL systems of the program (ordinary,
   thread-local, inside batches at any depth): each exactly once, none missed. *)
Theorem C13_setup_and_dispose_visit_every_system_once :
  forall rs, wf_level rs -> Permutation (visits rs) (leaf_tags rs).
Proof. exact visits_perm. Qed.
Print Assumptions C13_setup_and_dispose_visit_every_system_once.

(* ---- what the library's setup code does to the world (the setup of a system's data type;
   a batch controller's declared data is set up the same way) ---- *)

(* for every type expression and every world (any subset of the resources present, any values):
   an existing resource is never modified; a missing resource is created exactly when it is
   reached through a default-providing accessor, with the default value; the optional and the
   expecting accessors create nothing *)
Theorem C13_setup_never_clobbers_and_creates_only_defaults :
  forall dflt d w k,
  mget (sd_setup dflt d w) k =
  match mget w k with
  | Some v => Some v
  | None => if (snd k =? 0)%N then (if memN (fst k) (default_tys d) then Some (dflt (fst k)) else None) else None
  end.
Proof. exact sd_setup_spec. Qed.
Print Assumptions C13_setup_never_clobbers_and_creates_only_defaults.

(* setup called repeatedly changes nothing more; guards and the drop ledger are untouched *)
Theorem C13_setup_is_idempotent :
  forall dflt d w k, mget (sd_setup dflt d (sd_setup dflt d w)) k = mget (sd_setup dflt d w) k.
Proof. exact sd_setup_idempotent. Qed.
Print Assumptions C13_setup_is_idempotent.

Theorem C13_setup_drops_nothing :
  forall dflt d w, guards (sd_setup dflt d w) = guards w /\ dropped (sd_setup dflt d w) = dropped w.
Proof. exact sd_setup_keeps_guards. Qed.
Print Assumptions C13_setup_drops_nothing.

Example C13_example :
  let rs := [RTL 9; RSys 1 [] [] [] [8] 3%Z;
             RBatch 2 [] [] [] [] 5%Z 2 [RSys 3 [] [] [8] [] 3%Z; RTL 7; RBatch 4 [] [] [] [] 5%Z 1 [RSys 5 [] [] [] [] 1%Z]];
             RSys 6 [] [] [8] [] 3%Z] in
  visits rs = [1; 3; 5; 7; 6; 9]%N /\ leaf_tags rs = [9; 1; 3; 7; 5; 6]%N.
Proof. split; vm_compute; reflexivity. Qed.
