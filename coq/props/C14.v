(* C14 — a panicking system is contained. Statements only; proofs in FaultProps.v.
   [ftraces_disp F l tl t p]: t is a trace of one dispatch of layout l / thread-local list tl
   when exactly the systems of F panic when run (any F: any position, several at once,
   thread-local systems; a batch that lets an inner panic through is a panicking member of
   its own level), p = a panic reaches the caller.  All interleavings of the groups of a stage;
   sibling groups of a panicking group complete, or stop at their own panic, or never start. *)
From Shred Require Import Base Plan PlanLemmas Exec ExecProps Fault FaultProps FaultAccept FaultComplete.

(* the caller sees a panic exactly when some system really panicked in this dispatch (the
   payload is that of one of the FP events of the trace) *)
Theorem C14_panic_reaches_caller_iff_a_system_panicked :
  forall F l tl t p, ftraces_disp F l tl t p -> (p = true <-> exists x, In (FP x) t).
Proof. exact fault_panic_is_real. Qed.
Print Assumptions C14_panic_reaches_caller_iff_a_system_panicked.

(* no system placed behind a panicking one runs: in particular none that depends on it,
   directly or along a chain (C02 places every dependent behind its dependency) *)
Theorem C14_no_dependent_of_a_panicking_system_runs :
  forall F l t p d s,
  fstaged F l t p -> NoDup (concat (concat l)) -> lay_before l d s -> In (FP d) t -> ~ In (FF s) t.
Proof. exact fault_no_dependent_runs. Qed.
Print Assumptions C14_no_dependent_of_a_panicking_system_runs.

Theorem C14_thread_locals_after_a_panic :
  forall F l tl t p, ftraces_disp F l tl t p -> NoDup (concat (concat l) ++ tl) ->
  (forall d a, In d (concat (concat l)) -> In a tl -> In (FP d) t -> ~ In (FF a) t) /\
  (forall a c l1 l2 l3, tl = l1 ++ a :: l2 ++ c :: l3 -> In (FP a) t -> ~ In (FF c) t).
Proof. exact fault_thread_locals. Qed.
Print Assumptions C14_thread_locals_after_a_panic.

(* no system runs more than once *)
Theorem C14_nothing_runs_twice :
  forall F l tl t p x, ftraces_disp F l tl t p -> NoDup (concat (concat l) ++ tl) -> (fetches x t <= 1)%nat.
Proof. exact fault_at_most_once. Qed.
Print Assumptions C14_nothing_runs_twice.

(* every system that fetched its data has released it when the dispatch is over: once the
   panic is caught nothing is left borrowed *)
Theorem C14_everything_fetched_is_released :
  forall F l tl t p x, ftraces_disp F l tl t p -> In (FF x) t -> fprecedes (FF x) (FR x) t.
Proof. exact fault_all_released. Qed.
Print Assumptions C14_everything_fetched_is_released.

(* the dispatcher keeps no state across dispatches in the model: when nothing panics, the
   dispatch — in particular the one following a caught panic — is an ordinary dispatch, to
   which C04 (every system exactly once) applies *)
Theorem C14_next_dispatch_is_ordinary :
  forall l tl t p, ftraces_disp [] l tl t p -> p = false /\ exists t0, traces_disp l tl t0 /\ t = map erase t0.
Proof. exact fault_free_is_ordinary. Qed.
Print Assumptions C14_next_dispatch_is_ordinary.

(* the acceptor that suite S2 runs on every recorded faulty trace accepts EXACTLY the faulty traces of the model *)
Theorem C14_faulty_trace_acceptor_decides_the_faulty_trace_set :
  forall F l tl tr, NoDup (concat (concat l) ++ tl) ->
  (faccept_disp F l tl tr = true <-> exists p, ftraces_disp F l tl tr p).
Proof. exact faccept_iff. Qed.
Print Assumptions C14_faulty_trace_acceptor_decides_the_faulty_trace_set.

Example C14_example :
  (* stage {1(panics) ‖ 2}, stage {3}, thread-local 9: 2 completes, 3 and 9 never start *)
  ftraces_disp [1%N] [[[1%N]; [2%N]]; [[3%N]]] [9%N] [FF 2%N; FF 1%N; FP 1%N; FR 2%N; FR 1%N] true.
Proof.
  exists [FF 2%N; FF 1%N; FP 1%N; FR 2%N; FR 1%N], true. split; [|auto].
  apply FS_panic. exists [[FF 1%N; FP 1%N; FR 1%N]; [FF 2%N; FR 2%N]], true. split; [|split; [|discriminate]].
  - apply (FG_run [1%N] [1%N] [[2%N]] [[FF 2%N; FR 2%N]] false true).
    apply (FG_run [1%N] [2%N] [] [] false true). constructor.
  - econstructor; [econstructor; [constructor|]|]; repeat constructor.
Qed.

(* every recorded faulty trace that the acceptor of suite S2 accepts IS a trace of this model,
   so the theorems above apply to it *)
From Shred Require Import FaultAccept.
Theorem C14_faulty_acceptor_sound :
  forall F l tl tr, NoDup (concat (concat l)) -> faccept_disp F l tl tr = true -> exists p, ftraces_disp F l tl tr p.
Proof. exact faccept_sound. Qed.
Print Assumptions C14_faulty_acceptor_sound.
