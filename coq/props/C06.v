(* C06 — declared access equals real borrows for every provided system-data type.
   Statements only; proofs in SysDataProps.v.  [sd] = type expressions: Read / Write with the
   default or the panic handler (ReadExpect / WriteExpect), their Option forms, (), PhantomData,
   tuples of any arity and derived structs (same expansion), nested to any depth. *)
From Shred Require Import Base World WorldProps WorldMap SysData SysDataProps.

(* what a type reports as reads (writes) are the types of its shared (exclusive) leaves, in
   fetch order: reads()/writes() of a composite = concatenation over its members *)
Theorem C06_reported_access_is_what_the_members_fetch :
  forall d, sd_reads d = shared_tys (sd_leaves d) /\ sd_writes d = excl_tys (sd_leaves d).
Proof. exact reads_writes_are_the_leaves. Qed.
Print Assumptions C06_reported_access_is_what_the_members_fetch.

(* fetching the value borrows — in fetch order — shared exactly the EXISTING resources among
   its leaves with shared access, exclusively exactly the existing ones with exclusive access,
   and nothing else: the guard table grows by exactly these guards; no value, no key, nothing
   of the drop ledger changes *)
Theorem C06_fetch_borrows_exactly_the_declared_existing_resources :
  forall d w w' gs, sd_fetch d w = (w', inl gs) ->
  exists new, guards w' = guards w ++ new /\ gs = map g_id new /\
    map guard_shape new = map leaf_guard_shape (filter (present w) (sd_leaves d)) /\
    keys (cells w') = keys (cells w) /\ (forall k, mget w' k = mget w k) /\ dropped w' = dropped w.
Proof. exact sd_fetch_exact. Qed.
Print Assumptions C06_fetch_borrows_exactly_the_declared_existing_resources.

(* all of it is released when the value is dropped *)
Theorem C06_drop_releases_everything :
  forall d w w' gs, inv w -> sd_fetch d w = (w', inl gs) ->
  cells (drop_guards gs w') = cells w /\ guards (drop_guards gs w') = guards w.
Proof. exact sd_drop_releases_everything. Qed.
Print Assumptions C06_drop_releases_everything.

(* a fetch that panics half-way (missing resource, conflicting member) leaves nothing borrowed *)
Theorem C06_failed_fetch_leaves_nothing_borrowed :
  forall d w w' p, inv w -> sd_fetch d w = (w', inr p) -> cells w' = cells w /\ guards w' = guards w.
Proof. exact sd_fetch_fail_clean. Qed.
Print Assumptions C06_failed_fetch_leaves_nothing_borrowed.

(* setup is the composition of the members' setups, and what that composition does *)
Theorem C06_setup_is_the_composition_of_member_setups :
  forall dflt l w, sd_setup dflt (STuple l) w = fold_left (fun w x => sd_setup dflt x w) l w.
Proof. exact sd_setup_tuple. Qed.
Print Assumptions C06_setup_is_the_composition_of_member_setups.

Theorem C06_setup_effect :
  forall dflt d w k,
  mget (sd_setup dflt d w) k =
  match mget w k with
  | Some v => Some v
  | None => if (snd k =? 0)%N then (if memN (fst k) (default_tys d) then Some (dflt (fst k)) else None) else None
  end.
Proof. exact sd_setup_spec. Qed.
Print Assumptions C06_setup_effect.

(* the same clause for user-written setup handlers (any SetupHandler): setting up a composite calls
   the handlers of its members one after the other — the calls of a tuple / derived struct are the
   concatenation of its members' calls, i.e. exactly one call per such member, in order, at any
   nesting, independent of what the world already contains *)
Theorem C06_setup_calls_compose :
  forall l, sd_setup_calls (STuple l) = concat (map sd_setup_calls l).
Proof. exact sd_setup_calls_tuple. Qed.
Print Assumptions C06_setup_calls_compose.
Theorem C06_setup_calls_every_custom_member_once_in_order :
  forall d, sd_setup_calls d = custom_leaves d.
Proof. exact sd_setup_calls_are_the_custom_members. Qed.
Print Assumptions C06_setup_calls_every_custom_member_once_in_order.

(* World::exec (setup, fetch, closure): when the closure returns or unwinds the value is dropped and the
   world is exactly the world after setup with nothing borrowed; likewise if the fetch itself panics *)
Theorem C06_exec_returns_the_setup_world_unborrowed :
  forall dflt d w w' gs, inv w -> guards w = [] -> sd_exec dflt d w = (w', inl gs) ->
  cells (drop_guards gs w') = cells (sd_setup dflt d w) /\ guards (drop_guards gs w') = [].
Proof. exact sd_exec_returns_setup_world. Qed.
Print Assumptions C06_exec_returns_the_setup_world_unborrowed.
Theorem C06_exec_whose_fetch_panics_leaves_the_setup_world_unborrowed :
  forall dflt d w w' p, inv w -> guards w = [] -> sd_exec dflt d w = (w', inr p) ->
  cells w' = cells (sd_setup dflt d w) /\ guards w' = [].
Proof. exact sd_exec_fetch_panic_clean. Qed.
Print Assumptions C06_exec_whose_fetch_panics_leaves_the_setup_world_unborrowed.

Example C06_example :
  let d := STuple [SRead 0 HDefault; STuple [SOptWrite 1; SUnit; SWrite 2 HPanic]; SPhantom; SOptRead 3] in
  sd_reads d = [0; 3]%N /\ sd_writes d = [1; 2]%N /\
  let w := world_with [0; 2; 3]%N (fun ty => (ty, 7)%N) in
  classes (fst (sd_fetch d w)) [0; 1; 2; 3]%N = [Some 1; None; Some 2; Some 1]%N.
Proof. repeat split; vm_compute; reflexivity. Qed.
