(* C11 — side-by-side systems really run in parallel: PARTIAL.  Statements only; proofs in
   Pool.v.  The theorems are about a pool MODEL (P workers, an idle worker takes a pending
   group, a rendezvous head leaves run only after all sibling heads have entered); that rayon
   behaves like this model is runtime behaviour of a dependency and is exercised — not proved —
   by suite S8 on the real pools. *)
From Shred Require Import Pool.

(* with at least as many workers as the stage has groups the rendezvous program cannot
   deadlock: every reachable non-final state has an enabled step *)
Theorem C11_model_no_deadlock_with_enough_workers :
  forall P n s, n <= P -> preach P n s -> pfinal n s \/ penabled P n s.
Proof. exact pool_rendezvous_live. Qed.
Print Assumptions C11_model_no_deadlock_with_enough_workers.

(* all of them can be inside run at the same time *)
Theorem C11_model_all_inside_run_reachable :
  forall P n, n <= P -> preach P n (mkP 0 n 0).
Proof. exact all_heads_inside_reachable. Qed.
Print Assumptions C11_model_all_inside_run_reachable.

(* the precondition (enough idle threads) is needed *)
Theorem C11_model_too_few_workers_can_deadlock :
  forall P n, P < n -> exists s, preach P n s /\ ~ pfinal n s /\ ~ penabled P n s.
Proof. exact pool_too_small_deadlocks. Qed.
Print Assumptions C11_model_too_few_workers_can_deadlock.

Example C11_example : pool_can_rendezvous 4 4 = true /\ pool_can_rendezvous 3 4 = false.
Proof. split; reflexivity. Qed.
