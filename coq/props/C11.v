(* C11 — side-by-side systems really run in parallel: PARTIAL.  Statements only; proofs in
   Pool.v.  The theorems are about a pool MODEL (P workers, an idle worker takes a pending
   group, a rendezvous head leaves run only after all sibling heads have entered); that rayon
   behaves like this model is runtime behaviour of a dependency and is exercised — not proved —
   by suite S8 on the real pools. *)
From Shred Require Import Pool PoolCells PoolCellsProps.
From Coq Require Import List.

(* with at least as many workers as the stage has groups the rendezvous program cannot
   deadlock: every reachable non-final state has an enabled step *)
Theorem C11_model_no_deadlock_with_enough_workers :
  forall P n s, n <= P -> preach P n s -> pfinal n s \/ penabled P n s.
Proof. exact pool_rendezvous_live. Qed.
Print Assumptions C11_model_no_deadlock_with_enough_workers.

(* all of them can be inside run at the same time *)
Theorem C11_model_all_inside_run_reachable :
  forall P n, n <= P -> preach P n (mkP 0 n 0).
Proof. exact all_heads_inside_reachable. Qed.
Print Assumptions C11_model_all_inside_run_reachable.

(* the precondition (enough idle threads) is needed *)
Theorem C11_model_too_few_workers_can_deadlock :
  forall P n, P < n -> exists s, preach P n s /\ ~ pfinal n s /\ ~ penabled P n s.
Proof. exact pool_too_small_deadlocks. Qed.
Print Assumptions C11_model_too_few_workers_can_deadlock.

Example C11_example : pool_can_rendezvous 4 4 = true /\ pool_can_rendezvous 3 4 = false.
Proof. split; reflexivity. Qed.

(* ---- the part of C11 that is logic, not timing: WHICH pool runs the systems of a batch.  Model PoolCells.v: the
   shared pool cell of a builder, add_pool, add_batch (the sub-builder takes over the parent's cell, the parent remembers
   the cells that dispatchers built earlier still hold), build (an empty cell gets a default pool; the remembered cells
   get the builder's pool).  For EVERY tree of add_pool / add_batch calls, in any order and to any depth: after the
   outermost build every dispatcher of the tree reads the pool of the outermost one ... *)
Theorem C11_every_dispatcher_of_the_tree_uses_the_outermost_pool :
  forall ops, Forall (fun q => opool_eqb q (root_pool (build_root true ops)) = true) (node_pools (build_root true ops)).
Proof. exact node_pools_uniform. Qed.
Print Assumptions C11_every_dispatcher_of_the_tree_uses_the_outermost_pool.

(* ... and that pool is the last one attached to the outermost builder, or a default pool if none was *)
Theorem C11_the_pool_of_the_tree_is_the_attached_one :
  forall ops,
  match last_pool ops None with
  | Some k => root_pool (build_root true ops) = Some (User k)
  | None => exists d, root_pool (build_root true ops) = Some (Default d)
  end.
Proof. exact root_pool_is_the_attached_one. Qed.
Print Assumptions C11_the_pool_of_the_tree_is_the_attached_one.

(* the behaviour before fix 94c4994 (the parent did not remember the cells): a batch two levels deep kept a private
   default pool although the outermost builder had the user's pool *)
Example C11_before_the_fix_refuted : uniform (build_root false ex_deep) = false.
Proof. exact ex_deep_old_refuted. Qed.
