(* C09 — the world is a faithful typed map. Statements only; proofs in WorldMap.v. *)
From Shred Require Import Base World WorldProps WorldMap.
From Coq Require Import Permutation.

(* [mget w k]: the abstract map from (type, dynamic id) to the stored value *)
Theorem C09_insert_replaces_and_other_slots_are_independent :
  forall w ty k v, enabled w -> ty = fst k ->
  let '(w', out) := step w (OInsert ty k v) in
  out = OUnit /\ mget w' k = Some v /\ forall k', k' <> k -> mget w' k' = mget w k'.
Proof. exact insert_spec. Qed.
Print Assumptions C09_insert_replaces_and_other_slots_are_independent.

Theorem C09_remove_returns_the_stored_value :
  forall w ty k, inv w -> enabled w -> ty = fst k ->
  let '(w', out) := step w (ORemove ty k) in
  out = (match mget w k with Some v => OVal v | None => ONone end) /\
  mget w' k = None /\ forall k', k' <> k -> mget w' k' = mget w k'.
Proof. exact remove_spec. Qed.
Print Assumptions C09_remove_returns_the_stored_value.

Theorem C09_entry_never_overwrites :
  forall w ty v, enabled w ->
  let '(w', out) := step w (OEntry ty v) in
  match mget w (ty, 0%N) with
  | Some v0 => out = OVal v0 /\ forall k, mget w' k = mget w k
  | None => out = OVal v /\ mget w' (ty, 0%N) = Some v /\ forall k, k <> (ty, 0%N) -> mget w' k = mget w k
  end.
Proof. exact entry_spec. Qed.
Print Assumptions C09_entry_never_overwrites.

Theorem C09_presence_queries_agree :
  forall w k, step w (OHas k) = (w, OBool (match mget w k with Some _ => true | None => false end)).
Proof. exact has_spec. Qed.
Print Assumptions C09_presence_queries_agree.

Theorem C09_fetches_agree :
  forall w fk ty k g, inv w -> snd (step w (OFetchOp fk ty k)) = OGuard g ->
  let w' := fst (step w (OFetchOp fk ty k)) in
  exists v, mget w k = Some v /\ snd (step w' (ORead g)) = OVal v /\ (forall k', mget w' k' = mget w k').
Proof. exact fetch_read_spec. Qed.
Print Assumptions C09_fetches_agree.

(* in every reachable state the stored value has the type named by its id *)
Theorem C09_stored_type_is_key_type :
  forall os k c, lookup k (cells (fst (run empty_world os))) = Some c -> c_ty c = fst k.
Proof. exact type_inv. Qed.
Print Assumptions C09_stored_type_is_key_type.

(* a mismatching type argument panics and leaves the world unchanged *)
Theorem C09_mismatching_type_argument_panics :
  forall w o ty k, typed_call o = Some (ty, k) -> ty <> fst k ->
  (snd (step w o) = OPanic PWrongType \/ snd (step w o) = OPanic PNotEnabled) /\
  cells (fst (step w o)) = cells w /\ guards (fst (step w o)) = guards w.
Proof. exact mismatch_panics. Qed.
Print Assumptions C09_mismatching_type_argument_panics.

(* every value is dropped exactly once: at any time each object ever created is either stored
   in exactly one slot or has been dropped exactly once (the teardown of the world drops the
   stored ones: checked on the real code by the end-of-case ledger) *)
Theorem C09_every_value_dropped_exactly_once :
  forall os, let w := fst (run empty_world os) in
  NoDup (created_run empty_world os) ->
  NoDup (dropped w ++ live w) /\ (forall s, In s (created_run empty_world os) <-> In s (dropped w) \/ In s (live w)).
Proof. exact dropped_exactly_once. Qed.
Print Assumptions C09_every_value_dropped_exactly_once.

Example C09_example :
  let os := [OInsert 0 (0, 1)%N (1, 5)%N; OInsert 0 (0, 1)%N (2, 6)%N; OInsert 1 (0, 2)%N (3, 7)%N; OEntry 0 (4, 8)%N;
             OEntry 0 (5, 9)%N; ORemove 0 (0, 1)%N; OHas (0, 1)%N; OHas (0, 0)%N] in
  snd (run empty_world os) = [OUnit; OUnit; OPanic PWrongType; OVal (4, 8)%N; OVal (4, 8)%N; OVal (2, 6)%N; OBool false; OBool true]
  /\ dropped (fst (run empty_world os)) = [1; 3; 5; 2]%N.
Proof. split; vm_compute; reflexivity. Qed.
