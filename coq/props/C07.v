(* C07 — a batch is isolated as the union of its controller and everything inside it.
   Statements only; proofs in BatchProps.v. *)
From Shred Require Import Base SrcParams Plan PlanObs PlanLemmas PlanInv PlanLoc PlanBuild PlanProps Exec ExecProps BatchProps ExecObs ExecPlan TraceOracles ExecOracles ParSeq ParSeqProps TreeAccept NestedObs NestedExec NestedAccept AcceptComplete NestedComplete.

(* [eff_reads r] / [eff_writes r]: what the controller declares plus what every registration
   inside the batch declares, recursively.  The access lists that add_batch hands to the
   scheduler ([o_reads a], [o_writes a] of the operation the registration performs on the
   builder of its level) contain all of it — at any nesting depth. *)
Theorem C07_batch_accessor_covers_controller_and_all_inner_systems :
  forall r a, reg_times_ok r -> reg_op r = Ok (OAdd a) ->
  (forall x, In x (eff_reads r) -> In x (o_reads a)) /\ (forall x, In x (eff_writes r) -> In x (o_writes a)).
Proof. exact batch_accessor_covers. Qed.
Print Assumptions C07_batch_accessor_covers_controller_and_all_inner_systems.

(* hence: two registrations (systems or batches) whose objects the planner puts side by side
   do not conflict on anything declared anywhere inside them — no outside system that
   conflicts with the controller's data or with any inner system shares a stage with the batch
   unless it is in the batch's own group (sequenced against it) *)
Theorem C07_side_by_side_subtrees_do_not_conflict :
  forall rs b, plan rs = Ok b -> regs_times_ok rs -> NoDup (sys_tags rs) ->
  forall st i j g1 g2 a c ra rc,
    In st (b_stages b) -> nth_error st i = Some g1 -> nth_error st j = Some g2 -> i <> j ->
    In a (g_mem g1) -> In c (g_mem g2) ->
    In ra rs -> In rc rs -> reg_tag ra = Some (s_tag a) -> reg_tag rc = Some (s_tag c) ->
    reg_conflict ra rc = false.
Proof. exact side_by_side_subtrees_do_not_conflict. Qed.
Print Assumptions C07_side_by_side_subtrees_do_not_conflict.

(* inside the batch: the inner dispatcher is the result of the same planner on the inner
   program, so isolation (C01), ordering (C02, C03) and exactly-once (C04) hold for every
   inner dispatch by the theorems about [plan] and [traces_disp] *)
Theorem C07_inner_dispatcher_is_planned_by_the_same_planner :
  forall rs b t nm deps cr cw tm cnt inner,
  plan rs = Ok b -> In (RBatch t nm deps cr cw tm cnt inner) rs -> exists bi, plan inner = Ok bi.
Proof. exact inner_level_is_planned. Qed.
Print Assumptions C07_inner_dispatcher_is_planned_by_the_same_planner.

(* run time: the oracle evaluated on every recorded trace (all inner events inside the window
   of the batch) means: every inner event comes after the batch has fetched *)
Theorem C07_inner_events_inside_the_batch_window :
  forall t inner tr opened, inside_window t inner opened tr = true ->
  forall e, In e tr -> In (ev_tag e) inner -> ev_tag e <> t -> opened = true \/ precedes (EF t) e tr.
Proof. exact inside_window_spec. Qed.
Print Assumptions C07_inner_events_inside_the_batch_window.

(* ---- the whole tree in ONE trace set ----
   [ntr n rs tr]: tr is a trace of the nested dispatch of program rs (nesting depth < n): erasing what
   happens inside batches leaves a trace of the level's own dispatch; the events of each batch's subtree
   lie inside the batch's window and are `count` nested traces of the inner program, one after the
   other; different subtrees interleave freely.  [sub_reg r rs]: r is registered in rs at any depth.
   For every such trace and any two systems or batches at ANY depth whose declared accesses (with
   everything inside them) conflict, and neither of which contains the other: projected onto the two,
   the trace is a sequence of whole windows — they never overlap, also across repeated inner dispatches. *)
Theorem C07_conflicting_systems_anywhere_in_the_tree_never_overlap :
  forall n rs tr, ntr n rs tr -> wf rs ->
  forall ra rc a c, sub_reg ra rs -> sub_reg rc rs -> reg_tag ra = Some a -> reg_tag rc = Some c ->
  ~ In a (subtree_tags rc) -> ~ In c (subtree_tags ra) -> reg_conflict ra rc = true ->
  serial2 a c (proj [a; c] tr).
Proof. exact nested_conflicting_serial. Qed.
Print Assumptions C07_conflicting_systems_anywhere_in_the_tree_never_overlap.

(* in the form of the run-time oracle: c is never fetched while a window of a is open *)
Theorem C07_conflicting_systems_anywhere_never_inside_each_others_window :
  forall n rs tr, ntr n rs tr -> wf rs ->
  forall ra rc a c, sub_reg ra rs -> sub_reg rc rs -> reg_tag ra = Some a -> reg_tag rc = Some c ->
  ~ In a (subtree_tags rc) -> ~ In c (subtree_tags ra) -> reg_conflict ra rc = true ->
  forall u1 u2 u3, tr = u1 ++ EF a :: u2 ++ EF c :: u3 -> In (ER a) u2.
Proof. exact nested_conflicting_never_overlap. Qed.
Print Assumptions C07_conflicting_systems_anywhere_never_inside_each_others_window.

(* the executable acceptor that suite S2 runs on the whole recorded log of a dispatch (all depths) is
   sound for that trace set: the theorem above holds of every recorded run it accepts *)
Theorem C07_nested_acceptor_sound :
  forall n rs tr, wf rs -> naccept n rs tr = true -> ntr n rs tr.
Proof. exact naccept_sound. Qed.
Print Assumptions C07_nested_acceptor_sound.

(* ... and complete: the nested acceptor decides the nested trace set (it never rejects a nested run of the model) *)
Theorem C07_nested_acceptor_decides_the_nested_trace_set :
  forall n rs tr, wf rs -> (naccept n rs tr = true <-> ntr n rs tr).
Proof. exact naccept_iff. Qed.
Print Assumptions C07_nested_acceptor_decides_the_nested_trace_set.

(* the trace set is inhabited by a genuinely nested, interleaved, repeated run *)
Theorem C07_nested_traces_exist :
  ntr 2 [RBatch 1 [] [] [] [] 5%Z 2 [RSys 2 [] [] [] [8] 1%Z; RSys 3 [] [] [9] [] 1%Z]; RSys 4 [] [] [] [7] 3%Z]
        [EF 1; EF 4; EF 2; EF 3; ER 2; ER 3; ER 4; EF 3; ER 3; EF 2; ER 2; ER 1].
Proof. exact ntr_example. Qed.
Print Assumptions C07_nested_traces_exist.

Example C07_example :
  (* the controller declares nothing, an inner system two levels down writes 8: the outer
     reader of 8 is not placed beside the batch *)
  let rs := [RBatch 1 [] [] [] [] 5%Z 1 [RBatch 2 [] [] [] [] 5%Z 2 [RSys 3 [] [] [] [8] 1%Z]]; RSys 4 [] [] [8] [] 3%Z] in
  exists b, plan rs = Ok b /\ layout_tags b = [[[1]]; [[4]]]%N.
Proof. eexists. split; vm_compute; reflexivity. Qed.

(* KNOWN FINDING KF1 (known_findings.json), stated on the model: thread-local registrations
   inside a batch builder contribute nothing to the access lists of the batch — the model is
   faithful to builder.rs here (fetch_all_reads/writes walk the stages only), so the theorems
   above speak about ordinary inner systems; the run-time witness is corpus/exec-kf1.txt *)
Theorem C07_KF1_inner_thread_locals_are_invisible_to_the_accessor :
  forall b t, all_reads (add_thread_local b t) = all_reads b /\ all_writes (add_thread_local b t) = all_writes b.
Proof. intros. split; reflexivity. Qed.
Print Assumptions C07_KF1_inner_thread_locals_are_invisible_to_the_accessor.
