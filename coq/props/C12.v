(* placeholder *)
