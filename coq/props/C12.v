(* C12 — thread-local systems. Statements only; proofs in PlanProps.v / ExecPlan.v. *)
From Shred Require Import Base SrcParams Plan PlanObs PlanLemmas PlanInv PlanLoc PlanBuild PlanProps Exec ExecProps ExecPlan BatchProps OracleProps ExecObs TraceOracles ExecOracles.

(* the thread-local list of the built dispatcher is exactly the thread-local registrations,
   in registration order, whatever else is registered around them *)
Theorem C12_thread_local_list_in_registration_order :
  forall rs b, plan rs = Ok b -> b_tl b = tl_tags rs.
Proof. exact plan_tl_order. Qed.
Print Assumptions C12_thread_local_list_in_registration_order.

(* In EVERY trace of a dispatch: the trace ends with the windows of the thread-local systems
   and nothing else; every ordinary system has released before any thread-local system
   fetches; thread-local systems run one at a time in registration order. *)
Theorem C12_thread_locals_after_all_others_in_order :
  forall rs b t,
  plan rs = Ok b -> Forall reg_time_ok1 rs ->
  traces_disp (layout_tags b) (b_tl b) t ->
  (exists t1, t = t1 ++ group_trace (tl_tags rs) /\ forall e, In e t1 -> In (ev_tag e) (sys_tags rs)) /\
  (forall s a, In s (sys_tags rs) -> In a (tl_tags rs) -> precedes (ER s) (EF a) t) /\
  (forall a c l1 l2 l3, tl_tags rs = l1 ++ a :: l2 ++ c :: l3 -> precedes (ER a) (EF c) t).
Proof. exact run_thread_locals_last. Qed.
Print Assumptions C12_thread_locals_after_all_others_in_order.

(* which thread: the staged part is handed to the pool, the thread-local part is executed by
   the thread that called dispatch *)
Theorem C12_thread_locals_on_the_calling_thread :
  forall l tl t, traces_disp_thr l tl t ->
  forall e th, In (e, th) t -> In (ev_tag e) tl -> ~ In (ev_tag e) (concat (concat l)) -> th = Caller.
Proof. exact tl_on_caller. Qed.
Print Assumptions C12_thread_locals_on_the_calling_thread.

(* convertible to the sendable form exactly when there is no thread-local system; the
   conversion hands over the same stages (it is the identity on the plan in the model:
   Dispatcher { inner, thread_local = [] } -> inner) *)
Theorem C12_sendable_iff_no_thread_locals :
  forall rs b, plan rs = Ok b -> (sendable b = true <-> tl_tags rs = []).
Proof. exact sendable_iff. Qed.
Print Assumptions C12_sendable_iff_no_thread_locals.

(* the oracle on the REAL outcome of try_into_sendable holds for the model's answer *)
Theorem C12_oracle_sendable_holds_on_model :
  forall rs b, plan rs = Ok b -> o_sendable rs (sendable b) = true.
Proof. exact o_sendable_on_model. Qed.
Print Assumptions C12_oracle_sendable_holds_on_model.

(* ---- the run-time oracle `tl_last` on every RECORDED trace ---- *)
Theorem C12_oracle_tl_last_meaning :
  forall tl tr, o_tl_last tl tr = true ->
  exists pre, tr = pre ++ group_trace tl /\ forall e, In e pre -> ~ In (ev_tag e) tl.
Proof. exact o_tl_last_meaning. Qed.
Print Assumptions C12_oracle_tl_last_meaning.
Theorem C12_oracle_tl_last_holds_on_every_model_trace :
  forall rs b t, plan rs = Ok b -> Forall reg_time_ok1 rs -> NoDup (sys_tags rs ++ tl_tags rs) ->
  traces_disp (layout_tags b) (b_tl b) t -> o_tl_last (b_tl b) t = true.
Proof. exact tl_last_on_model_traces. Qed.
Print Assumptions C12_oracle_tl_last_holds_on_every_model_trace.

Example C12_example :
  let rs := [RTL 7; RSys 1 [] [] [] [8] 3%Z; RBarrier; RTL 8; RSys 2 [] [] [8] [] 3%Z] in
  exists b, plan rs = Ok b /\ layout_tags b = [[[1]]; [[2]]]%N /\ b_tl b = [7; 8]%N /\ sendable b = false.
Proof. eexists. repeat split; vm_compute; reflexivity. Qed.
