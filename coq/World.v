(* World.v — M3: the resource container (src/world/mod.rs, entry.rs) as a state machine.
   key = (type, dynamic id).  A cell holds the type of the stored value, the value
   (serial number of the object, payload) and the borrow state of its AtomicRefCell.
   Guards (Fetch / FetchMut) are entries of a guard table.  Methods taking `&mut self`
   are enabled only while no guard is alive (borrow checker).  Every place where the Rust code
   panics is an explicit outcome.  Model only; proofs in WorldProps.v. *)
From Shred Require Import Base.
Open Scope N_scope.

Definition key := (N * N)%type.
Definition key_eqb (a b : key) : bool := (fst a =? fst b) && (snd a =? snd b).
Definition value := (N * N)%type.          (* serial of the object, payload *)

Inductive borrow := BFree | BShared (n : nat) | BExcl.     (* n = number of shared borrows - 1 *)
Record cell := mkCell { c_ty : N; c_val : value; c_b : borrow }.

Record guard := mkGuard { g_id : N; g_key : key; g_excl : bool }.

Record world := mkWorld {
  cells : list (key * cell);
  guards : list guard;
  next_guard : N;
  dropped : list N              (* serials of the objects dropped so far *)
}.
Definition empty_world : world := mkWorld [] [] 0 [].

Inductive pkind := PMissing | PAlreadyBorrowed | PAlreadyMutBorrowed | PWrongType | PNotEnabled | PBadGuard.
Inductive outcome :=
| OUnit | OBool (b : bool) | OVal (v : value) | ONone | OGuard (g : N) | OPanic (k : pkind).

(* the ways to fetch: which forms look the resource up by type only (dynamic id 0) is decided
   by the caller of [step]; what differs here: absent => None or panic, shared or exclusive,
   checked borrow (try_borrow, panics with the type name) or unchecked (borrow(), panics too) *)
Inductive fkind := FFetch | FTryFetch | FTryById | FFetchMut | FTryFetchMut | FTryMutById.
Definition fk_excl (k : fkind) : bool :=
  match k with FFetchMut | FTryFetchMut | FTryMutById => true | _ => false end.
Definition fk_panics_when_absent (k : fkind) : bool :=
  match k with FFetch | FFetchMut => true | _ => false end.

Inductive op :=
| OInsert (ty : N) (k : key) (v : value)        (* insert::<ty> / insert_by_id::<ty>(k, v) *)
| ORemove (ty : N) (k : key)                    (* remove::<ty> / remove_by_id::<ty>(k); the caller drops what it gets *)
| OEntry (ty : N) (v : value)                   (* entry::<ty>().or_insert(v); the returned guard is dropped at once *)
| OHas (k : key)                                (* has_value::<T> / has_value_raw *)
| OGetMut (k : key)                             (* get_mut::<T> / get_mut_raw: the stored value and its type *)
| OFetchOp (fk : fkind) (ty : N) (k : key)
| OClone (g : N)                                (* Fetch::clone *)
| ODrop (g : N)
| ORead (g : N)                                 (* deref a guard *)
| OWrite (g : N) (p : N).                       (* deref_mut an exclusive guard: set the payload *)

Fixpoint lookup (k : key) (cs : list (key * cell)) : option cell :=
  match cs with
  | [] => None
  | (k', c) :: r => if key_eqb k k' then Some c else lookup k r
  end.
Fixpoint update (k : key) (c : cell) (cs : list (key * cell)) : list (key * cell) :=
  match cs with
  | [] => [(k, c)]
  | (k', c') :: r => if key_eqb k k' then (k, c) :: r else (k', c') :: update k c r
  end.
Fixpoint delete (k : key) (cs : list (key * cell)) : list (key * cell) :=
  match cs with
  | [] => []
  | (k', c') :: r => if key_eqb k k' then r else (k', c') :: delete k r
  end.
Fixpoint find_guard (g : N) (gs : list guard) : option guard :=
  match gs with
  | [] => None
  | x :: r => if g_id x =? g then Some x else find_guard g r
  end.
Definition remove_guard (g : N) (gs : list guard) : list guard := filter (fun x => negb (g_id x =? g)) gs.

Definition no_guards (w : world) : bool := match guards w with [] => true | _ => false end.

Definition set_cells (w : world) (cs : list (key * cell)) : world := mkWorld cs (guards w) (next_guard w) (dropped w).

Definition acquire (b : borrow) (excl : bool) : option borrow :=
  match b, excl with
  | BFree, true => Some BExcl
  | BFree, false => Some (BShared O)
  | BShared n, false => Some (BShared (S n))
  | _, _ => None
  end.
Definition release (b : borrow) : borrow :=
  match b with
  | BShared (S n) => BShared n
  | _ => BFree
  end.

Definition step (w : world) (o : op) : world * outcome :=
  match o with
  | OInsert ty k v =>
      if negb (no_guards w) then (w, OPanic PNotEnabled)
      else if negb (ty =? fst k) then
        (* the argument is dropped by the unwinding; the world itself is untouched *)
        (mkWorld (cells w) (guards w) (next_guard w) (dropped w ++ [fst v]), OPanic PWrongType)
      else
        let dr := match lookup k (cells w) with Some c => [fst (c_val c)] | None => [] end in
        (mkWorld (update k (mkCell ty v BFree) (cells w)) (guards w) (next_guard w) (dropped w ++ dr), OUnit)
  | ORemove ty k =>
      if negb (no_guards w) then (w, OPanic PNotEnabled)
      else if negb (ty =? fst k) then (w, OPanic PWrongType)
      else match lookup k (cells w) with
           | None => (w, ONone)
           | Some c => (mkWorld (delete k (cells w)) (guards w) (next_guard w) (dropped w ++ [fst (c_val c)]), OVal (c_val c))
           end
  | OEntry ty v =>
      if negb (no_guards w) then (w, OPanic PNotEnabled)
      else match lookup (ty, 0) (cells w) with
           | Some c => (mkWorld (cells w) (guards w) (next_guard w) (dropped w ++ [fst v]), OVal (c_val c))
           | None => (set_cells w (update (ty, 0) (mkCell ty v BFree) (cells w)), OVal v)
           end
  | OHas k => (w, OBool (match lookup k (cells w) with Some _ => true | None => false end))
  | OGetMut k =>
      if negb (no_guards w) then (w, OPanic PNotEnabled)
      else match lookup k (cells w) with
           | Some c => (w, OVal (c_ty c, snd (c_val c)))        (* reported: type of the stored object, payload *)
           | None => (w, ONone)
           end
  | OFetchOp fk ty k =>
      if negb (ty =? fst k) then (w, OPanic PWrongType)
      else match lookup k (cells w) with
           | None => (w, if fk_panics_when_absent fk then OPanic PMissing else ONone)
           | Some c =>
               match acquire (c_b c) (fk_excl fk) with
               | None => (w, OPanic (match c_b c with BExcl => PAlreadyMutBorrowed | _ => PAlreadyBorrowed end))
               | Some b' =>
                   let g := next_guard w in
                   (mkWorld (update k (mkCell (c_ty c) (c_val c) b') (cells w))
                            (guards w ++ [mkGuard g k (fk_excl fk)]) (N.succ g) (dropped w), OGuard g)
               end
           end
  | OClone g =>
      match find_guard g (guards w) with
      | Some x =>
          if g_excl x then (w, OPanic PBadGuard)
          else match lookup (g_key x) (cells w) with
               | Some c =>
                   match acquire (c_b c) false with
                   | Some b' =>
                       let g' := next_guard w in
                       (mkWorld (update (g_key x) (mkCell (c_ty c) (c_val c) b') (cells w))
                                (guards w ++ [mkGuard g' (g_key x) false]) (N.succ g') (dropped w), OGuard g')
                   | None => (w, OPanic PAlreadyMutBorrowed)
                   end
               | None => (w, OPanic PBadGuard)
               end
      | None => (w, OPanic PBadGuard)
      end
  | ODrop g =>
      match find_guard g (guards w) with
      | Some x =>
          match lookup (g_key x) (cells w) with
          | Some c => (mkWorld (update (g_key x) (mkCell (c_ty c) (c_val c) (release (c_b c))) (cells w))
                               (remove_guard g (guards w)) (next_guard w) (dropped w), OUnit)
          | None => (w, OPanic PBadGuard)
          end
      | None => (w, OPanic PBadGuard)
      end
  | ORead g =>
      match find_guard g (guards w) with
      | Some x => match lookup (g_key x) (cells w) with
                  | Some c => (w, OVal (c_val c))
                  | None => (w, OPanic PBadGuard)
                  end
      | None => (w, OPanic PBadGuard)
      end
  | OWrite g p =>
      match find_guard g (guards w) with
      | Some x =>
          if negb (g_excl x) then (w, OPanic PBadGuard)
          else match lookup (g_key x) (cells w) with
               | Some c => (set_cells w (update (g_key x) (mkCell (c_ty c) (fst (c_val c), p) (c_b c)) (cells w)), OUnit)
               | None => (w, OPanic PBadGuard)
               end
      | None => (w, OPanic PBadGuard)
      end
  end.

Fixpoint run (w : world) (os : list op) : world * list outcome :=
  match os with
  | [] => (w, [])
  | o :: r => let '(w1, x) := step w o in let '(w2, xs) := run w1 r in (w2, x :: xs)
  end.

(* ---------------- observations (probe after every step) ---------------- *)

Definition borrow_class (b : borrow) : N := match b with BFree => 0 | BShared _ => 1 | BExcl => 2 end.
(* per key of a universe: (present, borrow class, serial, payload) *)
Definition probe (w : world) (univ : list key) : list (option (N * N * N)) :=
  map (fun k => match lookup k (cells w) with
                | Some c => Some (borrow_class (c_b c), fst (c_val c), snd (c_val c))
                | None => None
                end) univ.

(* the abstract view: a finite map from keys to values *)
Definition abs (w : world) : list (key * value) := map (fun kc => (fst kc, c_val (snd kc))) (cells w).
