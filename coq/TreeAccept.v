(* TreeAccept.v — C16: the acceptor that suite S6 runs on recorded traces of a Par/Seq tree is sound:
   a recorded trace it accepts IS a trace of the model (so tree_once, seq_ordered ... apply to it). *)
From Shred Require Import Base Plan PlanLemmas Exec ExecProps ParSeq ParSeqProps.
From Coq Require Import Permutation.
Open Scope N_scope.

(* ---------------- lists ---------------- *)

Lemma nd_app_l {A} (a c : list A) : NoDup (a ++ c) -> NoDup a.
Proof. apply NoDup_app_remove_r. Qed.
Lemma nd_app_r {A} (a c : list A) : NoDup (a ++ c) -> NoDup c.
Proof. apply NoDup_app_remove_l. Qed.
Lemma nd_app_disj {A} (a c : list A) x : NoDup (a ++ c) -> In x a -> ~ In x c.
Proof.
  induction a as [|y a IH]; cbn; intros H Hin; [destruct Hin|]. inversion H as [|? ? Hn ND]; subst.
  destruct Hin as [->|Hin]; [|auto]. intros Hc. apply Hn. apply in_or_app. now right.
Qed.
Lemma nd_concat_in {A} (ls : list (list A)) l : NoDup (concat ls) -> In l ls -> NoDup l.
Proof.
  induction ls as [|x ls IH]; intros ND Hin; [destruct Hin|]. cbn in ND. destruct Hin as [->|Hin].
  - eapply nd_app_l; eauto.
  - apply IH; auto. eapply nd_app_r; eauto.
Qed.

Lemma proj_proj_sub a b tr : (forall x, In x a -> In x b) -> proj a (proj b tr) = proj a tr.
Proof.
  intros H. unfold proj. apply filter_filter_disj. intros e _ Hm. apply memN_In. apply H. now apply memN_In.
Qed.
Lemma proj_In tags tr e : In e (proj tags tr) <-> In e tr /\ In (ev_tag e) tags.
Proof. unfold proj. rewrite filter_In. now rewrite memN_In. Qed.

(* any trace is an interleaving of its projections onto disjoint sets of tags that cover it *)
Lemma proj_parts_shuffleN : forall (parts : list (list N)) seg,
  NoDup (concat parts) ->
  (forall e, In e seg -> In (ev_tag e) (concat parts)) ->
  ShuffleN (map (fun p => proj p seg) parts) seg.
Proof.
  induction parts as [|g parts IH]; intros seg ND Hall.
  - destruct seg as [|e seg]; [constructor|]. exfalso. apply (Hall e). now left.
  - cbn [map]. cbn [concat] in ND.
    set (rest := filter (fun e => negb (memN (ev_tag e) g)) seg).
    apply (SN_cons (proj g seg) (map (fun p => proj p seg) parts) rest seg).
    + assert (E : map (fun p => proj p seg) parts = map (fun p => proj p rest) parts).
      { apply map_ext_in. intros p Hp. unfold proj, rest. symmetry. apply filter_filter_disj.
        intros e He Hm. apply negb_true_iff. apply memN_false. intros Hg. apply memN_In in Hm.
        apply (nd_app_disj _ _ _ ND Hg). apply in_concat. eauto. }
      rewrite E. apply IH; [eapply nd_app_r; eauto|].
      intros e He. unfold rest in He. apply filter_In in He. destruct He as [He Hn].
      specialize (Hall e He). cbn in Hall. apply in_app_or in Hall. destruct Hall as [Hall|Hall]; auto.
      apply negb_true_iff in Hn. apply memN_In in Hall. congruence.
    + unfold proj, rest. apply shuffle_filter.
Qed.

(* ---------------- o_once under projection ---------------- *)

Lemma count_ev_proj x tags tr : In (ev_tag x) tags -> count_ev x (proj tags tr) = count_ev x tr.
Proof.
  intros H. unfold count_ev, proj. f_equal. apply filter_filter_disj. intros e _ He. apply ev_eqb_eq in He. subst e.
  now apply memN_In.
Qed.

Lemma existsb_filter_ev (p : ev -> bool) y l : p y = true -> existsb (ev_eqb y) (filter p l) = existsb (ev_eqb y) l.
Proof.
  intros Hy. induction l as [|e l IH]; cbn; auto. destruct (p e) eqn:P; cbn; [now rewrite IH|].
  destruct (ev_eqb y e) eqn:E; [|exact IH]. apply ev_eqb_eq in E. subst. congruence.
Qed.
Lemma before_in_filter (p : ev -> bool) x y tr : p x = true -> p y = true ->
  before_in x y (filter p tr) = before_in x y tr.
Proof.
  intros Hx Hy. induction tr as [|e tr IH]; cbn [filter before_in]; auto. destruct (p e) eqn:P; cbn [before_in].
  - destruct (ev_eqb e x); [now apply existsb_filter_ev|exact IH].
  - destruct (ev_eqb e x) eqn:E; [|exact IH]. apply ev_eqb_eq in E. subst. congruence.
Qed.

Lemma o_once_spec tags tr : o_once tags tr = true <->
  (forall t, In t tags -> count_ev (EF t) tr = 1%nat /\ count_ev (ER t) tr = 1%nat /\ before_in (EF t) (ER t) tr = true) /\
  (forall e, In e tr -> In (ev_tag e) tags).
Proof.
  unfold o_once. rewrite andb_true_iff, !forallb_forall. split.
  - intros [A B]. split.
    + intros t Ht. specialize (A t Ht). apply andb_true_iff in A. destruct A as [A A3]. apply andb_true_iff in A. destruct A as [A1 A2].
      apply Nat.eqb_eq in A1, A2. auto.
    + intros e He. apply memN_In. auto.
  - intros [A B]. split.
    + intros t Ht. destruct (A t Ht) as (A1 & A2 & A3). rewrite A1, A2, A3. reflexivity.
    + intros e He. apply memN_In. auto.
Qed.

Lemma o_once_proj tags sub tr : o_once tags tr = true -> (forall x, In x sub -> In x tags) -> o_once sub (proj sub tr) = true.
Proof.
  intros H Hs. apply o_once_spec in H. destruct H as [A B]. apply o_once_spec. split.
  - intros t Ht. destruct (A t (Hs t Ht)) as (A1 & A2 & A3).
    rewrite !count_ev_proj by (cbn; auto). split; [auto|split; auto].
    unfold proj. rewrite before_in_filter; auto; cbn; now apply memN_In.
  - intros e He. apply proj_In in He. tauto.
Qed.

(* ---------------- all_before ---------------- *)

Fixpoint ab_go (a b : list N) (tr : list ev) (seen_b : bool) : bool :=
  match tr with
  | [] => true
  | e :: r => if memN (ev_tag e) b then ab_go a b r true
              else if memN (ev_tag e) a then negb seen_b && ab_go a b r seen_b
              else ab_go a b r seen_b
  end.
Lemma all_before_go a b tr : all_before a b tr = ab_go a b tr false.
Proof. unfold all_before. generalize false. induction tr as [|e r IH]; intros s; cbn; auto. now rewrite !IH. Qed.

Lemma ab_go_filter (p : ev -> bool) a b tr : (forall e, In e tr -> In (ev_tag e) a \/ In (ev_tag e) b -> p e = true) ->
  forall s, ab_go a b (filter p tr) s = ab_go a b tr s.
Proof.
  induction tr as [|e r IH]; intros H s; cbn [filter ab_go]; auto.
  assert (Hr : forall e, In e r -> In (ev_tag e) a \/ In (ev_tag e) b -> p e = true) by (intros; apply H; auto; now right).
  destruct (p e) eqn:P; cbn [ab_go].
  - now rewrite !IH.
  - destruct (memN (ev_tag e) b) eqn:Mb.
    + rewrite (H e (or_introl eq_refl)) in P; [discriminate|]. right. now apply memN_In.
    + destruct (memN (ev_tag e) a) eqn:Ma; [|now apply IH].
      rewrite (H e (or_introl eq_refl)) in P; [discriminate|]. left. now apply memN_In.
Qed.

(* no event of [a] comes after an event of [b] *)
Definition no_after (a b : list N) (tr : list ev) : Prop :=
  forall t1 e t2, tr = t1 ++ e :: t2 -> In (ev_tag e) a -> forall e', In e' t1 -> ~ In (ev_tag e') b.

Lemma ab_go_no_after a b : (forall x, In x a -> ~ In x b) -> forall tr s, ab_go a b tr s = true ->
  (s = true -> forall e, In e tr -> ~ In (ev_tag e) a) /\ no_after a b tr.
Proof.
  intros Dj. induction tr as [|e r IH]; intros s H.
  - split; [intros _ e []|]. intros t1 e t2 E. destruct t1; discriminate.
  - cbn [ab_go] in H. destruct (memN (ev_tag e) b) eqn:Mb.
    + destruct (IH true H) as [A B]. apply memN_In in Mb. split.
      * intros _ x [<-|Hx]; [intros Ha; now apply (Dj _ Ha)|now apply A].
      * intros t1 x t2 E Hxa e' He'. destruct t1 as [|y t1]; [destruct He'|]. cbn in E. inversion E; subst.
        exfalso. apply (A eq_refl x); auto. apply in_or_app. right. now left.
    + destruct (memN (ev_tag e) a) eqn:Ma.
      * apply andb_true_iff in H. destruct H as [Hs H]. apply negb_true_iff in Hs. subst s.
        destruct (IH false H) as [_ B]. split; [discriminate|].
        intros t1 x t2 E Hxa e' He'. destruct t1 as [|y t1]; [destruct He'|]. cbn in E. inversion E; subst.
        destruct He' as [<-|He']; [now apply memN_false|]. eapply B; eauto.
      * destruct (IH s H) as [A B]. split.
        -- intros Hs x [<-|Hx]; [now apply memN_false|now apply A].
        -- intros t1 x t2 E Hxa e' He'. destruct t1 as [|y t1]; [destruct He'|]. cbn in E. inversion E; subst.
           destruct He' as [<-|He']; [now apply memN_false|]. eapply B; eauto.
Qed.

Lemma no_after_app_r a b1 b2 tr : no_after a b1 tr -> no_after a b2 tr -> no_after a (b1 ++ b2) tr.
Proof.
  intros H1 H2 t1 e t2 E Ha e' He' Hb. apply in_app_or in Hb. destruct Hb as [Hb|Hb]; [eapply H1|eapply H2]; eauto.
Qed.
Lemma no_after_nil a tr : no_after a [] tr.
Proof. intros t1 e t2 _ _ e' _ []. Qed.

Lemma no_after_split a b tr : (forall x, In x a -> ~ In x b) -> no_after a b tr ->
  (forall e, In e tr -> In (ev_tag e) a \/ In (ev_tag e) b) -> tr = proj a tr ++ proj b tr.
Proof.
  intros Dj. induction tr as [|e r IH]; intros NA Hall; [reflexivity|].
  assert (NAr : no_after a b r).
  { intros t1 x t2 E Hx e' He'. apply (NA (e :: t1) x t2); [now rewrite E|auto|now right]. }
  assert (Hr : forall e, In e r -> In (ev_tag e) a \/ In (ev_tag e) b) by (intros; apply Hall; now right).
  unfold proj in *. cbn [filter]. destruct (Hall e (or_introl eq_refl)) as [Ha|Hb].
  - rewrite (proj2 (memN_In _ _) Ha). rewrite (proj2 (memN_false _ _) (Dj _ Ha)). cbn [app]. f_equal. now apply IH.
  - assert (Hna : ~ In (ev_tag e) a) by (intros Ha; now apply (Dj _ Ha)).
    rewrite (proj2 (memN_false _ _) Hna), (proj2 (memN_In _ _) Hb).
    (* nothing of [a] follows *)
    assert (Z : filter (fun e0 => memN (ev_tag e0) a) r = []).
    { clear IH NAr. assert (G : forall x, In x r -> memN (ev_tag x) a = false).
      { intros x Hx. apply memN_false. intros Hxa. apply in_split in Hx. destruct Hx as (t1 & t2 & ->).
        apply (NA (e :: t1) x t2 eq_refl Hxa e); [now left|exact Hb]. }
      clear - G. induction r as [|y r IHr]; [reflexivity|]. cbn [filter]. rewrite (G y (or_introl eq_refl)). apply IHr. intros; apply G; now right. }
    rewrite Z. cbn [app]. f_equal. specialize (IH NAr Hr). rewrite Z in IH. exact IH.
Qed.

(* ---------------- order_ok ---------------- *)

Lemma forallb_ext_in {A} (f g : A -> bool) l : (forall x, In x l -> f x = g x) -> forallb f l = forallb g l.
Proof.
  induction l as [|x l IH]; intros H; [reflexivity|]. cbn. rewrite (H x (or_introl eq_refl)), IH; auto. intros; apply H; now right.
Qed.

Lemma order_ok_par l tr : order_ok (TPar l) tr = forallb (fun c => order_ok c tr) l.
Proof. induction l as [|c r IH]; [reflexivity|]. cbn [forallb]. rewrite <- IH. reflexivity. Qed.
Lemma order_ok_seq l tr : order_ok (TSeq l) tr = forallb (fun c => order_ok c tr) l && seq_pairs_ok l tr.
Proof.
  assert (E : forall l, (fix go (l : list tree) : bool := match l with [] => true | c :: r => order_ok c tr && go r end) l
                        = forallb (fun c => order_ok c tr) l).
  { induction l0 as [|c r IH]; [reflexivity|]. cbn [forallb]. now rewrite <- IH. }
  cbn [order_ok]. now rewrite E.
Qed.

Lemma seq_pairs_ok_proj L l tr : (forall c x, In c l -> In x (t_leaves c) -> In x L) ->
  seq_pairs_ok l (proj L tr) = seq_pairs_ok l tr.
Proof.
  induction l as [|c r IH]; intros H; [reflexivity|]. cbn [seq_pairs_ok]. rewrite IH by (intros; eapply H; eauto; now right).
  f_equal. apply forallb_ext_in. intros d Hd. rewrite !all_before_go. unfold proj. apply ab_go_filter.
  intros e _ [Ha|Hb]; apply memN_In; [apply (H c)|apply (H d)]; auto; [now left|now right].
Qed.

Lemma order_ok_proj t : forall L tr, (forall x, In x (t_leaves t) -> In x L) -> order_ok t (proj L tr) = order_ok t tr.
Proof.
  induction t as [x r w|l IH|l IH] using tree_ind'; intros L tr H; [reflexivity| |].
  - rewrite !order_ok_par. apply forallb_ext_in. intros c Hc. rewrite Forall_forall in IH. apply IH; auto.
    intros x Hx. apply H. rewrite t_leaves_par. apply in_concat. exists (t_leaves c). split; auto. now apply in_map.
  - rewrite !order_ok_seq. f_equal.
    + apply forallb_ext_in. intros c Hc. rewrite Forall_forall in IH. apply IH; auto.
      intros x Hx. apply H. rewrite t_leaves_seq. apply in_concat. exists (t_leaves c). split; auto. now apply in_map.
    + apply seq_pairs_ok_proj. intros c x Hc Hx. apply H. rewrite t_leaves_seq. apply in_concat. exists (t_leaves c). split; auto. now apply in_map.
Qed.

(* ---------------- a Seq node: the trace is the concatenation of the children's parts ---------------- *)

Lemma seq_pairs_concat : forall l tr,
  NoDup (concat (map t_leaves l)) ->
  (forall e, In e tr -> In (ev_tag e) (concat (map t_leaves l))) ->
  seq_pairs_ok l tr = true ->
  tr = concat (map (fun c => proj (t_leaves c) tr) l).
Proof.
  induction l as [|c r IH]; intros tr ND Hall H.
  - destruct tr as [|e tr]; [reflexivity|]. exfalso. apply (Hall e). now left.
  - cbn [map concat] in *. cbn [seq_pairs_ok] in H. apply andb_true_iff in H. destruct H as [H1 H2].
    set (rest := concat (map t_leaves r)) in *.
    assert (Dj : forall x, In x (t_leaves c) -> ~ In x rest) by (intros x Hx; eapply nd_app_disj; eauto).
    assert (NA : no_after (t_leaves c) rest tr).
    { rewrite forallb_forall in H1. unfold rest. clear - H1 Dj. induction r as [|d r IHr]; [apply no_after_nil|].
      cbn [map concat]. apply no_after_app_r.
      - specialize (H1 d (or_introl eq_refl)). rewrite all_before_go in H1.
        apply (ab_go_no_after (t_leaves c) (t_leaves d)) in H1; [tauto|].
        intros x Hx Hd. apply (Dj x Hx). unfold rest. cbn [map concat]. apply in_or_app. now left.
      - apply IHr; [intros; apply H1; now right|]. intros x Hx Hr. apply (Dj x Hx). cbn [map concat]. apply in_or_app. now right. }
    assert (Sp : tr = proj (t_leaves c) tr ++ proj rest tr).
    { apply no_after_split; auto. intros e He. apply in_app_or. now apply Hall. }
    rewrite Sp at 1. f_equal.
    rewrite (IH (proj rest tr)).
    + f_equal. apply map_ext_in. intros d Hd. apply proj_proj_sub. intros x Hx. unfold rest. apply in_concat. exists (t_leaves d). split; auto. now apply in_map.
    + eapply nd_app_r; eauto.
    + intros e He. apply proj_In in He. tauto.
    + rewrite seq_pairs_ok_proj; auto. intros d x Hd Hx. unfold rest. apply in_concat. exists (t_leaves d). split; auto. now apply in_map.
Qed.

(* ---------------- a leaf ---------------- *)

Lemma leaf_len x tr : (forall e, In e tr -> ev_tag e = x) -> length tr = (count_ev (EF x) tr + count_ev (ER x) tr)%nat.
Proof.
  induction tr as [|e tr IH]; intros H; [reflexivity|]. unfold count_ev in *. cbn [filter length].
  assert (Ht : ev_tag e = x) by (apply H; now left). rewrite IH by (intros; apply H; now right).
  destruct e as [t|t]; cbn in Ht; subst t; cbn [ev_eqb]; rewrite N.eqb_refl; cbn [length]; lia.
Qed.

Lemma leaf_trace x tr : o_once [x] tr = true -> tr = [EF x; ER x].
Proof.
  intros H. apply o_once_spec in H. destruct H as [A B]. destruct (A x (or_introl eq_refl)) as (A1 & A2 & A3).
  assert (T : forall e, In e tr -> ev_tag e = x) by (intros e He; destruct (B e He) as [E|[]]; auto).
  pose proof (leaf_len x tr T) as L. rewrite A1, A2 in L.
  destruct tr as [|e1 [|e2 [|e3 r]]]; cbn in L; try lia.
  assert (T1 := T e1 (or_introl eq_refl)). assert (T2 := T e2 (or_intror (or_introl eq_refl))).
  unfold count_ev in A1, A2.
  destruct e1 as [t1|t1], e2 as [t2|t2]; cbn in T1, T2; subst t1 t2; cbn [filter ev_eqb before_in existsb] in *;
    rewrite ?N.eqb_refl in *; cbn in *; try discriminate; reflexivity.
Qed.

(* ---------------- the acceptor is sound ---------------- *)

Lemma kids_traces_map (f : tree -> list ev) l : (forall c, In c l -> tr_tree c (f c)) -> kids_traces l (map f l).
Proof. induction l as [|c r IH]; intros H; cbn; auto. split; [apply H; now left|apply IH; intros; apply H; now right]. Qed.

Lemma tree_accept_sound_aux t : forall tr,
  NoDup (t_leaves t) -> o_once (t_leaves t) tr = true -> order_ok t tr = true -> tr_tree t tr.
Proof.
  induction t as [x r w|l IH|l IH] using tree_ind'; intros tr ND O K.
  - cbn [tr_tree]. now apply leaf_trace.
  - rewrite t_leaves_par in *. rewrite order_ok_par in K. rewrite forallb_forall in K. rewrite Forall_forall in IH.
    apply tr_par. exists (map (fun c => proj (t_leaves c) tr) l). split.
    + apply kids_traces_map. intros c Hc.
      assert (Sub : forall x, In x (t_leaves c) -> In x (concat (map t_leaves l))).
      { intros x Hx. apply in_concat. exists (t_leaves c). split; auto. now apply in_map. }
      apply IH; auto.
      * eapply nd_concat_in; eauto. now apply in_map.
      * eapply o_once_proj; eauto.
      * rewrite order_ok_proj; auto.
    + rewrite <- (map_map t_leaves (fun p => proj p tr)). apply proj_parts_shuffleN; auto.
      apply o_once_spec in O. tauto.
  - rewrite t_leaves_seq in *. rewrite order_ok_seq in K. apply andb_true_iff in K. destruct K as [K K2].
    rewrite forallb_forall in K. rewrite Forall_forall in IH.
    apply tr_seq. exists (map (fun c => proj (t_leaves c) tr) l). split.
    + apply kids_traces_map. intros c Hc.
      assert (Sub : forall x, In x (t_leaves c) -> In x (concat (map t_leaves l))).
      { intros x Hx. apply in_concat. exists (t_leaves c). split; auto. now apply in_map. }
      apply IH; auto.
      * eapply nd_concat_in; eauto. now apply in_map.
      * eapply o_once_proj; eauto.
      * rewrite order_ok_proj; auto.
    + apply seq_pairs_concat; auto. apply o_once_spec in O. tauto.
Qed.

(* C16: a recorded trace that the acceptor accepts is a trace of the tree — whatever the depth and the fan-out *)
Theorem tree_accept_sound t tr : NoDup (t_leaves t) -> tree_accept t tr = true -> tr_tree t tr.
Proof.
  intros ND H. unfold tree_accept in H. apply andb_true_iff in H. destruct H. now apply tree_accept_sound_aux.
Qed.

(* not vacuous: it accepts an overlapping trace of a nested tree, and rejects one that breaks a Seq *)
Example tree_accept_example :
  let t := TSeq [TPar [TLeaf 1 [] [8]; TSeq [TLeaf 2 [9] []; TLeaf 3 [] [9]]]; TLeaf 4 [8] []] in
  tree_accept t [EF 2; EF 1; ER 2; EF 3; ER 1; ER 3; EF 4; ER 4] = true /\
  tree_accept t [EF 2; EF 1; EF 3; ER 2; ER 1; ER 3; EF 4; ER 4] = false.
Proof. split; vm_compute; reflexivity. Qed.
