(* PlanInv.v — the planner invariant, proved for every reachable stage table:
   I2 ids = ids of the boxed systems, I3 accumulated access = union of the members',
   I4 time/size bounds (so no capacity or arithmetic panic), no empty stage,
   I5 pairwise isolation of the groups of a stage;  and totality of placement. *)
From Shred Require Import Base SrcParams Plan PlanLemmas.
From Coq Require Import Permutation.

(* ---------------- side conditions on the constants read from the source ---------------- *)

Definition max_time : Z := fold_right Z.max 0%Z time_values.

Definition params_ok : bool :=
  (1 <=? cap)%nat && (Z.of_nat cap * max_time <=? 127)%Z && forallb (fun t => (1 <=? t)%Z) time_values.

(* re-proved by the kernel for the values found in the source NOW *)
Lemma params_ok_true : params_ok = true.
Proof. vm_compute. reflexivity. Qed.

(* proofs below use the constants only through the lemmas that follow *)
Global Opaque cap join_slack time_values.

Lemma cap_pos : (1 <= cap)%nat.
Proof.
  pose proof params_ok_true as H. unfold params_ok in H.
  apply andb_true_iff in H. destruct H as [H _]. apply andb_true_iff in H. destruct H as [H _].
  now apply Nat.leb_le in H.
Qed.

Lemma cap_time_bound : (Z.of_nat cap * max_time <= 127)%Z.
Proof.
  pose proof params_ok_true as H. unfold params_ok in H.
  apply andb_true_iff in H. destruct H as [H _]. apply andb_true_iff in H. destruct H as [_ H].
  now apply Z.leb_le in H.
Qed.

Definition time_ok (t : Z) : Prop := In t time_values.

Lemma fold_max_ge l : forall t, In t l -> (t <= fold_right Z.max 0 l)%Z.
Proof. induction l as [|x l IH]; intros t Ht; [destruct Ht|]. destruct Ht as [->|H]; cbn [fold_right]; [lia|]. specialize (IH t H). lia. Qed.

Lemma time_ok_bounds t : time_ok t -> (1 <= t <= max_time)%Z.
Proof.
  intros H. split.
  - pose proof params_ok_true as P. unfold params_ok in P. apply andb_true_iff in P. destruct P as [_ P].
    rewrite forallb_forall in P. specialize (P t H). now apply Z.leb_le in P.
  - now apply fold_max_ge.
Qed.

Lemma max_time_nonneg : (0 <= max_time)%Z.
Proof. unfold max_time. induction time_values as [|x l IH]; cbn [fold_right]; lia. Qed.

(* ---------------- group / stage invariants ---------------- *)

Definition join_limit : nat := Nat.max 1 (cap - join_slack).

Lemma join_limit_le_cap : (join_limit <= cap)%nat.
Proof. unfold join_limit. pose proof cap_pos. lia. Qed.

Record group_ok (g : group) : Prop := {
  gk_ids : g_ids g = map s_id (g_mem g);
  gk_reads : g_reads g = concat (map s_reads (g_mem g));
  gk_writes : g_writes g = concat (map s_writes (g_mem g));
  gk_time : g_time g = sumZ (map s_time (g_mem g));
  gk_len : (1 <= length (g_mem g) <= join_limit)%nat;
  gk_times : Forall (fun s => time_ok (s_time s)) (g_mem g)
}.

Definition gconf (a b : group) : bool :=
  rw_conflict (g_reads a) (g_writes a) (g_reads b) (g_writes b).

Definition stage_iso (st : stage) : Prop := ForallOrdPairs (fun a b => gconf a b = false) st.

Record stage_ok (st : stage) : Prop := {
  sk_nonempty : st <> [];
  sk_groups : Forall group_ok st;
  sk_iso : stage_iso st
}.

Lemma sum_times_bound (l : list sys) :
  Forall (fun s => time_ok (s_time s)) l ->
  (0 <= sumZ (map s_time l) <= Z.of_nat (length l) * max_time)%Z.
Proof.
  induction 1 as [|s l Hs Hl IH]; cbn [map sumZ length].
  - lia.
  - apply time_ok_bounds in Hs. lia.
Qed.

Lemma group_time_bound g : group_ok g -> (0 <= g_time g <= Z.of_nat (length (g_mem g)) * max_time)%Z.
Proof. intros H. rewrite (gk_time _ H). apply sum_times_bound. apply (gk_times _ H). Qed.

Lemma group_time_127 g : group_ok g -> (0 <= g_time g <= 127)%Z.
Proof.
  intros H. pose proof (group_time_bound g H) as B. pose proof (gk_len _ H) as L.
  pose proof join_limit_le_cap. pose proof cap_time_bound. pose proof max_time_nonneg. nia.
Qed.

(* ---------------- push_sys ---------------- *)

Definition pushed (s : sys) (g : group) : group :=
  mkGroup (g_ids g ++ [s_id s]) (g_reads g ++ s_reads s) (g_writes g ++ s_writes s)
          (g_time g + s_time s) (g_mem g ++ [s]).

Lemma push_sys_empty s :
  time_ok (s_time s) -> push_sys s empty_group = Ok (pushed s empty_group).
Proof.
  intros Ht. unfold push_sys. cbn [g_mem empty_group length].
  pose proof cap_pos. destruct (Nat.ltb_spec 0 cap); [|lia].
  unfold u8_add. cbn [g_time empty_group].
  apply time_ok_bounds in Ht. pose proof cap_time_bound. pose proof cap_pos.
  destruct (Z.leb_spec (0 + s_time s) 255); [reflexivity|nia].
Qed.

Lemma push_sys_join s g :
  group_ok g -> time_ok (s_time s) -> (length (g_mem g) < cap - join_slack)%nat ->
  push_sys s g = Ok (pushed s g).
Proof.
  intros Hg Ht Hl. unfold push_sys.
  destruct (Nat.ltb_spec (length (g_mem g)) cap); [|lia].
  unfold u8_add. pose proof (group_time_bound g Hg). apply time_ok_bounds in Ht.
  pose proof cap_time_bound. pose proof max_time_nonneg.
  destruct (Z.leb_spec (g_time g + s_time s) 255); [reflexivity|nia].
Qed.

Lemma sumZ_app a b : sumZ (a ++ b) = (sumZ a + sumZ b)%Z.
Proof. induction a as [|x a IH]; cbn [sumZ app]; lia. Qed.

Lemma join_limit_ge1 : (1 <= join_limit)%nat.
Proof. unfold join_limit. lia. Qed.

Lemma pushed_empty_ok s : time_ok (s_time s) -> group_ok (pushed s empty_group).
Proof.
  intros Ht. pose proof join_limit_ge1.
  constructor; cbn [pushed empty_group g_ids g_reads g_writes g_time g_mem map concat sumZ app length];
    auto; try (now rewrite app_nil_r); try lia.
Qed.

Lemma pushed_join_ok s g :
  group_ok g -> time_ok (s_time s) -> (length (g_mem g) < cap - join_slack)%nat ->
  group_ok (pushed s g).
Proof.
  intros Hg Ht Hl. destruct Hg as [Hi Hr Hw Htm Hlen Hts].
  constructor; cbn [pushed g_ids g_reads g_writes g_time g_mem].
  - rewrite map_app, Hi. reflexivity.
  - rewrite map_app, concat_app, Hr. cbn [map concat]. now rewrite app_nil_r.
  - rewrite map_app, concat_app, Hw. cbn [map concat]. now rewrite app_nil_r.
  - rewrite map_app, sumZ_app, Htm. cbn [map sumZ]. lia.
  - rewrite app_length. cbn [length]. unfold join_limit. lia.
  - apply Forall_app. split; auto.
Qed.

(* ---------------- isolation (I5) ---------------- *)

Lemma FOP_app_one {A} (R : A -> A -> Prop) l x :
  ForallOrdPairs R l -> Forall (fun a => R a x) l -> ForallOrdPairs R (l ++ [x]).
Proof.
  induction 1 as [|a l Ha Hl IH]; cbn; intros HF.
  - constructor; constructor.
  - inversion HF; subst. constructor.
    + apply Forall_app. split; auto.
    + apply IH; auto.
Qed.

Lemma FOP_app_inv {A} (R : A -> A -> Prop) l1 l2 :
  ForallOrdPairs R (l1 ++ l2) ->
  ForallOrdPairs R l1 /\ ForallOrdPairs R l2 /\ Forall (fun a => Forall (R a) l2) l1.
Proof.
  induction l1 as [|a l1 IH]; cbn; intros H.
  - repeat split; auto; constructor.
  - inversion H; subst. apply IH in H3. destruct H3 as (A1 & A2 & A3).
    apply Forall_app in H2. destruct H2 as [B1 B2]. repeat split; auto; constructor; auto.
Qed.

Lemma FOP_app {A} (R : A -> A -> Prop) l1 l2 :
  ForallOrdPairs R l1 -> ForallOrdPairs R l2 -> Forall (fun a => Forall (R a) l2) l1 ->
  ForallOrdPairs R (l1 ++ l2).
Proof.
  induction 1 as [|a l1 Ha Hl IH]; cbn; intros H2 H3; auto.
  inversion H3; subst. constructor.
  - apply Forall_app. split; auto.
  - apply IH; auto.
Qed.

Lemma gconf_sym a b : gconf a b = gconf b a.
Proof. apply rw_conflict_sym. Qed.

Lemma gconf_pushed_empty s g :
  gconf g (pushed s empty_group) = gconfl (s_reads s) (s_writes s) g.
Proof. unfold gconf, gconfl, pushed; cbn. apply rw_conflict_sym. Qed.

Lemma gconf_pushed_l s x g :
  gconf (pushed s x) g = gconf x g || gconfl (s_reads s) (s_writes s) g.
Proof.
  unfold gconf, gconfl, pushed; cbn [g_reads g_writes].
  rewrite rw_conflict_sym, rw_conflict_app_r. f_equal; apply rw_conflict_sym.
Qed.

Lemma new_group_preserves_iso st s :
  stage_iso st -> Forall (fun g => gconfl (s_reads s) (s_writes s) g = false) st ->
  stage_iso (st ++ [pushed s empty_group]).
Proof.
  intros Hiso Hn. apply FOP_app_one; auto.
  eapply Forall_impl; [|exact Hn]. intros g Hg. cbv beta in *. now rewrite gconf_pushed_empty.
Qed.

Lemma join_preserves_iso l1 x l2 s :
  stage_iso (l1 ++ x :: l2) ->
  Forall (fun g => gconfl (s_reads s) (s_writes s) g = false) l1 ->
  Forall (fun g => gconfl (s_reads s) (s_writes s) g = false) l2 ->
  stage_iso (l1 ++ pushed s x :: l2).
Proof.
  intros Hiso H1 H2. apply FOP_app_inv in Hiso. destruct Hiso as (A1 & A2 & A3).
  inversion A2; subst. apply FOP_app; auto.
  - constructor; auto.
    rewrite Forall_forall in *. intros g Hg. rewrite gconf_pushed_l. rewrite (H3 g Hg), (H2 g Hg). reflexivity.
  - rewrite Forall_forall in *. intros a Ha. specialize (A3 a Ha). inversion A3; subst.
    constructor; auto. rewrite gconf_sym, gconf_pushed_l, gconf_sym, H5. cbn. apply (H1 a Ha).
Qed.

(* ---------------- upd_group ---------------- *)

Lemma upd_group_at l1 x l2 f y :
  f x = Ok y -> upd_group (length l1) f (l1 ++ x :: l2) = Ok (l1 ++ y :: l2).
Proof.
  intros Hf. induction l1 as [|a l1 IH]; cbn.
  - rewrite Hf. reflexivity.
  - rewrite IH. reflexivity.
Qed.

Lemma nth_error_mid {B} (l1 : list B) x l2 : nth_error (l1 ++ x :: l2) (length l1) = Some x.
Proof. induction l1; cbn; auto. Qed.

(* ---------------- improves_balance / decide are total on well-formed stages ---------------- *)

Lemma fold_max_bound l : forall a, (0 <= a <= 127)%Z -> Forall (fun t => 0 <= t <= 127)%Z l ->
  (0 <= fold_left Z.max l a <= 127)%Z.
Proof.
  induction l as [|x l IH]; intros a Ha Hl; cbn; auto.
  inversion Hl; subst. apply IH; auto. lia.
Qed.

Lemma improves_balance_total st l1 x l2 t :
  st = l1 ++ x :: l2 -> Forall group_ok st -> time_ok t ->
  (length (g_mem x) < cap - join_slack)%nat ->
  exists b, improves_balance st (length l1) t = Ok b.
Proof.
  intros E Hok Ht Hlen. unfold improves_balance.
  assert (Hmx : exists mx, stage_max st = Ok mx /\ (0 <= mx <= 127)%Z).
  { unfold stage_max. subst st. destruct (l1 ++ x :: l2) eqn:E2; [destruct l1; discriminate|].
    eexists. split; [reflexivity|]. apply fold_max_bound; [lia|].
    rewrite <- E2 in *. apply Forall_map. eapply Forall_impl; [|exact Hok]. intros g0. apply group_time_127. }
  destruct Hmx as (mx & -> & Bmx). cbn [bind].
  subst st. rewrite nth_error_mid.
  assert (Hx : group_ok x) by (rewrite Forall_forall in Hok; apply Hok; apply in_or_app; right; now left).
  pose proof (group_time_bound x Hx) as Bx. apply time_ok_bounds in Ht.
  pose proof cap_time_bound. pose proof max_time_nonneg.
  assert (Bn : (0 <= g_time x + t <= 127)%Z) by nia.
  assert (Bo : (0 <= g_time x <= 127)%Z) by nia.
  unfold u8_add. destruct (Z.leb_spec (g_time x + t) 255); [|lia]. cbn [bind].
  unfold as_i8.
  destruct (Z.ltb_spec mx 128); [|lia].
  destruct (Z.ltb_spec (g_time x + t) 128); [|lia].
  destruct (Z.ltb_spec (g_time x) 128); [|lia].
  unfold i8_sub.
  destruct (Z.leb_spec (-128) (mx - (g_time x + t))); [|lia].
  destruct (Z.leb_spec (mx - (g_time x + t)) 127); [|lia]. cbn [andb bind].
  unfold i8_abs. destruct (Z.eqb_spec (mx - (g_time x + t)) (-128)); [lia|]. cbn [bind].
  destruct (Z.leb_spec (-128) (mx - g_time x)); [|lia].
  destruct (Z.leb_spec (mx - g_time x) 127); [|lia]. cbn [andb bind].
  destruct (Z.eqb_spec (mx - g_time x) (-128)); [lia|]. cbn [bind].
  eexists. reflexivity.
Qed.

Lemma decide_total st s dep :
  Forall group_ok st -> time_ok (s_time s) -> exists d, decide st s dep = Ok d.
Proof.
  intros Hok Ht. unfold decide.
  destruct (find_conflict st (s_reads s) (s_writes s) dep) eqn:F; eauto.
  apply find_conflict_single in F. destruct F as (l1 & x & l2 & E & Hg & _).
  subst g. rewrite E, nth_error_mid. rewrite <- E.
  destruct (Nat.ltb_spec (length (g_mem x)) (cap - join_slack)); eauto.
  destruct (improves_balance_total st l1 x l2 (s_time s) E Hok Ht H) as (b & ->). cbn. eauto.
Qed.

(* ---------------- decide: what each answer means ---------------- *)

Lemma decide_new st s dep :
  decide st s dep = Ok DNew ->
  dep = [] /\ Forall (fun g => gconfl (s_reads s) (s_writes s) g = false) st.
Proof.
  unfold decide. destruct (find_conflict st (s_reads s) (s_writes s) dep) eqn:F; try discriminate.
  - intros _. now apply find_conflict_none.
  - destruct (nth_error st g); [|discriminate].
    destruct (_ <? _)%nat; [|discriminate].
    destruct (improves_balance st g (s_time s)); cbn; [|discriminate]. destruct a; discriminate.
Qed.

Lemma decide_join st s dep i :
  decide st s dep = Ok (DJoin i) ->
  exists l1 x l2, st = l1 ++ x :: l2 /\ i = length l1 /\
    (length (g_mem x) < cap - join_slack)%nat /\
    Forall (fun y => fl (s_reads s) (s_writes s) dep y = false) l1 /\
    Forall (fun y => fl (s_reads s) (s_writes s) dep y = false) l2 /\
    (dep = [] \/ (exists d, dep = [d] /\ In d (g_ids x))).
Proof.
  unfold decide. destruct (find_conflict st (s_reads s) (s_writes s) dep) eqn:F; try discriminate.
  apply find_conflict_single in F. destruct F as (l1 & x & l2 & E & Hg & H1 & H2 & Hx & Hd).
  subst g. rewrite E, nth_error_mid.
  destruct (Nat.ltb_spec (length (g_mem x)) (cap - join_slack)); [|discriminate].
  destruct (improves_balance _ _ _); cbn; [|discriminate]. destruct a; [|discriminate].
  intros H0. inversion H0; subst i. exists l1, x, l2. repeat split; auto.
Qed.

Lemma fl_false_gconfl r w dep g : fl r w dep g = false -> gconfl r w g = false.
Proof. rewrite fl_spec. intros H. now apply orb_false_iff in H. Qed.

(* ---------------- placement preserves the stage invariant; placement is total ---------------- *)

Lemma place_ok : forall sts s dep sts',
  Forall stage_ok sts -> time_ok (s_time s) -> place sts s dep = Ok sts' -> Forall stage_ok sts'.
Proof.
  induction sts as [|st rest IH]; intros s dep sts' Hok Ht H; cbn [place] in H.
  - rewrite push_sys_empty in H by auto. cbn in H. inversion H; subst.
    constructor; auto. constructor.
    + discriminate.
    + constructor; auto. now apply pushed_empty_ok.
    + constructor; constructor.
  - inversion Hok as [|? ? Hst Hrest]; subst.
    destruct (decide st s dep) as [d|e] eqn:D; cbn [bind] in H; [|discriminate].
    destruct d as [|i|].
    + rewrite push_sys_empty in H by auto. cbn in H. inversion H; subst.
      apply decide_new in D. destruct D as [_ D].
      constructor; auto. destruct Hst as [Hne Hg Hi]. constructor.
      * destruct st; discriminate.
      * apply Forall_app. split; auto. constructor; auto. now apply pushed_empty_ok.
      * now apply new_group_preserves_iso.
    + apply decide_join in D. destruct D as (l1 & x & l2 & E & Hi & Hlen & H1 & H2 & _). subst i st.
      destruct Hst as [Hne Hg Hiso].
      assert (Hx : group_ok x) by (rewrite Forall_forall in Hg; apply Hg; apply in_or_app; right; now left).
      rewrite (upd_group_at l1 x l2 (push_sys s) (pushed s x)) in H by (now apply push_sys_join).
      cbn in H. inversion H; subst. constructor; auto. constructor.
      * destruct l1; discriminate.
      * apply Forall_app in Hg. destruct Hg as [G1 G2]. inversion G2; subst.
        apply Forall_app. split; auto. constructor; auto. now apply pushed_join_ok.
      * apply join_preserves_iso; auto.
        -- eapply Forall_impl; [|exact H1]. intros g. apply fl_false_gconfl.
        -- eapply Forall_impl; [|exact H2]. intros g. apply fl_false_gconfl.
    + destruct (place rest s (remove_ids st dep)) as [rest'|e] eqn:P; cbn [bind] in H; [|discriminate].
      inversion H; subst. constructor; auto. eapply IH; eauto.
Qed.

Lemma place_total : forall sts s dep,
  Forall stage_ok sts -> time_ok (s_time s) -> exists sts', place sts s dep = Ok sts'.
Proof.
  induction sts as [|st rest IH]; intros s dep Hok Ht; cbn [place].
  - rewrite push_sys_empty by auto. cbn. eauto.
  - inversion Hok as [|? ? Hst Hrest]; subst.
    destruct (decide_total st s dep (sk_groups _ Hst) Ht) as (d & D). rewrite D. cbn [bind].
    destruct d as [|i|].
    + rewrite push_sys_empty by auto. cbn. eauto.
    + apply decide_join in D. destruct D as (l1 & x & l2 & E & Hi & Hlen & _). subst i st.
      assert (Hx : group_ok x).
      { pose proof (sk_groups _ Hst) as Hg. rewrite Forall_forall in Hg. apply Hg. apply in_or_app. right. now left. }
      rewrite (upd_group_at l1 x l2 (push_sys s) (pushed s x)) by (now apply push_sys_join). cbn. eauto.
    + destruct (IH s (remove_ids st dep) Hrest Ht) as (rest' & ->). cbn. eauto.
Qed.

(* sb_insert *)
Lemma Forall_firstn {A} (P : A -> Prop) n l : Forall P l -> Forall P (firstn n l).
Proof. intros H. rewrite <- (firstn_skipn n l) in H. now apply Forall_app in H. Qed.
Lemma Forall_skipn {A} (P : A -> Prop) n l : Forall P l -> Forall P (skipn n l).
Proof. intros H. rewrite <- (firstn_skipn n l) in H. now apply Forall_app in H. Qed.

Lemma sb_insert_ok barrier sts s sts' :
  Forall stage_ok sts -> time_ok (s_time s) -> sb_insert barrier sts s = Ok sts' -> Forall stage_ok sts'.
Proof.
  intros Hok Ht. unfold sb_insert.
  destruct (place _ _ _) as [post'|e] eqn:P; cbn [bind]; [|discriminate].
  intros H. inversion H; subst. apply Forall_app. split.
  - now apply Forall_firstn.
  - eapply place_ok; [| |exact P]; auto. now apply Forall_skipn.
Qed.

Lemma sb_insert_total barrier sts s :
  Forall stage_ok sts -> time_ok (s_time s) -> exists sts', sb_insert barrier sts s = Ok sts'.
Proof.
  intros Hok Ht. unfold sb_insert.
  destruct (place_total (skipn barrier sts) s (cross_off (firstn barrier sts) (s_deps s))) as (post' & ->); auto.
  - now apply Forall_skipn.
  - cbn. eauto.
Qed.
