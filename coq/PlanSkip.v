(* PlanSkip.v — C10: a system is pushed past a stage only if that stage holds an earlier
   registered system it conflicts with, or one of its dependencies sits in that stage or a
   later one. *)
From Shred Require Import Base SrcParams Plan PlanObs PlanLemmas PlanInv PlanLoc PlanBuild PlanProps.
From Coq Require Import Permutation.

(* the scan skips a stage only when a group of it conflicts on resources or a dependency is
   still pending *)
Lemma decide_skip st s dep :
  decide st s dep = Ok DSkip ->
  (exists g, In g st /\ gconfl (s_reads s) (s_writes s) g = true) \/ dep <> [].
Proof.
  intros H. destruct dep as [|d dep]; [left|right; discriminate].
  assert (F : find_conflict st (s_reads s) (s_writes s) [] <> CNone).
  { intros E. unfold decide in H. rewrite E in H. discriminate. }
  apply find_conflict_not_none_nodep in F. apply Exists_exists in F. exact F.
Qed.

(* where the scan puts the system, and why every stage in front of it was skipped *)
Lemma place_skips : forall sts s dep sts',
  Forall stage_ok sts -> time_ok (s_time s) -> place sts s dep = Ok sts' ->
  exists k, at_stage sts' k (s_id s) /\
    forall j st, (j < k)%nat -> nth_error sts j = Some st ->
      (exists g, In g st /\ gconfl (s_reads s) (s_writes s) g = true) \/ cross_off (firstn j sts) dep <> [].
Proof.
  induction sts as [|st rest IH]; intros s dep sts' Hok Ht H; cbn [place] in H.
  - destruct (push_sys s empty_group) as [g|e] eqn:P; cbn [bind] in H; [|discriminate]. inversion H; subst.
    exists O. split; [|intros j st Hj; lia].
    rewrite push_sys_empty in P by auto. inversion P; subst.
    apply at_stage_here. cbn. now left.
  - inversion Hok as [|? ? Hst Hrest]; subst.
    destruct (decide st s dep) as [dc|e] eqn:D; cbn [bind] in H; [|discriminate].
    destruct dc as [|i|].
    + destruct (push_sys s empty_group) as [g|e] eqn:P; cbn [bind] in H; [|discriminate]. inversion H; subst.
      exists O. split; [|intros j st0 Hj; lia].
      rewrite push_sys_empty in P by auto. inversion P; subst.
      apply at_stage_here. unfold stage_ids. rewrite map_app, concat_app. apply in_or_app. right. cbn. now left.
    + pose proof D as D'. apply decide_join in D'. destruct D' as (l1 & x & l2 & E & Hi & Hlen & _). subst i st.
      assert (Hx : group_ok x).
      { pose proof (sk_groups _ Hst) as Hg. rewrite Forall_forall in Hg. apply Hg. apply in_or_app. right. now left. }
      rewrite (upd_group_at l1 x l2 (push_sys s) (pushed s x)) in H by (now apply push_sys_join).
      cbn in H. inversion H; subst.
      exists O. split; [|intros j st0 Hj; lia].
      apply at_stage_here. unfold stage_ids. rewrite map_app, concat_app. apply in_or_app. right.
      cbn. apply in_or_app. left. apply in_or_app. right. now left.
    + destruct (place rest s (remove_ids st dep)) as [rest'|e] eqn:P; cbn [bind] in H; [|discriminate].
      inversion H; subst.
      destruct (IH _ _ _ Hrest Ht P) as (k & Hk & Hj).
      exists (S k). split; [now apply at_stage_cons|].
      intros j st0 Hlt Hn. destruct j as [|j]; cbn in Hn.
      * inversion Hn; subst st0. cbn [firstn]. unfold cross_off. cbn [fold_left].
        exact (decide_skip _ _ _ D).
      * cbn [firstn]. unfold cross_off. cbn [fold_left]. apply (Hj j st0); auto. lia.
Qed.

(* the same for insertion behind the barrier *)
Lemma sb_insert_skips barrier sts s sts' :
  Forall stage_ok sts -> time_ok (s_time s) -> (barrier <= length sts)%nat ->
  sb_insert barrier sts s = Ok sts' ->
  exists k, at_stage sts' k (s_id s) /\ (barrier <= k)%nat /\
    forall j st, (barrier <= j < k)%nat -> nth_error sts j = Some st ->
      (exists g, In g st /\ gconfl (s_reads s) (s_writes s) g = true) \/ cross_off (firstn j sts) (s_deps s) <> [].
Proof.
  intros Hok Ht Hb. unfold sb_insert.
  destruct (place _ _ _) as [post'|e] eqn:P; cbn [bind]; [|discriminate].
  intros H. inversion H; subst. clear H.
  assert (Hlen : length (firstn barrier sts) = barrier) by (rewrite firstn_length; lia).
  destruct (place_skips _ _ _ _ (Forall_skipn _ _ _ Hok) Ht P) as (k & Hk & Hj).
  exists (barrier + k)%nat. split; [|split; [lia|]].
  - rewrite <- Hlen at 2. now apply at_stage_app_r.
  - intros j st [Hlo Hhi] Hn.
    assert (Ej : j = (barrier + (j - barrier))%nat) by lia.
    assert (Hn' : nth_error (skipn barrier sts) (j - barrier) = Some st).
    { rewrite <- Hn. rewrite <- (firstn_skipn barrier sts) at 2.
      rewrite nth_error_app2 by lia. now rewrite Hlen. }
    destruct (Hj (j - barrier)%nat st ltac:(lia) Hn') as [C|C]; [left; exact C|right].
    unfold cross_off in *. rewrite Ej. rewrite <- (firstn_skipn barrier sts) at 1.
    rewrite firstn_app, Hlen.
    replace (barrier + (j - barrier) - barrier)%nat with (j - barrier)%nat by lia.
    rewrite (firstn_all2 (firstn barrier sts)) by lia.
    now rewrite fold_left_app.
Qed.

(* ---------------- the invariant over the registration history ---------------- *)

Definition justified (sts : list stage) (done : list entry) (e : entry) : Prop :=
  forall k, at_stage sts k (s_id (e_sys e)) ->
  forall j, (e_bar e <= j < k)%nat ->
    (exists e', In e' done /\ (s_id (e_sys e') < s_id (e_sys e))%N /\ at_stage sts j (s_id (e_sys e')) /\
                sys_conflict (e_sys e) (e_sys e') = true) \/
    (exists d k', In d (s_deps (e_sys e)) /\ (j <= k')%nat /\ at_stage sts k' d).

Definition all_justified (b : builder) (done : list entry) : Prop :=
  forall e, In e done -> justified (b_stages b) done e.

Lemma gconfl_member g r w :
  group_ok g -> gconfl r w g = true -> exists a, In a (g_mem g) /\ rw_conflict r w (s_reads a) (s_writes a) = true.
Proof.
  intros G H. unfold gconfl in H. rewrite (gk_reads _ G), (gk_writes _ G) in H.
  induction (g_mem g) as [|a l IH]; cbn [map concat] in H.
  - now rewrite rw_conflict_nil_r in H.
  - rewrite rw_conflict_app_r in H. apply orb_true_iff in H. destruct H as [H|H].
    + exists a. split; auto. now left.
    + destruct (IH H) as (a' & Ha' & C). exists a'. split; auto. now right.
Qed.

Lemma entry_located b done e : binv b done -> In e done -> located (b_stages b) (s_id (e_sys e)).
Proof.
  intros I He. apply (binv_located _ _ _ I). rewrite (bi_next _ _ I). apply (ids_lt done (bi_ids _ _ I)).
  unfold syss. rewrite map_map. apply in_map_iff. eauto.
Qed.

Lemma add_justified b done a b' :
  binv b done -> all_justified b done -> time_ok (o_time a) -> run_op (OAdd a) b = Ok b' ->
  exists s, binv b' (done ++ [mkEntry a s (b_barrier b)]) /\ all_justified b' (done ++ [mkEntry a s (b_barrier b)]).
Proof.
  intros I J Ht H.
  destruct (add_preserves b done a b' I Ht H) as (s & I' & Hid & Heok & Hext & _ & _ & Hins & Hdloc).
  exists s. split; [exact I'|].
  pose proof (binv_nodup _ _ I') as ND'.
  intros e He k Hk j Hj. apply in_app_or in He. destruct He as [He|[<-|[]]].
  - (* an old system: nothing about it changed *)
    destruct (entry_located b done e I He) as (k0 & Hk0).
    assert (k = k0) by (eapply at_stage_unique; [exact ND'|exact Hk|eapply at_stage_ext; eauto]). subst k0.
    destruct (J e He k Hk0 j Hj) as [(e' & He' & Hlt & Hat & C)|(d & k' & Hd & Hle & Hat)].
    + left. exists e'. repeat split; auto using in_or_app. eapply at_stage_ext; eauto.
    + right. exists d, k'. repeat split; auto. eapply at_stage_ext; eauto.
  - (* the new system *)
    cbn [e_sys e_bar] in *.
    destruct (sb_insert_skips (b_barrier b) (b_stages b) s (b_stages b') (bi_stages _ _ I)
                (eq_ind_r time_ok Ht (eo_time _ _ Heok)) (bi_barrier _ _ I) Hins) as (k0 & Hk0 & Hlo & Hwhy).
    assert (k = k0) by (eapply at_stage_unique; eauto). subst k0.
    assert (Hjl : (j < length (b_stages b))%nat).
    { (* the skipped stage exists in the old table: the new system sits at most one past its end *)
      destruct (Nat.lt_ge_cases j (length (b_stages b))) as [|Hge]; auto. exfalso.
      (* k > j >= length: but the new stages have at most length+1 entries and k < their length *)
      destruct Hk as (stk & Hnk & _).
      assert (k < length (b_stages b'))%nat by (apply nth_error_Some; congruence).
      pose proof (sb_insert_members _ _ _ _ (bi_stages _ _ I) (eq_ind_r time_ok Ht (eo_time _ _ Heok)) Hins) as PM.
      (* every stage of b' is non-empty, and all but the new system's are old *)
      pose proof (bi_stages _ _ I') as Hok'. rewrite Forall_forall in Hok'.
      (* stage j of b' exists (j < k) and is non-empty: it holds a system located there; that
         system is old (the new one is at k <> j), hence located in b at a stage < length *)
      destruct (nth_error (b_stages b') j) as [stj|] eqn:Hnj; [|apply nth_error_None in Hnj; lia].
      pose proof (Hok' stj (nth_error_In _ _ Hnj)) as Hsj.
      destruct stj as [|g0 gs]; [exact (sk_nonempty _ Hsj eq_refl)|].
      pose proof (sk_groups _ Hsj) as Gs. inversion Gs as [|? ? G0 _]; subst.
      pose proof (gk_len _ G0) as L0. destruct (g_mem g0) as [|x xs] eqn:Em; [cbn in L0; lia|].
      assert (Hxat : at_stage (b_stages b') j (s_id x)).
      { exists (g0 :: gs). split; auto. unfold stage_ids. cbn [map concat]. apply in_or_app. left.
        rewrite (gk_ids _ G0), Em. now left. }
      assert (Hxm : In x (members (b_stages b'))).
      { unfold members. apply in_concat. exists (g_mem g0). split; [|rewrite Em; now left].
        apply in_map. apply in_concat. exists (g0 :: gs). split; [eapply nth_error_In; eauto|now left]. }
      apply (Permutation_in _ PM) in Hxm. destruct Hxm as [<-|Hxm].
      - assert (j = k) by (eapply at_stage_unique; eauto). lia.
      - assert (Hl : located (b_stages b) (s_id x)).
        { apply located_all_ids. rewrite (all_ids_members _ (bi_stages _ _ I)). now apply in_map. }
        destruct Hl as (kx & Hkx).
        assert (kx < length (b_stages b))%nat by (destruct Hkx as (? & Hn & _); apply nth_error_Some; congruence).
        assert (j = kx) by (eapply at_stage_unique; [exact ND'|exact Hxat|eapply at_stage_ext; eauto]). lia. }
    destruct (nth_error (b_stages b) j) as [stj|] eqn:Hnj; [|apply nth_error_None in Hnj; lia].
    destruct (Hwhy j stj Hj Hnj) as [(g & Hg & C)|Hpend].
    + (* a group of the skipped stage conflicts on resources: one of its members does *)
      left. pose proof (bi_stages _ _ I) as Hok. rewrite Forall_forall in Hok.
      pose proof (sk_groups _ (Hok stj (nth_error_In _ _ Hnj))) as G. rewrite Forall_forall in G.
      destruct (gconfl_member g _ _ (G g Hg) C) as (x & Hx & Cx).
      assert (Hxm : In x (members (b_stages b))).
      { unfold members. apply in_concat. exists (g_mem g). split; auto. apply in_map. apply in_concat.
        exists stj. split; auto. eapply nth_error_In; eauto. }
      apply (Permutation_in _ (bi_perm _ _ I)) in Hxm. unfold syss in Hxm. apply in_map_iff in Hxm.
      destruct Hxm as (e' & <- & He'). exists e'. repeat split.
      * apply in_or_app. now left.
      * rewrite Hid, (bi_next _ _ I). apply (ids_lt done (bi_ids _ _ I)). unfold syss. rewrite map_map. apply in_map_iff. eauto.
      * eapply at_stage_ext; eauto. exists stj. split; auto. unfold stage_ids. apply in_concat.
        exists (g_ids g). split; [now apply in_map|]. rewrite (gk_ids _ (G g Hg)). now apply in_map.
      * exact Cx.
    + (* a dependency is still pending at stage j: it is located at j or later *)
      right. destruct (cross_off (firstn j (b_stages b)) (s_deps s)) as [|d rest] eqn:Ec; [congruence|].
      assert (Hd : In d (cross_off (firstn j (b_stages b)) (s_deps s))) by (rewrite Ec; now left).
      apply cross_off_In in Hd. destruct Hd as [Hd Hnot].
      destruct (Hdloc d Hd) as (k' & Hk').
      exists d, k'. repeat split; auto; [|eapply at_stage_ext; eauto].
      destruct (Nat.le_gt_cases j k') as [|Hlt]; auto. exfalso.
      destruct Hk' as (st' & Hn' & Hin'). apply (Hnot st'); auto.
      rewrite <- (firstn_skipn j (b_stages b)) in Hn'. rewrite nth_error_app1 in Hn' by (rewrite firstn_length; lia).
      eapply nth_error_In; eauto.
Qed.

Lemma run_op_justified b done o b' :
  binv b done -> all_justified b done -> op_time_ok o -> run_op o b = Ok b' ->
  exists more, binv b' (done ++ more) /\ all_justified b' (done ++ more) /\
               match o with OAdd a => map e_op more = [a] | _ => more = [] end.
Proof.
  intros I J Ht H. destruct o as [a|t|].
  - destruct (add_justified b done a b' I J Ht H) as (s & I' & J'). exists [mkEntry a s (b_barrier b)].
    split; [exact I'|split; [exact J'|reflexivity]].
  - destruct (run_op_preserves b done (OTL t) b' I Ht H) as (m & I' & Hm & _). cbn in Hm. subst m.
    exists []. rewrite app_nil_r in *. cbn in H. inversion H; subst. split; [exact I'|split; [exact J|reflexivity]].
  - destruct (run_op_preserves b done OBar b' I Ht H) as (m & I' & Hm & _). cbn in Hm. subst m.
    exists []. rewrite app_nil_r in *. cbn in H. inversion H; subst. split; [exact I'|split; [exact J|reflexivity]].
Qed.

Lemma run_ops_justified : forall os b done b',
  binv b done -> all_justified b done -> Forall op_time_ok os -> run_ops os b = Ok b' ->
  exists more, binv b' (done ++ more) /\ all_justified b' (done ++ more) /\ map e_op more = adds os.
Proof.
  induction os as [|o os IH]; intros b done b' I J Ht H; cbn [run_ops] in H.
  - inversion H; subst. exists []. rewrite app_nil_r. split; [exact I|split; [exact J|reflexivity]].
  - inversion Ht as [|? ? Ho Hos]; subst.
    destruct (run_op o b) as [b1|e] eqn:R; cbn [bind] in H; [|discriminate].
    destruct (run_op_justified _ _ _ _ I J Ho R) as (m1 & I1 & J1 & Hm1).
    destruct (IH _ _ _ I1 J1 Hos H) as (m2 & I2 & J2 & Hm2).
    exists (m1 ++ m2). rewrite app_assoc. split; [exact I2|split; [exact J2|]].
    rewrite map_app, Hm2. destruct o; cbn [adds]; [rewrite Hm1|subst m1|subst m1]; reflexivity.
Qed.

(* C10: for EVERY registration program: a system sits in a later stage than the first stage
   behind the most recent barrier only if every stage it skipped holds an earlier-registered
   system whose declared access conflicts with it, or one of its dependencies sits in that
   stage or a later one. *)
Theorem plan_skip_justified rs b :
  plan rs = Ok b -> Forall reg_time_ok1 rs ->
  exists done, binv b done /\ map (fun e => o_tag (e_op e)) done = sys_tags rs /\
    forall e, In e done -> justified (b_stages b) done e.
Proof.
  intros H Ht. unfold plan in H. apply run_regs_ops in H. destruct H as (os & Hos & Hrun).
  assert (J0 : all_justified empty_builder []) by (intros e []).
  destruct (run_ops_justified os empty_builder [] b binv_empty J0 (regs_ops_times _ _ Hos Ht) Hrun) as (done & I & J & Hm).
  cbn [app] in *. exists done. split; [exact I|split; [|exact J]].
  rewrite <- (regs_ops_tags _ _ Hos), <- Hm, map_map. reflexivity.
Qed.

(* the barrier index recorded for an entry is the number of stages that existed at the most
   recent barrier: the first stage the system could use *)
Lemma max_threads_is_widest b : max_threads b = maxnat (map (@length group) (b_stages b)).
Proof. reflexivity. Qed.

(* a system without dependencies that conflicts with no earlier-registered system sits in the
   first stage behind the most recent barrier; hence systems with pairwise compatible access,
   no dependencies and no barrier between them share a single stage *)
Theorem compatible_first_stage rs b :
  plan rs = Ok b -> Forall reg_time_ok1 rs ->
  exists done, binv b done /\ map (fun e => o_tag (e_op e)) done = sys_tags rs /\
    forall e, In e done -> s_deps (e_sys e) = [] ->
      (forall e', In e' done -> (s_id (e_sys e') < s_id (e_sys e))%N -> sys_conflict (e_sys e) (e_sys e') = false) ->
      forall k, at_stage (b_stages b) k (s_id (e_sys e)) -> k = e_bar e.
Proof.
  intros H Ht. destruct (plan_skip_justified rs b H Ht) as (done & I & Htags & J).
  exists done. split; [exact I|split; [exact Htags|]]. intros e He Hnd Hcompat k Hk.
  pose proof (bi_bar_lo _ _ I e k He Hk) as Hlo.
  destruct (Nat.le_gt_cases k (e_bar e)) as [|Hgt]; [lia|]. exfalso.
  destruct (J e He k Hk (e_bar e) ltac:(lia)) as [(e' & He' & Hlt & _ & C)|(d & k' & Hd & _)].
  - rewrite (Hcompat e' He' Hlt) in C. discriminate.
  - rewrite Hnd in Hd. destruct Hd.
Qed.
