(* PlanRel.v — C19: the plan depends on the registration sequence only up to
   - a renaming of the systems (ρ on names, injective, keeps the empty name empty),
   - an injective relabelling of the resources (φ),
   - the order / multiplicity in which a system lists its reads and writes
   (all three at once: the access lists of the second program need only have the same SET as
   the φ-image of those of the first). *)
From Shred Require Import Base SrcParams Plan PlanObs PlanLemmas PlanInv PlanLoc PlanBuild PlanProps.
Open Scope N_scope.

Lemma Forall2_length {A B} {P : A -> B -> Prop} {l l'} : Forall2 P l l' -> length l = length l'.
Proof. induction 1; cbn; auto. Qed.

Section Rel.
  Variable phi : N -> N.
  Variable rho : name -> name.
  Hypothesis phi_inj : forall x y, phi x = phi y -> x = y.
  Hypothesis rho_inj : forall x y, rho x = rho y -> x = y.
  Hypothesis rho_empty : forall n, is_empty_name (rho n) = is_empty_name n.

  (* l' is, as a set, the image of l *)
  Definition sset (l l' : list N) : Prop := forall y, In y l' <-> exists x, In x l /\ phi x = y.

  Lemma sset_nil : sset [] [].
  Proof. intros y. split; [intros []|intros (x & [] & _)]. Qed.
  Lemma sset_app a a' b b' : sset a a' -> sset b b' -> sset (a ++ b) (a' ++ b').
  Proof.
    intros Ha Hb y. rewrite in_app_iff, (Ha y), (Hb y). split.
    - intros [(x & Hx & E)|(x & Hx & E)]; exists x; split; auto; apply in_or_app; auto.
    - intros (x & Hx & E). apply in_app_or in Hx. destruct Hx; [left|right]; eauto.
  Qed.

  Lemma intersects_rel a a' b b' : sset a a' -> sset b b' -> intersects a' b' = intersects a b.
  Proof.
    intros Ha Hb. destruct (intersects a b) eqn:E.
    - apply intersects_spec in E. destruct E as (x & Hx1 & Hx2). apply intersects_spec. exists (phi x). split.
      + apply Ha. eauto.
      + apply Hb. eauto.
    - apply intersects_false. intros y Hy1 Hy2. apply Ha in Hy1. apply Hb in Hy2.
      destruct Hy1 as (x1 & H1 & E1). destruct Hy2 as (x2 & H2 & E2). assert (x1 = x2) by (apply phi_inj; congruence). subst x2.
      rewrite intersects_false in E. eauto.
  Qed.

  Lemma rw_conflict_rel r1 r1' w1 w1' r2 r2' w2 w2' :
    sset r1 r1' -> sset w1 w1' -> sset r2 r2' -> sset w2 w2' ->
    rw_conflict r1' w1' r2' w2' = rw_conflict r1 w1 r2 w2.
  Proof.
    intros A B C D. unfold rw_conflict.
    rewrite (intersects_rel w1 w1' (w2 ++ r2) (w2' ++ r2') B (sset_app _ _ _ _ D C)), (intersects_rel r1 r1' w2 w2' A D). reflexivity.
  Qed.

  Record srel (s s' : sys) : Prop := {
    sr_tag : s_tag s' = s_tag s; sr_id : s_id s' = s_id s; sr_time : s_time s' = s_time s; sr_deps : s_deps s' = s_deps s;
    sr_reads : sset (s_reads s) (s_reads s'); sr_writes : sset (s_writes s) (s_writes s')
  }.
  Record grel (g g' : group) : Prop := {
    gr_ids : g_ids g' = g_ids g; gr_time : g_time g' = g_time g;
    gr_mem : Forall2 srel (g_mem g) (g_mem g');
    gr_reads : sset (g_reads g) (g_reads g'); gr_writes : sset (g_writes g) (g_writes g')
  }.
  Definition strel (st st' : stage) : Prop := Forall2 grel st st'.
  Definition stsrel (sts sts' : list stage) : Prop := Forall2 strel sts sts'.

  Lemma flagged_rel r r' w w' dep g g' : sset r r' -> sset w w' -> grel g g' ->
    flagged r' w' dep g' = flagged r w dep g.
  Proof.
    intros A B G. unfold flagged. rewrite (rw_conflict_rel r r' w w' _ _ _ _ A B (gr_reads _ _ G) (gr_writes _ _ G)), (gr_ids _ _ G).
    reflexivity.
  Qed.

  Lemma fc_loop_rel r r' w w' dep : sset r r' -> sset w w' -> forall st st', strel st st' ->
    forall i c d, fc_loop st' i r' w' dep c d = fc_loop st i r w dep c d.
  Proof.
    intros A B st st' H. induction H as [|g g' st st' G _ IH]; intros i c d; cbn [fc_loop]; [reflexivity|].
    rewrite (flagged_rel r r' w w' dep g g' A B G). destruct (flagged r w dep g). apply IH.
  Qed.

  Lemma find_conflict_rel r r' w w' dep st st' : sset r r' -> sset w w' -> strel st st' ->
    find_conflict st' r' w' dep = find_conflict st r w dep.
  Proof. intros A B S. unfold find_conflict. now rewrite (fc_loop_rel r r' w w' dep A B st st' S). Qed.

  Lemma strel_times st st' : strel st st' -> map g_time st' = map g_time st.
  Proof. induction 1 as [|g g' st st' G _ IH]; cbn; [reflexivity|]. now rewrite IH, (gr_time _ _ G). Qed.

  Lemma stage_max_rel st st' : strel st st' -> stage_max st' = stage_max st.
  Proof.
    intros S. unfold stage_max. rewrite (strel_times _ _ S). destruct S; reflexivity.
  Qed.

  Lemma strel_nth st st' i : strel st st' ->
    match nth_error st i, nth_error st' i with
    | Some g, Some g' => grel g g'
    | None, None => True
    | _, _ => False
    end.
  Proof. intros S. revert i. induction S as [|g g' st st' G _ IH]; intros [|i]; cbn; auto. apply IH. Qed.

  Lemma improves_balance_rel st st' i t : strel st st' -> improves_balance st' i t = improves_balance st i t.
  Proof.
    intros S. unfold improves_balance. rewrite (stage_max_rel _ _ S). destruct (stage_max st); cbn [bind]; auto.
    pose proof (strel_nth st st' i S) as N. destruct (nth_error st i), (nth_error st' i); try tauto.
    now rewrite (gr_time _ _ N).
  Qed.

  Lemma decide_rel st st' s s' dep : strel st st' -> srel s s' -> decide st' s' dep = decide st s dep.
  Proof.
    intros S R. unfold decide.
    rewrite (find_conflict_rel _ _ _ _ dep st st' (sr_reads _ _ R) (sr_writes _ _ R) S).
    destruct (find_conflict st (s_reads s) (s_writes s) dep) as [|i|]; auto.
    pose proof (strel_nth st st' i S) as N. destruct (nth_error st i) as [g|], (nth_error st' i) as [g'|]; try tauto.
    rewrite <- (Forall2_length (gr_mem _ _ N)), (improves_balance_rel st st' i _ S), (sr_time _ _ R). reflexivity.
  Qed.

  Lemma grel_empty : grel empty_group empty_group.
  Proof. constructor; cbn; auto using sset_nil. Qed.

  Lemma push_sys_rel s s' g g' g1 : srel s s' -> grel g g' -> push_sys s g = Ok g1 ->
    exists g1', push_sys s' g' = Ok g1' /\ grel g1 g1'.
  Proof.
    intros R G. unfold push_sys. rewrite <- (Forall2_length (gr_mem _ _ G)), (gr_time _ _ G), (sr_time _ _ R).
    destruct (length (g_mem g) <? cap)%nat; [|discriminate].
    destruct (u8_add (g_time g) (s_time s)) as [t|]; cbn [bind]; [|discriminate].
    intros H. inversion H; subst. eexists. split; [reflexivity|]. constructor; cbn.
    - now rewrite (gr_ids _ _ G), (sr_id _ _ R).
    - reflexivity.
    - apply Forall2_app; [apply (gr_mem _ _ G)|constructor; auto].
    - apply sset_app; [apply (gr_reads _ _ G)|apply (sr_reads _ _ R)].
    - apply sset_app; [apply (gr_writes _ _ G)|apply (sr_writes _ _ R)].
  Qed.

  Lemma upd_group_rel s s' : srel s s' -> forall st st' i st1, strel st st' -> upd_group i (push_sys s) st = Ok st1 ->
    exists st1', upd_group i (push_sys s') st' = Ok st1' /\ strel st1 st1'.
  Proof.
    intros R st st' i st1 S. revert i st1. induction S as [|g g' st st' G S IH]; intros i st1 H; [destruct i; discriminate|].
    destruct i as [|i]; cbn [upd_group] in *.
    - destruct (push_sys s g) as [g1|] eqn:P; cbn [bind] in H; [|discriminate]. inversion H; subst.
      destruct (push_sys_rel _ _ _ _ _ R G P) as (g1' & -> & G1). cbn [bind]. eexists. split; [reflexivity|]. constructor; auto.
    - destruct (upd_group i (push_sys s) st) as [r1|] eqn:U; cbn [bind] in H; [|discriminate]. inversion H; subst.
      destruct (IH _ _ U) as (r1' & -> & S1). cbn [bind]. eexists. split; [reflexivity|]. constructor; auto.
  Qed.

  Lemma strel_ids st st' : strel st st' -> stage_ids st' = stage_ids st.
  Proof. unfold stage_ids. induction 1 as [|g g' st st' G _ IH]; cbn; [reflexivity|]. now rewrite IH, (gr_ids _ _ G). Qed.

  Lemma remove_ids_rel st st' dep : strel st st' -> remove_ids st' dep = remove_ids st dep.
  Proof. intros S. unfold remove_ids. now rewrite (strel_ids _ _ S). Qed.

  Lemma place_rel s s' : srel s s' -> forall sts sts' dep sts1, stsrel sts sts' -> place sts s dep = Ok sts1 ->
    exists sts1', place sts' s' dep = Ok sts1' /\ stsrel sts1 sts1'.
  Proof.
    intros R sts sts' dep sts1 S. revert dep sts1. induction S as [|st st' sts sts' St S IH]; intros dep sts1 H; cbn [place] in *.
    - destruct (push_sys s empty_group) as [g|] eqn:P; cbn [bind] in H; [|discriminate]. inversion H; subst.
      destruct (push_sys_rel _ _ _ _ _ R grel_empty P) as (g' & -> & G). cbn [bind]. eexists. split; [reflexivity|].
      constructor; [constructor; [auto|constructor]|constructor].
    - rewrite (decide_rel st st' s s' dep St R). destruct (decide st s dep) as [d|]; cbn [bind] in *; [|discriminate].
      destruct d as [|i|].
      + destruct (push_sys s empty_group) as [g|] eqn:P; cbn [bind] in H; [|discriminate]. inversion H; subst.
        destruct (push_sys_rel _ _ _ _ _ R grel_empty P) as (g' & -> & G). cbn [bind]. eexists. split; [reflexivity|].
        constructor; auto. apply Forall2_app; auto.
      + destruct (upd_group i (push_sys s) st) as [st1|] eqn:U; cbn [bind] in H; [|discriminate]. inversion H; subst.
        destruct (upd_group_rel s s' R st st' i st1 St U) as (st1' & -> & S1). cbn [bind]. eexists. split; [reflexivity|]. constructor; auto.
      + rewrite (remove_ids_rel st st' dep St).
        destruct (place sts s (remove_ids st dep)) as [r1|] eqn:P; cbn [bind] in H; [|discriminate]. inversion H; subst.
        destruct (IH _ _ P) as (r1' & -> & S1). cbn [bind]. eexists. split; [reflexivity|]. constructor; auto.
  Qed.

  Lemma cross_off_rel pre pre' dep : stsrel pre pre' -> cross_off pre' dep = cross_off pre dep.
  Proof.
    intros S. unfold cross_off. revert dep. induction S as [|st st' pre pre' St _ IH]; intros dep; cbn [fold_left]; [reflexivity|].
    now rewrite (remove_ids_rel st st' dep St), IH.
  Qed.

  Lemma Forall2_firstn {A B} (P : A -> B -> Prop) n : forall l l', Forall2 P l l' -> Forall2 P (firstn n l) (firstn n l').
  Proof. induction n as [|n IH]; intros l l' H; cbn; [constructor|]. destruct H; constructor; auto. Qed.
  Lemma Forall2_skipn {A B} (P : A -> B -> Prop) n : forall l l', Forall2 P l l' -> Forall2 P (skipn n l) (skipn n l').
  Proof. induction n as [|n IH]; intros l l' H; cbn; auto. destruct H; [constructor|auto]. Qed.

  Lemma sb_insert_rel barrier sts sts' s s' sts1 : stsrel sts sts' -> srel s s' -> sb_insert barrier sts s = Ok sts1 ->
    exists sts1', sb_insert barrier sts' s' = Ok sts1' /\ stsrel sts1 sts1'.
  Proof.
    intros S R. unfold sb_insert. rewrite (sr_deps _ _ R).
    rewrite (cross_off_rel (firstn barrier sts) (firstn barrier sts') (s_deps s) (Forall2_firstn _ _ _ _ S)).
    destruct (place (skipn barrier sts) s _) as [p1|] eqn:P; cbn [bind]; [|discriminate].
    intros H. inversion H; subst.
    destruct (place_rel s s' R _ _ _ _ (Forall2_skipn _ barrier _ _ S) P) as (p1' & -> & S1). cbn [bind].
    eexists. split; [reflexivity|]. apply Forall2_app; auto. now apply Forall2_firstn.
  Qed.

  (* ---------------- builders ---------------- *)

  Definition map_names (m : list (name * N)) : list (name * N) := map (fun p => (rho (fst p), snd p)) m.

  Record brel (b b' : builder) : Prop := {
    br_next : b_next b' = b_next b;
    br_names : b_names b' = map_names (b_names b);
    br_barrier : b_barrier b' = b_barrier b;
    br_stages : stsrel (b_stages b) (b_stages b');
    br_tl : b_tl b' = b_tl b
  }.

  Lemma name_eqb_rho a b : name_eqb (rho a) (rho b) = name_eqb a b.
  Proof.
    destruct (name_eqb a b) eqn:E.
    - apply name_eqb_eq in E. subst. now apply name_eqb_eq.
    - destruct (name_eqb (rho a) (rho b)) eqn:E2; auto. apply name_eqb_eq in E2. apply rho_inj in E2. subst.
      assert (name_eqb b b = true) by now apply name_eqb_eq. congruence.
  Qed.
  Lemma lookup_rho n m : lookup_name (rho n) (map_names m) = lookup_name n m.
  Proof. induction m as [|[k v] m IH]; cbn; auto. rewrite name_eqb_rho. destruct (name_eqb n k); auto. Qed.
  Lemma resolve_rho m deps : resolve_deps (map_names m) (map rho deps) =
    match resolve_deps m deps with Ok ids => Ok ids | Err (ENoSuch d) => Err (ENoSuch (rho d)) | Err e => Err e end.
  Proof.
    induction deps as [|d deps IH]; cbn [map resolve_deps]; auto. rewrite lookup_rho.
    destruct (lookup_name d m); auto. rewrite IH. destruct (resolve_deps m deps) as [ids|e]; cbn [bind]; auto. destruct e; auto.
  Qed.

  Lemma stsrel_length sts sts' : stsrel sts sts' -> length sts' = length sts.
  Proof. intros H. symmetry. eapply Forall2_length; eauto. Qed.

  Lemma add_rel b b' tag nm deps r r' w w' t b1 : brel b b' -> sset r r' -> sset w w' ->
    add b tag nm deps r w t = Ok b1 ->
    exists b1', add b' tag (rho nm) (map rho deps) r' w' t = Ok b1' /\ brel b1 b1'.
  Proof.
    intros B Hr Hw. unfold add. rewrite (br_names _ _ B), resolve_rho, (br_next _ _ B), (br_barrier _ _ B).
    destruct (resolve_deps (b_names b) deps) as [ids|e]; cbn [bind]; [|discriminate].
    rewrite rho_empty. rewrite lookup_rho.
    assert (SR : srel (mkSys tag (b_next b) r w t ids) (mkSys tag (b_next b) r' w' t ids)) by (constructor; cbn; auto).
    destruct (is_empty_name nm) eqn:En; cbn [bind].
    - destruct (sb_insert (b_barrier b) (b_stages b) _) as [st1|] eqn:S; cbn [bind]; [|discriminate].
      intros H. inversion H; subst.
      destruct (sb_insert_rel (b_barrier b) _ _ _ _ _ (br_stages _ _ B) SR S) as (st1' & -> & S1). cbn [bind].
      eexists. split; [reflexivity|]. constructor; cbn; auto; solve [apply (br_names _ _ B)|apply (br_tl _ _ B)].
    - destruct (lookup_name nm (b_names b)); cbn [bind]; [discriminate|].
      destruct (sb_insert (b_barrier b) (b_stages b) _) as [st1|] eqn:S; cbn [bind]; [|discriminate].
      intros H. inversion H; subst.
      destruct (sb_insert_rel (b_barrier b) _ _ _ _ _ (br_stages _ _ B) SR S) as (st1' & -> & S1). cbn [bind].
      eexists. split; [reflexivity|]. constructor; cbn; auto.
      + unfold map_names. rewrite map_app. reflexivity.
      + apply (br_tl _ _ B).
  Qed.

  Lemma brel_empty : brel empty_builder empty_builder.
  Proof. constructor; cbn; auto. constructor. Qed.

  (* all_reads / all_writes of related builders are related *)
  Lemma concat_sset {A} (f : A -> list N) (R : A -> A -> Prop) :
    (forall a a', R a a' -> sset (f a) (f a')) -> forall l l', Forall2 R l l' -> sset (concat (map f l)) (concat (map f l')).
  Proof. intros H l l' F. induction F; cbn; [apply sset_nil|]. apply sset_app; auto. Qed.
  Lemma all_reads_rel b b' : brel b b' -> sset (all_reads b) (all_reads b').
  Proof.
    intros B. unfold all_reads. apply (concat_sset g_reads grel); [intros; now apply gr_reads|].
    pose proof (br_stages _ _ B) as S. clear B. induction S as [|st st' sts sts' St _ IH]; cbn; [constructor|]. apply Forall2_app; auto.
  Qed.
  Lemma all_writes_rel b b' : brel b b' -> sset (all_writes b) (all_writes b').
  Proof.
    intros B. unfold all_writes. apply (concat_sset g_writes grel); [intros; now apply gr_writes|].
    pose proof (br_stages _ _ B) as S. clear B. induction S as [|st st' sts sts' St _ IH]; cbn; [constructor|]. apply Forall2_app; auto.
  Qed.

  (* ---------------- registration programs ---------------- *)

  Inductive rrel : reg -> reg -> Prop :=
  | RR_sys tag nm deps r r' w w' t : sset r r' -> sset w w' ->
      rrel (RSys tag nm deps r w t) (RSys tag (rho nm) (map rho deps) r' w' t)
  | RR_batch tag nm deps cr cr' cw cw' t cnt cnt' inner inner' : sset cr cr' -> sset cw cw' -> Forall2 rrel inner inner' ->
      rrel (RBatch tag nm deps cr cw t cnt inner) (RBatch tag (rho nm) (map rho deps) cr' cw' t cnt' inner')
  | RR_tl tag : rrel (RTL tag) (RTL tag)
  | RR_barrier : rrel RBarrier RBarrier.

  Lemma run_reg_batch tag nm deps cr cw t cnt inner b :
    run_reg (RBatch tag nm deps cr cw t cnt inner) b =
    (bi <- run_regs inner empty_builder ;; add b tag nm deps (all_reads bi ++ cr) (all_writes bi ++ cw) t).
  Proof. reflexivity. Qed.

  Lemma run_regs_rel : forall n rs rs' b b' b1,
    (size_regs rs <= n)%nat -> Forall2 rrel rs rs' -> brel b b' -> run_regs rs b = Ok b1 ->
    exists b1', run_regs rs' b' = Ok b1' /\ brel b1 b1'.
  Proof.
    induction n as [|n IH]; intros rs rs' b b' b1 Hsz F B H.
    - destruct F as [|r r' rs rs' Rr F]; [|exfalso; cbn in Hsz; destruct r; cbn in Hsz; lia].
      cbn in *. inversion H; subst. eauto.
    - destruct F as [|r r' rs rs' Rr F]; cbn [run_regs] in *; [inversion H; subst; eauto|].
      destruct (run_reg r b) as [b2|] eqn:R1; cbn [bind] in H; [|discriminate].
      assert (Hsz_rs : (size_regs rs <= n)%nat) by (cbn [size_regs] in Hsz; destruct r; cbn in Hsz; lia).
      assert (X : exists b2', run_reg r' b' = Ok b2' /\ brel b2 b2').
      { destruct Rr as [tag nm deps r0 r0' w0 w0' t Hr Hw|tag nm deps cr cr' cw cw' t cnt cnt' inner inner' Hr Hw Fi| |].
        - cbn [run_reg] in *. eapply add_rel; eauto.
        - rewrite run_reg_batch in *.
          destruct (run_regs inner empty_builder) as [bi|] eqn:Ri; cbn [bind] in R1; [|discriminate].
          assert (Hsz_i : (size_regs inner <= n)%nat).
          { cbn [size_regs size_reg] in Hsz.
            change ((fix go (rs : list reg) : nat := match rs with [] => O | r' :: rs' => (size_reg r' + go rs')%nat end) inner)
              with (size_regs inner) in Hsz. lia. }
          destruct (IH inner inner' empty_builder empty_builder bi Hsz_i Fi brel_empty Ri) as (bi' & -> & Bi). cbn [bind].
          eapply add_rel; eauto; apply sset_app; auto using all_reads_rel, all_writes_rel.
        - cbn in *. inversion R1; subst. eexists. split; [reflexivity|]. destruct B. constructor; cbn; auto. congruence.
        - cbn in *. inversion R1; subst. eexists. split; [reflexivity|]. destruct B. constructor; cbn; auto.
          now rewrite (stsrel_length _ _ br_stages0). }
      destruct X as (b2' & -> & B2). cbn [bind]. eapply IH; eauto.
  Qed.

  Lemma layout_tags_rel b b' : brel b b' -> layout_tags b' = layout_tags b.
  Proof.
    intros B. unfold layout_tags. pose proof (br_stages _ _ B) as S. clear B.
    induction S as [|st st' sts sts' St _ IH]; cbn [map]; [reflexivity|]. rewrite IH. f_equal.
    clear IH. induction St as [|g g' st st' G _ IHs]; cbn [map]; [reflexivity|]. rewrite IHs. f_equal.
    pose proof (gr_mem _ _ G) as M. clear G. induction M as [|s s' l l' R _ IHm]; cbn [map]; [reflexivity|].
    now rewrite IHm, (sr_tag _ _ R).
  Qed.

  (* C19: related programs build the same plan: same executed layout (stages, groups, positions),
     same thread-local list, same maximum thread count, same printed shape *)
  Theorem plan_invariant rs rs' b :
    Forall2 rrel rs rs' -> plan rs = Ok b ->
    exists b', plan rs' = Ok b' /\ layout_tags b' = layout_tags b /\ b_tl b' = b_tl b /\
               max_threads b' = max_threads b /\ layout_ids b' = layout_ids b.
  Proof.
    intros F H. unfold plan in *.
    destruct (run_regs_rel (size_regs rs) rs rs' empty_builder empty_builder b (le_n _) F brel_empty H) as (b' & -> & B).
    exists b'. split; auto. split; [now apply layout_tags_rel|]. split; [apply (br_tl _ _ B)|]. split.
    - unfold max_threads. f_equal. pose proof (br_stages _ _ B) as S. clear B. induction S as [|st st' sts sts' St _ IH]; cbn; [reflexivity|].
      now rewrite IH, (Forall2_length St).
    - unfold layout_ids. pose proof (br_stages _ _ B) as S. clear B. induction S as [|st st' sts sts' St _ IH]; cbn [map]; [reflexivity|].
      rewrite IH. f_equal. clear IH. induction St as [|g g' st st' G _ IHs]; cbn [map]; [reflexivity|]. now rewrite IHs, (gr_ids _ _ G).
  Qed.
End Rel.

(* determinism: the plan is a function of the registration sequence *)
Theorem plan_deterministic rs r1 r2 : plan rs = r1 -> plan rs = r2 -> r1 = r2.
Proof. congruence. Qed.

(* special cases *)
Lemma sset_id_perm l l' : (forall x, In x l <-> In x l') -> sset (fun x => x) l l'.
Proof. intros H y. rewrite <- H. split; [intros Hy; eauto|intros (x & Hx & <-); auto]. Qed.
Lemma sset_map phi l : sset phi l (map phi l).
Proof. intros y. rewrite in_map_iff. split; intros (x & A & B); eauto. Qed.
