(* NestedObs.v — executable definitions for nested traces (model only; proofs in NestedExec.v and
   NestedAccept.v): the tags of a program tree and the acceptor of a whole recorded dispatch log. *)
From Shred Require Import Base SrcParams Plan PlanObs Exec ExecObs.
Open Scope N_scope.

Definition tree_tags (rs : list reg) : list N := concat (map subtree_tags rs).

(* number of events of one run of a registration and everything inside it *)
Fixpoint reg_events (r : reg) : nat :=
  match r with
  | RSys _ _ _ _ _ _ => 2
  | RTL _ => 2
  | RBarrier => 0
  | RBatch _ _ _ _ _ _ cnt inner =>
      (2 + N.to_nat cnt * (fix go (rs : list reg) : nat := match rs with [] => O | r' :: rs' => reg_events r' + go rs' end) inner)%nat
  end.
Definition run_len (rs : list reg) : nat := fold_right (fun r a => (reg_events r + a)%nat) O rs.

Fixpoint split_ev (x : ev) (tr : list ev) : option (list ev * list ev) :=
  match tr with
  | [] => None
  | e :: r => if ev_eqb e x then Some ([], r)
              else match split_ev x r with Some (a, b) => Some (e :: a, b) | None => None end
  end.

Fixpoint chunks (len k : nat) (tr : list ev) : option (list (list ev)) :=
  match k with
  | O => match tr with [] => Some [] | _ => None end
  | S k' => match chunks len k' (skipn len tr) with Some cs => Some (firstn len tr :: cs) | None => None end
  end.

Fixpoint naccept (n : nat) (rs : list reg) (tr : list ev) : bool :=
  match n with
  | O => false
  | S n' =>
      match plan rs with
      | Err _ => false
      | Ok b =>
          accept_disp (layout_tags b) (b_tl b) (proj (sys_tags rs ++ tl_tags rs) tr) &&
          forallb (fun e => memN (ev_tag e) (tree_tags rs)) tr &&
          forallb (fun r => match r with
                            | RBatch t _ _ _ _ _ cnt inner =>
                                match split_ev (EF t) tr with
                                | Some (pre, rest) =>
                                    match split_ev (ER t) rest with
                                    | Some (mid, post) =>
                                        forallb (fun e => negb (memN (ev_tag e) (tree_tags inner))) (pre ++ post) &&
                                        match chunks (run_len inner) (N.to_nat cnt) (proj (tree_tags inner) mid) with
                                        | Some cs => forallb (naccept n' inner) cs
                                        | None => false
                                        end
                                    | None => false
                                    end
                                | None => false
                                end
                            | _ => true
                            end) rs
      end
  end.

