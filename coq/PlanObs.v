(* PlanObs.v — printer model (write_par_seq), per-level observations and the boolean
   property oracles that are (a) the statements of the planner theorems and (b) evaluated
   by the driver on every REAL observation of suite S1.  Models only; no proofs. *)
From Shred Require Import Base SrcParams Plan.
Open Scope N_scope.

(* ---------------- write_par_seq ---------------- *)

Definition sanitise (n : name) : name :=
  map (fun c => if (c =? 32) || (c =? 45) || (c =? 47) then 95 else c) n.

Fixpoint rev_lookup (id : N) (m : list (name * N)) : option name :=
  match m with
  | [] => None
  | (k, v) :: r => if v =? id then Some k else rev_lookup id r
  end.

Fixpoint uint_bytes (u : Decimal.uint) : list N :=
  match u with
  | Decimal.Nil => []
  | Decimal.D0 u => 48 :: uint_bytes u | Decimal.D1 u => 49 :: uint_bytes u
  | Decimal.D2 u => 50 :: uint_bytes u | Decimal.D3 u => 51 :: uint_bytes u
  | Decimal.D4 u => 52 :: uint_bytes u | Decimal.D5 u => 53 :: uint_bytes u
  | Decimal.D6 u => 54 :: uint_bytes u | Decimal.D7 u => 55 :: uint_bytes u
  | Decimal.D8 u => 56 :: uint_bytes u | Decimal.D9 u => 57 :: uint_bytes u
  end.
Definition dec_bytes (n : N) : list N := uint_bytes (N.to_uint n).

Definition placeholder (id : N) : name :=
  [117;110;110;97;109;101;100;95] ++ dec_bytes id.          (* "unnamed_<id>" *)

Definition display (m : list (name * N)) (id : N) : name :=
  match rev_lookup id m with
  | Some n => sanitise n
  | None => placeholder id
  end.

Definition render_sys (n : name) : list N := [9;9;9] ++ n ++ [44;10].
Definition render_group (g : list name) : list N :=
  [9;9;115;101;113;33;91;10] ++ concat (map render_sys g) ++ [9;9;93;44;10].
Definition render_stage (st : list (list name)) : list N :=
  [9;112;97;114;33;91;10] ++ concat (map render_group st) ++ [9;93;44;10].
Definition render (l : list (list (list name))) : list N :=
  [115;101;113;33;91;10] ++ concat (map render_stage l) ++ [93;10].

Definition map3 {A B} (f : A -> B) (l : list (list (list A))) : list (list (list B)) :=
  map (map (map f)) l.

(* the text written by write_par_seq: walks the id table *)
Definition print_builder (b : builder) : list N :=
  render (map3 (display (b_names b)) (layout_ids b)).

(* ---------------- levels of a nested program ---------------- *)

Fixpoint calls_reg (r : reg) : nat :=
  match r with
  | RBatch _ _ _ _ _ _ _ inner =>
      S ((fix go (rs : list reg) : nat := match rs with [] => O | r' :: rs' => (calls_reg r' + go rs')%nat end) inner)
  | _ => 1%nat
  end.
Fixpoint calls_regs (rs : list reg) : nat :=
  match rs with [] => O | r :: rs' => (calls_reg r + calls_regs rs')%nat end.

(* depth-first index (inner calls first, then the add_batch call) of the first failing call *)
Fixpoint err_index_reg (r : reg) (b : builder) : option nat :=
  match r with
  | RBatch _ _ _ _ _ _ _ inner =>
      match (fix go (rs : list reg) (bi : builder) {struct rs} : option nat :=
               match rs with
               | [] => None
               | r' :: rs' =>
                   match err_index_reg r' bi with
                   | Some i => Some i
                   | None => match run_reg r' bi with
                             | Ok bi' => option_map (Nat.add (calls_reg r')) (go rs' bi')
                             | Err _ => None
                             end
                   end
               end) inner empty_builder with
      | Some i => Some i
      | None => if is_ok (run_reg r b) then None else Some (calls_reg r - 1)%nat
      end
  | RSys _ _ _ _ _ _ => if is_ok (run_reg r b) then None else Some O
  | _ => None
  end.
Fixpoint err_index_regs (rs : list reg) (b : builder) : option nat :=
  match rs with
  | [] => None
  | r :: rs' =>
      match err_index_reg r b with
      | Some i => Some i
      | None => match run_reg r b with
                | Ok b' => option_map (Nat.add (calls_reg r)) (err_index_regs rs' b')
                | Err _ => None
                end
      end
  end.

(* all nested levels in depth-first order: (tag of the batch, its registration program) *)
Fixpoint inner_levels (r : reg) : list (N * list reg) :=
  match r with
  | RBatch tag _ _ _ _ _ _ inner =>
      (tag, inner) :: (fix go (rs : list reg) : list (N * list reg) :=
                         match rs with [] => [] | r' :: rs' => inner_levels r' ++ go rs' end) inner
  | _ => []
  end.
Definition levels (rs : list reg) : list (N * list reg) :=
  (0, rs) :: concat (map inner_levels rs).

(* ---------------- declared access, including everything inside a batch ---------------- *)

Fixpoint eff_reads (r : reg) : list N :=
  match r with
  | RSys _ _ _ reads _ _ => reads
  | RBatch _ _ _ cr _ _ _ inner =>
      cr ++ (fix go (rs : list reg) : list N := match rs with [] => [] | r' :: rs' => eff_reads r' ++ go rs' end) inner
  | _ => []
  end.
Fixpoint eff_writes (r : reg) : list N :=
  match r with
  | RSys _ _ _ _ writes _ => writes
  | RBatch _ _ _ _ cw _ _ inner =>
      cw ++ (fix go (rs : list reg) : list N := match rs with [] => [] | r' :: rs' => eff_writes r' ++ go rs' end) inner
  | _ => []
  end.

Definition reg_tag (r : reg) : option N :=
  match r with
  | RSys t _ _ _ _ _ => Some t
  | RBatch t _ _ _ _ _ _ _ => Some t
  | _ => None
  end.
Definition reg_name (r : reg) : name :=
  match r with RSys _ n _ _ _ _ => n | RBatch _ n _ _ _ _ _ _ => n | _ => [] end.
Definition reg_deps (r : reg) : list name :=
  match r with RSys _ _ d _ _ _ => d | RBatch _ _ d _ _ _ _ _ => d | _ => [] end.
Definition reg_time (r : reg) : Z :=
  match r with RSys _ _ _ _ _ t => t | RBatch _ _ _ _ _ t _ _ => t | _ => 0%Z end.
Definition is_sys (r : reg) : bool := match reg_tag r with Some _ => true | None => false end.

(* tags of the ordinary (staged) systems of one level, registration order *)
Fixpoint sys_tags (rs : list reg) : list N :=
  match rs with
  | [] => []
  | r :: rs' => match reg_tag r with Some t => t :: sys_tags rs' | None => sys_tags rs' end
  end.
Fixpoint tl_tags (rs : list reg) : list N :=
  match rs with
  | [] => []
  | RTL t :: rs' => t :: tl_tags rs'
  | _ :: rs' => tl_tags rs'
  end.

Fixpoint find_reg (t : N) (rs : list reg) : option reg :=
  match rs with
  | [] => None
  | r :: rs' => match reg_tag r with
                | Some t' => if t' =? t then Some r else find_reg t rs'
                | None => find_reg t rs'
                end
  end.
Fixpoint find_by_name (n : name) (rs : list reg) : option N :=
  match rs with
  | [] => None
  | r :: rs' => if is_sys r && negb (is_empty_name (reg_name r)) && name_eqb n (reg_name r)
                then reg_tag r else find_by_name n rs'
  end.

(* conflict between two registered systems, on what they (and everything inside them) declare *)
Definition reg_conflict (a b : reg) : bool :=
  rw_conflict (eff_reads a) (eff_writes a) (eff_reads b) (eff_writes b).

(* ---------------- positions in a layout of tags ---------------- *)

Definition layout := list (list (list N)).

Fixpoint index_of (t : N) (l : list N) : option nat :=
  match l with
  | [] => None
  | x :: r => if x =? t then Some O else option_map S (index_of t r)
  end.
Fixpoint pos_in_stage (t : N) (st : list (list N)) : option (nat * nat) :=
  match st with
  | [] => None
  | g :: r => match index_of t g with
              | Some i => Some (O, i)
              | None => option_map (fun p => (S (fst p), snd p)) (pos_in_stage t r)
              end
  end.
Fixpoint pos_of (t : N) (l : layout) : option (nat * nat * nat) :=
  match l with
  | [] => None
  | st :: r => match pos_in_stage t st with
               | Some (g, i) => Some (O, g, i)
               | None => option_map (fun p => match p with (s, g, i) => (S s, g, i) end) (pos_of t r)
               end
  end.
Definition stage_of (t : N) (l : layout) : option nat :=
  option_map (fun p => fst (fst p)) (pos_of t l).

Definition count_occ_N (x : N) (l : list N) : nat := length (filter (N.eqb x) l).
Definition perm_b (l1 l2 : list N) : bool :=
  (length l1 =? length l2)%nat &&
  forallb (fun x => (count_occ_N x l1 =? count_occ_N x l2)%nat) (l1 ++ l2).

Definition flat (l : layout) : list N := concat (concat l).

(* ---------------- oracles (one level: its program and a layout of tags) ---------------- *)

(* C04: the executed layout holds exactly the registered systems, once each *)
Definition o_exec_perm (rs : list reg) (l : layout) : bool := perm_b (sys_tags rs) (flat l).

(* C01/C07: systems in different groups of one stage do not conflict *)
Definition conflict_tags (rs : list reg) (a b : N) : bool :=
  match find_reg a rs, find_reg b rs with
  | Some ra, Some rb => reg_conflict ra rb
  | _, _ => true                                 (* unknown tag in a layout: never accepted *)
  end.
Fixpoint groups_isolated (rs : list reg) (st : list (list N)) : bool :=
  match st with
  | [] => true
  | g :: r =>
      forallb (fun g' => forallb (fun a => forallb (fun b => negb (conflict_tags rs a b)) g') g) r
      && groups_isolated rs r
  end.
Definition o_isolated (rs : list reg) (l : layout) : bool := forallb (groups_isolated rs) l.

(* C02: every dependency sits in an earlier stage, or earlier in the same group *)
Definition before_b (l : layout) (d s : N) : bool :=
  match pos_of d l, pos_of s l with
  | Some (sd, gd, id), Some (ss, gs, is_) =>
      (sd <? ss)%nat || ((sd =? ss)%nat && (gd =? gs)%nat && (id <? is_)%nat)
  | _, _ => false
  end.
Definition dep_tags (rs : list reg) (r : reg) : list N :=
  concat (map (fun n => match find_by_name n rs with Some t => [t] | None => [] end) (reg_deps r)).
Definition o_deps_ordered (rs : list reg) (l : layout) : bool :=
  forallb (fun r => match reg_tag r with
                    | Some t => forallb (fun d => before_b l d t) (dep_tags rs r)
                    | None => true
                    end) rs.

(* C03: everything registered before a barrier lies in a strictly earlier stage than
   everything registered after it.  Walk in registration order: [mx] = 1 + the largest stage
   used so far, [lo] = the value of [mx] at the most recent barrier. *)
Fixpoint barriers_ok (mx lo : nat) (post : list reg) (l : layout) : bool :=
  match post with
  | [] => true
  | RBarrier :: post' => barriers_ok mx mx post' l
  | r :: post' =>
      match reg_tag r with
      | None => barriers_ok mx lo post' l
      | Some t =>
          match stage_of t l with
          | None => false
          | Some k => (lo <=? k)%nat && barriers_ok (Nat.max mx (S k)) lo post' l
          end
      end
  end.
Definition o_barriers (rs : list reg) (l : layout) : bool := barriers_ok O O rs l.

(* C10: a skipped stage holds an earlier-registered conflicting system, or a dependency sits
   in that stage or a later one.  [pre] = earlier registered systems with their stages,
   [lo] = first stage usable since the most recent barrier. *)
Definition dep_stages (rs : list reg) (r : reg) (l : layout) : list nat :=
  concat (map (fun d => match stage_of d l with Some sd => [sd] | None => [] end) (dep_tags rs r)).
Definition skip_ok (rs : list reg) (pre : list (reg * nat)) (lo : nat) (r : reg) (k : nat) (l : layout) : bool :=
  let conf := map snd (filter (fun e => reg_conflict r (fst e)) pre) in
  let depst := dep_stages rs r l in
  forallb (fun j => (j <? lo)%nat || existsb (Nat.eqb j) conf || existsb (fun sd => (j <=? sd)%nat) depst)
          (seq 0 k).
Fixpoint skips_justified (rs : list reg) (pre : list (reg * nat)) (lo : nat) (post : list reg) (l : layout) : bool :=
  match post with
  | [] => true
  | RBarrier :: post' =>
      skips_justified rs pre (fold_left (fun m e => Nat.max m (S (snd e))) pre O) post' l
  | r :: post' =>
      match reg_tag r with
      | None => skips_justified rs pre lo post' l
      | Some t =>
          match stage_of t l with
          | None => false
          | Some k => skip_ok rs pre lo r k l && skips_justified rs (pre ++ [(r, k)]) lo post' l
          end
      end
  end.
Definition o_skip_justified (rs : list reg) (l : layout) : bool := skips_justified rs [] O rs l.

(* C10: reported maximum thread count = width of the widest stage *)
Definition o_max_threads (l : layout) (reported : nat) : bool :=
  (reported =? maxnat (map (@length (list N)) l))%nat.

(* C20: printed text = rendering of the executed layout with display names.
   ids are the positions of the add calls of this level. *)
Fixpoint ids_of (rs : list reg) (next : N) : list (N * N) :=       (* tag -> SystemId *)
  match rs with
  | [] => []
  | r :: rs' => match reg_tag r with
                | Some t => (t, next) :: ids_of rs' (N.succ next)
                | None => ids_of rs' next
                end
  end.
Fixpoint assoc_N (t : N) (m : list (N * N)) : option N :=
  match m with [] => None | (k, v) :: r => if k =? t then Some v else assoc_N t r end.
Definition display_tag (rs : list reg) (t : N) : name :=
  match find_reg t rs with
  | Some r => if is_empty_name (reg_name r)
              then placeholder (match assoc_N t (ids_of rs 0) with Some i => i | None => 0 end)
              else sanitise (reg_name r)
  | None => []
  end.
Definition o_print (rs : list reg) (l : layout) (text : list N) : bool :=
  list_eqb N.eqb text (render (map3 (display_tag rs) l)).

(* C18: specification of the first rejected call, by name bookkeeping only (no planner):
   (depth-first index of the call, error).  Dependencies are checked first, in list order,
   then the reuse of a non-empty name. *)
Definition mem_name (n : name) (l : list name) : bool := existsb (name_eqb n) l.
Definition check_call (names : list name) (nm : name) (deps : list name) : option err :=
  match find (fun d => negb (mem_name d names)) deps with
  | Some d => Some (ENoSuch d)
  | None => if negb (is_empty_name nm) && mem_name nm names then Some (EDup nm) else None
  end.
Definition shift_err (k : nat) (x : nat * err) : nat * err := ((k + fst x)%nat, snd x).
Definition names_after (names : list name) (r : reg) : list name :=
  if is_sys r && negb (is_empty_name (reg_name r)) then names ++ [reg_name r] else names.
Fixpoint spec_err_reg (r : reg) (names : list name) : option (nat * err) :=
  match r with
  | RSys _ nm deps _ _ _ => option_map (fun e => (O, e)) (check_call names nm deps)
  | RBatch _ nm deps _ _ _ _ inner =>
      match (fix go (rs : list reg) (ni : list name) {struct rs} : option (nat * err) :=
               match rs with
               | [] => None
               | r' :: rs' =>
                   match spec_err_reg r' ni with
                   | Some x => Some x
                   | None => option_map (shift_err (calls_reg r')) (go rs' (names_after ni r'))
                   end
               end) inner [] with
      | Some x => Some x
      | None => option_map (fun e => ((calls_reg r - 1)%nat, e)) (check_call names nm deps)
      end
  | _ => None
  end.
Fixpoint spec_err_regs (rs : list reg) (names : list name) : option (nat * err) :=
  match rs with
  | [] => None
  | r :: rs' =>
      match spec_err_reg r names with
      | Some x => Some x
      | None => option_map (shift_err (calls_reg r)) (spec_err_regs rs' (names_after names r))
      end
  end.
Definition spec_first_error (rs : list reg) : option (nat * err) := spec_err_regs rs [].

(* C12: convertible to the sendable form exactly when there is no thread-local system *)
Definition o_sendable (rs : list reg) (ok : bool) : bool := Bool.eqb ok (match tl_tags rs with [] => true | _ => false end).
